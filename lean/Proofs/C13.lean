import Proofs.AlignLemmas
import Proofs.AlignArgsLemmas
import Mathlib.Algebra.Order.Ring.Rat

/-!
# C13 — `align_wcs` leaves a complete, truthful status on every input and no half-updates

Property theorems only (helper lemmas: `Proofs/AlignLemmas.lean`, `Proofs/C15Lemmas.lean`).
The model is `TW.alignWcs` (`Model/Align.lean`): images are `(group id, list of source
identities)`, the matcher is ideal, overlap areas are arbitrary parameters, and every write of
`meta['fit_info']` (`Event.status`) and every `set_correction` call (`Event.correct`) is recorded
in `out.events`.  `statusCount k`, `correctCount k` count the events of image `k`.

All statements hold for every list of images, every assignment of group ids, every reference
catalog, every option value and every overlap function; the only hypothesis `NonnegRaw` says that
the guarded areas between groups are not negative (they are absolute values), as in C15.

Whether the matched sources of a group can be fitted is data of the input (`Img.fitFail`); since
/repo 4565404 `align_to_ref` reports a degenerate fit as `FAILED: singular matrix` / `FAILED: not
enough points` (`cfg.catchFit = true`, the default).  The first seven theorems hold for both values
of `cfg.catchFit`; `no_midrun_exception` is the statement that fails for the behaviour before the
repair (witness: `example`s at the end).  Second part: `alignWcsEntry` (argument validation at the
top of `align_wcs`) and `fitWcs` (`fit_wcs`).
-/
open TW TW.C15L TW.AlignL
set_option linter.unusedSectionVars false

namespace TW.C13
variable {K : Type} [LinearOrder K] [Add K] [NatCast K] [BEq K]
variable (imgs : List Img) (refIn : Option (List Nat × Option (List Int))) (cfg : AlignCfg)
  (pairG : List (List (K × Nat))) (refArea : List RefRow → Nat → K × Nat)

/-- **status_total**: if `align_wcs` returns, `fit_info` has been written exactly once for every
input image, i.e. every image has exactly one status (REFERENCE, SUCCESS or FAILED:reason) -/
theorem status_total (hg : NonnegRaw (keptGroups imgs).length pairG)
    (hret : (alignWcs imgs refIn cfg pairG refArea).err = none) (k : Nat) (hk : k < imgs.length) :
    statusCount k (alignWcs imgs refIn cfg pairG refArea).events = 1 ∧
    ∃ s, Event.status k s ∈ (alignWcs imgs refIn cfg pairG refArea).events ∧
      ∀ s', Event.status k s' ∈ (alignWcs imgs refIn cfg pairG refArea).events → s' = s := by
  rw [← keptGroups_eq] at hg
  obtain ⟨refGroups, results, hev, _, _, hperm, _⟩ := alignWcs_decomp imgs cfg pairG refArea refIn hg hret
  have hcount : statusCount k (alignWcs imgs refIn cfg pairG refArea).events = 1 := by
    rw [hev, statusCount_append, statusCount_append, count_refblock, statusCount_blocks]
    have h1 := count_flatten_perm hperm k
    rw [List.flatten_append, List.count_append] at h1
    have h2 := statusCount_dropEmpty imgs (formGroups (imgs.map (·.gid))) k
    have h3 := groups_count (imgs.map (·.gid)) k
    rw [gids_length, if_pos hk] at h3
    omega
  refine ⟨hcount, ?_⟩
  -- the single status event
  unfold statusCount at hcount
  obtain ⟨e, he⟩ := List.length_eq_one_iff.mp hcount
  have hmem : e ∈ (alignWcs imgs refIn cfg pairG refArea).events.filter (isStatusOf k) := by rw [he]; simp
  rw [List.mem_filter] at hmem
  cases e with
  | correct i => simp [isStatusOf] at hmem
  | status i s =>
    have hik : i = k := by simpa [isStatusOf] using hmem.2
    subst hik
    refine ⟨s, hmem.1, ?_⟩
    intro s' hs'
    have : Event.status i s' ∈ (alignWcs imgs refIn cfg pairG refArea).events.filter (isStatusOf i) := by
      rw [List.mem_filter]; exact ⟨hs', by simp [isStatusOf]⟩
    rw [he, List.mem_singleton] at this
    injection this with _ h2

/-- **reference_iff**: without a reference catalog exactly one group is REFERENCE (all of its
members and nobody else); with one, no image is -/
theorem reference_iff (hg : NonnegRaw (keptGroups imgs).length pairG)
    (hret : (alignWcs imgs refIn cfg pairG refArea).err = none) :
    (refIn = none → ∃ gr ∈ formGroups (imgs.map (·.gid)), gr ∈ keptGroups imgs ∧
        ∀ k, Event.status k .reference ∈ (alignWcs imgs refIn cfg pairG refArea).events ↔ k ∈ gr) ∧
    (refIn ≠ none → ∀ k, Event.status k .reference ∉ (alignWcs imgs refIn cfg pairG refArea).events) := by
  rw [← keptGroups_eq] at hg
  obtain ⟨refGroups, results, hev, _, _, hperm, hlen⟩ := alignWcs_decomp imgs cfg pairG refArea refIn hg hret
  have hmem : ∀ k, Event.status k .reference ∈ (alignWcs imgs refIn cfg pairG refArea).events ↔
      ∃ gr ∈ refGroups, k ∈ gr := by
    intro k
    rw [hev, List.mem_append, List.mem_append, mem_dropEmpty_status, mem_blocks_status]
    constructor
    · rintro ((⟨h, _⟩ | h) | ⟨r, _, _, h⟩)
      · cases h
      · simp only [List.mem_flatMap, List.mem_map] at h
        obtain ⟨gr, hgr, i, hi, he⟩ := h
        injection he with h1 _
        subst h1
        exact ⟨gr, hgr, hi⟩
      · cases hr2 : r.2 <;> rw [hr2] at h <;> cases h
    · rintro ⟨gr, hgr, hk⟩
      refine Or.inl (Or.inr ?_)
      simp only [List.mem_flatMap, List.mem_map]
      exact ⟨gr, hgr, k, hk, rfl⟩
  constructor
  · intro hnone
    subst hnone
    simp only [Option.isNone_none, if_true] at hlen
    obtain ⟨gr, hgr⟩ := List.length_eq_one_iff.mp hlen
    subst hgr
    have hin : gr ∈ (dropEmpty imgs (formGroups (imgs.map (·.gid)))).1 :=
      hperm.subset (by simp)
    have hin' := hin
    rw [dropEmpty_kept, List.mem_filter] at hin'
    refine ⟨gr, hin'.1, by rw [← keptGroups_eq]; exact hin, ?_⟩
    intro k
    rw [hmem]; simp
  · intro hsome k
    have : refIn.isNone = false := by
      cases refIn with
      | none => exact absurd rfl hsome
      | some _ => rfl
    rw [this] at hlen
    simp only [Bool.false_eq_true, if_false, List.length_eq_zero_iff] at hlen
    rw [hmem, hlen]; simp

/-- **group_shares**: the members of a group share their status (they receive copies of one
`fit_info`) -/
theorem group_shares (hg : NonnegRaw (keptGroups imgs).length pairG)
    (hret : (alignWcs imgs refIn cfg pairG refArea).err = none)
    (gr : List Nat) (hgr : gr ∈ formGroups (imgs.map (·.gid))) (a b : Nat) (ha : a ∈ gr) (hb : b ∈ gr)
    (s : Status) :
    Event.status a s ∈ (alignWcs imgs refIn cfg pairG refArea).events ↔
      Event.status b s ∈ (alignWcs imgs refIn cfg pairG refArea).events := by
  rw [← keptGroups_eq] at hg
  obtain ⟨P, hP⟩ := status_mem_iff imgs refIn cfg pairG refArea hg hret
  rw [hP, hP]
  constructor
  · rintro ⟨gr', hgr', hk, hp⟩
    have := group_unique (imgs.map (·.gid)) hgr hgr' ha hk
    subst this
    exact ⟨gr, hgr, hb, hp⟩
  · rintro ⟨gr', hgr', hk, hp⟩
    have := group_unique (imgs.map (·.gid)) hgr hgr' hb hk
    subst this
    exact ⟨gr, hgr, ha, hp⟩

/-- **corrected_once**: `set_correction` is called exactly once on an image that ends SUCCESS and
never on any other image (the work list strictly shrinks; a popped group is never revisited) -/
theorem corrected_once (hg : NonnegRaw (keptGroups imgs).length pairG)
    (hret : (alignWcs imgs refIn cfg pairG refArea).err = none) (k : Nat) :
    correctCount k (alignWcs imgs refIn cfg pairG refArea).events =
      if Event.status k .success ∈ (alignWcs imgs refIn cfg pairG refArea).events then 1 else 0 := by
  rw [← keptGroups_eq] at hg
  obtain ⟨refGroups, results, hev, _, _, hperm, _⟩ := alignWcs_decomp imgs cfg pairG refArea refIn hg hret
  have hc : correctCount k (alignWcs imgs refIn cfg pairG refArea).events
      = ((results.filter (·.2.isNone)).map (·.1)).flatten.count k := by
    rw [hev, correctCount_append, correctCount_append, correctCount_dropEmpty, correct_refblock,
      correctCount_blocks]; omega
  have hle : ((results.filter (·.2.isNone)).map (·.1)).flatten.count k ≤ 1 := by
    have h1 := count_flatten_perm hperm k
    rw [List.flatten_append, List.count_append] at h1
    have h2 := statusCount_dropEmpty imgs (formGroups (imgs.map (·.gid))) k
    have h3 := groups_count (imgs.map (·.gid)) k
    have h4 := count_filter_le k results
    split at h3 <;> omega
  have hs : Event.status k .success ∈ (alignWcs imgs refIn cfg pairG refArea).events ↔
      k ∈ ((results.filter (·.2.isNone)).map (·.1)).flatten := by
    rw [hev, List.mem_append, List.mem_append, mem_dropEmpty_status, mem_blocks_status]
    simp only [List.mem_flatten, List.mem_map, List.mem_filter]
    constructor
    · rintro ((⟨h, _⟩ | h) | ⟨r, hr, hk, hs⟩)
      · cases h
      · simp only [List.mem_flatMap, List.mem_map] at h
        obtain ⟨gr, _, i, _, he⟩ := h
        injection he with _ h2; cases h2
      · refine ⟨r.1, ⟨r, ⟨hr, ?_⟩, rfl⟩, hk⟩
        cases hr2 : r.2 with
        | none => rfl
        | some x => rw [hr2] at hs; cases hs
    · rintro ⟨gr, ⟨r, ⟨hr, hok⟩, rfl⟩, hk⟩
      refine Or.inr ⟨r, hr, hk, ?_⟩
      cases hr2 : r.2 with
      | none => rfl
      | some x => rw [hr2] at hok; cases hok
  rw [hc]
  split
  · next h =>
    have := List.count_pos_iff.mpr (hs.mp h)
    omega
  · next h =>
    exact List.count_eq_zero.mpr (fun hc => h (hs.mpr hc))

/-- **unchanged_if_not_success**: an image that does not end SUCCESS (REFERENCE or FAILED) is
never passed to `set_correction`: its sky mapping is the one it came in with -/
theorem unchanged_if_not_success (hg : NonnegRaw (keptGroups imgs).length pairG)
    (hret : (alignWcs imgs refIn cfg pairG refArea).err = none) (k : Nat)
    (hns : Event.status k .success ∉ (alignWcs imgs refIn cfg pairG refArea).events) :
    Event.correct k ∉ (alignWcs imgs refIn cfg pairG refArea).events := by
  have := corrected_once imgs refIn cfg pairG refArea hg hret k
  rw [if_neg hns] at this
  exact List.count_eq_zero.mp this

/-- **not_enough_iff**: `NotEnoughCatalogs` is raised exactly when (the reference catalog being
acceptable) fewer than two groups — fewer than one when a reference catalog is given — have a
non-empty catalog -/
theorem not_enough_iff :
    (alignWcs imgs refIn cfg pairG refArea).err = some .notEnoughCatalogs ↔
      refEmpty refIn = false ∧
      ((refIn = none ∧ (keptGroups imgs).length < 2) ∨ (keptGroups imgs).length = 0) := by
  rw [← keptGroups_eq]
  unfold alignWcs
  by_cases he : refEmpty refIn = true
  · simp [he, alignFail]
  rw [if_neg he]
  have he' : refEmpty refIn = false := by simpa using he
  simp only [he', true_and]
  by_cases hne : (refIn.isNone = true ∧ (dropEmpty imgs (formGroups (imgs.map (·.gid)))).1.length < 2) ∨
      (dropEmpty imgs (formGroups (imgs.map (·.gid)))).1.length = 0
  · rw [if_pos hne]
    simp only [alignFail, true_iff]
    rcases hne with ⟨h1, h2⟩ | h
    · exact Or.inl ⟨Option.isNone_iff_eq_none.mp h1, h2⟩
    · exact Or.inr h
  · rw [if_neg hne]
    constructor
    · intro h
      exfalso
      split at h
      · next e hst =>
        -- `alignStart` can only fail with `indexError`
        have : e = .indexError := by
          unfold alignStart at hst
          split at hst
          · split at hst
            · injection hst with hst; exact hst.symm
            · split at hst
              · cases hst
              · injection hst with hst; exact hst.symm
          · cases hst
        subst this
        simp [alignFail] at h
      · next st _ =>
        simp only at h
        rcases alignLoop_err imgs _ cfg _ refArea _ st.cur st.work st.cat with
          h1 | ⟨h1, _⟩ | ⟨h1, _⟩ | ⟨f, h1, _⟩ <;> rw [h1] at h <;> cases h
    · rintro (⟨h1, h2⟩ | h)
      · exact absurd (Or.inl ⟨by rw [h1]; rfl, h2⟩) hne
      · exact absurd (Or.inr h) hne

/-- **raises_before_any_change**: when `NotEnoughCatalogs` (or the refusal of an empty reference
catalog) is raised no `set_correction` call has been made, nothing has been aligned and no
catalog is returned; the only writes are the `FAILED: empty source catalog` statuses -/
theorem raises_before_any_change
    (h : (alignWcs imgs refIn cfg pairG refArea).err = some .notEnoughCatalogs ∨
         (alignWcs imgs refIn cfg pairG refArea).err = some .emptyRefcat) :
    (∀ k, Event.correct k ∉ (alignWcs imgs refIn cfg pairG refArea).events) ∧
    (∀ k s, Event.status k s ∈ (alignWcs imgs refIn cfg pairG refArea).events → s = .failed .emptyCatalog) ∧
    (alignWcs imgs refIn cfg pairG refArea).order = [] ∧
    (alignWcs imgs refIn cfg pairG refArea).refcat = [] := by
  unfold alignWcs at h ⊢
  by_cases he : refEmpty refIn = true
  · simp [he, alignFail]
  rw [if_neg he] at h ⊢
  simp only [] at h ⊢
  split
  · unfold alignFail
    refine ⟨?_, ?_, rfl, rfl⟩
    · intro k hk
      have := correctCount_dropEmpty imgs (formGroups (imgs.map (·.gid))) k
      exact List.count_eq_zero.mp this hk
    · intro k s hs
      exact ((mem_dropEmpty_status imgs _ k s).mp hs).1
  · next hne =>
    exfalso
    rw [if_neg hne] at h
    split at h
    · next e hst =>
      have : e = .indexError := by
        unfold alignStart at hst
        split at hst
        · split at hst
          · injection hst with hst; exact hst.symm
          · split at hst
            · cases hst
            · injection hst with hst; exact hst.symm
        · cases hst
      subst this
      simp [alignFail] at h
    · next st _ =>
      simp only at h
      rcases alignLoop_err imgs _ cfg _ refArea _ st.cur st.work st.cat with
        h1 | ⟨h1, _⟩ | ⟨h1, _⟩ | ⟨f, h1, _⟩ <;> rw [h1] at h <;> simp at h


/-! ### degenerate fits -/

/-- **status_reasons**: the only statuses `align_wcs` writes are REFERENCE, SUCCESS and FAILED with
one of four reasons (whether it returns or raises) -/
theorem status_reasons (k : Nat) (s : Status)
    (h : Event.status k s ∈ (alignWcs imgs refIn cfg pairG refArea).events) :
    s = .reference ∨ s = .success ∨ s = .failed .emptyCatalog ∨ s = .failed .notEnoughMatches ∨
    s = .failed .singularMatrix ∨ s = .failed .notEnoughPoints := by
  rcases alignWcs_ends imgs cfg refArea refIn pairG with
    ⟨h1, _⟩ | h1 | ⟨h1, _, _⟩ | ⟨st, _, hst, _, _, _, _, _, _, hev⟩
  · rw [h1] at h; simp [alignFail] at h
  · rw [h1] at h
    exact Or.inr (Or.inr (Or.inl ((mem_dropEmpty_status imgs _ k s).mp h).1))
  · rw [h1] at h
    exact Or.inr (Or.inr (Or.inl ((mem_dropEmpty_status imgs _ k s).mp h).1))
  · rw [hev, List.mem_append, List.mem_append] at h
    rcases h with (h | h) | h
    · exact Or.inr (Or.inr (Or.inl ((mem_dropEmpty_status imgs _ k s).mp h).1))
    · obtain ⟨gr, hgr⟩ := alignStart_ev1 imgs _ _ refArea refIn pairG st hst
      rw [hgr] at h
      obtain ⟨i, _, hi⟩ := List.mem_map.mp h
      injection hi with _ h2
      exact Or.inl h2.symm
    · obtain ⟨r, hr, _, hs⟩ := (mem_blocks_status k s _).mp h
      obtain ⟨nm, _, cat', _, _, _, h4⟩ :=
        forall₂_left (alignLoop_outcomes imgs _ cfg _ refArea _ st.cur st.work st.cat) r hr
      rw [hs, h4]
      rcases groupOutcome_cases imgs cfg r.1 cat' with h5 | h5 | h5 | h5 <;> rw [h5] <;> simp [outcomeStatus]

/-- **no_midrun_exception**: with valid arguments (`fitgeom` known) `align_wcs` is left by an
exception only for too few non-empty catalogs, an empty reference catalog, or — with `match=None` —
catalogs of unequal length; in particular no degenerate fit makes it raise (since 4565404) -/
theorem no_midrun_exception (hg : NonnegRaw (keptGroups imgs).length pairG)
    (hc : cfg.catchFit = true) (hk : cfg.fitgeomKnown = true) :
    (alignWcs imgs refIn cfg pairG refArea).err = none ∨
    (alignWcs imgs refIn cfg pairG refArea).err = some .notEnoughCatalogs ∨
    (alignWcs imgs refIn cfg pairG refArea).err = some .emptyRefcat ∨
    ((alignWcs imgs refIn cfg pairG refArea).err = some .lengthMismatch ∧ cfg.mode = .none1to1) := by
  rw [← keptGroups_eq] at hg
  rcases alignWcs_ends imgs cfg refArea refIn pairG with
    ⟨h1, _⟩ | h1 | ⟨_, hst, hne⟩ | ⟨st, _, _, herr, _⟩
  · rw [h1]; exact Or.inr (Or.inr (Or.inl rfl))
  · rw [h1]; exact Or.inr (Or.inl rfl)
  · exfalso
    cases refIn with
    | none =>
      have hn : 2 ≤ (dropEmpty imgs (formGroups (imgs.map (·.gid)))).1.length := by
        by_contra hcn
        exact hne (Or.inl ⟨rfl, by omega⟩)
      obtain ⟨ri, ii, a, rest, hst', _⟩ :=
        alignStart_none imgs _ (cfg.enforce || !cfg.expand) pairG refArea hn hg
      rw [hst'] at hst; cases hst
    | some p =>
      obtain ⟨srcs, ids⟩ := p
      rw [alignStart_some] at hst; cases hst
  · rw [herr]
    rcases alignLoop_err imgs _ cfg _ refArea _ st.cur st.work st.cat with
      h1 | ⟨h1, h2⟩ | ⟨_, h2⟩ | ⟨f, _, h2⟩
    · exact Or.inl h1
    · exact Or.inr (Or.inr (Or.inr ⟨h1, h2⟩))
    · rw [hk] at h2; cases h2
    · rw [hc] at h2; cases h2

/-- **group_outcome**: the group aligned in position `i` is matched against a reference catalog
`cat'` that extends the initial one (and *is* the initial one without `expand_refcat`); its
`nmatches` is the number of its sources found there, and its outcome is decided by exactly that:
`FAILED: not enough matches` below `max(minobj, minimum of the fit geometry)`, else the failure of
a degenerate fit (`FAILED: singular matrix` / `not enough points`), else SUCCESS -/
theorem group_outcome (i : Nat) (gr : List Nat)
    (h : (alignWcs imgs refIn cfg pairG refArea).order[i]? = some gr) :
    ∃ (cat' : List RefRow) (nm : Nat),
      (∃ t, cat' = (alignWcs imgs refIn cfg pairG refArea).initial ++ t) ∧
      (cfg.expand = false → cat' = (alignWcs imgs refIn cfg pairG refArea).initial) ∧
      (alignWcs imgs refIn cfg pairG refArea).nms[i]? = some nm ∧ nm = nMatches imgs cfg gr cat' ∧
      (alignWcs imgs refIn cfg pairG refArea).outcomes[i]? = some
        (if nm < effMinobj cfg then some .notEnoughMatches else (fitFailOf imgs gr).map (·.reason)) := by
  rcases alignWcs_ends imgs cfg refArea refIn pairG with
    ⟨h1, _⟩ | h1 | ⟨h1, _, _⟩ | ⟨st, _, hst, _, hord, hout, hnms, hini, _, _⟩
  · rw [h1] at h; simp [alignFail] at h
  · rw [h1] at h; simp [alignFail] at h
  · rw [h1] at h; simp [alignFail] at h
  · rw [hord, List.getElem?_map] at h
    cases hr : (alignLoop imgs (dropEmpty imgs (formGroups (imgs.map (·.gid)))).1 cfg
        (cfg.enforce || !cfg.expand) refArea ((dropEmpty imgs (formGroups (imgs.map (·.gid)))).1.length + 1)
        st.cur st.work st.cat).results[i]? with
    | none => rw [hr] at h; cases h
    | some r =>
      rw [hr] at h
      simp only [Option.map_some, Option.some.injEq] at h
      obtain ⟨nm, hnm, cat', h1, h2, h3, h4⟩ :=
        forall₂_get (alignLoop_outcomes imgs _ cfg _ refArea _ st.cur st.work st.cat) i r hr
      refine ⟨cat', nm, by rw [hini]; exact h1, by rw [hini]; exact h2, by rw [hnms]; exact hnm,
        by rw [← h]; exact h3, ?_⟩
      rw [hout, List.getElem?_map, hr, Option.map_some, h4, ← h, h3]
      rfl

/-- **fit_failure_status** (first half of the isolation of a degenerate fit): a group that ends
`FAILED: singular matrix` / `FAILED: not enough points` is one whose fit is degenerate and that had
enough matches; every member carries that status, none was passed to `set_correction`, none is
SUCCESS -/
theorem fit_failure_status (hg : NonnegRaw (keptGroups imgs).length pairG)
    (hret : (alignWcs imgs refIn cfg pairG refArea).err = none) (i : Nat) (gr : List Nat) (f : FitFail)
    (ho : (alignWcs imgs refIn cfg pairG refArea).order[i]? = some gr)
    (hf : (alignWcs imgs refIn cfg pairG refArea).outcomes[i]? = some (some f.reason)) :
    fitFailOf imgs gr = some f ∧
    (∃ nm, (alignWcs imgs refIn cfg pairG refArea).nms[i]? = some nm ∧ effMinobj cfg ≤ nm) ∧
    ∀ k ∈ gr, Event.status k (.failed f.reason) ∈ (alignWcs imgs refIn cfg pairG refArea).events ∧
      Event.status k .success ∉ (alignWcs imgs refIn cfg pairG refArea).events ∧
      Event.correct k ∉ (alignWcs imgs refIn cfg pairG refArea).events := by
  obtain ⟨cat', nm, _, _, hnm, _, hout⟩ := group_outcome imgs refIn cfg pairG refArea i gr ho
  rw [hf] at hout
  simp only [Option.some.injEq] at hout
  have hge : ¬ nm < effMinobj cfg := by
    intro hlt
    rw [if_pos hlt] at hout
    cases f <;> cases hout
  rw [if_neg hge] at hout
  have hff : fitFailOf imgs gr = some f := by
    cases hfo : fitFailOf imgs gr with
    | none => rw [hfo] at hout; cases hout
    | some f' =>
      rw [hfo] at hout
      simp only [Option.map_some, Option.some.injEq] at hout
      cases f <;> cases f' <;> first | rfl | cases hout
  refine ⟨hff, ⟨nm, hnm, by omega⟩, ?_⟩
  intro k hk
  have hg' := hg
  rw [← keptGroups_eq] at hg'
  obtain ⟨refGroups, results, hev, hord, houtc, hperm, _⟩ :=
    alignWcs_decomp imgs cfg pairG refArea refIn hg' hret
  -- the block of this group
  have hres : (gr, some f.reason) ∈ results := by
    rw [hord, List.getElem?_map] at ho
    rw [houtc, List.getElem?_map] at hf
    cases hr : results[i]? with
    | none => rw [hr] at ho; cases ho
    | some r =>
      rw [hr] at ho hf
      simp only [Option.map_some, Option.some.injEq] at ho hf
      have : r = (gr, some f.reason) := by rw [← ho, ← hf]
      rw [← this]
      exact List.mem_of_getElem? hr
  have hst : Event.status k (.failed f.reason) ∈ (alignWcs imgs refIn cfg pairG refArea).events := by
    rw [hev]
    apply List.mem_append_right
    exact (mem_blocks_status k _ results).mpr ⟨_, hres, hk, rfl⟩
  -- `k` is an input image
  have hklt : k < imgs.length := by
    have h1 : gr ∈ (dropEmpty imgs (formGroups (imgs.map (·.gid)))).1 :=
      hperm.subset (List.mem_append_right _ (List.mem_map.mpr ⟨_, hres, rfl⟩))
    rw [dropEmpty_kept, List.mem_filter] at h1
    have h2 : 0 < (formGroups (imgs.map (·.gid))).flatten.count k :=
      List.count_pos_iff.mpr (List.mem_flatten.mpr ⟨gr, h1.1, hk⟩)
    rw [groups_count, gids_length] at h2
    by_contra hc
    rw [if_neg hc] at h2
    cases h2
  obtain ⟨_, s, _, huniq⟩ := status_total imgs refIn cfg pairG refArea hg hret k hklt
  have hns : Event.status k .success ∉ (alignWcs imgs refIn cfg pairG refArea).events := by
    intro hsucc
    have e1 := huniq _ hst
    have e2 := huniq _ hsucc
    rw [← e2] at e1
    cases e1
  exact ⟨hst, hns, unchanged_if_not_success imgs refIn cfg pairG refArea hg hret k hns⟩

/-- **fit_failure_isolated**: without `expand_refcat` every group is treated on its own.  Let
`imgs'` be any input that differs from `imgs` only in which fits are degenerate (for instance: the
same run with the failing group fitted successfully, or failing for the other reason).  Then both
runs end the same way, align the same groups in the same order against the same (never extended)
reference catalog with the same `nmatches`, and every group whose own fit flag is the same gets the
same outcome, the same statuses and the same `set_correction` calls: what happens to a failing
group is invisible to all others (they end exactly as in a run in which that group merely had too
few matches — or was aligned).  *With* `expand_refcat` this is false: the failing group is not
appended (unless it has no overlap, `C14.appended_sound`), so later groups are matched against a
smaller catalog than in the run without the failure (`example`s below). -/
theorem fit_failure_isolated (imgs' : List Img) (hgid : imgs.map (·.gid) = imgs'.map (·.gid))
    (hsrc : imgs.map (·.sources) = imgs'.map (·.sources))
    (hc : cfg.catchFit = true) (hx : cfg.expand = false) :
    let out := alignWcs imgs refIn cfg pairG refArea
    let out' := alignWcs imgs' refIn cfg pairG refArea
    out.err = out'.err ∧ out.order = out'.order ∧ out.nms = out'.nms ∧ out.initial = out'.initial ∧
    out.refcat = out'.refcat ∧ out.refcat = out.initial ∧
    (∀ (i : Nat) (gr : List Nat), out.order[i]? = some gr → fitFailOf imgs gr = fitFailOf imgs' gr →
      out.outcomes[i]? = out'.outcomes[i]?) ∧
    (∀ k, (∀ gr ∈ out.order, k ∈ gr → fitFailOf imgs gr = fitFailOf imgs' gr) →
      (∀ s, Event.status k s ∈ out.events ↔ Event.status k s ∈ out'.events) ∧
      (Event.correct k ∈ out.events ↔ Event.correct k ∈ out'.events)) := by
  have hs := getD_sources imgs imgs' hsrc
  intro out out'
  show out.err = out'.err ∧ _
  have e1 : out = alignWcsWith imgs cfg refArea refIn pairG imgs := rfl
  have e2 : out' = alignWcsWith imgs cfg refArea refIn pairG imgs' :=
    (alignWcsWith_shape imgs cfg refArea refIn pairG imgs' hgid hs).symm
  rw [e1, e2]
  unfold alignWcsWith
  split
  · simp [alignFail]
  simp only []
  split
  · simp [alignFail]
  split
  · simp [alignFail]
  next st hst =>
  have hnog : (alignLoop imgs (dropEmpty imgs (formGroups (imgs.map (·.gid)))).1 cfg (cfg.enforce || !cfg.expand)
      refArea ((dropEmpty imgs (formGroups (imgs.map (·.gid)))).1.length + 1) st.cur st.work st.cat).refcat
      = st.cat := by
    obtain ⟨h1, _, h3, _⟩ := alignLoop_refcat imgs (dropEmpty imgs (formGroups (imgs.map (·.gid)))).1 cfg
      (cfg.enforce || !cfg.expand) refArea ((dropEmpty imgs (formGroups (imgs.map (·.gid)))).1.length + 1)
      st.cur st.work st.cat
    rw [h3 hx] at h1
    simpa using h1
  obtain ⟨i1, i2, i3, i4, i5⟩ := alignLoop_isolated imgs
    (dropEmpty imgs (formGroups (imgs.map (·.gid)))).1 cfg (cfg.enforce || !cfg.expand) refArea imgs' hs hc hx
    ((dropEmpty imgs (formGroups (imgs.map (·.gid)))).1.length + 1) st.cur st.work st.cat
  have hord : (alignLoop imgs (dropEmpty imgs (formGroups (imgs.map (·.gid)))).1 cfg (cfg.enforce || !cfg.expand)
      refArea ((dropEmpty imgs (formGroups (imgs.map (·.gid)))).1.length + 1) st.cur st.work st.cat).results.map (·.1)
      = (alignLoop imgs' (dropEmpty imgs (formGroups (imgs.map (·.gid)))).1 cfg (cfg.enforce || !cfg.expand)
      refArea ((dropEmpty imgs (formGroups (imgs.map (·.gid)))).1.length + 1) st.cur st.work st.cat).results.map (·.1) := by
    exact forall₂_map_eq _ _ i5 (fun a b hab => hab.1)
  refine ⟨i1, hord, i2, rfl, i3, hnog, ?_, ?_⟩
  · intro i gr hgr hflag
    simp only [List.getElem?_map] at hgr ⊢
    cases hr : (alignLoop imgs (dropEmpty imgs (formGroups (imgs.map (·.gid)))).1 cfg (cfg.enforce || !cfg.expand)
      refArea ((dropEmpty imgs (formGroups (imgs.map (·.gid)))).1.length + 1) st.cur st.work st.cat).results[i]? with
    | none => rw [hr] at hgr; cases hgr
    | some r =>
      rw [hr] at hgr
      simp only [Option.map_some, Option.some.injEq] at hgr
      obtain ⟨r', hr', h1, h2⟩ := forall₂_get i5 i r hr
      rw [hr', Option.map_some, Option.map_some, h2 (by rw [hgr]; rw [hgr] at h1; exact hflag)]
  · intro k hk
    have hk' : ∀ r ∈ (alignLoop imgs (dropEmpty imgs (formGroups (imgs.map (·.gid)))).1 cfg (cfg.enforce || !cfg.expand)
      refArea ((dropEmpty imgs (formGroups (imgs.map (·.gid)))).1.length + 1) st.cur st.work st.cat).results,
        k ∈ r.1 → fitFailOf imgs r.1 = fitFailOf imgs' r.1 :=
      fun r hr hkr => hk r.1 (List.mem_map.mpr ⟨r, hr, rfl⟩) hkr
    constructor
    · intro s
      simp only [List.mem_append, mem_blocks_status]
      constructor
      · rintro (h | ⟨r, hr, hkr, hsr⟩)
        · exact Or.inl h
        · obtain ⟨r', hr', h1, h2⟩ := forall₂_left i5 r hr
          exact Or.inr ⟨r', hr', h1 ▸ hkr, by rw [hsr, h2 (hk' r hr hkr)]⟩
      · rintro (h | ⟨r', hr', hkr, hsr⟩)
        · exact Or.inl h
        · obtain ⟨r, hr, h1, h2⟩ := forall₂_right i5 r' hr'
          have hkr' : k ∈ r.1 := h1 ▸ hkr
          exact Or.inr ⟨r, hr, hkr', by rw [hsr, h2 (hk' r hr hkr')]⟩
    · simp only [List.mem_append, mem_blocks_correct]
      constructor
      · rintro (h | ⟨r, hr, hkr, hsr⟩)
        · exact Or.inl h
        · obtain ⟨r', hr', h1, h2⟩ := forall₂_left i5 r hr
          exact Or.inr ⟨r', hr', h1 ▸ hkr, by rw [← h2 (hk' r hr hkr)]; exact hsr⟩
      · rintro (h | ⟨r', hr', hkr, hsr⟩)
        · exact Or.inl h
        · obtain ⟨r, hr, h1, h2⟩ := forall₂_right i5 r' hr'
          have hkr' : k ∈ r.1 := h1 ▸ hkr
          exact Or.inr ⟨r, hr, hkr', by rw [h2 (hk' r hr hkr')]; exact hsr⟩

/-! ### argument validation at the top of `align_wcs` (`alignWcsEntry`) -/

/-- **first_bad_catalog**: the catalog check runs over the correctors in list order and stops at
the first one without a usable catalog: `ValueError` "must have a valid catalog" for a missing one,
`ValueError` of `WCSImageCatalog` for one without 'x'/'y' -/
theorem first_bad_catalog (l : List ImgArg) :
    (catalogError l = none ↔ ∀ x ∈ l, x.cat = .ok) ∧
    (∀ e, catalogError l = some e ↔ ∃ pre x post, l = pre ++ x :: post ∧ (∀ y ∈ pre, y.cat = .ok) ∧
      ((x.cat = .missing ∧ e = .noCatalog) ∨ (x.cat = .noXY ∧ e = .catalogNoXY))) := by
  induction l with
  | nil => simp [catalogError]
  | cons a t ih =>
    obtain ⟨ih1, ih2⟩ := ih
    cases hc : a.cat with
    | ok =>
      have hce : catalogError (a :: t) = catalogError t := by simp [catalogError, hc]
      rw [hce]
      constructor
      · rw [ih1]; simp [hc]
      · intro e
        rw [ih2 e]
        constructor
        · rintro ⟨pre, x, post, h1, h2, h3⟩
          refine ⟨a :: pre, x, post, by rw [h1]; rfl, ?_, h3⟩
          intro y hy
          rcases List.mem_cons.mp hy with rfl | hy
          · exact hc
          · exact h2 y hy
        · rintro ⟨pre, x, post, h1, h2, h3⟩
          cases pre with
          | nil =>
            simp only [List.nil_append, List.cons.injEq] at h1
            rw [← h1.1, hc] at h3
            rcases h3 with ⟨h, _⟩ | ⟨h, _⟩ <;> cases h
          | cons p pre' =>
            simp only [List.cons_append, List.cons.injEq] at h1
            exact ⟨pre', x, post, h1.2, fun y hy => h2 y (List.mem_cons_of_mem _ hy), h3⟩
    | missing =>
      have hce : catalogError (a :: t) = some .noCatalog := by simp [catalogError, hc]
      rw [hce]
      constructor
      · simp [hc]
      · intro e
        constructor
        · intro h
          injection h with h
          exact ⟨[], a, t, rfl, by simp, Or.inl ⟨hc, h.symm⟩⟩
        · rintro ⟨pre, x, post, h1, h2, h3⟩
          cases pre with
          | nil =>
            simp only [List.nil_append, List.cons.injEq] at h1
            rw [← h1.1, hc] at h3
            rcases h3 with ⟨_, h⟩ | ⟨h, _⟩
            · rw [h]
            · cases h
          | cons p pre' =>
            simp only [List.cons_append, List.cons.injEq] at h1
            have := h2 p List.mem_cons_self
            rw [← h1.1, hc] at this; cases this
    | noXY =>
      have hce : catalogError (a :: t) = some .catalogNoXY := by simp [catalogError, hc]
      rw [hce]
      constructor
      · simp [hc]
      · intro e
        constructor
        · intro h
          injection h with h
          exact ⟨[], a, t, rfl, by simp, Or.inr ⟨hc, h.symm⟩⟩
        · rintro ⟨pre, x, post, h1, h2, h3⟩
          cases pre with
          | nil =>
            simp only [List.nil_append, List.cons.injEq] at h1
            rw [← h1.1, hc] at h3
            rcases h3 with ⟨h, _⟩ | ⟨_, h⟩
            · cases h
            · rw [h]
          | cons p pre' =>
            simp only [List.cons_append, List.cons.injEq] at h1
            have := h2 p List.mem_cons_self
            rw [← h1.1, hc] at this; cases this

/-- **validation_order**: which error wins when several arguments are invalid — the order of the
checks in the code: (1) type of `wcscat`; (2) first corrector without a usable catalog; (3)
`fitgeom` that is no string; (4) unknown `fitgeom`, **only when `minobj` is None** (the check is
made while looking up the default of `minobj`); (5) `refcat`: corrector without catalog / table
without RA, DEC / unsupported type; (6) everything after that is `alignWcs` on the accepted
arguments (whose first act is the refusal of an empty reference catalog) -/
theorem validation_order (a : AlignArgs) :
    (a.wcscat.typeError = true → (alignWcsEntry a pairG refArea).err = some .wcscatType) ∧
    (a.wcscat.typeError = false → ∀ e, catalogError a.wcscat.items = some e →
      (alignWcsEntry a pairG refArea).err = some e) ∧
    (a.wcscat.typeError = false → catalogError a.wcscat.items = none →
      (a.fitgeom = .notString → (alignWcsEntry a pairG refArea).err = some .fitgeomNotString) ∧
      (a.fitgeom = .unknown → a.minobj = none → (alignWcsEntry a pairG refArea).err = some .badFitgeom) ∧
      (a.fitgeom ≠ .notString → ¬ (a.fitgeom = .unknown ∧ a.minobj = none) →
        (∀ e, refCheck a.refcat = .error e → (alignWcsEntry a pairG refArea).err = some e) ∧
        (∀ r, refCheck a.refcat = .ok r →
          alignWcsEntry a pairG refArea = alignWcs (a.wcscat.items.map (·.img)) r a.cfg pairG refArea))) := by
  refine ⟨?_, ?_, ?_⟩
  · intro h; unfold alignWcsEntry; rw [if_pos h]; rfl
  · intro h e he; unfold alignWcsEntry; rw [if_neg (by simp [h])]; simp only [he]; rfl
  · intro h hc
    refine ⟨?_, ?_, ?_⟩
    · intro hf; unfold alignWcsEntry; rw [if_neg (by simp [h])]; simp only [hc]; rw [if_pos hf]; rfl
    · intro hf hm
      unfold alignWcsEntry
      rw [if_neg (by simp [h])]; simp only [hc]
      rw [if_neg (by rw [hf]; simp), if_pos ⟨hf, hm⟩]; rfl
    · intro hf hm
      constructor
      · intro e he
        unfold alignWcsEntry
        rw [if_neg (by simp [h])]; simp only [hc]
        rw [if_neg hf, if_neg hm]; simp only [he]; rfl
      · intro r hr
        unfold alignWcsEntry
        rw [if_neg (by simp [h])]; simp only [hc]
        rw [if_neg hf, if_neg hm]; simp only [hr]

/-- `alignWcsEntry` is a validation failure with nothing written, or `alignWcs` on the accepted
arguments -/
theorem entry_cases (a : AlignArgs) :
    (∃ e, e.isValidation = true ∧ e ≠ .emptyRefcat ∧ alignWcsEntry a pairG refArea = alignFail e []) ∨
    (∃ r, refCheck a.refcat = .ok r ∧ ¬ (a.fitgeom = .unknown ∧ a.minobj = none) ∧ a.fitgeom ≠ .notString ∧
      alignWcsEntry a pairG refArea = alignWcs (a.wcscat.items.map (·.img)) r a.cfg pairG refArea) := by
  unfold alignWcsEntry
  split
  · exact Or.inl ⟨_, rfl, by simp, rfl⟩
  split
  · next e he =>
    left
    refine ⟨e, ?_, ?_, rfl⟩
    · rcases ((first_bad_catalog a.wcscat.items).2 e).mp he with ⟨_, _, _, _, _, ⟨_, h⟩ | ⟨_, h⟩⟩ <;> rw [h] <;> rfl
    · rcases ((first_bad_catalog a.wcscat.items).2 e).mp he with ⟨_, _, _, _, _, ⟨_, h⟩ | ⟨_, h⟩⟩ <;> rw [h] <;> simp
  split
  · exact Or.inl ⟨_, rfl, by simp, rfl⟩
  next hns =>
  split
  · exact Or.inl ⟨_, rfl, by simp, rfl⟩
  next hnu =>
  split
  · next e he =>
    left
    have : e = .refNoCatalog ∨ e = .refNoRADEC ∨ e = .refcatType := by
      unfold refCheck at he
      split at he
      · cases he
      · split at he
        · cases he
        · injection he with he; exact Or.inl he.symm
      · split at he
        · cases he
        · injection he with he; exact Or.inr (Or.inl he.symm)
      · injection he with he; exact Or.inr (Or.inr he.symm)
    rcases this with h | h | h <;> exact ⟨e, by rw [h]; rfl, by rw [h]; simp, rfl⟩
  · next r hr => exact Or.inr ⟨r, hr, hnu, hns, rfl⟩

/-- **invalid_args_no_effect**: when `align_wcs` ends with one of the argument-validation errors
(wrong type of `wcscat`, corrector without usable catalog, `fitgeom` not a string / unknown with
`minobj=None`, reference corrector without catalog, table without RA/DEC, unsupported `refcat`
type, empty reference catalog) it has written **no** status, called no `set_correction`, aligned
nothing and built no catalog: the trace is empty.  (Not covered, because they come later:
`NotEnoughCatalogs` — raised after the `FAILED: empty source catalog` statuses,
`not_enough_after_empty_status` — and the `KeyError` of an unknown `fitgeom` passed together with an
explicit `minobj`, `late_fitgeom_error`.) -/
theorem invalid_args_no_effect (a : AlignArgs) (e : AlignErr)
    (he : (alignWcsEntry a pairG refArea).err = some e) (hv : e.isValidation = true) :
    (alignWcsEntry a pairG refArea).events = [] ∧ (alignWcsEntry a pairG refArea).order = [] ∧
    (alignWcsEntry a pairG refArea).refcat = [] ∧ (alignWcsEntry a pairG refArea).expansions = [] := by
  rcases entry_cases pairG refArea a with ⟨e', _, _, h⟩ | ⟨r, _, _, _, h⟩
  · rw [h]; simp [alignFail]
  · rw [h] at he ⊢
    rcases alignWcs_ends (a.wcscat.items.map (·.img)) a.cfg refArea r pairG with
      ⟨h1, _⟩ | h1 | ⟨h1, _, _⟩ | ⟨st, _, _, herr, _⟩
    · rw [h1]; simp [alignFail]
    · rw [h1] at he; simp only [alignFail, Option.some.injEq] at he; rw [← he] at hv; cases hv
    · rw [h1] at he; simp only [alignFail, Option.some.injEq] at he; rw [← he] at hv; cases hv
    · rw [herr] at he
      rcases alignLoop_err (a.wcscat.items.map (·.img)) _ a.cfg _ refArea _ st.cur st.work st.cat with
        h1 | ⟨h1, _⟩ | ⟨h1, _⟩ | ⟨f, h1, _⟩ <;> rw [h1] at he
      · cases he
      all_goals (simp only [Option.some.injEq] at he; rw [← he] at hv; cases hv)

/-- **not_enough_after_empty_status**: `NotEnoughCatalogs` is the one argument-related error raised
*after* something was written — the `FAILED: empty source catalog` statuses of the groups that were
dropped; still no `set_correction` call, nothing aligned, no catalog -/
theorem not_enough_after_empty_status (a : AlignArgs)
    (he : (alignWcsEntry a pairG refArea).err = some .notEnoughCatalogs) :
    (∀ k, Event.correct k ∉ (alignWcsEntry a pairG refArea).events) ∧
    (∀ k s, Event.status k s ∈ (alignWcsEntry a pairG refArea).events → s = .failed .emptyCatalog) ∧
    (alignWcsEntry a pairG refArea).order = [] ∧ (alignWcsEntry a pairG refArea).refcat = [] := by
  rcases entry_cases pairG refArea a with ⟨e', _, _, h⟩ | ⟨r, _, _, _, h⟩
  · rw [h]; simp [alignFail]
  · rw [h] at he ⊢
    exact raises_before_any_change _ r a.cfg pairG refArea (Or.inl he)

/-- **late_fitgeom_error**: an unknown `fitgeom` passed together with an explicit `minobj` is not
caught by the validation (the check sits inside `if minobj is None`); it surfaces as the `KeyError`
of `SUPPORTED_FITGEOM_MODES[fitgeom]` in the first `align_to_ref` call: after the `FAILED: empty
source catalog` and REFERENCE statuses were written, but before any group is aligned — no
`set_correction` call, no other status -/
theorem late_fitgeom_error (a : AlignArgs)
    (he : (alignWcsEntry a pairG refArea).err = some .fitgeomKeyError) :
    (a.fitgeom = .unknown ∧ a.minobj ≠ none) ∧
    (∀ k, Event.correct k ∉ (alignWcsEntry a pairG refArea).events) ∧
    (∀ k s, Event.status k s ∈ (alignWcsEntry a pairG refArea).events →
      s = .failed .emptyCatalog ∨ s = .reference) ∧
    (alignWcsEntry a pairG refArea).order = [] := by
  rcases entry_cases pairG refArea a with ⟨e', hv, _, h⟩ | ⟨r, _, hnu, hns, h⟩
  · rw [h] at he; simp only [alignFail, Option.some.injEq] at he
    rw [he] at hv; cases hv
  · rw [h] at he ⊢
    rcases alignWcs_ends (a.wcscat.items.map (·.img)) a.cfg refArea r pairG with
      ⟨h1, _⟩ | h1 | ⟨h1, _, _⟩ | ⟨st, _, hst, herr, hord, _, _, _, _, hev⟩
    · rw [h1] at he; cases he
    · rw [h1] at he; cases he
    · rw [h1] at he; cases he
    · rw [herr] at he
      have hk : a.cfg.fitgeomKnown = false := by
        rcases alignLoop_err (a.wcscat.items.map (·.img)) _ a.cfg _ refArea _ st.cur st.work st.cat with
          h1 | ⟨h1, _⟩ | ⟨_, h2⟩ | ⟨f, h1, _⟩
        · rw [h1] at he; cases he
        · rw [h1] at he; cases he
        · exact h2
        · rw [h1] at he; cases he
      refine ⟨?_, ?_, ?_, by rw [hord, alignLoop_unknown_fitgeom _ _ _ _ refArea hk]; rfl⟩
      · have hfg : a.fitgeom = .unknown := by
          cases hfg : a.fitgeom with
          | known m => simp [AlignArgs.cfg, hfg] at hk
          | unknown => rfl
          | notString => exact absurd hfg hns
        refine ⟨hfg, fun hm => hnu ⟨hfg, hm⟩⟩
      · intro k hk'
        rw [hev, alignLoop_unknown_fitgeom _ _ _ _ refArea hk] at hk'
        simp only [List.flatMap_nil, List.append_nil, List.mem_append] at hk'
        rcases hk' with hk' | hk'
        · exact List.count_eq_zero.mp (correctCount_dropEmpty _ _ k) hk'
        · obtain ⟨gr, hgr⟩ := alignStart_ev1 _ _ _ refArea r pairG st hst
          rw [hgr] at hk'
          obtain ⟨i, _, hi⟩ := List.mem_map.mp hk'
          cases hi
      · intro k s hk'
        rw [hev, alignLoop_unknown_fitgeom _ _ _ _ refArea hk] at hk'
        simp only [List.flatMap_nil, List.append_nil, List.mem_append] at hk'
        rcases hk' with hk' | hk'
        · exact Or.inl ((mem_dropEmpty_status _ _ k s).mp hk').1
        · obtain ⟨gr, hgr⟩ := alignStart_ev1 _ _ _ refArea r pairG st hst
          rw [hgr] at hk'
          obtain ⟨i, _, hi⟩ := List.mem_map.mp hk'
          injection hi with _ h2
          exact Or.inr h2.symm

/-! ### `fit_wcs` (`fitWcs`) -/

/-- what `fit_wcs` does once its arguments are accepted: the initial status, then the block of the
one-image group, decided by the length of the (pre-matched) catalog and the fit flag -/
theorem fitwcs_returns (a : FitArgs) (h : (fitWcs a).err = none) :
    ∃ fitmin, a.fitgeom = .known fitmin ∧
      (fitWcs a).events = Event.status 0 (.failed .unknownError) ::
        blockEvents ([0], if a.img.sources.length < fitmin then some .notEnoughMatches
                          else a.img.fitFail.map (·.reason)) := by
  unfold fitWcs at h ⊢
  by_cases hw : (!a.metaWritable) = true
  · rw [if_pos hw] at h; cases h
  rw [if_neg hw] at h ⊢
  cases hfg : a.fitgeom with
  | notString => simp only [hfg] at h; cases h
  | unknown => simp only [hfg] at h; cases h
  | known fitmin =>
    simp only [hfg] at h ⊢
    refine ⟨fitmin, rfl, ?_⟩
    by_cases h1 : a.cat ≠ .ok
    · rw [if_pos h1] at h; cases h
    rw [if_neg h1] at h ⊢
    by_cases h2 : (!a.refHasRADEC) = true
    · rw [if_pos h2] at h; cases h
    rw [if_neg h2] at h ⊢
    by_cases h3 : a.refSrcs.isEmpty = true
    · rw [if_pos h3] at h; cases h
    rw [if_neg h3] at h ⊢
    cases hg : alignGroup [a.img] { expand := false, enforce := true, minobj := fitmin, fitmin := fitmin,
                                    mode := .none1to1 } [0] (rowsOfTable a.refSrcs none) with
    | error e => simp only [hg] at h; cases h
    | ok q =>
      obtain ⟨o, un⟩ := q
      simp only [hg]
      have ho := (alignGroup_ok _ _ _ _ o un hg).1
      have e1 : groupSources [a.img] [0] = a.img.sources.map fun s => (s, 0) := by
        simp [groupSources]
      have e2 : fitFailOf [a.img] [0] = a.img.fitFail := by
        simp [fitFailOf]
      rw [ho]
      simp only [groupOutcome, nMatches, effMinobj, e1, e2, List.length_map, lt_self_iff_false, if_false]
      rfl

/-- **fitwcs_final_status**: when `fit_wcs` returns, the last thing it did was to write the final
status of the image, and that status is SUCCESS or FAILED with a reason that is never the initial
'Unknown error'; `fit_info` was written exactly twice (initial, final) -/
theorem fitwcs_final_status (a : FitArgs) (h : (fitWcs a).err = none) :
    ∃ s, (fitWcs a).events.getLast? = some (Event.status 0 s) ∧
      (s = .success ∨ s = .failed .notEnoughMatches ∨ s = .failed .singularMatrix ∨
        s = .failed .notEnoughPoints) ∧
      statusCount 0 (fitWcs a).events = 2 := by
  obtain ⟨fitmin, _, hev⟩ := fitwcs_returns a h
  rw [hev]
  split
  · exact ⟨_, by simp [blockEvents], Or.inr (Or.inl rfl), by simp [blockEvents, statusCount, isStatusOf]⟩
  · cases hf : a.img.fitFail with
    | none => exact ⟨.success, by simp [blockEvents], Or.inl rfl, by simp [blockEvents, statusCount, isStatusOf]⟩
    | some f =>
      cases f
      · exact ⟨_, by simp [blockEvents, FitFail.reason], Or.inr (Or.inr (Or.inl rfl)),
          by simp [blockEvents, statusCount, isStatusOf]⟩
      · exact ⟨_, by simp [blockEvents, FitFail.reason], Or.inr (Or.inr (Or.inr rfl)),
          by simp [blockEvents, statusCount, isStatusOf]⟩

/-- **fitwcs_corrected_iff_success**: when `fit_wcs` returns, `set_correction` was called exactly
once if the final status is SUCCESS and not at all otherwise; SUCCESS means: at least as many
(pre-matched) sources as the fit geometry needs and a fit that is not degenerate -/
theorem fitwcs_corrected_iff_success (a : FitArgs) (h : (fitWcs a).err = none) :
    correctCount 0 (fitWcs a).events =
      (if (fitWcs a).events.getLast? = some (Event.status 0 .success) then 1 else 0) ∧
    (∀ k, k ≠ 0 → Event.correct k ∉ (fitWcs a).events) ∧
    ((fitWcs a).events.getLast? = some (Event.status 0 .success) ↔
      ∃ fitmin, a.fitgeom = .known fitmin ∧ fitmin ≤ a.img.sources.length ∧ a.img.fitFail = none) := by
  obtain ⟨fitmin, hfg, hev⟩ := fitwcs_returns a h
  rw [hev]
  by_cases hlt : a.img.sources.length < fitmin
  · rw [if_pos hlt]
    refine ⟨by simp [blockEvents, correctCount], by simp [blockEvents], ?_⟩
    constructor
    · intro hc; simp [blockEvents] at hc
    · rintro ⟨m, hm, hle, _⟩
      rw [hfg] at hm; injection hm with hm; omega
  · rw [if_neg hlt]
    cases hf : a.img.fitFail with
    | none =>
      refine ⟨by simp [blockEvents, correctCount], by simp [blockEvents], ?_⟩
      constructor
      · intro _; exact ⟨fitmin, hfg, by omega, rfl⟩
      · intro _; simp [blockEvents]
    | some f =>
      refine ⟨by cases f <;> simp [blockEvents, correctCount, FitFail.reason],
        by simp [blockEvents], ?_⟩
      constructor
      · intro hc; cases f <;> simp [blockEvents, FitFail.reason] at hc
      · rintro ⟨_, _, _, hn⟩; cases hn

/-- **fitwcs_invalid_fitgeom**: an unsupported `fitgeom` makes `fit_wcs` raise `ValueError` without
touching the WCS, but the initial `FAILED: Unknown error` status HAS been written by then (the
status write precedes the check); the same holds for every other exception that leaves `fit_wcs` —
what was written is at most the initial status, and no `set_correction` call was made -/
theorem fitwcs_invalid_fitgeom (a : FitArgs) :
    (a.metaWritable = true → a.fitgeom = .unknown →
      (fitWcs a).err = some .badFitgeom ∧
      (fitWcs a).events = [Event.status 0 (.failed .unknownError)]) ∧
    ((fitWcs a).err ≠ none →
      ((fitWcs a).events = [] ∨ (fitWcs a).events = [Event.status 0 (.failed .unknownError)]) ∧
      ∀ k, Event.correct k ∉ (fitWcs a).events) := by
  constructor
  · intro hw hf
    unfold fitWcs
    rw [if_neg (by simp [hw])]
    simp only [hf]
    constructor <;> first | rfl | trivial
  · intro herr
    have key : (fitWcs a).events = [] ∨ (fitWcs a).events = [Event.status 0 (.failed .unknownError)] := by
      rcases fitWcs_events_cases a with h | h | ⟨o, h1, _⟩
      · exact Or.inl h
      · exact Or.inr h
      · exact absurd h1 herr
    refine ⟨key, ?_⟩
    intro k hk
    rcases key with h | h <;> rw [h] at hk <;> simp at hk

/-! ### non-vacuity -/

/-- three images: an ungrouped one and a group `{1, 2}` whose second member has an empty catalog;
no reference catalog -/
def imgs3 : List Img := [⟨none, [1, 2, 3], none⟩, ⟨some 7, [2, 3, 4], none⟩, ⟨some 7, [], none⟩]
def cfg0 : AlignCfg := { expand := true, enforce := false, minobj := 2, fitmin := 2, mode := .ideal }
def g2 : List (List (ℚ × Nat)) := [[(0, 0), (5, 0)], [(5, 0), (0, 0)]]

example : (keptGroups imgs3).length = 2 := by decide
example : NonnegRaw 2 g2 := by
  intro p q h1 h2
  obtain rfl : q = 1 := by omega
  obtain rfl : p = 0 := by omega
  decide +kernel

example : (alignWcs imgs3 none cfg0 g2 (fun _ _ => ((0 : ℚ), 0))).err = none := by decide +kernel
example : (alignWcs imgs3 none cfg0 g2 (fun _ _ => ((0 : ℚ), 0))).events =
    [.status 0 .reference, .correct 1, .correct 2, .status 1 .success, .status 2 .success] := by
  decide +kernel
/-- a `minobj` below the minimum of the fit geometry is raised to it (`max(minobj, minimum)`): with
`minobj = 1`, `general` (3 sources) and two matches the image ends FAILED, not corrected -/
example : (alignWcs [⟨none, [1, 2, 3], none⟩, ⟨none, [1, 2, 9], none⟩] none
      { expand := false, enforce := true, minobj := 1, fitmin := 3, mode := .ideal } g2
      (fun _ _ => ((0 : ℚ), 0))).events
    = [.status 0 .reference, .status 1 (.failed .notEnoughMatches)] := by decide +kernel
example : (alignWcs [⟨none, [1, 2], none⟩, ⟨none, [], none⟩] none cfg0 g2 (fun _ _ => ((0 : ℚ), 0))).err
    = some .notEnoughCatalogs := by decide +kernel


/-! ### degenerate fits: the witness of finding F26 and what `expand_refcat` changes -/

/-- three ungrouped images against a reference table `[1 … 6]`; the matched sources of the middle
one are collinear (general fit) -/
def imgsF : List Img := [⟨none, [1, 2, 3], none⟩, ⟨none, [3, 4, 5], some .singular⟩, ⟨none, [4, 5, 6], none⟩]
def refF : Option (List Nat × Option (List Int)) := some ([1, 2, 3, 4, 5, 6], none)
def cfgF (c : Bool) : AlignCfg :=
  { expand := false, enforce := true, minobj := 3, fitmin := 3, mode := .ideal, catchFit := c }

/-- the code since 4565404: the middle image is FAILED: singular matrix, the others are aligned -/
example : (alignWcs imgsF refF (cfgF true) ([] : List (List (ℚ × Nat))) (fun _ _ => ((1 : ℚ), 0))).events =
    [.correct 0, .status 0 .success, .status 1 (.failed .singularMatrix), .correct 2, .status 2 .success] ∧
    (alignWcs imgsF refF (cfgF true) ([] : List (List (ℚ × Nat))) (fun _ _ => ((1 : ℚ), 0))).err = none := by
  decide +kernel

/-- **witness of F26** (behaviour before 4565404, `catchFit = false`): `SingularMatrixError` leaves
`align_wcs` in mid-run — image 0 is already corrected, images 1 and 2 have no status at all: the
conclusion of `status_total` (exactly one status per image) fails, and so does
`no_midrun_exception` -/
def outF := alignWcs imgsF refF (cfgF false) ([] : List (List (ℚ × Nat))) (fun _ _ => ((1 : ℚ), 0))
example : outF.err = some (.fitError .singular) ∧ outF.events = [.correct 0, .status 0 .success] ∧
    statusCount 1 outF.events = 0 ∧ statusCount 2 outF.events = 0 ∧ statusCount 2 outF.events ≠ 1 := by
  decide +kernel

/-- too few positively weighted matched sources: `FAILED: not enough points` -/
example : (alignWcs [⟨none, [1, 2, 3], some .notEnoughPoints⟩, ⟨none, [4, 5, 6], none⟩] refF (cfgF true)
    ([] : List (List (ℚ × Nat))) (fun _ _ => ((1 : ℚ), 0))).events =
    [.status 0 (.failed .notEnoughPoints), .correct 1, .status 1 .success] := by decide +kernel

/-- a degenerate fit is only attempted with enough matches: with two matches the flagged image is
`FAILED: not enough matches` -/
example : (alignWcs [⟨none, [1, 2, 9], some .singular⟩] refF (cfgF true)
    ([] : List (List (ℚ × Nat))) (fun _ _ => ((1 : ℚ), 0))).events =
    [.status 0 (.failed .notEnoughMatches)] := by decide +kernel

/-- a group shares the failure: both members FAILED, none corrected -/
example : (alignWcs [⟨some 1, [1, 2], none⟩, ⟨some 1, [3, 4], some .singular⟩, ⟨none, [4, 5, 6], none⟩] refF
    (cfgF true) ([] : List (List (ℚ × Nat))) (fun _ _ => ((1 : ℚ), 0))).events =
    [.status 0 (.failed .singularMatrix), .status 1 (.failed .singularMatrix), .correct 2, .status 2 .success] := by
  decide +kernel

/-- **what `expand_refcat` changes**: reference table `[1, 2, 3]`; image 0 `[1, 2, 3, 4, 5, 6]` would
contribute 4, 5, 6; image 1 `[4, 5, 6]` is matched against the expanded catalog.  Without the
failure image 1 is SUCCESS; when the fit of image 0 is degenerate (and it overlaps the reference)
it is not appended and image 1 ends FAILED: not enough matches — `fit_failure_isolated` does not
extend to `expand_refcat` -/
example :
    (alignWcs [⟨none, [1, 2, 3, 4, 5, 6], none⟩, ⟨none, [4, 5, 6], none⟩] (some ([1, 2, 3], none))
      { expand := true, enforce := true, minobj := 3, fitmin := 3, mode := .ideal }
      ([] : List (List (ℚ × Nat))) (fun _ _ => ((1 : ℚ), 0))).events =
      [.correct 0, .status 0 .success, .correct 1, .status 1 .success] ∧
    (alignWcs [⟨none, [1, 2, 3, 4, 5, 6], some .singular⟩, ⟨none, [4, 5, 6], none⟩] (some ([1, 2, 3], none))
      { expand := true, enforce := true, minobj := 3, fitmin := 3, mode := .ideal }
      ([] : List (List (ℚ × Nat))) (fun _ _ => ((1 : ℚ), 0))).events =
      [.status 0 (.failed .singularMatrix), .status 1 (.failed .notEnoughMatches)] := by
  decide +kernel

/-- … unless the failing group has no overlap with the reference (`not area`): then its unmatched
sources are appended although it FAILED, as for `not enough matches` -/
example :
    (alignWcs [⟨none, [1, 2, 3, 4, 5, 6], some .singular⟩, ⟨none, [4, 5, 6], none⟩] (some ([1, 2, 3], none))
      { expand := true, enforce := true, minobj := 3, fitmin := 3, mode := .ideal }
      ([] : List (List (ℚ × Nat))) (fun _ _ => ((0 : ℚ), 0))).events =
      [.status 0 (.failed .singularMatrix), .correct 1, .status 1 .success] := by
  decide +kernel

/-! ### argument validation and `fit_wcs` -/

def okImg (srcs : List Nat) : ImgArg := { isCorrector := true, cat := .ok, img := ⟨none, srcs, none⟩ }
def argsOK : AlignArgs :=
  { wcscat := .list [okImg [1, 2, 3], okImg [2, 3, 4]], refcat := .none, fitgeom := .known 2, minobj := none,
    expand := false, enforce := true, mode := .ideal }

example : (alignWcsEntry argsOK g2 (fun _ _ => ((0 : ℚ), 0))).events =
    [.status 0 .reference, .correct 1, .status 1 .success] := by decide +kernel
def badList : WcscatArg := .list [okImg [1], ⟨false, .ok, default⟩]
def noCatList : WcscatArg := .list [okImg [1], ⟨true, .missing, default⟩, ⟨true, .noXY, default⟩]

/-- two invalid arguments: the type of `wcscat` wins over everything -/
example : (alignWcsEntry { argsOK with wcscat := badList, fitgeom := .unknown, refcat := .unsupported } g2
    (fun _ _ => ((0 : ℚ), 0))).err = some .wcscatType := by decide +kernel
/-- a missing catalog wins over a later catalog without x/y, a bad `fitgeom` and a bad `refcat` -/
example : (alignWcsEntry { argsOK with wcscat := noCatList, fitgeom := .unknown, refcat := .table false [1] none } g2
    (fun _ _ => ((0 : ℚ), 0))).err = some .noCatalog := by decide +kernel
/-- a bad `fitgeom` (with `minobj=None`) wins over a bad `refcat` -/
example : (alignWcsEntry { argsOK with fitgeom := .unknown, refcat := .unsupported } g2
    (fun _ _ => ((0 : ℚ), 0))).err = some .badFitgeom := by decide +kernel
/-- … but with an explicit `minobj` the bad `fitgeom` is not noticed and the bad `refcat` wins -/
example : (alignWcsEntry { argsOK with fitgeom := .unknown, minobj := some 2, refcat := .unsupported } g2
    (fun _ _ => ((0 : ℚ), 0))).err = some .refcatType := by decide +kernel
/-- … and with a valid `refcat` it surfaces as a `KeyError` after the REFERENCE status was written -/
example : (alignWcsEntry { argsOK with fitgeom := .unknown, minobj := some 2 } g2 (fun _ _ => ((0 : ℚ), 0))).err
      = some .fitgeomKeyError ∧
    (alignWcsEntry { argsOK with fitgeom := .unknown, minobj := some 2 } g2 (fun _ _ => ((0 : ℚ), 0))).events
      = [.status 0 .reference] := by decide +kernel
/-- a table without RA/DEC wins over its being empty; an empty one is refused before grouping -/
example : (alignWcsEntry { argsOK with refcat := .table false [] none } g2 (fun _ _ => ((0 : ℚ), 0))).err
      = some .refNoRADEC ∧
    (alignWcsEntry { argsOK with refcat := .table true [] none } g2 (fun _ _ => ((0 : ℚ), 0))).err
      = some .emptyRefcat ∧
    (alignWcsEntry { argsOK with refcat := .corrector false [1] } g2 (fun _ _ => ((0 : ℚ), 0))).err
      = some .refNoCatalog := by decide +kernel
/-- a single corrector is wrapped into a list -/
example : (alignWcsEntry { argsOK with wcscat := .single .ok ⟨none, [1, 2], none⟩, refcat := .table true [1, 2] none } g2
    (fun _ _ => ((0 : ℚ), 0))).events = [.correct 0, .status 0 .success] := by decide +kernel

def fitOK : FitArgs :=
  { metaWritable := true, fitgeom := .known 3, cat := .ok, img := ⟨none, [1, 2, 3, 4], none⟩, refHasRADEC := true,
    refSrcs := [1, 2, 3, 4] }
example : (fitWcs fitOK).events = [.status 0 (.failed .unknownError), .correct 0, .status 0 .success] ∧
    (fitWcs fitOK).err = none := by decide
example : (fitWcs { fitOK with img := ⟨none, [1, 2, 3, 4], some .singular⟩ }).events =
    [.status 0 (.failed .unknownError), .status 0 (.failed .singularMatrix)] := by decide
example : (fitWcs { fitOK with img := ⟨none, [1, 2], none⟩, refSrcs := [1, 2] }).events =
    [.status 0 (.failed .unknownError), .status 0 (.failed .notEnoughMatches)] := by decide
example : (fitWcs { fitOK with fitgeom := .unknown }).err = some .badFitgeom ∧
    (fitWcs { fitOK with fitgeom := .unknown }).events = [.status 0 (.failed .unknownError)] := by decide
example : (fitWcs { fitOK with refSrcs := [1, 2, 3] }).err = some .lengthMismatch ∧
    (fitWcs { fitOK with refSrcs := [1, 2, 3] }).events = [.status 0 (.failed .unknownError)] := by decide

end TW.C13
