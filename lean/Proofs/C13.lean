import Proofs.AlignLemmas
import Mathlib.Algebra.Order.Ring.Rat

/-!
# C13 — `align_wcs` leaves a complete, truthful status on every input and no half-updates

Property theorems only (helper lemmas: `Proofs/AlignLemmas.lean`, `Proofs/C15Lemmas.lean`).
The model is `TW.alignWcs` (`Model/Align.lean`): images are `(group id, list of source
identities)`, the matcher is ideal, overlap areas are arbitrary parameters, and every write of
`meta['fit_info']` (`Event.status`) and every `set_correction` call (`Event.correct`) is recorded
in `out.events`.  `statusCount k`, `correctCount k` count the events of image `k`.

All statements hold for every list of images, every assignment of group ids, every reference
catalog, every option value and every overlap function; the only hypothesis `NonnegRaw` says that
the guarded areas between groups are not negative (they are absolute values), as in C15.
-/
open TW TW.C15L TW.AlignL
set_option linter.unusedSectionVars false

namespace TW.C13
variable {K : Type} [LinearOrder K] [Add K] [NatCast K] [BEq K]
variable (imgs : List Img) (refIn : Option (List Nat × Option (List Int))) (cfg : AlignCfg)
  (pairG : List (List (K × Nat))) (refArea : List RefRow → Nat → K × Nat)

/-- **status_total**: if `align_wcs` returns, `fit_info` has been written exactly once for every
input image, i.e. every image has exactly one status (REFERENCE, SUCCESS or FAILED:reason) -/
theorem status_total (hg : NonnegRaw (keptGroups imgs).length pairG)
    (hret : (alignWcs imgs refIn cfg pairG refArea).err = none) (k : Nat) (hk : k < imgs.length) :
    statusCount k (alignWcs imgs refIn cfg pairG refArea).events = 1 ∧
    ∃ s, Event.status k s ∈ (alignWcs imgs refIn cfg pairG refArea).events ∧
      ∀ s', Event.status k s' ∈ (alignWcs imgs refIn cfg pairG refArea).events → s' = s := by
  rw [← keptGroups_eq] at hg
  obtain ⟨refGroups, results, hev, _, hperm, _⟩ := alignWcs_decomp imgs cfg pairG refArea refIn hg hret
  have hcount : statusCount k (alignWcs imgs refIn cfg pairG refArea).events = 1 := by
    rw [hev, statusCount_append, statusCount_append, count_refblock, statusCount_blocks]
    have h1 := count_flatten_perm hperm k
    rw [List.flatten_append, List.count_append] at h1
    have h2 := statusCount_dropEmpty imgs (formGroups (imgs.map (·.gid))) k
    have h3 := groups_count (imgs.map (·.gid)) k
    rw [gids_length, if_pos hk] at h3
    omega
  refine ⟨hcount, ?_⟩
  -- the single status event
  unfold statusCount at hcount
  obtain ⟨e, he⟩ := List.length_eq_one_iff.mp hcount
  have hmem : e ∈ (alignWcs imgs refIn cfg pairG refArea).events.filter (isStatusOf k) := by rw [he]; simp
  rw [List.mem_filter] at hmem
  cases e with
  | correct i => simp [isStatusOf] at hmem
  | status i s =>
    have hik : i = k := by simpa [isStatusOf] using hmem.2
    subst hik
    refine ⟨s, hmem.1, ?_⟩
    intro s' hs'
    have : Event.status i s' ∈ (alignWcs imgs refIn cfg pairG refArea).events.filter (isStatusOf i) := by
      rw [List.mem_filter]; exact ⟨hs', by simp [isStatusOf]⟩
    rw [he, List.mem_singleton] at this
    injection this with _ h2

/-- **reference_iff**: without a reference catalog exactly one group is REFERENCE (all of its
members and nobody else); with one, no image is -/
theorem reference_iff (hg : NonnegRaw (keptGroups imgs).length pairG)
    (hret : (alignWcs imgs refIn cfg pairG refArea).err = none) :
    (refIn = none → ∃ gr ∈ formGroups (imgs.map (·.gid)), gr ∈ keptGroups imgs ∧
        ∀ k, Event.status k .reference ∈ (alignWcs imgs refIn cfg pairG refArea).events ↔ k ∈ gr) ∧
    (refIn ≠ none → ∀ k, Event.status k .reference ∉ (alignWcs imgs refIn cfg pairG refArea).events) := by
  rw [← keptGroups_eq] at hg
  obtain ⟨refGroups, results, hev, _, hperm, hlen⟩ := alignWcs_decomp imgs cfg pairG refArea refIn hg hret
  have hmem : ∀ k, Event.status k .reference ∈ (alignWcs imgs refIn cfg pairG refArea).events ↔
      ∃ gr ∈ refGroups, k ∈ gr := by
    intro k
    rw [hev, List.mem_append, List.mem_append, mem_dropEmpty_status, mem_blocks_status]
    constructor
    · rintro ((⟨h, _⟩ | h) | ⟨r, _, _, h⟩)
      · cases h
      · simp only [List.mem_flatMap, List.mem_map] at h
        obtain ⟨gr, hgr, i, hi, he⟩ := h
        injection he with h1 _
        subst h1
        exact ⟨gr, hgr, hi⟩
      · split at h <;> cases h
    · rintro ⟨gr, hgr, hk⟩
      refine Or.inl (Or.inr ?_)
      simp only [List.mem_flatMap, List.mem_map]
      exact ⟨gr, hgr, k, hk, rfl⟩
  constructor
  · intro hnone
    subst hnone
    simp only [Option.isNone_none, if_true] at hlen
    obtain ⟨gr, hgr⟩ := List.length_eq_one_iff.mp hlen
    subst hgr
    have hin : gr ∈ (dropEmpty imgs (formGroups (imgs.map (·.gid)))).1 :=
      hperm.subset (by simp)
    have hin' := hin
    rw [dropEmpty_kept, List.mem_filter] at hin'
    refine ⟨gr, hin'.1, by rw [← keptGroups_eq]; exact hin, ?_⟩
    intro k
    rw [hmem]; simp
  · intro hsome k
    have : refIn.isNone = false := by
      cases refIn with
      | none => exact absurd rfl hsome
      | some _ => rfl
    rw [this] at hlen
    simp only [Bool.false_eq_true, if_false, List.length_eq_zero_iff] at hlen
    rw [hmem, hlen]; simp

/-- **group_shares**: the members of a group share their status (they receive copies of one
`fit_info`) -/
theorem group_shares (hg : NonnegRaw (keptGroups imgs).length pairG)
    (hret : (alignWcs imgs refIn cfg pairG refArea).err = none)
    (gr : List Nat) (hgr : gr ∈ formGroups (imgs.map (·.gid))) (a b : Nat) (ha : a ∈ gr) (hb : b ∈ gr)
    (s : Status) :
    Event.status a s ∈ (alignWcs imgs refIn cfg pairG refArea).events ↔
      Event.status b s ∈ (alignWcs imgs refIn cfg pairG refArea).events := by
  rw [← keptGroups_eq] at hg
  obtain ⟨P, hP⟩ := status_mem_iff imgs refIn cfg pairG refArea hg hret
  rw [hP, hP]
  constructor
  · rintro ⟨gr', hgr', hk, hp⟩
    have := group_unique (imgs.map (·.gid)) hgr hgr' ha hk
    subst this
    exact ⟨gr, hgr, hb, hp⟩
  · rintro ⟨gr', hgr', hk, hp⟩
    have := group_unique (imgs.map (·.gid)) hgr hgr' hb hk
    subst this
    exact ⟨gr, hgr, ha, hp⟩

/-- **corrected_once**: `set_correction` is called exactly once on an image that ends SUCCESS and
never on any other image (the work list strictly shrinks; a popped group is never revisited) -/
theorem corrected_once (hg : NonnegRaw (keptGroups imgs).length pairG)
    (hret : (alignWcs imgs refIn cfg pairG refArea).err = none) (k : Nat) :
    correctCount k (alignWcs imgs refIn cfg pairG refArea).events =
      if Event.status k .success ∈ (alignWcs imgs refIn cfg pairG refArea).events then 1 else 0 := by
  rw [← keptGroups_eq] at hg
  obtain ⟨refGroups, results, hev, _, hperm, _⟩ := alignWcs_decomp imgs cfg pairG refArea refIn hg hret
  have hc : correctCount k (alignWcs imgs refIn cfg pairG refArea).events
      = ((results.filter (·.2)).map (·.1)).flatten.count k := by
    rw [hev, correctCount_append, correctCount_append, correctCount_dropEmpty, correct_refblock,
      correctCount_blocks]; omega
  have hle : ((results.filter (·.2)).map (·.1)).flatten.count k ≤ 1 := by
    have h1 := count_flatten_perm hperm k
    rw [List.flatten_append, List.count_append] at h1
    have h2 := statusCount_dropEmpty imgs (formGroups (imgs.map (·.gid))) k
    have h3 := groups_count (imgs.map (·.gid)) k
    have h4 := count_filter_le k results
    split at h3 <;> omega
  have hs : Event.status k .success ∈ (alignWcs imgs refIn cfg pairG refArea).events ↔
      k ∈ ((results.filter (·.2)).map (·.1)).flatten := by
    rw [hev, List.mem_append, List.mem_append, mem_dropEmpty_status, mem_blocks_status]
    simp only [List.mem_flatten, List.mem_map, List.mem_filter]
    constructor
    · rintro ((⟨h, _⟩ | h) | ⟨r, hr, hk, hs⟩)
      · cases h
      · simp only [List.mem_flatMap, List.mem_map] at h
        obtain ⟨gr, _, i, _, he⟩ := h
        injection he with _ h2; cases h2
      · refine ⟨r.1, ⟨r, ⟨hr, ?_⟩, rfl⟩, hk⟩
        by_contra hc
        rw [if_neg hc] at hs; cases hs
    · rintro ⟨gr, ⟨r, ⟨hr, hok⟩, rfl⟩, hk⟩
      exact Or.inr ⟨r, hr, hk, by rw [if_pos hok]⟩
  rw [hc]
  split
  · next h =>
    have := List.count_pos_iff.mpr (hs.mp h)
    omega
  · next h =>
    exact List.count_eq_zero.mpr (fun hc => h (hs.mpr hc))

/-- **unchanged_if_not_success**: an image that does not end SUCCESS (REFERENCE or FAILED) is
never passed to `set_correction`: its sky mapping is the one it came in with -/
theorem unchanged_if_not_success (hg : NonnegRaw (keptGroups imgs).length pairG)
    (hret : (alignWcs imgs refIn cfg pairG refArea).err = none) (k : Nat)
    (hns : Event.status k .success ∉ (alignWcs imgs refIn cfg pairG refArea).events) :
    Event.correct k ∉ (alignWcs imgs refIn cfg pairG refArea).events := by
  have := corrected_once imgs refIn cfg pairG refArea hg hret k
  rw [if_neg hns] at this
  exact List.count_eq_zero.mp this

/-- **not_enough_iff**: `NotEnoughCatalogs` is raised exactly when (the reference catalog being
acceptable) fewer than two groups — fewer than one when a reference catalog is given — have a
non-empty catalog -/
theorem not_enough_iff :
    (alignWcs imgs refIn cfg pairG refArea).err = some .notEnoughCatalogs ↔
      refEmpty refIn = false ∧
      ((refIn = none ∧ (keptGroups imgs).length < 2) ∨ (keptGroups imgs).length = 0) := by
  rw [← keptGroups_eq]
  unfold alignWcs
  by_cases he : refEmpty refIn = true
  · simp [he, alignFail]
  rw [if_neg he]
  have he' : refEmpty refIn = false := by simpa using he
  simp only [he', true_and]
  by_cases hne : (refIn.isNone = true ∧ (dropEmpty imgs (formGroups (imgs.map (·.gid)))).1.length < 2) ∨
      (dropEmpty imgs (formGroups (imgs.map (·.gid)))).1.length = 0
  · rw [if_pos hne]
    simp only [alignFail, true_iff]
    rcases hne with ⟨h1, h2⟩ | h
    · exact Or.inl ⟨Option.isNone_iff_eq_none.mp h1, h2⟩
    · exact Or.inr h
  · rw [if_neg hne]
    constructor
    · intro h
      exfalso
      split at h
      · next e hst =>
        -- `alignStart` can only fail with `indexError`
        have : e = .indexError := by
          unfold alignStart at hst
          split at hst
          · split at hst
            · injection hst with hst; exact hst.symm
            · split at hst
              · cases hst
              · injection hst with hst; exact hst.symm
          · cases hst
        subst this
        simp [alignFail] at h
      · next st _ =>
        simp only at h
        rcases alignLoop_err imgs _ cfg _ refArea _ st.cur st.work st.cat with h1 | h1 <;>
          rw [h1] at h <;> cases h
    · rintro (⟨h1, h2⟩ | h)
      · exact absurd (Or.inl ⟨by rw [h1]; rfl, h2⟩) hne
      · exact absurd (Or.inr h) hne

/-- **raises_before_any_change**: when `NotEnoughCatalogs` (or the refusal of an empty reference
catalog) is raised no `set_correction` call has been made, nothing has been aligned and no
catalog is returned; the only writes are the `FAILED: empty source catalog` statuses -/
theorem raises_before_any_change
    (h : (alignWcs imgs refIn cfg pairG refArea).err = some .notEnoughCatalogs ∨
         (alignWcs imgs refIn cfg pairG refArea).err = some .emptyRefcat) :
    (∀ k, Event.correct k ∉ (alignWcs imgs refIn cfg pairG refArea).events) ∧
    (∀ k s, Event.status k s ∈ (alignWcs imgs refIn cfg pairG refArea).events → s = .failed .emptyCatalog) ∧
    (alignWcs imgs refIn cfg pairG refArea).order = [] ∧
    (alignWcs imgs refIn cfg pairG refArea).refcat = [] := by
  unfold alignWcs at h ⊢
  by_cases he : refEmpty refIn = true
  · simp [he, alignFail]
  rw [if_neg he] at h ⊢
  simp only [] at h ⊢
  split
  · unfold alignFail
    refine ⟨?_, ?_, rfl, rfl⟩
    · intro k hk
      have := correctCount_dropEmpty imgs (formGroups (imgs.map (·.gid))) k
      exact List.count_eq_zero.mp this hk
    · intro k s hs
      exact ((mem_dropEmpty_status imgs _ k s).mp hs).1
  · next hne =>
    exfalso
    rw [if_neg hne] at h
    split at h
    · next e hst =>
      have : e = .indexError := by
        unfold alignStart at hst
        split at hst
        · split at hst
          · injection hst with hst; exact hst.symm
          · split at hst
            · cases hst
            · injection hst with hst; exact hst.symm
        · cases hst
      subst this
      simp [alignFail] at h
    · next st _ =>
      simp only at h
      rcases alignLoop_err imgs _ cfg _ refArea _ st.cur st.work st.cat with h1 | h1 <;>
        rw [h1] at h <;> simp at h

/-! ### non-vacuity -/

/-- three images: an ungrouped one and a group `{1, 2}` whose second member has an empty catalog;
no reference catalog -/
def imgs3 : List Img := [⟨none, [1, 2, 3]⟩, ⟨some 7, [2, 3, 4]⟩, ⟨some 7, []⟩]
def cfg0 : AlignCfg := { expand := true, enforce := false, minobj := 2, fitmin := 2, mode := .ideal }
def g2 : List (List (ℚ × Nat)) := [[(0, 0), (5, 0)], [(5, 0), (0, 0)]]

example : (keptGroups imgs3).length = 2 := by decide
example : NonnegRaw 2 g2 := by
  intro p q h1 h2
  obtain rfl : q = 1 := by omega
  obtain rfl : p = 0 := by omega
  decide +kernel

example : (alignWcs imgs3 none cfg0 g2 (fun _ _ => ((0 : ℚ), 0))).err = none := by decide +kernel
example : (alignWcs imgs3 none cfg0 g2 (fun _ _ => ((0 : ℚ), 0))).events =
    [.status 0 .reference, .correct 1, .correct 2, .status 1 .success, .status 2 .success] := by
  decide +kernel
/-- a `minobj` below the minimum of the fit geometry is raised to it (`max(minobj, minimum)`): with
`minobj = 1`, `general` (3 sources) and two matches the image ends FAILED, not corrected -/
example : (alignWcs [⟨none, [1, 2, 3]⟩, ⟨none, [1, 2, 9]⟩] none
      { expand := false, enforce := true, minobj := 1, fitmin := 3, mode := .ideal } g2
      (fun _ _ => ((0 : ℚ), 0))).events
    = [.status 0 .reference, .status 1 (.failed .notEnoughMatches)] := by decide +kernel
example : (alignWcs [⟨none, [1, 2]⟩, ⟨none, []⟩] none cfg0 g2 (fun _ _ => ((0 : ℚ), 0))).err
    = some .notEnoughCatalogs := by decide +kernel

end TW.C13
