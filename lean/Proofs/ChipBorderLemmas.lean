import Mathlib.Data.List.Chain
import Mathlib.Algebra.Order.Floor.Ring
import Mathlib.Algebra.Order.Field.Basic
import Mathlib.Tactic.Ring
import Mathlib.Tactic.Linarith
import Mathlib.Tactic.FieldSimp
import Mathlib.Tactic.Positivity
import Model.ChipBorder
import Proofs.C12Lemmas
import Proofs.C16Fwd

/-!
Helper lemmas for the chip-footprint part of property C16 (`Model/ChipBorder.lean`):
`numpy.amax` / `numpy.amin`, Python's `min` / `max` and the bounding-box rectangle, the upper pixel edge, the interval counts, `numpy.linspace`, the shape of the border
walk and chain / shoelace lemmas for axis-parallel closed walks.
-/
open TW TW.Hist
set_option linter.unusedSectionVars false
set_option linter.unusedVariables false
set_option linter.unusedSimpArgs false

namespace TW.Chip
variable {K : Type} [Field K] [LinearOrder K] [IsStrictOrderedRing K]

/-- twice the signed area enclosed by a closed vertex list (positive: counter-clockwise):
`Σ (x_i y_{i+1} − x_{i+1} y_i)` over consecutive pairs -/
def shoelace2 : List (K × K) → K
  | a :: b :: rest => (a.1 * b.2 - b.1 * a.2) + shoelace2 (b :: rest)
  | _ => 0

/-- the signed area of a closed vertex list -/
def signedArea (l : List (K × K)) : K := shoelace2 l / 2

/-! ### `numpy.amax` -/

/-- the running maximum of `numpy.amax` -/
def fm (a : K) (l : List K) : K := l.foldl (fun m v => if m < v then v else m) a

theorem fm_cons (a b : K) (t : List K) : fm a (b :: t) = fm (if a < b then b else a) t := rfl

theorem amax_cons (a : K) (rest : List K) : amax (a :: rest) = some (fm a rest) := rfl

theorem foldmax_spec (rest : List K) : ∀ a : K,
    (fm a rest = a ∨ fm a rest ∈ rest) ∧ a ≤ fm a rest ∧ ∀ v ∈ rest, v ≤ fm a rest := by
  induction rest with
  | nil => intro a; simp [fm]
  | cons b t ih =>
    intro a
    rw [fm_cons]
    by_cases hab : a < b
    · rw [if_pos hab]
      obtain ⟨h1, h2, h3⟩ := ih b
      refine ⟨?_, le_trans (le_of_lt hab) h2, ?_⟩
      · right
        rcases h1 with h | h
        · rw [h]; exact List.mem_cons_self
        · exact List.mem_cons_of_mem _ h
      · intro v hv
        rcases List.mem_cons.mp hv with e | hv
        · rw [e]; exact h2
        · exact h3 v hv
    · rw [if_neg hab]
      obtain ⟨h1, h2, h3⟩ := ih a
      refine ⟨?_, h2, ?_⟩
      · rcases h1 with h | h
        · left; exact h
        · right; exact List.mem_cons_of_mem _ h
      · intro v hv
        rcases List.mem_cons.mp hv with e | hv
        · rw [e]; exact le_trans (not_lt.mp hab) h2
        · exact h3 v hv

/-- `numpy.amax`: `none` exactly for the empty column, otherwise an entry that bounds all entries -/
theorem amax_spec (l : List K) :
    (l = [] ∧ amax l = none) ∨ (∃ m, amax l = some m ∧ m ∈ l ∧ ∀ v ∈ l, v ≤ m) := by
  cases l with
  | nil => left; exact ⟨rfl, rfl⟩
  | cons a rest =>
    right
    obtain ⟨h1, h2, h3⟩ := foldmax_spec rest a
    refine ⟨_, amax_cons a rest, ?_, ?_⟩
    · rcases h1 with h | h
      · rw [h]; exact List.mem_cons_self
      · exact List.mem_cons_of_mem _ h
    · intro v hv
      rcases List.mem_cons.mp hv with e | hv
      · rw [e]; exact h2
      · exact h3 v hv

/-! ### `numpy.amin`, Python's `min` / `max`, the bounding-box rectangle -/

/-- the running minimum of `numpy.amin` -/
def fmn (a : K) (l : List K) : K := l.foldl (fun m v => if v < m then v else m) a

theorem fmn_cons (a b : K) (t : List K) : fmn a (b :: t) = fmn (if b < a then b else a) t := rfl

theorem amin_cons (a : K) (rest : List K) : amin (a :: rest) = some (fmn a rest) := rfl

theorem foldmin_spec (rest : List K) : ∀ a : K,
    (fmn a rest = a ∨ fmn a rest ∈ rest) ∧ fmn a rest ≤ a ∧ ∀ v ∈ rest, fmn a rest ≤ v := by
  induction rest with
  | nil => intro a; simp [fmn]
  | cons b t ih =>
    intro a
    rw [fmn_cons]
    by_cases hab : b < a
    · rw [if_pos hab]
      obtain ⟨h1, h2, h3⟩ := ih b
      refine ⟨?_, le_trans h2 (le_of_lt hab), ?_⟩
      · right
        rcases h1 with h | h
        · rw [h]; exact List.mem_cons_self
        · exact List.mem_cons_of_mem _ h
      · intro v hv
        rcases List.mem_cons.mp hv with e | hv
        · rw [e]; exact h2
        · exact h3 v hv
    · rw [if_neg hab]
      obtain ⟨h1, h2, h3⟩ := ih a
      refine ⟨?_, h2, ?_⟩
      · rcases h1 with h | h
        · left; exact h
        · right; exact List.mem_cons_of_mem _ h
      · intro v hv
        rcases List.mem_cons.mp hv with e | hv
        · rw [e]; exact le_trans h2 (not_lt.mp hab)
        · exact h3 v hv

/-- `numpy.amin`: `none` exactly for the empty column, otherwise an entry below all entries -/
theorem amin_spec (l : List K) :
    (l = [] ∧ amin l = none) ∨ (∃ m, amin l = some m ∧ m ∈ l ∧ ∀ v ∈ l, m ≤ v) := by
  cases l with
  | nil => left; exact ⟨rfl, rfl⟩
  | cons a rest =>
    right
    obtain ⟨h1, h2, h3⟩ := foldmin_spec rest a
    refine ⟨_, amin_cons a rest, ?_, ?_⟩
    · rcases h1 with h | h
      · rw [h]; exact List.mem_cons_self
      · exact List.mem_cons_of_mem _ h
    · intro v hv
      rcases List.mem_cons.mp hv with e | hv
      · rw [e]; exact h2
      · exact h3 v hv

theorem pyMax_eq (a b : K) : pyMax a b = max a b := by
  unfold pyMax
  by_cases h : a < b
  · rw [if_pos h, max_eq_right (le_of_lt h)]
  · rw [if_neg h, max_eq_left (not_lt.mp h)]

theorem pyMin_eq (a b : K) : pyMin a b = min a b := by
  unfold pyMin
  by_cases h : b < a
  · rw [if_pos h, min_eq_right (le_of_lt h)]
  · rw [if_neg h, min_eq_left (not_lt.mp h)]

theorem rectBBOld_eq (b : Rect K) :
    rectBBOld b = ⟨b.lx + 1 / 2, b.hx - 1 / 2, b.ly + 1 / 2, b.hy - 1 / 2⟩ := by
  simp only [rectBBOld, TW.Hist.halfK_eq]

/-- an empty catalog leaves the plain shrink -/
theorem rectBB_nil (b : Rect K) : rectBB b [] = rectBBOld b := rfl

/-- a non-empty catalog: with the smallest and largest coordinates `nx, mx, ny, my` of the catalog the
rectangle is `[min (lx + 1/2) (max nx lx), max (hx - 1/2) (min mx hx)] × (the same in y)` -/
theorem rectBB_ne (b : Rect K) (cat : List (K × K)) (hne : cat ≠ []) :
    ∃ nx mx ny my,
      (nx ∈ cat.map (fun p => p.1) ∧ ∀ s ∈ cat, nx ≤ s.1) ∧ (mx ∈ cat.map (fun p => p.1) ∧ ∀ s ∈ cat, s.1 ≤ mx) ∧
      (ny ∈ cat.map (fun p => p.2) ∧ ∀ s ∈ cat, ny ≤ s.2) ∧ (my ∈ cat.map (fun p => p.2) ∧ ∀ s ∈ cat, s.2 ≤ my) ∧
      rectBB b cat = ⟨min (b.lx + 1 / 2) (max nx b.lx), max (b.hx - 1 / 2) (min mx b.hx),
        min (b.ly + 1 / 2) (max ny b.ly), max (b.hy - 1 / 2) (min my b.hy)⟩ := by
  have hx : cat.map (fun p => p.1) ≠ [] := by simpa using hne
  have hy : cat.map (fun p => p.2) ≠ [] := by simpa using hne
  rcases amin_spec (cat.map fun p => p.1) with ⟨e, _⟩ | ⟨nx, enx, mnx, bnx⟩
  · exact absurd e hx
  rcases amax_spec (cat.map fun p => p.1) with ⟨e, _⟩ | ⟨mx, emx, mmx, bmx⟩
  · exact absurd e hx
  rcases amin_spec (cat.map fun p => p.2) with ⟨e, _⟩ | ⟨ny, eny, mny, bny⟩
  · exact absurd e hy
  rcases amax_spec (cat.map fun p => p.2) with ⟨e, _⟩ | ⟨my, emy, mmy, bmy⟩
  · exact absurd e hy
  refine ⟨nx, mx, ny, my, ⟨mnx, fun s hs => bnx _ (List.mem_map_of_mem hs)⟩,
    ⟨mmx, fun s hs => bmx _ (List.mem_map_of_mem hs)⟩, ⟨mny, fun s hs => bny _ (List.mem_map_of_mem hs)⟩,
    ⟨mmy, fun s hs => bmy _ (List.mem_map_of_mem hs)⟩, ?_⟩
  unfold rectBB
  simp only [enx, emx, eny, emy, pyMax_eq, pyMin_eq, rectBBOld_eq]

/-! ### the upper edge of the pixel that contains the largest coordinate -/

section floor
variable [FloorRing K]

theorem upperEdge_eq (m : K) : upperEdge m = ((max 1 (⌊m + 1 / 2⌋ + 1) : ℤ) : K) - 1 / 2 := by
  unfold upperEdge
  rw [ofInt_eq, halfK_eq]
  rfl

/-- the largest coordinate is strictly below the edge -/
theorem lt_upperEdge (m : K) : m < upperEdge m := by
  rw [upperEdge_eq]
  have h1 : m + 1 / 2 < ((⌊m + 1 / 2⌋ : ℤ) : K) + 1 := Int.lt_floor_add_one _
  have h2 : ((⌊m + 1 / 2⌋ + 1 : ℤ) : K) ≤ ((max 1 (⌊m + 1 / 2⌋ + 1) : ℤ) : K) :=
    Int.cast_le.mpr (le_max_right _ _)
  push_cast at h2 ⊢
  linarith

/-- the edge is at most one pixel beyond the largest coordinate (or the edge `1/2` of the first pixel) -/
theorem upperEdge_le (m : K) : upperEdge m ≤ max (1 / 2) (m + 1) := by
  rw [upperEdge_eq]
  have h1 : ((⌊m + 1 / 2⌋ : ℤ) : K) ≤ m + 1 / 2 := Int.floor_le _
  rcases le_total (1 : ℤ) (⌊m + 1 / 2⌋ + 1) with h | h
  · rw [max_eq_right h]
    push_cast
    exact le_trans (by linarith) (le_max_right _ _)
  · rw [max_eq_left h]
    push_cast
    exact le_trans (by norm_num) (le_max_left _ _)

/-- the edge is a half-integer at or above the upper edge `1/2` of the first pixel -/
theorem upperEdge_nat (m : K) : ∃ n : ℕ, 1 ≤ n ∧ upperEdge m + 1 / 2 = (n : K) := by
  rw [upperEdge_eq]
  have h1 : (1 : ℤ) ≤ max 1 (⌊m + 1 / 2⌋ + 1) := le_max_left _ _
  refine ⟨(max 1 (⌊m + 1 / 2⌋ + 1) : ℤ).toNat, ?_, ?_⟩
  · omega
  · have : (((max 1 (⌊m + 1 / 2⌋ + 1) : ℤ).toNat : ℤ) : K) = ((max 1 (⌊m + 1 / 2⌋ + 1) : ℤ) : K) := by
      rw [Int.toNat_of_nonneg (by omega)]
    rw [← this]
    push_cast
    ring

/-! ### the numbers of intervals -/

theorem nintStep_cast (lo hi s : K) :
    ((nintStep lo hi s : ℕ) : ℤ) = max 2 ⌈(hi - lo) / s⌉ := by
  unfold nintStep
  have h : (0 : ℤ) ≤ max 2 (HasFloor.ceil ((hi - lo) / s)) := le_trans (by norm_num) (le_max_left _ _)
  rw [Int.toNat_of_nonneg h]
  rfl

theorem two_le_nintStep (lo hi s : K) : 2 ≤ nintStep lo hi s := by
  have h := nintStep_cast lo hi s
  have : (2 : ℤ) ≤ max 2 ⌈(hi - lo) / s⌉ := le_max_left _ _
  omega

/-- with a positive step no interval is longer than the step -/
theorem nintStep_le (lo hi s : K) (hs : 0 < s) : (hi - lo) / (nintStep lo hi s : K) ≤ s := by
  have h2 := two_le_nintStep lo hi s
  have hn : (0 : K) < (nintStep lo hi s : K) := by
    have : (0 : ℕ) < nintStep lo hi s := by omega
    exact_mod_cast this
  rw [div_le_iff₀ hn]
  have h1 : (hi - lo) / s ≤ ((⌈(hi - lo) / s⌉ : ℤ) : K) := Int.le_ceil _
  have h3 : ((⌈(hi - lo) / s⌉ : ℤ) : K) ≤ ((max 2 ⌈(hi - lo) / s⌉ : ℤ) : K) :=
    Int.cast_le.mpr (le_max_right _ _)
  have h4 : ((max 2 ⌈(hi - lo) / s⌉ : ℤ) : K) = (nintStep lo hi s : K) := by
    rw [← nintStep_cast]; simp
  rw [h4] at h3
  have := le_trans h1 h3
  rw [div_le_iff₀ hs] at this
  linarith

/-- … and the count is the least one (above the minimum 2) with this property -/
theorem nintStep_minimal (lo hi s : K) (hs : 0 < s) (h2 : 2 < nintStep lo hi s) :
    s < (hi - lo) / ((nintStep lo hi s : K) - 1) := by
  have hc := nintStep_cast lo hi s
  have hmax : max 2 ⌈(hi - lo) / s⌉ = ⌈(hi - lo) / s⌉ := by
    rcases le_total (2 : ℤ) ⌈(hi - lo) / s⌉ with h | h
    · exact max_eq_right h
    · rw [max_eq_left h] at hc; omega
  rw [hmax] at hc
  have h1 : ((⌈(hi - lo) / s⌉ : ℤ) : K) < (hi - lo) / s + 1 := Int.ceil_lt_add_one _
  have h4 : ((⌈(hi - lo) / s⌉ : ℤ) : K) = (nintStep lo hi s : K) := by
    rw [← hc]; simp
  rw [h4] at h1
  have hn : (0 : K) < (nintStep lo hi s : K) - 1 := by
    have : ((2 : ℕ) : K) < (nintStep lo hi s : K) := by exact_mod_cast h2
    push_cast at this
    linarith
  rw [lt_div_iff₀ hn]
  have h5 : (nintStep lo hi s : K) - 1 < (hi - lo) / s := by linarith
  rw [lt_div_iff₀ hs] at h5
  linarith

theorem nint_cases (step : Option K) (lo hi : K) :
    (step = none ∧ nint step lo hi = .ok 3) ∨
    (step = some 0 ∧ nint step lo hi = .error .zeroStep) ∨
    (∃ s, s ≠ 0 ∧ step = some s ∧ nint step lo hi = .ok (nintStep lo hi s)) := by
  cases step with
  | none => left; exact ⟨rfl, rfl⟩
  | some s =>
    right
    unfold nint
    by_cases hs : s = 0
    · left
      refine ⟨by rw [hs], ?_⟩
      simp only
      rw [if_pos]
      rw [eqK_iff, hs]; simp
    · right
      refine ⟨s, hs, rfl, ?_⟩
      simp only
      rw [if_neg]
      rw [eqK_iff]; simpa using hs

end floor

/-! ### `numpy.linspace` -/

theorem linspaceVal_eq (lo hi : K) (n i : ℕ) (hn : n ≠ 0) :
    linspaceVal lo hi n i = lo + (i : K) * ((hi - lo) / (n : K)) := by
  unfold linspaceVal
  simp only
  have hn' : (n : K) ≠ 0 := Nat.cast_ne_zero.mpr hn
  by_cases h : eqK ((hi - lo) / (n : K)) (zeroK : K) = true
  · rw [if_pos h]
    rw [eqK_iff] at h
    simp only [zeroK_eq] at h
    have hd : hi - lo = 0 := by
      rcases div_eq_zero_iff.mp h with h | h
      · exact h
      · exact absurd h hn'
    rw [hd]; simp
  · rw [if_neg h]; ring

theorem linspace_eq_map (lo hi : K) (n : ℕ) (hn : n ≠ 0) :
    linspace lo hi n = (List.range (n + 1)).map fun (i : ℕ) => lo + (i : K) * ((hi - lo) / (n : K)) := by
  unfold linspace
  rw [if_neg hn, List.range_succ, List.map_append]
  have hn' : (n : K) ≠ 0 := Nat.cast_ne_zero.mpr hn
  congr 1
  · apply List.map_congr_left
    intro i _
    exact linspaceVal_eq lo hi n i hn
  · simp only [List.map_cons, List.map_nil]
    congr 1
    field_simp
    ring

theorem linspace_length (lo hi : K) (n : ℕ) : (linspace lo hi n).length = n + 1 := by
  unfold linspace
  by_cases hn : n = 0
  · rw [if_pos hn, hn]; rfl
  · rw [if_neg hn]; simp

/-- entry `i` of `linspace(lo, hi, n + 1)` -/
theorem linspace_getElem? (lo hi : K) (n i : ℕ) (hn : n ≠ 0) (hi' : i ≤ n) :
    (linspace lo hi n)[i]? = some (lo + (i : K) * ((hi - lo) / (n : K))) := by
  rw [linspace_eq_map lo hi n hn, List.getElem?_map, List.getElem?_range (by omega)]
  rfl

/-- the shape of a sampled edge: first point, interior points, end point (exactly `hi`) -/
theorem linspace_decomp (lo hi : K) (n : ℕ) (hn : n ≠ 0) :
    linspace lo hi n = lo :: interior (linspace lo hi n) ++ [hi] := by
  have h0 : linspaceVal lo hi n 0 = lo := by rw [linspaceVal_eq lo hi n 0 hn]; simp
  obtain ⟨k, rfl⟩ : ∃ k, n = k + 1 := ⟨n - 1, by omega⟩
  unfold linspace
  rw [if_neg hn, List.range_succ_eq_map, List.map_cons, h0]
  simp [interior]

theorem interior_length (lo hi : K) (n : ℕ) : (interior (linspace lo hi n)).length = n - 1 := by
  unfold interior
  rw [List.length_dropLast, List.length_drop, linspace_length]
  omega

/-- strictly increasing for `lo < hi` -/
theorem linspace_sorted (lo hi : K) (n : ℕ) (hn : n ≠ 0) (h : lo < hi) :
    (linspace lo hi n).Pairwise (· < ·) := by
  rw [linspace_eq_map lo hi n hn, List.pairwise_map]
  have hn' : (0 : K) < (n : K) := Nat.cast_pos.mpr (Nat.pos_of_ne_zero hn)
  have hstep : 0 < (hi - lo) / (n : K) := div_pos (by linarith) hn'
  refine List.Pairwise.imp ?_ (List.pairwise_lt_range (n := n + 1))
  intro a b hab
  have : (a : K) < (b : K) := Nat.cast_lt.mpr hab
  nlinarith

/-- every sample lies between the end points (whatever their order) -/
theorem linspace_between (lo hi : K) (n : ℕ) (hn : n ≠ 0) :
    ∀ v ∈ linspace lo hi n, min lo hi ≤ v ∧ v ≤ max lo hi := by
  intro v hv
  rw [linspace_eq_map lo hi n hn, List.mem_map] at hv
  obtain ⟨i, hi', rfl⟩ := hv
  rw [List.mem_range] at hi'
  have hn' : (0 : K) < (n : K) := Nat.cast_pos.mpr (Nat.pos_of_ne_zero hn)
  have ht0 : (0 : K) ≤ (i : K) / (n : K) := div_nonneg (Nat.cast_nonneg _) (le_of_lt hn')
  have ht1 : (i : K) / (n : K) ≤ 1 := by
    rw [div_le_one hn']
    exact Nat.cast_le.mpr (by omega)
  have e : lo + (i : K) * ((hi - lo) / (n : K)) = lo + (i : K) / (n : K) * (hi - lo) := by
    field_simp
  rw [e]
  rcases le_total lo hi with h | h
  · rw [min_eq_left h, max_eq_right h]
    constructor <;> nlinarith
  · rw [min_eq_right h, max_eq_left h]
    constructor <;> nlinarith

/-- the sample list with its interior made explicit is sorted (also for `n = 0`, one sample: no interior) -/
theorem interior_sorted (lo hi : K) (n : ℕ) (h : lo < hi) :
    (lo :: interior (linspace lo hi n) ++ [hi]).Pairwise (· < ·) := by
  by_cases hn : n = 0
  · rw [hn]
    simp [linspace, interior, h]
  · rw [← linspace_decomp lo hi n hn]
    exact linspace_sorted lo hi n hn h

theorem interior_between (lo hi : K) (n : ℕ) :
    ∀ v ∈ interior (linspace lo hi n), min lo hi ≤ v ∧ v ≤ max lo hi := by
  by_cases hn : n = 0
  · rw [hn]; simp [linspace, interior]
  · intro v hv
    apply linspace_between lo hi n hn
    rw [linspace_decomp lo hi n hn]
    simp [hv]

/-! ### the shape of the border walk -/

theorem zip_replicate_right {α β : Type} (c : β) : ∀ (l : List α) (n : ℕ), n = l.length →
    l.zip (List.replicate n c) = l.map fun a => (a, c) := by
  intro l
  induction l with
  | nil => intro n _; simp
  | cons a t ih =>
    intro n hn
    obtain ⟨k, rfl⟩ : ∃ k, n = k + 1 := ⟨t.length, by simpa using hn⟩
    rw [List.replicate_succ, List.zip_cons_cons, ih k (by simpa using hn)]
    rfl

theorem zip_replicate_left {α β : Type} (c : α) : ∀ (l : List β) (n : ℕ), n = l.length →
    (List.replicate n c).zip l = l.map fun b => (c, b) := by
  intro l
  induction l with
  | nil => intro n _; simp
  | cons a t ih =>
    intro n hn
    obtain ⟨k, rfl⟩ : ∃ k, n = k + 1 := ⟨t.length, by simpa using hn⟩
    rw [List.replicate_succ, List.zip_cons_cons, ih k (by simpa using hn)]
    rfl

theorem zip_take_one {α β : Type} (a : List α) (b : List β) :
    (a.take 1).zip (b.take 1) = (a.zip b).take 1 := by
  cases a <;> cases b <;> simp

/-- the zipped border as four mapped edges and the closing point -/
theorem chipBorder_edges (r : Rect K) (nx ny : ℕ) :
    chipBorder r nx ny =
      (let xs := linspace r.lx r.hx nx
       let ys := interior (linspace r.ly r.hy ny)
       let b := (xs.map fun x => (x, r.ly)) ++ (ys.map fun y => (r.hx, y)) ++
         (xs.reverse.map fun x => (x, r.hy)) ++ (ys.reverse.map fun y => (r.lx, y))
       b ++ b.take 1) := by
  unfold chipBorder borderX borderY
  simp only
  generalize linspace r.lx r.hx nx = xs
  generalize interior (linspace r.ly r.hy ny) = ys
  rw [List.zip_append (by simp), zip_take_one]
  rw [List.zip_append (by simp), List.zip_append (by simp), List.zip_append (by simp)]
  rw [zip_replicate_right _ xs _ rfl, zip_replicate_left _ ys _ rfl,
    zip_replicate_right _ xs.reverse _ (by simp), zip_replicate_left _ ys.reverse _ (by simp)]

/-- the closed walk along the border of `[lx, hx] × [ly, hy]` through the interior samples `xm` of
the horizontal and `ym` of the vertical edges: bottom → right → top → left → first point -/
def rectWalk (lx hx ly hy : K) (xm ym : List K) : List (K × K) :=
  ((lx, ly) :: xm.map fun x => (x, ly)) ++ (hx, ly) :: ((ym.map fun y => (hx, y)) ++ (hx, hy) ::
    ((xm.reverse.map fun x => (x, hy)) ++ (lx, hy) :: ((ym.reverse.map fun y => (lx, y)) ++ [(lx, ly)])))

theorem chipBorder_eq_rectWalk (r : Rect K) (nx ny : ℕ) (hn : nx ≠ 0) :
    chipBorder r nx ny = rectWalk r.lx r.hx r.ly r.hy (interior (linspace r.lx r.hx nx))
      (interior (linspace r.ly r.hy ny)) := by
  rw [chipBorder_edges]
  simp only
  rw [linspace_decomp r.lx r.hx nx hn]
  have hi : interior (r.lx :: interior (linspace r.lx r.hx nx) ++ [r.hx]) = interior (linspace r.lx r.hx nx) := by
    rw [← linspace_decomp r.lx r.hx nx hn]
  rw [hi]
  generalize interior (linspace r.lx r.hx nx) = xm
  generalize interior (linspace r.ly r.hy ny) = ym
  simp [rectWalk]

/-! ### chains, shoelace sums and half-plane tests along a closed axis-parallel walk -/

theorem isChain_glue {α : Type} (R : α → α → Prop) (p : α) (A B : List α) :
    List.IsChain R (A ++ p :: B) ↔ List.IsChain R (A ++ [p]) ∧ List.IsChain R (p :: B) := by
  rw [List.isChain_append, List.isChain_append]
  simp only [List.isChain_singleton, List.head?_cons, Option.mem_def, Option.some.injEq, forall_eq', true_and]
  tauto

/-- a chain property of the whole walk is the conjunction of the chain properties of its four edges
(each edge with both of its corners) -/
theorem isChain_rectWalk (R : K × K → K × K → Prop) (lx hx ly hy : K) (xm ym : List K) :
    List.IsChain R (rectWalk lx hx ly hy xm ym) ↔
      List.IsChain R ((lx :: xm ++ [hx]).map fun x => (x, ly)) ∧
      List.IsChain R ((ly :: ym ++ [hy]).map fun y => (hx, y)) ∧
      List.IsChain R ((lx :: xm ++ [hx]).reverse.map fun x => (x, hy)) ∧
      List.IsChain R ((ly :: ym ++ [hy]).reverse.map fun y => (lx, y)) := by
  unfold rectWalk
  rw [isChain_glue R (hx, ly) ((lx, ly) :: xm.map fun x => (x, ly))]
  rw [show ((hx, ly) :: ((ym.map fun y => (hx, y)) ++ (hx, hy) ::
        ((xm.reverse.map fun x => (x, hy)) ++ (lx, hy) :: ((ym.reverse.map fun y => (lx, y)) ++ [(lx, ly)])))) =
      ((hx, ly) :: ym.map fun y => (hx, y)) ++ (hx, hy) ::
        ((xm.reverse.map fun x => (x, hy)) ++ (lx, hy) :: ((ym.reverse.map fun y => (lx, y)) ++ [(lx, ly)])) from rfl]
  rw [isChain_glue R (hx, hy) ((hx, ly) :: ym.map fun y => (hx, y))]
  rw [show ((hx, hy) :: ((xm.reverse.map fun x => (x, hy)) ++ (lx, hy) ::
        ((ym.reverse.map fun y => (lx, y)) ++ [(lx, ly)]))) =
      ((hx, hy) :: xm.reverse.map fun x => (x, hy)) ++ (lx, hy) ::
        ((ym.reverse.map fun y => (lx, y)) ++ [(lx, ly)]) from rfl]
  rw [isChain_glue R (lx, hy) ((hx, hy) :: xm.reverse.map fun x => (x, hy))]
  have e1 : ((lx, ly) :: xm.map fun x => (x, ly)) ++ [(hx, ly)] = (lx :: xm ++ [hx]).map fun x => (x, ly) := by simp
  have e2 : ((hx, ly) :: ym.map fun y => (hx, y)) ++ [(hx, hy)] = (ly :: ym ++ [hy]).map fun y => (hx, y) := by simp
  have e3 : ((hx, hy) :: xm.reverse.map fun x => (x, hy)) ++ [(lx, hy)] =
      (lx :: xm ++ [hx]).reverse.map fun x => (x, hy) := by simp
  have e4 : (lx, hy) :: ((ym.reverse.map fun y => (lx, y)) ++ [(lx, ly)]) =
      (ly :: ym ++ [hy]).reverse.map fun y => (lx, y) := by simp
  rw [e1, e2, e3, e4]

/-- along a chain for `R` on which `S` is equivalent to a fixed proposition, the `S`-chain property is that
proposition (two entries at least) -/
theorem chain_const_iff {α : Type} {R S : α → α → Prop} {φ : Prop} (h : ∀ a b, R a b → (S a b ↔ φ)) :
    ∀ l : List α, List.IsChain R l → 2 ≤ l.length → (List.IsChain S l ↔ φ) := by
  intro l
  induction l with
  | nil => intro _ h2; simp at h2
  | cons a t ih =>
    intro hc h2
    match t, ih, hc, h2 with
    | [], _, _, h2 => simp at h2
    | [b], _, hc, _ =>
      rw [List.isChain_pair] at hc ⊢
      exact h a b hc
    | b :: c :: rest, ih, hc, _ =>
      rw [List.isChain_cons_cons] at hc ⊢
      rw [ih hc.2 (by simp), h a b hc.1]
      exact and_self_iff

theorem shoelace2_glue (p : K × K) : ∀ (A B : List (K × K)),
    shoelace2 (A ++ p :: B) = shoelace2 (A ++ [p]) + shoelace2 (p :: B) := by
  intro A
  induction A with
  | nil => intro B; simp [shoelace2]
  | cons a t ih =>
    intro B
    match t, ih with
    | [], _ => simp [shoelace2]
    | b :: t', ih =>
      have := ih B
      simp only [List.cons_append, shoelace2] at this ⊢
      rw [this]; ring

theorem shoelace2_hline (c : K) : ∀ (m : List K) (a b : K),
    shoelace2 ((a :: m ++ [b]).map fun x => (x, c)) = (a - b) * c := by
  intro m
  induction m with
  | nil => intro a b; simp [shoelace2]; ring
  | cons x m ih =>
    intro a b
    have := ih x b
    simp only [List.cons_append, List.map_cons, shoelace2] at this ⊢
    rw [this]; ring

theorem shoelace2_vline (c : K) : ∀ (m : List K) (a b : K),
    shoelace2 ((a :: m ++ [b]).map fun y => (c, y)) = c * (b - a) := by
  intro m
  induction m with
  | nil => intro a b; simp [shoelace2]; ring
  | cons x m ih =>
    intro a b
    have := ih x b
    simp only [List.cons_append, List.map_cons, shoelace2] at this ⊢
    rw [this]; ring

/-- the shoelace sum of the walk is twice the area of the rectangle, with the positive sign of a
counter-clockwise polygon — whatever the samples on the edges -/
theorem shoelace2_rectWalk (lx hx ly hy : K) (xm ym : List K) :
    shoelace2 (rectWalk lx hx ly hy xm ym) = 2 * ((hx - lx) * (hy - ly)) := by
  unfold rectWalk
  rw [shoelace2_glue (hx, ly) ((lx, ly) :: xm.map fun x => (x, ly))]
  rw [show ((hx, ly) :: ((ym.map fun y => (hx, y)) ++ (hx, hy) ::
        ((xm.reverse.map fun x => (x, hy)) ++ (lx, hy) :: ((ym.reverse.map fun y => (lx, y)) ++ [(lx, ly)])))) =
      ((hx, ly) :: ym.map fun y => (hx, y)) ++ (hx, hy) ::
        ((xm.reverse.map fun x => (x, hy)) ++ (lx, hy) :: ((ym.reverse.map fun y => (lx, y)) ++ [(lx, ly)])) from rfl]
  rw [shoelace2_glue (hx, hy) ((hx, ly) :: ym.map fun y => (hx, y))]
  rw [show ((hx, hy) :: ((xm.reverse.map fun x => (x, hy)) ++ (lx, hy) ::
        ((ym.reverse.map fun y => (lx, y)) ++ [(lx, ly)]))) =
      ((hx, hy) :: xm.reverse.map fun x => (x, hy)) ++ (lx, hy) ::
        ((ym.reverse.map fun y => (lx, y)) ++ [(lx, ly)]) from rfl]
  rw [shoelace2_glue (lx, hy) ((hx, hy) :: xm.reverse.map fun x => (x, hy))]
  have e1 : ((lx, ly) :: xm.map fun x => (x, ly)) ++ [(hx, ly)] = (lx :: xm ++ [hx]).map fun x => (x, ly) := by simp
  have e2 : ((hx, ly) :: ym.map fun y => (hx, y)) ++ [(hx, hy)] = (ly :: ym ++ [hy]).map fun y => (hx, y) := by simp
  have e3 : ((hx, hy) :: xm.reverse.map fun x => (x, hy)) ++ [(lx, hy)] =
      (hx :: xm.reverse ++ [lx]).map fun x => (x, hy) := by simp
  have e4 : (lx, hy) :: ((ym.reverse.map fun y => (lx, y)) ++ [(lx, ly)]) =
      (hy :: ym.reverse ++ [ly]).map fun y => (lx, y) := by simp
  rw [e1, e2, e3, e4, shoelace2_hline, shoelace2_vline, shoelace2_hline, shoelace2_vline]
  ring

theorem allLeft_iff_isChain (q : Pt K) : ∀ l : List (Pt K),
    AllLeft q l ↔ List.IsChain (fun a b => 0 ≤ cross a b q) l := by
  intro l
  induction l with
  | nil => simp [AllLeft]
  | cons a t ih =>
    match t, ih with
    | [], _ => simp [AllLeft]
    | b :: rest, ih =>
      rw [List.isChain_cons_cons, ← ih]
      rfl

/-! ### facts about the walk -/

theorem rectWalk_length (lx hx ly hy : K) (xm ym : List K) :
    (rectWalk lx hx ly hy xm ym).length = 2 * (xm.length + 2) + 2 * ym.length + 1 := by
  simp [rectWalk]; omega

theorem rectWalk_head (lx hx ly hy : K) (xm ym : List K) :
    (rectWalk lx hx ly hy xm ym).head? = some (lx, ly) := rfl

theorem rectWalk_getLast (lx hx ly hy : K) (xm ym : List K) :
    (rectWalk lx hx ly hy xm ym).getLast? = some (lx, ly) := by
  have e : rectWalk lx hx ly hy xm ym =
      (((lx, ly) :: xm.map fun x => (x, ly)) ++ (hx, ly) :: ((ym.map fun y => (hx, y)) ++ (hx, hy) ::
        ((xm.reverse.map fun x => (x, hy)) ++ (lx, hy) :: (ym.reverse.map fun y => (lx, y))))) ++ [(lx, ly)] := by
    simp [rectWalk]
  rw [e, List.getLast?_concat]

theorem mem_rectWalk (lx hx ly hy : K) (xm ym : List K) (p : K × K) (hp : p ∈ rectWalk lx hx ly hy xm ym) :
    (p.2 = ly ∧ (p.1 = lx ∨ p.1 = hx ∨ p.1 ∈ xm)) ∨ (p.1 = hx ∧ (p.2 = hy ∨ p.2 ∈ ym)) ∨
    (p.2 = hy ∧ (p.1 = lx ∨ p.1 ∈ xm)) ∨ (p.1 = lx ∧ p.2 ∈ ym) := by
  unfold rectWalk at hp
  simp only [List.mem_append, List.mem_cons, List.mem_map, List.mem_reverse, List.not_mem_nil, or_false] at hp
  rcases hp with (e | ⟨x, hx', e⟩) | e | ⟨y, hy', e⟩ | e | ⟨x, hx', e⟩ | e | ⟨y, hy', e⟩ | e
  all_goals (subst e; simp only [true_and, true_or, or_true]; try tauto)

theorem corners_sublist (lx hx ly hy : K) (xm ym : List K) :
    List.Sublist [(lx, ly), (hx, ly), (hx, hy), (lx, hy), (lx, ly)] (rectWalk lx hx ly hy xm ym) := by
  unfold rectWalk
  have h4 : List.Sublist [(lx, ly)] ((ym.reverse.map fun y => (lx, y)) ++ [(lx, ly)]) :=
    List.sublist_append_right _ _
  have h3 : List.Sublist [(lx, hy), (lx, ly)]
      ((xm.reverse.map fun x => (x, hy)) ++ (lx, hy) :: ((ym.reverse.map fun y => (lx, y)) ++ [(lx, ly)])) :=
    (List.Sublist.cons_cons _ h4).trans (List.sublist_append_right _ _)
  have h2 : List.Sublist [(hx, hy), (lx, hy), (lx, ly)]
      ((ym.map fun y => (hx, y)) ++ (hx, hy) :: ((xm.reverse.map fun x => (x, hy)) ++ (lx, hy) ::
        ((ym.reverse.map fun y => (lx, y)) ++ [(lx, ly)]))) :=
    (List.Sublist.cons_cons _ h3).trans (List.sublist_append_right _ _)
  have h1 : List.Sublist [(hx, ly), (hx, hy), (lx, hy), (lx, ly)]
      ((xm.map fun x => (x, ly)) ++ (hx, ly) :: ((ym.map fun y => (hx, y)) ++ (hx, hy) ::
        ((xm.reverse.map fun x => (x, hy)) ++ (lx, hy) :: ((ym.reverse.map fun y => (lx, y)) ++ [(lx, ly)])))) :=
    (List.Sublist.cons_cons _ h2).trans (List.sublist_append_right _ _)
  exact List.Sublist.cons_cons _ h1

end TW.Chip
