import Proofs.IterLemmas
import Proofs.InvLemmas
import Model.PairWeights
import Mathlib.Tactic.FieldSimp
import Mathlib.Tactic.Positivity

/-!
Helper lemmas for `Proofs/C09.lean`: the fit only reads the points selected by `wmask`; harmonic
combination of weights; list indexing (`gather`, stacked catalogs).
-/
set_option linter.unusedSectionVars false
set_option linter.unusedVariables false

namespace TW.C09L
open TW TW.Clip

/-! ### the fit only reads the masked points -/
section
variable {K : Type} [Add K] [Sub K] [Mul K] [Div K] [Neg K] [LT K] [DecidableLT K] [NatCast K]

theorem centreObs_getElem?_congr (c : K × K) (mask : List Bool) (o1 o2 : List (Obs K)) (i : Nat)
    (h : o1[i]? = o2[i]?) : (centreObs c mask o1)[i]? = (centreObs c mask o2)[i]? := by
  unfold centreObs
  rw [List.getElem?_zipWith, List.getElem?_zipWith, h]

theorem fitOn_congr (single : Single K) (nrm : Bool) (m : Metric K) (oA oB : List (Obs K))
    (wxy wuv : Option (List K)) (mask : List Bool) (hl : oA.length = oB.length)
    (h : ∀ i, On mask i → oA[i]? = oB[i]?) :
    fitOn single nrm m oA wxy wuv mask = fitOn single nrm m oB wxy wuv mask := by
  unfold fitOn
  rw [select_congr mask oA oB hl h]

theorem mkCfg_rnorm (single : Single K) (nrm : Bool) (m : Metric K) (minobj : Nat) (accum : Bool)
    (p : ClipPar K) (obs : List (Obs K)) (wxy wuv : Option (List K)) (f : FitRes K) (i : Nat) :
    (mkCfg single nrm m minobj accum p obs wxy wuv).rnorm f i =
      match obs[i]? with
      | some o => m.rnorm f.lin o
      | none => zeroK := by
  simp only [mkCfg, List.getElem?_toArray]
  cases obs[i]? <;> rfl

/-- the set-up of two data sets of the same length that agree on the positively weighted points
differs only in the (centred) coordinates of the other points -/
theorem setup_congr_obs (minobj : Nat) (obs1 obs2 : List (Obs K)) (wxy wuv : Option (List K))
    (center : Option (K × K)) (nclip : Option Int) (sigma : Option (K × String))
    (hlen : obs1.length = obs2.length)
    (hag : ∀ i, On (wmaskOf obs1.length wxy wuv) i → obs1[i]? = obs2[i]?) :
    (∀ e, setup minobj obs1 wxy wuv center nclip sigma = .error e →
        setup minobj obs2 wxy wuv center nclip sigma = .error e) ∧
    (∀ su, setup minobj obs1 wxy wuv center nclip sigma = .ok su →
        setup minobj obs2 wxy wuv center nclip sigma
          = .ok { su with obs := centreObs su.center su.wmask obs2 }) := by
  unfold setup
  rw [← hlen]
  by_cases hl : (!(lenOk obs1.length wxy && lenOk obs1.length wuv)) = true
  · rw [if_pos hl, if_pos hl]
    exact ⟨fun e h => h, fun su h => (by cases h)⟩
  · rw [if_neg hl, if_neg hl]
    cases hv : validate nclip sigma with
    | error e => exact ⟨fun e h => h, fun su h => (by cases h)⟩
    | ok p =>
      simp only
      have hx : lenOk obs1.length wxy = true := by
        cases hh : lenOk obs1.length wxy <;> simp_all
      have hu : lenOk obs1.length wuv = true := by
        cases hh : lenOk obs1.length wuv <;> simp_all
      have hsel : select (wmaskOf obs1.length wxy wuv) obs1 = select (wmaskOf obs1.length wxy wuv) obs2 :=
        select_congr _ obs1 obs2 hlen hag
      rw [hsel]
      refine ⟨fun e h => (by cases h), fun su h => ?_⟩
      injection h with h
      subst h
      rfl

/-- two data sets of the same length that agree on the positively weighted points give the same
answer, whatever the coordinates of the other points are -/
theorem iter_congr_obs (single : Single K) (nrm : Bool) (m : Metric K) (minobj : Nat)
    (obs1 obs2 : List (Obs K)) (wxy wuv : Option (List K)) (center : Option (K × K))
    (nclip : Option Int) (sigma : Option (K × String)) (accum : Bool)
    (hlen : obs1.length = obs2.length)
    (hag : ∀ i, On (wmaskOf obs1.length wxy wuv) i → obs1[i]? = obs2[i]?) :
    iterLinearFitWith single nrm m minobj obs1 wxy wuv center nclip sigma accum
      = iterLinearFitWith single nrm m minobj obs2 wxy wuv center nclip sigma accum := by
  obtain ⟨he, hok⟩ := setup_congr_obs minobj obs1 obs2 wxy wuv center nclip sigma hlen hag
  unfold iterLinearFitWith
  cases h1 : setup minobj obs1 wxy wuv center nclip sigma with
  | error e => rw [he e h1]
  | ok su =>
    rw [hok su h1]
    simp only
    obtain ⟨hx, hu, _, hw, _, _, hobs⟩ := setup_ok minobj obs1 wxy wuv center nclip sigma su h1
    have hwl : su.wmask.length = obs1.length := by rw [hw]; exact wmaskOf_length _ _ _ hx hu
    have hlA : su.obs.length = obs1.length := by rw [hobs]; exact centreObs_length _ _ _ hwl
    have hlB : (centreObs su.center su.wmask obs2).length = obs2.length :=
      centreObs_length _ su.wmask obs2 (by rw [hwl, hlen])
    have hAB : ∀ i, On su.wmask i → su.obs[i]? = (centreObs su.center su.wmask obs2)[i]? := fun i hi => by
      rw [hobs]
      exact centreObs_getElem?_congr su.center su.wmask obs1 obs2 i (hag i (by rw [← hw]; exact hi))
    have hfit : ∀ mk : List Bool, mk.length = su.wmask.length → Sub mk su.wmask →
        (mkCfg single nrm m minobj accum su.par su.obs wxy wuv).fit mk
          = (mkCfg single nrm m minobj accum su.par (centreObs su.center su.wmask obs2) wxy wuv).fit mk := by
      intro mk _ hs
      exact fitOn_congr single nrm m _ _ wxy wuv mk (by rw [hlA, hlB, hlen]) fun i hi => hAB i (hs i hi)
    have hinit : initState (mkCfg single nrm m minobj accum su.par su.obs wxy wuv) su.wmask
        = initState (mkCfg single nrm m minobj accum su.par (centreObs su.center su.wmask obs2) wxy wuv) su.wmask := by
      unfold initState
      rw [hfit su.wmask rfl (Sub.refl _)]
    rw [← hinit]
    cases hi : initState (mkCfg single nrm m minobj accum su.par su.obs wxy wuv) su.wmask with
    | error e => rfl
    | ok s0 =>
      simp only
      obtain ⟨hinv, _, _, _⟩ := initState_ok _ su.wmask s0 hi
      have hrun := run_congr (mkCfg single nrm m minobj accum su.par su.obs wxy wuv)
        (mkCfg single nrm m minobj accum su.par (centreObs su.center su.wmask obs2) wxy wuv) su.wmask
        hfit (fun f => rfl) rfl
        (fun f i hon => by
          rw [mkCfg_rnorm, mkCfg_rnorm, hAB i hon])
        rfl rfl s0 hinv
      rw [hrun]

end

/-! ### harmonic combination -/
section
variable {K : Type} [Field K] [LinearOrder K] [IsStrictOrderedRing K]

theorem harmonic_of_pos (a b : K) (ha : 0 < a) (hb : 0 < b) : harmonic a b = a * b / (a + b) := by
  unfold harmonic
  simp [zeroK_eq, ha, hb]

theorem harmonic_of_not_pos (a b : K) (h : ¬ (0 < a ∧ 0 < b)) : harmonic a b = 0 := by
  unfold harmonic
  simp only [zeroK_eq]
  rw [if_neg (by tauto)]

theorem harmonic_pos_iff (a b : K) : zeroK < harmonic a b ↔ (zeroK < a ∧ zeroK < b) := by
  simp only [zeroK_eq]
  by_cases h : 0 < a ∧ 0 < b
  · rw [harmonic_of_pos a b h.1 h.2]
    have : 0 < a * b / (a + b) := by
      have := h.1; have := h.2; positivity
    tauto
  · rw [harmonic_of_not_pos a b h]
    simp only [lt_self_iff_false, false_iff]
    exact h

end

section
variable {K : Type} [Add K] [Sub K] [Mul K] [Div K] [Neg K] [LT K] [DecidableLT K] [NatCast K]

theorem select_zipWith {α β γ : Type} (f : α → β → γ) : ∀ (m : List Bool) (a : List α) (b : List β),
    select m (List.zipWith f a b) = List.zipWith f (select m a) (select m b)
  | [], a, b => by simp [select]
  | _ :: _, [], b => by simp [select]
  | _ :: _, _ :: _, [] => by simp [select]
  | c :: m, x :: a, y :: b => by
    rw [List.zipWith_cons_cons, select_cons, select_cons, select_cons, select_zipWith f m a b]
    cases c <;> simp

end

/-! ### indexing -/

theorem gather_spec {α : Type} (l : List α) : ∀ (idx : List Nat) (r : List α), gather l idx = some r →
    r.length = idx.length ∧ ∀ k, k < idx.length → r[k]? = (idx[k]?).bind fun i => l[i]?
  | [], r, h => by
    simp [gather] at h
    subst h
    simp
  | i :: idx, r, h => by
    unfold gather at h
    rw [List.mapM_cons] at h
    cases hi : l[i]? with
    | none => simp [hi] at h
    | some a =>
      cases hr : gather l idx with
      | none =>
        unfold gather at hr
        simp [hi, hr] at h
      | some r' =>
        have hr2 := hr
        unfold gather at hr2
        simp [hi, hr2] at h
        subst h
        obtain ⟨h1, h2⟩ := gather_spec l idx r' hr
        refine ⟨by simp [h1], fun k hk => ?_⟩
        cases k with
        | zero => simp [hi]
        | succ k =>
          simp only [List.length_cons, Nat.add_lt_add_iff_right] at hk
          simpa using h2 k hk

theorem gather_length {α : Type} (l : List α) (idx : List Nat) (r : List α) (h : gather l idx = some r) :
    r.length = idx.length := (gather_spec l idx r h).1

/-- the `j`-th element of the `i`-th block of a concatenation sits at `offset(i) + j` -/
theorem flatMap_index {β γ : Type} (f : β → List γ) : ∀ (l : List β) (i j : Nat) (b : β),
    l[i]? = some b → j < (f b).length →
    (l.flatMap f)[((l.take i).map fun x => (f x).length).sum + j]? = (f b)[j]?
  | [], i, j, b, h, _ => by simp at h
  | x :: l, 0, j, b, h, hj => by
    simp at h
    subst h
    simp [List.getElem?_append_left hj]
  | x :: l, i + 1, j, b, h, hj => by
    simp at h
    have ih := flatMap_index f l i j b h hj
    simp only [List.flatMap_cons, List.take_succ_cons, List.map_cons, List.sum_cons]
    rw [Nat.add_assoc, List.getElem?_append_right (by omega)]
    simpa using ih

end TW.C09L
