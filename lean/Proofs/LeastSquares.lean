import Mathlib.Algebra.Order.Field.Basic
import Mathlib.Algebra.BigOperators.Group.List.Basic
import Mathlib.Algebra.Order.BigOperators.Group.List
import Mathlib.Tactic.Ring
import Mathlib.Tactic.Linarith
import Mathlib.Tactic.Positivity
import Model.Fit
import Proofs.InvCorrect

open TW
set_option linter.unusedSectionVars false

namespace TW
variable {K : Type} [Field K] [LinearOrder K] [IsStrictOrderedRing K]

/-- weighted sum of squared residuals of the scalar model `t ≈ a*u + b*v + c`
over rows `(w, u, v, t)` -/
def S1 (rows : List (K × K × K × K)) (a b c : K) : K :=
  (rows.map fun r => r.1 * (r.2.2.2 - (a * r.2.1 + b * r.2.2.1 + c))^2).sum

/-- the three components of (minus half) its gradient -/
def G1 (rows : List (K × K × K × K)) (a b c : K) : K × K × K :=
  ((rows.map fun r => r.1 * (r.2.2.2 - (a * r.2.1 + b * r.2.2.1 + c)) * r.2.1).sum,
   (rows.map fun r => r.1 * (r.2.2.2 - (a * r.2.1 + b * r.2.2.1 + c)) * r.2.2.1).sum,
   (rows.map fun r => r.1 * (r.2.2.2 - (a * r.2.1 + b * r.2.2.1 + c))).sum)

theorem S1_expand (rows : List (K × K × K × K)) (a b c a' b' c' : K) :
    S1 rows a' b' c' = S1 rows a b c
      - 2 * ((a'-a) * (G1 rows a b c).1 + (b'-b) * (G1 rows a b c).2.1 + (c'-c) * (G1 rows a b c).2.2)
      + (rows.map fun r => r.1 * ((a'-a) * r.2.1 + (b'-b) * r.2.2.1 + (c'-c))^2).sum := by
  induction rows with
  | nil => simp [S1, G1]
  | cons r rs ih =>
    simp only [S1, G1, List.map_cons, List.sum_cons] at ih ⊢
    rw [ih]; ring

/-- zero gradient and non-negative weights ⇒ global minimum -/
theorem ls_optimal (rows : List (K × K × K × K)) (hw : ∀ r ∈ rows, 0 ≤ r.1) (a b c : K)
    (hG : G1 rows a b c = (0, 0, 0)) (a' b' c' : K) : S1 rows a b c ≤ S1 rows a' b' c' := by
  rw [S1_expand rows a b c a' b' c', hG]
  have : 0 ≤ (rows.map fun r => r.1 * ((a'-a) * r.2.1 + (b'-b) * r.2.2.1 + (c'-c))^2).sum := by
    apply List.sum_nonneg
    intro x hx
    simp only [List.mem_map] at hx
    obtain ⟨r, hr, rfl⟩ := hx
    exact mul_nonneg (hw r hr) (sq_nonneg _)
  simp only [mul_zero, add_zero, sub_zero]
  linarith

/-! ### the model's sums as `List.sum`s over zipped rows -/

theorem sumL_eq_sum (l : List K) : sumL l = l.sum := by
  induction l with
  | nil => simp [sumL]
  | cons a l ih => simp [sumL, ih]

theorem dotL_map {α : Type} (ws : List K) (l : List α) (f : α → K) :
    dotL ws (l.map f) = ((List.zip ws l).map fun p => p.1 * f p.2).sum := by
  unfold dotL
  rw [sumL_eq_sum]
  congr 1
  induction ws generalizing l with
  | nil => simp
  | cons w ws ih =>
    cases l with
    | nil => simp
    | cons a l => simp [ih]

theorem dotL_mul_map {α : Type} (ws : List K) (l : List α) (f g : α → K) :
    dotL ws (List.zipWith (· * ·) (l.map f) (l.map g)) =
      ((List.zip ws l).map fun p => p.1 * (f p.2 * g p.2)).sum := by
  have : List.zipWith (· * ·) (l.map f) (l.map g) = l.map (fun a => f a * g a) := by
    induction l with
    | nil => rfl
    | cons a l ih => simp [ih]
  rw [this, dotL_map]

theorem sumL_weights {α : Type} (ws : List K) (l : List α) (h : ws.length = l.length) :
    sumL ws = ((List.zip ws l).map fun p => p.1).sum := by
  rw [sumL_eq_sum]
  congr 1
  induction ws generalizing l with
  | nil => simp
  | cons w ws ih =>
    cases l with
    | nil => simp at h
    | cons a l =>
      simp only [List.zip_cons_cons, List.map_cons, List.cons.injEq, true_and]
      exact ih l (by simpa using h)

end TW
