import Proofs.GCorrLemmas
import Proofs.FCorrLemmas

/-!
# C02 — `set_correction` applies exactly the requested affine map in the tangent plane

Property theorems only.  Models: `TW.GCorr` (gWCS; the fixed pipeline pieces `D`, `U`, `R` are
ARBITRARY bijections, so the statements hold for every pointing, roll, distortion and
velocity-aberration frame) and `TW.FCorr` (FITS WCS in the flat-sky idealisation; the distortion
`δ` is arbitrary).  `K` is any linearly ordered field.
-/
open TW
set_option linter.unusedSectionVars false

namespace TW.C02
variable {K : Type} [Field K] [LinearOrder K] [IsStrictOrderedRing K]

/-- gWCS, own plane, ANY well-formed prior state (never corrected, corrected any number of times,
re-wrapped): `old.world_to_tanp(new.det_to_world(p)) = matrix·old.det_to_tanp(p) + shift` -/
theorem gwcs_setCorrection_applies (env : GEnv K) (h : env.Bij) (g : GCorr K) (hg : g.WF)
    (M : M2 K) (s : V2 K) (hM : M.det ≠ 0) (p : V2 K) :
    g.worldToTanp env ((g.setCorrection env.c ⟨M, s⟩ none).detToWorld env p)
      = (M.mulVec (g.detToTanp env p)).add s := by
  have hn := g.setCorrection_WF env hg h ⟨M, s⟩ none hM (by intro q hq; cases hq)
  rw [g.worldToTanp_chart env hg h, GCorr.detToWorld_chart env _ hn h, env.sigmaInv_sigma h,
    g.setCorrection_A env h, Aff.app_comp, g.detToTanp_chart env]
  rfl

/-- gWCS, correction defined in a reference plane.  `refW2T`/`refT2W` are the reference
corrector's `world_to_tanp`/`tanp_to_world` (any mutually inverse pair); flat-sky hypothesis:
the plane-to-plane map `self.world_to_tanp ∘ ref.tanp_to_world` is an (invertible) affine map.
Then, with `q = _tp2tp(ref, self)` computed from the four sample points at ANY non-zero scale,
the identity holds with both sides measured in the reference plane. -/
theorem gwcs_setCorrection_applies_ref (env : GEnv K) (h : env.Bij) (g : GCorr K) (hg : g.WF)
    (refW2T refT2W : V2 K → V2 K) (hr1 : ∀ w, refT2W (refW2T w) = w)
    (q : Aff K) (hq : q.m.det ≠ 0) (hflat : ∀ x, g.worldToTanp env (refT2W x) = q.app x)
    (s0 : K) (hs0 : s0 ≠ 0) (M : M2 K) (s : V2 K) (hM : M.det ≠ 0) (p : V2 K) :
    refW2T ((g.setCorrection env.c ⟨M, s⟩
        (some (tp2tp (fun x => g.worldToTanp env (refT2W x)) s0))).detToWorld env p)
      = (M.mulVec (refW2T (g.detToWorld env p))).add s := by
  have hqq : tp2tp (fun x => g.worldToTanp env (refT2W x)) s0 = q := by
    rw [show (fun x => g.worldToTanp env (refT2W x)) = q.app from funext hflat]
    exact tp2tp_affine q s0 hs0
  rw [hqq]
  -- reference-plane coordinates of a sky position
  have href : ∀ w, refW2T w = q.inv.app (g.worldToTanp env w) := by
    intro w
    have := hflat (refW2T w)
    rw [hr1] at this
    rw [this, Aff.inv_app q hq]
  have hn := g.setCorrection_WF env hg h ⟨M, s⟩ (some q) hM (by intro q' hq'; cases hq'; exact hq)
  rw [href, href, g.worldToTanp_chart env hg h, g.worldToTanp_chart env hg h,
    GCorr.detToWorld_chart env _ hn h, g.detToWorld_chart env hg h, env.sigmaInv_sigma h,
    env.sigmaInv_sigma h, g.setCorrection_A env h]
  simp only [effCorr, conjAff_eq q _ hq, Aff.app_comp, Aff.inv_app q hq]
  rfl

/-- FITS (flat sky), own plane, any well-formed prior state and any distortion `δ` -/
theorem fits_setCorrection_applies (f : FCorr K) (hf : f.WF) (δ : V2 K → V2 K) (M : M2 K) (s : V2 K)
    (hM : M.det ≠ 0) (hx hy : K) (hhx : hx ≠ 0) (hhy : hy ≠ 0) (p : V2 K) :
    f.worldToTanp ((f.setCorrectionOwn M s hx hy).detToWorld δ p)
      = (M.mulVec (f.detToTanp δ p)).add s := by
  have hd : f.toSky.m.det ≠ 0 := hf
  have hP := Aff.det_inv_ne f.toSky hd
  rw [f.setCorrectionOwn_eq hf]
  have key := (f.setCorrectionRef_toSky hf f.toSky.inv hP M s hM hx hy hhx hhy).1
  simp only [FCorr.worldToTanp, FCorr.detToWorld, FCorr.detToTanp]
  rw [FCorr.pix2world_eq, key, f.world2pix_eq hf]
  simp only [skyCorr, Aff.app_comp, Aff.inv_app _ hd, Aff.app_inv _ hP]
  rfl

/-- FITS (flat sky), correction defined in an affine reference plane `P : sky → plane` -/
theorem fits_setCorrection_applies_ref (f : FCorr K) (hf : f.WF) (δ : V2 K → V2 K) (P : Aff K)
    (hP : P.m.det ≠ 0) (M : M2 K) (s : V2 K) (hM : M.det ≠ 0) (hx hy : K) (hhx : hx ≠ 0)
    (hhy : hy ≠ 0) (p : V2 K) :
    P.app ((f.setCorrectionRef P M s hx hy).detToWorld δ p)
      = (M.mulVec (P.app (f.detToWorld δ p))).add s := by
  have key := (f.setCorrectionRef_toSky hf P hP M s hM hx hy hhx hhy).1
  simp only [FCorr.detToWorld]
  rw [FCorr.pix2world_eq, key, FCorr.pix2world_eq]
  simp only [skyCorr, Aff.app_comp, Aff.app_inv _ hP]
  rfl

/-- FITS, exact at the reference pixel WITHOUT any idealisation of the reference plane
(`w2t`, `t2w` arbitrary functions): the new sky position of `crpix` is the old one carried
through the reference plane by `(matrix, shift)` -/
theorem fits_exact_at_reference_pixel (f : FCorr K) (w2t t2w : V2 K → V2 K) (M : M2 K) (s : V2 K)
    (hM : M.det ≠ 0) (hx hy : K) :
    (f.setCorrection w2t t2w M s hx hy).pix2world f.crpix0
      = t2w ((M.mulVec (w2t (f.pix2world f.crpix0))).add s) := by
  have h1 : (f.setCorrection w2t t2w M s hx hy).crpix0 = f.crpix0 := rfl
  have h2 : (f.setCorrection w2t t2w M s hx hy).crval = f.newCrval w2t t2w M s := rfl
  have hsub : ∀ v : V2 K, v.sub v = ⟨0, 0⟩ := by intro v; aff_unfold; simp
  have hz : ∀ m : M2 K, m.mulVec ⟨0, 0⟩ = (⟨0, 0⟩ : V2 K) := by intro m; aff_unfold; simp
  have ha : ∀ v : V2 K, v.add ⟨0, 0⟩ = v := by intro v; aff_unfold; simp
  unfold FCorr.pix2world
  rw [h1, h2, hsub, hz, ha]
  unfold FCorr.newCrval
  simp only
  rw [corr_shift M s hM]
  unfold FCorr.pix2world
  rw [hsub, hz, ha]
  rfl

/-- the 9-point stencil of `_linearize` returns the exact Jacobian of every map that is a
polynomial of degree ≤ 4 along each axis (one coordinate shown; `c1` is the derivative) -/
theorem stencil_exact_quartic (c0 c1 c2 c3 c4 h : K) (hh : h ≠ 0) :
    let P := fun t : K => c0 + c1 * t + c2 * t ^ 2 + c3 * t ^ 3 + c4 * t ^ 4
    ((P (-h) - P h) + 8 * (P (h / 2) - P (-(h / 2)))) / (6 * h) = c1 :=
  fivePoint_quartic c0 c1 c2 c3 c4 h hh

/-- `_linearize` on an affine pixel → pixel map returns its linear part exactly -/
theorem stencil_exact_affine (a : Aff K) (c0 : V2 K) (hx hy : K) (hhx : hx ≠ 0) (hhy : hy ≠ 0) :
    linearize a.app c0 hx hy = a.m :=
  linearize_affine a c0 hx hy hhx hhy

/-- `_tp2tp` recovers an affine plane-to-plane map exactly at any non-zero sampling scale -/
theorem tp2tp_exact (q : Aff K) (s : K) (hs : s ≠ 0) : tp2tp q.app s = q :=
  tp2tp_affine q s hs

/-- the PRE-FIX tangent plane of a corrected gWCS (computed from the corrected frame) applies
the accumulated affine twice — so `set_correction` on it was off by a commutator -/
theorem gwcs_old_plane_applies_twice (env : GEnv K) (h : env.Bij) (g : GCorr K)
    (hc : g.corrected = true) (p : V2 K) :
    g.detToTanpOld env p = (g.A env).app ((g.A env).app (env.tau p)) := by
  simp only [GCorr.detToTanpOld, hc, if_true, GCorr.partialFwd, GCorr.tpcorrFwd, h.U_Uinv,
    GCorr.A, GEnv.tau, chartAff_app]

-- non-vacuity: a concrete state, correction and point (ℚ, identity geometry)
example :
    let env : GEnv ℚ := ⟨id, id, id, id, id, id, 3600⟩
    let g : GCorr ℚ := (GCorr.fresh ["detector", "v2v3", "world"]).setCorrection 3600
      ⟨⟨1, 1/10, 0, 1⟩, ⟨5, -7⟩⟩ none
    g.worldToTanp env ((g.setCorrection 3600 ⟨⟨0, -1, 1, 0⟩, ⟨2, 3⟩⟩ none).detToWorld env ⟨1/2, 1/3⟩)
      = ((⟨0, -1, 1, 0⟩ : M2 ℚ).mulVec (g.detToTanp env ⟨1/2, 1/3⟩)).add ⟨2, 3⟩ := by
  decide +kernel

end TW.C02
