import Proofs.InvLemmas

open TW Matrix
set_option linter.unusedSectionVars false

namespace TW
variable {K : Type} [Field K] [LinearOrder K] [IsStrictOrderedRing K] {n : ℕ}

/-- invariant of the forward elimination loop before iteration `k` -/
structure FwdInv (A : Matrix (Fin n) (Fin n) K) (k : ℕ) (st : InvSt n K) : Prop where
  eq : toM st.m = toM st.iv * ((toM st.qt)ᵀ * A * toM st.qt)
  orth : toM st.qt * (toM st.qt)ᵀ = 1
  diag : ∀ i : Fin n, i.val < k → st.m.get i i = 1
  below : ∀ i j : Fin n, j.val < k → j.val < i.val → st.m.get i j = 0

theorem mem_blockIdx {k : ℕ} {p : Fin n × Fin n} (hp : p ∈ blockIdx n k) : k ≤ p.1.val ∧ k ≤ p.2.val := by
  simp only [blockIdx, List.mem_flatMap, List.mem_filterMap] at hp
  obtain ⟨i, _, j, _, hij⟩ := hp
  split at hij
  · next h => cases hij; exact h
  · cases hij

theorem argmaxAbs_ge (m : Mat n K) (k : Fin n) :
    k.val ≤ (argmaxAbs m k).1.val ∧ k.val ≤ (argmaxAbs m k).2.val := by
  unfold argmaxAbs
  have : ∀ (l : List (Fin n × Fin n)) (b : Fin n × Fin n),
      (∀ p ∈ l, k.val ≤ p.1.val ∧ k.val ≤ p.2.val) → (k.val ≤ b.1.val ∧ k.val ≤ b.2.val) →
      k.val ≤ (l.foldl (fun best p => if absK (m.get best.1 best.2) < absK (m.get p.1 p.2) then p else best) b).1.val ∧
      k.val ≤ (l.foldl (fun best p => if absK (m.get best.1 best.2) < absK (m.get p.1 p.2) then p else best) b).2.val := by
    intro l
    induction l with
    | nil => intro b _ hb; simpa using hb
    | cons a l ih =>
      intro b hl hb
      simp only [List.foldl_cons]
      apply ih
      · intro p hp; exact hl p (List.mem_cons_of_mem _ hp)
      · split
        · exact hl a List.mem_cons_self
        · exact hb
  exact this _ _ (fun p hp => mem_blockIdx hp) ⟨le_refl _, le_refl _⟩

theorem pivot_ne_zero {eps pv : K} (heps : 0 < eps) (h : ¬ absK pv < eps) : pv ≠ 0 := by
  intro h0
  apply h
  rw [absK_eq, h0, abs_zero]
  exact heps

theorem fwdStep_inv (A : Matrix (Fin n) (Fin n) K) (eps : K) (heps : 0 < eps)
    (st st' : InvSt n K) (k : Fin n)
    (h : fwdStep eps st k = .ok st') (hi : FwdInv A k.val st) : FwdInv A (k.val + 1) st' := by
  unfold fwdStep at h
  simp only at h
  split at h
  · cases h
  next hns =>
  have hpv := pivot_ne_zero heps hns
  obtain ⟨hp1, hp2⟩ := argmaxAbs_ge st.m k
  set p := argmaxAbs st.m k with hpdef
  set pv := st.m.get p.1 p.2 with hpvdef
  injection h with h
  subst h
  -- facts about the swapped matrices
  have hsw_row : ∀ i : Fin n, i.val < k.val → swapIdx k p.1 i = i := by
    intro i hi'
    unfold swapIdx
    have h1 : i ≠ k := by intro e; rw [e] at hi'; exact lt_irrefl _ hi'
    have h2 : i ≠ p.1 := by intro e; rw [e] at hi'; omega
    simp [h1, h2]
  have hsw_col : ∀ j : Fin n, j.val < k.val → swapIdx k p.2 j = j := by
    intro j hj
    unfold swapIdx
    have h1 : j ≠ k := by intro e; rw [e] at hj; exact lt_irrefl _ hj
    have h2 : j ≠ p.2 := by intro e; rw [e] at hj; omega
    simp [h1, h2]
  have hsw_row_ge : ∀ i : Fin n, k.val ≤ i.val → k.val ≤ (swapIdx k p.1 i).val := by
    intro i hi'
    unfold swapIdx
    split
    · exact hp1
    · split
      · exact le_refl _
      · exact hi'
  -- m1 and its structure
  set m1 := colSwap k p.2 (rowSwap k p.1 st.m) with hm1
  have m1_get : ∀ i j, m1.get i j = st.m.get (swapIdx k p.1 i) (swapIdx k p.2 j) := by
    intro i j; simp [hm1, colSwap, rowSwap]
  have m1_below : ∀ i j : Fin n, j.val < k.val → j.val < i.val → m1.get i j = 0 := by
    intro i j hj hji
    rw [m1_get, hsw_col j hj]
    apply hi.below _ _ hj
    by_cases hik : i.val < k.val
    · rw [hsw_row i hik]; exact hji
    · have := hsw_row_ge i (by omega); omega
  have m1_diag : ∀ i : Fin n, i.val < k.val → m1.get i i = 1 := by
    intro i hik
    rw [m1_get, hsw_col i hik, hsw_row i hik]
    exact hi.diag i hik
  have m1_kk : m1.get k k = pv := by
    rw [m1_get]; simp [swapIdx, hpvdef]
  -- the algebraic invariant for m1
  set iv1 := colSwap k p.2 (rowSwap k p.1 st.iv) with hiv1
  set qt1 := colSwap k p.2 st.qt with hqt1
  set B := (toM qt1)ᵀ * A * toM qt1 with hB
  have eq1 : toM m1 = toM iv1 * B := by
    rw [hm1, hiv1, hB, hqt1, toM_colSwap, toM_colSwap, toM_colSwap, toM_rowSwap, toM_rowSwap]
    apply eq_colPerm
    apply eq_rowPerm
    exact hi.eq
  have orth1 : toM qt1 * (toM qt1)ᵀ = 1 := by
    rw [hqt1, toM_colSwap]; exact orth_colPerm _ _ hi.orth
  -- scaling of row k
  set m2 := scaleRowFrom k pv m1 with hm2
  set iv2 := scaleRow k pv iv1 with hiv2
  have m2_get : ∀ i j, m2.get i j = if i = k then m1.get i j / pv else m1.get i j := by
    intro i j
    simp only [hm2, scaleRowFrom, Mat.get_ofFn]
    by_cases hik : i = k
    · subst hik
      by_cases hkj : i.val ≤ j.val
      · simp [hkj]
      · have : m1.get i j = 0 := m1_below i j (by omega) (by omega)
        simp [hkj, this]
    · simp [hik]
  have iv2_get : ∀ i j, iv2.get i j = if i = k then iv1.get i j / pv else iv1.get i j := by
    intro i j; simp [hiv2, scaleRow]
  have eq2 : ∀ i j, m2.get i j = ∑ l, iv2.get i l * B l j := by
    intro i j
    have h1 : m1.get i j = ∑ l, iv1.get i l * B l j := by
      have := congrFun (congrFun eq1 i) j
      simpa [Matrix.mul_apply] using this
    rw [m2_get]
    by_cases hik : i = k
    · simp only [hik, if_true, iv2_get]
      rw [← hik, h1, Finset.sum_div]
      apply Finset.sum_congr rfl
      intro l _
      ring
    · simp only [hik, if_false, iv2_get]
      exact h1
  have m2_kk : m2.get k k = 1 := by
    rw [m2_get, if_pos rfl, m1_kk]; exact div_self hpv
  have m2_k_lt : ∀ j : Fin n, j.val < k.val → m2.get k j = 0 := by
    intro j hj
    rw [m2_get, if_pos rfl, m1_below k j hj hj, zero_div]
  have m2_ne : ∀ i j : Fin n, i ≠ k → m2.get i j = m1.get i j := by
    intro i j hik; rw [m2_get, if_neg hik]
  -- elimination below row k
  have m3_get : ∀ i j, (elimBelow k m2).get i j =
      if k.val < i.val then m2.get i j - m2.get i k * m2.get k j else m2.get i j := by
    intro i j
    simp only [elimBelow, Mat.get_ofFn]
    by_cases hki : k.val < i.val
    · simp only [hki, if_true]
      by_cases hkj : k.val < j.val
      · simp [hkj]
      · simp only [hkj, if_false]
        by_cases hjk : j = k
        · subst hjk; simp [m2_kk]
        · have hj : j.val < k.val := by
            have : j.val ≠ k.val := fun e => hjk (Fin.ext e)
            omega
          simp [hjk, m2_k_lt j hj]
    · simp [hki]
  have iv3_get : ∀ i j, (elimBelowInv k m2 iv2).get i j =
      if k.val < i.val then iv2.get i j - m2.get i k * iv2.get k j else iv2.get i j := by
    intro i j; simp [elimBelowInv]
  refine ⟨?_, orth1, ?_, ?_⟩
  · -- algebraic invariant
    ext i j
    show (elimBelow k m2).get i j = (toM (elimBelowInv k m2 iv2) * B) i j
    rw [Matrix.mul_apply, m3_get]
    simp only [toM_apply]
    by_cases hki : k.val < i.val
    · simp only [hki, if_true, iv3_get]
      rw [eq2 i j, eq2 k j, Finset.mul_sum, ← Finset.sum_sub_distrib]
      apply Finset.sum_congr rfl
      intro l _
      ring
    · simp only [hki, if_false, iv3_get]
      exact eq2 i j
  · -- unit diagonal up to k
    intro i hik
    rw [m3_get]
    have hnot : ¬ k.val < i.val := by omega
    simp only [hnot, if_false]
    by_cases hieq : i = k
    · subst hieq; exact m2_kk
    · rw [m2_ne i i hieq]
      apply m1_diag
      have : i.val ≠ k.val := fun e => hieq (Fin.ext e)
      omega
  · -- zeros below the diagonal in the first k+1 columns
    intro i j hj hji
    by_cases hjk : j = k
    · subst hjk
      have hki : j.val < i.val := hji
      unfold elimBelow
      rw [Mat.get_ofFn, if_pos hki, if_neg (lt_irrefl _), if_pos rfl]
      exact zeroK_eq
    · have hjlt : j.val < k.val := by
        have : j.val ≠ k.val := fun e => hjk (Fin.ext e)
        omega
      rw [m3_get]
      by_cases hki : k.val < i.val
      · simp only [hki, if_true]
        have hik : i ≠ k := by intro e; rw [e] at hki; exact lt_irrefl _ hki
        rw [m2_ne i j hik, m1_below i j hjlt hji, m2_k_lt j hjlt]
        ring
      · simp only [hki, if_false]
        by_cases hik : i = k
        · subst hik; exact m2_k_lt j hjlt
        · rw [m2_ne i j hik]; exact m1_below i j hjlt hji

end TW
