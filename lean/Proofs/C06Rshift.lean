import Proofs.C06Rscale

/-!
`fit_rshift` (= `fit_rscale` with a fixed scale): closed form of what `rsolve (some sc)` returns
and its optimality over all rotations and reflected rotations at that scale (Cauchy–Schwarz and
`‖H‖² ± 2 det H`).
-/
open TW
set_option linter.unusedSectionVars false

namespace TW

/-- the objective in moment form (the right-hand side of `SS_moments`) -/
def objM (M : CMom) (xm ym um vm : ℝ) (L : Lin ℝ) : ℝ :=
  M.sxx - 2 * (L.m00 * M.sxu + L.m01 * M.sxv + L.m10 * M.syu + L.m11 * M.syv)
    + (L.m00^2 + L.m10^2) * M.suu + (L.m01^2 + L.m11^2) * M.svv
    + 2 * (L.m00 * L.m01 + L.m10 * L.m11) * M.suv
    + 2 * ((xm - (L.m00 * um + L.m01 * vm) - L.sx) * (M.Cx - L.m00 * M.Cu - L.m01 * M.Cv)
         + (ym - (L.m10 * um + L.m11 * vm) - L.sy) * (M.Cy - L.m10 * M.Cu - L.m11 * M.Cv))
    + M.W * ((xm - (L.m00 * um + L.m01 * vm) - L.sx)^2 + (ym - (L.m10 * um + L.m11 * vm) - L.sy)^2)

/-- cosine and sine of the angle chosen by the code form a unit vector along `(den, num)` -/
theorem cos_sin_unit (num den : ℝ) :
    (HasTrig.cosdeg (rsTheta num den))^2 + (HasTrig.sindeg (rsTheta num den))^2 = 1 ∧
    den * HasTrig.cosdeg (rsTheta num den) + num * HasTrig.sindeg (rsTheta num den)
      = Real.sqrt (den*den + num*num) := by
  constructor
  · show (Real.cos _)^2 + (Real.sin _)^2 = 1
    exact Real.cos_sq_add_sin_sq _
  · by_cases h : den ≠ 0 ∨ num ≠ 0
    · obtain ⟨hc, hs⟩ := cos_sin_rsTheta num den h
      have hpos := hyp_pos h
      rw [hc, hs]
      set hh := Real.sqrt (den*den + num*num) with hhdef
      have hsq : hh * hh = den*den + num*num := by
        rw [hhdef]; exact Real.mul_self_sqrt (by nlinarith [mul_self_nonneg den, mul_self_nonneg num])
      have hne : hh ≠ 0 := ne_of_gt hpos
      field_simp
      linarith
    · push Not at h
      obtain ⟨h1, h2⟩ := h
      subst h1; subst h2
      simp

/-- **Closed form of the fixed-scale fit** returned by the model of `fit_rscale(scale=sc)` -/
theorem rsolve_rshift (sc : ℝ) (s : RSums ℝ) (L : Lin ℝ) (h : rsolve (some sc) s = .ok L) :
    ∃ c sn : ℝ, c^2 + sn^2 = 1 ∧
    (¬ (s.sxu * s.syv - s.sxv * s.syu < 0) →
      (s.sxu + s.syv) * c + (s.sxv - s.syu) * sn
        = Real.sqrt ((s.sxu + s.syv) * (s.sxu + s.syv) + (s.sxv - s.syu) * (s.sxv - s.syu)) ∧
      L.m00 = sc * c ∧ L.m01 = sc * sn ∧ L.m10 = -(sc * sn) ∧ L.m11 = sc * c) ∧
    ((s.sxu * s.syv - s.sxv * s.syu < 0) →
      (s.sxu - s.syv) * c + (s.sxv + s.syu) * sn
        = Real.sqrt ((s.sxu - s.syv) * (s.sxu - s.syv) + (s.sxv + s.syu) * (s.sxv + s.syu)) ∧
      L.m00 = sc * c ∧ L.m01 = sc * sn ∧ L.m10 = sc * sn ∧ L.m11 = -(sc * c)) ∧
    L.sx = s.xm - (L.m00 * s.um + L.m01 * s.vm) ∧ L.sy = s.ym - (L.m10 * s.um + L.m11 * s.vm) := by
  unfold rsolve at h
  simp only [zeroK_eq, oneK_eq] at h
  injection h with h
  by_cases hdet : s.sxu * s.syv - s.sxv * s.syu < 0
  · simp only [hdet, if_true] at h
    obtain ⟨hu, hd⟩ := cos_sin_unit (s.sxv + s.syu) (s.sxu - s.syv)
    refine ⟨_, _, hu, fun hn => absurd hdet hn, fun _ => ⟨hd, ?_, ?_, ?_, ?_⟩, ?_, ?_⟩
    all_goals rw [← h]
    all_goals simp only [neg_neg]
    all_goals ring
  · simp only [hdet, if_false] at h
    obtain ⟨hu, hd⟩ := cos_sin_unit (s.sxv - s.syu) (s.sxu + s.syv)
    refine ⟨_, _, hu, fun _ => ⟨hd, ?_, ?_, ?_, ?_⟩, fun hn => absurd hn hdet, ?_, ?_⟩
    all_goals rw [← h]
    all_goals ring

/-- Cauchy–Schwarz in the plane, in the form needed here -/
theorem cs_bound (a b P Q sc : ℝ) (hab : a^2 + b^2 = sc^2) (hsc : 0 ≤ sc) :
    a * P + b * Q ≤ sc * Real.sqrt (P*P + Q*Q) := by
  have hnn : 0 ≤ P*P + Q*Q := by nlinarith [mul_self_nonneg P, mul_self_nonneg Q]
  have hh := Real.sqrt_nonneg (P*P + Q*Q)
  have hsq : Real.sqrt (P*P + Q*Q) ^ 2 = P*P + Q*Q := Real.sq_sqrt hnn
  have h1 : (a * P + b * Q)^2 ≤ (sc * Real.sqrt (P*P + Q*Q))^2 := by
    rw [mul_pow, hsq, ← hab]
    nlinarith [sq_nonneg (a * Q - b * P)]
  exact (abs_le_of_sq_le_sq' h1 (mul_nonneg hsc hh)).2

/-- **Algebraic core of `fit_rshift` optimality** -/
theorem rshift_core (M : CMom) (xm ym um vm sc : ℝ)
    (hc : M.Cx = 0 ∧ M.Cy = 0 ∧ M.Cu = 0 ∧ M.Cv = 0) (hW : 0 ≤ M.W) (hsc : 0 ≤ sc)
    (L : Lin ℝ) (c sn : ℝ) (hu : c^2 + sn^2 = 1)
    (hL1 : ¬ (M.sxu * M.syv - M.sxv * M.syu < 0) →
      (M.sxu + M.syv) * c + (M.sxv - M.syu) * sn
        = Real.sqrt ((M.sxu + M.syv) * (M.sxu + M.syv) + (M.sxv - M.syu) * (M.sxv - M.syu)) ∧
      L.m00 = sc * c ∧ L.m01 = sc * sn ∧ L.m10 = -(sc * sn) ∧ L.m11 = sc * c)
    (hL2 : (M.sxu * M.syv - M.sxv * M.syu < 0) →
      (M.sxu - M.syv) * c + (M.sxv + M.syu) * sn
        = Real.sqrt ((M.sxu - M.syv) * (M.sxu - M.syv) + (M.sxv + M.syu) * (M.sxv + M.syu)) ∧
      L.m00 = sc * c ∧ L.m01 = sc * sn ∧ L.m10 = sc * sn ∧ L.m11 = -(sc * c))
    (hsx : L.sx = xm - (L.m00 * um + L.m01 * vm)) (hsy : L.sy = ym - (L.m10 * um + L.m11 * vm))
    (L' : Lin ℝ) (hfam : IsProperSim L' ∨ IsImproperSim L') (hunit : L'.m00^2 + L'.m01^2 = sc^2) :
    objM M xm ym um vm L ≤ objM M xm ym um vm L' := by
  obtain ⟨h1, h2, h3, h4⟩ := hc
  set D := M.suu + M.svv with hDdef
  set Pp := M.sxu + M.syv with hPp
  set Qp := M.sxv - M.syu with hQp
  set Pi := M.sxu - M.syv with hPi
  set Qi := M.sxv + M.syu with hQi
  have hdx : xm - (L.m00 * um + L.m01 * vm) - L.sx = 0 := by rw [hsx]; ring
  have hdy : ym - (L.m10 * um + L.m11 * vm) - L.sy = 0 := by rw [hsy]; ring
  have hWnn : ∀ a b : ℝ, 0 ≤ M.W * (a^2 + b^2) := fun a b => mul_nonneg hW (by positivity)
  have hdiff : (Pp * Pp + Qp * Qp) - (Pi * Pi + Qi * Qi) = 4 * (M.sxu * M.syv - M.sxv * M.syu) := by
    simp only [hPp, hQp, hPi, hQi]; ring
  have obj_p : ∀ L' : Lin ℝ, IsProperSim L' →
      objM M xm ym um vm L' = M.sxx - 2 * (L'.m00 * Pp + L'.m01 * Qp) + (L'.m00^2 + L'.m01^2) * D
        + M.W * ((xm - (L'.m00 * um + L'.m01 * vm) - L'.sx)^2 + (ym - (L'.m10 * um + L'.m11 * vm) - L'.sy)^2) := by
    intro L' ⟨e1, e2⟩
    simp only [objM, h1, h2, h3, h4, e1, e2, hDdef, hPp, hQp]; ring
  have obj_i : ∀ L' : Lin ℝ, IsImproperSim L' →
      objM M xm ym um vm L' = M.sxx - 2 * (L'.m00 * Pi + L'.m01 * Qi) + (L'.m00^2 + L'.m01^2) * D
        + M.W * ((xm - (L'.m00 * um + L'.m01 * vm) - L'.sx)^2 + (ym - (L'.m10 * um + L'.m11 * vm) - L'.sy)^2) := by
    intro L' ⟨e1, e2⟩
    simp only [objM, h1, h2, h3, h4, e1, e2, hDdef, hPi, hQi]; ring
  have bp := cs_bound L'.m00 L'.m01 Pp Qp sc hunit hsc
  have bi := cs_bound L'.m00 L'.m01 Pi Qi sc hunit hsc
  have hW' := hWnn (xm - (L'.m00 * um + L'.m01 * vm) - L'.sx) (ym - (L'.m10 * um + L'.m11 * vm) - L'.sy)
  have hunitL : ∀ (a b : ℝ), a = sc * c → b = sc * sn → a^2 + b^2 = sc^2 := by
    intro a b ha hb; rw [ha, hb]
    have : (sc * c)^2 + (sc * sn)^2 = sc^2 * (c^2 + sn^2) := by ring
    rw [this, hu, mul_one]
  by_cases hdet : M.sxu * M.syv - M.sxv * M.syu < 0
  · obtain ⟨hd, a0, a1, a2, a3⟩ := hL2 hdet
    have hLi : IsImproperSim L := ⟨by rw [a2, a1], by rw [a3, a0]⟩
    have vL : objM M xm ym um vm L = M.sxx - 2 * sc * Real.sqrt (Pi * Pi + Qi * Qi) + sc^2 * D := by
      rw [obj_i L hLi, hdx, hdy, hunitL _ _ a0 a1, a0, a1, ← hd]; ring
    rw [vL]
    have hle : Real.sqrt (Pp * Pp + Qp * Qp) ≤ Real.sqrt (Pi * Pi + Qi * Qi) :=
      Real.sqrt_le_sqrt (by linarith)
    have hle' := mul_le_mul_of_nonneg_left hle hsc
    rcases hfam with hp | hi
    · rw [obj_p L' hp, hunit]; linarith
    · rw [obj_i L' hi, hunit]; linarith
  · obtain ⟨hd, a0, a1, a2, a3⟩ := hL1 hdet
    have hLp : IsProperSim L := ⟨by rw [a2, a1], by rw [a3, a0]⟩
    have vL : objM M xm ym um vm L = M.sxx - 2 * sc * Real.sqrt (Pp * Pp + Qp * Qp) + sc^2 * D := by
      rw [obj_p L hLp, hdx, hdy, hunitL _ _ a0 a1, a0, a1, ← hd]; ring
    rw [vL]
    have hle : Real.sqrt (Pi * Pi + Qi * Qi) ≤ Real.sqrt (Pp * Pp + Qp * Qp) :=
      Real.sqrt_le_sqrt (by linarith [not_lt.mp hdet])
    have hle' := mul_le_mul_of_nonneg_left hle hsc
    rcases hfam with hp | hi
    · rw [obj_p L' hp, hunit]; linarith
    · rw [obj_i L' hi, hunit]; linarith

/-- `rscale_core` restated with `objM` -/
theorem rscale_core' (M : CMom) (xm ym um vm : ℝ)
    (hc : M.Cx = 0 ∧ M.Cy = 0 ∧ M.Cu = 0 ∧ M.Cv = 0) (hW : 0 ≤ M.W) (hD : 0 < M.suu + M.svv)
    (L : Lin ℝ)
    (hL1 : ¬ (M.sxu * M.syv - M.sxv * M.syu < 0) →
      L.m00 = (M.sxu + M.syv) / (M.suu + M.svv) ∧ L.m01 = (M.sxv - M.syu) / (M.suu + M.svv) ∧
      L.m10 = -((M.sxv - M.syu) / (M.suu + M.svv)) ∧ L.m11 = (M.sxu + M.syv) / (M.suu + M.svv))
    (hL2 : (M.sxu * M.syv - M.sxv * M.syu < 0) →
      L.m00 = (M.sxu - M.syv) / (M.suu + M.svv) ∧ L.m01 = (M.sxv + M.syu) / (M.suu + M.svv) ∧
      L.m10 = (M.sxv + M.syu) / (M.suu + M.svv) ∧ L.m11 = -((M.sxu - M.syv) / (M.suu + M.svv)))
    (hsx : L.sx = xm - (L.m00 * um + L.m01 * vm)) (hsy : L.sy = ym - (L.m10 * um + L.m11 * vm))
    (L' : Lin ℝ) (hfam : IsProperSim L' ∨ IsImproperSim L') :
    objM M xm ym um vm L ≤ objM M xm ym um vm L' :=
  rscale_core M xm ym um vm hc hW hD L hL1 hL2 hsx hsy L' hfam

theorem SS_div_objM (ws : List ℝ) (obs : List (Obs ℝ)) (c xm ym um vm : ℝ) (L : Lin ℝ) :
    SS ws obs L / c = objM (cmom (List.zip (ws.map (· / c)) obs) xm ym um vm) xm ym um vm L :=
  SS_div_moments ws obs c xm ym um vm L

end TW
