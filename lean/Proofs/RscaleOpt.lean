import Proofs.Rscale
import Proofs.FitGeneral

open TW
set_option linter.unusedSectionVars false

namespace TW

/-- centred second moments over zipped rows -/
structure CMom where
  W : ℝ
  Cx : ℝ
  Cy : ℝ
  Cu : ℝ
  Cv : ℝ
  sxx : ℝ
  sxu : ℝ
  sxv : ℝ
  syu : ℝ
  syv : ℝ
  suu : ℝ
  svv : ℝ
  suv : ℝ

def cmom (Z : List (ℝ × Obs ℝ)) (xm ym um vm : ℝ) : CMom :=
  { W := (Z.map fun p => p.1).sum
    Cx := (Z.map fun p => p.1 * (p.2.x - xm)).sum, Cy := (Z.map fun p => p.1 * (p.2.y - ym)).sum
    Cu := (Z.map fun p => p.1 * (p.2.u - um)).sum, Cv := (Z.map fun p => p.1 * (p.2.v - vm)).sum
    sxx := (Z.map fun p => p.1 * ((p.2.x - xm)^2 + (p.2.y - ym)^2)).sum
    sxu := (Z.map fun p => p.1 * ((p.2.x - xm) * (p.2.u - um))).sum
    sxv := (Z.map fun p => p.1 * ((p.2.x - xm) * (p.2.v - vm))).sum
    syu := (Z.map fun p => p.1 * ((p.2.y - ym) * (p.2.u - um))).sum
    syv := (Z.map fun p => p.1 * ((p.2.y - ym) * (p.2.v - vm))).sum
    suu := (Z.map fun p => p.1 * ((p.2.u - um) * (p.2.u - um))).sum
    svv := (Z.map fun p => p.1 * ((p.2.v - vm) * (p.2.v - vm))).sum
    suv := (Z.map fun p => p.1 * ((p.2.u - um) * (p.2.v - vm))).sum }

/-- the objective in terms of centred moments, for an arbitrary affine map -/
theorem SS_moments (Z : List (ℝ × Obs ℝ)) (xm ym um vm : ℝ) (L : Lin ℝ) :
    let M := cmom Z xm ym um vm
    let dx := xm - (L.m00 * um + L.m01 * vm) - L.sx
    let dy := ym - (L.m10 * um + L.m11 * vm) - L.sy
    (Z.map fun p => p.1 * ((p.2.x - (L.m00 * p.2.u + L.m01 * p.2.v + L.sx))^2 +
                           (p.2.y - (L.m10 * p.2.u + L.m11 * p.2.v + L.sy))^2)).sum
    = M.sxx - 2 * (L.m00 * M.sxu + L.m01 * M.sxv + L.m10 * M.syu + L.m11 * M.syv)
      + (L.m00^2 + L.m10^2) * M.suu + (L.m01^2 + L.m11^2) * M.svv
      + 2 * (L.m00 * L.m01 + L.m10 * L.m11) * M.suv
      + 2 * (dx * (M.Cx - L.m00 * M.Cu - L.m01 * M.Cv) + dy * (M.Cy - L.m10 * M.Cu - L.m11 * M.Cv))
      + M.W * (dx^2 + dy^2) := by
  intro M dx dy
  simp only [M, cmom, dx, dy]
  induction Z with
  | nil => simp
  | cons p l ih =>
    simp only [List.map_cons, List.sum_cons] at ih ⊢
    rw [ih]
    ring

/-- the two families of similarities -/
def IsProperSim (L : Lin ℝ) : Prop := L.m10 = -L.m01 ∧ L.m11 = L.m00
def IsImproperSim (L : Lin ℝ) : Prop := L.m10 = L.m01 ∧ L.m11 = -L.m00

/-- **Algebraic core of `fit_rscale` optimality**: with centred data (`Cx = Cy = Cu = Cv = 0`),
non-negative total weight and `D = suu + svv > 0`, the closed form returned by the model
minimises the objective over all proper and improper similarities. -/
theorem rscale_core (M : CMom) (xm ym um vm : ℝ)
    (hc : M.Cx = 0 ∧ M.Cy = 0 ∧ M.Cu = 0 ∧ M.Cv = 0) (hW : 0 ≤ M.W) (hD : 0 < M.suu + M.svv)
    (L : Lin ℝ)
    (hL1 : ¬ (M.sxu * M.syv - M.sxv * M.syu < 0) →
      L.m00 = (M.sxu + M.syv) / (M.suu + M.svv) ∧ L.m01 = (M.sxv - M.syu) / (M.suu + M.svv) ∧
      L.m10 = -((M.sxv - M.syu) / (M.suu + M.svv)) ∧ L.m11 = (M.sxu + M.syv) / (M.suu + M.svv))
    (hL2 : (M.sxu * M.syv - M.sxv * M.syu < 0) →
      L.m00 = (M.sxu - M.syv) / (M.suu + M.svv) ∧ L.m01 = (M.sxv + M.syu) / (M.suu + M.svv) ∧
      L.m10 = (M.sxv + M.syu) / (M.suu + M.svv) ∧ L.m11 = -((M.sxu - M.syv) / (M.suu + M.svv)))
    (hsx : L.sx = xm - (L.m00 * um + L.m01 * vm)) (hsy : L.sy = ym - (L.m10 * um + L.m11 * vm))
    (L' : Lin ℝ) (hfam : IsProperSim L' ∨ IsImproperSim L') :
    let obj := fun (L : Lin ℝ) =>
      M.sxx - 2 * (L.m00 * M.sxu + L.m01 * M.sxv + L.m10 * M.syu + L.m11 * M.syv)
      + (L.m00^2 + L.m10^2) * M.suu + (L.m01^2 + L.m11^2) * M.svv
      + 2 * (L.m00 * L.m01 + L.m10 * L.m11) * M.suv
      + 2 * ((xm - (L.m00 * um + L.m01 * vm) - L.sx) * (M.Cx - L.m00 * M.Cu - L.m01 * M.Cv)
           + (ym - (L.m10 * um + L.m11 * vm) - L.sy) * (M.Cy - L.m10 * M.Cu - L.m11 * M.Cv))
      + M.W * ((xm - (L.m00 * um + L.m01 * vm) - L.sx)^2 + (ym - (L.m10 * um + L.m11 * vm) - L.sy)^2)
    obj L ≤ obj L' := by
  intro obj
  obtain ⟨h1, h2, h3, h4⟩ := hc
  set D := M.suu + M.svv with hDdef
  have hDne : D ≠ 0 := ne_of_gt hD
  -- value of the objective at L
  have hdx : xm - (L.m00 * um + L.m01 * vm) - L.sx = 0 := by rw [hsx]; ring
  have hdy : ym - (L.m10 * um + L.m11 * vm) - L.sy = 0 := by rw [hsy]; ring
  -- lower bound for any member of the families
  have hWnn : ∀ a b : ℝ, 0 ≤ M.W * (a^2 + b^2) := fun a b => mul_nonneg hW (by positivity)
  have key_p : ∀ a b : ℝ, M.sxx - 2 * (a * (M.sxu + M.syv) + b * (M.sxv - M.syu)) + (a^2 + b^2) * D
      = M.sxx - ((M.sxu + M.syv)^2 + (M.sxv - M.syu)^2) / D
        + D * ((a - (M.sxu + M.syv) / D)^2 + (b - (M.sxv - M.syu) / D)^2) := by
    intro a b; field_simp; ring
  have key_i : ∀ a b : ℝ, M.sxx - 2 * (a * (M.sxu - M.syv) + b * (M.sxv + M.syu)) + (a^2 + b^2) * D
      = M.sxx - ((M.sxu - M.syv)^2 + (M.sxv + M.syu)^2) / D
        + D * ((a - (M.sxu - M.syv) / D)^2 + (b - (M.sxv + M.syu) / D)^2) := by
    intro a b; field_simp; ring
  have hdiff : ((M.sxu + M.syv)^2 + (M.sxv - M.syu)^2) - ((M.sxu - M.syv)^2 + (M.sxv + M.syu)^2)
      = 4 * (M.sxu * M.syv - M.sxv * M.syu) := by ring
  have hsqnn : ∀ a b c d : ℝ, 0 ≤ D * ((a - c)^2 + (b - d)^2) := fun a b c d => mul_nonneg (le_of_lt hD) (by positivity)
  -- objective for a proper / improper similarity (a, b) with arbitrary shift
  have obj_p : ∀ L' : Lin ℝ, IsProperSim L' →
      obj L' = M.sxx - 2 * (L'.m00 * (M.sxu + M.syv) + L'.m01 * (M.sxv - M.syu)) + (L'.m00^2 + L'.m01^2) * D
        + M.W * ((xm - (L'.m00 * um + L'.m01 * vm) - L'.sx)^2 + (ym - (L'.m10 * um + L'.m11 * vm) - L'.sy)^2) := by
    intro L' ⟨e1, e2⟩
    simp only [obj, h1, h2, h3, h4, e1, e2, hDdef]; ring
  have obj_i : ∀ L' : Lin ℝ, IsImproperSim L' →
      obj L' = M.sxx - 2 * (L'.m00 * (M.sxu - M.syv) + L'.m01 * (M.sxv + M.syu)) + (L'.m00^2 + L'.m01^2) * D
        + M.W * ((xm - (L'.m00 * um + L'.m01 * vm) - L'.sx)^2 + (ym - (L'.m10 * um + L'.m11 * vm) - L'.sy)^2) := by
    intro L' ⟨e1, e2⟩
    simp only [obj, h1, h2, h3, h4, e1, e2, hDdef]; ring
  by_cases hdet : M.sxu * M.syv - M.sxv * M.syu < 0
  · -- the model chose the improper branch
    obtain ⟨a0, a1, a2, a3⟩ := hL2 hdet
    have hLi : IsImproperSim L := ⟨by rw [a2, a1], by rw [a3, a0]⟩
    have vL : obj L = M.sxx - ((M.sxu - M.syv)^2 + (M.sxv + M.syu)^2) / D := by
      rw [obj_i L hLi, key_i, hdx, hdy, a0, a1]; ring
    rw [vL]
    rcases hfam with hp | hi
    · rw [obj_p L' hp, key_p]
      have := hsqnn L'.m00 L'.m01 ((M.sxu + M.syv) / D) ((M.sxv - M.syu) / D)
      have hW' := hWnn (xm - (L'.m00 * um + L'.m01 * vm) - L'.sx) (ym - (L'.m10 * um + L'.m11 * vm) - L'.sy)
      have : ((M.sxu + M.syv)^2 + (M.sxv - M.syu)^2) / D ≤ ((M.sxu - M.syv)^2 + (M.sxv + M.syu)^2) / D := by
        apply div_le_div_of_nonneg_right _ (le_of_lt hD)
        linarith [hdiff, hdet]
      linarith
    · rw [obj_i L' hi, key_i]
      have := hsqnn L'.m00 L'.m01 ((M.sxu - M.syv) / D) ((M.sxv + M.syu) / D)
      have hW' := hWnn (xm - (L'.m00 * um + L'.m01 * vm) - L'.sx) (ym - (L'.m10 * um + L'.m11 * vm) - L'.sy)
      linarith
  · obtain ⟨a0, a1, a2, a3⟩ := hL1 hdet
    have hLp : IsProperSim L := ⟨by rw [a2, a1], by rw [a3, a0]⟩
    have vL : obj L = M.sxx - ((M.sxu + M.syv)^2 + (M.sxv - M.syu)^2) / D := by
      rw [obj_p L hLp, key_p, hdx, hdy, a0, a1]; ring
    rw [vL]
    rcases hfam with hp | hi
    · rw [obj_p L' hp, key_p]
      have := hsqnn L'.m00 L'.m01 ((M.sxu + M.syv) / D) ((M.sxv - M.syu) / D)
      have hW' := hWnn (xm - (L'.m00 * um + L'.m01 * vm) - L'.sx) (ym - (L'.m10 * um + L'.m11 * vm) - L'.sy)
      linarith
    · rw [obj_i L' hi, key_i]
      have := hsqnn L'.m00 L'.m01 ((M.sxu - M.syv) / D) ((M.sxv + M.syu) / D)
      have hW' := hWnn (xm - (L'.m00 * um + L'.m01 * vm) - L'.sx) (ym - (L'.m10 * um + L'.m11 * vm) - L'.sy)
      have : ((M.sxu - M.syv)^2 + (M.sxv + M.syu)^2) / D ≤ ((M.sxu + M.syv)^2 + (M.sxv - M.syu)^2) / D := by
        apply div_le_div_of_nonneg_right _ (le_of_lt hD)
        linarith [hdiff, not_lt.mp hdet]
      linarith

end TW
