import Model.Clip
import Mathlib.Tactic.Common

/-!
Helper lemmas about the generic clipping loop `TW.Clip` (used by `Proofs/C07.lean` and
`Proofs/C09.lean`).  Nothing here depends on what a fit is: `K` is any type with `*` and `<`.
-/
set_option linter.unusedSectionVars false
set_option linter.unusedVariables false

namespace TW.Clip
variable {K Fit Err : Type} [Mul K] [LT K] [DecidableLT K]

/-- point `i` is selected by the mask (`false` beyond its end) -/
abbrev On (m : List Bool) (i : Nat) : Prop := m.getD i false = true

/-- `a ⊆ b` as sets of selected indices -/
def Sub (a b : List Bool) : Prop := ∀ i, On a i → On b i

theorem Sub.refl (a : List Bool) : Sub a a := fun _ h => h
theorem Sub.trans {a b d : List Bool} (h1 : Sub a b) (h2 : Sub b d) : Sub a d := fun i h => h2 i (h1 i h)

/-- the test of one point -/
abbrev Passes (c : Cfg K Fit Err) (f : Fit) (i : Nat) : Prop := c.rnorm f i < c.nsigma * c.stat f

theorem test_length (c : Cfg K Fit Err) (f : Fit) (base : List Bool) :
    (test c f base).length = base.length := by
  simp [test]

theorem test_getElem? (c : Cfg K Fit Err) (f : Fit) (base : List Bool) (i : Nat) :
    (test c f base)[i]? = base[i]?.map fun b => b && decide (Passes c f i) := by
  unfold test
  rw [List.getElem?_zipWith]
  by_cases hi : i < base.length
  · simp [List.getElem?_range hi, List.getElem?_eq_getElem hi]
  · have : base[i]? = none := by simp at hi ⊢; exact hi
    simp [this]

theorem test_getD (c : Cfg K Fit Err) (f : Fit) (base : List Bool) (i : Nat) :
    (test c f base).getD i false = (base.getD i false && decide (Passes c f i)) := by
  rw [List.getD_eq_getElem?_getD, List.getD_eq_getElem?_getD, test_getElem?]
  cases base[i]? <;> simp

/-- the specification of `test`: exactly the points of `base` that pass -/
theorem test_on (c : Cfg K Fit Err) (f : Fit) (base : List Bool) (i : Nat) :
    On (test c f base) i ↔ On base i ∧ Passes c f i := by
  unfold On
  rw [test_getD]
  simp

theorem test_sub (c : Cfg K Fit Err) (f : Fit) (base : List Bool) : Sub (test c f base) base :=
  fun i h => ((test_on c f base i).mp h).1

/-- the possible outcomes of one pass -/
theorem step_cases (c : Cfg K Fit Err) (w : List Bool) (s s' : St Fit) (h : step c w s = .ok s') :
    (s.done = true ∧ s' = s) ∨
    (s.done = false ∧ stopCond c s (test c s.fit (baseOf c w s)) ∧ s' = { s with done := true }) ∨
    (s.done = false ∧ ¬ stopCond c s (test c s.fit (baseOf c w s)) ∧
      c.fit (test c s.fit (baseOf c w s)) = .ok s'.fit ∧ s'.mask = test c s.fit (baseOf c w s) ∧
      s'.eff = s.eff + 1 ∧ s'.done = false) := by
  unfold step at h
  by_cases hd : s.done = true
  · left
    rw [if_pos hd] at h
    injection h with h
    exact ⟨hd, h.symm⟩
  · right
    have hd' : s.done = false := by simpa using hd
    rw [if_neg hd] at h
    simp only at h
    by_cases hs : stopCond c s (test c s.fit (baseOf c w s))
    · left
      rw [if_pos hs] at h
      injection h with h
      exact ⟨hd', hs, h.symm⟩
    · right
      rw [if_neg hs] at h
      cases hf : c.fit (test c s.fit (baseOf c w s)) with
      | error e => rw [hf] at h; cases h
      | ok f =>
        rw [hf] at h
        injection h with h
        subst h
        exact ⟨hd', hs, rfl, rfl, rfl, rfl⟩

/-- a stopped state is a fixpoint of the pass -/
theorem step_done (c : Cfg K Fit Err) (w : List Bool) (s : St Fit) (h : s.done = true) :
    step c w s = .ok s := by
  unfold step; rw [if_pos h]

theorem run_zero (c : Cfg K Fit Err) (w : List Bool) (s0 : St Fit) : run c w s0 0 = .ok s0 := rfl

theorem run_succ_ok (c : Cfg K Fit Err) (w : List Bool) (s0 s : St Fit) (n : Nat)
    (h : run c w s0 n = .ok s) : run c w s0 (n + 1) = step c w s := by
  simp only [run, h]

theorem run_succ_err (c : Cfg K Fit Err) (w : List Bool) (s0 : St Fit) (n : Nat) (e : Err)
    (h : run c w s0 n = .error e) : run c w s0 (n + 1) = .error e := by
  simp only [run, h]

/-- if the `(n+1)`-st state exists, so does the `n`-th -/
theorem run_pred (c : Cfg K Fit Err) (w : List Bool) (s0 s' : St Fit) (n : Nat)
    (h : run c w s0 (n + 1) = .ok s') : ∃ s, run c w s0 n = .ok s ∧ step c w s = .ok s' := by
  cases hr : run c w s0 n with
  | error e => rw [run_succ_err c w s0 n e hr] at h; cases h
  | ok s => exact ⟨s, rfl, by rw [← run_succ_ok c w s0 s n hr]; exact h⟩

/-- the invariants of the loop: the mask keeps its length, stays inside `wmask`, and the
current fit is the plain fit of the current mask -/
structure Inv (c : Cfg K Fit Err) (w : List Bool) (s : St Fit) : Prop where
  len : s.mask.length = w.length
  sub : Sub s.mask w
  fit : c.fit s.mask = .ok s.fit

theorem baseOf_sub (c : Cfg K Fit Err) (w : List Bool) (s : St Fit) (h : Sub s.mask w) :
    Sub (baseOf c w s) w := by
  unfold baseOf; split
  · exact h
  · exact Sub.refl w

theorem baseOf_length (c : Cfg K Fit Err) (w : List Bool) (s : St Fit) (h : s.mask.length = w.length) :
    (baseOf c w s).length = w.length := by
  unfold baseOf; split
  · exact h
  · rfl

theorem step_inv (c : Cfg K Fit Err) (w : List Bool) (s s' : St Fit) (hi : Inv c w s)
    (h : step c w s = .ok s') : Inv c w s' := by
  rcases step_cases c w s s' h with ⟨_, rfl⟩ | ⟨_, _, rfl⟩ | ⟨_, _, hf, hm, _, _⟩
  · exact hi
  · exact ⟨hi.len, hi.sub, hi.fit⟩
  · refine ⟨?_, ?_, ?_⟩
    · rw [hm, test_length, baseOf_length c w s hi.len]
    · rw [hm]; exact Sub.trans (test_sub _ _ _) (baseOf_sub c w s hi.sub)
    · rw [hm]; exact hf

theorem run_inv (c : Cfg K Fit Err) (w : List Bool) (s0 : St Fit) (h0 : Inv c w s0) :
    ∀ (n : Nat) (s : St Fit), run c w s0 n = .ok s → Inv c w s := by
  intro n
  induction n with
  | zero => intro s h; injection h with h; subst h; exact h0
  | succ n ih =>
    intro s' h
    obtain ⟨s, hs, hst⟩ := run_pred c w s0 s' n h
    exact step_inv c w s s' (ih s hs) hst

theorem step_eff_le (c : Cfg K Fit Err) (w : List Bool) (s s' : St Fit) (h : step c w s = .ok s') :
    s.eff ≤ s'.eff ∧ s'.eff ≤ s.eff + 1 := by
  rcases step_cases c w s s' h with ⟨_, rfl⟩ | ⟨_, _, rfl⟩ | ⟨_, _, _, _, he, _⟩
  · omega
  · simp
  · omega

theorem run_eff_le (c : Cfg K Fit Err) (w : List Bool) (s0 : St Fit) :
    ∀ (n : Nat) (s : St Fit), run c w s0 n = .ok s → s.eff ≤ s0.eff + n := by
  intro n
  induction n with
  | zero => intro s h; injection h with h; subst h; omega
  | succ n ih =>
    intro s' h
    obtain ⟨s, hs, hst⟩ := run_pred c w s0 s' n h
    have := ih s hs
    have := (step_eff_le c w s s' hst).2
    omega

/-- once stopped (or failed), always stopped (failed): later iteration counts change nothing -/
theorem run_done_stable (c : Cfg K Fit Err) (w : List Bool) (s0 s : St Fit) (n : Nat)
    (h : run c w s0 n = .ok s) (hd : s.done = true) : ∀ k, run c w s0 (n + k) = .ok s := by
  intro k
  induction k with
  | zero => exact h
  | succ k ih =>
    rw [← Nat.add_assoc, run_succ_ok c w s0 s (n + k) ih]
    exact step_done c w s hd

theorem run_err_stable (c : Cfg K Fit Err) (w : List Bool) (s0 : St Fit) (n : Nat) (e : Err)
    (h : run c w s0 n = .error e) : ∀ k, run c w s0 (n + k) = .error e := by
  intro k
  induction k with
  | zero => exact h
  | succ k ih => rw [← Nat.add_assoc]; exact run_succ_err c w s0 (n + k) e ih

/-- from a fresh start, a state that has not stopped after `n` passes made `n` effective
iterations; a stopped one stopped at some earlier pass `k`, where the stop condition held, and
is that state frozen -/
theorem run_shape (c : Cfg K Fit Err) (w : List Bool) (s0 : St Fit) (he : s0.eff = 0)
    (hd0 : s0.done = false) :
    ∀ (n : Nat) (s : St Fit), run c w s0 n = .ok s →
      (s.done = false → s.eff = n) ∧
      (s.done = true → ∃ k, k < n ∧ ∃ sk, run c w s0 k = .ok sk ∧ sk.done = false ∧ sk.eff = k ∧
          stopCond c sk (test c sk.fit (baseOf c w sk)) ∧ s = { sk with done := true }) := by
  intro n
  induction n with
  | zero =>
    intro s h
    injection h with h
    subst h
    exact ⟨fun _ => he, fun h => (by rw [hd0] at h; cases h)⟩
  | succ n ih =>
    intro s' h
    obtain ⟨s, hs, hst⟩ := run_pred c w s0 s' n h
    obtain ⟨ih1, ih2⟩ := ih s hs
    rcases step_cases c w s s' hst with ⟨hd, rfl⟩ | ⟨hd, hstop, rfl⟩ | ⟨hd, _, _, _, he', hd'⟩
    · refine ⟨fun h' => (by rw [hd] at h'; cases h'), fun h' => ?_⟩
      obtain ⟨k, hk, rest⟩ := ih2 hd
      exact ⟨k, Nat.lt_succ_of_lt hk, rest⟩
    · refine ⟨fun h' => (by cases h'), fun _ => ?_⟩
      exact ⟨n, Nat.lt_succ_self n, s, hs, hd, ih1 hd, hstop, rfl⟩
    · refine ⟨fun _ => (by rw [he', ih1 hd]), fun h' => (by rw [hd'] at h'; cases h')⟩

/-! ### Congruence: the loop only looks at the points of `wmask` -/

theorem test_congr (c1 c2 : Cfg K Fit Err) (f : Fit) (base : List Bool)
    (hst : c1.stat f = c2.stat f) (hns : c1.nsigma = c2.nsigma)
    (hrn : ∀ i, On base i → c1.rnorm f i = c2.rnorm f i) :
    test c1 f base = test c2 f base := by
  apply List.ext_getElem?
  intro i
  rw [test_getElem?, test_getElem?]
  cases hb : base[i]? with
  | none => rfl
  | some b =>
    cases b with
    | false => simp
    | true =>
      have hon : On base i := by
        unfold On; rw [List.getD_eq_getElem?_getD, hb]; rfl
      simp only [Option.map_some, Bool.true_and, Passes]
      rw [hrn i hon, hst, hns]

/-- two configurations that agree on everything the loop can see of the points of `wmask`
produce the same history -/
theorem run_congr (c1 c2 : Cfg K Fit Err) (w : List Bool)
    (hfit : ∀ m : List Bool, m.length = w.length → Sub m w → c1.fit m = c2.fit m)
    (hst : ∀ f, c1.stat f = c2.stat f) (hns : c1.nsigma = c2.nsigma)
    (hrn : ∀ f i, On w i → c1.rnorm f i = c2.rnorm f i)
    (hmin : c1.minobj = c2.minobj) (hacc : c1.accum = c2.accum)
    (s0 : St Fit) (h0 : Inv c1 w s0) :
    ∀ n, run c1 w s0 n = run c2 w s0 n := by
  intro n
  induction n with
  | zero => rfl
  | succ n ih =>
    cases hr : run c1 w s0 n with
    | error e =>
      rw [run_succ_err c1 w s0 n e hr, run_succ_err c2 w s0 n e (by rw [← ih, hr])]
    | ok s =>
      rw [run_succ_ok c1 w s0 s n hr, run_succ_ok c2 w s0 s n (by rw [← ih, hr])]
      have hi := run_inv c1 w s0 h0 n s hr
      have hb : baseOf c1 w s = baseOf c2 w s := by unfold baseOf; rw [hacc]
      have hbs : Sub (baseOf c1 w s) w := baseOf_sub c1 w s hi.sub
      have ht : test c1 s.fit (baseOf c1 w s) = test c2 s.fit (baseOf c2 w s) := by
        rw [← hb]
        exact test_congr c1 c2 s.fit _ (hst _) hns fun i hon => hrn _ i (hbs i hon)
      have hlen : (test c1 s.fit (baseOf c1 w s)).length = w.length := by
        rw [test_length, baseOf_length c1 w s hi.len]
      have hsub : Sub (test c1 s.fit (baseOf c1 w s)) w := Sub.trans (test_sub _ _ _) hbs
      have hsc : ∀ nm, stopCond c1 s nm = stopCond c2 s nm := by
        intro nm; unfold stopCond; rw [hmin]
      unfold step
      simp only [← ht, ← hfit _ hlen hsub, hsc]

end TW.Clip
