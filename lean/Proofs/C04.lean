import Proofs.GCorrLemmas
import Proofs.FCorrLemmas
import Proofs.C03
import Proofs.FramesLemmas

/-!
# C04 — corrections compose as an affine group and histories are replayable

gWCS (plane fixed on the sky): `(M₁,s₁)` then `(M₂,s₂)` = `(M₂M₁, M₂s₁+s₂)`, in the own plane and
in one fixed reference plane; FITS (plane fixed on the detector): own plane `(M₁M₂, M₁s₂+s₁)`,
fixed reference plane `(M₂M₁, M₂s₁+s₂)`; identity and inverse; a corrector rebuilt from a
corrected WCS continues the history exactly (`rewrap` is the identity on reachable states);
the pipeline contains exactly one correction frame and stays valid for `_check_wcs_structure`
(`gwcs_frames_valid`, `gwcs_history_frames_valid`).  Property theorems only.
-/
open TW
set_option linter.unusedSectionVars false

namespace TW.C04
variable {K : Type} [Field K] [LinearOrder K] [IsStrictOrderedRing K]

/-! ### gWCS -/

theorem combine_id (c : K) (hc : c ≠ 0) (a : Aff K) : combineAffines c a Aff.id = a := by
  aff_unfold; refine ⟨⟨?_, ?_, ?_, ?_⟩, ?_, ?_⟩ <;> simp

theorem combine_combine (c : K) (hc : c ≠ 0) (a f1 f2 : Aff K) :
    combineAffines c (combineAffines c a f1) f2 = combineAffines c a (f2.comp f1) := by
  aff_unfold; refine ⟨⟨?_, ?_, ?_, ?_⟩, ?_, ?_⟩ <;> field_simp <;> ring

/-- the identity correction does not change the accumulated affine (hence none of the six
conversions; on an already corrected WCS the whole state is unchanged) -/
theorem gwcs_id_correction (env : GEnv K) (h : env.Bij) (g : GCorr K) (hg : g.WF) (p : V2 K) :
    (g.setCorrection env.c Aff.id none).detToWorld env p = g.detToWorld env p := by
  have hn := g.setCorrection_WF env hg h Aff.id none (by simp [Aff.id, M2.one, M2.det])
    (by intro q hq; cases hq)
  rw [GCorr.detToWorld_chart env _ hn h, g.detToWorld_chart env hg h, g.setCorrection_A env h]
  simp only [effCorr, Aff.id_comp]

/-- two successive corrections in the corrector's own plane equal the single correction
`(M₂M₁, M₂s₁+s₂)` — as STATES (affine, flags, frame list), for any prior state -/
theorem gwcs_compose_own_plane (c : K) (hc : c ≠ 0) (g : GCorr K) (f1 f2 : Aff K) :
    (g.setCorrection c f1 none).setCorrection c f2 none = g.setCorrection c (f2.comp f1) none := by
  unfold GCorr.setCorrection
  cases hcorr : g.corrected <;> simp [combine_combine c hc]

/-- the same in one fixed reference plane (the plane-to-plane map `q` is the same for both calls
because the tangent plane of a gWCS corrector does not move: `worldToTanp_chart`) -/
theorem gwcs_compose_ref_plane (c : K) (hc : c ≠ 0) (g : GCorr K) (q : Aff K) (hq : q.m.det ≠ 0)
    (f1 f2 : Aff K) :
    (g.setCorrection c f1 (some q)).setCorrection c f2 (some q)
      = g.setCorrection c (f2.comp f1) (some q) := by
  have hconj : (conjAff q f2).comp (conjAff q f1) = conjAff q (f2.comp f1) := by
    rw [conjAff_eq q _ hq, conjAff_eq q _ hq, conjAff_eq q _ hq]
    rw [Aff.comp_assoc, Aff.comp_assoc, ← Aff.comp_assoc q.inv, Aff.inv_comp q hq, Aff.id_comp,
      Aff.comp_assoc]
  unfold GCorr.setCorrection
  cases hcorr : g.corrected <;> simp [combine_combine c hc, hconj]

/-- a correction followed by its inverse restores the previous sky mapping -/
theorem gwcs_inverse_restores (env : GEnv K) (h : env.Bij) (g : GCorr K) (hg : g.WF) (f : Aff K)
    (hf : f.m.det ≠ 0) (p : V2 K) :
    ((g.setCorrection env.c f none).setCorrection env.c f.inv none).detToWorld env p
      = g.detToWorld env p := by
  rw [gwcs_compose_own_plane env.c h.c_ne, Aff.inv_comp f hf]
  exact gwcs_id_correction env h g hg p

/-- **replayability**: on every state reachable from a never-corrected WCS, building a new
corrector from the corrected WCS (`rewrap`) gives the very same state, so every later operation
sequence gives the same observables as on the live object -/
theorem gwcs_rewrap_bisim (c : K) (frms : List String) (hfr : frms.contains "v2v3corr" = false)
    (ops : List (GOp K)) :
    ((GCorr.fresh frms : GCorr K).run c ops).rewrap = (GCorr.fresh frms : GCorr K).run c ops := by
  suffices H : ∀ (ops : List (GOp K)) (g : GCorr K), g.rewrap = g → (g.run c ops).rewrap = g.run c ops by
    apply H
    have hm : "v2v3corr" ∉ frms := by
      intro hm
      have : frms.contains "v2v3corr" = true := by simpa using hm
      rw [hfr] at this; cases this
    simp [GCorr.rewrap, GCorr.fresh, hm]
  intro ops
  induction ops with
  | nil => intro g hg; exact hg
  | cons op ops ih =>
    intro g hg
    simp only [GCorr.run, List.foldl_cons]
    apply ih
    cases op with
    | copy => exact hg
    | rewrap => simp only [GCorr.step]; rw [hg, hg]
    | setCorr f q =>
      simp only [GCorr.step]
      -- facts about `g` from `g.rewrap = g`
      have hfacts : (g.corrected = true → g.v23name = "v2v3corr" ∧ g.frames.contains "v2v3corr" = true) := by
        intro hc
        unfold GCorr.rewrap at hg
        by_cases hcon : g.frames.contains "v2v3corr" = true
        · rw [if_pos hcon] at hg
          have := congrArg GCorr.v23name hg
          exact ⟨this.symm, hcon⟩
        · rw [if_neg hcon] at hg
          have := congrArg GCorr.corrected hg
          simp [GCorr.fresh, hc] at this
      unfold GCorr.setCorrection
      cases hc : g.corrected with
      | true =>
        obtain ⟨hv, hcon⟩ := hfacts hc
        simp only [if_true, GCorr.rewrap, hcon, hv]
      | false =>
        simp only [Bool.false_eq_true, if_false, GCorr.rewrap, C03.contains_insertAt, if_true]

theorem count_insertAt (s : String) (n : ℕ) (l : List String) :
    (insertAt s n l).count s = l.count s + 1 := by
  induction n generalizing l with
  | zero => simp [insertAt]
  | succ n ih =>
    cases l with
    | nil => simp [insertAt]
    | cons a l =>
      simp only [insertAt, List.count_cons]
      rw [ih]; omega

theorem filter_insertAt (s : String) (n : ℕ) (l : List String) :
    (insertAt s n l).filter (· ≠ s) = l.filter (· ≠ s) := by
  induction n generalizing l with
  | zero => simp [insertAt]
  | succ n ih =>
    cases l with
    | nil => simp [insertAt]
    | cons a l => simp only [insertAt, List.filter_cons]; rw [ih]

/-- **exactly one correction frame** however many corrections are applied: the number of
`v2v3corr` frames is 1 once corrected and 0 before, and all other frames keep their order -/
theorem gwcs_one_corr_frame (c : K) (frms : List String) (hfr : frms.contains "v2v3corr" = false)
    (ops : List (GOp K)) :
    let g := (GCorr.fresh frms : GCorr K).run c ops
    g.frames.count "v2v3corr" = g.corrected.toNat ∧
    g.frames.filter (· ≠ "v2v3corr") = frms := by
  have hcount0 : frms.count "v2v3corr" = 0 := by
    rw [List.count_eq_zero]
    intro hmem
    have : frms.contains "v2v3corr" = true := by simpa using hmem
    rw [hfr] at this; cases this
  have hfilt0 : frms.filter (· ≠ "v2v3corr") = frms := by
    rw [List.filter_eq_self]
    intro a ha
    have : a ≠ "v2v3corr" := by
      intro e; subst e
      have : frms.contains "v2v3corr" = true := by simpa using ha
      rw [hfr] at this; cases this
    simpa using this
  suffices H : ∀ (ops : List (GOp K)) (g : GCorr K),
      (g.frames.count "v2v3corr" = g.corrected.toNat ∧
        g.frames.filter (· ≠ "v2v3corr") = frms) →
      ((g.run c ops).frames.count "v2v3corr" = (g.run c ops).corrected.toNat ∧
        (g.run c ops).frames.filter (· ≠ "v2v3corr") = frms) by
    exact H ops _ ⟨by simp [GCorr.fresh, hcount0], by simp only [GCorr.fresh]; exact hfilt0⟩
  intro ops
  induction ops with
  | nil => intro g hg; exact hg
  | cons op ops ih =>
    intro g hg
    simp only [GCorr.run, List.foldl_cons]
    apply ih
    obtain ⟨h1, h2⟩ := hg
    cases op with
    | copy => exact ⟨h1, h2⟩
    | rewrap =>
      simp only [GCorr.step, GCorr.rewrap]
      by_cases hcon : g.frames.contains "v2v3corr" = true
      · rw [if_pos hcon]
        refine ⟨?_, h2⟩
        show List.count "v2v3corr" g.frames = 1
        cases hc : g.corrected with
        | true => rw [hc] at h1; exact h1
        | false =>
          rw [hc] at h1
          have h0 : List.count "v2v3corr" g.frames = 0 := h1
          rw [List.count_eq_zero] at h0
          exact absurd (by simpa using hcon) h0
      · rw [if_neg hcon]
        refine ⟨?_, h2⟩
        show List.count "v2v3corr" g.frames = 0
        rw [List.count_eq_zero]
        intro hm; exact hcon (by simpa using hm)
    | setCorr f q =>
      simp only [GCorr.step, GCorr.setCorrection]
      cases hc : g.corrected with
      | true =>
        rw [hc] at h1
        exact ⟨h1, h2⟩
      | false =>
        rw [hc] at h1
        have h0 : List.count "v2v3corr" g.frames = 0 := h1
        refine ⟨?_, ?_⟩
        · show List.count "v2v3corr" (insertAt "v2v3corr" _ g.frames) = 1
          rw [count_insertAt, h0]
        · show List.filter _ (insertAt "v2v3corr" _ g.frames) = frms
          rw [filter_insertAt]; exact h2

/-- **the pipeline surgery of `set_correction` keeps the pipeline valid**: inserting the
`v2v3corr` frame right after `v2v3vacorr` (if present, else after `v2v3`) into a pipeline accepted
by `_check_wcs_structure` gives a pipeline accepted by `_check_wcs_structure`, so re-wrapping a
corrected WCS never raises -/
theorem gwcs_frames_valid (frms : List String) (hok : checkFrames frms = true)
    (hno : frms.contains "v2v3corr" = false) :
    checkFrames (insertAt "v2v3corr"
      (idxOfStr (if frms.contains "v2v3vacorr" then "v2v3vacorr" else "v2v3") frms + 1) frms) = true := by
  rw [Frames.idxOfStr_ite, Frames.checkFrames_iff]
  exact ((Frames.checkFrames_iff frms).1 hok).insert (Frames.not_mem_of_contains_false _ _ hno)

/-- … along every history: after any sequence of corrections, re-wraps and copies starting from
a valid never-corrected pipeline, the frame list is accepted by `_check_wcs_structure` -/
theorem gwcs_history_frames_valid (c : K) (frms : List String) (hok : checkFrames frms = true)
    (hno : frms.contains "v2v3corr" = false) (ops : List (GOp K)) :
    checkFrames ((GCorr.fresh frms : GCorr K).run c ops).frames = true := by
  -- invariant: the frame list is valid, and an uncorrected state is `fresh` of its frame list
  suffices H : ∀ (ops : List (GOp K)) (g : GCorr K),
      (checkFrames g.frames = true ∧ (g.corrected = false →
        g.frames.contains "v2v3corr" = false ∧
        g.v23name = (if g.frames.contains "v2v3vacorr" then "v2v3vacorr" else "v2v3"))) →
      checkFrames (g.run c ops).frames = true by
    exact H ops _ ⟨hok, fun _ => ⟨hno, rfl⟩⟩
  intro ops
  induction ops with
  | nil => intro g hg; exact hg.1
  | cons op ops ih =>
    intro g hg
    simp only [GCorr.run, List.foldl_cons]
    apply ih
    obtain ⟨h1, h2⟩ := hg
    cases op with
    | copy => exact ⟨h1, h2⟩
    | rewrap =>
      simp only [GCorr.step, GCorr.rewrap]
      by_cases hcon : g.frames.contains "v2v3corr" = true
      · simp only [hcon, if_true]
        exact ⟨h1, fun hc => by cases hc⟩
      · simp only [hcon, GCorr.fresh]
        exact ⟨h1, fun _ => ⟨by simpa using hcon, rfl⟩⟩
    | setCorr f q =>
      simp only [GCorr.step]
      refine ⟨?_, fun hcc => by rw [GCorr.setCorrection_corrected] at hcc; cases hcc⟩
      cases hc : g.corrected with
      | true => simp only [GCorr.setCorrection, hc, if_true]; exact h1
      | false =>
        obtain ⟨h3, h4⟩ := h2 hc
        simp only [GCorr.setCorrection, hc, Bool.false_eq_true, if_false]
        rw [h4]
        exact gwcs_frames_valid g.frames h1 h3

/-! ### FITS (flat sky) -/

theorem skyCorr_comp (P : Aff K) (hP : P.m.det ≠ 0) (N1 N2 : M2 K) (s1 s2 : V2 K) :
    (skyCorr P N2 s2).comp (skyCorr P N1 s1)
      = skyCorr P (N2.mul N1) ((N2.mulVec s1).add s2) := by
  simp only [skyCorr]
  rw [Aff.comp_assoc, Aff.comp_assoc, ← Aff.comp_assoc P, Aff.comp_inv P hP, Aff.id_comp,
    ← Aff.comp_assoc ⟨N2, s2⟩]
  rfl

/-- two corrections in one fixed reference plane `P` = the single `(M₂M₁, M₂s₁+s₂)` in `P` -/
theorem fits_compose_ref_plane (f : FCorr K) (hf : f.WF) (P : Aff K) (hP : P.m.det ≠ 0)
    (N1 N2 : M2 K) (s1 s2 : V2 K) (h1 : N1.det ≠ 0) (h2 : N2.det ≠ 0) (hx hy : K) (hhx : hx ≠ 0)
    (hhy : hy ≠ 0) :
    ((f.setCorrectionRef P N1 s1 hx hy).setCorrectionRef P N2 s2 hx hy).toSky
      = (f.setCorrectionRef P (N2.mul N1) ((N2.mulVec s1).add s2) hx hy).toSky := by
  have hf1 := f.setCorrectionRef_WF hf P hP N1 s1 h1 hx hy hhx hhy
  rw [(FCorr.setCorrectionRef_toSky _ hf1 P hP N2 s2 h2 hx hy hhx hhy).1,
    (f.setCorrectionRef_toSky hf P hP N1 s1 h1 hx hy hhx hhy).1,
    (f.setCorrectionRef_toSky hf P hP _ _ (by rw [M2.det_mul]; exact mul_ne_zero h2 h1) hx hy hhx hhy).1,
    ← Aff.comp_assoc, skyCorr_comp P hP]

/-- two corrections in the corrector's OWN plane (fixed on the detector) = the single
`(M₁M₂, M₁s₂+s₁)` -/
theorem fits_compose_own_plane (f : FCorr K) (hf : f.WF) (N1 N2 : M2 K) (s1 s2 : V2 K)
    (h1 : N1.det ≠ 0) (h2 : N2.det ≠ 0) (hx hy : K) (hhx : hx ≠ 0) (hhy : hy ≠ 0) :
    ((f.setCorrectionOwn N1 s1 hx hy).setCorrectionOwn N2 s2 hx hy).toSky
      = (f.setCorrectionOwn (N1.mul N2) ((N1.mulVec s2).add s1) hx hy).toSky := by
  -- own-plane correction composes on the RIGHT of the pixel → sky map: T' = T ∘ (M, s)
  have e1 : ∀ (T : Aff K) (hT : T.m.det ≠ 0) (M : M2 K) (s : V2 K),
      (skyCorr T.inv M s).comp T = T.comp ⟨M, s⟩ := by
    intro T hT M s
    have hTi : T.inv.inv = T := by
      apply Aff.ext_app
      intro p
      have hPi := Aff.det_inv_ne T hT
      have h2' := Aff.app_inv T.inv hPi p
      have : T.inv.app (T.inv.inv.app p) = T.inv.app (T.app p) := by rw [h2', Aff.inv_app _ hT]
      have inj := congrArg T.app this
      rwa [Aff.app_inv _ hT, Aff.app_inv _ hT] at inj
    simp only [skyCorr]
    rw [hTi, Aff.comp_assoc, Aff.comp_assoc, Aff.inv_comp T hT, Aff.comp_id]
  have own : ∀ (g : FCorr K) (hg : g.WF) (M : M2 K) (s : V2 K), M.det ≠ 0 →
      (g.setCorrectionOwn M s hx hy).toSky = g.toSky.comp ⟨M, s⟩ ∧ (g.setCorrectionOwn M s hx hy).WF := by
    intro g hg M s hM
    have hd : g.toSky.m.det ≠ 0 := hg
    have hP := Aff.det_inv_ne g.toSky hd
    rw [g.setCorrectionOwn_eq hg]
    exact ⟨by rw [(g.setCorrectionRef_toSky hg _ hP M s hM hx hy hhx hhy).1, e1 g.toSky hd],
      g.setCorrectionRef_WF hg _ hP M s hM hx hy hhx hhy⟩
  obtain ⟨a1, w1⟩ := own f hf N1 s1 h1
  obtain ⟨a2, _⟩ := own _ w1 N2 s2 h2
  obtain ⟨a3, _⟩ := own f hf (N1.mul N2) ((N1.mulVec s2).add s1)
    (by rw [M2.det_mul]; exact mul_ne_zero h1 h2)
  rw [a2, a1, a3, Aff.comp_assoc]
  rfl

/-- the identity correction leaves the sky mapping unchanged -/
theorem fits_id_correction (f : FCorr K) (hf : f.WF) (hx hy : K) (hhx : hx ≠ 0) (hhy : hy ≠ 0) :
    (f.setCorrectionOwn M2.one ⟨0, 0⟩ hx hy).toSky = f.toSky := by
  have : (⟨M2.one, ⟨0, 0⟩⟩ : Aff K) = Aff.id := by
    simp only [Aff.id, zeroK_eq]
  have hd : f.toSky.m.det ≠ 0 := hf
  have hP := Aff.det_inv_ne f.toSky hd
  rw [f.setCorrectionOwn_eq hf,
    (f.setCorrectionRef_toSky hf _ hP _ _ (ne_of_eq_of_ne M2.det_one one_ne_zero) hx hy hhx hhy).1]
  simp only [skyCorr]
  rw [this, Aff.id_comp]
  have hinvinv : f.toSky.inv.inv.comp f.toSky.inv = Aff.id := Aff.inv_comp _ hP
  rw [hinvinv, Aff.id_comp]

/-- a correction followed by its inverse (both in the own plane) restores the sky mapping -/
theorem fits_inverse_restores (f : FCorr K) (hf : f.WF) (M : M2 K) (s : V2 K) (hM : M.det ≠ 0)
    (hx hy : K) (hhx : hx ≠ 0) (hhy : hy ≠ 0) :
    ((f.setCorrectionOwn M s hx hy).setCorrectionOwn M.inv ((M.inv.mulVec s).neg) hx hy).toSky
      = f.toSky := by
  rw [fits_compose_own_plane f hf M M.inv s _ hM (M2.det_inv_ne M hM) hx hy hhx hhy]
  have e : M.mul M.inv = M2.one := M2.mul_inv M hM
  have e2 : (M.mulVec ((M.inv.mulVec s).neg)).add s = ⟨0, 0⟩ := by
    have := M2.mulVec_inv M hM s
    aff_unfold
    obtain ⟨a, b⟩ := this
    constructor
    · linear_combination -a
    · linear_combination -b
  rw [e, e2]
  exact fits_id_correction f hf hx hy hhx hhy

-- non-vacuity / sanity on concrete data (ℚ): sequential corrections equal the composed one
example :
    let g : GCorr ℚ := GCorr.fresh ["detector", "v2v3", "v2v3vacorr", "world"]
    let g2 := (g.setCorrection 3600 ⟨⟨1, 1/10, 0, 1⟩, ⟨5, -7⟩⟩ none).setCorrection 3600
      ⟨⟨0, -1, 1, 0⟩, ⟨2, 3⟩⟩ none
    g2.frames = ["detector", "v2v3", "v2v3vacorr", "v2v3corr", "world"] ∧ checkFrames g2.frames = true
      ∧ g2.rewrap = g2 := by
  decide +kernel

-- the surgery on a concrete 5-frame pipeline (with and without `v2v3vacorr`)
example :
    let frms := ["detector", "v2v3", "v2v3vacorr", "icrs_tmp", "world"]
    checkFrames frms = true ∧ frms.contains "v2v3corr" = false ∧
    insertAt "v2v3corr"
        (idxOfStr (if frms.contains "v2v3vacorr" then "v2v3vacorr" else "v2v3") frms + 1) frms
      = ["detector", "v2v3", "v2v3vacorr", "v2v3corr", "icrs_tmp", "world"] ∧
    checkFrames (insertAt "v2v3corr"
        (idxOfStr (if frms.contains "v2v3vacorr" then "v2v3vacorr" else "v2v3") frms + 1) frms) = true := by
  decide +kernel

example :
    let frms := ["grism_detector", "detector", "v2v3", "icrs_tmp", "world"]
    checkFrames frms = true ∧
    insertAt "v2v3corr"
        (idxOfStr (if frms.contains "v2v3vacorr" then "v2v3vacorr" else "v2v3") frms + 1) frms
      = ["grism_detector", "detector", "v2v3", "v2v3corr", "icrs_tmp", "world"] ∧
    checkFrames (insertAt "v2v3corr"
        (idxOfStr (if frms.contains "v2v3vacorr" then "v2v3vacorr" else "v2v3") frms + 1) frms) = true := by
  decide +kernel

-- the validity hypothesis is not vacuous: `v2v3` as the LAST frame is rejected
example : checkFrames ["detector", "world", "v2v3"] = false := by decide +kernel

end TW.C04
