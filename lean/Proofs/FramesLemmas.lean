import Mathlib.Tactic.Common
import Model.Corrector

/-!
List lemmas for the pipeline surgery of `JWSTWCSCorrector.set_correction`
(`insertAt "v2v3corr" (idx + 1) frames`) and a propositional reading of
`checkFrames` (`_check_wcs_structure`).  Helper lemmas for C04 (`gwcs_frames_valid`).
-/
open TW

namespace TW.Frames

/-! ### `idxOfStr` -/

theorem idxOfStr_le (s : String) (l : List String) : idxOfStr s l ≤ l.length := by
  induction l with
  | nil => simp [idxOfStr]
  | cons a l ih => simp only [idxOfStr, List.length_cons]; split <;> omega

theorem idxOfStr_lt_of_mem (s : String) (l : List String) (h : s ∈ l) :
    idxOfStr s l < l.length := by
  induction l with
  | nil => cases h
  | cons a l ih =>
    simp only [idxOfStr, List.length_cons]
    split
    · omega
    · next hne =>
      have : s ∈ l := by
        rcases List.mem_cons.1 h with e | e
        · exact absurd e.symm hne
        · exact e
      have := ih this; omega

theorem mem_of_count_pos (s : String) (l : List String) (h : 0 < l.count s) : s ∈ l :=
  List.count_pos_iff.1 h

theorem not_mem_of_contains_false (s : String) (l : List String) (h : l.contains s = false) :
    s ∉ l := by
  intro hm
  have : l.contains s = true := by simpa using hm
  rw [h] at this; cases this

theorem count_eq_zero_of_contains_false (s : String) (l : List String)
    (h : l.contains s = false) : l.count s = 0 :=
  List.count_eq_zero.2 (not_mem_of_contains_false s l h)

theorem getLastD_mem_cons (a : String) (l : List String) (d : String) :
    (a :: l).getLastD d ∈ a :: l := by
  induction l generalizing a d with
  | nil => simp
  | cons b l ih =>
    rw [List.getLastD_cons]
    exact List.mem_cons_of_mem _ (ih b a)

/-! ### `insertAt` -/

theorem length_insertAt (c : String) (k : Nat) (l : List String) :
    (insertAt c k l).length = l.length + 1 := by
  induction k generalizing l with
  | zero => simp [insertAt]
  | succ k ih =>
    cases l with
    | nil => simp [insertAt]
    | cons a l => simp only [insertAt, List.length_cons]; rw [ih]

theorem count_insertAt_self (c : String) (k : Nat) (l : List String) :
    (insertAt c k l).count c = l.count c + 1 := by
  induction k generalizing l with
  | zero => simp [insertAt]
  | succ k ih =>
    cases l with
    | nil => simp [insertAt]
    | cons a l => simp only [insertAt, List.count_cons]; rw [ih]; omega

theorem count_insertAt_ne (s c : String) (hne : s ≠ c) (k : Nat) (l : List String) :
    (insertAt c k l).count s = l.count s := by
  have hne' : (c == s) = false := by simpa using fun e => hne e.symm
  induction k generalizing l with
  | zero => simp [insertAt, List.count_cons, hne']
  | succ k ih =>
    cases l with
    | nil => simp [insertAt, List.count_cons, hne']
    | cons a l => simp only [insertAt, List.count_cons]; rw [ih]

theorem contains_insertAt_ne (s c : String) (hne : s ≠ c) (k : Nat) (l : List String) :
    (insertAt c k l).contains s = l.contains s := by
  induction k generalizing l with
  | zero => simp [insertAt, hne]
  | succ k ih =>
    cases l with
    | nil => simp [insertAt, hne]
    | cons a l => simp only [insertAt, List.contains_cons]; rw [ih]

theorem headD_insertAt (c d : String) (k : Nat) (l : List String) (hl : l ≠ []) :
    (insertAt c (k + 1) l).headD d = l.headD d := by
  cases l with
  | nil => exact absurd rfl hl
  | cons a l => simp [insertAt]

theorem getLastD_insertAt (c d : String) (k : Nat) (l : List String) (hk : k < l.length) :
    (insertAt c k l).getLastD d = l.getLastD d := by
  induction k generalizing l d with
  | zero =>
    cases l with
    | nil => simp at hk
    | cons a l => simp [insertAt]
  | succ k ih =>
    cases l with
    | nil => simp at hk
    | cons a l =>
      have hk' : k < l.length := by simpa using hk
      simp only [insertAt, List.getLastD_cons]
      exact ih a l hk'

/-- inserting `c` at position `k` shifts the first occurrence of another name `s` by one iff it
is at or after `k` -/
theorem idxOfStr_insertAt_ne (s c : String) (hne : s ≠ c) (k : Nat) (l : List String)
    (hk : k ≤ l.length) :
    idxOfStr s (insertAt c k l) = if idxOfStr s l < k then idxOfStr s l else idxOfStr s l + 1 := by
  have hne' : ¬ c = s := fun e => hne e.symm
  induction k generalizing l with
  | zero => simp [insertAt, idxOfStr, hne']
  | succ k ih =>
    cases l with
    | nil => simp at hk
    | cons a l =>
      have hk' : k ≤ l.length := by simpa using hk
      simp only [insertAt, idxOfStr]
      by_cases ha : a = s
      · simp [ha]
      · simp only [ha, if_false]
        rw [ih l hk']
        split <;> split <;> omega

/-- the inserted name is found at the insertion position if it did not occur before -/
theorem idxOfStr_insertAt_self (c : String) (k : Nat) (l : List String) (hk : k ≤ l.length)
    (hc : c ∉ l) : idxOfStr c (insertAt c k l) = k := by
  induction k generalizing l with
  | zero => simp [insertAt, idxOfStr]
  | succ k ih =>
    cases l with
    | nil => simp at hk
    | cons a l =>
      have hk' : k ≤ l.length := by simpa using hk
      have ha : ¬ a = c := fun e => hc (by simp [e])
      have hc' : c ∉ l := fun h => hc (List.mem_cons_of_mem _ h)
      simp only [insertAt, idxOfStr, ha, if_false]
      rw [ih l hk' hc']

/-- decomposition form of the surgery: the new frame goes right after the first occurrence of
`v` -/
theorem insertAt_after (c v : String) (pre post : List String) (hv : v ∉ pre) :
    insertAt c (idxOfStr v (pre ++ v :: post) + 1) (pre ++ v :: post)
      = pre ++ v :: c :: post := by
  induction pre with
  | nil => simp [idxOfStr, insertAt]
  | cons a pre ih =>
    have ha : ¬ a = v := fun e => hv (by simp [e])
    have hv' : v ∉ pre := fun h => hv (List.mem_cons_of_mem _ h)
    simp only [List.cons_append, idxOfStr, ha, if_false, insertAt]
    rw [ih hv']

/-! ### propositional reading of `checkFrames` -/

/-- the checks of `_check_wcs_structure`, as a proposition -/
structure Valid (frms : List String) : Prop where
  len : 3 ≤ frms.length
  head1 : frms.count (frms.headD "") ≤ 1
  last1 : frms.count (frms.getLastD "") ≤ 1
  v23_1 : frms.count "v2v3" = 1
  va_1 : frms.count "v2v3vacorr" ≤ 1
  i0_ne0 : idxOfStr "v2v3" frms ≠ 0
  i0_nelast : idxOfStr "v2v3" frms ≠ frms.length - 1
  va_pos : frms.contains "v2v3vacorr" = true →
    idxOfStr "v2v3" frms ≤ idxOfStr "v2v3vacorr" frms ∧
      idxOfStr "v2v3vacorr" frms ≠ frms.length - 1
  corr : frms.count "v2v3corr" = 0 ∨
    (frms.count "v2v3corr" = 1 ∧
      idxOfStr "v2v3corr" frms
        = (if frms.contains "v2v3vacorr" = true then idxOfStr "v2v3vacorr" frms
            else idxOfStr "v2v3" frms) + 1 ∧
      idxOfStr "v2v3corr" frms ≠ frms.length - 1)

theorem checkFrames_iff (frms : List String) : checkFrames frms = true ↔ Valid frms := by
  constructor
  · intro h
    unfold checkFrames at h
    constructor <;> grind
  · intro h
    obtain ⟨h1, h2, h3, h4, h5, h6, h7, h8, h9⟩ := h
    unfold checkFrames
    grind

/-- position of the frame that the correction frame follows -/
def corrPos (frms : List String) : Nat :=
  if frms.contains "v2v3vacorr" = true then idxOfStr "v2v3vacorr" frms else idxOfStr "v2v3" frms

theorem idxOfStr_ite (frms : List String) :
    idxOfStr (if frms.contains "v2v3vacorr" = true then "v2v3vacorr" else "v2v3") frms
      = corrPos frms := by
  unfold corrPos; split <;> rfl

/-- facts about the insertion position of a valid pipeline: the `v2v3` frame is not after it,
and it is not the last frame -/
theorem Valid.corrPos_facts {frms : List String} (h : Valid frms) :
    idxOfStr "v2v3" frms ≤ corrPos frms ∧ corrPos frms + 1 < frms.length ∧
      (frms.contains "v2v3vacorr" = true → idxOfStr "v2v3vacorr" frms = corrPos frms) := by
  have hm : "v2v3" ∈ frms := mem_of_count_pos _ _ (by rw [h.v23_1]; omega)
  have hlt := idxOfStr_lt_of_mem _ _ hm
  have hl := h.len
  have h7 := h.i0_nelast
  unfold corrPos
  by_cases hva : frms.contains "v2v3vacorr" = true
  · obtain ⟨a, b⟩ := h.va_pos hva
    have hm2 : "v2v3vacorr" ∈ frms := by simpa using hva
    have := idxOfStr_lt_of_mem _ _ hm2
    simp only [hva, if_true]
    refine ⟨a, by omega, fun _ => trivial⟩
  · simp only [hva]
    refine ⟨by simp, by simp; omega, fun h => by cases h⟩

/-- **the surgery keeps the pipeline valid** (propositional form) -/
theorem Valid.insert {frms : List String} (h : Valid frms) (hno : "v2v3corr" ∉ frms) :
    Valid (insertAt "v2v3corr" (corrPos frms + 1) frms) := by
  obtain ⟨hi0, hk, hiva⟩ := h.corrPos_facts
  have hl := h.len
  have hne : frms ≠ [] := by intro e; rw [e] at hl; simp at hl
  have hhead : (insertAt "v2v3corr" (corrPos frms + 1) frms).headD "" = frms.headD "" :=
    headD_insertAt _ _ _ _ hne
  have hlast : (insertAt "v2v3corr" (corrPos frms + 1) frms).getLastD "" = frms.getLastD "" :=
    getLastD_insertAt _ _ _ _ hk
  have hhead_mem : frms.headD "" ∈ frms := by
    cases frms with
    | nil => exact absurd rfl hne
    | cons a l => simp
  have hlast_mem : frms.getLastD "" ∈ frms := by
    cases frms with
    | nil => exact absurd rfl hne
    | cons a l => exact getLastD_mem_cons a l ""
  have hhead_ne : frms.headD "" ≠ "v2v3corr" := fun e => hno (e ▸ hhead_mem)
  have hlast_ne : frms.getLastD "" ≠ "v2v3corr" := fun e => hno (e ▸ hlast_mem)
  have hlen := length_insertAt "v2v3corr" (corrPos frms + 1) frms
  have hi0' : idxOfStr "v2v3" (insertAt "v2v3corr" (corrPos frms + 1) frms)
      = idxOfStr "v2v3" frms := by
    rw [idxOfStr_insertAt_ne _ _ (by decide) _ _ (by omega), if_pos (by omega)]
  have hcon : (insertAt "v2v3corr" (corrPos frms + 1) frms).contains "v2v3vacorr"
      = frms.contains "v2v3vacorr" := contains_insertAt_ne _ _ (by decide) _ _
  have hic : idxOfStr "v2v3corr" (insertAt "v2v3corr" (corrPos frms + 1) frms)
      = corrPos frms + 1 := idxOfStr_insertAt_self _ _ _ (by omega) hno
  have hiva' : frms.contains "v2v3vacorr" = true →
      idxOfStr "v2v3vacorr" (insertAt "v2v3corr" (corrPos frms + 1) frms)
        = idxOfStr "v2v3vacorr" frms := by
    intro hva
    have := hiva hva
    rw [idxOfStr_insertAt_ne _ _ (by decide) _ _ (by omega), if_pos (by omega)]
  refine ⟨by omega, ?_, ?_, ?_, ?_, ?_, ?_, ?_, ?_⟩
  · rw [hhead, count_insertAt_ne _ _ hhead_ne]; exact h.head1
  · rw [hlast, count_insertAt_ne _ _ hlast_ne]; exact h.last1
  · rw [count_insertAt_ne _ _ (by decide)]; exact h.v23_1
  · rw [count_insertAt_ne _ _ (by decide)]; exact h.va_1
  · rw [hi0']; exact h.i0_ne0
  · rw [hi0', hlen]; omega
  · rw [hcon]
    intro hva
    rw [hi0', hiva' hva, hlen]
    have := hiva hva
    exact ⟨by omega, by omega⟩
  · right
    refine ⟨?_, ?_, ?_⟩
    · rw [count_insertAt_self, List.count_eq_zero.2 hno]
    · rw [hic, hcon]
      by_cases hva : frms.contains "v2v3vacorr" = true
      · rw [if_pos hva, hiva' hva, hiva hva]
      · rw [if_neg hva, hi0']; unfold corrPos; rw [if_neg hva]
    · rw [hic, hlen]; omega

end TW.Frames
