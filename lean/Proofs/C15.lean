import Proofs.C15Lemmas
import Mathlib.Algebra.Order.Ring.Rat

/-!
# C15 — overlap-driven ordering picks the largest overlap and reports its true area

Property theorems only (helper lemmas: `Proofs/C15Lemmas.lean`).  The model is
`Model/Overlap.lean`: `overlapMatrix` (`overlap_matrix`), `pairCore` / `maxOverlapPair`
(`_max_overlap_pair`), `maxOverlapImage` (`_max_overlap_image`), `formGroups` (the group-formation
loop of `align_wcs`).  Images are positions `0 … n-1` of the work list; `K` is any linearly
ordered scalar type (no arithmetic law is needed: totals are only compared).

`OvMatrix n m` : `m` is an `n × n` list of rows, symmetric, zero diagonal, no negative entry —
which is what `overlap_matrix` produces for *any* answers of the guarded area calls
(`overlap_matrix_wellformed`).  All statements hold for every order `n` and every such matrix.
-/
open TW TW.C15L
set_option linter.unusedSectionVars false

namespace TW.C15
variable {K : Type} [LinearOrder K] [Add K] [NatCast K]
variable {n : Nat} {m : List (List K)} {w : Bool} {r : PairResult K}

/-- `overlap_matrix` is square, symmetric, has a zero diagonal (whatever the guarded calls answer,
even inconsistently or with malformed-polygon failures), and no negative entry because the
guarded areas are absolute values -/
theorem overlap_matrix_wellformed (n : Nat) (g : List (List (K × Nat)))
    (hg : ∀ p q, p < q → q < n → zeroK ≤ (gentry g p q).1) : OvMatrix n (overlapMatrix n g) :=
  overlapMatrix_ok n g hg

/-- for three or more images and no enforced order `_max_overlap_pair` is the matrix branch on the
matrix built by `overlap_matrix`; the warning is logged iff some guarded call reported a failure -/
theorem pair_of_raw (hn : 3 ≤ n) (g : List (List (K × Nat))) :
    maxOverlapPair false n g = pairCore n (overlapMatrix n g) (decide (0 < nMalformed n g)) :=
  maxOverlapPair_matrix n hn g

/-- the matrix branch never fails (no pop out of range) and returns two images and an area -/
theorem pair_total (hm : OvMatrix n m) (hn : 2 ≤ n) (w : Bool) :
    ∃ r ref im a, pairCore n m w = .ok r ∧ r.ref = some ref ∧ r.im = some im ∧ r.area = some a := by
  obtain ⟨ref, im, rest, h, _⟩ := hm.pairCore_spec hn w
  exact ⟨_, ref, im, _, h, rfl, rfl, rfl⟩

/-- the returned pair attains the maximum overlap over all pairs of different images -/
theorem pair_is_argmax (hm : OvMatrix n m) (hn : 2 ≤ n) (h : pairCore n m w = .ok r) :
    ∃ ref im, r.ref = some ref ∧ r.im = some im ∧ ref < n ∧ im < n ∧ ref ≠ im ∧
      ∀ a b, a < n → b < n → a ≠ b → entry m a b ≤ entry m ref im := by
  obtain ⟨ref, im, rest, h', h1, h2, h3, h4, _⟩ := hm.pairCore_spec hn w
  rw [h'] at h; cases h
  exact ⟨ref, im, rfl, rfl, h1, h2, h3, fun a b ha hb _ => h4 a b ha hb⟩

/-- of the two, the reference is the image with the larger total overlap (row sum `np.sum(m[i])`) -/
theorem reference_has_larger_total (hm : OvMatrix n m) (hn : 2 ≤ n) (h : pairCore n m w = .ok r) :
    ∃ ref im, r.ref = some ref ∧ r.im = some im ∧ sumK (rowOf m im) ≤ sumK (rowOf m ref) := by
  obtain ⟨ref, im, rest, h', _, _, _, _, h5, _⟩ := hm.pairCore_spec hn w
  rw [h'] at h; cases h
  exact ⟨ref, im, rfl, rfl, not_lt.mp h5⟩

/-- the reported area is the overlap `m[ref][im]` of exactly the two returned images -/
theorem pair_area_is_pairs (hm : OvMatrix n m) (hn : 2 ≤ n) (h : pairCore n m w = .ok r) :
    ∃ ref im, r.ref = some ref ∧ r.im = some im ∧ r.area = some (entry m ref im) := by
  obtain ⟨ref, im, rest, h', _⟩ := hm.pairCore_spec hn w
  rw [h'] at h; cases h
  exact ⟨ref, im, rfl, rfl, rfl⟩

/-- the remaining work list together with the two returned images is a permutation of the input -/
theorem rest_perm (hm : OvMatrix n m) (hn : 2 ≤ n) (h : pairCore n m w = .ok r) :
    ∃ ref im, r.ref = some ref ∧ r.im = some im ∧ (ref :: im :: r.rest).Perm (List.range n) := by
  obtain ⟨ref, im, rest, h', _, _, _, _, _, h6, _⟩ := hm.pairCore_spec hn w
  rw [h'] at h; cases h
  exact ⟨ref, im, rfl, rfl, h6⟩

/-- exactly the two returned images are removed: nothing else is lost, nothing is duplicated -/
theorem pair_removes_exactly_two (hm : OvMatrix n m) (hn : 2 ≤ n) (h : pairCore n m w = .ok r) :
    ∃ ref im, r.ref = some ref ∧ r.im = some im ∧ r.rest.length + 2 = n ∧ r.rest.Nodup ∧
      ∀ k, k ∈ r.rest ↔ (k < n ∧ k ≠ ref ∧ k ≠ im) := by
  obtain ⟨ref, im, hr, hi, hp⟩ := rest_perm hm hn h
  have hnd : (ref :: im :: r.rest).Nodup := hp.nodup_iff.mpr List.nodup_range
  rw [List.nodup_cons, List.nodup_cons] at hnd
  refine ⟨ref, im, hr, hi, ?_, hnd.2.2, ?_⟩
  · have := hp.length_eq
    simp only [List.length_cons, List.length_range] at this
    omega
  · intro k
    constructor
    · intro hk
      have hk' : k ∈ List.range n := hp.subset (List.mem_cons_of_mem _ (List.mem_cons_of_mem _ hk))
      refine ⟨List.mem_range.mp hk', ?_, ?_⟩
      · rintro rfl; exact hnd.1 (List.mem_cons_of_mem _ hk)
      · rintro rfl; exact hnd.2.1 hk
    · rintro ⟨h1, h2, h3⟩
      have : k ∈ ref :: im :: r.rest := hp.symm.subset (List.mem_range.mpr h1)
      rcases List.mem_cons.mp this with rfl | this
      · exact absurd rfl h2
      · rcases List.mem_cons.mp this with rfl | this
        · exact absurd rfl h3
        · exact this

/-- the remaining images are ordered by non-increasing overlap with the reference -/
theorem rest_sorted_desc (hm : OvMatrix n m) (hn : 2 ≤ n) (h : pairCore n m w = .ok r) :
    ∃ ref, r.ref = some ref ∧ r.rest.Pairwise (fun a b => entry m ref b ≤ entry m ref a) := by
  obtain ⟨ref, im, rest, h', _, _, _, _, _, _, h7⟩ := hm.pairCore_spec hn w
  rw [h'] at h; cases h
  exact ⟨ref, rfl, h7⟩

/-- the sort of the remainder is the stable ascending sort, reversed (`np.argsort(row)[::-1]`
with a stable `argsort`): images with exactly equal overlap appear in reversed list order -/
theorem rest_ties_reversed {α : Type} (row : List K) (images : List α) (c : K) :
    ((sortAsc (row.zip images)).reverse).filter (fun p => p.1 == c)
      = ((row.zip images).filter (fun p => p.1 == c)).reverse := by
  rw [List.filter_reverse, sortAsc_stable]

/-! ### next image -/

/-- the next image has the largest overlap with the current reference -/
theorem next_is_argmax (gl : List (K × Nat)) (hne : gl ≠ []) :
    ∃ r, maxOverlapImage false gl = some r ∧ r.idx < gl.length ∧
      ∀ (k : Nat) v, (gl.map (·.1))[k]? = some v → v ≤ r.area := by
  obtain ⟨r, h1, h2, _, h4, _⟩ := maxOverlapImage_argmax gl hne
  exact ⟨r, h1, h2, h4⟩

/-- the reported area is the overlap of exactly the returned image with the reference -/
theorem next_area_is_its (enforce : Bool) (gl : List (K × Nat)) (r : NextResult K)
    (h : maxOverlapImage enforce gl = some r) : (gl.map (·.1))[r.idx]? = some r.area := by
  have hne : gl ≠ [] := by
    rintro rfl; simp [maxOverlapImage] at h
  cases enforce with
  | false =>
    obtain ⟨r', h1, _, h3, _⟩ := maxOverlapImage_argmax gl hne
    rw [h1] at h; cases h; exact h3
  | true =>
    rw [maxOverlapImage_user gl hne] at h; cases h
    cases gl with
    | nil => exact absurd rfl hne
    | cons x xs => simp

/-- exactly the returned image is removed; the others keep their order -/
theorem next_removes_exactly_one (enforce : Bool) (gl : List (K × Nat)) (r : NextResult K)
    (h : maxOverlapImage enforce gl = some r) :
    r.idx < gl.length ∧ r.rest = (List.range gl.length).filter (fun p => p != r.idx) := by
  have hne : gl ≠ [] := by
    rintro rfl; simp [maxOverlapImage] at h
  cases enforce with
  | false =>
    obtain ⟨r', h1, h2, _, _, h5⟩ := maxOverlapImage_argmax gl hne
    rw [h1] at h; cases h
    exact ⟨h2, by rw [h5, eraseIdx_range_eq_filter]⟩
  | true =>
    rw [maxOverlapImage_user gl hne] at h; cases h
    exact ⟨List.length_pos_iff.mpr hne, by rw [eraseIdx_range_eq_filter]⟩

/-- an empty work list ends the loop: `(None, None)` -/
theorem next_none_iff (enforce : Bool) (gl : List (K × Nat)) :
    maxOverlapImage enforce gl = none ↔ gl = [] := by
  constructor
  · intro h
    by_contra hne
    cases enforce with
    | false => obtain ⟨r, h1, _⟩ := maxOverlapImage_argmax gl hne; rw [h1] at h; cases h
    | true => rw [maxOverlapImage_user gl hne] at h; cases h
  · rintro rfl; simp [maxOverlapImage]

/-! ### user order -/

/-- with enforcement (or with just two images) the first two images are returned in list order,
the area is the one the first reports for the second, the others stay in order -/
theorem user_order_pair (hn : 2 ≤ n) (enforce : Bool) (h : n = 2 ∨ enforce = true)
    (g : List (List (K × Nat))) :
    maxOverlapPair enforce n g =
      .ok { ref := some 0, im := some 1, area := some (gentry g 0 1).1,
            rest := List.range' 2 (n - 2), warn := false } := by
  rw [maxOverlapPair_user n hn enforce h g, range_erase_two n hn]

/-- with enforcement the first image of the work list is the next one -/
theorem user_order_next (gl : List (K × Nat)) (hne : gl ≠ []) :
    ∃ r, maxOverlapImage true gl = some r ∧ r.idx = 0 ∧ r.rest = List.range' 1 (gl.length - 1) := by
  refine ⟨_, maxOverlapImage_user gl hne, rfl, ?_⟩
  cases gl with
  | nil => exact absurd rfl hne
  | cons x xs =>
    simp only [List.length_cons, Nat.add_sub_cancel]
    rw [List.range_eq_range', List.range'_succ, List.eraseIdx_cons_zero]

variable {G : Type} [DecidableEq G]

/-- group formation: every image is in exactly one group; an ungrouped image is a group of its
own; a group id collects all images carrying it (in list order); and the groups are listed in the
order in which their first member appears in the input list -/
theorem user_order_groups (l : List (Option G)) :
    (formGroups l).flatten.Perm (List.range l.length) ∧
    (∀ gr ∈ formGroups l, (∃ idx, gr = [idx] ∧ l[idx]? = some none) ∨
        (∃ g, gr = membersOf g l ∧ gr ≠ [])) ∧
    (∀ gr ∈ formGroups l, gr.Pairwise (· < ·)) ∧
    ((formGroups l).map (·.head?)).Pairwise (fun a b => ∃ x y, a = some x ∧ b = some y ∧ x < y) := by
  have hinv := goInv_init l
  have hgroups := go_groups l 0 [] hinv
  refine ⟨?_, ?_, ?_, (go_heads l 0 [] hinv).1⟩
  · show (formGroupsGo l l 0 []).flatten.Perm _
    rw [List.perm_ext_iff_of_nodup (go_nodup l 0 [] hinv) List.nodup_range]
    intro idx
    rw [go_mem l 0 [] hinv idx, List.mem_range]
    constructor
    · rintro (⟨_, h⟩ | ⟨g, h, _⟩) <;>
      · by_contra hc
        rw [List.getElem?_eq_none (by omega)] at h
        exact absurd h (by simp)
    · intro hlt
      rw [List.getElem?_eq_getElem hlt]
      cases l[idx] with
      | none => exact Or.inl ⟨Nat.zero_le _, rfl⟩
      | some g => exact Or.inr ⟨g, rfl, by simp⟩
  · intro gr hgr
    rcases hgroups gr hgr with ⟨idx, _, h2, h3⟩ | ⟨g, _, h2, idx, _, h4⟩
    · exact Or.inl ⟨idx, h2, h3⟩
    · refine Or.inr ⟨g, h2, ?_⟩
      rw [h2]
      intro hc
      have := (mem_membersOf g l idx).mpr h4
      rw [hc] at this
      exact absurd this (by simp)
  · intro gr hgr
    rcases hgroups gr hgr with ⟨idx, _, h2, _⟩ | ⟨g, _, h2, _⟩
    · rw [h2]; simp
    · rw [h2]; exact membersOf_sorted g l

/-! ### non-vacuity and the pre-repair behaviour -/

def m3 : List (List ℚ) := [[0, 5, 3], [5, 0, 1], [3, 1, 0]]
def m4 : List (List ℚ) := [[0, 5, 1, 2], [5, 0, 3, 0], [1, 3, 0, 9], [2, 0, 9, 0]]

example : OvMatrix 3 m3 :=
  OvMatrix.ofBounded (by decide +kernel) (by decide +kernel) (by decide +kernel) (by decide +kernel)
    (by decide +kernel)
example : OvMatrix 4 m4 :=
  OvMatrix.ofBounded (by decide +kernel) (by decide +kernel) (by decide +kernel) (by decide +kernel)
    (by decide +kernel)

/-- images 2 and 3 overlap most (9); image 2 has the larger total (13 > 11) and becomes the
reference; of the rest, image 1 overlaps the reference more (3) than image 0 (1) -/
example : (pairCore 4 m4 false).toOption.map (fun r => (r.ref, r.im, r.area, r.rest))
    = some (some 2, some 3, some 9, [1, 0]) := by decide +kernel

/-- the lookup as it was before the repair of finding F4: `m[i, j]` read after `j -= 1` -/
def preFixArea {K : Type} [LT K] [DecidableLT K] [Add K] [NatCast K] (n : Nat) (m : List (List K)) : K :=
  let t := pairIndices n m
  entry m t.1 t.2.2

/-- on `m3` the pair is (0, 1) with overlap 5; the pre-repair lookup returns the diagonal `m[0][0] = 0` -/
example : (pairCore 3 m3 false).toOption.map (fun r => (r.ref, r.im, r.area)) = some (some 0, some 1, some 5)
    ∧ pairIndices 3 m3 = (0, 1, 0) ∧ preFixArea 3 m3 = 0 ∧ preFixArea 3 m3 ≠ entry m3 0 1 := by
  decide +kernel

example : (maxOverlapImage false ([(1, 0), (3, 0), (3, 1)] : List (ℚ × Nat))).map
    (fun r => (r.idx, r.area, r.rest, r.warn)) = some (1, 3, [0, 2], true) := by decide +kernel

example : formGroups [none, some 1, none, some 1, some 2] = [[0], [1, 3], [2], [4]] := by decide
example : formGroups [some 1, none, some 2, none, some 1] = [[0, 4], [1], [2], [3]] := by decide

end TW.C15
