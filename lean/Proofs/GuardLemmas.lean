import Proofs.C06Lemmas
import Mathlib.Tactic.LinearCombination
import Mathlib.LinearAlgebra.Matrix.Determinant.Basic

/-!
Helper lemmas about the collinearity guard of `fit_general` (`TW.collinearGuard`,
`TW.generalGuard`, `Model/Fit.lean`): the comparison it evaluates, the central moments as sums over
zipped rows, the guard fires on collinear / coincident points for every threshold `epsD ≥ 0`, and
the determinant of the normal matrix is `sw` times the determinant of the central moments (so a
guard that does not fire leaves a regular normal matrix).
-/
open TW Matrix
set_option linter.unusedSectionVars false

namespace TW
variable {K : Type} [Field K] [LinearOrder K] [IsStrictOrderedRing K]

theorem UVMom.bound_eq (epsD : K) (c : UVMom K) : c.bound epsD = epsD * ((c.cuu + c.cvv) / 2) ^ 2 := by
  unfold UVMom.bound
  simp only [halfK, oneK_eq]
  push_cast
  ring

theorem UVMom.det_eq (c : UVMom K) : c.det = c.cuu * c.cvv - c.cuv ^ 2 := by
  unfold UVMom.det; ring

/-- the guard is the comparison of the code:
`cuu*cvv - cuv**2 <= epsD * (0.5*(cuu + cvv))**2` -/
theorem collinearGuard_iff (epsD : K) (c : UVMom K) :
    collinearGuard epsD c = true ↔ c.cuu * c.cvv - c.cuv ^ 2 ≤ epsD * ((c.cuu + c.cvv) / 2) ^ 2 := by
  unfold collinearGuard
  rw [UVMom.bound_eq, UVMom.det_eq]
  simp

theorem collinearGuard_false_iff (epsD : K) (c : UVMom K) :
    collinearGuard epsD c = false ↔ epsD * ((c.cuu + c.cvv) / 2) ^ 2 < c.cuu * c.cvv - c.cuv ^ 2 := by
  unfold collinearGuard
  rw [UVMom.bound_eq, UVMom.det_eq]
  simp

theorem UVMom.bound_nonneg (epsD : K) (hD : 0 ≤ epsD) (c : UVMom K) : 0 ≤ c.bound epsD := by
  rw [UVMom.bound_eq]
  exact mul_nonneg hD (sq_nonneg _)

/-- both sides of the comparison multiplied by one positive factor: same answer -/
theorem collinearGuard_congr_scale (epsD k : K) (hk : 0 < k) (c c' : UVMom K)
    (hd : c'.det = k * c.det) (hb : c'.bound epsD = k * c.bound epsD) :
    collinearGuard epsD c' = collinearGuard epsD c := by
  unfold collinearGuard
  rw [hd, hb]
  have : k * c.bound epsD < k * c.det ↔ c.bound epsD < c.det := mul_lt_mul_iff_right₀ hk
  simp [this]

/-- moments multiplied by one positive factor `k`: both sides are multiplied by `k²` -/
theorem collinearGuard_smul (epsD k : K) (hk : 0 < k) (c c' : UVMom K) (huu : c'.cuu = k * c.cuu)
    (hvv : c'.cvv = k * c.cvv) (huv : c'.cuv = k * c.cuv) :
    collinearGuard epsD c' = collinearGuard epsD c := by
  apply collinearGuard_congr_scale epsD (k * k) (mul_pos hk hk)
  · rw [UVMom.det_eq, UVMom.det_eq, huu, hvv, huv]; ring
  · rw [UVMom.bound_eq, UVMom.bound_eq, huu, hvv]; ring

/-- the central moments of the model as sums over the zipped rows -/
theorem cmoments_eq (ws : List K) (obs : List (Obs K)) (s : GSums K) :
    let Z := List.zip ws obs
    cmoments ws obs s =
      { cuu := (Z.map fun p => p.1 * ((p.2.u - s.su / s.sw) * (p.2.u - s.su / s.sw))).sum
        cvv := (Z.map fun p => p.1 * ((p.2.v - s.sv / s.sw) * (p.2.v - s.sv / s.sw))).sum
        cuv := (Z.map fun p => p.1 * ((p.2.u - s.su / s.sw) * (p.2.v - s.sv / s.sw))).sum } := by
  intro Z
  unfold cmoments mulL
  simp only [dotL_mul_map]
  rfl

/-- the weights that reach the guard have a positive sum -/
theorem generalW_sum_pos (obs : List (Obs K)) (wxy wuv : Option (List K)) (hn : ¬ obs.length < 3)
    (hbad : generalBad wxy wuv = false) : 0 < sumL (generalW obs wxy wuv) := by
  unfold generalBad at hbad
  cases hc : combineW wxy wuv with
  | none =>
    rw [generalW_none obs wxy wuv hc, sumL_replicate]
    have : (0 : K) < (obs.length : K) := by
      have : 0 < obs.length := by omega
      exact_mod_cast this
    simpa using this
  | some ws =>
    rw [generalW_some obs wxy wuv ws hc]
    rw [hc] at hbad
    simp only [Bool.or_eq_false_iff, decide_eq_false_iff_not] at hbad
    exact sumL_pos_of_countPos hbad.1 (by omega)

/-! ### collinear points -/

/-- sums over rows on each of which the summand vanishes -/
theorem sum_eq_zero_of_forall {α : Type} (Z : List α) (f : α → K) (h : ∀ p ∈ Z, f p = 0) :
    (Z.map f).sum = 0 := by
  apply List.sum_eq_zero
  intro x hx
  obtain ⟨p, hp, rfl⟩ := List.mem_map.mp hx
  exact h p hp

theorem sum_lin3Z {α : Type} (Z : List α) (F f1 f2 f3 : α → K) (c1 c2 c3 : K)
    (h : ∀ r, F r = c1 * f1 r + c2 * f2 r + c3 * f3 r) :
    (Z.map F).sum = c1 * (Z.map f1).sum + c2 * (Z.map f2).sum + c3 * (Z.map f3).sum := by
  induction Z with
  | nil => simp
  | cons a l ih => simp only [List.map_cons, List.sum_cons, ih, h a]; ring

/-- **weighted points on a line have a singular matrix of central moments**: if every point with a
non-zero weight satisfies `a u + b v + c = 0` (`(a, b, c) ≠ 0`) and the weights do not sum to
zero, then `cuu*cvv − cuv² = 0` for the moments about the weighted mean -/
theorem cmom_det_collinear (Z : List (K × Obs K)) (a b c : K) (hab : a ≠ 0 ∨ b ≠ 0 ∨ c ≠ 0)
    (hline : ∀ p ∈ Z, p.1 * (a * p.2.u + b * p.2.v + c) = 0)
    (hsw : (Z.map fun p => p.1).sum ≠ 0) :
    let sw := (Z.map fun p => p.1).sum
    let um := (Z.map fun p => p.1 * p.2.u).sum / sw
    let vm := (Z.map fun p => p.1 * p.2.v).sum / sw
    (Z.map fun p => p.1 * ((p.2.u - um) * (p.2.u - um))).sum
        * (Z.map fun p => p.1 * ((p.2.v - vm) * (p.2.v - vm))).sum
      - (Z.map fun p => p.1 * ((p.2.u - um) * (p.2.v - vm))).sum
        * (Z.map fun p => p.1 * ((p.2.u - um) * (p.2.v - vm))).sum = 0 := by
  intro sw um vm
  -- the weighted mean is on the line
  have h0 : a * (Z.map fun p => p.1 * p.2.u).sum + b * (Z.map fun p => p.1 * p.2.v).sum + c * sw = 0 := by
    have := sum_eq_zero_of_forall Z _ hline
    rw [sum_lin3Z Z _ (fun p => p.1 * p.2.u) (fun p => p.1 * p.2.v) (fun p => p.1) a b c
      (fun r => by ring)] at this
    exact this
  have hm : a * um + b * vm + c = 0 := by
    have eu : um * sw = (Z.map fun p => p.1 * p.2.u).sum := div_mul_cancel₀ _ hsw
    have ev : vm * sw = (Z.map fun p => p.1 * p.2.v).sum := div_mul_cancel₀ _ hsw
    have e : (a * um + b * vm + c) * sw = 0 := by linear_combination a * eu + b * ev + h0
    exact (mul_eq_zero.mp e).resolve_right hsw
  -- every weighted centred point is orthogonal to (a, b)
  have hc : ∀ p ∈ Z, p.1 * (a * (p.2.u - um) + b * (p.2.v - vm)) = 0 := by
    intro p hp
    have := hline p hp
    linear_combination this - p.1 * hm
  set cuu := (Z.map fun p => p.1 * ((p.2.u - um) * (p.2.u - um))).sum with hcuu
  set cvv := (Z.map fun p => p.1 * ((p.2.v - vm) * (p.2.v - vm))).sum with hcvv
  set cuv := (Z.map fun p => p.1 * ((p.2.u - um) * (p.2.v - vm))).sum with hcuv
  have e1 : a * cuu + b * cuv = 0 := by
    have := sum_eq_zero_of_forall Z (fun p => (p.2.u - um) * (p.1 * (a * (p.2.u - um) + b * (p.2.v - vm))))
      (fun p hp => by rw [hc p hp, mul_zero])
    rw [sum_lin3Z Z _ (fun p => p.1 * ((p.2.u - um) * (p.2.u - um)))
      (fun p => p.1 * ((p.2.u - um) * (p.2.v - vm))) (fun _ => 0) a b 0 (fun r => by ring)] at this
    linear_combination this
  have e2 : a * cuv + b * cvv = 0 := by
    have := sum_eq_zero_of_forall Z (fun p => (p.2.v - vm) * (p.1 * (a * (p.2.u - um) + b * (p.2.v - vm))))
      (fun p hp => by rw [hc p hp, mul_zero])
    rw [sum_lin3Z Z _ (fun p => p.1 * ((p.2.u - um) * (p.2.v - vm)))
      (fun p => p.1 * ((p.2.v - vm) * (p.2.v - vm))) (fun _ => 0) a b 0 (fun r => by ring)] at this
    linear_combination this
  have ha : a * (cuu * cvv - cuv * cuv) = 0 := by linear_combination cvv * e1 - cuv * e2
  have hb : b * (cuu * cvv - cuv * cuv) = 0 := by linear_combination cuu * e2 - cuv * e1
  by_cases ha0 : a = 0
  · by_cases hb0 : b = 0
    · exfalso
      rcases hab with h | h | h
      · exact h ha0
      · exact h hb0
      · rw [ha0, hb0] at h0
        simp only [zero_mul, zero_add] at h0
        rcases mul_eq_zero.mp h0 with h1 | h1
        · exact h h1
        · exact hsw h1
    · exact (mul_eq_zero.mp hb).resolve_left hb0
  · exact (mul_eq_zero.mp ha).resolve_left ha0

/-- **the guard fires on collinear (or coincident) points, for every threshold `epsD ≥ 0`** -/
theorem generalGuard_collinear (epsD : K) (hD : 0 ≤ epsD) (obs : List (Obs K))
    (wxy wuv : Option (List K)) (a b c : K) (hab : a ≠ 0 ∨ b ≠ 0 ∨ c ≠ 0)
    (hline : ∀ p ∈ List.zip (generalW obs wxy wuv) obs, p.1 ≠ 0 → a * p.2.u + b * p.2.v + c = 0)
    (hlen : (generalW obs wxy wuv).length = obs.length)
    (hn : ¬ obs.length < 3) (hbad : generalBad wxy wuv = false) :
    generalGuard epsD obs wxy wuv = true := by
  unfold generalGuard
  set ws := generalW obs wxy wuv with hws
  have hpos := generalW_sum_pos obs wxy wuv hn hbad
  rw [← hws, sumL_weights ws obs hlen] at hpos
  have hs := gsums_eq ws obs hlen
  simp only at hs
  have hcm := cmoments_eq ws obs (gsums ws obs)
  simp only at hcm
  have hline' : ∀ p ∈ List.zip ws obs, p.1 * (a * p.2.u + b * p.2.v + c) = 0 := by
    intro p hp
    by_cases h0 : p.1 = 0
    · rw [h0, zero_mul]
    · rw [hline p hp h0, mul_zero]
  have hdet := cmom_det_collinear (List.zip ws obs) a b c hab hline' (ne_of_gt hpos)
  simp only at hdet
  unfold collinearGuard
  have hz : (cmoments ws obs (gsums ws obs)).det = 0 := by
    rw [hcm]
    unfold UVMom.det
    simp only [hs]
    exact hdet
  rw [hz]
  have := UVMom.bound_nonneg epsD hD (cmoments ws obs (gsums ws obs))
  simp [not_lt.mpr this]

/-! ### a guard that does not fire leaves a regular normal matrix -/

/-- König–Huygens: central second moments from the raw sums -/
theorem sum_central {α : Type} (Z : List α) (w f g : α → K) (a b : K) :
    (Z.map fun p => w p * ((f p - a) * (g p - b))).sum
      = (Z.map fun p => w p * (f p * g p)).sum - a * (Z.map fun p => w p * g p).sum
        - b * (Z.map fun p => w p * f p).sum + a * b * (Z.map fun p => w p).sum := by
  induction Z with
  | nil => simp
  | cons p l ih => simp only [List.map_cons, List.sum_cons, ih]; ring

/-- the central moments of the model in terms of its sums -/
theorem cmoments_sums (ws : List K) (obs : List (Obs K)) (hlen : ws.length = obs.length)
    (hsw : (gsums ws obs).sw ≠ 0) :
    cmoments ws obs (gsums ws obs) =
      { cuu := (gsums ws obs).suu - (gsums ws obs).su * (gsums ws obs).su / (gsums ws obs).sw
        cvv := (gsums ws obs).svv - (gsums ws obs).sv * (gsums ws obs).sv / (gsums ws obs).sw
        cuv := (gsums ws obs).suv - (gsums ws obs).su * (gsums ws obs).sv / (gsums ws obs).sw } := by
  have hcm := cmoments_eq ws obs (gsums ws obs)
  simp only at hcm
  rw [hcm]
  have hs := gsums_eq ws obs hlen
  simp only at hs
  rw [hs] at hsw ⊢
  simp only at hsw ⊢
  simp only [sum_central (List.zip ws obs) (fun p => p.1)]
  simp only [UVMom.mk.injEq]
  refine ⟨?_, ?_, ?_⟩ <;> field_simp <;> ring

/-- **the determinant of the normal matrix is `sw` times the determinant of the central moments** -/
theorem gmatrix_det (s : GSums K) (hsw : s.sw ≠ 0) :
    (toM (gmatrix s)).det =
      s.sw * ((s.suu - s.su * s.su / s.sw) * (s.svv - s.sv * s.sv / s.sw)
        - (s.suv - s.su * s.sv / s.sw) * (s.suv - s.su * s.sv / s.sw)) := by
  rw [Matrix.det_fin_three]
  simp only [toM_apply, gmatrix, Mat.get_ofFn]
  simp
  field_simp
  ring

/-- if the guard does not fire (for a threshold `epsD ≥ 0`) the normal matrix is regular -/
theorem gmatrix_det_ne_zero_of_guard (epsD : K) (hD : 0 ≤ epsD) (obs : List (Obs K))
    (wxy wuv : Option (List K)) (hlen : (generalW obs wxy wuv).length = obs.length)
    (hn : ¬ obs.length < 3) (hbad : generalBad wxy wuv = false)
    (hg : generalGuard epsD obs wxy wuv = false) :
    (toM (gmatrix (gsums (generalW obs wxy wuv) obs))).det ≠ 0 := by
  set ws := generalW obs wxy wuv with hws
  have hpos : 0 < (gsums ws obs).sw := generalW_sum_pos obs wxy wuv hn hbad
  have hsw : (gsums ws obs).sw ≠ 0 := ne_of_gt hpos
  unfold generalGuard collinearGuard at hg
  rw [← hws] at hg
  have hlt : (cmoments ws obs (gsums ws obs)).bound epsD < (cmoments ws obs (gsums ws obs)).det := by
    simpa using hg
  have hdpos : 0 < (cmoments ws obs (gsums ws obs)).det :=
    lt_of_le_of_lt (UVMom.bound_nonneg epsD hD _) hlt
  rw [cmoments_sums ws obs hlen hsw] at hdpos
  unfold UVMom.det at hdpos
  simp only at hdpos
  rw [gmatrix_det _ hsw]
  exact ne_of_gt (mul_pos hpos hdpos)

end TW
