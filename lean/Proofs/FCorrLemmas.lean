import Proofs.AffLemmas
import Mathlib.Tactic.LinearCombination

/-!
FITS corrector model in the flat-sky idealisation: `set_correction` through an affine reference
plane `P` composes the sky-level affine `G = P⁻¹ ∘ (M, s) ∘ P` onto the pixel → sky map, changes
only `crval` and the linear matrix, and the 9-point numerical Jacobian is exact.
Helper lemmas for C01, C02, C04, C05, C18, C20.
-/
open TW
set_option linter.unusedSectionVars false

namespace TW
variable {K : Type} [Field K] [LinearOrder K] [IsStrictOrderedRing K]

/-- the 5-point formula is exact on affine functions -/
theorem fivePoint_affine (a : Aff K) (c0 d : V2 K) (h : K) (hh : h ≠ 0) :
    fivePoint (a.app ⟨c0.x - h * d.x, c0.y - h * d.y⟩)
      (a.app ⟨c0.x - h * (1 / 2) * d.x, c0.y - h * (1 / 2) * d.y⟩)
      (a.app ⟨c0.x + h * (1 / 2) * d.x, c0.y + h * (1 / 2) * d.y⟩)
      (a.app ⟨c0.x + h * d.x, c0.y + h * d.y⟩) h = a.m.mulVec d := by
  simp only [fivePoint]
  aff_unfold
  constructor <;> (push_cast; field_simp; ring)

/-- `_linearize` returns the linear part of an affine map exactly -/
theorem linearize_affine (a : Aff K) (c0 : V2 K) (hx hy : K) (hhx : hx ≠ 0) (hhy : hy ≠ 0) :
    linearize a.app c0 hx hy = a.m := by
  have e1 := fivePoint_affine a c0 ⟨1, 0⟩ hx hhx
  have e2 := fivePoint_affine a c0 ⟨0, 1⟩ hy hhy
  simp only [mul_one, mul_zero, sub_zero, add_zero] at e1 e2
  simp only [linearize, halfK_eq]
  rw [e1, e2]
  aff_unfold
  refine ⟨?_, ?_, ?_, ?_⟩ <;> ring

/-- the 5-point formula is exact for polynomials of degree ≤ 4 along the axis (one coordinate):
the derivative of `c0 + c1 t + c2 t² + c3 t³ + c4 t⁴` at `t = 0` -/
theorem fivePoint_quartic (c0 c1 c2 c3 c4 h : K) (hh : h ≠ 0) :
    let P := fun t : K => c0 + c1 * t + c2 * t ^ 2 + c3 * t ^ 3 + c4 * t ^ 4
    ((P (-h) - P h) + 8 * (P (h / 2) - P (-(h / 2)))) / (6 * h) = c1 := by
  intro P
  simp only [P]
  field_simp
  ring

/-- pixel → sky map of a state as an affine map -/
def FCorr.toSky (f : FCorr K) : Aff K := ⟨f.L, f.crval.sub (f.L.mulVec f.crpix0)⟩

/-- state invariant: the effective linear matrix is invertible -/
def FCorr.WF (f : FCorr K) : Prop := f.L.det ≠ 0

theorem FCorr.pix2world_eq (f : FCorr K) (x : V2 K) : f.pix2world x = f.toSky.app x := by
  simp only [FCorr.pix2world, FCorr.toSky]; aff_unfold; constructor <;> ring

theorem FCorr.world2pix_eq (f : FCorr K) (hf : f.WF) (w : V2 K) :
    f.world2pix w = f.toSky.inv.app w := by
  have h : f.L.det ≠ 0 := hf
  simp only [FCorr.world2pix, FCorr.toSky]; aff_unfold
  constructor <;> field_simp <;> simp only [M2.det] <;> ring

theorem FCorr.L_lin_mul (f : FCorr K) (U : M2 K) :
    ({ f with lin := f.lin.mul U } : FCorr K).L = f.L.mul U := by
  unfold FCorr.L
  cases f.pcForm <;> simp [M2.mul_assoc]

theorem FCorr.L_crval (f : FCorr K) (o : V2 K) : ({ f with crval := o } : FCorr K).L = f.L := by
  unfold FCorr.L; rfl

/-- `M·(v − shift')` with `shift' = −M⁻¹ s` is `M v + s` -/
theorem corr_shift (M : M2 K) (s : V2 K) (hM : M.det ≠ 0) (v : V2 K) :
    M.mulVec (v.sub ((M.inv.mulVec s).neg)) = (⟨M, s⟩ : Aff K).app v := by
  have := M2.mulVec_inv M hM s
  aff_unfold
  obtain ⟨h1, h2⟩ := this
  constructor
  · linear_combination h1
  · linear_combination h2

theorem FCorr.setCorrection_L (f : FCorr K) (w2t t2w : V2 K → V2 K) (M : M2 K) (s : V2 K) (hx hy : K) :
    (f.setCorrection w2t t2w M s hx hy).L = f.L.mul (linearize
      (fun x => ({ f with crval := f.newCrval w2t t2w M s } : FCorr K).world2pix
        (t2w (M.mulVec ((w2t (f.pix2world x)).sub ((M.inv.mulVec s).neg))))) f.crpix0 hx hy) := by
  unfold FCorr.setCorrection FCorr.L
  cases f.pcForm <;> simp [M2.mul_assoc]

/-- sky-level affine of a correction `(M, s)` defined in the plane `P` -/
def skyCorr (P : Aff K) (M : M2 K) (s : V2 K) : Aff K := P.inv.comp ((⟨M, s⟩ : Aff K).comp P)

theorem skyCorr_det (P : Aff K) (M : M2 K) (s : V2 K) (hP : P.m.det ≠ 0) :
    (skyCorr P M s).m.det = M.det := by
  simp only [skyCorr, Aff.det_comp, Aff.inv]
  rw [M2.det_inv _ hP]; field_simp

theorem FCorr.newCrval_flat (f : FCorr K) (P : Aff K) (hP : P.m.det ≠ 0) (M : M2 K) (s : V2 K)
    (hM : M.det ≠ 0) :
    f.newCrval P.app P.inv.app M s = (skyCorr P M s).app (f.pix2world f.crpix0) := by
  simp only [FCorr.newCrval, skyCorr, Aff.app_comp, corr_shift M s hM]

/-- **main lemma (flat sky)**: `set_correction` through the affine plane `P` composes the
sky-level correction onto the pixel → sky map -/
theorem FCorr.setCorrectionRef_toSky (f : FCorr K) (hf : f.WF) (P : Aff K) (hP : P.m.det ≠ 0)
    (M : M2 K) (s : V2 K) (hM : M.det ≠ 0) (hx hy : K) (hhx : hx ≠ 0) (hhy : hy ≠ 0) :
    (f.setCorrectionRef P M s hx hy).toSky = (skyCorr P M s).comp f.toSky ∧
    (f.setCorrectionRef P M s hx hy).L = (skyCorr P M s).m.mul f.L := by
  set G := skyCorr P M s with hG
  set o' := f.newCrval P.app P.inv.app M s with ho'
  have ho : o' = G.app (f.pix2world f.crpix0) := f.newCrval_flat P hP M s hM
  set f1 : FCorr K := { f with crval := o' } with hf1
  have hf1L : f1.L = f.L := FCorr.L_crval f o'
  have hf1WF : f1.WF := by unfold FCorr.WF; rw [hf1L]; exact hf
  -- the pixel → pixel map differentiated by `_linearize` is affine
  set gA : Aff K := f1.toSky.inv.comp (G.comp f.toSky) with hgA
  have hg : (fun x => f1.world2pix (P.inv.app ((M.mulVec ((P.app (f.pix2world x)).sub
      ((M.inv.mulVec s).neg)))))) = gA.app := by
    funext x
    rw [FCorr.world2pix_eq f1 hf1WF, hgA, Aff.app_comp, Aff.app_comp, ← FCorr.pix2world_eq, hG]
    simp only [skyCorr, Aff.app_comp, corr_shift M s hM]
  have hU : linearize (fun x => f1.world2pix (P.inv.app ((M.mulVec ((P.app (f.pix2world x)).sub
      ((M.inv.mulVec s).neg)))))) f.crpix0 hx hy = gA.m := by
    rw [hg]; exact linearize_affine gA f.crpix0 hx hy hhx hhy
  have hgAm : gA.m = (f.L.inv.mul G.m).mul f.L := by
    simp only [hgA, Aff.comp, Aff.inv, FCorr.toSky, hf1L, M2.mul_assoc]
  have hL : (f.setCorrectionRef P M s hx hy).L = G.m.mul f.L := by
    unfold FCorr.setCorrectionRef FCorr.setCorrection
    simp only
    rw [hU]
    have := FCorr.L_lin_mul f1 gA.m
    have e : ({ f1 with lin := f.lin.mul gA.m } : FCorr K).L = f1.L.mul gA.m := this
    rw [e, hf1L, hgAm, ← M2.mul_assoc, ← M2.mul_assoc, M2.mul_inv _ hf, M2.one_mul]
  refine ⟨?_, hL⟩
  -- translation part
  have hcr : (f.setCorrectionRef P M s hx hy).crval = o' := rfl
  have hc0 : (f.setCorrectionRef P M s hx hy).crpix0 = f.crpix0 := rfl
  rw [Aff.eq_iff]
  refine ⟨?_, ?_⟩
  · simp only [FCorr.toSky, Aff.comp]; exact hL
  · simp only [FCorr.toSky, Aff.comp, hL, hcr, hc0, ho, FCorr.pix2world_eq, FCorr.toSky]
    aff_unfold
    constructor <;> ring

theorem FCorr.setCorrectionRef_WF (f : FCorr K) (hf : f.WF) (P : Aff K) (hP : P.m.det ≠ 0)
    (M : M2 K) (s : V2 K) (hM : M.det ≠ 0) (hx hy : K) (hhx : hx ≠ 0) (hhy : hy ≠ 0) :
    (f.setCorrectionRef P M s hx hy).WF := by
  unfold FCorr.WF
  rw [(f.setCorrectionRef_toSky hf P hP M s hM hx hy hhx hhy).2, M2.det_mul, skyCorr_det P M s hP]
  exact mul_ne_zero hM hf

/-- own-plane correction = correction through the plane `P = toSky⁻¹` -/
theorem FCorr.setCorrectionOwn_eq (f : FCorr K) (hf : f.WF) (M : M2 K) (s : V2 K) (hx hy : K) :
    f.setCorrectionOwn M s hx hy = f.setCorrectionRef f.toSky.inv M s hx hy := by
  have hd : f.toSky.m.det ≠ 0 := hf
  have e1 : f.world2pix = f.toSky.inv.app := funext (f.world2pix_eq hf)
  have e2 : f.pix2world = f.toSky.inv.inv.app := by
    funext x
    rw [f.pix2world_eq]
    have : f.toSky.inv.inv = f.toSky := by
      apply Aff.ext_app
      intro p
      have h1 := Aff.inv_app f.toSky.inv (Aff.det_inv_ne _ hd) (f.toSky.app p)
      rw [Aff.inv_app _ hd] at h1
      have h2 := Aff.app_inv f.toSky.inv (Aff.det_inv_ne _ hd) p
      -- inv.inv.app p = toSky.app p  since toSky.inv is injective
      have : f.toSky.inv.app (f.toSky.inv.inv.app p) = f.toSky.inv.app (f.toSky.app p) := by
        rw [h2, Aff.inv_app _ hd]
      have inj := congrArg f.toSky.app this
      rwa [Aff.app_inv _ hd, Aff.app_inv _ hd] at inj
    rw [this]
  unfold FCorr.setCorrectionOwn FCorr.setCorrectionRef
  rw [← e1, ← e2]

end TW
