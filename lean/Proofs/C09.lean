import Proofs.C09Lemmas
import Proofs.C07

/-!
# C09 — zero-weight sources never influence a fit; weights reach the right sources

Property theorems only (helper lemmas: `Proofs/C09Lemmas.lean`, `Proofs/IterLemmas.lean`,
`Proofs/ClipLemmas.lean`).  Models: `TW.iterLinearFitWith` (`Model/Clip.lean`) for
`iter_linear_fit`, `TW.createGroupCatalog` / `TW.fit2refArgs` (`Model/PairWeights.lean`) for the
way the `'weight'` columns travel through `create_group_catalog` and `fit2ref`.

`zero_weight_irrelevant` holds for **every** single-shot fitter and metric and every scalar type;
the harmonic-weight theorems need field arithmetic (`K` a linearly ordered field).
-/
set_option linter.unusedSectionVars false
set_option linter.unusedVariables false

open TW TW.Clip TW.C09L

namespace TW.C09

/-! ## Sources with non-positive weight -/
section zero
variable {K : Type} [Add K] [Sub K] [Mul K] [Div K] [Neg K] [LT K] [DecidableLT K] [NatCast K]

/-- **zero-weight sources are irrelevant.**  Two data sets of the same length that agree on the
pairs whose weights (in every weight vector supplied) are positive — the coordinates of all other
pairs are arbitrary — give the same answer for every `nclip`, `sigma`, statistic, `clip_accum`
and centre option: the same exception, or the same matrix, shift, centre, statistics, residual
array, `eff_nclip` and `fitmask`; hence also the same history.  And `fitmask` is `False` on every
pair with a non-positive weight. -/
theorem zero_weight_irrelevant (single : Single K) (nrm : Bool) (m : Metric K) (minobj : Nat)
    (obs1 obs2 : List (Obs K)) (wxy wuv : Option (List K)) (center : Option (K × K))
    (nclip : Option Int) (sigma : Option (K × String)) (accum : Bool)
    (hlen : obs1.length = obs2.length)
    (hag : ∀ i, On (wmaskOf obs1.length wxy wuv) i → obs1[i]? = obs2[i]?) :
    iterLinearFitWith single nrm m minobj obs1 wxy wuv center nclip sigma accum
      = iterLinearFitWith single nrm m minobj obs2 wxy wuv center nclip sigma accum ∧
    ∀ r, iterLinearFitWith single nrm m minobj obs1 wxy wuv center nclip sigma accum = .ok r →
      ∀ i, ¬ On (wmaskOf obs1.length wxy wuv) i → ¬ On r.fitmask i := by
  refine ⟨iter_congr_obs single nrm m minobj obs1 obs2 wxy wuv center nclip sigma accum hlen hag,
    fun r hr i hni hon => hni ?_⟩
  have := (C07.mask_subset_wmask single nrm m minobj obs1 wxy wuv center nclip sigma accum r hr).2 i hon
  exact (wmaskOf_on _ _ _ i).mpr this

/-- what "positively weighted" means: `wmask` selects index `i` iff `i` is a valid index and each
supplied weight vector is positive there -/
theorem wmask_spec (n : Nat) (wxy wuv : Option (List K)) (i : Nat) :
    On (wmaskOf n wxy wuv) i ↔
      i < n ∧ (∀ ws, wxy = some ws → ∃ x, ws[i]? = some x ∧ zeroK < x)
            ∧ (∀ ws, wuv = some ws → ∃ x, ws[i]? = some x ∧ zeroK < x) :=
  wmaskOf_on n wxy wuv i

end zero

/-! ## Harmonic combination of the two weight vectors -/
section harmonicW
variable {K : Type} [Field K] [LinearOrder K] [IsStrictOrderedRing K]

/-- **`1/w = 1/w_image + 1/w_ref`** on pairs where both weights are positive, `w = 0` elsewhere -/
theorem harmonic (a b : K) :
    (0 < a → 0 < b → 1 / TW.harmonic a b = 1 / a + 1 / b) ∧
    (¬ (0 < a ∧ 0 < b) → TW.harmonic a b = 0) := by
  refine ⟨fun ha hb => ?_, harmonic_of_not_pos a b⟩
  rw [harmonic_of_pos a b ha hb]
  have : a + b ≠ 0 := by positivity
  field_simp
  ring

/-- the three single-shot fitters combine two weight vectors exactly by `harmonic`, pair by pair -/
theorem fitters_use_harmonic [HasTrig K] (eps epsD : K) (o : List (Obs K)) (a b : List K) (scale : Option K) :
    fitShifts o (some a) (some b) = fitShifts o (some (List.zipWith TW.harmonic a b)) none ∧
    fitGeneral eps epsD o (some a) (some b)
      = fitGeneral eps epsD o (some (List.zipWith TW.harmonic a b)) none ∧
    fitRscale o (some a) (some b) scale = fitRscale o (some (List.zipWith TW.harmonic a b)) none scale :=
  ⟨rfl, rfl, rfl⟩

theorem wmask_harmonic (n : Nat) (a b : List K) (ha : a.length = n) (hb : b.length = n) :
    wmaskOf n (some a) (some b) = wmaskOf n (some (List.zipWith TW.harmonic a b)) none := by
  apply List.ext_getElem?
  intro i
  simp only [wmaskOf, posMask, List.getElem?_zipWith, List.getElem?_replicate]
  by_cases hi : i < n
  · have h1 : a[i]? = some a[i] := List.getElem?_eq_getElem (by omega)
    have h2 : b[i]? = some b[i] := List.getElem?_eq_getElem (by omega)
    simp only [hi, if_true, h1, h2]
    have := harmonic_pos_iff a[i] b[i]
    by_cases hA : zeroK < a[i] <;> by_cases hB : zeroK < b[i] <;> simp_all
  · simp [hi]

/-- **both weight vectors = one explicit harmonic weight vector.**  Calling `iter_linear_fit` with
`wxy` and `wuv` gives exactly the answer of calling it with the single weight vector
`w_k = harmonic(wxy_k, wuv_k)` (and therefore the same history), for every fitter that combines
its two weight vectors by `harmonic` (all three do: `fitters_use_harmonic`). -/
theorem harmonic_explicit (single : Single K) (nrm : Bool) (m : Metric K) (minobj : Nat)
    (hs : ∀ o a b, single o (some a) (some b) = single o (some (List.zipWith TW.harmonic a b)) none)
    (obs : List (Obs K)) (a b : List K) (center : Option (K × K)) (nclip : Option Int)
    (sigma : Option (K × String)) (accum : Bool) (ha : a.length = obs.length) (hb : b.length = obs.length) :
    iterLinearFitWith single nrm m minobj obs (some a) (some b) center nclip sigma accum
      = iterLinearFitWith single nrm m minobj obs (some (List.zipWith TW.harmonic a b)) none center nclip
          sigma accum := by
  have hfit : ∀ (o : List (Obs K)),
      fitOn single nrm m o (some a) (some b) = fitOn single nrm m o (some (List.zipWith TW.harmonic a b)) none := by
    intro o
    funext mask
    unfold fitOn
    simp only [Option.map_some, Option.map_none, select_zipWith, hs, statWeights, combineW]
  have hcfg : ∀ (p : ClipPar K) (o : List (Obs K)),
      mkCfg single nrm m minobj accum p o (some a) (some b)
        = mkCfg single nrm m minobj accum p o (some (List.zipWith TW.harmonic a b)) none := by
    intro p o
    unfold mkCfg
    rw [hfit o]
  have hsetup : setup minobj obs (some a) (some b) center nclip sigma
      = setup minobj obs (some (List.zipWith TW.harmonic a b)) none center nclip sigma := by
    unfold setup
    rw [wmask_harmonic obs.length a b ha hb]
    simp [lenOk, ha, hb]
  unfold iterLinearFitWith
  rw [hsetup]
  simp only [hcfg]

end harmonicW

/-! ## The `'weight'` columns reach the pairs they belong to -/
section plumbing
variable {α K : Type}

/-- **`create_group_catalog`**: the group catalog is the concatenation of the non-empty image
catalogs in order; the source `j` of the `i`-th non-empty image sits at group index
`offset_i + j` (`offset_i` = number of sources of the earlier images) and carries that image's
`j`-th weight; the group has a weight column iff the images have one. -/
theorem group_weights_follow_images (ims : List (ImCat α K)) (g : GroupCat α K)
    (hwf : ∀ im ∈ ims, ∀ w, im.weight = some w → w.length = im.rows.length)
    (h : createGroupCatalog ims = .ok g) :
    g.rows = (nonEmptyCats ims).flatMap (·.rows) ∧
    ∀ i im, (nonEmptyCats ims)[i]? = some im → ∀ j, j < im.rows.length →
      g.rows[groupOffset (nonEmptyCats ims) i + j]? = im.rows[j]? ∧
      (g.weight.isSome = im.weight.isSome) ∧
      (∀ W, g.weight = some W → ∃ wi, im.weight = some wi ∧
          W[groupOffset (nonEmptyCats ims) i + j]? = wi[j]?) := by
  unfold createGroupCatalog at h
  simp only at h
  split at h
  · next hne =>
    injection h with h
    subst h
    simp [hne]
  · next im0 rest hne =>
    split at h
    · next hall =>
      injection h with h
      subst h
      rw [hne]
      refine ⟨rfl, fun i im hi j hj => ?_⟩
      rw [← hne] at hi ⊢
      have hmem : im ∈ nonEmptyCats ims := List.mem_of_getElem? hi
      have hmem0 : im ∈ ims := (List.mem_filter.mp hmem).1
      have hsame : im.weight.isSome = im0.weight.isSome := by
        have := List.all_eq_true.mp hall im hmem
        simpa using this
      refine ⟨?_, ?_, ?_⟩
      · exact flatMap_index (fun x : ImCat α K => x.rows) (nonEmptyCats ims) i j im hi hj
      · cases h0 : im0.weight.isSome <;> simp [h0, hsame]
      · intro W hW
        cases h0 : im0.weight.isSome with
        | false => simp [h0] at hW
        | true =>
          simp only [h0, if_true, Option.some.injEq] at hW
          subst hW
          rw [h0] at hsame
          obtain ⟨wi, hwi⟩ := Option.isSome_iff_exists.mp hsame
          refine ⟨wi, hwi, ?_⟩
          have hlen : wi.length = im.rows.length := hwf im hmem0 wi hwi
          -- offsets counted in weights = offsets counted in rows
          have hoff : ((nonEmptyCats ims).take i).map (fun x => (x.weight.getD []).length)
              = ((nonEmptyCats ims).take i).map (fun x => x.rows.length) := by
            apply List.map_congr_left
            intro x hx
            have hxm : x ∈ nonEmptyCats ims := List.mem_of_mem_take hx
            have hx0 : x ∈ ims := (List.mem_filter.mp hxm).1
            have hxs : x.weight.isSome = true := by
              have := List.all_eq_true.mp hall x hxm
              rw [h0] at this
              simpa using this
            obtain ⟨wx, hwx⟩ := Option.isSome_iff_exists.mp hxs
            rw [hwx]
            exact hwf x hx0 wx hwx
          have := flatMap_index (fun x : ImCat α K => x.weight.getD []) (nonEmptyCats ims) i j im hi
            (by simp [hwi, hlen]; exact hj)
          rw [hoff] at this
          simpa [groupOffset, hwi] using this
    · cases h

/-- **`fit2ref`**: pair `k` is (reference source `ref_idx[k]`, image source `input_idx[k]`); its
`xy` and `wxy` are the position and weight of that **reference** source, its `uv` and `wuv` the
position and weight of that **image** (group-catalog) source; a catalog without a weight column
contributes `None`. -/
theorem weights_follow_pairs (refXY : List (K × K)) (refW : Option (List K)) (imXY : List (K × K))
    (imW : Option (List K)) (refIdx inIdx : List Nat) (a : PairArgs K)
    (h : fit2refArgs refXY refW imXY imW refIdx inIdx = some a) :
    (a.xy.length = refIdx.length ∧ ∀ k, k < refIdx.length → a.xy[k]? = (refIdx[k]?).bind (refXY[·]?)) ∧
    (a.uv.length = inIdx.length ∧ ∀ k, k < inIdx.length → a.uv[k]? = (inIdx[k]?).bind (imXY[·]?)) ∧
    (refW = none → a.wxy = none) ∧
    (∀ w, refW = some w → ∃ wx, a.wxy = some wx ∧ wx.length = refIdx.length ∧
        ∀ k, k < refIdx.length → wx[k]? = (refIdx[k]?).bind (w[·]?)) ∧
    (imW = none → a.wuv = none) ∧
    (∀ w, imW = some w → ∃ wu, a.wuv = some wu ∧ wu.length = inIdx.length ∧
        ∀ k, k < inIdx.length → wu[k]? = (inIdx[k]?).bind (w[·]?)) := by
  unfold fit2refArgs at h
  split at h
  · next xy uv wxy wuv h1 h2 h3 h4 =>
    injection h with h
    subst h
    refine ⟨gather_spec _ _ _ h1, gather_spec _ _ _ h2, ?_, ?_, ?_, ?_⟩
    · intro hn; subst hn; simp [gatherOpt] at h3; exact h3.symm
    · intro w hw; subst hw
      simp only [gatherOpt, Option.map_eq_some_iff] at h3
      obtain ⟨wx, hg, rfl⟩ := h3
      exact ⟨wx, rfl, gather_spec _ _ _ hg⟩
    · intro hn; subst hn; simp [gatherOpt] at h4; exact h4.symm
    · intro w hw; subst hw
      simp only [gatherOpt, Option.map_eq_some_iff] at h4
      obtain ⟨wu, hg, rfl⟩ := h4
      exact ⟨wu, rfl, gather_spec _ _ _ hg⟩
  · cases h

/-- **end to end**: if pair `k` was matched to the `j`-th source of the `i`-th non-empty image of
the group, the weight `wuv[k]` handed to `iter_linear_fit` is that image's `j`-th weight. -/
theorem image_weight_reaches_pair (ims : List (ImCat (K × K) K)) (g : GroupCat (K × K) K)
    (hwf : ∀ im ∈ ims, ∀ w, im.weight = some w → w.length = im.rows.length)
    (hg : createGroupCatalog ims = .ok g)
    (refXY : List (K × K)) (refW : Option (List K)) (refIdx inIdx : List Nat) (a : PairArgs K)
    (h : fit2refArgs refXY refW g.rows g.weight refIdx inIdx = some a)
    (k i j : Nat) (im : ImCat (K × K) K) (wi : List K)
    (him : (nonEmptyCats ims)[i]? = some im) (hj : j < im.rows.length) (hw : im.weight = some wi)
    (hk : inIdx[k]? = some (groupOffset (nonEmptyCats ims) i + j)) :
    a.uv[k]? = im.rows[j]? ∧ ∃ wu, a.wuv = some wu ∧ wu[k]? = wi[j]? := by
  obtain ⟨_, hrows⟩ := group_weights_follow_images ims g hwf hg
  obtain ⟨hr, hsome, hW⟩ := hrows i im him j hj
  obtain ⟨_, ⟨_, huv⟩, _, _, _, hwuv⟩ := weights_follow_pairs refXY refW g.rows g.weight refIdx inIdx a h
  have hklt : k < inIdx.length := by
    by_contra hc
    have : inIdx[k]? = none := by simp at hc ⊢; exact hc
    rw [this] at hk; cases hk
  have hgw : g.weight.isSome = true := by rw [hsome, hw]; rfl
  obtain ⟨W, hWeq⟩ := Option.isSome_iff_exists.mp hgw
  obtain ⟨wi', hwi', hWj⟩ := hW W hWeq
  rw [hw] at hwi'
  injection hwi' with hwi'
  subst hwi'
  obtain ⟨wu, hwu, _, hwuk⟩ := hwuv W hWeq
  refine ⟨?_, wu, hwu, ?_⟩
  · rw [huv k hklt, hk]; simpa using hr
  · rw [hwuk k hklt, hk]; simpa using hWj

end plumbing

/-! ## Non-vacuity -/

-- two images (the second one empty is skipped, the third follows the first), weights 10,20 | 30
example :
    (match createGroupCatalog (α := Nat) (K := Nat)
        [⟨[1, 2], some [10, 20]⟩, ⟨[], none⟩, ⟨[3], some [30]⟩] with
     | .ok g => g.rows == [1, 2, 3] && g.weight == some [10, 20, 30]
     | .error _ => false) = true := by decide +kernel

-- mixed catalogs are refused
example :
    (match createGroupCatalog (α := Nat) (K := Nat) [⟨[1, 2], some [10, 20]⟩, ⟨[3], none⟩] with
     | .ok _ => false
     | .error e => e == .mixedWeights) = true := by decide +kernel

-- pairs matched in shuffled order pick up the weights of the sources they index
example :
    (match fit2refArgs (K := ℚ) [(0, 0), (1, 1), (2, 2)] (some [5, 6, 7]) [(10, 10), (11, 11)] (some [8, 9])
        [2, 0] [1, 0] with
     | some a => a.wxy == some [7, 5] && a.wuv == some [9, 8] && a.xy == [(2, 2), (0, 0)]
                 && a.uv == [(11, 11), (10, 10)]
     | none => false) = true := by decide +kernel

-- corrupting a zero-weight source changes nothing (shift fit on exact rationals, root-free metric)
example :
    (match iterLinearFitSq (K := ℚ) (1/1000000) (1/4503599627370496) .shift
            [⟨1, 0, 0, 0⟩, ⟨-1, 0, 0, 0⟩, ⟨0, 1, 0, 0⟩, ⟨5, 5, 0, 0⟩] (some [1, 1, 2, 0]) none none (some 2)
            (some 2) false,
           iterLinearFitSq (K := ℚ) (1/1000000) (1/4503599627370496) .shift
            [⟨1, 0, 0, 0⟩, ⟨-1, 0, 0, 0⟩, ⟨0, 1, 0, 0⟩, ⟨1000000000000, -7, 3, 4⟩] (some [1, 1, 2, 0]) none none
            (some 2) (some 2) false with
     | .ok r1, .ok r2 => r1.fitmask == r2.fitmask && r1.fitmask == [true, true, true, false]
                         && r1.lin.sx == r2.lin.sx && r1.lin.sy == r2.lin.sy && r1.lin.sy == 1/2
     | _, _ => false) = true := by decide +kernel

end TW.C09
