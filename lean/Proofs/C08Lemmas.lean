import Proofs.RscaleOpt
import Proofs.AffLemmas
import Proofs.GuardLemmas
import Model.Equiv
import Mathlib.Algebra.BigOperators.Group.List.Lemmas
import Mathlib.Algebra.BigOperators.Ring.List

/-!
Helper lemmas for C08 (equivariance of the fits): every list the fitters build from rows is a
`List.map` over the rows, every sum a `List.sum` of such a map; these sums are invariant under
`List.Perm`, homogeneous in the weights and (bi)linear in the coordinates.
-/
open TW
set_option linter.unusedSectionVars false

namespace TW
variable {K : Type} [Field K] [LinearOrder K] [IsStrictOrderedRing K]

/-! ### sums over rows -/

theorem sumL_map {α : Type} (l : List α) (g : α → K) : sumL (l.map g) = (l.map g).sum :=
  sumL_eq_sum _

theorem dotL_map_map {α : Type} (l : List α) (g f : α → K) :
    dotL (l.map g) (l.map f) = (l.map fun r => g r * f r).sum := by
  unfold dotL
  rw [sumL_eq_sum]
  congr 1
  induction l with
  | nil => rfl
  | cons a l ih => simp [ih]

theorem mulL_map_map {α : Type} (l : List α) (f g : α → K) :
    mulL (l.map f) (l.map g) = l.map fun r => f r * g r := by
  unfold mulL
  induction l with
  | nil => rfl
  | cons a l ih => simp [ih]

theorem replicate_eq_map {α β : Type} (l : List α) (c : β) :
    List.replicate l.length c = l.map fun _ => c := by
  induction l with
  | nil => rfl
  | cons a l ih => rw [List.length_cons, List.replicate_succ, ih]; rfl

theorem sum_map_const {α : Type} (l : List α) (c : K) : (l.map fun _ => c).sum = l.length * c := by
  induction l with
  | nil => simp
  | cons a l ih => simp only [List.map_cons, List.sum_cons, ih, List.length_cons]; push_cast; ring

theorem sum_map_mul_left' {α : Type} (l : List α) (c : K) (f : α → K) :
    (l.map fun r => c * f r).sum = c * (l.map f).sum := by
  induction l with
  | nil => simp
  | cons a l ih => simp [ih]; ring

/-- a pointwise linear combination of six summands sums to the combination of the sums -/
theorem sum_lin6 {α : Type} (l : List α) (F f1 f2 f3 f4 f5 f6 : α → K) (c1 c2 c3 c4 c5 c6 : K)
    (h : ∀ r, F r = c1 * f1 r + c2 * f2 r + c3 * f3 r + c4 * f4 r + c5 * f5 r + c6 * f6 r) :
    (l.map F).sum = c1 * (l.map f1).sum + c2 * (l.map f2).sum + c3 * (l.map f3).sum
      + c4 * (l.map f4).sum + c5 * (l.map f5).sum + c6 * (l.map f6).sum := by
  induction l with
  | nil => simp
  | cons a l ih => simp only [List.map_cons, List.sum_cons, ih, h a]; ring

theorem sum_lin4 {α : Type} (l : List α) (F f1 f2 f3 f4 : α → K) (c1 c2 c3 c4 : K)
    (h : ∀ r, F r = c1 * f1 r + c2 * f2 r + c3 * f3 r + c4 * f4 r) :
    (l.map F).sum = c1 * (l.map f1).sum + c2 * (l.map f2).sum + c3 * (l.map f3).sum
      + c4 * (l.map f4).sum := by
  induction l with
  | nil => simp
  | cons a l ih => simp only [List.map_cons, List.sum_cons, ih, h a]; ring

theorem sum_lin3 {α : Type} (l : List α) (F f1 f2 f3 : α → K) (c1 c2 c3 : K)
    (h : ∀ r, F r = c1 * f1 r + c2 * f2 r + c3 * f3 r) :
    (l.map F).sum = c1 * (l.map f1).sum + c2 * (l.map f2).sum + c3 * (l.map f3).sum := by
  induction l with
  | nil => simp
  | cons a l ih => simp only [List.map_cons, List.sum_cons, ih, h a]; ring

theorem sum_map_congr {α : Type} (l : List α) (f g : α → K) (h : ∀ r ∈ l, f r = g r) :
    (l.map f).sum = (l.map g).sum := by
  rw [List.map_congr_left h]

theorem perm_sum_map {α : Type} {l l' : List α} (h : l.Perm l') (f : α → K) :
    (l'.map f).sum = (l.map f).sum := (h.map f).sum_eq.symm

/-! ### the weight of a row -/

/-- the weight `combineW` gives a row: both arrays → harmonic, one array → that array -/
def wsel (bx bu : Bool) (r : Row K) : K :=
  match bx, bu with
  | true, true => harmonic r.wx r.wu
  | true, false => r.wx
  | false, true => r.wu
  | false, false => 1

theorem combineW_rows (bx bu : Bool) (rows : List (Row K)) :
    combineW (rowsWxy bx rows) (rowsWuv bu rows) = optW (bx || bu) (rows.map (wsel bx bu)) := by
  cases bx <;> cases bu <;> simp [rowsWxy, rowsWuv, optW, combineW, wsel, List.zipWith_map_left,
    List.zipWith_map_right, List.zipWith_self]

theorem anyNeg_map {α : Type} (l : List α) (g : α → K) :
    anyNeg (l.map g) = l.any fun r => decide (g r < 0) := by
  unfold anyNeg; simp [List.any_map, Function.comp_def]

theorem countPos_map {α : Type} (l : List α) (g : α → K) :
    countPos (l.map g) = (l.filter fun r => decide (0 < g r)).length := by
  unfold countPos
  simp [List.filter_map, Function.comp_def]

theorem perm_anyNeg {α : Type} {l l' : List α} (h : l.Perm l') (g : α → K) :
    anyNeg (l'.map g) = anyNeg (l.map g) := by
  rw [anyNeg_map, anyNeg_map]; exact (h.any_eq).symm

theorem perm_countPos {α : Type} {l l' : List α} (h : l.Perm l') (g : α → K) :
    countPos (l'.map g) = countPos (l.map g) := by
  rw [countPos_map, countPos_map]; exact ((h.filter _).length_eq).symm

/-- non-negative weights with at least one positive entry have a positive sum -/
theorem sum_pos_of_weights (ws : List K) (hneg : anyNeg ws = false) (hpos : countPos ws ≠ 0) :
    0 < ws.sum := by
  have hnn := anyNeg_false hneg
  induction ws with
  | nil => simp [countPos] at hpos
  | cons w ws ih =>
    have hw : 0 ≤ w := hnn w (by simp)
    have hrest : ∀ x ∈ ws, 0 ≤ x := fun x hx => hnn x (by simp [hx])
    have hs : 0 ≤ ws.sum := List.sum_nonneg hrest
    rw [List.sum_cons]
    by_cases hw0 : 0 < w
    · linarith
    · have hneg' : anyNeg ws = false := by
        unfold anyNeg at hneg ⊢
        simp only [List.any_cons, Bool.or_eq_false_iff] at hneg
        exact hneg.2
      have hpos' : countPos ws ≠ 0 := by
        unfold countPos at hpos ⊢
        simp only [List.filter_cons, zeroK_eq, hw0, decide_false] at hpos
        simpa using hpos
      have := ih hneg' hpos' hrest
      linarith

end TW

namespace TW
variable {K : Type} [Field K] [LinearOrder K] [IsStrictOrderedRing K]

/-! ### row form of the three fitters -/

/-- normalised weight of a row: `w/Σw`, or `1/n` when no weights are passed -/
def gnorm (bx bu : Bool) (rows : List (Row K)) (r : Row K) : K :=
  if (bx || bu) = true then wsel bx bu r / (rows.map (wsel bx bu)).sum else 1 / (rows.length : K)

theorem normW_rows (bx bu : Bool) (rows : List (Row K)) :
    normW (rowsObs rows).length (combineW (rowsWxy bx rows) (rowsWuv bu rows))
      = rows.map (gnorm bx bu rows) := by
  rw [combineW_rows]
  unfold gnorm
  cases h : (bx || bu)
  · simp only [optW, normW, rowsObs, List.length_map, oneK_eq, Bool.false_eq_true, if_false]
    exact replicate_eq_map rows _
  · simp only [optW, normW, if_true, List.map_map, sumL_map, Function.comp_def]

/-- the weights are acceptable for a fit needing `k` points -/
def weightsBad (k : Nat) (bx bu : Bool) (rows : List (Row K)) : Bool :=
  (bx || bu) && (anyNeg (rows.map (wsel bx bu)) || decide (countPos (rows.map (wsel bx bu)) < k))

/-- the value `fit_shifts` returns with normalised weights `gn` -/
def shiftVal (gn : Row K → K) (rows : List (Row K)) : Lin K :=
  ⟨1, 0, 0, 1, (rows.map fun r => gn r * (r.o.x - r.o.u)).sum,
   (rows.map fun r => gn r * (r.o.y - r.o.v)).sum⟩

theorem fitShiftsR_eq (bx bu : Bool) (rows : List (Row K)) :
    fitShiftsR bx bu rows =
      if rows.length = 0 then .error .notEnoughPoints
      else if weightsBad 1 bx bu rows = true then .error .badWeights
      else .ok (shiftVal (gnorm bx bu rows) rows) := by
  unfold fitShiftsR fitShifts
  have hn := normW_rows bx bu rows
  rw [combineW_rows] at hn ⊢
  unfold weightsBad shiftVal
  by_cases h0 : rows.length = 0
  · simp [rowsObs, h0]
  simp only [rowsObs, List.length_map, h0, if_false] at hn ⊢
  cases h : (bx || bu)
  · simp only [h, optW, Bool.false_eq_true, if_false] at hn ⊢
    simp only [Bool.false_and, hn, zeroK_eq, oneK_eq, List.map_map,
      dotL_map_map, Function.comp_def, Bool.false_eq_true, if_false]
  · simp only [h, optW, if_true] at hn ⊢
    simp only [hn, zeroK_eq, oneK_eq, List.map_map, dotL_map_map, Function.comp_def, Bool.true_and,
      Bool.or_eq_true, decide_eq_true_eq, Nat.lt_one_iff]
    by_cases ha : anyNeg (rows.map (wsel bx bu)) = true
    · simp [ha]
    · by_cases hc : countPos (rows.map (wsel bx bu)) = 0
      · simp [ha, hc]
      · simp [ha, hc]

end TW

namespace TW
variable {K : Type} [Field K] [LinearOrder K] [IsStrictOrderedRing K]

/-- the twelve sums of `fit_general` over rows with weight `g` -/
def gsumsRow (g : Row K → K) (rows : List (Row K)) : GSums K :=
  { sw := (rows.map g).sum
    sx := (rows.map fun r => g r * r.o.x).sum, sy := (rows.map fun r => g r * r.o.y).sum
    su := (rows.map fun r => g r * r.o.u).sum, sv := (rows.map fun r => g r * r.o.v).sum
    sxu := (rows.map fun r => g r * (r.o.x * r.o.u)).sum
    syu := (rows.map fun r => g r * (r.o.y * r.o.u)).sum
    sxv := (rows.map fun r => g r * (r.o.x * r.o.v)).sum
    syv := (rows.map fun r => g r * (r.o.y * r.o.v)).sum
    suu := (rows.map fun r => g r * (r.o.u * r.o.u)).sum
    svv := (rows.map fun r => g r * (r.o.v * r.o.v)).sum
    suv := (rows.map fun r => g r * (r.o.u * r.o.v)).sum }

theorem gsums_rows (g : Row K → K) (rows : List (Row K)) :
    gsums (rows.map g) (rowsObs rows) = gsumsRow g rows := by
  unfold gsums gsumsRow rowsObs
  simp only [List.map_map, mulL_map_map, dotL_map_map, sumL_map, Function.comp_def]

theorem generalW_rows (bx bu : Bool) (rows : List (Row K)) :
    generalW (rowsObs rows) (rowsWxy bx rows) (rowsWuv bu rows) = rows.map (wsel bx bu) := by
  unfold generalW
  rw [combineW_rows]
  cases bx <;> cases bu <;> simp [optW, rowsObs]
  exact replicate_eq_map rows _

theorem generalBad_rows (bx bu : Bool) (rows : List (Row K)) :
    generalBad (rowsWxy bx rows) (rowsWuv bu rows) = weightsBad 3 bx bu rows := by
  unfold generalBad weightsBad
  rw [combineW_rows]
  cases h : (bx || bu) <;> simp [optW]

/-- the second central moments of the `uv` points over rows with weight `g` -/
def cmomRow (g : Row K → K) (rows : List (Row K)) : UVMom K :=
  let um := (rows.map fun r => g r * r.o.u).sum / (rows.map g).sum
  let vm := (rows.map fun r => g r * r.o.v).sum / (rows.map g).sum
  { cuu := (rows.map fun r => g r * ((r.o.u - um) * (r.o.u - um))).sum
    cvv := (rows.map fun r => g r * ((r.o.v - vm) * (r.o.v - vm))).sum
    cuv := (rows.map fun r => g r * ((r.o.u - um) * (r.o.v - vm))).sum }

theorem cmoments_rows (g : Row K → K) (rows : List (Row K)) :
    cmoments (rows.map g) (rowsObs rows) (gsumsRow g rows) = cmomRow g rows := by
  unfold cmoments cmomRow gsumsRow rowsObs
  simp only [List.map_map, mulL_map_map, dotL_map_map, Function.comp_def]

theorem generalGuardR_eq (epsD : K) (bx bu : Bool) (rows : List (Row K)) :
    generalGuardR epsD bx bu rows = collinearGuard epsD (cmomRow (wsel bx bu) rows) := by
  unfold generalGuardR generalGuard
  rw [generalW_rows, gsums_rows, cmoments_rows]

theorem fitGeneralR_eq (eps epsD : K) (bx bu : Bool) (rows : List (Row K)) :
    fitGeneralR eps epsD bx bu rows =
      if rows.length < 3 then .error .notEnoughPoints
      else if weightsBad 3 bx bu rows = true then .error .badWeights
      else if generalGuardR epsD bx bu rows = true then .error .singular
      else gsolve eps (gsumsRow (wsel bx bu) rows) := by
  unfold fitGeneralR fitGeneral generalGuardR
  rw [generalBad_rows, generalW_rows, gsums_rows]
  simp [rowsObs]

/-- weight of a row in the second moments of `fit_rscale`: `w/Σw`, or `1` when unweighted -/
def gmom (bx bu : Bool) (rows : List (Row K)) (r : Row K) : K :=
  if (bx || bu) = true then wsel bx bu r / (rows.map (wsel bx bu)).sum else 1

theorem rscaleWmom_rows (bx bu : Bool) (rows : List (Row K)) :
    rscaleWmom (rowsObs rows) (rowsWxy bx rows) (rowsWuv bu rows) = rows.map (gmom bx bu rows) := by
  unfold rscaleWmom gmom
  rw [combineW_rows]
  cases h : (bx || bu)
  · simp only [optW, rowsObs, List.length_map, oneK_eq, Bool.false_eq_true, if_false]
    exact replicate_eq_map rows _
  · simp only [optW, if_true, List.map_map, sumL_map, Function.comp_def]

/-- the moments of `fit_rscale` over rows: means with weights `gm`, second moments with `gq` -/
def rsumsRow (gm gq : Row K → K) (rows : List (Row K)) : RSums K :=
  let xm := (rows.map fun r => gm r * r.o.x).sum
  let ym := (rows.map fun r => gm r * r.o.y).sum
  let um := (rows.map fun r => gm r * r.o.u).sum
  let vm := (rows.map fun r => gm r * r.o.v).sum
  { xm := xm, ym := ym, um := um, vm := vm
    sxu := (rows.map fun r => gq r * ((r.o.x - xm) * (r.o.u - um))).sum
    sxv := (rows.map fun r => gq r * ((r.o.x - xm) * (r.o.v - vm))).sum
    syu := (rows.map fun r => gq r * ((r.o.y - ym) * (r.o.u - um))).sum
    syv := (rows.map fun r => gq r * ((r.o.y - ym) * (r.o.v - vm))).sum
    su2v2 := (rows.map fun r => gq r * ((r.o.u - um) * (r.o.u - um))).sum
      + (rows.map fun r => gq r * ((r.o.v - vm) * (r.o.v - vm))).sum }

theorem rsums_rows (gm gq : Row K → K) (rows : List (Row K)) :
    rsums (rows.map gm) (rows.map gq) (rowsObs rows) = rsumsRow gm gq rows := by
  unfold rsums rsumsRow rowsObs
  simp only [List.map_map, mulL_map_map, dotL_map_map, Function.comp_def]

theorem rsumsR_eq (bx bu : Bool) (rows : List (Row K)) :
    rsumsR bx bu rows = rsumsRow (gnorm bx bu rows) (gmom bx bu rows) rows := by
  unfold rsumsR
  rw [normW_rows, rscaleWmom_rows, rsums_rows]

theorem rscaleBad_rows (bx bu : Bool) (rows : List (Row K)) :
    rscaleBad (rowsWxy bx rows) (rowsWuv bu rows) = weightsBad 2 bx bu rows := by
  unfold rscaleBad weightsBad
  rw [combineW_rows]
  cases h : (bx || bu) <;> simp [optW]

/-- the `scale` argument is acceptable -/
def scaleOk (scale : Option K) : Bool :=
  match scale with
  | none => true
  | some sc => decide (0 < sc)

theorem fitRscaleR_eq [HasTrig K] (bx bu : Bool) (scale : Option K) (rows : List (Row K)) :
    fitRscaleR bx bu scale rows =
      if rows.length < 2 then .error .notEnoughPoints
      else if scaleOk scale = false then .error .badArg
      else if weightsBad 2 bx bu rows = true then .error .badWeights
      else rsolve scale (rsumsR bx bu rows) := by
  unfold fitRscaleR fitRscale
  rw [rscaleBad_rows]
  unfold rsumsR scaleOk
  cases scale <;> simp [rowsObs]

end TW

namespace TW
variable {K : Type} [Field K] [LinearOrder K] [IsStrictOrderedRing K]

/-! ### permutations of the rows -/

theorem perm_gnorm {rows rows' : List (Row K)} (h : rows.Perm rows') (bx bu : Bool) :
    gnorm bx bu rows' = gnorm bx bu rows := by
  funext r
  unfold gnorm
  rw [perm_sum_map h, h.length_eq]

theorem perm_gmom {rows rows' : List (Row K)} (h : rows.Perm rows') (bx bu : Bool) :
    gmom bx bu rows' = gmom bx bu rows := by
  funext r
  unfold gmom
  rw [perm_sum_map h]

theorem perm_weightsBad {rows rows' : List (Row K)} (h : rows.Perm rows') (k : Nat) (bx bu : Bool) :
    weightsBad k bx bu rows' = weightsBad k bx bu rows := by
  unfold weightsBad
  rw [perm_anyNeg h, perm_countPos h]

theorem perm_shiftVal {rows rows' : List (Row K)} (h : rows.Perm rows') (gn : Row K → K) :
    shiftVal gn rows' = shiftVal gn rows := by
  unfold shiftVal
  rw [perm_sum_map h, perm_sum_map h]

theorem perm_gsumsRow {rows rows' : List (Row K)} (h : rows.Perm rows') (g : Row K → K) :
    gsumsRow g rows' = gsumsRow g rows := by
  unfold gsumsRow
  simp only [perm_sum_map h]

theorem perm_cmomRow {rows rows' : List (Row K)} (h : rows.Perm rows') (g : Row K → K) :
    cmomRow g rows' = cmomRow g rows := by
  unfold cmomRow
  simp only [perm_sum_map h]

theorem perm_generalGuardR {rows rows' : List (Row K)} (h : rows.Perm rows') (epsD : K) (bx bu : Bool) :
    generalGuardR epsD bx bu rows' = generalGuardR epsD bx bu rows := by
  rw [generalGuardR_eq, generalGuardR_eq, perm_cmomRow h]

theorem perm_rsumsRow {rows rows' : List (Row K)} (h : rows.Perm rows') (gm gq : Row K → K) :
    rsumsRow gm gq rows' = rsumsRow gm gq rows := by
  unfold rsumsRow
  simp only [perm_sum_map h]

end TW

namespace TW
variable {K : Type} [Field K] [LinearOrder K] [IsStrictOrderedRing K]

/-! ### all weights times a positive constant -/

@[simp] theorem Row.scaleW_o (c : K) (r : Row K) : (r.scaleW c).o = r.o := rfl

theorem harmonic_scale (c : K) (hc : 0 < c) (a b : K) : harmonic (c * a) (c * b) = c * harmonic a b := by
  unfold harmonic
  simp only [zeroK_eq, mul_pos_iff_of_pos_left hc]
  split
  · next h =>
    have : a + b ≠ 0 := by linarith [h.1, h.2]
    have hc' : c ≠ 0 := ne_of_gt hc
    field_simp
  · simp

theorem wsel_scaleW (bx bu : Bool) (hb : (bx || bu) = true) (c : K) (hc : 0 < c) (r : Row K) :
    wsel bx bu (r.scaleW c) = c * wsel bx bu r := by
  cases bx <;> cases bu <;> simp_all [wsel, Row.scaleW, harmonic_scale]

theorem any_congr_mem {α : Type} (l : List α) (p q : α → Bool) (h : ∀ a ∈ l, p a = q a) :
    l.any p = l.any q := by
  induction l with
  | nil => rfl
  | cons a l ih =>
    simp only [List.any_cons]
    rw [h a (by simp), ih (fun b hb => h b (by simp [hb]))]

theorem anyNeg_scale {α : Type} (l : List α) (g g' : α → K) (c : K) (hc : 0 < c)
    (h : ∀ r ∈ l, g' r = c * g r) : anyNeg (l.map g') = anyNeg (l.map g) := by
  rw [anyNeg_map, anyNeg_map]
  apply any_congr_mem
  intro r hr
  rw [h r hr]
  simp only [decide_eq_decide]
  constructor
  · intro h'; by_contra hn; have hn := not_lt.mp hn; nlinarith
  · intro h'; nlinarith

theorem countPos_scale {α : Type} (l : List α) (g g' : α → K) (c : K) (hc : 0 < c)
    (h : ∀ r ∈ l, g' r = c * g r) : countPos (l.map g') = countPos (l.map g) := by
  rw [countPos_map, countPos_map]
  congr 1
  apply List.filter_congr
  intro r hr
  rw [h r hr]
  simp [mul_pos_iff_of_pos_left hc]

end TW

namespace TW
variable {K : Type} [Field K] [LinearOrder K] [IsStrictOrderedRing K]

/-! ### weighted sums of a function of the pair -/

/-- `Σ_r w(r) · P(pair of r)` -/
def wsumO (rows : List (Row K)) (w : Row K → K) (P : Obs K → K) : K :=
  (rows.map fun r => w r * P r.o).sum

/-- rows mapped by `T`, which acts on the pair by `f` and on the weight function by `w' ∘ T = w` -/
theorem wsumO_map (T : Row K → Row K) (f : Obs K → Obs K) (hT : ∀ r, (T r).o = f r.o)
    (rows : List (Row K)) (w w' : Row K → K) (hw : ∀ r ∈ rows, w' (T r) = w r) (P : Obs K → K) :
    wsumO (rows.map T) w' P = wsumO rows w (fun o => P (f o)) := by
  unfold wsumO
  rw [List.map_map]
  exact sum_map_congr rows _ _ (fun r hr => by simp only [Function.comp_def, hT, hw r hr])

theorem wsumO_perm {rows rows' : List (Row K)} (h : rows.Perm rows') (w : Row K → K) (P : Obs K → K) :
    wsumO rows' w P = wsumO rows w P := perm_sum_map h _

theorem wsumO_lin2 (rows : List (Row K)) (w : Row K → K) (P Q : Obs K → K) (a b c : K) :
    wsumO rows w (fun o => a * P o + b * Q o + c)
      = a * wsumO rows w P + b * wsumO rows w Q + c * (rows.map w).sum := by
  unfold wsumO
  exact sum_lin3 rows _ _ _ _ a b c (fun r => by ring)

theorem wsumO_bilin (rows : List (Row K)) (w : Row K → K) (X Y U V : Obs K → K) (a b c d : K) :
    wsumO rows w (fun o => (a * X o + b * Y o) * (c * U o + d * V o))
      = a * c * wsumO rows w (fun o => X o * U o) + a * d * wsumO rows w (fun o => X o * V o)
        + b * c * wsumO rows w (fun o => Y o * U o) + b * d * wsumO rows w (fun o => Y o * V o) := by
  unfold wsumO
  exact sum_lin4 rows _ _ _ _ _ _ _ _ _ (fun r => by ring)

theorem wsumO_congr (rows : List (Row K)) (w w' : Row K → K) (P P' : Obs K → K)
    (h : ∀ r ∈ rows, w' r * P' r.o = w r * P r.o) : wsumO rows w' P' = wsumO rows w P := by
  unfold wsumO
  exact sum_map_congr rows _ _ h

theorem rsumsRow_wsumO (gm gq : Row K → K) (rows : List (Row K)) :
    rsumsRow gm gq rows =
      { xm := wsumO rows gm (·.x), ym := wsumO rows gm (·.y)
        um := wsumO rows gm (·.u), vm := wsumO rows gm (·.v)
        sxu := wsumO rows gq fun o => (o.x - wsumO rows gm (·.x)) * (o.u - wsumO rows gm (·.u))
        sxv := wsumO rows gq fun o => (o.x - wsumO rows gm (·.x)) * (o.v - wsumO rows gm (·.v))
        syu := wsumO rows gq fun o => (o.y - wsumO rows gm (·.y)) * (o.u - wsumO rows gm (·.u))
        syv := wsumO rows gq fun o => (o.y - wsumO rows gm (·.y)) * (o.v - wsumO rows gm (·.v))
        su2v2 := (wsumO rows gq fun o => (o.u - wsumO rows gm (·.u)) * (o.u - wsumO rows gm (·.u)))
          + wsumO rows gq fun o => (o.v - wsumO rows gm (·.v)) * (o.v - wsumO rows gm (·.v)) } := rfl

theorem shiftVal_wsumO (gn : Row K → K) (rows : List (Row K)) :
    shiftVal gn rows = ⟨1, 0, 0, 1, wsumO rows gn (fun o => o.x - o.u), wsumO rows gn (fun o => o.y - o.v)⟩ :=
  rfl

/-- re-weighting by one positive constant multiplies the three central moments by it (the
weighted means are unchanged): the collinearity guard gives the same answer -/
theorem collinearGuard_reweight (T : Row K → Row K) (hT : ∀ r, (T r).o = r.o) (g g' : Row K → K)
    (rows : List (Row K)) (c : K) (hc : 0 < c) (hg : ∀ r ∈ rows, g' (T r) = c * g r) (epsD : K) :
    collinearGuard epsD (cmomRow g' (rows.map T)) = collinearGuard epsD (cmomRow g rows) := by
  have hs : ∀ P : Row K → K, ((rows.map T).map fun r => g' r * P r).sum
      = c * (rows.map fun r => g r * P (T r)).sum := by
    intro P
    rw [List.map_map, ← sum_map_mul_left']
    exact sum_map_congr rows _ _ (fun r hr => by simp only [Function.comp_def, hg r hr]; ring)
  have hsum : ((rows.map T).map g').sum = c * (rows.map g).sum := by
    rw [List.map_map, ← sum_map_mul_left']
    exact sum_map_congr rows _ _ hg
  have hcne : c ≠ 0 := ne_of_gt hc
  have hum : ((rows.map T).map fun r => g' r * r.o.u).sum / ((rows.map T).map g').sum
      = (rows.map fun r => g r * r.o.u).sum / (rows.map g).sum := by
    rw [hs (fun r => r.o.u), hsum]
    simp only [hT]
    exact mul_div_mul_left _ _ hcne
  have hvm : ((rows.map T).map fun r => g' r * r.o.v).sum / ((rows.map T).map g').sum
      = (rows.map fun r => g r * r.o.v).sum / (rows.map g).sum := by
    rw [hs (fun r => r.o.v), hsum]
    simp only [hT]
    exact mul_div_mul_left _ _ hcne
  apply collinearGuard_smul epsD c hc
  · simp only [cmomRow, hum, hvm]
    rw [hs (fun r => (r.o.u - _) * (r.o.u - _))]
    simp only [hT]
  · simp only [cmomRow, hum, hvm]
    rw [hs (fun r => (r.o.v - _) * (r.o.v - _))]
    simp only [hT]
  · simp only [cmomRow, hum, hvm]
    rw [hs (fun r => (r.o.u - _) * (r.o.v - _))]
    simp only [hT]

/-! ### re-weighting: a map `T` of the rows that keeps the pairs and multiplies the selected
weight by a positive constant -/

section reweight
variable (T : Row K → Row K) (hT : ∀ r, (T r).o = r.o) (bx bu : Bool) (rows : List (Row K))
  (c : K) (hc : 0 < c) (hg : ∀ r ∈ rows, wsel bx bu (T r) = c * wsel bx bu r)
include hc hg

theorem reweight_sum : ((rows.map T).map (wsel bx bu)).sum = c * (rows.map (wsel bx bu)).sum := by
  rw [List.map_map, ← sum_map_mul_left']
  exact sum_map_congr rows _ _ hg

theorem reweight_weightsBad (k : Nat) : weightsBad k bx bu (rows.map T) = weightsBad k bx bu rows := by
  unfold weightsBad
  rw [List.map_map, anyNeg_scale rows (wsel bx bu) (wsel bx bu ∘ T) c hc hg,
    countPos_scale rows (wsel bx bu) (wsel bx bu ∘ T) c hc hg]

theorem reweight_gnorm : ∀ r ∈ rows, gnorm bx bu (rows.map T) (T r) = gnorm bx bu rows r := by
  intro r hr
  unfold gnorm
  rw [reweight_sum T bx bu rows c hc hg, hg r hr, List.length_map,
    mul_div_mul_left _ _ (ne_of_gt hc)]

theorem reweight_gmom : ∀ r ∈ rows, gmom bx bu (rows.map T) (T r) = gmom bx bu rows r := by
  intro r hr
  unfold gmom
  rw [reweight_sum T bx bu rows c hc hg, hg r hr, mul_div_mul_left _ _ (ne_of_gt hc)]

include hT

theorem reweight_generalGuardR (epsD : K) :
    generalGuardR epsD bx bu (rows.map T) = generalGuardR epsD bx bu rows := by
  rw [generalGuardR_eq, generalGuardR_eq]
  exact collinearGuard_reweight T hT (wsel bx bu) (wsel bx bu) rows c hc hg epsD

theorem reweight_shiftVal :
    shiftVal (gnorm bx bu (rows.map T)) (rows.map T) = shiftVal (gnorm bx bu rows) rows := by
  rw [shiftVal_wsumO, shiftVal_wsumO]
  simp only [wsumO_map T id hT rows _ _ (reweight_gnorm T bx bu rows c hc hg), id]

theorem reweight_rsumsRow :
    rsumsRow (gnorm bx bu (rows.map T)) (gmom bx bu (rows.map T)) (rows.map T)
      = rsumsRow (gnorm bx bu rows) (gmom bx bu rows) rows := by
  rw [rsumsRow_wsumO, rsumsRow_wsumO]
  simp only [wsumO_map T id hT rows _ _ (reweight_gnorm T bx bu rows c hc hg),
    wsumO_map T id hT rows _ _ (reweight_gmom T bx bu rows c hc hg), id]

end reweight

/-- scaling all weights by `c > 0` multiplies the weight of every row by one positive constant
(`c`, or `1` when no weight array is passed) -/
theorem wsel_scaleW' (bx bu : Bool) (c : K) (hc : 0 < c) :
    ∃ c' : K, 0 < c' ∧ ∀ r : Row K, wsel bx bu (r.scaleW c) = c' * wsel bx bu r := by
  cases h : (bx || bu)
  · refine ⟨1, one_pos, fun r => ?_⟩
    cases bx <;> cases bu <;> simp_all [wsel]
  · exact ⟨c, hc, fun r => wsel_scaleW bx bu h c hc r⟩

end TW

namespace TW
variable {K : Type} [Field K] [LinearOrder K] [IsStrictOrderedRing K]

/-! ### uniform weights -/

/-- constant weight arrays give every row the same positive weight -/
theorem wsel_uniform (bx bu : Bool) (rows : List (Row K)) (cx cu : K) (hcx : 0 < cx) (hcu : 0 < cu)
    (hx : bx = true → ∀ r ∈ rows, r.wx = cx) (hu : bu = true → ∀ r ∈ rows, r.wu = cu) :
    ∃ c : K, 0 < c ∧ ∀ r ∈ rows, wsel bx bu r = c := by
  cases bx <;> cases bu
  · exact ⟨1, one_pos, fun r _ => rfl⟩
  · exact ⟨cu, hcu, fun r hr => by simp [wsel, hu rfl r hr]⟩
  · exact ⟨cx, hcx, fun r hr => by simp [wsel, hx rfl r hr]⟩
  · refine ⟨cx * cu / (cx + cu), by positivity, fun r hr => ?_⟩
    simp [wsel, harmonic, hx rfl r hr, hu rfl r hr, hcx, hcu]

section uniform
variable (bx bu : Bool) (rows : List (Row K)) (c : K) (hc : 0 < c)
  (hg : ∀ r ∈ rows, wsel bx bu r = c)
include hc hg

theorem uniform_sum : (rows.map (wsel bx bu)).sum = rows.length * c := by
  rw [sum_map_congr rows _ (fun _ => c) hg, sum_map_const]

theorem uniform_weightsBad (k : Nat) (hk : ¬ rows.length < k) : weightsBad k bx bu rows = false := by
  unfold weightsBad
  have h1 : anyNeg (rows.map (wsel bx bu)) = false := by
    rw [anyNeg_map, List.any_eq_false]
    intro r hr
    rw [hg r hr]
    simpa using le_of_lt hc
  have h2 : countPos (rows.map (wsel bx bu)) = rows.length := by
    rw [countPos_map, List.filter_eq_self.mpr]
    intro r hr
    rw [hg r hr]
    simpa using hc
  rw [h1, h2]
  simp [hk]

theorem uniform_gnorm : ∀ r ∈ rows, gnorm bx bu rows r = 1 / (rows.length : K) := by
  intro r hr
  unfold gnorm
  split
  · rw [uniform_sum bx bu rows c hc hg, hg r hr]
    have hn : (rows.length : K) ≠ 0 := by
      have : rows.length ≠ 0 := by intro h0; rw [List.length_eq_zero_iff] at h0; simp [h0] at hr
      exact_mod_cast this
    field_simp
  · rfl

theorem uniform_gmom (hb : (bx || bu) = true) : ∀ r ∈ rows, gmom bx bu rows r = 1 / (rows.length : K) := by
  intro r hr
  unfold gmom
  rw [if_pos hb, uniform_sum bx bu rows c hc hg, hg r hr]
  have hn : (rows.length : K) ≠ 0 := by
    have : rows.length ≠ 0 := by intro h0; rw [List.length_eq_zero_iff] at h0; simp [h0] at hr
    exact_mod_cast this
  field_simp

/-- constant weights give the same answer of the collinearity guard as no weights -/
theorem uniform_generalGuardR (epsD : K) :
    generalGuardR epsD bx bu rows = generalGuardR epsD false false rows := by
  rw [generalGuardR_eq, generalGuardR_eq]
  have := collinearGuard_reweight id (fun _ => rfl) (wsel false false) (wsel bx bu) rows c hc
    (fun r hr => by rw [id, hg r hr]; simp [wsel]) epsD
  rw [List.map_id] at this
  exact this

theorem uniform_shiftVal :
    shiftVal (gnorm bx bu rows) rows = shiftVal (gnorm false false rows) rows := by
  rw [shiftVal_wsumO, shiftVal_wsumO]
  have e : ∀ P : Obs K → K, wsumO rows (gnorm bx bu rows) P = wsumO rows (gnorm false false rows) P :=
    fun P => wsumO_congr rows _ _ P P (fun r hr => by
      rw [uniform_gnorm bx bu rows c hc hg r hr]; simp [gnorm])
  simp only [e]

end uniform

end TW
