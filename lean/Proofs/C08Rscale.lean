import Proofs.C08Move

/-!
Helper lemmas for C08, `fit_rscale` / `fit_rshift`: what `rsolve` (angle, scale, reflection,
shift from the moments) does when the moments are transformed.
-/
open TW
set_option linter.unusedSectionVars false

namespace TW

section generic
variable {K : Type} [Field K] [LinearOrder K] [IsStrictOrderedRing K] [HasTrig K]

theorem RSums.move_trans (a b : V2 K) (s : RSums K) :
    RSums.move (Aff.trans a) (Aff.trans b) s
      = { s with xm := s.xm + a.x, ym := s.ym + a.y, um := s.um + b.x, vm := s.vm + b.y } := by
  cases s
  simp only [RSums.move, Aff.trans, M2.one, zeroK_eq, oneK_eq, RSums.mk.injEq]
  refine ⟨?_, ?_, ?_, ?_, ?_, ?_, ?_, ?_, ?_⟩ <;> ring

/-- translations only enter `rsolve` through the means: same matrix, shift changed by `a − F·b`
(any semantics of the trigonometric functions) -/
theorem rsolve_translate (scale : Option K) (a b : V2 K) (s : RSums K) :
    rsolve scale { s with xm := s.xm + a.x, ym := s.ym + a.y, um := s.um + b.x, vm := s.vm + b.y }
      = (rsolve scale s).map (Lin.transl a b) := by
  unfold rsolve
  simp only [zeroK_eq, oneK_eq]
  cases scale with
  | some sc =>
    simp only [Except.map, Lin.transl, Except.ok.injEq, Lin.mk.injEq, true_and]
    split <;> constructor <;> ring
  | none =>
    by_cases hD : 0 < s.su2v2
    · simp only [hD, if_true, Except.map, Lin.transl, Except.ok.injEq, Lin.mk.injEq, true_and]
      split <;> constructor <;> ring
    · simp only [hD, if_false, Except.map]

end generic

end TW

namespace TW

/-! ### real semantics of the angle -/

theorem isZeroK_scale (k x : ℝ) (hk : 0 < k) : isZeroK (k * x) = isZeroK x := by
  rw [Bool.eq_iff_iff, isZeroK_iff, isZeroK_iff]
  constructor
  · intro h; rcases mul_eq_zero.mp h with h | h
    · exact absurd h (ne_of_gt hk)
    · exact h
  · intro h; rw [h, mul_zero]

/-- the angle chosen by the code depends only on the direction of `(den, num)` -/
theorem rsTheta_scale (k num den : ℝ) (hk : 0 < k) : rsTheta (k * num) (k * den) = rsTheta num den := by
  unfold rsTheta
  rw [isZeroK_scale k num hk, isZeroK_scale k den hk]
  have harg : Complex.arg ⟨k * den, k * num⟩ = Complex.arg ⟨den, num⟩ := by
    have : (⟨k * den, k * num⟩ : ℂ) = (k : ℂ) * ⟨den, num⟩ := by
      apply Complex.ext <;> simp
    rw [this, Complex.arg_real_mul _ hk]
  show (if _ then _ else
      (if Complex.arg ⟨k * den, k * num⟩ * 180 / Real.pi < zeroK
        then Complex.arg ⟨k * den, k * num⟩ * 180 / Real.pi + ((360 : ℕ) : ℝ)
        else Complex.arg ⟨k * den, k * num⟩ * 180 / Real.pi)) = _
  rw [harg]
  rfl

/-- closed form of cosine and sine of the chosen angle, for any `r > 0` with `r² = den² + num²` -/
theorem cs_closed (num den r : ℝ) (hr : 0 < r) (hr2 : r * r = den * den + num * num) :
    HasTrig.cosdeg (rsTheta num den) = den / r ∧ HasTrig.sindeg (rsTheta num den) = num / r := by
  have hne : den ≠ 0 ∨ num ≠ 0 := by
    by_contra h
    have h' := not_or.mp h
    have h1 : den = 0 := not_not.mp h'.1
    have h2 : num = 0 := not_not.mp h'.2
    rw [h1, h2] at hr2
    nlinarith
  have hs : Real.sqrt (den * den + num * num) = r := by
    rw [← hr2]; exact Real.sqrt_mul_self (le_of_lt hr)
  have := cos_sin_rsTheta num den hne
  rw [hs] at this
  exact this

end TW

namespace TW

/-- the second moments multiplied by one positive constant (what distinguishes `w = 1/n` from the
unweighted branch of `fit_rscale`): same result -/
theorem rsolve_scale_moments (scale : Option ℝ) (k : ℝ) (hk : 0 < k) (s : RSums ℝ) :
    rsolve scale { s with sxu := k * s.sxu, sxv := k * s.sxv, syu := k * s.syu, syv := k * s.syv,
                          su2v2 := k * s.su2v2 } = rsolve scale s := by
  unfold rsolve
  simp only [zeroK_eq, oneK_eq]
  have hdet : (k * s.sxu * (k * s.syv) - k * s.sxv * (k * s.syu) < 0) ↔ (s.sxu * s.syv - s.sxv * s.syu < 0) := by
    have : k * s.sxu * (k * s.syv) - k * s.sxv * (k * s.syu) = (k * k) * (s.sxu * s.syv - s.sxv * s.syu) := by ring
    rw [this]
    constructor
    · intro h; by_contra hn; have hn := not_lt.mp hn; nlinarith [mul_pos hk hk]
    · intro h; nlinarith [mul_pos hk hk]
  have hD : (0 < k * s.su2v2) ↔ (0 < s.su2v2) := by
    constructor
    · intro h; by_contra hn; have hn := not_lt.mp hn; nlinarith
    · intro h; exact mul_pos hk h
  simp only [hdet, hD]
  have e1 : k * s.sxv + k * s.syu = k * (s.sxv + s.syu) := by ring
  have e2 : k * s.sxv - k * s.syu = k * (s.sxv - s.syu) := by ring
  have e3 : k * s.sxu - k * s.syv = k * (s.sxu - s.syv) := by ring
  have e4 : k * s.sxu + k * s.syv = k * (s.sxu + s.syv) := by ring
  by_cases hd : s.sxu * s.syv - s.sxv * s.syu < 0
  · simp only [hd, if_true, e1, e3, rsTheta_scale k _ _ hk]
    cases scale with
    | some sc => rfl
    | none =>
      by_cases h0 : 0 < s.su2v2
      · simp only [h0, if_true]
        have hk' : k ≠ 0 := ne_of_gt hk
        have : (k * (s.sxu - s.syv) * HasTrig.cosdeg (rsTheta (s.sxv + s.syu) (s.sxu - s.syv)) +
            k * (s.sxv + s.syu) * HasTrig.sindeg (rsTheta (s.sxv + s.syu) (s.sxu - s.syv))) / (k * s.su2v2)
            = ((s.sxu - s.syv) * HasTrig.cosdeg (rsTheta (s.sxv + s.syu) (s.sxu - s.syv)) +
            (s.sxv + s.syu) * HasTrig.sindeg (rsTheta (s.sxv + s.syu) (s.sxu - s.syv))) / s.su2v2 := by
          have h0' : s.su2v2 ≠ 0 := ne_of_gt h0
          field_simp
        rw [this]
      · simp only [h0, if_false]
  · simp only [hd, if_false, e2, e4, rsTheta_scale k _ _ hk]
    cases scale with
    | some sc => rfl
    | none =>
      by_cases h0 : 0 < s.su2v2
      · simp only [h0, if_true]
        have hk' : k ≠ 0 := ne_of_gt hk
        have : (k * (s.sxu + s.syv) * HasTrig.cosdeg (rsTheta (s.sxv - s.syu) (s.sxu + s.syv)) +
            k * (s.sxv - s.syu) * HasTrig.sindeg (rsTheta (s.sxv - s.syu) (s.sxu + s.syv))) / (k * s.su2v2)
            = ((s.sxu + s.syv) * HasTrig.cosdeg (rsTheta (s.sxv - s.syu) (s.sxu + s.syv)) +
            (s.sxv - s.syu) * HasTrig.sindeg (rsTheta (s.sxv - s.syu) (s.sxu + s.syv))) / s.su2v2 := by
          have h0' : s.su2v2 ≠ 0 := ne_of_gt h0
          field_simp
        rw [this]
      · simp only [h0, if_false]

end TW

namespace TW
section
variable {K : Type} [Field K] [LinearOrder K] [IsStrictOrderedRing K]

theorem wsumO_scale (rows : List (Row K)) (w w' : Row K → K) (k : K) (h : ∀ r ∈ rows, w' r = k * w r)
    (P : Obs K → K) : wsumO rows w' P = k * wsumO rows w P := by
  unfold wsumO
  rw [← sum_map_mul_left']
  exact sum_map_congr rows _ _ (fun r hr => by rw [h r hr]; ring)

/-- same mean weights, second-moment weights multiplied by `k` -/
theorem rsumsRow_congr_scale (rows : List (Row K)) (gm gm' gq gq' : Row K → K) (k : K)
    (hm : ∀ r ∈ rows, gm' r = gm r) (hq : ∀ r ∈ rows, gq' r = k * gq r) :
    rsumsRow gm' gq' rows =
      { rsumsRow gm gq rows with
        sxu := k * (rsumsRow gm gq rows).sxu, sxv := k * (rsumsRow gm gq rows).sxv
        syu := k * (rsumsRow gm gq rows).syu, syv := k * (rsumsRow gm gq rows).syv
        su2v2 := k * (rsumsRow gm gq rows).su2v2 } := by
  have em : ∀ P : Obs K → K, wsumO rows gm' P = wsumO rows gm P :=
    fun P => wsumO_congr rows _ _ P P (fun r hr => by rw [hm r hr])
  rw [rsumsRow_wsumO, rsumsRow_wsumO]
  simp only [em, wsumO_scale rows gq gq' k hq, RSums.mk.injEq, true_and]
  ring

end
end TW
