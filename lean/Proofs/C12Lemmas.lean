import Mathlib.Algebra.Order.Floor.Ring
import Mathlib.Algebra.Order.Field.Basic
import Mathlib.Algebra.BigOperators.Group.List.Basic
import Mathlib.Data.List.ProdSigma
import Mathlib.Tactic.Ring
import Mathlib.Tactic.Linarith
import Mathlib.Tactic.FieldSimp
import Mathlib.Tactic.Positivity
import Mathlib.Tactic.Push
import Model.Hist
import Proofs.InvLemmas
import Proofs.LeastSquares

/-!
Helper lemmas for property C12 (`Model/Hist.lean`): bin search, histogram entries, arg-max folds,
box arithmetic of `_find_peak`, weighted means.
-/
open TW
set_option linter.unusedSectionVars false
set_option linter.unusedVariables false
set_option linter.unusedSimpArgs false

namespace TW.Hist
variable {K : Type} [Field K] [LinearOrder K] [IsStrictOrderedRing K]

/-! ### scalars -/

@[simp] theorem twoK_eq : (twoK : K) = 2 := by simp [twoK]
@[simp] theorem fourK_eq : (fourK : K) = 4 := by simp [fourK]
@[simp] theorem halfK_eq : (halfK : K) = 1 / 2 := by simp [halfK]

@[simp] theorem ofInt_eq (i : Int) : (ofInt i : K) = (i : K) := by
  cases i with
  | ofNat n => simp [ofInt]
  | negSucc n => simp [ofInt, Int.negSucc_eq]

@[simp] theorem eqK_iff (a b : K) : eqK a b = true ↔ a = b := by
  unfold eqK
  simp only [Bool.and_eq_true, Bool.not_eq_true', decide_eq_false_iff_not, not_lt]
  constructor
  · rintro ⟨h1, h2⟩; exact le_antisymm h2 h1
  · rintro rfl; exact ⟨le_refl _, le_refl _⟩

@[simp] theorem leK_iff (a b : K) : leK a b = true ↔ a ≤ b := by
  simp [leK]

theorem eqK_false_iff (a b : K) : eqK a b = false ↔ a ≠ b := by
  rw [← Bool.not_eq_true, eqK_iff]

theorem leK_false_iff (a b : K) : leK a b = false ↔ b < a := by
  rw [← Bool.not_eq_true, leK_iff, not_le]

/-! ### the bin search -/

theorem binEdge_eq (R j : ℕ) : (binEdge R j : K) = (j : K) - (R : K) - 1 / 2 := by
  simp [binEdge]; ring

theorem inRange_iff (r d : K) : inRange r d = true ↔ (-r - 1 / 2 ≤ d ∧ d < r + 1 / 2) := by
  simp [inRange, and_comm]

/-- a downward closed predicate holds exactly below its count -/
theorem downclosed_below (p : ℕ → Bool) (hp : ∀ j, p (j + 1) = true → p j = true) :
    ∀ m j, j ≤ m → p m = true → p j = true := by
  intro m
  induction m with
  | zero => intro j hj h; have : j = 0 := by omega
            subst this; exact h
  | succ m ih =>
    intro j hj h
    rcases Nat.lt_or_ge j (m + 1) with hlt | hge
    · exact ih j (by omega) (hp m h)
    · have : j = m + 1 := by omega
      subst this; exact h

theorem count_downclosed (p : ℕ → Bool) (hp : ∀ j, p (j + 1) = true → p j = true) (m : ℕ) :
    ((List.range m).filter p).length ≤ m ∧
      ∀ j, j < m → (p j = true ↔ j < ((List.range m).filter p).length) := by
  induction m with
  | zero => simp
  | succ m ih =>
    obtain ⟨hle, ih⟩ := ih
    rw [List.range_succ, List.filter_append, List.length_append]
    by_cases hm : p m = true
    · have hall : ∀ j, j < m → p j = true := fun j hj => downclosed_below p hp m j (by omega) hm
      have hc : ((List.range m).filter p).length = m := by
        apply le_antisymm hle
        by_contra hlt
        push Not at hlt
        rcases Nat.eq_zero_or_pos m with h0 | hpos
        · omega
        · have := (ih (m - 1) (by omega)).mp (hall _ (by omega))
          have h2 := (ih ((List.range m).filter p).length hlt).mp (hall _ hlt)
          omega
      simp only [List.filter_cons, hm, List.filter_nil, if_true, List.length_cons, List.length_nil]
      refine ⟨by omega, fun j hj => ?_⟩
      rcases Nat.lt_or_ge j m with h | h
      · simp [hall j h]; omega
      · have : j = m := by omega
        subst this; simp [hm]; omega
    · simp only [List.filter_cons, hm, List.filter_nil, List.length_nil, Nat.add_zero]
      refine ⟨by simp; omega, fun j hj => ?_⟩
      simp only [Bool.false_eq_true, if_false, List.length_nil, Nat.add_zero]
      rcases Nat.lt_or_ge j m with h | h
      · exact ih j h
      · have : j = m := by omega
        subst this
        constructor
        · intro h'; exact absurd h' hm
        · intro h'; omega

/-- the bin returned for a value inside the histogram range is the unit bin that contains it -/
theorem binIdx_spec (R : ℕ) (d : K) (hlo : -(R : K) - 1 / 2 ≤ d) (hhi : d < (R : K) + 1 / 2) :
    ∃ k, binIdx R d = some k ∧ k ≤ 2 * R ∧
      (k : K) - (R : K) - 1 / 2 ≤ d ∧ d < (k : K) - (R : K) + 1 / 2 := by
  set p : ℕ → Bool := fun j => !decide (d < binEdge (K := K) R j) with hp
  have hp' : ∀ j, p j = true ↔ (j : K) - (R : K) - 1 / 2 ≤ d := by
    intro j; simp [hp, binEdge_eq]
  have hdc : ∀ j, p (j + 1) = true → p j = true := by
    intro j h
    rw [hp'] at h ⊢
    push_cast at h
    linarith
  obtain ⟨hle, hcnt⟩ := count_downclosed p hdc (2 * R + 2)
  have hc : countEdgesLE R d = ((List.range (2 * R + 2)).filter p).length := rfl
  set c := ((List.range (2 * R + 2)).filter p).length with hcdef
  have h0 : 0 < c := (hcnt 0 (by omega)).mp ((hp' 0).mpr (by push_cast; linarith))
  have hn : ¬ (2 * R + 1 < c) := by
    intro h
    have := (hcnt (2 * R + 1) (by omega)).mpr h
    rw [hp'] at this
    push_cast at this
    linarith
  have hedge : eqK d (binEdge R (2 * R + 1)) = false := by
    rw [eqK_false_iff, binEdge_eq]
    push_cast
    intro h; linarith
  refine ⟨c - 1, ?_, by omega, ?_, ?_⟩
  · unfold binIdx
    simp only [hc, hedge]
    rw [if_neg]
    · simp
    · simp only [Bool.false_eq_true, if_false]; omega
  · have := (hcnt (c - 1) (by omega)).mpr (by omega)
    rw [hp'] at this
    exact this
  · have hnot : ¬ (p c = true) := by
      intro h
      have := (hcnt c (by omega)).mp h
      omega
    rw [hp'] at hnot
    push Not at hnot
    have hcast : ((c - 1 : ℕ) : K) = (c : K) - 1 := by
      rw [Nat.cast_sub (by omega)]; simp
    rw [hcast]; linarith

/-! ### the histogram -/

theorem getD_map_range {α : Type} (f : ℕ → α) (n j : ℕ) (d : α) :
    ((List.range n).map f).getD j d = if j < n then f j else d := by
  rw [List.getD_eq_getElem?_getD, List.getElem?_map]
  by_cases hj : j < n
  · simp [List.getElem?_range hj, hj]
  · rw [List.getElem?_eq_none (by simp; omega)]; simp [hj]

theorem natAt_histOfBins (n : ℕ) (bins : List (ℕ × ℕ)) (j i : ℕ) :
    natAt (histOfBins n bins) j i = if j < n ∧ i < n then bins.count (i, j) else 0 := by
  unfold natAt histOfBins
  rw [getD_map_range]
  by_cases hj : j < n
  · simp only [hj, if_true, true_and]
    rw [getD_map_range]
    by_cases hi : i < n
    · simp only [hi, if_true]
      rw [List.countP_filter, List.count]
      apply List.countP_congr
      intro b hb
      rcases b with ⟨b1, b2⟩
      simp [Prod.ext_iff, and_comm]
    · simp [hi]
  · simp [hj]

theorem mem_allPos (n : ℕ) (p : ℕ × ℕ) : p ∈ allPos n ↔ p.1 < n ∧ p.2 < n := by
  unfold allPos
  simp only [List.mem_flatMap, List.mem_range, List.mem_map]
  constructor
  · rintro ⟨j, hj, i, hi, rfl⟩; exact ⟨hj, hi⟩
  · rintro ⟨h1, h2⟩; exact ⟨p.1, h1, p.2, h2, rfl⟩

theorem allPos_eq_product (n : ℕ) : allPos n = (List.range n) ×ˢ (List.range n) := rfl

theorem nodup_allPos (n : ℕ) : (allPos n).Nodup := by
  rw [allPos_eq_product]
  exact List.Nodup.product (List.nodup_range) (List.nodup_range)

/-- the fold of `argmaxNat`/`argmaxBy` returns a member of the list that is maximal -/
theorem foldmax_spec {α β : Type} [LinearOrder β] (val : α → β) (l : List α) (c : α) :
    let m := l.foldl (fun best p => if val best < val p then p else best) c
    (m = c ∨ m ∈ l) ∧ val c ≤ val m ∧ ∀ q ∈ l, val q ≤ val m := by
  induction l generalizing c with
  | nil => simp
  | cons a l ih =>
    simp only [List.foldl_cons]
    by_cases h : val c < val a
    · simp only [h, if_true]
      obtain ⟨h1, h2, h3⟩ := ih a
      refine ⟨?_, le_trans (le_of_lt h) h2, ?_⟩
      · rcases h1 with h1 | h1
        · right; rw [h1]; exact List.mem_cons_self
        · right; exact List.mem_cons_of_mem _ h1
      · intro q hq
        rcases List.mem_cons.mp hq with rfl | hq
        · exact h2
        · exact h3 q hq
    · simp only [h, if_false]
      obtain ⟨h1, h2, h3⟩ := ih c
      refine ⟨?_, h2, ?_⟩
      · rcases h1 with h1 | h1
        · left; exact h1
        · right; exact List.mem_cons_of_mem _ h1
      · intro q hq
        rcases List.mem_cons.mp hq with rfl | hq
        · exact le_trans (not_lt.mp h) h2
        · exact h3 q hq

/-- a histogram with exactly one non-zero bin: `count_nonzero` is 1 and `argmax` finds the bin -/
theorem single_nonzero (n : ℕ) (h : List (List ℕ)) (ky kx : ℕ) (hky : ky < n) (hkx : kx < n)
    (hnz : natAt h ky kx ≠ 0) (hun : ∀ j i, natAt h j i ≠ 0 → (j, i) = (ky, kx)) :
    countNonzero n h = 1 ∧ argmaxNat n h = (ky, kx) := by
  constructor
  · unfold countNonzero
    have : (allPos n).filter (fun p => natAt h p.1 p.2 != 0)
        = (allPos n).filter (fun p => p == (ky, kx)) := by
      apply List.filter_congr
      intro p hp
      by_cases hpe : p = (ky, kx)
      · subst hpe; simp [hnz]
      · have : natAt h p.1 p.2 = 0 := by
          by_contra hne
          exact hpe (hun p.1 p.2 hne)
        simp [this, hpe]
    rw [this, ← List.countP_eq_length_filter]
    have := List.count_eq_one_of_mem (nodup_allPos n) ((mem_allPos n (ky, kx)).mpr ⟨hky, hkx⟩)
    rw [List.count] at this
    convert this using 2
  · unfold argmaxNat
    obtain ⟨h1, h2, h3⟩ := foldmax_spec (fun p : ℕ × ℕ => natAt h p.1 p.2) (allPos n) (0, 0)
    simp only at h1 h2 h3
    have hmem : (ky, kx) ∈ allPos n := (mem_allPos n (ky, kx)).mpr ⟨hky, hkx⟩
    have := h3 (ky, kx) hmem
    beta_reduce at this
    apply hun
    intro h0
    rw [h0] at this
    dsimp only at this
    omega

/-- an all-zero histogram -/
theorem countNonzero_zero (n : ℕ) (h : List (List ℕ)) (hz : ∀ j i, natAt h j i = 0) :
    countNonzero n h = 0 := by
  unfold countNonzero
  simp [hz]

/-! ### the estimator -/

section est
variable [FloorRing K]

/-- `numpy.floor` / `numpy.ceil` of an ordered field with a floor (low priority: the model's own
instance is used on `ℚ`) -/
instance (priority := 50) instHasFloorOfFloorRing : HasFloor K := ⟨Int.floor, Int.ceil⟩

theorem ceilNat_eq (r : K) : ceilNat r = ⌈r⌉₊ := by
  unfold ceilNat
  exact Int.ceil_toNat r

theorem binToOffset_eq (searchrad pscale xp : K) (hr : 0 ≤ searchrad / pscale) :
    binToOffset searchrad pscale xp = pscale * (xp - (ceilNat (searchrad / pscale) : K)) := by
  unfold binToOffset
  rw [ofInt_eq, ceilNat_eq]
  have : ((⌈searchrad / pscale⌉₊ : ℤ) : K) = ((⌈searchrad / pscale⌉ : ℤ) : K) := by
    rw [Int.natCast_ceil_eq_ceil hr]
  show pscale * (xp - ((⌈searchrad / pscale⌉ : ℤ) : K)) = _
  rw [← this]
  simp

/-- the box test on scaled coordinates is the box test `−searchrad − pscale/2 ≤ Δ < searchrad + pscale/2`
on the unscaled difference -/
theorem inRange_scaled (pscale searchrad x y : K) (hp : 0 < pscale) :
    inRange (searchrad / pscale) (x / pscale - y / pscale) = true ↔
      (-searchrad - pscale / 2 ≤ x - y ∧ x - y < searchrad + pscale / 2) := by
  rw [inRange_iff, ← sub_div]
  constructor
  · rintro ⟨h1, h2⟩
    have e : x - y = (x - y) / pscale * pscale := by field_simp
    have es : searchrad = searchrad / pscale * pscale := by field_simp
    constructor
    · nlinarith [mul_le_mul_of_nonneg_right h1 (le_of_lt hp)]
    · nlinarith [mul_lt_mul_of_pos_right h2 hp]
  · rintro ⟨h1, h2⟩
    constructor
    · rw [le_div_iff₀ hp]
      have : (-(searchrad / pscale) - 1 / 2) * pscale = -searchrad - pscale / 2 := by field_simp
      linarith
    · rw [div_lt_iff₀ hp]
      have : (searchrad / pscale + 1 / 2) * pscale = searchrad + pscale / 2 := by field_simp
      linarith

theorem mem_pairBins (img ref : List (K × K)) (r : K) (R : ℕ) (b : ℕ × ℕ) :
    b ∈ pairBins img ref r R ↔ ∃ a ∈ img, ∃ c ∈ ref,
      inRange r (a.1 - c.1) = true ∧ inRange r (a.2 - c.2) = true ∧
      binIdx R (a.1 - c.1) = some b.1 ∧ binIdx R (a.2 - c.2) = some b.2 := by
  unfold pairBins
  simp only [List.mem_flatMap, List.mem_filterMap]
  constructor
  · rintro ⟨a, ha, c, hc, h⟩
    refine ⟨a, ha, c, hc, ?_⟩
    by_cases hin : (inRange r (a.1 - c.1) && inRange r (a.2 - c.2)) = true
    · rw [if_pos hin] at h
      rw [Bool.and_eq_true] at hin
      cases hx : binIdx R (a.1 - c.1) with
      | none => rw [hx] at h; simp at h
      | some kx =>
        cases hy : binIdx R (a.2 - c.2) with
        | none => rw [hx, hy] at h; simp at h
        | some ky =>
          rw [hx, hy] at h
          simp only [Option.some.injEq] at h
          subst h
          exact ⟨hin.1, hin.2, rfl, rfl⟩
    · rw [if_neg hin] at h; simp at h
  · rintro ⟨a, ha, c, hc, h1, h2, h3, h4⟩
    refine ⟨a, ha, c, hc, ?_⟩
    rw [if_pos (by rw [Bool.and_eq_true]; exact ⟨h1, h2⟩), h3, h4]

/-- no pair passes the box test: `(0, 0)` -/
theorem estimate_noPairs (lsq : Lsq K) (img ref : List (K × K)) (searchrad pscale : K)
    (h : pairBins (img.map fun a => (a.1 / pscale, a.2 / pscale))
          (ref.map fun b => (b.1 / pscale, b.2 / pscale)) (searchrad / pscale)
          (ceilNat (searchrad / pscale)) = []) :
    estimateShiftFull lsq img ref searchrad pscale = ⟨0, 0, .noPairs⟩ := by
  unfold estimateShiftFull xy2dhist
  simp only [h]
  rw [countNonzero_zero]
  · simp
  · intro j i
    rw [natAt_histOfBins]
    simp

/-- all pairs that pass the box test fall into one bin: the estimate is the offset of that bin -/
theorem estimate_single (lsq : Lsq K) (img ref : List (K × K)) (searchrad pscale : K) (kx ky : ℕ)
    (hkx : kx < 2 * ceilNat (searchrad / pscale) + 1) (hky : ky < 2 * ceilNat (searchrad / pscale) + 1)
    (hmem : (kx, ky) ∈ pairBins (img.map fun a => (a.1 / pscale, a.2 / pscale))
          (ref.map fun b => (b.1 / pscale, b.2 / pscale)) (searchrad / pscale)
          (ceilNat (searchrad / pscale)))
    (hall : ∀ b ∈ pairBins (img.map fun a => (a.1 / pscale, a.2 / pscale))
          (ref.map fun b => (b.1 / pscale, b.2 / pscale)) (searchrad / pscale)
          (ceilNat (searchrad / pscale)), b = (kx, ky)) :
    estimateShiftFull lsq img ref searchrad pscale =
      ⟨binToOffset searchrad pscale (kx : K), binToOffset searchrad pscale (ky : K), .single⟩ := by
  unfold estimateShiftFull xy2dhist
  simp only
  generalize pairBins (img.map fun a => (a.1 / pscale, a.2 / pscale))
          (ref.map fun b => (b.1 / pscale, b.2 / pscale)) (searchrad / pscale)
          (ceilNat (searchrad / pscale)) = bins at hmem hall ⊢
  generalize 2 * ceilNat (searchrad / pscale) + 1 = n at hkx hky ⊢
  have hs := single_nonzero n (histOfBins n bins) ky kx hky hkx
    (by rw [natAt_histOfBins]; simp only [hky, hkx, and_self, if_true]
        exact fun h0 => (List.count_eq_zero.mp h0) hmem)
    (by intro j i hne
        rw [natAt_histOfBins] at hne
        split at hne
        · have := hall (i, j) (by
            by_contra hnot
            exact hne (List.count_eq_zero.mpr hnot))
          simp only [Prod.mk.injEq] at this
          simp [this.1, this.2]
        · exact absurd rfl hne)
  rw [hs.1, hs.2]
  simp

end est

end TW.Hist
