import Proofs.C16Fwd

/-!
Helper lemmas for C16: what the two monotone-chain passes give, in list order, for a strictly
lexicographically sorted list `S`: `lower = chain S` ascends from the minimum to the maximum,
`upper = chain S.reverse` descends from the maximum to the minimum; both turn strictly left, are
made of points of `S` and have every point of `S` on or to the left of every edge.
-/
open TW
set_option linter.unusedSectionVars false

namespace TW
variable {K : Type} [Field K] [LinearOrder K] [IsStrictOrderedRing K]

/-- facts about the lower pass, in processing order -/
structure LowerFacts (S L : List (Pt K)) : Prop where
  asc : L.Pairwise lexlt
  turns : TurnsLeft L
  left : ∀ q ∈ S, AllLeft q L
  sub : ∀ s ∈ L, s ∈ S
  first : ∀ b, L.head? = some b → ∀ q ∈ S, q = b ∨ lexlt b q
  last : ∀ t, L.getLast? = some t → ∀ q ∈ S, q = t ∨ lexlt q t
  ne : S ≠ [] → L ≠ []

/-- facts about the upper pass, in processing order -/
structure UpperFacts (S U : List (Pt K)) : Prop where
  desc : U.Pairwise (fun x y => lexlt y x)
  turns : TurnsLeft U
  left : ∀ q ∈ S, AllLeft q U
  sub : ∀ s ∈ U, s ∈ S
  first : ∀ b, U.head? = some b → ∀ q ∈ S, q = b ∨ lexlt q b
  last : ∀ t, U.getLast? = some t → ∀ q ∈ S, q = t ∨ lexlt t q
  ne : S ≠ [] → U ≠ []

theorem lowerFacts_of_inv (S st : List (Pt K)) (h : ChainInv S st) : LowerFacts S st.reverse := by
  refine ⟨?_, turnsLeft_reverse st h.convex, fun q hq => allLeft_reverse q st (h.left q hq), ?_, ?_, ?_, ?_⟩
  · rw [List.pairwise_reverse]; exact h.desc
  · intro s hs; exact h.sub s (List.mem_reverse.mp hs)
  · intro b hb q hq
    rw [List.head?_reverse] at hb
    exact h.bot q hq b hb
  · intro t ht q hq
    rw [List.getLast?_reverse] at ht
    exact h.top q hq t ht
  · intro hne he
    exact h.ne hne (by simpa using he)

theorem lowerFacts (S : List (Pt K)) (hs : S.Pairwise lexlt) : LowerFacts S (chain S) :=
  lowerFacts_of_inv S _ (chain_inv S hs)

theorem upperFacts (S : List (Pt K)) (hs : S.Pairwise lexlt) : UpperFacts S (chain S.reverse) := by
  have hs' : (S.reverse.map neg).Pairwise lexlt := by
    rw [List.pairwise_map, List.pairwise_reverse]
    exact hs.imp (fun h => lexlt_neg.mpr h)
  have F := lowerFacts (S.reverse.map neg) hs'
  rw [chain_neg] at F
  set U := chain S.reverse
  have memS : ∀ q, q ∈ S → neg q ∈ S.reverse.map neg := fun q hq =>
    List.mem_map.mpr ⟨q, List.mem_reverse.mpr hq, rfl⟩
  refine ⟨?_, (TurnsLeft_neg U).mp F.turns, ?_, ?_, ?_, ?_, ?_⟩
  · have := F.asc
    rw [List.pairwise_map] at this
    exact this.imp (fun h => lexlt_neg.mp h)
  · intro q hq
    exact (AllLeft_neg q U).mp (F.left (neg q) (memS q hq))
  · intro s hs1
    have := F.sub (neg s) (List.mem_map.mpr ⟨s, hs1, rfl⟩)
    obtain ⟨x, hx, hxe⟩ := List.mem_map.mp this
    rw [← neg_inj_pt hxe]
    exact List.mem_reverse.mp hx
  · intro b hb q hq
    have hb' : (U.map neg).head? = some (neg b) := by rw [List.head?_map, hb]; rfl
    rcases F.first (neg b) hb' (neg q) (memS q hq) with e | e
    · exact Or.inl (neg_inj_pt e)
    · exact Or.inr (lexlt_neg.mp e)
  · intro t ht q hq
    have ht' : (U.map neg).getLast? = some (neg t) := by rw [List.getLast?_map, ht]; rfl
    rcases F.last (neg t) ht' (neg q) (memS q hq) with e | e
    · exact Or.inl (neg_inj_pt e)
    · exact Or.inr (lexlt_neg.mp e)
  · intro hne he
    apply F.ne (by simpa using hne)
    simp [he]

/-! ### end points -/

theorem lexlt_asymm {p q : Pt K} (h1 : lexlt p q) (h2 : lexlt q p) : False :=
  lexlt_irrefl _ (lexlt_trans h1 h2)

/-- a list with distinct first and last element -/
theorem decompose_ends {α : Type} (P : List α) (a b : α) (h1 : P.head? = some a)
    (h2 : P.getLast? = some b) (hab : a ≠ b) : ∃ mid, P = a :: (mid ++ [b]) := by
  cases P with
  | nil => cases h1
  | cons x t =>
    simp only [List.head?_cons, Option.some.injEq] at h1
    subst h1
    rcases List.eq_nil_or_concat t with e | ⟨mid, y, e⟩
    · subst e
      simp only [List.getLast?_singleton, Option.some.injEq] at h2
      exact absurd h2 hab
    · subst e
      have : (x :: (mid ++ [y])).getLast? = some y := by
        rw [show x :: (mid ++ [y]) = (x :: mid) ++ [y] by simp]
        exact List.getLast?_concat ..
      rw [show mid.concat y = mid ++ [y] by simp] at h2
      rw [this] at h2
      injection h2 with h2
      subst h2
      exact ⟨mid, by simp⟩

/-- sorted list with at least two elements: head is the strict minimum, last the strict maximum -/
theorem sorted_head_min (p : Pt K) (rest : List (Pt K)) (hs : (p :: rest).Pairwise lexlt) :
    ∀ q ∈ p :: rest, q = p ∨ lexlt p q := by
  intro q hq
  rcases List.mem_cons.mp hq with e | e
  · exact Or.inl e
  · exact Or.inr ((List.pairwise_cons.mp hs).1 q e)

theorem sorted_last_max : ∀ (S : List (Pt K)) (g : Pt K), S.Pairwise lexlt → S.getLast? = some g →
    ∀ q ∈ S, q = g ∨ lexlt q g := by
  intro S g hs hg q hq
  rcases List.eq_nil_or_concat S with e | ⟨T, y, e⟩
  · subst e; cases hq
  · rw [show T.concat y = T ++ [y] by simp] at e
    subst e
    rw [List.getLast?_concat] at hg
    injection hg with hg
    subst hg
    rcases List.mem_append.mp hq with h | h
    · exact Or.inr ((List.pairwise_append.mp hs).2.2 q h y (by simp))
    · left; simpa using h

end TW
