import Proofs.C08Rscale

/-!
Helper lemmas for C08: `fit_rscale` / `fit_rshift` under similarity transformations of the two
coordinate sets (over `ℝ`, through the closed forms of what `rsolve` returns).
A similarity has linear part `[[a, b], [−e·b, e·a]]` with `e = ±1` (`e = −1`: an axis flip).
-/
open TW
set_option linter.unusedSectionVars false

namespace TW

theorem isSim_params (m : M2 ℝ) (h : m.IsSim) :
    ∃ e : ℝ, (e = 1 ∨ e = -1) ∧ m.c = -e * m.b ∧ m.d = e * m.a ∧ m.det = e * (m.a * m.a + m.b * m.b) := by
  rcases h with ⟨h1, h2⟩ | ⟨h1, h2⟩
  · exact ⟨1, Or.inl rfl, by rw [h1]; ring, by rw [h2]; ring, by simp only [M2.det, h1, h2]; ring⟩
  · exact ⟨-1, Or.inr rfl, by rw [h1]; ring, by rw [h2]; ring, by simp only [M2.det, h1, h2]; ring⟩

/-- the matrix `k·[[den, num], [−g·num, g·den]]` built from the cross moments `H` with branch
sign `g`; `den = sxu + g·syv`, `num = sxv − g·syu` -/
def simMat (k g sxu sxv syu syv : ℝ) : M2 ℝ :=
  ⟨k * (sxu + g * syv), k * (sxv - g * syu), -g * (k * (sxv - g * syu)), g * (k * (sxu + g * syv))⟩

/-- **core identity**: with `H' = A·H·Bᵀ`, branch sign `g' = e·e'·g` and factor `k' = k/(p²+q²)`,
the matrix built from `H'` is `A · (matrix built from H) · B⁻¹` -/
theorem core_matrix (a b p q e e' g sxu sxv syu syv k : ℝ) (he : e = 1 ∨ e = -1)
    (he' : e' = 1 ∨ e' = -1) (hg : g = 1 ∨ g = -1) (hpq : p * p + q * q ≠ 0) :
    simMat (k / (p * p + q * q)) (e * e' * g)
      (a * p * sxu + a * q * sxv + b * p * syu + b * q * syv)
      (a * (-e' * q) * sxu + a * (e' * p) * sxv + b * (-e' * q) * syu + b * (e' * p) * syv)
      ((-e * b) * p * sxu + (-e * b) * q * sxv + (e * a) * p * syu + (e * a) * q * syv)
      ((-e * b) * (-e' * q) * sxu + (-e * b) * (e' * p) * sxv + (e * a) * (-e' * q) * syu
        + (e * a) * (e' * p) * syv)
    = (⟨a, b, -e * b, e * a⟩ : M2 ℝ).mul ((simMat k g sxu sxv syu syv).mul (⟨p, q, -e' * q, e' * p⟩ : M2 ℝ).inv) := by
  have h1 : p ^ 2 + q ^ 2 ≠ 0 := by rw [sq, sq]; exact hpq
  have h2 : -p ^ 2 - q ^ 2 ≠ 0 := by intro h; apply h1; linarith
  have h3 : q ^ 2 + p ^ 2 ≠ 0 := by intro h; apply h1; linarith
  have h4 : -q ^ 2 - p ^ 2 ≠ 0 := by intro h; apply h1; linarith
  simp only [simMat, M2.mul, M2.inv, M2.det, M2.eq_iff]
  rcases he with rfl | rfl <;> rcases he' with rfl | rfl <;> rcases hg with rfl | rfl <;>
    (refine ⟨?_, ?_, ?_, ?_⟩ <;> ring_nf <;> field_simp <;> ring)

/-- `den'² + num'² = (a²+b²)(p²+q²)(den² + num²)` -/
theorem core_norm (a b p q e e' g sxu sxv syu syv : ℝ) (he : e = 1 ∨ e = -1)
    (he' : e' = 1 ∨ e' = -1) (hg : g = 1 ∨ g = -1) :
    let sxu' := a * p * sxu + a * q * sxv + b * p * syu + b * q * syv
    let sxv' := a * (-e' * q) * sxu + a * (e' * p) * sxv + b * (-e' * q) * syu + b * (e' * p) * syv
    let syu' := (-e * b) * p * sxu + (-e * b) * q * sxv + (e * a) * p * syu + (e * a) * q * syv
    let syv' := (-e * b) * (-e' * q) * sxu + (-e * b) * (e' * p) * sxv + (e * a) * (-e' * q) * syu
        + (e * a) * (e' * p) * syv
    (sxu' + e * e' * g * syv') * (sxu' + e * e' * g * syv') + (sxv' - e * e' * g * syu') * (sxv' - e * e' * g * syu')
      = (a * a + b * b) * (p * p + q * q) * ((sxu + g * syv) * (sxu + g * syv) + (sxv - g * syu) * (sxv - g * syu)) := by
  intro sxu' sxv' syu' syv'
  simp only [sxu', sxv', syu', syv']
  rcases he with rfl | rfl <;> rcases he' with rfl | rfl <;> rcases hg with rfl | rfl <;> ring

end TW

namespace TW

/-! ### glue: affine maps, conjugation -/

theorem conj_toAff (A B : Aff ℝ) (L : Lin ℝ) :
    (Lin.conj A B L).toAff = A.comp (L.toAff.comp B.inv) := rfl

theorem conj_app (A B : Aff ℝ) (hB : B.m.det ≠ 0) (L : Lin ℝ) (p : V2 ℝ) :
    (Lin.conj A B L).toAff.app (B.app p) = A.app (L.toAff.app p) := by
  rw [conj_toAff, Aff.app_comp, Aff.app_comp, Aff.inv_app B hB]

theorem lin_ext_point (L1 L2 : Lin ℝ) (hm : L1.toAff.m = L2.toAff.m) (p : V2 ℝ)
    (hp : L1.toAff.app p = L2.toAff.app p) : L1 = L2 := by
  cases L1; cases L2
  simp only [Lin.toAff, M2.mk.injEq] at hm
  obtain ⟨h1, h2, h3, h4⟩ := hm
  subst h1 h2 h3 h4
  simp only [Lin.toAff, Aff.app, M2.mulVec, V2.add, V2.mk.injEq] at hp
  obtain ⟨hx, hy⟩ := hp
  simp only [Lin.mk.injEq, true_and]
  constructor <;> linarith

/-- a map whose shift is `mean(xy) − F·mean(uv)` sends the mean of `uv` to the mean of `xy` -/
theorem app_mean (L : Lin ℝ) (xm ym um vm : ℝ) (hx : L.sx = xm - (L.m00 * um + L.m01 * vm))
    (hy : L.sy = ym - (L.m10 * um + L.m11 * vm)) : L.toAff.app ⟨um, vm⟩ = ⟨xm, ym⟩ := by
  simp only [Lin.toAff, Aff.app, M2.mulVec, V2.add, V2.mk.injEq, hx, hy]
  constructor <;> ring

/-! ### the branch sign -/

/-- `−1` in the reflection branch of `fit_rscale` (`det < 0`), `+1` otherwise -/
noncomputable def bsign (s : RSums ℝ) : ℝ := if s.crossDet < 0 then -1 else 1

theorem bsign_cases (s : RSums ℝ) : bsign s = 1 ∨ bsign s = -1 := by
  unfold bsign; split <;> simp

theorem crossDet_move (A B : Aff ℝ) (s : RSums ℝ) :
    (RSums.move A B s).crossDet = A.m.det * B.m.det * s.crossDet := by
  simp only [RSums.crossDet, RSums.move, M2.det]; ring

theorem bsign_move (A B : Aff ℝ) (s : RSums ℝ) (e e' : ℝ) (he : e = 1 ∨ e = -1) (he' : e' = 1 ∨ e' = -1)
    (hA : A.m.det = e * (A.m.a * A.m.a + A.m.b * A.m.b)) (hB : B.m.det = e' * (B.m.a * B.m.a + B.m.b * B.m.b))
    (hA0 : A.m.det ≠ 0) (hB0 : B.m.det ≠ 0) (hbr : 0 < A.m.det * B.m.det ∨ s.crossDet ≠ 0) :
    bsign (RSums.move A B s) = e * e' * bsign s := by
  have hPa : 0 < A.m.a * A.m.a + A.m.b * A.m.b := by
    have : A.m.a * A.m.a + A.m.b * A.m.b ≠ 0 := by
      intro h; rw [h, mul_zero] at hA; exact hA0 hA
    have := add_nonneg (mul_self_nonneg A.m.a) (mul_self_nonneg A.m.b)
    exact lt_of_le_of_ne this (Ne.symm ‹_›)
  have hPb : 0 < B.m.a * B.m.a + B.m.b * B.m.b := by
    have : B.m.a * B.m.a + B.m.b * B.m.b ≠ 0 := by
      intro h; rw [h, mul_zero] at hB; exact hB0 hB
    have := add_nonneg (mul_self_nonneg B.m.a) (mul_self_nonneg B.m.b)
    exact lt_of_le_of_ne this (Ne.symm ‹_›)
  have hP := mul_pos hPa hPb
  set P := (A.m.a * A.m.a + A.m.b * A.m.b) * (B.m.a * B.m.a + B.m.b * B.m.b) with hPdef
  have hcd : (RSums.move A B s).crossDet = e * e' * P * s.crossDet := by
    rw [crossDet_move, hA, hB]; ring
  have hdd : A.m.det * B.m.det = e * e' * P := by rw [hA, hB]; ring
  unfold bsign
  rw [hcd]
  rw [hdd] at hbr
  rcases he with rfl | rfl <;> rcases he' with rfl | rfl
  · have : (1 * 1 * P * s.crossDet < 0) ↔ (s.crossDet < 0) := by
      constructor
      · intro h; by_contra hn; have hn := not_lt.mp hn; nlinarith
      · intro h; nlinarith
    simp only [this]; split <;> ring
  · have hne : s.crossDet ≠ 0 := by
      rcases hbr with h | h
      · exfalso; nlinarith
      · exact h
    have : (1 * -1 * P * s.crossDet < 0) ↔ ¬ (s.crossDet < 0) := by
      constructor
      · intro h hn; nlinarith
      · intro h
        have h' := not_lt.mp h
        have : 0 < s.crossDet := lt_of_le_of_ne h' (Ne.symm hne)
        nlinarith
    simp only [this]; split <;> simp_all
  · have hne : s.crossDet ≠ 0 := by
      rcases hbr with h | h
      · exfalso; nlinarith
      · exact h
    have : (-1 * 1 * P * s.crossDet < 0) ↔ ¬ (s.crossDet < 0) := by
      constructor
      · intro h hn; nlinarith
      · intro h
        have h' := not_lt.mp h
        have : 0 < s.crossDet := lt_of_le_of_ne h' (Ne.symm hne)
        nlinarith
    simp only [this]; split <;> simp_all
  · have : (-1 * -1 * P * s.crossDet < 0) ↔ (s.crossDet < 0) := by
      constructor
      · intro h; by_contra hn; have hn := not_lt.mp hn; nlinarith
      · intro h; nlinarith
    simp only [this]; split <;> ring

end TW

namespace TW

/-! ### closed forms of `rsolve` with the branch sign -/

theorem rsolve_none_err (s : RSums ℝ) (h : ¬ 0 < s.su2v2) : rsolve none s = .error .singular := by
  unfold rsolve
  simp only [zeroK_eq, h, if_false]

theorem rsolve_none_ok (s : RSums ℝ) (h : 0 < s.su2v2) : ∃ L, rsolve none s = .ok L := by
  unfold rsolve
  simp only [zeroK_eq, h, if_true]
  exact ⟨_, rfl⟩

theorem rsolve_some_ok (sc : ℝ) (s : RSums ℝ) : ∃ L, rsolve (some sc) s = .ok L := by
  unfold rsolve
  exact ⟨_, rfl⟩

/-- free scale: matrix `(1/D)·[[den, num], [−g·num, g·den]]`, shift from the means -/
theorem rsolve_free_form (s : RSums ℝ) (L : Lin ℝ) (h : rsolve none s = .ok L) :
    0 < s.su2v2 ∧ L.toAff.m = simMat (1 / s.su2v2) (bsign s) s.sxu s.sxv s.syu s.syv ∧
    L.sx = s.xm - (L.m00 * s.um + L.m01 * s.vm) ∧ L.sy = s.ym - (L.m10 * s.um + L.m11 * s.vm) := by
  obtain ⟨hD, h1, h2, hx, hy⟩ := rsolve_rscale s L h
  refine ⟨hD, ?_, hx, hy⟩
  have hD' : s.su2v2 ≠ 0 := ne_of_gt hD
  unfold bsign simMat
  simp only [Lin.toAff, RSums.crossDet, M2.mk.injEq]
  by_cases hd : s.sxu * s.syv - s.sxv * s.syu < 0
  · obtain ⟨a0, a1, a2, a3⟩ := h2 hd
    simp only [hd, if_true, a0, a1, a2, a3]
    refine ⟨?_, ?_, ?_, ?_⟩ <;> field_simp <;> ring
  · obtain ⟨a0, a1, a2, a3⟩ := h1 hd
    simp only [hd, if_false, a0, a1, a2, a3]
    refine ⟨?_, ?_, ?_, ?_⟩ <;> field_simp

/-- fixed scale: matrix `sc·[[c, sn], [−g·sn, g·c]]` with `(c, sn)` cosine and sine of the
angle of `(den, num)` -/
theorem rsolve_fixed_form (sc : ℝ) (s : RSums ℝ) (L : Lin ℝ) (h : rsolve (some sc) s = .ok L) :
    let g := bsign s
    let den := s.sxu + g * s.syv
    let num := s.sxv - g * s.syu
    let c := HasTrig.cosdeg (rsTheta num den)
    let sn := HasTrig.sindeg (rsTheta num den)
    L.toAff.m = ⟨sc * c, sc * sn, -g * (sc * sn), g * (sc * c)⟩ ∧
    L.sx = s.xm - (L.m00 * s.um + L.m01 * s.vm) ∧ L.sy = s.ym - (L.m10 * s.um + L.m11 * s.vm) := by
  intro g den num c sn
  unfold rsolve at h
  simp only [zeroK_eq, oneK_eq] at h
  injection h with h
  simp only [g, den, num, c, sn, bsign, RSums.crossDet]
  rw [← h]
  by_cases hd : s.sxu * s.syv - s.sxv * s.syu < 0
  · simp only [hd, if_true, Lin.toAff, M2.mk.injEq]
    have e1 : s.sxv - -1 * s.syu = s.sxv + s.syu := by ring
    have e2 : s.sxu + -1 * s.syv = s.sxu - s.syv := by ring
    rw [e1, e2]
    refine ⟨⟨rfl, rfl, by ring, by ring⟩, by ring, by ring⟩
  · simp only [hd, if_false, Lin.toAff, M2.mk.injEq]
    have e1 : s.sxv - 1 * s.syu = s.sxv - s.syu := by ring
    have e2 : s.sxu + 1 * s.syv = s.sxu + s.syv := by ring
    rw [e1, e2]
    refine ⟨⟨rfl, rfl, by ring, by ring⟩, by ring, by ring⟩

end TW

namespace TW

/-- `core_matrix` / `core_norm` on the transformed moments -/
theorem simMat_move (A B : Aff ℝ) (e e' : ℝ) (he : e = 1 ∨ e = -1) (he' : e' = 1 ∨ e' = -1)
    (hAc : A.m.c = -e * A.m.b) (hAd : A.m.d = e * A.m.a) (hBc : B.m.c = -e' * B.m.b)
    (hBd : B.m.d = e' * B.m.a) (hpq : B.m.a * B.m.a + B.m.b * B.m.b ≠ 0) (s : RSums ℝ) (k g : ℝ)
    (hg : g = 1 ∨ g = -1) :
    simMat (k / (B.m.a * B.m.a + B.m.b * B.m.b)) (e * e' * g) (RSums.move A B s).sxu
        (RSums.move A B s).sxv (RSums.move A B s).syu (RSums.move A B s).syv
      = A.m.mul ((simMat k g s.sxu s.sxv s.syu s.syv).mul B.m.inv) := by
  have key := core_matrix A.m.a A.m.b B.m.a B.m.b e e' g s.sxu s.sxv s.syu s.syv k he he' hg hpq
  have eA : A.m = ⟨A.m.a, A.m.b, -e * A.m.b, e * A.m.a⟩ := by
    cases hAm : A.m; rw [hAm] at hAc hAd; simp only at hAc hAd ⊢; rw [hAc, hAd]
  have eB : B.m = ⟨B.m.a, B.m.b, -e' * B.m.b, e' * B.m.a⟩ := by
    cases hBm : B.m; rw [hBm] at hBc hBd; simp only at hBc hBd ⊢; rw [hBc, hBd]
  have rhs : A.m.mul ((simMat k g s.sxu s.sxv s.syu s.syv).mul B.m.inv)
      = (⟨A.m.a, A.m.b, -e * A.m.b, e * A.m.a⟩ : M2 ℝ).mul
          ((simMat k g s.sxu s.sxv s.syu s.syv).mul
            (⟨B.m.a, B.m.b, -e' * B.m.b, e' * B.m.a⟩ : M2 ℝ).inv) := by rw [← eA, ← eB]
  rw [rhs, ← key]
  simp only [RSums.move]
  rw [hAc, hAd, hBc, hBd]

theorem norm_move (A B : Aff ℝ) (e e' : ℝ) (he : e = 1 ∨ e = -1) (he' : e' = 1 ∨ e' = -1)
    (hAc : A.m.c = -e * A.m.b) (hAd : A.m.d = e * A.m.a) (hBc : B.m.c = -e' * B.m.b)
    (hBd : B.m.d = e' * B.m.a) (s : RSums ℝ) (g : ℝ) (hg : g = 1 ∨ g = -1) :
    ((RSums.move A B s).sxu + e * e' * g * (RSums.move A B s).syv)
        * ((RSums.move A B s).sxu + e * e' * g * (RSums.move A B s).syv)
      + ((RSums.move A B s).sxv - e * e' * g * (RSums.move A B s).syu)
        * ((RSums.move A B s).sxv - e * e' * g * (RSums.move A B s).syu)
      = (A.m.a * A.m.a + A.m.b * A.m.b) * (B.m.a * B.m.a + B.m.b * B.m.b)
        * ((s.sxu + g * s.syv) * (s.sxu + g * s.syv) + (s.sxv - g * s.syu) * (s.sxv - g * s.syu)) := by
  have key := core_norm A.m.a A.m.b B.m.a B.m.b e e' g s.sxu s.sxv s.syu s.syv he he' hg
  simp only at key
  rw [← key]
  simp only [RSums.move]
  rw [hAc, hAd, hBc, hBd]

/-- **free scale**: the fit of the transformed moments is the conjugated fit -/
theorem rsolve_free_move (A B : Aff ℝ) (hA : A.m.IsSim) (hB : B.m.IsSim) (hA0 : A.m.det ≠ 0)
    (hB0 : B.m.det ≠ 0) (s : RSums ℝ) (hbr : 0 < A.m.det * B.m.det ∨ s.crossDet ≠ 0) :
    rsolve none (RSums.move A B s) = (rsolve none s).map (Lin.conj A B) := by
  obtain ⟨e, he, hAc, hAd, hAdet⟩ := isSim_params A.m hA
  obtain ⟨e', he', hBc, hBd, hBdet⟩ := isSim_params B.m hB
  have hpq : B.m.a * B.m.a + B.m.b * B.m.b ≠ 0 := by
    intro h; rw [h, mul_zero] at hBdet; exact hB0 hBdet
  have hfac : B.m.a * B.m.a + B.m.c * B.m.c = B.m.a * B.m.a + B.m.b * B.m.b := by
    rw [hBc]; rcases he' with rfl | rfl <;> ring
  have hpos : 0 < B.m.a * B.m.a + B.m.b * B.m.b :=
    lt_of_le_of_ne (add_nonneg (mul_self_nonneg _) (mul_self_nonneg _)) (Ne.symm hpq)
  have hD' : (RSums.move A B s).su2v2 = (B.m.a * B.m.a + B.m.b * B.m.b) * s.su2v2 := by
    simp only [RSums.move]; rw [hfac]
  by_cases hD : 0 < s.su2v2
  · obtain ⟨L, hL⟩ := rsolve_none_ok s hD
    have hDm : 0 < (RSums.move A B s).su2v2 := by rw [hD']; exact mul_pos hpos hD
    obtain ⟨L', hL'⟩ := rsolve_none_ok _ hDm
    rw [hL, hL']
    show Except.ok L' = Except.ok (Lin.conj A B L)
    congr 1
    obtain ⟨_, hm, hx, hy⟩ := rsolve_free_form s L hL
    obtain ⟨_, hm', hx', hy'⟩ := rsolve_free_form _ L' hL'
    have hg' := bsign_move A B s e e' he he' hAdet hBdet hA0 hB0 hbr
    -- matrices
    have hmat : L'.toAff.m = (Lin.conj A B L).toAff.m := by
      rw [conj_toAff]
      show L'.toAff.m = A.m.mul (L.toAff.m.mul B.m.inv)
      rw [hm', hm, hg', hD']
      have hk : 1 / ((B.m.a * B.m.a + B.m.b * B.m.b) * s.su2v2)
          = (1 / s.su2v2) / (B.m.a * B.m.a + B.m.b * B.m.b) := by
        have := ne_of_gt hD
        field_simp
      rw [hk]
      exact simMat_move A B e e' he he' hAc hAd hBc hBd hpq s _ _ (bsign_cases s)
    -- one common point: the mean of the transformed `uv`
    have hp := app_mean L s.xm s.ym s.um s.vm hx hy
    have hp' := app_mean L' _ _ _ _ hx' hy'
    have hBp : B.app ⟨s.um, s.vm⟩ = ⟨(RSums.move A B s).um, (RSums.move A B s).vm⟩ := by
      simp [RSums.move, Aff.app, M2.mulVec, V2.add]
    have hAp : A.app ⟨s.xm, s.ym⟩ = ⟨(RSums.move A B s).xm, (RSums.move A B s).ym⟩ := by
      simp [RSums.move, Aff.app, M2.mulVec, V2.add]
    apply lin_ext_point L' (Lin.conj A B L) hmat ⟨(RSums.move A B s).um, (RSums.move A B s).vm⟩
    rw [hp', ← hBp, conj_app A B hB0, hp, hAp]
  · rw [rsolve_none_err s hD]
    have : ¬ 0 < (RSums.move A B s).su2v2 := by
      rw [hD']; intro h; apply hD
      by_contra hn; have hn := not_lt.mp hn; nlinarith
    rw [rsolve_none_err _ this]
    rfl

end TW

namespace TW

/-- in the reflection branch `(den, num) ≠ 0`: if both vanish the branch sign is `+1` -/
theorem bsign_of_zero (s : RSums ℝ) (hd : s.sxu + bsign s * s.syv = 0) (hn : s.sxv - bsign s * s.syu = 0) :
    bsign s = 1 := by
  unfold bsign at hd hn ⊢
  split
  · next h =>
    exfalso
    simp only [h, if_true] at hd hn
    simp only [RSums.crossDet] at h
    have e1 : s.sxu = s.syv := by linarith
    have e2 : s.sxv = -s.syu := by linarith
    rw [e1, e2] at h
    nlinarith [mul_self_nonneg s.syv, mul_self_nonneg s.syu]
  · rfl

theorem sq_sum_zero (x y : ℝ) (h : x * x + y * y = 0) : x = 0 ∧ y = 0 := by
  have hx : x * x = 0 := le_antisymm (by linarith [mul_self_nonneg y]) (mul_self_nonneg x)
  have hy : y * y = 0 := le_antisymm (by linarith [mul_self_nonneg x]) (mul_self_nonneg y)
  exact ⟨mul_self_eq_zero.mp hx, mul_self_eq_zero.mp hy⟩

theorem sq_sum_pos (x y : ℝ) (h : ¬ (x = 0 ∧ y = 0)) : 0 < x * x + y * y := by
  rcases not_and_or.mp h with h | h
  · have := mul_self_pos.mpr h; linarith [mul_self_nonneg y]
  · have := mul_self_pos.mpr h; linarith [mul_self_nonneg x]

/-- **fixed scale** (`fit_rshift`, `fit_rscale(scale=sc)`): for similarities `A`, `B` of equal
scale factor the fit of the transformed moments is the conjugated fit, provided the angle is
determined by the data (`(den, num) ≠ 0`) or `A` and `B` have the same linear part -/
theorem rsolve_fixed_move (sc : ℝ) (A B : Aff ℝ) (hA : A.m.IsSim) (hB : B.m.IsSim) (hA0 : A.m.det ≠ 0)
    (hB0 : B.m.det ≠ 0) (hscale : A.m.a * A.m.a + A.m.b * A.m.b = B.m.a * B.m.a + B.m.b * B.m.b)
    (s : RSums ℝ) (hbr : 0 < A.m.det * B.m.det ∨ s.crossDet ≠ 0)
    (hdeg : A.m = B.m ∨ s.sxu + bsign s * s.syv ≠ 0 ∨ s.sxv - bsign s * s.syu ≠ 0) :
    rsolve (some sc) (RSums.move A B s) = (rsolve (some sc) s).map (Lin.conj A B) := by
  obtain ⟨e, he, hAc, hAd, hAdet⟩ := isSim_params A.m hA
  obtain ⟨e', he', hBc, hBd, hBdet⟩ := isSim_params B.m hB
  have hpq : B.m.a * B.m.a + B.m.b * B.m.b ≠ 0 := by
    intro h; rw [h, mul_zero] at hBdet; exact hB0 hBdet
  have hpos : 0 < B.m.a * B.m.a + B.m.b * B.m.b :=
    lt_of_le_of_ne (add_nonneg (mul_self_nonneg _) (mul_self_nonneg _)) (Ne.symm hpq)
  obtain ⟨L, hL⟩ := rsolve_some_ok sc s
  obtain ⟨L', hL'⟩ := rsolve_some_ok sc (RSums.move A B s)
  rw [hL, hL']
  show Except.ok L' = Except.ok (Lin.conj A B L)
  congr 1
  obtain ⟨hm, hx, hy⟩ := rsolve_fixed_form sc s L hL
  obtain ⟨hm', hx', hy'⟩ := rsolve_fixed_form sc _ L' hL'
  have hg' := bsign_move A B s e e' he he' hAdet hBdet hA0 hB0 hbr
  have hnorm := norm_move A B e e' he he' hAc hAd hBc hBd s (bsign s) (bsign_cases s)
  rw [← hg', hscale] at hnorm
  set g := bsign s with hgdef
  set g' := bsign (RSums.move A B s) with hg'def
  set den := s.sxu + g * s.syv with hden
  set num := s.sxv - g * s.syu with hnum
  set den' := (RSums.move A B s).sxu + g' * (RSums.move A B s).syv with hden'
  set num' := (RSums.move A B s).sxv - g' * (RSums.move A B s).syu with hnum'
  set P := B.m.a * B.m.a + B.m.b * B.m.b with hP
  -- matrices
  have hmat : L'.toAff.m = (Lin.conj A B L).toAff.m := by
    rw [conj_toAff]
    show L'.toAff.m = A.m.mul (L.toAff.m.mul B.m.inv)
    by_cases hz : den = 0 ∧ num = 0
    · -- the angle is not determined: identical linear parts
      obtain ⟨hz1, hz2⟩ := hz
      have hAB : A.m = B.m := by
        rcases hdeg with h | h | h
        · exact h
        · exact absurd hz1 h
        · exact absurd hz2 h
      have hg1 : g = 1 := bsign_of_zero s hz1 hz2
      have hee : e = e' := by
        have : A.m.det = B.m.det := by rw [hAB]
        rw [hAdet, hBdet, hscale] at this
        exact mul_right_cancel₀ hpq this
      have hg1' : g' = 1 := by
        rw [hg', hg1, hee]; rcases he' with rfl | rfl <;> ring
      have hz' : den' * den' + num' * num' = 0 := by rw [hnorm, hz1, hz2]; ring
      obtain ⟨hz1', hz2'⟩ := sq_sum_zero den' num' hz'
      rw [hm', hm, hz1, hz2, hz1', hz2', hg1, hg1', cos_sin_rsTheta_zero.1, cos_sin_rsTheta_zero.2, hAB]
      have hd : B.m.det ≠ 0 := hB0
      simp only [M2.mul, M2.inv, M2.eq_iff]
      refine ⟨?_, ?_, ?_, ?_⟩ <;> field_simp <;> simp only [M2.det] <;> ring
    · have hr2pos : 0 < den * den + num * num := sq_sum_pos den num hz
      set r := Real.sqrt (den * den + num * num) with hr
      have hrpos : 0 < r := Real.sqrt_pos.mpr hr2pos
      have hrr : r * r = den * den + num * num := Real.mul_self_sqrt (le_of_lt hr2pos)
      obtain ⟨hc, hs⟩ := cs_closed num den r hrpos hrr
      have hr'pos : 0 < P * r := mul_pos hpos hrpos
      have hrr' : (P * r) * (P * r) = den' * den' + num' * num' := by rw [hnorm, ← hrr]; ring
      obtain ⟨hc', hs'⟩ := cs_closed num' den' (P * r) hr'pos hrr'
      rw [hm', hm, hc, hs, hc', hs']
      have key := simMat_move A B e e' he he' hAc hAd hBc hBd hpq s (sc / r) g (bsign_cases s)
      rw [← hg'] at key
      have hrne : r ≠ 0 := ne_of_gt hrpos
      have e1 : (⟨sc * (den' / (P * r)), sc * (num' / (P * r)), -g' * (sc * (num' / (P * r))),
          g' * (sc * (den' / (P * r)))⟩ : M2 ℝ)
          = simMat (sc / r / P) g' (RSums.move A B s).sxu (RSums.move A B s).sxv
              (RSums.move A B s).syu (RSums.move A B s).syv := by
        simp only [simMat, M2.mk.injEq, hden', hnum']
        refine ⟨?_, ?_, ?_, ?_⟩ <;> field_simp
      have e2 : (⟨sc * (den / r), sc * (num / r), -g * (sc * (num / r)), g * (sc * (den / r))⟩ : M2 ℝ)
          = simMat (sc / r) g s.sxu s.sxv s.syu s.syv := by
        simp only [simMat, M2.mk.injEq, hden, hnum]
        refine ⟨?_, ?_, ?_, ?_⟩ <;> field_simp
      rw [e1, e2, key]
  have hp := app_mean L s.xm s.ym s.um s.vm hx hy
  have hp' := app_mean L' _ _ _ _ hx' hy'
  have hBp : B.app ⟨s.um, s.vm⟩ = ⟨(RSums.move A B s).um, (RSums.move A B s).vm⟩ := by
    simp [RSums.move, Aff.app, M2.mulVec, V2.add]
  have hAp : A.app ⟨s.xm, s.ym⟩ = ⟨(RSums.move A B s).xm, (RSums.move A B s).ym⟩ := by
    simp [RSums.move, Aff.app, M2.mulVec, V2.add]
  apply lin_ext_point L' (Lin.conj A B L) hmat ⟨(RSums.move A B s).um, (RSums.move A B s).vm⟩
  rw [hp', ← hBp, conj_app A B hB0, hp, hAp]

end TW
