import Proofs.C16Hull

/-!
Helper lemmas for C16: the hull lists every vertex once (apart from the closing copy).
-/
open TW
set_option linter.unusedSectionVars false

namespace TW
variable {K : Type} [Field K] [LinearOrder K] [IsStrictOrderedRing K]

/-- a vertex cannot be interior to both chains: the four incident edges would force all points
onto one line through it, against the strict turn of the lower chain -/
theorem chains_disjoint (S : List (Pt K)) (a x c d : Pt K)
    (hax : lexlt a x) (hxd : lexlt x d)
    (hturn : 0 < cross a x c) (haS : a ∈ S) (hcS : c ∈ S) (hdS : d ∈ S)
    (h1 : ∀ q ∈ S, 0 ≤ cross a x q) (h2 : ∀ q ∈ S, 0 ≤ cross d x q) : False := by
  have e0 : cross d x a = - cross a x d := by simp only [cross_def]; ring
  have z : cross a x d = 0 := by
    have p1 := h1 d hdS
    have p2 := h2 a haS
    rw [e0] at p2
    linarith
  have ea : cross a x c = wedge (vsub x a) (vsub c x) := by simp only [cross_def, wedge, vsub]; ring
  have eb : cross d x c = - wedge (vsub d x) (vsub c x) := by simp only [cross_def, wedge, vsub]; ring
  have ec : cross a x d = wedge (vsub x a) (vsub d x) := by simp only [cross_def, wedge, vsub]; ring
  have := wedge_squeeze (vsub x a) (vsub d x) (vsub c x) (lexpos_vsub hax) (lexpos_vsub hxd)
    (by rw [← ec]; exact z) (by rw [← ea]; exact le_of_lt hturn)
    (by have := h2 c hcS; rw [eb] at this; linarith)
  rw [← ea] at this
  exact absurd this (ne_of_gt hturn)

theorem nodup_of_pairwise_lexlt (l : List (Pt K)) (h : l.Pairwise lexlt) : l.Nodup := by
  unfold List.Nodup
  refine h.imp ?_
  intro a b hab e
  rw [e] at hab
  exact lexlt_irrefl _ hab

theorem nodup_of_pairwise_lexgt (l : List (Pt K)) (h : l.Pairwise (fun x y => lexlt y x)) : l.Nodup := by
  unfold List.Nodup
  refine h.imp ?_
  intro a b hab e
  rw [e] at hab
  exact lexlt_irrefl _ hab

/-- the hull without its closing vertex has no repeated vertex -/
theorem core_nodup (p q : Pt K) (rest : List (Pt K)) (hs : (p :: q :: rest).Pairwise lexlt) :
    (hullCore (p :: q :: rest)).dropLast.Nodup := by
  obtain ⟨M, Lm, Um, hH, LF, UF, hpM⟩ := core_structure p q rest hs
  rw [hH]
  have ed : (p :: (Lm ++ M :: (Um ++ [p]))).dropLast = p :: (Lm ++ M :: Um) := by
    rw [show p :: (Lm ++ M :: (Um ++ [p])) = (p :: (Lm ++ M :: Um)) ++ [p] by simp, List.dropLast_concat]
  rw [ed]
  have nL := nodup_of_pairwise_lexlt _ LF.asc
  have nU := nodup_of_pairwise_lexgt _ UF.desc
  -- membership facts from the two strictly monotone chains
  have nL' : (p :: Lm ++ [M]).Nodup := by simpa using nL
  have nU' : (M :: Um ++ [p]).Nodup := by simpa using nU
  have hpLm : p ∉ Lm := by
    intro h; have := (List.nodup_cons.mp nL).1; exact this (by simp [h])
  have hpM' : p ≠ M := fun e => lexlt_irrefl M (e ▸ hpM)
  have hMLm : M ∉ Lm := by
    intro h
    have := List.nodup_append.mp nL'
    exact this.2.2 M (by simp [h]) M (by simp) rfl
  have hLm : Lm.Nodup := by
    have := (List.nodup_cons.mp nL).2
    exact (List.nodup_append.mp this).1
  have hMUm : M ∉ Um := by
    intro h; have := (List.nodup_cons.mp nU).1; exact this (by simp [h])
  have hpUm : p ∉ Um := by
    intro h
    have := List.nodup_append.mp nU'
    exact this.2.2 p (by simp [h]) p (by simp) rfl
  have hUm : Um.Nodup := by
    have := (List.nodup_cons.mp nU).2
    exact (List.nodup_append.mp this).1
  -- the interiors of the two chains are disjoint
  have hdisj : ∀ x, x ∈ Lm → x ∈ Um → False := by
    intro x hxL hxU
    obtain ⟨X, a, c, Y, hL⟩ := mem_middle p M x Lm hxL
    obtain ⟨X', d, b, Y', hU⟩ := mem_middle M p x Um hxU
    have hasc := LF.asc
    rw [hL] at hasc
    have s1 := (List.pairwise_append.mp hasc).2.1
    have hax : lexlt a x := (List.pairwise_cons.mp s1).1 x (by simp)
    have hdesc := UF.desc
    rw [hU] at hdesc
    have s2 := (List.pairwise_append.mp hdesc).2.1
    have hxd : lexlt x d := (List.pairwise_cons.mp s2).1 x (by simp)
    have ht := LF.turns
    rw [hL] at ht
    have hturn : 0 < cross a x c := (TurnsLeft_suffix X _ ht).1
    have haS := LF.sub a (by rw [hL]; simp)
    have hcS := LF.sub c (by rw [hL]; simp)
    have hdS := UF.sub d (by rw [hU]; simp)
    refine chains_disjoint (p :: q :: rest) a x c d hax hxd hturn haS hcS hdS ?_ ?_
    · intro y hy
      have := LF.left y hy
      rw [hL] at this
      exact (AllLeft_suffix y X _ this).1
    · intro y hy
      have := UF.left y hy
      rw [hU] at this
      exact (AllLeft_suffix y X' _ this).1
  rw [List.nodup_cons]
  refine ⟨?_, ?_⟩
  · intro h
    rcases List.mem_append.mp h with h | h
    · exact hpLm h
    · rcases List.mem_cons.mp h with h | h
      · exact hpM' h
      · exact hpUm h
  · rw [List.nodup_append]
    refine ⟨hLm, ?_, ?_⟩
    · rw [List.nodup_cons]; exact ⟨hMUm, hUm⟩
    · intro x hx y hy e
      subst e
      rcases List.mem_cons.mp hy with h | h
      · exact hMLm (h ▸ hx)
      · exact hdisj x hx h

end TW
