import Proofs.C06
import Proofs.C07

/-!
Helper lemmas for the exact-recovery clauses of C01: noise-free data stay noise-free (for the
re-centred map) through the centring and the selection done by `iter_linear_fit`, so whatever
mask the clipping loop ends with, the single-shot fit of the retained points is the generating
map; `fit2ref`'s re-centring then gives back its shift.
-/
open TW TW.Clip
set_option linter.unusedSectionVars false
set_option linter.unusedVariables false
set_option linter.unnecessarySeqFocus false

namespace TW.C01

/-- every element of `a[mask]` sits at a selected index of `a` -/
theorem mem_select {α : Type} : ∀ (m : List Bool) (l : List α) (a : α), a ∈ select m l →
    ∃ i, On m i ∧ l[i]? = some a
  | [], l, a, h => by simp [select] at h
  | b :: m, [], a, h => by simp [select] at h
  | b :: m, x :: l, a, h => by
    rw [select_cons] at h
    have lift : a ∈ select m l → ∃ i, On (b :: m) i ∧ (x :: l)[i]? = some a := by
      intro h'
      obtain ⟨i, hi, hl⟩ := mem_select m l a h'
      exact ⟨i + 1, by unfold On at hi ⊢; simpa using hi, by simpa using hl⟩
    cases b with
    | false => exact lift (by simpa using h)
    | true =>
      simp only [if_true, List.mem_cons] at h
      rcases h with rfl | h
      · exact ⟨0, by unfold On; simp, by simp⟩
      · exact lift h

theorem select_map {α β : Type} (f : α → β) : ∀ (m : List Bool) (l : List α),
    select m (l.map f) = (select m l).map f
  | [], l => by simp [select]
  | b :: m, [] => by simp [select]
  | b :: m, a :: l => by
    rw [List.map_cons, select_cons, select_cons, select_map f m l]
    cases b <;> simp

theorem select_sublist {α : Type} : ∀ (m : List Bool) (l : List α), (select m l).Sublist l
  | [], l => by simp [select]
  | b :: m, [] => by simp [select]
  | b :: m, a :: l => by
    rw [select_cons]
    cases b with
    | false => exact (select_sublist m l).cons a
    | true => exact (select_sublist m l).cons_cons a

section field
variable {K : Type} [Field K] [LinearOrder K] [IsStrictOrderedRing K]

theorem countPos_cons (a : K) (ws : List K) :
    countPos (a :: ws) = (if 0 < a then 1 else 0) + countPos ws := by
  unfold countPos
  rw [List.filter_cons]
  by_cases h : (0 : K) < a <;> simp [zeroK_eq, h] <;> omega

theorem exists_pos_of_countPos : ∀ (ws : List K) (o : List (Obs K)), ws.length = o.length →
    1 ≤ countPos ws → ∃ p ∈ List.zip ws o, 0 < p.1
  | [], _, _, h => by simp [countPos] at h
  | a :: ws, [], hl, _ => by simp at hl
  | a :: ws, x :: o, hl, h => by
    by_cases ha : 0 < a
    · exact ⟨(a, x), by simp, ha⟩
    · rw [countPos_cons, if_neg ha] at h
      obtain ⟨p, hp, hp0⟩ := exists_pos_of_countPos ws o (by simpa using hl) (by omega)
      exact ⟨p, by simp [hp], hp0⟩

/-- among points at pairwise different positions, two positive weights give two positively
weighted points at different positions -/
theorem two_pos_distinct : ∀ (ws : List K) (o : List (Obs K)), ws.length = o.length →
    2 ≤ countPos ws → (o.map fun p => (p.u, p.v)).Nodup →
    ∃ p q, p ∈ List.zip ws o ∧ q ∈ List.zip ws o ∧ 0 < p.1 ∧ 0 < q.1 ∧
      (p.2.u ≠ q.2.u ∨ p.2.v ≠ q.2.v)
  | [], _, _, h, _ => by simp [countPos] at h
  | a :: ws, [], hl, _, _ => by simp at hl
  | a :: ws, x :: o, hl, h, hnd => by
    have hl' : ws.length = o.length := by simpa using hl
    rw [List.map_cons, List.nodup_cons] at hnd
    rw [countPos_cons] at h
    by_cases ha : 0 < a
    · rw [if_pos ha] at h
      obtain ⟨q, hq, hq0⟩ := exists_pos_of_countPos ws o hl' (by omega)
      refine ⟨(a, x), q, by simp, by simp [hq], ha, hq0, ?_⟩
      by_contra hc
      push Not at hc
      apply hnd.1
      have : q.2 ∈ o := (List.of_mem_zip hq).2
      exact List.mem_map.mpr ⟨q.2, this, by simp only [Prod.mk.injEq]; exact ⟨hc.1.symm, hc.2.symm⟩⟩
    · rw [if_neg ha] at h
      obtain ⟨p, q, hp, hq, r⟩ := two_pos_distinct ws o hl' (by omega) hnd.2
      exact ⟨p, q, by simp [hp], by simp [hq], r⟩

/-- the generating map `T` seen from coordinates relative to `c` (both catalogs shifted by `c`):
same matrix, shift `T c − c` -/
def relTo (T : Lin K) (c : K × K) : Lin K :=
  ⟨T.m00, T.m01, T.m10, T.m11,
   T.sx + (T.m00 * c.1 + T.m01 * c.2) - c.1, T.sy + (T.m10 * c.1 + T.m11 * c.2) - c.2⟩

/-- `fit2ref`'s re-centring undoes `relTo` -/
theorem recentre_relTo (T : Lin K) (c : K × K) : recentre (relTo T c) c = (T.sx, T.sy) := by
  simp only [recentre, relTo, Prod.mk.injEq]
  constructor <;> ring

/-- noise-free on the points selected by a mask (the others are unconstrained) -/
def NoiseFreeOn (w : List Bool) (obs : List (Obs K)) (T : Lin K) : Prop :=
  ∀ i p, On w i → obs[i]? = some p →
    p.x = T.m00 * p.u + T.m01 * p.v + T.sx ∧ p.y = T.m10 * p.u + T.m11 * p.v + T.sy

theorem noiseFree_on {obs : List (Obs K)} {T : Lin K} (h : NoiseFree obs T) (w : List Bool) :
    NoiseFreeOn w obs T :=
  fun i p _ hp => h p (List.mem_of_getElem? hp)

/-- the points selected by a mask inside `wmask` have been centred, hence are noise-free for the
re-centred map -/
theorem noiseFree_select_centre (obs : List (Obs K)) (T : Lin K) (c : K × K) (w fm : List Bool)
    (hT : NoiseFreeOn w obs T) (hsub : Clip.Sub fm w) :
    NoiseFree (select fm (centreObs c w obs)) (relTo T c) := by
  intro o ho
  obtain ⟨i, hi, hl⟩ := mem_select fm _ o ho
  have hw : On w i := hsub i hi
  have hTi := hT i
  unfold centreObs at hl
  rw [List.getElem?_zipWith] at hl
  have hw' := hw
  unfold On at hw'
  rw [List.getD_eq_getElem?_getD] at hw'
  cases hwi : w[i]? with
  | none => rw [hwi] at hw'; simp at hw'
  | some b =>
    rw [hwi] at hw'
    simp only [Option.getD_some] at hw'
    subst hw'
    cases hoi : obs[i]? with
    | none => rw [hwi, hoi] at hl; simp at hl
    | some p =>
      rw [hwi, hoi] at hl
      simp only [if_true, Option.some.injEq] at hl
      obtain ⟨hx, hy⟩ := hTi p hw hoi
      subst hl
      simp only [relTo]
      constructor
      · rw [hx]; ring
      · rw [hy]; ring

/-- the weights handed to the single-shot fitter for the selected points have the length of the
selected points (what the `lenOk` check of `iter_linear_fit` guarantees) -/
theorem generalW_select_length (fm : List Bool) (obs : List (Obs K)) (wxy wuv : Option (List K))
    (hfm : fm.length = obs.length) (hx : lenOk obs.length wxy = true)
    (hu : lenOk obs.length wuv = true) :
    (generalW (select fm obs) (wxy.map (select fm)) (wuv.map (select fm))).length
      = (select fm obs).length := by
  have ho := select_length fm obs hfm
  cases wxy with
  | none =>
    cases wuv with
    | none => simp [generalW, combineW]
    | some b =>
      simp only [lenOk, beq_iff_eq] at hu
      simp only [generalW, combineW, Option.map_none, Option.map_some]
      rw [ho, select_length fm b (by rw [hfm, hu])]
  | some a =>
    simp only [lenOk, beq_iff_eq] at hx
    cases wuv with
    | none =>
      simp only [generalW, combineW, Option.map_none, Option.map_some]
      rw [ho, select_length fm a (by rw [hfm, hx])]
    | some b =>
      simp only [lenOk, beq_iff_eq] at hu
      simp only [generalW, combineW, Option.map_some, List.length_zipWith]
      rw [ho, select_length fm a (by rw [hfm, hx]), select_length fm b (by rw [hfm, hu])]
      simp

/-- a single-shot fitter *recovers* the family `P` on the point sets `Q` when it returns the
generating map on noise-free data generated by a member of `P` (whenever it returns) -/
def Recovers (single : Single K) (P : Lin K → Prop) (Q : List (Obs K) → Prop) : Prop :=
  ∀ (o : List (Obs K)) (wx wu : Option (List K)) (L T : Lin K), single o wx wu = .ok L →
    (generalW o wx wu).length = o.length → P T → NoiseFree o T → Q o → L = T

/-- **exact recovery through `iter_linear_fit` and the re-centring of `fit2ref`**, for any
single-shot fitter that recovers a family closed under re-centring -/
theorem align_exact_of (single : Single K) (P : Lin K → Prop) (Q : List (Obs K) → Prop)
    (hrec : Recovers single P Q) (hP : ∀ T c, P T → P (relTo T c))
    (nrm : Bool) (m : Metric K) (minobj : Nat) (obs : List (Obs K)) (wxy wuv : Option (List K))
    (center : Option (K × K)) (nclip : Option Int) (sigma : Option (K × String)) (accum : Bool)
    (hQ : ∀ (c : K × K) (fm : List Bool), fm.length = obs.length →
      Clip.Sub fm (wmaskOf obs.length wxy wuv) →
      Q (select fm (centreObs c (wmaskOf obs.length wxy wuv) obs)))
    (r : IterRes K)
    (h : iterLinearFitWith single nrm m minobj obs wxy wuv center nclip sigma accum = .ok r)
    (T : Lin K) (hPT : P T) (hT : NoiseFreeOn (wmaskOf obs.length wxy wuv) obs T) :
    r.lin = relTo T r.center ∧ recentre r.lin r.center = (T.sx, T.sy) := by
  have hp := C07.result_is_plain_fit single nrm m minobj obs wxy wuv center nclip sigma accum r h
  obtain ⟨su, s0, s, hsu, hi, hr, hfin⟩ :=
    iter_unfold single nrm m minobj obs wxy wuv center nclip sigma accum r h
  obtain ⟨hx, hu, _, hw, _, _, _⟩ := setup_ok minobj obs wxy wuv center nclip sigma su hsu
  obtain ⟨hinv, _, _, _⟩ := initState_ok _ _ _ hi
  have hI := run_inv _ _ s0 hinv su.nclip s hr
  have hwl : (wmaskOf obs.length wxy wuv).length = obs.length := wmaskOf_length _ _ _ hx hu
  have hfm : r.fitmask = s.mask := by rw [hfin]; rfl
  have hsub : Clip.Sub r.fitmask (wmaskOf obs.length wxy wuv) := by
    rw [hfm, ← hw]; exact hI.sub
  have hlen : r.fitmask.length = obs.length := by rw [hfm, hI.len, hw, hwl]
  have hcl : (centreObs r.center (wmaskOf obs.length wxy wuv) obs).length = obs.length :=
    centreObs_length _ _ _ hwl
  have hnf := noiseFree_select_centre obs T r.center _ r.fitmask hT hsub
  unfold fitOn at hp
  simp only at hp
  split at hp
  · cases hp
  · next lin hlin =>
    injection hp with hp
    injection hp with h1 _ _
    subst h1
    have hgl := generalW_select_length r.fitmask
      (centreObs r.center (wmaskOf obs.length wxy wuv) obs) wxy wuv (by rw [hlen, hcl])
      (by rw [hcl]; exact hx) (by rw [hcl]; exact hu)
    have := hrec _ _ _ _ _ hlin hgl (hP T r.center hPT) hnf (hQ r.center r.fitmask hlen hsub)
    refine ⟨this, ?_⟩
    rw [this]
    exact recentre_relTo T r.center

theorem recovers_general (eps epsD : K) (heps : 0 < eps) :
    Recovers (fitGeneral eps epsD) (fun _ => True) (fun _ => True) :=
  fun o wx wu L T h hl _ hT _ => C06.exact_recovery_general eps epsD heps o wx wu L h hl T hT

theorem recovers_shift :
    Recovers (K := K) fitShifts (fun T => T.m00 = 1 ∧ T.m01 = 0 ∧ T.m10 = 0 ∧ T.m11 = 1)
      (fun _ => True) := by
  intro o wx wu L T h hl hP hT _
  obtain ⟨a, b, c, d, s, t⟩ := T
  obtain ⟨rfl, rfl, rfl, rfl⟩ := hP
  exact C06.exact_recovery_shift o wx wu L h hl s t hT

end field

theorem recovers_rscale_proper :
    Recovers (K := ℝ) (fun o wx wu => fitRscale o wx wu none) IsProperSim (fun _ => True) :=
  fun o wx wu L T h hl hP hT _ => C06.exact_recovery_rscale_proper o wx wu L h hl T hP hT

/-! ### `rshift`: two positively weighted points at different positions are needed -/

theorem fitRscale_two_pos (o : List (Obs ℝ)) (wx wu : Option (List ℝ)) (sc : Option ℝ) (L : Lin ℝ)
    (h : fitRscale o wx wu sc = .ok L) : 2 ≤ countPos (generalW o wx wu) := by
  unfold fitRscale at h
  split at h
  · cases h
  next hn =>
  have hb : rscaleBad wx wu = false := by
    by_contra hb
    simp only [Bool.not_eq_false] at hb
    cases sc with
    | none => simp [hb] at h
    | some s =>
      by_cases hs : 0 < s
      · simp [hb, hs] at h
      · simp [hs] at h
  unfold generalW
  cases hc : combineW wx wu with
  | none =>
    have : countPos (List.replicate o.length (oneK : ℝ)) = o.length := by
      simp [countPos, zeroK_eq, oneK_eq]
    simp only [this]
    omega
  | some ws =>
    simp only [rscaleBad, hc, Bool.or_eq_false_iff, decide_eq_false_iff_not, not_lt] at hb
    exact hb.2

/-- the unique-source hypothesis survives selection and centring -/
theorem uv_nodup_select_centre (obs : List (Obs ℝ)) (c : ℝ × ℝ) (w fm : List Bool)
    (hl : fm.length = obs.length) (hwl : w.length = obs.length) (hsub : Clip.Sub fm w)
    (hnd : (obs.map fun o => (o.u, o.v)).Nodup) :
    ((select fm (centreObs c w obs)).map fun o => (o.u, o.v)).Nodup := by
  let cen : Obs ℝ → Obs ℝ := fun o => ⟨o.x - c.1, o.y - c.2, o.u - c.1, o.v - c.2⟩
  have h1 : select fm (centreObs c w obs) = select fm (obs.map cen) := by
    apply select_congr
    · rw [centreObs_length c w obs hwl, List.length_map]
    · intro i hi
      have hw := hsub i hi
      unfold Clip.On at hw
      rw [List.getD_eq_getElem?_getD] at hw
      unfold centreObs
      rw [List.getElem?_zipWith, List.getElem?_map]
      cases hwi : w[i]? with
      | none => rw [hwi] at hw; simp at hw
      | some b =>
        rw [hwi] at hw
        simp only [Option.getD_some] at hw
        subst hw
        cases obs[i]? <;> rfl
  rw [h1, select_map, List.map_map]
  have h2 : ((fun o : Obs ℝ => (o.u, o.v)) ∘ cen)
      = (fun q : ℝ × ℝ => (q.1 - c.1, q.2 - c.2)) ∘ (fun o : Obs ℝ => (o.u, o.v)) := rfl
  rw [h2, ← List.map_map]
  apply List.Nodup.map
  · intro a b hab
    simp only [Prod.mk.injEq] at hab
    ext
    · linarith [hab.1]
    · linarith [hab.2]
  · exact List.Nodup.sublist ((select_sublist fm obs).map _) hnd

theorem recovers_rshift_proper :
    Recovers (K := ℝ) (fun o wx wu => fitRscale o wx wu (some 1))
      (fun T => IsProperSim T ∧ T.m00 ^ 2 + T.m01 ^ 2 = 1)
      (fun o => (o.map fun p => (p.u, p.v)).Nodup) := by
  intro o wx wu L T h hl hP hT hQ
  obtain ⟨p, q, hp, hq, hp0, hq0, hne⟩ :=
    two_pos_distinct (generalW o wx wu) o hl (fitRscale_two_pos o wx wu _ L h) hQ
  exact C06.exact_recovery_rshift_proper o wx wu L h hl T hP.1 hP.2 hT p q hp hq hp0 hq0 hne

end TW.C01
