import Proofs.AlignLemmas
/-!
Helper lemmas for the second part of C13 (`Proofs/C13.lean`): outcome of a group handed to
`align_to_ref` (too few matches / degenerate fit / aligned), independence of the groups when the
reference catalog is not expanded, the errors `align_wcs` can end with, argument validation
(`alignWcsEntry`) and `fitWcs`.
-/
open TW TW.C15L
set_option linter.unusedSectionVars false
set_option linter.unusedSimpArgs false
set_option linter.unusedVariables false
set_option linter.unusedTactic false
namespace TW.AlignL
variable {K : Type} [LinearOrder K] [Add K] [NatCast K] [BEq K]

/-! ### `List.Forall₂` -/

theorem forall₂_left {α β : Type} {R : α → β → Prop} {l1 : List α} {l2 : List β} (h : List.Forall₂ R l1 l2) :
    ∀ a ∈ l1, ∃ b ∈ l2, R a b := by
  induction h with
  | nil => intro a ha; cases ha
  | cons hab _ ih =>
    intro a ha
    rcases List.mem_cons.mp ha with rfl | ha
    · exact ⟨_, List.mem_cons_self, hab⟩
    · obtain ⟨b, hb, hr⟩ := ih a ha
      exact ⟨b, List.mem_cons_of_mem _ hb, hr⟩

theorem forall₂_right {α β : Type} {R : α → β → Prop} {l1 : List α} {l2 : List β} (h : List.Forall₂ R l1 l2) :
    ∀ b ∈ l2, ∃ a ∈ l1, R a b := by
  induction h with
  | nil => intro b hb; cases hb
  | cons hab _ ih =>
    intro b hb
    rcases List.mem_cons.mp hb with rfl | hb
    · exact ⟨_, List.mem_cons_self, hab⟩
    · obtain ⟨a, ha, hr⟩ := ih b hb
      exact ⟨a, List.mem_cons_of_mem _ ha, hr⟩

theorem forall₂_get {α β : Type} {R : α → β → Prop} {l1 : List α} {l2 : List β} (h : List.Forall₂ R l1 l2)
    (i : Nat) (a : α) (ha : l1[i]? = some a) : ∃ b, l2[i]? = some b ∧ R a b := by
  induction h generalizing i with
  | nil => simp at ha
  | cons hab _ ih =>
    cases i with
    | zero => simp only [List.getElem?_cons_zero, Option.some.injEq] at ha; subst ha; exact ⟨_, by simp, hab⟩
    | succ j => simp only [List.getElem?_cons_succ] at ha ⊢; exact ih j ha

theorem forall₂_map_eq {α β γ : Type} {R : α → β → Prop} (f : α → γ) (g : β → γ) {l1 : List α} {l2 : List β}
    (h : List.Forall₂ R l1 l2) (hR : ∀ a b, R a b → f a = g b) : l1.map f = l2.map g := by
  induction h with
  | nil => rfl
  | cons hab _ ih => simp only [List.map_cons, hR _ _ hab, ih]

/-! ### the outcome of one group -/

/-- what `align_to_ref` decides for a group, given the reference catalog it is matched against:
`FAILED: not enough matches` below the effective `minobj`, else the failure of a degenerate fit,
else SUCCESS (`none`) -/
def groupOutcome (imgs : List Img) (cfg : AlignCfg) (gr : List Nat) (cat : List RefRow) : Option FailReason :=
  if nMatches imgs cfg gr cat < effMinobj cfg then some .notEnoughMatches
  else (fitFailOf imgs gr).map (·.reason)

theorem fitStep_ok (imgs : List Img) (cfg : AlignCfg) (gr : List Nat) (nm : Nat) (o : Option FailReason)
    (h : fitStep imgs cfg gr nm = .ok o) :
    o = if nm < effMinobj cfg then some .notEnoughMatches else (fitFailOf imgs gr).map (·.reason) := by
  unfold fitStep at h
  split at h
  · next hlt => injection h with h; rw [if_pos hlt, h]
  · next hlt =>
    rw [if_neg hlt]
    split at h
    · next hf => injection h with h; rw [hf, ← h]; rfl
    · next f hf =>
      split at h
      · injection h with h; rw [hf, ← h]; rfl
      · cases h

theorem alignGroup_ok (imgs : List Img) (cfg : AlignCfg) (gr : List Nat) (cat : List RefRow)
    (o : Option FailReason) (un : List (Nat × Nat)) (h : alignGroup imgs cfg gr cat = .ok (o, un)) :
    o = groupOutcome imgs cfg gr cat ∧ cfg.fitgeomKnown = true := by
  unfold alignGroup at h
  split at h
  · cases h
  next hk =>
  refine ⟨?_, by simpa using hk⟩
  unfold groupOutcome nMatches
  simp only at h ⊢
  split at h
  · next hm =>
    split at h
    · cases h
    · next o' ho' =>
      injection h with h; injection h with h1 _
      rw [← h1]
      exact fitStep_ok imgs cfg gr _ o' ho'
  · next hm =>
    split at h
    · cases h
    · split at h
      · cases h
      · next o' ho' =>
        injection h with h; injection h with h1 _
        rw [← h1]
        exact fitStep_ok imgs cfg gr _ o' ho'

theorem groupOutcome_cases (imgs : List Img) (cfg : AlignCfg) (gr : List Nat) (cat : List RefRow) :
    groupOutcome imgs cfg gr cat = none ∨ groupOutcome imgs cfg gr cat = some .notEnoughMatches ∨
    groupOutcome imgs cfg gr cat = some .singularMatrix ∨ groupOutcome imgs cfg gr cat = some .notEnoughPoints := by
  unfold groupOutcome
  split
  · exact Or.inr (Or.inl rfl)
  · cases fitFailOf imgs gr with
    | none => exact Or.inl rfl
    | some f => cases f
                · exact Or.inr (Or.inr (Or.inl rfl))
                · exact Or.inr (Or.inr (Or.inr rfl))

variable (imgs : List Img) (kept : List (List Nat)) (cfg : AlignCfg) (eo : Bool)
  (refArea : List RefRow → Nat → K × Nat)

/-- `cat` is an initial segment of `cat'` -/
def IsPrefix (cat cat' : List RefRow) : Prop := ∃ t, cat' = cat ++ t

/-- every group handed to `align_to_ref` got the outcome `groupOutcome` prescribes for the reference
catalog of that moment (an extension of the initial one; the initial one without `expand_refcat`),
and `nmatches` is the number of its sources found in that catalog -/
theorem alignLoop_outcomes (fuel : Nat) (cur : Option (Nat × K)) (work : List Nat) (cat : List RefRow) :
    let out := alignLoop imgs kept cfg eo refArea fuel cur work cat
    List.Forall₂ (fun (r : List Nat × Option FailReason) (nm : Nat) =>
        ∃ cat', IsPrefix cat cat' ∧ (cfg.expand = false → cat' = cat) ∧
          nm = nMatches imgs cfg r.1 cat' ∧ r.2 = groupOutcome imgs cfg r.1 cat')
      out.results out.nms := by
  induction fuel generalizing cur work cat with
  | zero => simp [alignLoop]
  | succ f ih =>
    cases cur with
    | none => simp [alignLoop]
    | some p =>
      obtain ⟨gi, a⟩ := p
      cases hg : alignGroup imgs cfg (kept.getD gi []) cat with
      | error e => simp only [alignLoop, hg]; exact List.Forall₂.nil
      | ok q =>
        obtain ⟨o, un⟩ := q
        have ho := (alignGroup_ok imgs cfg _ cat o un hg).1
        simp only [alignLoop, hg]
        refine List.Forall₂.cons ⟨cat, ⟨[], by simp⟩, fun _ => rfl, rfl, ho⟩ ?_
        by_cases hgrow : (cfg.expand && (o.isNone || a == zeroK)) = true
        · simp only [hgrow, if_true]
          have hexp : cfg.expand = true := by
            simp only [Bool.and_eq_true] at hgrow; exact hgrow.1
          refine (ih _ _ (cat ++ newRows cat un)).imp ?_
          rintro r nm ⟨cat', ⟨t, ht⟩, _, h3, h4⟩
          exact ⟨cat', ⟨newRows cat un ++ t, by rw [ht, List.append_assoc]⟩,
            fun hc => (by rw [hexp] at hc; cases hc), h3, h4⟩
        · have hgrow' : (cfg.expand && (o.isNone || a == zeroK)) = false := (Bool.not_eq_true _).mp hgrow
          simp only [hgrow', Bool.false_eq_true, if_false]
          exact ih _ _ cat

/-- with an unknown `fitgeom` the first call of `align_to_ref` dies: nothing is aligned -/
theorem alignLoop_unknown_fitgeom (hk : cfg.fitgeomKnown = false) (fuel : Nat) (cur : Option (Nat × K))
    (work : List Nat) (cat : List RefRow) :
    (alignLoop imgs kept cfg eo refArea fuel cur work cat).results = [] := by
  cases fuel with
  | zero => simp [alignLoop]
  | succ f =>
    cases cur with
    | none => simp [alignLoop]
    | some p =>
      obtain ⟨gi, a⟩ := p
      have : alignGroup imgs cfg (kept.getD gi []) cat = .error .fitgeomKeyError := by
        unfold alignGroup; simp [hk]
      simp only [alignLoop, this]

/-! ### two inputs that differ only in the fit flags -/

theorem getD_sources (imgs imgs' : List Img) (h : imgs.map (·.sources) = imgs'.map (·.sources)) (k : Nat) :
    (imgs.getD k default).sources = (imgs'.getD k default).sources := by
  have h1 : (imgs.map (·.sources)).getD k [] = (imgs.getD k default).sources := by
    simp only [List.getD_eq_getElem?_getD, List.getElem?_map]
    cases imgs[k]? <;> rfl
  have h2 : (imgs'.map (·.sources)).getD k [] = (imgs'.getD k default).sources := by
    simp only [List.getD_eq_getElem?_getD, List.getElem?_map]
    cases imgs'[k]? <;> rfl
  rw [← h1, ← h2, h]

section shape
variable (imgs' : List Img) (hs : ∀ k, (imgs.getD k default).sources = (imgs'.getD k default).sources)
include hs

theorem groupSources_shape (gr : List Nat) : groupSources imgs gr = groupSources imgs' gr := by
  unfold groupSources
  congr 1
  funext k
  rw [hs k]

theorem rowsOfGroup_shape (gr : List Nat) : rowsOfGroup imgs gr = rowsOfGroup imgs' gr := by
  unfold rowsOfGroup
  congr 1
  funext k
  rw [hs k]

theorem dropEmpty_shape (groups : List (List Nat)) : dropEmpty imgs groups = dropEmpty imgs' groups := by
  induction groups with
  | nil => rfl
  | cons gr t ih => simp only [dropEmpty, ih, groupSources_shape imgs imgs' hs]

theorem nMatches_shape (gr : List Nat) (cat : List RefRow) :
    nMatches imgs cfg gr cat = nMatches imgs' cfg gr cat := by
  unfold nMatches
  rw [groupSources_shape imgs imgs' hs]

theorem alignStart_shape (refIn : Option (List Nat × Option (List Int))) (pairG : List (List (K × Nat))) :
    alignStart imgs kept eo refIn pairG refArea = alignStart imgs' kept eo refIn pairG refArea := by
  unfold alignStart
  cases refIn with
  | none => simp only [rowsOfGroup_shape imgs imgs' hs]
  | some p => rfl

/-- `align_to_ref` on two inputs that differ only in the fit flags: same error, or same unmatched
sources and — when the flag of this group is the same — same outcome -/
theorem alignGroup_shape (hc : cfg.catchFit = true) (gr : List Nat) (cat : List RefRow) :
    (∃ e, alignGroup imgs cfg gr cat = .error e ∧ alignGroup imgs' cfg gr cat = .error e) ∨
    (∃ o o' un, alignGroup imgs cfg gr cat = .ok (o, un) ∧ alignGroup imgs' cfg gr cat = .ok (o', un) ∧
      (fitFailOf imgs gr = fitFailOf imgs' gr → o = o')) := by
  cases h : alignGroup imgs cfg gr cat with
  | error e =>
    left
    refine ⟨e, rfl, ?_⟩
    rcases alignGroup_err imgs cfg gr cat e h with ⟨h1, h2⟩ | ⟨h1, h2⟩ | ⟨f, _, h2⟩
    · subst h1; unfold alignGroup; simp [h2]
    · subst h1
      -- the length test does not look at the flags
      unfold alignGroup at h ⊢
      split at h
      · cases h
      next hk =>
      rw [if_neg hk]
      simp only [h2] at h ⊢
      rw [← groupSources_shape imgs imgs' hs]
      split at h
      · next hne => rw [if_pos hne]
      · split at h
        · next e' he' =>
          obtain ⟨f, _, hcf, _⟩ := fitStep_err imgs cfg gr _ e' he'
          rw [hc] at hcf; cases hcf
        · cases h
    · rw [hc] at h2; cases h2
  | ok q =>
    right
    obtain ⟨o, un⟩ := q
    have hun := alignGroup_un imgs cfg gr cat o un h
    obtain ⟨ho, hk⟩ := alignGroup_ok imgs cfg gr cat o un h
    cases h' : alignGroup imgs' cfg gr cat with
    | error e' =>
      exfalso
      rcases alignGroup_err imgs' cfg gr cat e' h' with ⟨_, h2⟩ | ⟨h1, h2⟩ | ⟨f, _, h2⟩
      · rw [hk] at h2; cases h2
      · subst h1
        unfold alignGroup at h h'
        rw [if_neg (by simp [hk])] at h h'
        simp only [h2] at h h'
        rw [← groupSources_shape imgs imgs' hs] at h'
        split at h
        · cases h
        · next hne =>
          rw [if_neg hne] at h'
          split at h'
          · next e'' he'' =>
            obtain ⟨f, _, hcf, _⟩ := fitStep_err imgs' cfg gr _ e'' he''
            rw [hc] at hcf; cases hcf
          · cases h'
      · rw [hc] at h2; cases h2
    | ok q' =>
      obtain ⟨o', un'⟩ := q'
      have hun' := alignGroup_un imgs' cfg gr cat o' un' h'
      have ho' := (alignGroup_ok imgs' cfg gr cat o' un' h').1
      have hunEq : un' = un := by
        rw [hun, hun']
        unfold unmatchedOf
        rw [groupSources_shape imgs imgs' hs]
      refine ⟨o, o', un, rfl, by rw [hunEq], ?_⟩
      intro hf
      rw [ho, ho']
      unfold groupOutcome
      rw [nMatches_shape imgs cfg imgs' hs, hf]

/-- without `expand_refcat` the loop treats every group on its own: two inputs that differ only
in the fit flags give the same order, `nmatches`, errors and catalog, and the same outcome for
every group whose flag is the same in both -/
theorem alignLoop_isolated (hc : cfg.catchFit = true) (hx : cfg.expand = false) (fuel : Nat)
    (cur : Option (Nat × K)) (work : List Nat) (cat : List RefRow) :
    let out := alignLoop imgs kept cfg eo refArea fuel cur work cat
    let out' := alignLoop imgs' kept cfg eo refArea fuel cur work cat
    out.err = out'.err ∧ out.nms = out'.nms ∧ out.refcat = out'.refcat ∧ out.expansions = out'.expansions ∧
    List.Forall₂ (fun (r r' : List Nat × Option FailReason) =>
      r.1 = r'.1 ∧ (fitFailOf imgs r.1 = fitFailOf imgs' r.1 → r.2 = r'.2)) out.results out'.results := by
  induction fuel generalizing cur work cat with
  | zero => simp [alignLoop]
  | succ f ih =>
    cases cur with
    | none => simp [alignLoop]
    | some p =>
      obtain ⟨gi, a⟩ := p
      rcases alignGroup_shape imgs cfg imgs' hs hc (kept.getD gi []) cat with
        ⟨e, h1, h2⟩ | ⟨o, o', un, h1, h2, h3⟩
      · simp only [alignLoop, h1, h2]
        exact ⟨trivial, trivial, trivial, trivial, List.Forall₂.nil⟩
      · simp only [alignLoop, h1, h2, hx, Bool.false_and, Bool.false_eq_true, if_false, List.nil_append]
        obtain ⟨i1, i2, i3, i4, i5⟩ := ih (nextImage eo refArea work cat).1 (nextImage eo refArea work cat).2 cat
        refine ⟨i1, ?_, i3, i4, List.Forall₂.cons ⟨rfl, h3⟩ i5⟩
        rw [i2, nMatches_shape imgs cfg imgs' hs]
end shape

/-! ### the errors `align_wcs` can end with -/

variable (refIn : Option (List Nat × Option (List Int))) (pairG : List (List (K × Nat)))

/-- `alignStart` can only fail with `indexError` -/
theorem alignStart_err (e : AlignErr) (hst : alignStart imgs kept eo refIn pairG refArea = .error e) :
    e = .indexError := by
  unfold alignStart at hst
  split at hst
  · split at hst
    · injection hst with hst; exact hst.symm
    · split at hst
      · cases hst
      · injection hst with hst; exact hst.symm
  · cases hst

/-- how a run of `alignWcs` can end, with what it had written -/
theorem alignWcs_ends :
    (alignWcs imgs refIn cfg pairG refArea = alignFail .emptyRefcat [] ∧ refEmpty refIn = true) ∨
    (alignWcs imgs refIn cfg pairG refArea =
        alignFail .notEnoughCatalogs (dropEmpty imgs (formGroups (imgs.map (·.gid)))).2) ∨
    (alignWcs imgs refIn cfg pairG refArea =
        alignFail .indexError (dropEmpty imgs (formGroups (imgs.map (·.gid)))).2 ∧
      alignStart imgs (dropEmpty imgs (formGroups (imgs.map (·.gid)))).1 (cfg.enforce || !cfg.expand) refIn
        pairG refArea = .error .indexError ∧
      ¬ ((refIn.isNone = true ∧ (dropEmpty imgs (formGroups (imgs.map (·.gid)))).1.length < 2) ∨
          (dropEmpty imgs (formGroups (imgs.map (·.gid)))).1.length = 0)) ∨
    (∃ st, refEmpty refIn = false ∧
      alignStart imgs (dropEmpty imgs (formGroups (imgs.map (·.gid)))).1 (cfg.enforce || !cfg.expand) refIn
        pairG refArea = .ok st ∧
      let out := alignLoop imgs (dropEmpty imgs (formGroups (imgs.map (·.gid)))).1 cfg
        (cfg.enforce || !cfg.expand) refArea
        ((dropEmpty imgs (formGroups (imgs.map (·.gid)))).1.length + 1) st.cur st.work st.cat
      (alignWcs imgs refIn cfg pairG refArea).err = out.err ∧
      (alignWcs imgs refIn cfg pairG refArea).order = out.results.map (·.1) ∧
      (alignWcs imgs refIn cfg pairG refArea).outcomes = out.results.map (·.2) ∧
      (alignWcs imgs refIn cfg pairG refArea).nms = out.nms ∧
      (alignWcs imgs refIn cfg pairG refArea).initial = st.cat ∧
      (alignWcs imgs refIn cfg pairG refArea).refcat = out.refcat ∧
      (alignWcs imgs refIn cfg pairG refArea).events =
        (dropEmpty imgs (formGroups (imgs.map (·.gid)))).2 ++ st.ev1 ++ out.results.flatMap blockEvents) := by
  unfold alignWcs
  by_cases he : refEmpty refIn = true
  · left; rw [if_pos he]; exact ⟨rfl, he⟩
  rw [if_neg he]
  simp only []
  split
  · right; left; rfl
  next hne =>
  · split
    · next e hst =>
      right; right; left
      have he' := alignStart_err imgs _ _ refArea refIn pairG e hst
      subst he'
      exact ⟨rfl, hst, hne⟩
    · next st hst =>
      right; right; right
      refine ⟨st, by simpa using he, hst, ?_⟩
      refine ⟨?_, ?_, ?_, ?_, ?_, ?_, ?_⟩ <;> first | rfl | trivial

/-- the REFERENCE block written by `alignStart` -/
theorem alignStart_ev1 (st : Start K) (hst : alignStart imgs kept eo refIn pairG refArea = .ok st) :
    ∃ gr : List Nat, st.ev1 = gr.map fun k => Event.status k .reference := by
  unfold alignStart at hst
  split at hst
  · split at hst
    · cases hst
    · split at hst
      · injection hst with hst; exact ⟨_, by rw [← hst]⟩
      · cases hst
  · injection hst with hst; exact ⟨[], by rw [← hst]; rfl⟩


/-! ### `alignWcs` on two inputs that differ only in the fit flags -/

/-- `alignWcs imgs` with the alignment loop run on the image list `li` -/
def alignWcsWith (li : List Img) : AlignOut :=
  if refEmpty refIn then alignFail .emptyRefcat [] else
  let de := dropEmpty imgs (formGroups (imgs.map (·.gid)))
  let kept := de.1
  let n := kept.length
  if (refIn.isNone ∧ n < 2) ∨ n = 0 then alignFail .notEnoughCatalogs de.2 else
  let eo := cfg.enforce || !cfg.expand
  match alignStart imgs kept eo refIn pairG refArea with
  | .error e => alignFail e de.2
  | .ok st =>
    let out := alignLoop li kept cfg eo refArea (n + 1) st.cur st.work st.cat
    { err := out.err, events := de.2 ++ st.ev1 ++ out.results.flatMap blockEvents,
      order := out.results.map (·.1), nms := out.nms, outcomes := out.results.map (·.2), initial := st.cat,
      expansions := out.expansions, refcat := out.refcat }

theorem alignWcsWith_self : alignWcsWith imgs cfg refArea refIn pairG imgs = alignWcs imgs refIn cfg pairG refArea := rfl

theorem alignWcsWith_shape (imgs' : List Img) (hgid : imgs.map (·.gid) = imgs'.map (·.gid))
    (hs : ∀ k, (imgs.getD k default).sources = (imgs'.getD k default).sources) :
    alignWcsWith imgs cfg refArea refIn pairG imgs' = alignWcs imgs' refIn cfg pairG refArea := by
  unfold alignWcsWith alignWcs
  rw [← hgid, ← dropEmpty_shape imgs imgs' hs]
  simp only [alignStart_shape imgs _ _ refArea imgs' hs]
  rfl


/-- how `fitWcs` can end: nothing written, only the initial status, or initial status plus the
block of the image -/
theorem fitWcs_events_cases (a : FitArgs) :
    (fitWcs a).events = [] ∨ (fitWcs a).events = [Event.status 0 (.failed .unknownError)] ∨
    ∃ o, (fitWcs a).err = none ∧
      (fitWcs a).events = Event.status 0 (.failed .unknownError) :: blockEvents ([0], o) := by
  unfold fitWcs
  by_cases hw : (!a.metaWritable) = true
  · rw [if_pos hw]; exact Or.inl rfl
  rw [if_neg hw]
  cases hfg : a.fitgeom with
  | notString => exact Or.inr (Or.inl rfl)
  | unknown => exact Or.inr (Or.inl rfl)
  | known fitmin =>
    simp only
    by_cases h1 : a.cat ≠ .ok
    · rw [if_pos h1]; exact Or.inr (Or.inl rfl)
    rw [if_neg h1]
    by_cases h2 : (!a.refHasRADEC) = true
    · rw [if_pos h2]; exact Or.inr (Or.inl rfl)
    rw [if_neg h2]
    by_cases h3 : a.refSrcs.isEmpty = true
    · rw [if_pos h3]; exact Or.inr (Or.inl rfl)
    rw [if_neg h3]
    cases hg : alignGroup [a.img] { expand := false, enforce := true, minobj := fitmin, fitmin := fitmin,
                                    mode := .none1to1 } [0] (rowsOfTable a.refSrcs none) with
    | error e => exact Or.inr (Or.inl rfl)
    | ok q => exact Or.inr (Or.inr ⟨q.1, rfl, rfl⟩)

end TW.AlignL
