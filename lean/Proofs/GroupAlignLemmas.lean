import Model.GroupAlign
import Proofs.C11
import Proofs.C01
import Proofs.C09

/-!
Helper lemmas for the group-level composition `TW.GA.groupAlignToRef` (`Model/GroupAlign.lean`); the property
theorems are in the last section of `Proofs/C05.lean`.

* plumbing: `applyFrom_getElem?` (every member, empty ones included, gets `set_correction` with the same
  arguments), `wOf_some`, the adapter lemmas `fit2refWith_eq_fitPairs` (the fit is `fit2refWith` of
  `Model/PairWeights.lean`) and `groupAlignToRef_eq_alignToRef` (the state and the return value are those of
  `GC.alignToRef` with the fitter and the corrected WCS made concrete), the inversion `fit_inv` of a successful
  run;
* `Current`: the `RA`, `DEC` columns of the group catalog are the members' current `det_to_world` (true at
  construction, after `recalc_catalog_radec`, after a successful alignment);
* `Applies`: the one-corrector statement "reported = applied" as a property of a corrector class (proved for the
  two instantiations from `C01.fits_reported_is_applied` / `C01.gwcs_reported_is_applied`);
* `rows_after`, `pairs_of_rows`, `obs_noiseFree`: the index-correct link between pairs, group rows and members.
-/
open TW TW.GC TW.GCL TW.GA
set_option linter.unusedSectionVars false
set_option linter.unusedVariables false

namespace TW.GAL

/-! ### plumbing -/
section plumbing
variable {C K : Type}

@[simp] theorem toV_ofV (v : V2 K) : toV (ofV v) = v := by cases v; rfl
@[simp] theorem ofV_toV (p : K × K) : ofV (toV p) = p := rfl

theorem applyFrom_length (ops : CorrOps C K) (M : M2 K) (s : V2 K) :
    ∀ (ms : List (GMember C K)) (pos : Nat), (applyFrom ops M s pos ms).length = ms.length
  | [], _ => rfl
  | m :: t, pos => by simp [applyFrom, applyFrom_length ops M s t (pos + 1)]

theorem applyFrom_getElem? (ops : CorrOps C K) (M : M2 K) (s : V2 K) :
    ∀ (ms : List (GMember C K)) (pos i : Nat), (applyFrom ops M s pos ms)[i]? =
      (ms[i]?).map fun m => { m with corr := ops.setCorr (pos + i) m.corr M s }
  | [], _, _ => by simp [applyFrom]
  | m :: t, pos, 0 => by simp [applyFrom]
  | m :: t, pos, i + 1 => by
    simp only [applyFrom, List.getElem?_cons_succ]
    rw [applyFrom_getElem? ops M s t (pos + 1) i]
    have : pos + 1 + i = pos + (i + 1) := by omega
    rw [this]

theorem applyFrom_cats (ops : CorrOps C K) (M : M2 K) (s : V2 K) :
    ∀ (ms : List (GMember C K)) (pos : Nat), (applyFrom ops M s pos ms).map (·.cat) = ms.map (·.cat)
  | [], _ => rfl
  | m :: t, pos => by simp [applyFrom, applyFrom_cats ops M s t (pos + 1)]

/-- `apply_affine_to_wcs`: the member at position `p` — whatever its catalog — keeps its catalog and gets
`set_correction(M, s, ref_tpwcs)` -/
theorem apply_getElem? (ops : CorrOps C K) (ms : List (GMember C K)) (M : M2 K) (s : V2 K) (p : Nat)
    (m : GMember C K) (h : ms[p]? = some m) :
    (applyAffineToWcs ops ms M s)[p]? = some ⟨ops.setCorr p m.corr M s, m.cat⟩ := by
  unfold applyAffineToWcs
  rw [applyFrom_getElem?, h]
  simp

theorem apply_length (ops : CorrOps C K) (ms : List (GMember C K)) (M : M2 K) (s : V2 K) :
    (applyAffineToWcs ops ms M s).length = ms.length := applyFrom_length ops M s ms 0

theorem apply_cats (ops : CorrOps C K) (ms : List (GMember C K)) (M : M2 K) (s : V2 K) :
    (applyAffineToWcs ops ms M s).map (·.cat) = ms.map (·.cat) := applyFrom_cats ops M s ms 0

theorem wOf_some (ops : CorrOps C K) (ms : List (GMember C K)) (p : Nat) (m : GMember C K)
    (h : ms[p]? = some m) (xy : K × K) : wOf ops ms p xy = ofV (ops.detToWorld p m.corr (toV xy)) := by
  simp [wOf, h]

theorem cat_getElem? (ms : List (GMember C K)) (p : Nat) (mc : Member K)
    (h : (ms.map (·.cat))[p]? = some mc) : ∃ gm, ms[p]? = some gm ∧ gm.cat = mc := by
  rw [List.getElem?_map] at h
  cases hg : ms[p]? with
  | none => rw [hg] at h; cases h
  | some gm =>
    rw [hg] at h
    simp only [Option.map_some, Option.some.injEq] at h
    exact ⟨gm, rfl, h⟩

end plumbing

/-! ### the fit: adapters -/
section fit
variable {K : Type} [Add K] [Sub K] [Mul K] [Div K] [Neg K] [LT K] [DecidableLT K] [NatCast K]

/-- `fitPairs` on the arrays selected by `fit2refArgs` IS `fit2refWith` -/
theorem fit2refWith_eq_fitPairs (c : FitCfg K) (refXY : List (K × K)) (refW : Option (List K))
    (imXY : List (K × K)) (imW : Option (List K)) (refIdx inIdx : List Nat) :
    fit2refWith c.single c.normalised c.metric c.fitMinobj refXY refW imXY imW refIdx inIdx c.nclip c.sigma c.accum
      = match fit2refArgs refXY refW imXY imW refIdx inIdx with
        | none => .error (.inl .indexError)
        | some a =>
          match fitPairs c a with
          | .error e => .error (.inr e)
          | .ok r => .ok r := by
  unfold fit2refWith fitPairs
  cases fit2refArgs refXY refW imXY imW refIdx inIdx with
  | none => rfl
  | some a =>
    simp only
    cases iterLinearFitWith c.single c.normalised c.metric c.fitMinobj (List.zipWith mkObs a.xy a.uv) a.wxy a.wuv
      none c.nclip c.sigma c.accum <;> rfl

theorem fitPairs_ok (c : FitCfg K) (a : PairArgs K) (r : IterRes K) (sh : K × K)
    (h : fitPairs c a = .ok (r, sh)) :
    iterLinearFitWith c.single c.normalised c.metric c.fitMinobj (List.zipWith mkObs a.xy a.uv) a.wxy a.wuv
      none c.nclip c.sigma c.accum = .ok r ∧ sh = recentre r.lin r.center := by
  unfold fitPairs at h
  cases hi : iterLinearFitWith c.single c.normalised c.metric c.fitMinobj (List.zipWith mkObs a.xy a.uv) a.wxy a.wuv
      none c.nclip c.sigma c.accum with
  | error e => rw [hi] at h; cases h
  | ok r' =>
    rw [hi] at h
    simp only [Except.ok.injEq, Prod.mk.injEq] at h
    obtain ⟨h1, h2⟩ := h
    subst h1
    exact ⟨rfl, h2.symm⟩

variable {C : Type}

/-- **adapter**: the state and the return value of `groupAlignToRef` are those of `GC.alignToRef` when its
external parameters are made concrete: the fitter is `iter_linear_fit` on the selected pairs, the WCS after the
correction are the `det_to_world` of the corrected members -/
theorem groupAlignToRef_eq_alignToRef (ops : CorrOps C K) (cfg : FitCfg K) (ms : List (GMember C K))
    (st : GState K) (ref : RefCat K) (m : Option (List Int × List Int)) (minobj : Option Nat) (fitmin : Nat) :
    alignToRef st (alignArgsOf ops cfg (groupAlignToRef ops cfg ms st ref m minobj fitmin).members ref m minobj fitmin)
      = ⟨(groupAlignToRef ops cfg ms st ref m minobj fitmin).st,
         (groupAlignToRef ops cfg ms st ref m minobj fitmin).res⟩ := by
  unfold alignToRef groupAlignToRef alignArgsOf
  by_cases he : st.memberLens.isEmpty = true
  · simp only [if_pos he]
  · simp only [if_neg he]
    cases hres : (match2ref (calcTanpXY st (tOf ops)) ref.ids m).res with
    | error e => simp only [hres]
    | ok r =>
      obtain ⟨n, mr, mi⟩ := r
      simp only [hres]
      by_cases hn : n < effMinobj minobj fitmin
      · simp only [if_pos hn]
      · simp only [if_neg hn]
        cases hf : fit2refSel (match2ref (calcTanpXY st (tOf ops)) ref.ids m).st (ref.radec.map (tOf ops)) ref.weight with
        | error e => simp only [hf]
        | ok pa =>
          simp only [hf, fitOutcome]
          cases hp : fitPairs cfg pa with
          | error e =>
            simp only [hp]
            cases ho : outcomeOfErr e <;> simp only [ho]
            · cases e <;> simp [outcomeOfErr] at ho
          | ok rs =>
            obtain ⟨r, sh⟩ := rs
            simp only [hp]

/-- the branches of `groupAlignToRef`: either no fit was written (and the method did not return `True`), or every
step was passed -/
theorem ga_cases (ops : CorrOps C K) (cfg : FitCfg K) (ms : List (GMember C K))
    (st : GState K) (ref : RefCat K) (m : Option (List Int × List Int)) (minobj : Option Nat) (fitmin : Nat) :
    ((groupAlignToRef ops cfg ms st ref m minobj fitmin).fit = none ∧
      ∀ pa, (groupAlignToRef ops cfg ms st ref m minobj fitmin).res ≠ .ok (true, some pa)) ∨
    ∃ n mr mi pa r, (match2ref (calcTanpXY st (tOf ops)) ref.ids m).res = .ok (n, mr, mi) ∧
      effMinobj minobj fitmin ≤ n ∧
      fit2refSel (match2ref (calcTanpXY st (tOf ops)) ref.ids m).st (ref.radec.map (tOf ops)) ref.weight = .ok pa ∧
      fitPairs cfg pa = .ok (r, recentre r.lin r.center) ∧
      groupAlignToRef ops cfg ms st ref m minobj fitmin =
        ⟨recalcCatalogRadec (match2ref (calcTanpXY st (tOf ops)) ref.ids m).st
            (wOf ops (applyAffineToWcs ops ms (reportedOf r (recentre r.lin r.center)).m
              (reportedOf r (recentre r.lin r.center)).t)),
          applyAffineToWcs ops ms (reportedOf r (recentre r.lin r.center)).m
            (reportedOf r (recentre r.lin r.center)).t,
          .ok (true, some pa), some (r, reportedOf r (recentre r.lin r.center))⟩ := by
  by_cases he : st.memberLens.isEmpty = true
  · left
    unfold groupAlignToRef
    simp [he]
  · cases hres : (match2ref (calcTanpXY st (tOf ops)) ref.ids m).res with
    | error e =>
      left
      unfold groupAlignToRef
      simp [he, hres]
    | ok r0 =>
      obtain ⟨n, mr, mi⟩ := r0
      by_cases hn : n < effMinobj minobj fitmin
      · left
        unfold groupAlignToRef
        simp [he, hres, hn]
      · cases hf : fit2refSel (match2ref (calcTanpXY st (tOf ops)) ref.ids m).st (ref.radec.map (tOf ops)) ref.weight with
        | error e =>
          left
          unfold groupAlignToRef
          simp [he, hres, hn, hf]
        | ok pa =>
          cases hp : fitPairs cfg pa with
          | error e =>
            left
            unfold groupAlignToRef
            cases e <;> simp [he, hres, hn, hf, hp, outcomeOfErr]
          | ok rs =>
            obtain ⟨r, sh⟩ := rs
            obtain ⟨_, hsh⟩ := fitPairs_ok cfg pa r sh hp
            subst hsh
            right
            refine ⟨n, mr, mi, pa, r, rfl, by omega, rfl, hp, ?_⟩
            unfold groupAlignToRef
            simp [he, hres, hn, hf, hp]

/-- a run that wrote a fit went through every step -/
theorem fit_inv (ops : CorrOps C K) (cfg : FitCfg K) (ms : List (GMember C K))
    (st : GState K) (ref : RefCat K) (m : Option (List Int × List Int)) (minobj : Option Nat) (fitmin : Nat)
    (r : IterRes K) (f : Aff K)
    (h : (groupAlignToRef ops cfg ms st ref m minobj fitmin).fit = some (r, f)) :
    ∃ n mr mi pa, (match2ref (calcTanpXY st (tOf ops)) ref.ids m).res = .ok (n, mr, mi) ∧
      effMinobj minobj fitmin ≤ n ∧
      fit2refSel (match2ref (calcTanpXY st (tOf ops)) ref.ids m).st (ref.radec.map (tOf ops)) ref.weight = .ok pa ∧
      fitPairs cfg pa = .ok (r, recentre r.lin r.center) ∧
      f = reportedOf r (recentre r.lin r.center) ∧
      (groupAlignToRef ops cfg ms st ref m minobj fitmin).members = applyAffineToWcs ops ms f.m f.t ∧
      (groupAlignToRef ops cfg ms st ref m minobj fitmin).res = .ok (true, some pa) ∧
      (groupAlignToRef ops cfg ms st ref m minobj fitmin).st =
        recalcCatalogRadec (match2ref (calcTanpXY st (tOf ops)) ref.ids m).st
          (wOf ops (applyAffineToWcs ops ms f.m f.t)) := by
  rcases ga_cases ops cfg ms st ref m minobj fitmin with ⟨hnone, _⟩ | ⟨n, mr, mi, pa, r', h1, h2, h3, h4, h5⟩
  · rw [hnone] at h; cases h
  · rw [h5] at h ⊢
    simp only [Option.some.injEq, Prod.mk.injEq] at h
    obtain ⟨e1, e2⟩ := h
    subst e1
    subst e2
    exact ⟨n, mr, mi, pa, h1, h2, h3, h4, rfl, rfl, rfl, rfl⟩

/-- a run that returned `True` wrote a fit -/
theorem fit_of_true (ops : CorrOps C K) (cfg : FitCfg K) (ms : List (GMember C K))
    (st : GState K) (ref : RefCat K) (m : Option (List Int × List Int)) (minobj : Option Nat) (fitmin : Nat)
    (pa : PairArgs K)
    (h : (groupAlignToRef ops cfg ms st ref m minobj fitmin).res = .ok (true, some pa)) :
    ∃ r f, (groupAlignToRef ops cfg ms st ref m minobj fitmin).fit = some (r, f) := by
  rcases ga_cases ops cfg ms st ref m minobj fitmin with ⟨_, hne⟩ | ⟨n, mr, mi, pa', r', h1, h2, h3, h4, h5⟩
  · exact absurd h (hne pa)
  · rw [h5]; exact ⟨_, _, rfl⟩

/-- `match=None` is the matcher answer `(arange n, arange n)` (when the catalogs have equal lengths; otherwise
`match2ref` raises) -/
theorem ga_none_eq_some (ops : CorrOps C K) (cfg : FitCfg K) (ms : List (GMember C K))
    (st : GState K) (ref : RefCat K) (minobj : Option Nat) (fitmin : Nat)
    (hl : st.catlen = ref.ids.length) (hne : st.catlen ≠ 0) :
    groupAlignToRef ops cfg ms st ref none minobj fitmin
      = groupAlignToRef ops cfg ms st ref (some (arange st.catlen, arange st.catlen)) minobj fitmin := by
  have e : (calcTanpXY st (tOf ops)).catlen = st.catlen := rfl
  have h : match2ref (calcTanpXY st (tOf ops)) ref.ids none
      = match2ref (calcTanpXY st (tOf ops)) ref.ids (some (arange st.catlen, arange st.catlen)) := by
    rw [match2ref_none _ _ (by rw [e]; exact hl), match2ref_some _ _ _ _ rfl (by rw [e]; exact hne), e,
      arange_length]
  unfold groupAlignToRef
  simp only [h]

end fit

/-! ### rows, members, pairs -/
section group
variable {C K : Type}

/-- the `RA`, `DEC` columns of the group catalog are current: every row carries `det_to_world` of the member it
came from (position `p` of the member list, empty members counted) in that member's present corrector state -/
def Current (ops : CorrOps C K) (ms : List (GMember C K)) (st : GState K) : Prop :=
  ∀ (i : Nat) (row : GRow K) (p : Nat), st.rows[i]? = some row → (nonEmptyPos st.memberLens)[row.imcatIdx]? = some p →
    row.radec = wOf ops ms p row.xy

/-- a freshly built group catalog is current -/
theorem current_fresh (ops : CorrOps C K) (ms : List (GMember C K)) (st0 : GState K)
    (hc : createGroupOf ops ms = .ok st0) : Current ops ms st0 := by
  intro i row p hrow hp
  unfold createGroupOf at hc
  obtain ⟨_, hlens, _⟩ := createGroup_fields _ _ _ hc
  obtain ⟨_, _, hcv⟩ := C11.imcat_idx_spec _ _ _ hc []
  obtain ⟨m, j, hm, hj, hr⟩ := hcv i row hrow
  obtain ⟨p', hp', _, hrows⟩ := C11.create_radec_own_member _ _ _ hc row.imcatIdx m hm
  rw [hlens, hp'] at hp
  injection hp with hp
  subst hp
  have h2 := hrows j hj
  rw [← hr] at h2
  have h3 : st0.rows[i]? = some row := hrow
  rw [h3] at h2
  injection h2 with h2
  rw [h2]

/-- … and so is the catalog after `recalc_catalog_radec`, whatever happened before -/
theorem current_recalc (w0 : Nat → K × K → K × K) (ops : CorrOps C K) (ms : List (GMember C K)) (st0 : GState K)
    (hc : createGroup w0 (ms.map (·.cat)) = .ok st0) (hist : List (GC.GOp K)) :
    Current ops ms (recalcCatalogRadec (run st0 hist) (wOf ops ms)) := by
  intro i row p hrow hp
  obtain ⟨_, hlens, _⟩ := createGroup_fields _ _ _ hc
  have hinv := inv_run hist st0 (inv_create w0 _ st0 hc)
  obtain ⟨p', m, j, hp', _, _, _, _, _, hradec⟩ :=
    C11.recalc_uses_own_member w0 _ st0 hc hist (wOf ops ms) i row hrow
  have hl : (recalcCatalogRadec (run st0 hist) (wOf ops ms)).memberLens
      = (ms.map (·.cat)).map (·.rows.length) := by
    simp only [recalcCatalogRadec]; rw [hinv.lens, hlens]
  rw [hl, hp'] at hp
  injection hp with hp
  subst hp
  exact hradec

/-- rows of a state reached by any history have the structural columns of the rows at construction -/
theorem core_getElem? (w0 : Nat → K × K → K × K) (mc : List (Member K)) (st0 : GState K)
    (hc : createGroup w0 mc = .ok st0) (h1 h2 : List (GC.GOp K)) (i : Nat) (row : GRow K)
    (hrow : (run st0 h1).rows[i]? = some row) :
    ∃ old, (run st0 h2).rows[i]? = some old ∧ old.core = row.core := by
  have i1 := inv_run h1 st0 (inv_create w0 _ st0 hc)
  have i2 := inv_run h2 st0 (inv_create w0 _ st0 hc)
  have e : ((run st0 h2).rows.map GRow.core)[i]? = ((run st0 h1).rows.map GRow.core)[i]? := by
    rw [i1.core, i2.core]
  rw [List.getElem?_map, List.getElem?_map, hrow] at e
  cases ho : (run st0 h2).rows[i]? with
  | none => rw [ho] at e; cases e
  | some old =>
    rw [ho] at e
    simp only [Option.map_some, Option.some.injEq] at e
    exact ⟨old, rfl, e⟩

/-- **rows after `calc_tanp_xy`, `match2ref`, correction of the members, `recalc_catalog_radec`** — index-correct:
row `i` of the final catalog is the `j`-th source of the member at position `p` (`_imcat_idx` counts the non-empty
members, `p` counts all), its old sky position was `det_to_world` of that member's OLD corrector `gm`, its new
one is `det_to_world` of that member's NEW corrector `gm'` -/
theorem rows_after (w0 : Nat → K × K → K × K) (ops : CorrOps C K) (ms ms' : List (GMember C K)) (st0 : GState K)
    (hc : createGroup w0 (ms.map (·.cat)) = .ok st0) (hist : List (GC.GOp K))
    (hcur : Current ops ms (run st0 hist)) (hcats : ms'.map (·.cat) = ms.map (·.cat))
    (t : K × K → K × K) (refIds : List Int) (m : Option (List Int × List Int)) (i : Nat) (row' : GRow K)
    (hrow : (recalcCatalogRadec (match2ref (calcTanpXY (run st0 hist) t) refIds m).st (wOf ops ms')).rows[i]?
      = some row') :
    ∃ old p gm gm' j, (run st0 hist).rows[i]? = some old ∧ old.core = row'.core ∧
      (nonEmptyPos ((ms.map (·.cat)).map (·.rows.length)))[row'.imcatIdx]? = some p ∧
      ms[p]? = some gm ∧ ms'[p]? = some gm' ∧ gm'.cat = gm.cat ∧
      (nonEmptyCats (ms.map (·.cat)))[row'.imcatIdx]? = some gm.cat ∧
      (∃ hj : j < gm.cat.rows.length, i = groupOffset (nonEmptyCats (ms.map (·.cat))) row'.imcatIdx + j ∧
        row'.id = (gm.cat.rows[j]).id ∧ row'.xy = (gm.cat.rows[j]).xy) ∧
      old.radec = ofV (ops.detToWorld p gm.corr (toV row'.xy)) ∧
      row'.radec = ofV (ops.detToWorld p gm'.corr (toV row'.xy)) := by
  have hrun : recalcCatalogRadec (match2ref (calcTanpXY (run st0 hist) t) refIds m).st (wOf ops ms')
      = recalcCatalogRadec (run st0 (hist ++ [GC.GOp.calcTp t, GC.GOp.match2ref refIds m])) (wOf ops ms') := by
    simp [run, List.foldl_append, applyOp]
  rw [hrun] at hrow
  obtain ⟨_, hlens, _⟩ := createGroup_fields _ _ _ hc
  obtain ⟨p, mc, j, hp, hmp, hm, hj, hr, ⟨hj', hid, hxy⟩, hradec⟩ :=
    C11.recalc_uses_own_member w0 _ st0 hc _ (wOf ops ms') i row' hrow
  obtain ⟨gm, hgm, hgc⟩ := cat_getElem? ms p mc hmp
  obtain ⟨gm', hgm', hgc'⟩ := cat_getElem? ms' p mc (by rw [hcats]; exact hmp)
  have hrow2 : (run st0 (hist ++ [GC.GOp.calcTp t, GC.GOp.match2ref refIds m, GC.GOp.recalc (wOf ops ms')])).rows[i]?
      = some row' := by
    have : run st0 (hist ++ [GC.GOp.calcTp t, GC.GOp.match2ref refIds m, GC.GOp.recalc (wOf ops ms')])
        = recalcCatalogRadec (run st0 (hist ++ [GC.GOp.calcTp t, GC.GOp.match2ref refIds m])) (wOf ops ms') := by
      simp [run, List.foldl_append, applyOp]
    rw [this]; exact hrow
  obtain ⟨old, hold, hcore⟩ := core_getElem? w0 _ st0 hc _ hist i row' hrow2
  have hinv := inv_run hist st0 (inv_create w0 _ st0 hc)
  have hidx : old.imcatIdx = row'.imcatIdx := by
    have := congrArg (fun c => c.1) hcore
    simpa [GRow.core] using this
  have hxy' : old.xy = row'.xy := by
    have := congrArg (fun c => c.2.2) hcore
    simpa [GRow.core] using this
  have ho := hcur i old p hold (by rw [hinv.lens, hlens, hidx]; exact hp)
  subst hgc
  refine ⟨old, p, gm, gm', j, hold, hcore, hp, hgm, hgm', hgc', hm, ⟨hj', hr, hid, hxy⟩, ?_, ?_⟩
  · rw [ho, wOf_some ops ms p gm hgm, hxy']
  · rw [hradec, wOf_some ops ms' p gm' hgm']

/-- **the pairs handed to the fitter, in terms of group rows**: pair `k` is (reference row `mref[k]` in the plane
of the fit, `t` of the sky position of group row `minput[k]`) -/
theorem pairs_of_rows (w0 : Nat → K × K → K × K) (mc : List (Member K)) (st0 : GState K)
    (hc : createGroup w0 mc = .ok st0) (hist : List (GC.GOp K)) (t : K × K → K × K)
    (refIds mref minput : List Int) (hne : (run st0 hist).catlen ≠ 0) (r0 : Nat × List Int × List Int)
    (hok : (match2ref (calcTanpXY (run st0 hist) t) refIds (some (mref, minput))).res = .ok r0)
    (refTP : List (K × K)) (refW : Option (List K)) (pa : PairArgs K)
    (hfit : fit2refSel (match2ref (calcTanpXY (run st0 hist) t) refIds (some (mref, minput))).st refTP refW = .ok pa) :
    ∃ inp rf, normAll (run st0 hist).catlen minput = some inp ∧ normAll refTP.length mref = some rf ∧
      pa.xy.length = mref.length ∧ pa.uv.length = minput.length ∧
      (∀ k, k < mref.length → pa.xy[k]? = (rf[k]?).bind (refTP[·]?)) ∧
      (∀ k, k < minput.length → pa.uv[k]? =
        (inp[k]?).bind fun i => ((run st0 hist).rows[i]?).map fun row => t row.radec) := by
  have hrun : calcTanpXY (run st0 hist) t = run st0 (hist ++ [GC.GOp.calcTp t]) := by
    simp [run, List.foldl_append, applyOp]
  have hcl : (run st0 (hist ++ [GC.GOp.calcTp t])).catlen = (run st0 hist).catlen := by
    rw [← hrun]; rfl
  rw [hrun] at hok hfit
  obtain ⟨tpl, inp, rf, htpl, _, hin, hrf, ⟨hxl, hxy⟩, ⟨hul, huv⟩, _⟩ :=
    C11.fit2ref_pairs w0 mc st0 hc (hist ++ [GC.GOp.calcTp t]) refIds mref minput
      (by rw [← hrun]; rfl) (by rw [hcl]; exact hne) r0 hok refTP refW pa hfit
  rw [hcl] at hin
  have htp : tpl = (run st0 hist).rows.map fun r => t r.radec := by
    rw [← hrun] at htpl
    simp only [calcTanpXY, Option.some.injEq] at htpl
    exact htpl.symm
  refine ⟨inp, rf, hin, hrf, hxl, hul, hxy, ?_⟩
  intro k hk
  rw [huv k hk, htp]
  cases inp[k]? with
  | none => rfl
  | some i => simp [List.getElem?_map]

end group

/-! ### weights -/
section weights
variable {C K : Type} [Add K] [Sub K] [Mul K] [Div K] [Neg K] [LT K] [DecidableLT K] [NatCast K]

/-- the weight pair `k` carries into `iter_linear_fit` is the weight-column entry of the member row it names -/
theorem weight_of_member (w0 : Nat → K × K → K × K) (ops : CorrOps C K) (cfg : FitCfg K) (ms : List (GMember C K))
    (hwf : ∀ gm ∈ ms, ∀ w, gm.cat.weight = some w → w.length = gm.cat.rows.length)
    (st0 : GState K) (hc : createGroup w0 (ms.map (·.cat)) = .ok st0) (hist : List (GC.GOp K))
    (hne : (run st0 hist).catlen ≠ 0) (ref : RefCat K) (mref minput : List Int) (minobj : Option Nat)
    (fitmin : Nat) (pa : PairArgs K)
    (hR : (groupAlignToRef ops cfg ms (run st0 hist) ref (some (mref, minput)) minobj fitmin).res
      = .ok (true, some pa))
    (inp : List Nat) (hin : normAll (run st0 hist).catlen minput = some inp)
    (k i j : Nat) (gm : GMember C K) (wi : List K)
    (him : (nonEmptyCats (ms.map (·.cat)))[i]? = some gm.cat) (hj : j < gm.cat.rows.length)
    (hw : gm.cat.weight = some wi)
    (hk : inp[k]? = some (groupOffset (nonEmptyCats (ms.map (·.cat))) i + j)) :
    ∃ wu, pa.wuv = some wu ∧ wu[k]? = wi[j]? := by
  obtain ⟨r, f, hfit⟩ := fit_of_true ops cfg ms (run st0 hist) ref _ minobj fitmin pa hR
  obtain ⟨n, mr, mi, pa', hres, _, hsel, _, _, _, hR', _⟩ :=
    fit_inv ops cfg ms (run st0 hist) ref _ minobj fitmin r f hfit
  rw [hR] at hR'
  simp only [Except.ok.injEq, Prod.mk.injEq, Option.some.injEq, true_and] at hR'
  subst hR'
  have hrun : calcTanpXY (run st0 hist) (tOf ops) = run st0 (hist ++ [GC.GOp.calcTp (tOf ops)]) := by
    simp [run, List.foldl_append, applyOp]
  have hcl : (run st0 (hist ++ [GC.GOp.calcTp (tOf ops)])).catlen = (run st0 hist).catlen := by
    rw [← hrun]; rfl
  rw [hrun] at hres hsel
  have hwf' : ∀ m ∈ ms.map (·.cat), ∀ w, m.weight = some w → w.length = m.rows.length := by
    intro m hm w hmw
    obtain ⟨gm', hgm', rfl⟩ := List.mem_map.mp hm
    exact hwf gm' hgm' w hmw
  exact C11.fit2ref_weight_of_member w0 _ st0 hwf' hc (hist ++ [GC.GOp.calcTp (tOf ops)]) ref.ids mref minput
    (by rw [← hrun]; rfl) (by rw [hcl]; exact hne) _ hres _ ref.weight pa hsel inp (by rw [hcl]; exact hin)
    k i j gm.cat wi him hj hw hk

end weights

/-! ### exactness and "reported = applied" at group level -/
section exact
variable {C K : Type} [Field K] [LinearOrder K] [IsStrictOrderedRing K]

/-- the one-corrector statement "reported = applied" as a property of a corrector class: for every corrector in
a `good` state, in the plane of the fit the corrected WCS is `(M, s)` after the old one -/
def Applies (ops : CorrOps C K) (good : Nat → C → Prop) : Prop :=
  ∀ (p : Nat) (c : C), good p c → ∀ (M : M2 K) (s : V2 K), M.det ≠ 0 → ∀ x,
    ops.w2t (ops.detToWorld p (ops.setCorr p c M s) x) = (M.mulVec (ops.w2t (ops.detToWorld p c x))).add s

/-- FITS members (flat sky): any well-formed WCS, any distortion, non-zero differentiation steps -/
def fitsGood (_p : Nat) (c : FState K) : Prop := c.f.WF ∧ c.hx ≠ 0 ∧ c.hy ≠ 0

theorem fits_applies (P : Aff K) (hP : P.m.det ≠ 0) (δ : Nat → V2 K → V2 K) :
    Applies (fitsOps P δ) fitsGood := by
  intro p c hg M s hM x
  obtain ⟨hf, hx, hy⟩ := hg
  exact C01.fits_reported_is_applied c.f hf (δ p) P hP M s hM c.hx c.hy hx hy x

/-- gWCS members: bijective pipeline pieces, well-formed state (never corrected, corrected, re-wrapped), a
non-zero sampling scale, and the flat-sky hypothesis: the plane-to-plane map from the reference plane into the
member's tangent plane is an invertible affine map `q` (each member its own) -/
def gwcsGood (env : Nat → GEnv K) (refT2W : V2 K → V2 K) (s0 : Nat → K) (p : Nat) (g : GCorr K) : Prop :=
  (env p).Bij ∧ g.WF ∧ s0 p ≠ 0 ∧
    ∃ q : Aff K, q.m.det ≠ 0 ∧ ∀ x, g.worldToTanp (env p) (refT2W x) = q.app x

theorem gwcs_applies (env : Nat → GEnv K) (refW2T refT2W : V2 K → V2 K) (hr1 : ∀ w, refT2W (refW2T w) = w)
    (s0 : Nat → K) : Applies (gwcsOps env refW2T refT2W s0) (gwcsGood env refT2W s0) := by
  intro p g hg M s hM x
  obtain ⟨hb, hwf, hs, q, hq, hflat⟩ := hg
  exact C01.gwcs_reported_is_applied (env p) hb g hwf refW2T refT2W hr1 q hq hflat (s0 p) hs M s hM x

theorem aff_of_lin (T : Lin K) (v : V2 K) :
    (⟨⟨T.m00, T.m01, T.m10, T.m11⟩, ⟨T.sx, T.sy⟩⟩ : Aff K).app v = C01.Lin.app T v := rfl

/-- the matched pairs are noise-free for `T` when every pair is (`T` of the image position, image position) -/
theorem obs_noiseFree (pa : PairArgs K) (T : Lin K)
    (h : ∀ (k : Nat) (a b : K × K), pa.xy[k]? = some a → pa.uv[k]? = some b → toV a = C01.Lin.app T (toV b)) :
    NoiseFree (List.zipWith mkObs pa.xy pa.uv) T := by
  intro o ho
  obtain ⟨k, hk⟩ := List.mem_iff_getElem?.mp ho
  rw [List.getElem?_zipWith] at hk
  cases hx : pa.xy[k]? with
  | none => rw [hx] at hk; simp at hk
  | some a =>
    cases hu : pa.uv[k]? with
    | none => rw [hx, hu] at hk; simp at hk
    | some b =>
      rw [hx, hu] at hk
      simp at hk
      subst hk
      have e := h k a b hx hu
      simp only [toV, C01.Lin.app, V2.mk.injEq] at e
      exact ⟨e.1, e.2⟩

/-- **what "reported = applied" means at group level** (no exactness): with `f` the `(matrix, shift)` written to
`fit_info`, `ms` / `st` the members and the catalog before, `R` the result:
1. every member at every position (empty catalogs included) keeps its catalog and got `set_correction(f)`;
2. in the plane of the fit every corrected member WCS is `f` after the old one, at every pixel;
3. row `i` of the recomputed catalog is the `j`-th source of the member at position `p`, its new sky position is
   the corrected `det_to_world` of THAT member, which in the plane is `f` of the old one;
4. the recomputed catalog is current for the corrected members (so the procedure can be iterated). -/
def Applied (ops : CorrOps C K) (ms : List (GMember C K)) (st : GState K) (R : GAResult C K) (f : Aff K) : Prop :=
    (R.members.length = ms.length ∧
      ∀ (p : Nat) (gm : GMember C K), ms[p]? = some gm →
        R.members[p]?
          = some ⟨ops.setCorr p gm.corr f.m f.t, gm.cat⟩) ∧
    (∀ (p : Nat) (gm : GMember C K), ms[p]? = some gm → ∀ x,
        ops.w2t (ops.detToWorld p (ops.setCorr p gm.corr f.m f.t) x) = f.app (ops.w2t (ops.detToWorld p gm.corr x))) ∧
    (∀ (i : Nat) (row' : GRow K), R.st.rows[i]? = some row' →
      ∃ old p gm j, st.rows[i]? = some old ∧ old.core = row'.core ∧
        (nonEmptyPos ((ms.map (·.cat)).map (·.rows.length)))[row'.imcatIdx]? = some p ∧ ms[p]? = some gm ∧
        (nonEmptyCats (ms.map (·.cat)))[row'.imcatIdx]? = some gm.cat ∧
        (∃ hj : j < gm.cat.rows.length, i = groupOffset (nonEmptyCats (ms.map (·.cat))) row'.imcatIdx + j ∧
          row'.id = (gm.cat.rows[j]).id ∧ row'.xy = (gm.cat.rows[j]).xy) ∧
        old.radec = ofV (ops.detToWorld p gm.corr (toV row'.xy)) ∧
        row'.radec = ofV (ops.detToWorld p (ops.setCorr p gm.corr f.m f.t) (toV row'.xy)) ∧
        ops.w2t (toV row'.radec) = f.app (ops.w2t (toV old.radec))) ∧
    Current ops R.members
      R.st

/-- **generic core.**  A successful group alignment (it wrote the fit `(r, f)`), any corrector class with
"reported = applied", members in good states, a current catalog reached by any history: every member at every
position got `set_correction(f)`; in the plane of the fit each corrected member WCS is `f` after the old one; every
row of the recomputed catalog carries the new sky position of ITS member's source, which in the plane is `f` of
the old one. -/
theorem group_core (w0 : Nat → K × K → K × K) (ops : CorrOps C K) (good : Nat → C → Prop)
    (happ : Applies ops good) (cfg : FitCfg K) (ms : List (GMember C K))
    (hgood : ∀ (p : Nat) (gm : GMember C K), ms[p]? = some gm → good p gm.corr) (st0 : GState K)
    (hc : createGroup w0 (ms.map (·.cat)) = .ok st0) (hist : List (GC.GOp K))
    (hcur : Current ops ms (run st0 hist)) (ref : RefCat K) (m : Option (List Int × List Int))
    (minobj : Option Nat) (fitmin : Nat) (r : IterRes K) (f : Aff K)
    (hfit : (groupAlignToRef ops cfg ms (run st0 hist) ref m minobj fitmin).fit = some (r, f))
    (hdet : f.m.det ≠ 0) :
    Applied ops ms (run st0 hist) (groupAlignToRef ops cfg ms (run st0 hist) ref m minobj fitmin) f := by
  unfold Applied
  obtain ⟨n, mr, mi, pa, hres, _, hsel, hfp, hf, hmem, hR, hst⟩ :=
    fit_inv ops cfg ms (run st0 hist) ref m minobj fitmin r f hfit
  have h2 : ∀ (p : Nat) (gm : GMember C K), ms[p]? = some gm → ∀ x,
      ops.w2t (ops.detToWorld p (ops.setCorr p gm.corr f.m f.t) x) = f.app (ops.w2t (ops.detToWorld p gm.corr x)) :=
    fun p gm hp x => happ p gm.corr (hgood p gm hp) f.m f.t hdet x
  refine ⟨⟨by rw [hmem, apply_length], fun p gm hp => by rw [hmem]; exact apply_getElem? ops ms f.m f.t p gm hp⟩,
    h2, ?_, ?_⟩
  · intro i row' hrow
    rw [hst] at hrow
    obtain ⟨old, p, gm, gm', j, hold, hcore, hp, hgm, hgm', _, hm, hj, ho, hn⟩ :=
      rows_after w0 ops ms (applyAffineToWcs ops ms f.m f.t) st0 hc hist hcur (apply_cats ops ms f.m f.t)
        (tOf ops) ref.ids m i row' hrow
    have e := apply_getElem? ops ms f.m f.t p gm hgm
    rw [hgm'] at e
    injection e with e
    subst e
    refine ⟨old, p, gm, j, hold, hcore, hp, hgm, hm, hj, ho, hn, ?_⟩
    rw [hn, ho]
    simp only [toV_ofV]
    exact h2 p gm hgm _
  · rw [hst, hmem]
    have hrun : (match2ref (calcTanpXY (run st0 hist) (tOf ops)) ref.ids m).st
        = run st0 (hist ++ [GC.GOp.calcTp (tOf ops), GC.GOp.match2ref ref.ids m]) := by
      simp [run, List.foldl_append, applyOp]
    rw [hrun]
    have hc' : createGroup w0 ((applyAffineToWcs ops ms f.m f.t).map (·.cat)) = .ok st0 := by
      rw [apply_cats]; exact hc
    exact current_recalc w0 ops _ st0 hc' _

/-- a pipeline whose pieces after the detector-to-V2V3 transform are trivial: the tangent plane of the corrector is
the sky plane itself, in every well-formed state (used by the gWCS non-vacuity example) -/
theorem worldToTanp_trivial (env : GEnv K) (hU : env.U = id) (hUi : env.Uinv = id) (hRi : env.Rinv = id)
    (hc : env.c = 1) (g : GCorr K) (hg : g.WF) (w : V2 K) : g.worldToTanp env w = w := by
  have hs : ∀ v : V2 K, V2.smul (1 : K) v = v := by
    intro v; cases v; simp [V2.smul]
  unfold GCorr.worldToTanp GCorr.partialFwd GCorr.worldToV23 GCorr.tpcorrInv
  rw [hU, hUi, hRi, hc, hs]
  cases hcor : g.corrected with
  | true => simp only [if_true, id]; exact Aff.app_inv g.aff hg.1 w
  | false =>
    simp only [Bool.false_eq_true, if_false, id]
    rw [hg.2 hcor]
    exact Aff.id_app w

/-- every row of the old catalog is a row of the recomputed one -/
theorem final_row_exists (w0 : Nat → K × K → K × K) (ops : CorrOps C K) (cfg : FitCfg K) (ms : List (GMember C K))
    (st0 : GState K) (hc : createGroup w0 (ms.map (·.cat)) = .ok st0) (hist : List (GC.GOp K))
    (ref : RefCat K) (m : Option (List Int × List Int)) (minobj : Option Nat) (fitmin : Nat) (r : IterRes K)
    (f : Aff K) (hfit : (groupAlignToRef ops cfg ms (run st0 hist) ref m minobj fitmin).fit = some (r, f))
    (i : Nat) (old : GRow K) (hold : (run st0 hist).rows[i]? = some old) :
    ∃ row', (groupAlignToRef ops cfg ms (run st0 hist) ref m minobj fitmin).st.rows[i]? = some row' := by
  obtain ⟨n, mr, mi, pa, _, _, _, _, _, _, _, hst⟩ :=
    fit_inv ops cfg ms (run st0 hist) ref m minobj fitmin r f hfit
  have hrun : recalcCatalogRadec (match2ref (calcTanpXY (run st0 hist) (tOf ops)) ref.ids m).st
        (wOf ops (applyAffineToWcs ops ms f.m f.t))
      = run st0 (hist ++ [GC.GOp.calcTp (tOf ops), GC.GOp.match2ref ref.ids m,
          GC.GOp.recalc (wOf ops (applyAffineToWcs ops ms f.m f.t))]) := by
    simp [run, List.foldl_append, applyOp]
  rw [hst, hrun]
  obtain ⟨row', h, _⟩ := core_getElem? w0 _ st0 hc hist
    (hist ++ [GC.GOp.calcTp (tOf ops), GC.GOp.match2ref ref.ids m,
      GC.GOp.recalc (wOf ops (applyAffineToWcs ops ms f.m f.t))]) i old hold
  exact ⟨row', h⟩

/-- **what the exactness theorems conclude** about a group with members `ms` and catalog `st` (before), the result
`R` of `align_to_ref`, the reference catalog `ref`, the normalised matcher arrays `inp` (group rows) and `rf`
(reference rows), the reported fit `f` and the true map `T`:
1. the `(matrix, shift)` written to `fit_info` is `T`;
2. EVERY member — at every position `p` of the member list, with or without sources, matched or not — keeps its
   catalog, got `set_correction(f)`, and its corrected WCS maps every pixel `x` to `T` of the old position, in the
   plane of the fit (one and the same map for all members: rigidity);
3. row `i` of the recomputed group catalog is the `j`-th source of the member at position `p` (`_imcat_idx` counts
   the non-empty members only), its new `RA`, `DEC` is the corrected `det_to_world` of THAT member, in the plane `T`
   of the old position;
4. the group row of every matched pair lands exactly on its reference position (in the plane of the fit). -/
def MovedBy (ops : CorrOps C K) (ms : List (GMember C K)) (st : GState K) (R : GAResult C K) (ref : RefCat K)
    (inp rf : List Nat) (f : Aff K) (T : Lin K) : Prop :=
    f = ⟨⟨T.m00, T.m01, T.m10, T.m11⟩, ⟨T.sx, T.sy⟩⟩ ∧
    (R.members.length = ms.length ∧
      ∀ (p : Nat) (gm : GMember C K), ms[p]? = some gm →
        R.members[p]?
            = some ⟨ops.setCorr p gm.corr f.m f.t, gm.cat⟩ ∧
        ∀ x, ops.w2t (ops.detToWorld p (ops.setCorr p gm.corr f.m f.t) x)
            = C01.Lin.app T (ops.w2t (ops.detToWorld p gm.corr x))) ∧
    (∀ (i : Nat) (row' : GRow K),
      R.st.rows[i]? = some row' →
      ∃ old p gm j, st.rows[i]? = some old ∧ old.core = row'.core ∧
        (nonEmptyPos ((ms.map (·.cat)).map (·.rows.length)))[row'.imcatIdx]? = some p ∧ ms[p]? = some gm ∧
        (nonEmptyCats (ms.map (·.cat)))[row'.imcatIdx]? = some gm.cat ∧
        (∃ hj : j < gm.cat.rows.length, i = groupOffset (nonEmptyCats (ms.map (·.cat))) row'.imcatIdx + j ∧
          row'.id = (gm.cat.rows[j]).id ∧ row'.xy = (gm.cat.rows[j]).xy) ∧
        row'.radec = ofV (ops.detToWorld p (ops.setCorr p gm.corr f.m f.t) (toV row'.xy)) ∧
        ops.w2t (toV row'.radec) = C01.Lin.app T (ops.w2t (toV old.radec))) ∧
    (∀ (k i j : Nat) (rd : K × K), inp[k]? = some i → rf[k]? = some j → ref.radec[j]? = some rd →
      ∃ row', R.st.rows[i]?
          = some row' ∧ ops.w2t (toV row'.radec) = ops.w2t (toV rd))

/-- **generic exactness.**  As `group_core`, with a matcher result `(mref, minput)` whose pairs are noise-free for
`T` in the plane of the fit (`hT`: reference position of pair `k` = `T` of the plane position of group row
`minput[k]`), and a fitter that recovers `T` from noise-free pairs (`hrec`): the fit written to `fit_info` is `T`,
every member is moved by `T` in the plane, every row's recomputed sky position is `T` of its old one, and the row of
every matched pair lands on its reference position. -/
theorem group_exact_core (w0 : Nat → K × K → K × K) (ops : CorrOps C K) (good : Nat → C → Prop)
    (happ : Applies ops good) (cfg : FitCfg K) (ms : List (GMember C K))
    (hgood : ∀ (p : Nat) (gm : GMember C K), ms[p]? = some gm → good p gm.corr) (st0 : GState K)
    (hc : createGroup w0 (ms.map (·.cat)) = .ok st0) (hist : List (GC.GOp K))
    (hcur : Current ops ms (run st0 hist)) (hne : (run st0 hist).catlen ≠ 0)
    (ref : RefCat K) (mref minput : List Int)
    (minobj : Option Nat) (fitmin : Nat) (r : IterRes K) (f : Aff K)
    (hfit : (groupAlignToRef ops cfg ms (run st0 hist) ref (some (mref, minput)) minobj fitmin).fit = some (r, f))
    (inp rf : List Nat) (hin : normAll (run st0 hist).catlen minput = some inp)
    (hrf : normAll ref.radec.length mref = some rf)
    (T : Lin K) (hdetT : T.m00 * T.m11 - T.m01 * T.m10 ≠ 0)
    (hT : ∀ (k i j : Nat) (row : GRow K) (rd : K × K), inp[k]? = some i → rf[k]? = some j →
      (run st0 hist).rows[i]? = some row → ref.radec[j]? = some rd →
      ops.w2t (toV rd) = C01.Lin.app T (ops.w2t (toV row.radec)))
    (hrec : ∀ pa : PairArgs K,
      (groupAlignToRef ops cfg ms (run st0 hist) ref (some (mref, minput)) minobj fitmin).res = .ok (true, some pa) →
      NoiseFree (List.zipWith mkObs pa.xy pa.uv) T →
      iterLinearFitWith cfg.single cfg.normalised cfg.metric cfg.fitMinobj (List.zipWith mkObs pa.xy pa.uv)
        pa.wxy pa.wuv none cfg.nclip cfg.sigma cfg.accum = .ok r →
      r.lin.m00 = T.m00 ∧ r.lin.m01 = T.m01 ∧ r.lin.m10 = T.m10 ∧ r.lin.m11 = T.m11 ∧
        recentre r.lin r.center = (T.sx, T.sy)) :
    MovedBy ops ms (run st0 hist)
      (groupAlignToRef ops cfg ms (run st0 hist) ref (some (mref, minput)) minobj fitmin) ref inp rf f T := by
  unfold MovedBy
  obtain ⟨n, mr, mi, pa, hres, _, hsel, hfp, hf, hmem, hR, hst⟩ :=
    fit_inv ops cfg ms (run st0 hist) ref (some (mref, minput)) minobj fitmin r f hfit
  obtain ⟨hiter, _⟩ := fitPairs_ok cfg pa r _ hfp
  -- the pairs
  obtain ⟨inp', rf', hin', hrf', hxl, hul, hxy, huv⟩ :=
    pairs_of_rows w0 _ st0 hc hist (tOf ops) ref.ids mref minput hne _ hres _ ref.weight pa hsel
  rw [hin] at hin'
  injection hin' with hin'
  subst hin'
  rw [List.length_map, hrf] at hrf'
  injection hrf' with hrf'
  subst hrf'
  have hNF : NoiseFree (List.zipWith mkObs pa.xy pa.uv) T := by
    apply obs_noiseFree
    intro k a b ha hb
    have hk1 : k < mref.length := by
      rw [← hxl]
      by_contra hcon
      rw [List.getElem?_eq_none_iff.mpr (by omega)] at ha; cases ha
    have hk2 : k < minput.length := by
      rw [← hul]
      by_contra hcon
      rw [List.getElem?_eq_none_iff.mpr (by omega)] at hb; cases hb
    rw [hxy k hk1] at ha
    rw [huv k hk2] at hb
    cases hj : rf[k]? with
    | none => rw [hj] at ha; cases ha
    | some j =>
      cases hi : inp[k]? with
      | none => rw [hi] at hb; cases hb
      | some i =>
        rw [hj] at ha
        rw [hi] at hb
        simp only [Option.bind_some, List.getElem?_map] at ha hb
        cases hrd : ref.radec[j]? with
        | none => rw [hrd] at ha; cases ha
        | some rd =>
          cases hrow : (run st0 hist).rows[i]? with
          | none => rw [hrow] at hb; cases hb
          | some row =>
            rw [hrd] at ha
            rw [hrow] at hb
            simp only [Option.map_some, Option.some.injEq] at ha hb
            subst ha
            subst hb
            have := hT k i j row rd hi hj hrow hrd
            simpa [tOf] using this
  obtain ⟨e0, e1, e2, e3, e4⟩ := hrec pa hR hNF hiter
  have hfT : f = ⟨⟨T.m00, T.m01, T.m10, T.m11⟩, ⟨T.sx, T.sy⟩⟩ := by
    rw [hf]
    simp only [reportedOf, e0, e1, e2, e3, e4, toV]
  have hdet : f.m.det ≠ 0 := by rw [hfT]; exact hdetT
  have hcore := group_core w0 ops good happ cfg ms hgood st0 hc hist hcur ref
    (some (mref, minput)) minobj fitmin r f hfit hdet
  unfold Applied at hcore
  obtain ⟨⟨hlen, hmemb⟩, happl, hrows, _⟩ := hcore
  have happT : ∀ v, f.app v = C01.Lin.app T v := by
    intro v; rw [hfT]; rfl
  refine ⟨hfT, ⟨hlen, fun p gm hp => ⟨hmemb p gm hp, fun x => by rw [happl p gm hp x, happT]⟩⟩, ?_, ?_⟩
  · intro i row' hrow
    obtain ⟨old, p, gm, j, hold, hcore, hp, hgm, hm, hj, _, hn, hw⟩ := hrows i row' hrow
    exact ⟨old, p, gm, j, hold, hcore, hp, hgm, hm, hj, hn, by rw [hw, happT]⟩
  · intro k i j rd hi hj hrd
    obtain ⟨_, hlt, _⟩ := normAll_spec _ _ _ hin
    have hil : i < (run st0 hist).rows.length := hlt i (List.mem_of_getElem? hi)
    have hold : (run st0 hist).rows[i]? = some ((run st0 hist).rows[i]) := List.getElem?_eq_getElem hil
    obtain ⟨row', hrow'⟩ := final_row_exists w0 ops cfg ms st0 hc hist ref _ minobj fitmin r f hfit i _ hold
    obtain ⟨old, p, gm, j', hold', _, _, _, _, _, _, _, hw⟩ := hrows i row' hrow'
    rw [hold] at hold'
    injection hold' with hold'
    refine ⟨row', hrow', ?_⟩
    rw [hw, happT, ← hold']
    exact (hT k i j _ rd hi hj hold hrd).symm

/-- exactness for the `general` fit over any ordered field (any metric, statistic, clipping parameters, weights) -/
theorem group_exact_general (w0 : Nat → K × K → K × K) (ops : CorrOps C K) (good : Nat → C → Prop)
    (happ : Applies ops good) (eps epsD : K) (heps : 0 < eps) (nrm : Bool) (mt : Metric K) (fm : Nat)
    (nclip : Option Int) (sigma : Option (K × String)) (accum : Bool) (ms : List (GMember C K))
    (hgood : ∀ (p : Nat) (gm : GMember C K), ms[p]? = some gm → good p gm.corr) (st0 : GState K)
    (hc : createGroup w0 (ms.map (·.cat)) = .ok st0) (hist : List (GC.GOp K))
    (hcur : Current ops ms (run st0 hist)) (hne : (run st0 hist).catlen ≠ 0)
    (ref : RefCat K) (mref minput : List Int)
    (minobj : Option Nat) (fitmin : Nat) (r : IterRes K) (f : Aff K)
    (hfit : (groupAlignToRef ops ⟨fitGeneral eps epsD, nrm, mt, fm, nclip, sigma, accum⟩ ms (run st0 hist) ref
      (some (mref, minput)) minobj fitmin).fit = some (r, f))
    (inp rf : List Nat) (hin : normAll (run st0 hist).catlen minput = some inp)
    (hrf : normAll ref.radec.length mref = some rf)
    (T : Lin K) (hdetT : T.m00 * T.m11 - T.m01 * T.m10 ≠ 0)
    (hT : ∀ (k i j : Nat) (row : GRow K) (rd : K × K), inp[k]? = some i → rf[k]? = some j →
      (run st0 hist).rows[i]? = some row → ref.radec[j]? = some rd →
      ops.w2t (toV rd) = C01.Lin.app T (ops.w2t (toV row.radec))) :
    MovedBy ops ms (run st0 hist)
      (groupAlignToRef ops ⟨fitGeneral eps epsD, nrm, mt, fm, nclip, sigma, accum⟩ ms (run st0 hist) ref
        (some (mref, minput)) minobj fitmin) ref inp rf f T :=
  group_exact_core w0 ops good happ _ ms hgood st0 hc hist hcur hne ref mref minput minobj fitmin r f hfit inp rf
    hin hrf T hdetT hT
    (fun pa _ hNF hiter => C01.align_exact_general eps epsD heps _ pa.wxy pa.wuv none nclip sigma accum nrm mt fm r
      hiter T hNF)

/-- the family of maps each fit geometry recovers, and — for `rshift` — the condition that the matched image
sources handed to the fitter have pairwise different positions in the plane of the fit -/
def FamilyOK (g : FitGeom) (T : Lin ℝ) (nodup : Prop) : Prop :=
  match g with
  | .general => True
  | .shift => T.m00 = 1 ∧ T.m01 = 0 ∧ T.m10 = 0 ∧ T.m11 = 1
  | .rscale => IsProperSim T
  | .rshift => IsProperSim T ∧ T.m00 ^ 2 + T.m01 ^ 2 = 1 ∧ nodup

/-- exactness for `iter_linear_fit` exactly as the code runs it (over `ℝ`), all four fit geometries -/
theorem group_exact_code {C : Type} (w0 : Nat → ℝ × ℝ → ℝ × ℝ) (ops : CorrOps C ℝ) (good : Nat → C → Prop)
    (happ : Applies ops good) (eps epsD : ℝ) (heps : 0 < eps) (g : FitGeom)
    (nclip : Option Int) (sigma : Option (ℝ × String)) (accum : Bool) (ms : List (GMember C ℝ))
    (hgood : ∀ (p : Nat) (gm : GMember C ℝ), ms[p]? = some gm → good p gm.corr) (st0 : GState ℝ)
    (hc : createGroup w0 (ms.map (·.cat)) = .ok st0) (hist : List (GC.GOp ℝ))
    (hcur : Current ops ms (run st0 hist)) (hne : (run st0 hist).catlen ≠ 0)
    (ref : RefCat ℝ) (mref minput : List Int)
    (minobj : Option Nat) (fitmin : Nat) (r : IterRes ℝ) (f : Aff ℝ)
    (hfit : (groupAlignToRef ops (FitCfg.ofGeom eps epsD g nclip sigma accum) ms (run st0 hist) ref
      (some (mref, minput)) minobj fitmin).fit = some (r, f))
    (inp rf : List Nat) (hin : normAll (run st0 hist).catlen minput = some inp)
    (hrf : normAll ref.radec.length mref = some rf)
    (T : Lin ℝ) (hdetT : T.m00 * T.m11 - T.m01 * T.m10 ≠ 0)
    (hT : ∀ (k i j : Nat) (row : GRow ℝ) (rd : ℝ × ℝ), inp[k]? = some i → rf[k]? = some j →
      (run st0 hist).rows[i]? = some row → ref.radec[j]? = some rd →
      ops.w2t (toV rd) = C01.Lin.app T (ops.w2t (toV row.radec)))
    (hfam : FamilyOK g T (∀ pa : PairArgs ℝ,
      (groupAlignToRef ops (FitCfg.ofGeom eps epsD g nclip sigma accum) ms (run st0 hist) ref
        (some (mref, minput)) minobj fitmin).res = .ok (true, some pa) →
      ((List.zipWith mkObs pa.xy pa.uv).map fun o => (o.u, o.v)).Nodup)) :
    MovedBy ops ms (run st0 hist)
      (groupAlignToRef ops (FitCfg.ofGeom eps epsD g nclip sigma accum) ms (run st0 hist) ref
        (some (mref, minput)) minobj fitmin) ref inp rf f T := by
  refine group_exact_core w0 ops good happ _ ms hgood st0 hc hist hcur hne ref mref minput minobj fitmin r f hfit
    inp rf hin hrf T hdetT hT ?_
  intro pa hR hNF hiter
  refine C01.align_exact_code eps epsD heps g _ pa.wxy pa.wuv none nclip sigma accum r hiter T hNF ?_
  cases g with
  | general => trivial
  | shift => exact hfam
  | rscale => exact hfam
  | rshift => exact ⟨hfam.1, hfam.2.1, hfam.2.2 pa hR⟩

theorem range_get {n k i : Nat} (h : (List.range n)[k]? = some i) : i = k := by
  by_cases hk : k < n
  · rw [List.getElem?_range hk] at h; injection h with h; exact h.symm
  · rw [List.getElem?_eq_none_iff.mpr (by simp; omega)] at h; cases h

/-- exactness with `match=None` (the catalogs are taken as matched row by row): `inp = rf = [0, …, n-1]` -/
theorem group_exact_code_none {C : Type} (w0 : Nat → ℝ × ℝ → ℝ × ℝ) (ops : CorrOps C ℝ) (good : Nat → C → Prop)
    (happ : Applies ops good) (eps epsD : ℝ) (heps : 0 < eps) (g : FitGeom)
    (nclip : Option Int) (sigma : Option (ℝ × String)) (accum : Bool) (ms : List (GMember C ℝ))
    (hgood : ∀ (p : Nat) (gm : GMember C ℝ), ms[p]? = some gm → good p gm.corr) (st0 : GState ℝ)
    (hc : createGroup w0 (ms.map (·.cat)) = .ok st0) (hist : List (GC.GOp ℝ))
    (hcur : Current ops ms (run st0 hist)) (hne : (run st0 hist).catlen ≠ 0)
    (ref : RefCat ℝ) (hl : (run st0 hist).catlen = ref.ids.length) (hl2 : ref.radec.length = ref.ids.length)
    (minobj : Option Nat) (fitmin : Nat) (r : IterRes ℝ) (f : Aff ℝ)
    (hfit : (groupAlignToRef ops (FitCfg.ofGeom eps epsD g nclip sigma accum) ms (run st0 hist) ref
      none minobj fitmin).fit = some (r, f))
    (T : Lin ℝ) (hdetT : T.m00 * T.m11 - T.m01 * T.m10 ≠ 0)
    (hT : ∀ (i : Nat) (row : GRow ℝ) (rd : ℝ × ℝ), (run st0 hist).rows[i]? = some row → ref.radec[i]? = some rd →
      ops.w2t (toV rd) = C01.Lin.app T (ops.w2t (toV row.radec)))
    (hfam : FamilyOK g T (∀ pa : PairArgs ℝ,
      (groupAlignToRef ops (FitCfg.ofGeom eps epsD g nclip sigma accum) ms (run st0 hist) ref
        none minobj fitmin).res = .ok (true, some pa) →
      ((List.zipWith mkObs pa.xy pa.uv).map fun o => (o.u, o.v)).Nodup)) :
    MovedBy ops ms (run st0 hist)
      (groupAlignToRef ops (FitCfg.ofGeom eps epsD g nclip sigma accum) ms (run st0 hist) ref
        none minobj fitmin) ref (List.range (run st0 hist).catlen) (List.range (run st0 hist).catlen) f T := by
  rw [ga_none_eq_some ops _ ms _ ref minobj fitmin hl hne] at hfit hfam ⊢
  refine group_exact_code w0 ops good happ eps epsD heps g nclip sigma accum ms hgood st0 hc hist hcur hne ref _ _
    minobj fitmin r f hfit _ _ (normAll_arange _) (by rw [hl2, ← hl]; exact normAll_arange _) T hdetT ?_ hfam
  intro k i j row rd hi hj hrow hrd
  have e1 := range_get hi
  have e2 := range_get hj
  subst e1
  subst e2
  exact hT _ row rd hrow hrd

end exact

/-! ### a concrete group for the non-vacuity examples of `Proofs/C05.lean` (exact rationals)

Three FITS members: member 0 never corrected (identity CD matrix), member 1 WITHOUT sources, rotated and corrected
once before (its state is the result of an earlier `set_correction`), member 2 in `PC`/`CDELT` form, rotated, with a
non-linear distortion.  Reference plane: the chart `gaP`; true error `gaT` (a non-trivial affine map of that
plane).  The matcher pairs reference rows `[2, 0, 3, 1]` with group rows `[4, 0, -1, 2]` (numpy indices: `-1` is the
last row); group rows 1 and 3 and reference row 4 are unmatched. -/
section concrete
def gaP : Aff ℚ := ⟨⟨2, 1, 0, 1⟩, ⟨3, -1⟩⟩
def gaT : Lin ℚ := ⟨2, -1, -1, 3, 1, 1⟩
def gaDelta (p : Nat) (x : V2 ℚ) : V2 ℚ := if p = 2 then ⟨x.x + x.y * x.y / 4, x.y - x.x * x.y / 8⟩ else x
def gaF0 : FCorr ℚ := ⟨⟨0, 0⟩, ⟨1, 0, 0, 1⟩, ⟨1, 1⟩, false, ⟨0, 0⟩⟩
def gaF1 : FCorr ℚ :=
  (⟨⟨5, 5⟩, ⟨0, -1, 1, 0⟩, ⟨1, 1⟩, false, ⟨1, 2⟩⟩ : FCorr ℚ).setCorrectionRef ⟨⟨1, 0, 0, 1⟩, ⟨0, 0⟩⟩
    ⟨1, 1, 0, 1⟩ ⟨2, 3⟩ 1 1
def gaF2 : FCorr ℚ := ⟨⟨10, 0⟩, ⟨0, 1, -1, 0⟩, ⟨2, 1/2⟩, true, ⟨-1, 4⟩⟩
def gaMs : List (GMember (FState ℚ) ℚ) :=
  [⟨⟨gaF0, 1, 1⟩, ⟨[⟨1, (0, 0)⟩, ⟨2, (1, 0)⟩, ⟨3, (0, 1)⟩], some [1, 2, 1]⟩⟩,
   ⟨⟨gaF1, 2, 1⟩, ⟨[], none⟩⟩,
   ⟨⟨gaF2, 1, 3⟩, ⟨[⟨1, (0, 0)⟩, ⟨2, (1, 1)⟩, ⟨3, (2, 0)⟩], some [3, 1, 2]⟩⟩]
def gaOps : CorrOps (FState ℚ) ℚ := fitsOps gaP gaDelta
/-- where the true map puts a sky position -/
def gaTarget (rd : ℚ × ℚ) : ℚ × ℚ := ofV (gaP.inv.app (C01.Lin.app gaT (gaP.app (toV rd))))
def gaRef : RefCat ℚ :=
  ⟨[gaTarget (wOf gaOps gaMs 0 (0, 0)), gaTarget (wOf gaOps gaMs 0 (0, 1)), gaTarget (wOf gaOps gaMs 2 (1, 1)),
    gaTarget (wOf gaOps gaMs 2 (2, 0)), (100, 100)], [11, 12, 13, 14, 15], none⟩
def gaMatch : Option (List Int × List Int) := some ([2, 0, 3, 1], [4, 0, -1, 2])
def gaCfg : FitCfg ℚ :=
  ⟨fitGeneral (1/1000000) (1/4503599627370496), false, squared, 3, some 3, some (3, "rmse"), false⟩
/-- pixels at which the members' WCS are compared (catalog pixels and others) -/
def gaPix : List (V2 ℚ) := [⟨0, 0⟩, ⟨1, 0⟩, ⟨0, 1⟩, ⟨1, 1⟩, ⟨2, 0⟩, ⟨-3, 7/2⟩]
/-- the same group with the second source of member 2 (group row 4, pair 0 of the match) at an arbitrary pixel `x`
and with weight zero -/
def gaMsZ (x : ℚ × ℚ) : List (GMember (FState ℚ) ℚ) :=
  [⟨⟨gaF0, 1, 1⟩, ⟨[⟨1, (0, 0)⟩, ⟨2, (1, 0)⟩, ⟨3, (0, 1)⟩], some [1, 2, 1]⟩⟩,
   ⟨⟨gaF1, 2, 1⟩, ⟨[], none⟩⟩,
   ⟨⟨gaF2, 1, 3⟩, ⟨[⟨1, (0, 0)⟩, ⟨2, x⟩, ⟨3, (2, 0)⟩], some [3, 0, 2]⟩⟩]

/-! a concrete gWCS group: affine pipeline pieces (`D` different per member, the others trivial), member 0 never
corrected, member 1 WITHOUT sources and never corrected, member 2 corrected once before; reference plane `gaPr` -/
def gaA (p : Nat) : Aff ℚ := if p = 0 then ⟨⟨1, 0, 0, 1⟩, ⟨0, 0⟩⟩ else if p = 1 then ⟨⟨3, 0, 1, 1⟩, ⟨-2, 0⟩⟩ else ⟨⟨0, -2, 2, 0⟩, ⟨7, 1⟩⟩
def gaEnv (p : Nat) : GEnv ℚ := ⟨(gaA p).app, (gaA p).inv.app, id, id, id, id, 1⟩
def gaPr : Aff ℚ := ⟨⟨1, 1, 0, 2⟩, ⟨-1, 3⟩⟩
def gaG0 : GCorr ℚ := GCorr.fresh ["detector", "v2v3", "world"]
def gaG2 : GCorr ℚ := (GCorr.fresh ["detector", "v2v3", "world"] : GCorr ℚ).setCorrection 1 ⟨⟨1, 1, 0, 1⟩, ⟨2, 3⟩⟩ none
def gaGMs : List (GMember (GCorr ℚ) ℚ) :=
  [⟨gaG0, ⟨[⟨1, (0, 0)⟩, ⟨2, (1, 0)⟩, ⟨3, (0, 1)⟩], none⟩⟩,
   ⟨gaG0, ⟨[], none⟩⟩,
   ⟨gaG2, ⟨[⟨1, (0, 0)⟩, ⟨2, (1, 1)⟩], none⟩⟩]
def gaGOps : CorrOps (GCorr ℚ) ℚ := gwcsOps gaEnv gaPr.app gaPr.inv.app (fun _ => 1)
def gaGTarget (rd : ℚ × ℚ) : ℚ × ℚ := ofV (gaPr.inv.app (C01.Lin.app gaT (gaPr.app (toV rd))))
def gaGRef : RefCat ℚ :=
  ⟨[gaGTarget (wOf gaGOps gaGMs 2 (1, 1)), gaGTarget (wOf gaGOps gaGMs 0 (0, 0)), gaGTarget (wOf gaGOps gaGMs 0 (0, 1)),
    gaGTarget (wOf gaGOps gaGMs 2 (0, 0))], [21, 22, 23, 24], none⟩
def gaGMatch : Option (List Int × List Int) := some ([1, 2, 3, 0], [0, 2, 3, -1])
end concrete

end TW.GAL
