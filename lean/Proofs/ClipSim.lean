import Proofs.IterLemmas
import Proofs.InvLemmas
import Proofs.Basic

/-!
Simulation between two instances of the clipping loop, and its use: over the reals the root-free
instance (`squared` metric: `‖r‖² < nsigma²·mse`) makes exactly the decisions of the code's
instance (`euclid` metric: `‖r‖ < nsigma·rmse`).  Helper lemmas for `Proofs/C07.lean`.
-/
set_option linter.unusedSectionVars false
set_option linter.unusedVariables false

namespace TW.Clip

/-- two loop states that differ only in how the fit is represented -/
structure SimSt {Fit1 Fit2 : Type} (R : Fit1 → Fit2 → Prop) (s1 : St Fit1) (s2 : St Fit2) : Prop where
  mask : s1.mask = s2.mask
  eff : s1.eff = s2.eff
  done : s1.done = s2.done
  fit : R s1.fit s2.fit

/-- same exception, or related states -/
def SimRes {Fit1 Fit2 Err : Type} (R : Fit1 → Fit2 → Prop) :
    Except Err (St Fit1) → Except Err (St Fit2) → Prop
  | .error e1, .error e2 => e1 = e2
  | .ok s1, .ok s2 => SimSt R s1 s2
  | _, _ => False

section
variable {K1 K2 Fit1 Fit2 Err : Type} [Mul K1] [LT K1] [DecidableLT K1] [Mul K2] [LT K2] [DecidableLT K2]

theorem step_sim (c1 : Cfg K1 Fit1 Err) (c2 : Cfg K2 Fit2 Err) (R : Fit1 → Fit2 → Prop)
    (hfit : ∀ m, (∃ e, c1.fit m = .error e ∧ c2.fit m = .error e) ∨
                 (∃ f1 f2, c1.fit m = .ok f1 ∧ c2.fit m = .ok f2 ∧ R f1 f2))
    (htest : ∀ f1 f2 base, R f1 f2 → test c1 f1 base = test c2 f2 base)
    (hmin : c1.minobj = c2.minobj) (hacc : c1.accum = c2.accum) (w : List Bool)
    (s1 : St Fit1) (s2 : St Fit2) (h : SimSt R s1 s2) :
    SimRes R (step c1 w s1) (step c2 w s2) := by
  unfold step
  rw [← h.done]
  by_cases hd : s1.done = true
  · rw [if_pos hd, if_pos hd]; exact h
  · rw [if_neg hd, if_neg hd]
    have hb : baseOf c1 w s1 = baseOf c2 w s2 := by unfold baseOf; rw [hacc, h.mask]
    have ht : test c1 s1.fit (baseOf c1 w s1) = test c2 s2.fit (baseOf c2 w s2) := by
      rw [← hb]; exact htest _ _ _ h.fit
    have hsc : stopCond c1 s1 (test c1 s1.fit (baseOf c1 w s1))
        ↔ stopCond c2 s2 (test c2 s2.fit (baseOf c2 w s2)) := by
      unfold stopCond; rw [← ht, hmin, h.mask]
    simp only
    by_cases hs : stopCond c1 s1 (test c1 s1.fit (baseOf c1 w s1))
    · rw [if_pos hs, if_pos (hsc.mp hs)]
      exact ⟨h.mask, h.eff, rfl, h.fit⟩
    · rw [if_neg hs, if_neg (fun h' => hs (hsc.mpr h'))]
      rw [← ht]
      rcases hfit (test c1 s1.fit (baseOf c1 w s1)) with ⟨e, h1, h2⟩ | ⟨f1, f2, h1, h2, hr⟩
      · rw [h1, h2]; exact rfl
      · rw [h1, h2]
        exact ⟨rfl, by simp [h.eff], rfl, hr⟩

theorem run_sim (c1 : Cfg K1 Fit1 Err) (c2 : Cfg K2 Fit2 Err) (R : Fit1 → Fit2 → Prop)
    (hfit : ∀ m, (∃ e, c1.fit m = .error e ∧ c2.fit m = .error e) ∨
                 (∃ f1 f2, c1.fit m = .ok f1 ∧ c2.fit m = .ok f2 ∧ R f1 f2))
    (htest : ∀ f1 f2 base, R f1 f2 → test c1 f1 base = test c2 f2 base)
    (hmin : c1.minobj = c2.minobj) (hacc : c1.accum = c2.accum) (w : List Bool)
    (s1 : St Fit1) (s2 : St Fit2) (h : SimSt R s1 s2) :
    ∀ n, SimRes R (run c1 w s1 n) (run c2 w s2 n) := by
  intro n
  induction n with
  | zero => exact h
  | succ n ih =>
    cases h1 : run c1 w s1 n with
    | error e1 =>
      cases h2 : run c2 w s2 n with
      | error e2 =>
        rw [h1, h2] at ih
        rw [run_succ_err c1 w s1 n e1 h1, run_succ_err c2 w s2 n e2 h2]
        exact ih
      | ok t2 => rw [h1, h2] at ih; exact ih.elim
    | ok t1 =>
      cases h2 : run c2 w s2 n with
      | error e2 => rw [h1, h2] at ih; exact ih.elim
      | ok t2 =>
        rw [h1, h2] at ih
        rw [run_succ_ok c1 w s1 t1 n h1, run_succ_ok c2 w s2 t2 n h2]
        exact step_sim c1 c2 R hfit htest hmin hacc w t1 t2 ih

end
end TW.Clip

namespace TW.Clip

/-! ### `rmse` is the square root of `mse`, in every branch of `_compute_stat` -/

theorem sumL_eq_sum (l : List ℝ) : sumL l = l.sum := by
  induction l with
  | nil => simp [sumL]
  | cons a l ih => simp [sumL, ih]

theorem dotL_div_zero : ∀ (l f : List ℝ), dotL (l.map fun x => x / (0 : ℝ)) f = 0
  | [], f => by simp [dotL, sumL]
  | _ :: _, [] => by simp [dotL, sumL]
  | a :: l, b :: f => by
    have ih := dotL_div_zero l f
    unfold dotL at ih ⊢
    simp only [List.map_cons, List.zipWith_cons_cons, sumL, ih]
    simp


theorem isZeroK_real (x : ℝ) (h : isZeroK x = true) : x = 0 := by
  unfold isZeroK at h
  simp only [zeroK_eq, Bool.and_eq_true, Bool.not_eq_eq_eq_not, Bool.not_true, decide_eq_false_iff_not,
    not_lt] at h
  exact le_antisymm h.2 h.1

theorem computeStat_rmse (res : List (ℝ × ℝ)) (w : Option (List ℝ)) :
    (computeStat res w).rmse = Real.sqrt (mse res w) := by
  cases w with
  | none => rfl
  | some ws =>
    unfold computeStat
    simp only
    split
    · next hdeg =>
      show (nanK : ℝ) = _
      have hn : (nanK : ℝ) = 0 := by simp [nanK]
      rw [hn]
      have hm : mse res (some ws) = 0 := by
        unfold mse
        simp only
        rcases hdeg with hl | hz
        · have : ws = [] := List.length_eq_zero_iff.mp hl
          subst this
          simp [dotL, sumL]
        · rw [isZeroK_real _ hz, dotL_div_zero, dotL_div_zero]; simp
      rw [hm, Real.sqrt_zero]
    · rfl

/-- how the fits of the two instances are related: same parameters and residuals, and the
`rmse` entry of the code's metric is the square root of the mean square kept by the root-free one -/
def Rsq (f1 f2 : FitRes ℝ) : Prop :=
  f1.lin = f2.lin ∧ f1.resids = f2.resids ∧ f1.stats.rmse = Real.sqrt f2.stats.rmse

theorem fitOn_sq (single : Single ℝ) (nrm : Bool) (obs : List (Obs ℝ)) (wxy wuv : Option (List ℝ))
    (m : List Bool) :
    (∃ e, fitOn single nrm euclid obs wxy wuv m = .error e ∧ fitOn single nrm squared obs wxy wuv m = .error e) ∨
    (∃ f1 f2, fitOn single nrm euclid obs wxy wuv m = .ok f1 ∧ fitOn single nrm squared obs wxy wuv m = .ok f2 ∧
        Rsq f1 f2) := by
  unfold fitOn
  simp only
  cases single (select m obs) (Option.map (select m) wxy) (Option.map (select m) wuv) with
  | error e => exact Or.inl ⟨e, rfl, rfl⟩
  | ok lin =>
    refine Or.inr ⟨_, _, rfl, rfl, rfl, rfl, ?_⟩
    exact computeStat_rmse _ _

theorem sq_passes_iff (a b σ msq : ℝ) (hσ : 0 < σ) :
    hyp a b < σ * Real.sqrt msq ↔ a * a + b * b < σ * σ * msq := by
  show Real.sqrt (a * a + b * b) < σ * Real.sqrt msq ↔ _
  have hA : 0 ≤ a * a + b * b := by nlinarith [mul_self_nonneg a, mul_self_nonneg b]
  have h1 : σ * Real.sqrt msq = Real.sqrt (σ * σ * msq) := by
    rw [Real.sqrt_mul (mul_self_nonneg σ), Real.sqrt_mul_self hσ.le]
  rw [h1, Real.sqrt_lt_sqrt_iff hA]

theorem test_sq (single : Single ℝ) (nrm : Bool) (minobj : Nat) (accum : Bool) (p : ClipPar ℝ)
    (hσ : 0 < p.nsigma) (hst : p.sigstat = .rmse) (obs : List (Obs ℝ)) (wxy wuv : Option (List ℝ))
    (f1 f2 : FitRes ℝ) (base : List Bool) (hR : Rsq f1 f2) :
    test (mkCfg single nrm euclid minobj accum p obs wxy wuv) f1 base
      = test (mkCfg single nrm squared minobj accum p obs wxy wuv) f2 base := by
  apply List.ext_getElem?
  intro i
  rw [test_getElem?, test_getElem?]
  cases base[i]? with
  | none => rfl
  | some b =>
    simp only [Option.map_some, Option.some.injEq]
    congr 1
    have : Passes (mkCfg single nrm euclid minobj accum p obs wxy wuv) f1 i
        ↔ Passes (mkCfg single nrm squared minobj accum p obs wxy wuv) f2 i := by
      unfold Passes
      simp only [mkCfg, List.getElem?_toArray, hst, Stats.get, euclid, squared]
      obtain ⟨hl, _, hr⟩ := hR
      rw [hr, hl]
      cases obs[i]? with
      | none =>
        simp only [zeroK_eq]
        constructor
        · intro h
          have hs : 0 < Real.sqrt f2.stats.rmse := by
            by_contra hc
            have : Real.sqrt f2.stats.rmse = 0 := le_antisymm (not_lt.mp hc) (Real.sqrt_nonneg _)
            rw [this, mul_zero] at h
            exact lt_irrefl _ h
          have := Real.sqrt_pos.mp hs
          positivity
        · intro h
          have hm : 0 < f2.stats.rmse := by
            by_contra hc
            nlinarith [mul_pos hσ hσ, not_lt.mp hc]
          have := Real.sqrt_pos.mpr hm
          positivity
      | some o =>
        simp only [norm2, sqNorm]
        exact sq_passes_iff _ _ _ _ hσ
    simp only [this]

end TW.Clip
