import Proofs.C08Move

/-!
Helper lemmas for C08: the collinearity guard of `fit_general` under a change of coordinates.
An affine map `B` of the `uv` points transforms the matrix of second central moments `C` into
`B_lin · C · B_linᵀ`; for a similarity `λR` both sides of the comparison of the guard,
`cuu*cvv − cuv²` and `((cuu + cvv)/2)²`, are multiplied by `λ⁴`, so the guard gives the same
answer (translations, rotations, uniform scalings, axis flips, the centring of `iter_linear_fit`).
-/
open TW
set_option linter.unusedSectionVars false

namespace TW
variable {K : Type} [Field K] [LinearOrder K] [IsStrictOrderedRing K]

theorem cmomRow_wsumO (g : Row K → K) (rows : List (Row K)) :
    cmomRow g rows =
      { cuu := wsumO rows g fun o => (o.u - wsumO rows g (·.u) / (rows.map g).sum)
                 * (o.u - wsumO rows g (·.u) / (rows.map g).sum)
        cvv := wsumO rows g fun o => (o.v - wsumO rows g (·.v) / (rows.map g).sum)
                 * (o.v - wsumO rows g (·.v) / (rows.map g).sum)
        cuv := wsumO rows g fun o => (o.u - wsumO rows g (·.u) / (rows.map g).sum)
                 * (o.v - wsumO rows g (·.v) / (rows.map g).sum) } := rfl

/-- the second central moments of the transformed `uv` points: `C' = B_lin · C · B_linᵀ`
(whatever is done to `xy`) -/
theorem cmomRow_move (A B : Aff K) (rows : List (Row K)) (g g' : Row K → K)
    (hg : ∀ r, g' (r.move A B) = g r) (hsw : (rows.map g).sum ≠ 0) :
    cmomRow g' (rows.map (Row.move A B)) =
      { cuu := B.m.a * B.m.a * (cmomRow g rows).cuu + 2 * B.m.a * B.m.b * (cmomRow g rows).cuv
                 + B.m.b * B.m.b * (cmomRow g rows).cvv
        cvv := B.m.c * B.m.c * (cmomRow g rows).cuu + 2 * B.m.c * B.m.d * (cmomRow g rows).cuv
                 + B.m.d * B.m.d * (cmomRow g rows).cvv
        cuv := B.m.a * B.m.c * (cmomRow g rows).cuu
                 + (B.m.a * B.m.d + B.m.b * B.m.c) * (cmomRow g rows).cuv
                 + B.m.b * B.m.d * (cmomRow g rows).cvv } := by
  rw [cmomRow_wsumO, cmomRow_wsumO]
  have hsum : ((rows.map (Row.move A B)).map g').sum = (rows.map g).sum := by
    rw [List.map_map]
    exact sum_map_congr rows _ _ (fun r _ => by simp only [Function.comp_def, hg])
  rw [hsum]
  simp only [wsumO_move A B rows _ _ hg]
  set sw := (rows.map g).sum with hswd
  have hum : wsumO rows g (fun o => (o.move A B).u) / sw
      = B.m.a * (wsumO rows g (·.u) / sw) + B.m.b * (wsumO rows g (·.v) / sw) + B.t.x := by
    simp only [Obs.move_u]; rw [wsumO_lin2, ← hswd]; field_simp
  have hvm : wsumO rows g (fun o => (o.move A B).v) / sw
      = B.m.c * (wsumO rows g (·.u) / sw) + B.m.d * (wsumO rows g (·.v) / sw) + B.t.y := by
    simp only [Obs.move_v]; rw [wsumO_lin2, ← hswd]; field_simp
  rw [hum, hvm]
  set um := wsumO rows g (·.u) / sw
  set vm := wsumO rows g (·.v) / sw
  have du : ∀ o : Obs K, (o.move A B).u - (B.m.a * um + B.m.b * vm + B.t.x)
      = B.m.a * (o.u - um) + B.m.b * (o.v - vm) := fun o => by rw [Obs.move_u]; ring
  have dv : ∀ o : Obs K, (o.move A B).v - (B.m.c * um + B.m.d * vm + B.t.y)
      = B.m.c * (o.u - um) + B.m.d * (o.v - vm) := fun o => by rw [Obs.move_v]; ring
  simp only [du, dv]
  simp only [wsumO_bilin rows g (fun o => o.u - um) (fun o => o.v - vm) (fun o => o.u - um) (fun o => o.v - vm)]
  have hvu : wsumO rows g (fun o => (o.v - vm) * (o.u - um)) = wsumO rows g (fun o => (o.u - um) * (o.v - vm)) :=
    wsumO_congr rows _ _ _ _ (fun r _ => by ring)
  rw [hvu]
  simp only [UVMom.mk.injEq]
  refine ⟨?_, ?_, ?_⟩ <;> ring

/-- a regular similarity has a positive squared scale factor -/
theorem isSim_scale_pos (m : M2 K) (h : m.IsSim) (h0 : m.det ≠ 0) : 0 < m.a * m.a + m.b * m.b := by
  have hne : m.a * m.a + m.b * m.b ≠ 0 := by
    rcases h with ⟨h1, h2⟩ | ⟨h1, h2⟩
    · have : m.det = m.a * m.a + m.b * m.b := by simp only [M2.det, h1, h2]; ring
      exact this ▸ h0
    · have : m.det = -(m.a * m.a + m.b * m.b) := by simp only [M2.det, h1, h2]; ring
      intro h; apply h0; rw [this, h, neg_zero]
  exact lt_of_le_of_ne (add_nonneg (mul_self_nonneg _) (mul_self_nonneg _)) (Ne.symm hne)

/-- **the guard is invariant under similarities of the `uv` points** (any map of `xy`): both
sides of its comparison are multiplied by `λ⁴ = (a² + b²)²` -/
theorem collinearGuard_sim (epsD : K) (m : M2 K) (hm : m.IsSim) (h0 : m.det ≠ 0) (c c' : UVMom K)
    (huu : c'.cuu = m.a * m.a * c.cuu + 2 * m.a * m.b * c.cuv + m.b * m.b * c.cvv)
    (hvv : c'.cvv = m.c * m.c * c.cuu + 2 * m.c * m.d * c.cuv + m.d * m.d * c.cvv)
    (huv : c'.cuv = m.a * m.c * c.cuu + (m.a * m.d + m.b * m.c) * c.cuv + m.b * m.d * c.cvv) :
    collinearGuard epsD c' = collinearGuard epsD c := by
  have hpos := isSim_scale_pos m hm h0
  apply collinearGuard_congr_scale epsD ((m.a * m.a + m.b * m.b) * (m.a * m.a + m.b * m.b))
    (mul_pos hpos hpos)
  · rw [UVMom.det_eq, UVMom.det_eq, huu, hvv, huv]
    rcases hm with ⟨h1, h2⟩ | ⟨h1, h2⟩ <;> rw [h1, h2] <;> ring
  · rw [UVMom.bound_eq, UVMom.bound_eq, huu, hvv]
    rcases hm with ⟨h1, h2⟩ | ⟨h1, h2⟩ <;> rw [h1, h2] <;> ring

theorem generalGuardR_move (epsD : K) (bx bu : Bool) (A B : Aff K) (hB : B.m.IsSim)
    (hB0 : B.m.det ≠ 0) (rows : List (Row K)) (hsw : (rows.map (wsel bx bu)).sum ≠ 0) :
    generalGuardR epsD bx bu (rows.map (Row.move A B)) = generalGuardR epsD bx bu rows := by
  rw [generalGuardR_eq, generalGuardR_eq]
  have hc := cmomRow_move A B rows (wsel bx bu) (wsel bx bu) (wsel_move bx bu A B) hsw
  apply collinearGuard_sim epsD B.m hB hB0
  · rw [hc]
  · rw [hc]
  · rw [hc]

end TW
