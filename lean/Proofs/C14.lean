import Proofs.AlignLemmas
import Proofs.C13
import Proofs.C05
import Mathlib.Algebra.Order.Ring.Rat

/-!
# C14 — the reference catalog grows soundly

Property theorems only (helper lemmas: `Proofs/AlignLemmas.lean`).  Model: `TW.alignWcs`
(`Model/Align.lean`).  `out.initial` is the reference catalog before the first alignment (the
caller's table, or the catalog of the reference group), `out.expansions` the list of
`expand_catalog` calls, `out.refcat` the returned catalog; a row is `(source, id, origin image)`.

`ExpOK imgs cfg cat exps` (`AlignLemmas`): applied one after the other to `cat`, every expansion of
`exps` appends exactly the unmatched sources of its group (`get_unmatched_cat` against the catalog
*at that moment*), in catalog order, with ids `max+1, max+2, …`, and was made for a group that had
been aligned successfully or had no overlap with the reference.

The sky agreement of common sources (first sentence of the property) is geometry: it is checked
on the real objects by `harness/props/c14.py`; what is proved here is the bookkeeping it rests on.
The statements hold for every input, every option value and every overlap function, whether the
run returns or raises.
-/
open TW TW.C15L TW.AlignL
set_option linter.unusedSectionVars false

namespace TW.C14
variable {K : Type} [LinearOrder K] [Add K] [NatCast K] [BEq K]
variable (imgs : List Img) (refIn : Option (List Nat × Option (List Int))) (cfg : AlignCfg)
  (pairG : List (List (K × Nat))) (refArea : List RefRow → Nat → K × Nat)

/-- **refcat_prefix**: the returned catalog is the initial catalog, unchanged and in order,
followed by the appended rows in the order of the expansions; when the caller supplied a table
the initial catalog is that table -/
theorem refcat_prefix :
    (alignWcs imgs refIn cfg pairG refArea).refcat =
      (alignWcs imgs refIn cfg pairG refArea).initial
        ++ (alignWcs imgs refIn cfg pairG refArea).expansions.flatMap (·.rows) ∧
    (∀ srcs ids, refIn = some (srcs, ids) → (alignWcs imgs refIn cfg pairG refArea).err = none →
      (alignWcs imgs refIn cfg pairG refArea).initial = rowsOfTable srcs ids) := by
  rcases alignWcs_cases imgs refIn cfg pairG refArea with ⟨e, ev, h⟩ | ⟨st, _, hst, h1, h2, h3, _, _, _, _, _⟩
  · rw [h]; simp [alignFail]
  · refine ⟨?_, ?_⟩
    · rw [h1, h2, h3]
      exact (alignLoop_refcat imgs _ cfg _ refArea _ st.cur st.work st.cat).1
    · intro srcs ids href _
      subst href
      rw [alignStart_some] at hst
      injection hst with hst
      rw [h1, ← hst]

/-- a table supplied by the caller keeps its sources and ids, in order (`1 … len` when it has no
`id` column) -/
theorem table_rows_unchanged (srcs : List Nat) :
    ((rowsOfTable srcs none).map (·.src) = srcs ∧
      (rowsOfTable srcs none).map (·.id) = (List.range srcs.length).map fun (j : Nat) => (j : Int) + 1) ∧
    (∀ ids : List Int, ids.length = srcs.length →
      (rowsOfTable srcs (some ids)).map (·.src) = srcs ∧ (rowsOfTable srcs (some ids)).map (·.id) = ids) :=
  ⟨rowsOfTable_none srcs, fun ids h => rowsOfTable_some srcs ids h⟩

/-- **appended_sound** (1): every expansion was made with `expand_refcat`, for a group that was
handed to `align_to_ref` and either ended SUCCESS — then every member carries status SUCCESS and
was corrected — or had zero overlap with the reference; the expansions append exactly the
unmatched sources of their group with fresh ids (`ExpOK`) -/
theorem appended_sound :
    ExpOK imgs cfg (alignWcs imgs refIn cfg pairG refArea).initial
      (alignWcs imgs refIn cfg pairG refArea).expansions ∧
    ∀ e ∈ (alignWcs imgs refIn cfg pairG refArea).expansions,
      cfg.expand = true ∧ (e.ok = true ∨ e.areaZero = true) ∧
      e.group ∈ (alignWcs imgs refIn cfg pairG refArea).order ∧
      (e.ok = true → ∀ k ∈ e.group,
        Event.status k .success ∈ (alignWcs imgs refIn cfg pairG refArea).events ∧
        Event.correct k ∈ (alignWcs imgs refIn cfg pairG refArea).events) := by
  rcases alignWcs_cases imgs refIn cfg pairG refArea with ⟨e, ev, h⟩ | ⟨st, _, hst, h1, h2, h3, h4, _, _, _, h6⟩
  · rw [h]; simp [alignFail, ExpOK]
  · obtain ⟨_, hok, hexp, hres⟩ := alignLoop_refcat imgs _ cfg _ refArea _ st.cur st.work st.cat

    rw [h1, h3]
    refine ⟨hok, ?_⟩
    intro e he
    obtain ⟨o, hin, hoe⟩ := hres e he
    have hexpand : cfg.expand = true := by
      by_contra hc
      have : cfg.expand = false := by simpa using hc
      rw [hexp this] at he; simp at he
    -- allowed: read off `ExpOK`
    have hallowed : ∀ (cat : List RefRow) (exps : List Expansion), ExpOK imgs cfg cat exps → ∀ e ∈ exps,
        (e.ok = true ∨ e.areaZero = true) := by
      intro cat exps
      induction exps generalizing cat with
      | nil => intro _ e he; simp at he
      | cons x t ih =>
        intro h e he
        rcases List.mem_cons.mp he with rfl | he
        · exact h.2.1
        · exact ih _ h.2.2 e he
    refine ⟨hexpand, hallowed _ _ hok e he, ?_, ?_⟩
    · rw [h4]; exact List.mem_map.mpr ⟨_, hin, rfl⟩
    · intro hs k hk
      rw [h6]
      have ho : o = none := by
        rw [hoe] at hs
        cases o with
        | none => rfl
        | some x => cases hs
      subst ho
      constructor
      · apply List.mem_append_right
        rw [mem_blocks_status]
        exact ⟨_, hin, hk, rfl⟩
      · apply List.mem_append_right
        rw [mem_blocks_correct]
        exact ⟨_, hin, hk, rfl⟩

/-- **appended_sound** (2): an appended row is an unmatched source of the group it was taken from
— a source of one of its images (recorded as the row's origin) that was not in the catalog — and no
physical source is ever listed twice in the returned catalog, provided it is not in the initial
catalog and no group catalog lists a source twice -/
theorem appended_rows_unmatched_once :
    (∀ (cat : List RefRow) (gr : List Nat) (row : RefRow),
      row ∈ newRows cat (unmatchedOf imgs cfg gr cat) →
        row.src ∉ cat.map (·.src) ∧
        ∃ k ∈ gr, row.origin = some k ∧ row.src ∈ (imgs.getD k default).sources) ∧
    (((alignWcs imgs refIn cfg pairG refArea).initial.map (·.src)).Nodup →
      (∀ e ∈ (alignWcs imgs refIn cfg pairG refArea).expansions,
        ((groupSources imgs e.group).map (·.1)).Nodup) →
      ((alignWcs imgs refIn cfg pairG refArea).refcat.map (·.src)).Nodup) := by
  constructor
  · intro cat gr row hrow
    obtain ⟨p, hp, h1, h2⟩ := newRows_mem cat _ row hrow
    obtain ⟨hp1, hp2⟩ := mem_unmatchedOf imgs cfg gr cat p hp
    rw [mem_groupSources] at hp1
    exact ⟨by rw [h1]; exact hp2, p.2, hp1.1, h2, by rw [h1]; exact hp1.2⟩
  · intro hnd hgr
    rw [(refcat_prefix imgs refIn cfg pairG refArea).1]
    exact expOK_nodup imgs cfg _ _ (appended_sound imgs refIn cfg pairG refArea).1 hnd hgr

/-- **fresh_ids**: the appended rows carry the ids `max+1, max+2, …` of the initial catalog,
consecutively across all expansions -/
theorem fresh_ids (h0 : (alignWcs imgs refIn cfg pairG refArea).initial ≠ []) :
    ((alignWcs imgs refIn cfg pairG refArea).expansions.flatMap (·.rows)).map (·.id) =
      (List.range ((alignWcs imgs refIn cfg pairG refArea).expansions.flatMap (·.rows)).length).map
        fun (j : Nat) => maxId (alignWcs imgs refIn cfg pairG refArea).initial + 1 + (j : Int) :=
  expOK_ids imgs cfg _ h0 _ (appended_sound imgs refIn cfg pairG refArea).1

/-- the hypothesis of `fresh_ids` holds whenever the run returns: the initial reference catalog
(a non-empty table, or the catalog of the reference group, which is one of the groups with a
non-empty catalog) has at least one row -/
theorem initial_nonempty (hg : NonnegRaw (keptGroups imgs).length pairG)
    (hids : ∀ srcs ids, refIn = some (srcs, some ids) → ids.length = srcs.length)
    (hret : (alignWcs imgs refIn cfg pairG refArea).err = none) :
    (alignWcs imgs refIn cfg pairG refArea).initial ≠ [] := by
  rcases alignWcs_cases imgs refIn cfg pairG refArea with ⟨e, ev, h⟩ | ⟨st, hre, hst, h1, _, _, _, _, _, _, _⟩
  · rw [h] at hret; simp [alignFail] at hret
  rw [h1]
  cases refIn with
  | some p =>
    obtain ⟨srcs, ids⟩ := p
    rw [alignStart_some] at hst
    injection hst with hst
    rw [← hst]
    show rowsOfTable srcs ids ≠ []
    have hs : srcs ≠ [] := by
      intro hc; subst hc; simp [refEmpty] at hre
    have hlen : (rowsOfTable srcs ids).length = srcs.length := by
      cases ids with
      | none => simp [rowsOfTable]
      | some l => simp [rowsOfTable, hids srcs l rfl]
    intro hc
    rw [hc] at hlen
    exact hs (List.length_eq_zero_iff.mp hlen.symm)
  | none =>
    -- enough groups, otherwise NotEnoughCatalogs
    have hn : 2 ≤ (dropEmpty imgs (formGroups (imgs.map (·.gid)))).1.length := by
      by_contra hc
      have := (TW.C13.not_enough_iff imgs none cfg pairG refArea).mpr
        ⟨rfl, Or.inl ⟨rfl, by rw [← keptGroups_eq]; omega⟩⟩
      rw [this] at hret; cases hret
    rw [← keptGroups_eq] at hg
    obtain ⟨ri, ii, a, rest, hst', hp⟩ := alignStart_none imgs _ (cfg.enforce || !cfg.expand) pairG refArea hn hg
    rw [hst'] at hst
    injection hst with hst
    rw [← hst]
    show rowsOfGroup imgs ((dropEmpty imgs (formGroups (imgs.map (·.gid)))).1.getD ri []) ≠ []
    have hri : ri < (dropEmpty imgs (formGroups (imgs.map (·.gid)))).1.length := by
      have : ri ∈ List.range (dropEmpty imgs (formGroups (imgs.map (·.gid)))).1.length :=
        hp.subset List.mem_cons_self
      exact List.mem_range.mp this
    rw [getD_lt _ _ _ hri]
    have hall : ∀ gr ∈ (dropEmpty imgs (formGroups (imgs.map (·.gid)))).1,
        (groupSources imgs gr).isEmpty = false := by
      intro gr h
      rw [dropEmpty_kept] at h
      simpa using (List.mem_filter.mp h).2
    have hne := hall _ (List.getElem_mem hri)
    intro hc
    have hl := rowsOfGroup_length imgs ((dropEmpty imgs (formGroups (imgs.map (·.gid)))).1[ri])
    rw [hc] at hl
    have : (groupSources imgs ((dropEmpty imgs (formGroups (imgs.map (·.gid)))).1[ri])).isEmpty = true :=
      List.isEmpty_iff.mpr (List.length_eq_zero_iff.mp hl.symm)
    rw [this] at hne
    cases hne

/-- **no_expand_no_growth**: without `expand_refcat` the reference catalog is never extended -/
theorem no_expand_no_growth (h : cfg.expand = false) :
    (alignWcs imgs refIn cfg pairG refArea).expansions = [] ∧
    (alignWcs imgs refIn cfg pairG refArea).refcat = (alignWcs imgs refIn cfg pairG refArea).initial := by
  have hexp : (alignWcs imgs refIn cfg pairG refArea).expansions = [] := by
    rcases alignWcs_cases imgs refIn cfg pairG refArea with ⟨e, ev, h'⟩ | ⟨st, _, _, _, _, h3, _, _, _, _, _⟩
    · rw [h']; rfl
    · rw [h3]
      exact (alignLoop_refcat imgs _ cfg _ refArea _ st.cur st.work st.cat).2.2.1 h
  refine ⟨hexp, ?_⟩
  rw [(refcat_prefix imgs refIn cfg pairG refArea).1, hexp]; simp

/-- **failed_group_appended_only_without_overlap**: the sources of a group that did not end
SUCCESS — too few matches, or a degenerate fit (`FAILED: singular matrix` / `not enough points`) —
are appended only when the group had no overlap with the reference at all (`not area`), and then
they are its unmatched sources at their uncorrected positions (no `set_correction` call was made:
`C13.unchanged_if_not_success`) -/
theorem failed_group_appended_only_without_overlap :
    ∀ e ∈ (alignWcs imgs refIn cfg pairG refArea).expansions, e.ok = false → e.areaZero = true := by
  intro e he hok
  rcases ((appended_sound imgs refIn cfg pairG refArea).2 e he).2.1 with h | h
  · rw [hok] at h; cases h
  · exact h

/-! ### non-vacuity -/

def imgs3 : List Img := [⟨none, [1, 2, 3], none⟩, ⟨none, [2, 3, 4], none⟩, ⟨none, [8, 9], none⟩]
def cfgE : AlignCfg := { expand := true, enforce := true, minobj := 1, fitmin := 2, mode := .ideal }

/-- image 0 matches the table (sources 1, 2), its unmatched source 3 gets id 21; image 1 then
matches 2 and 3 and contributes 4 (id 22); image 2 has no match: FAILED, but it has no overlap
with the reference (area 0), so its sources are appended as well (ids 23, 24) -/
example : (alignWcs imgs3 (some ([1, 2], some [20, 7])) cfgE ([] : List (List (ℚ × Nat)))
    (fun _ _ => ((0 : ℚ), 0))).refcat.map (fun r => (r.src, r.id, r.origin)) =
    [(1, 20, none), (2, 7, none), (3, 21, some 0), (4, 22, some 1), (8, 23, some 2), (9, 24, some 2)] := by
  decide +kernel

example : (alignWcs imgs3 (some ([1, 2], some [20, 7])) cfgE ([] : List (List (ℚ × Nat)))
    (fun _ _ => ((0 : ℚ), 0))).initial ≠ [] := by decide +kernel

/-- with a non-zero overlap the sources of the FAILED image are not appended -/
example : (alignWcs imgs3 (some ([1, 2], some [20, 7])) cfgE ([] : List (List (ℚ × Nat)))
    (fun _ _ => ((1 : ℚ), 0))).refcat.map (fun r => (r.src, r.id)) = [(1, 20), (2, 7), (3, 21), (4, 22)] := by
  decide +kernel

/-- a degenerate fit in the middle: image 1 matches 2 and 3 but cannot be fitted; it overlaps the
reference, so its source 4 is NOT appended; image 2 (no overlap) is appended as before -/
example : (alignWcs [⟨none, [1, 2, 3], none⟩, ⟨none, [2, 3, 4], some .singular⟩, ⟨none, [8, 9], none⟩]
    (some ([1, 2], some [20, 7])) cfgE ([] : List (List (ℚ × Nat)))
    (fun cat g => (((if g = 2 then 0 else 1 : Nat) : ℚ), 0))).refcat.map (fun r => (r.src, r.id, r.origin)) =
    [(1, 20, none), (2, 7, none), (3, 21, some 0), (8, 22, some 2), (9, 23, some 2)] := by
  decide +kernel

end TW.C14


/-! ### On the sky: a physical source seen in two aligned images (or in an aligned image and the reference)

The first clause of C14 in the exact-error model, from the group-level end-to-end theorems of C05
(`group_align_exact*` give `MovedBy`; `group_align_lands_on_reference*` read it on the sky): two groups - FITS or
gWCS, each aligned in its own plane, with its own members, catalog, matcher result and fitted map - are aligned to
ONE reference catalog.  A source of the first group and a source of the second that were matched to the same
reference row end with the same recomputed sky position, which is the position of that reference row. -/
namespace TW.C14
section Sky
open TW.GC TW.GCL TW.GA TW.GAL
variable {F : Type} [Field F] [LinearOrder F] [IsStrictOrderedRing F]

/-- an aligned FITS group against the reference: the matched row carries the reference position -/
theorem aligned_image_agrees_with_reference (P : Aff F) (hP : P.m.det ≠ 0) (δ : Nat → V2 F → V2 F)
    (ms : List (GMember (FState F) F)) (st : GState F) (R : GAResult (FState F) F) (ref : RefCat F)
    (inp rf : List Nat) (f : Aff F) (T : Lin F)
    (h : MovedBy (fitsOps P δ) ms st R ref inp rf f T)
    (k i j : Nat) (rd : F × F) (hi : inp[k]? = some i) (hj : rf[k]? = some j) (hrd : ref.radec[j]? = some rd) :
    ∃ row, R.st.rows[i]? = some row ∧ row.radec = rd :=
  (C05.group_align_lands_on_reference P hP δ ms st R ref inp rf f T h).1 k i j rd hi hj hrd

/-- two FITS groups aligned to the same reference catalog (each in its own plane): a common source - matched to the
same reference row by both - has ONE sky position after the alignment -/
theorem aligned_images_agree_fits (P₁ P₂ : Aff F) (hP₁ : P₁.m.det ≠ 0) (hP₂ : P₂.m.det ≠ 0)
    (δ₁ δ₂ : Nat → V2 F → V2 F)
    (ms₁ ms₂ : List (GMember (FState F) F)) (st₁ st₂ : GState F) (R₁ R₂ : GAResult (FState F) F) (ref : RefCat F)
    (inp₁ rf₁ inp₂ rf₂ : List Nat) (f₁ f₂ : Aff F) (T₁ T₂ : Lin F)
    (h₁ : MovedBy (fitsOps P₁ δ₁) ms₁ st₁ R₁ ref inp₁ rf₁ f₁ T₁)
    (h₂ : MovedBy (fitsOps P₂ δ₂) ms₂ st₂ R₂ ref inp₂ rf₂ f₂ T₂)
    (k₁ k₂ i₁ i₂ j : Nat) (rd : F × F)
    (hi₁ : inp₁[k₁]? = some i₁) (hj₁ : rf₁[k₁]? = some j) (hi₂ : inp₂[k₂]? = some i₂) (hj₂ : rf₂[k₂]? = some j)
    (hrd : ref.radec[j]? = some rd) :
    ∃ row₁ row₂, R₁.st.rows[i₁]? = some row₁ ∧ R₂.st.rows[i₂]? = some row₂ ∧ row₁.radec = row₂.radec ∧
      row₁.radec = rd := by
  obtain ⟨r1, hr1, e1⟩ := aligned_image_agrees_with_reference P₁ hP₁ δ₁ ms₁ st₁ R₁ ref inp₁ rf₁ f₁ T₁ h₁ k₁ i₁ j rd hi₁ hj₁ hrd
  obtain ⟨r2, hr2, e2⟩ := aligned_image_agrees_with_reference P₂ hP₂ δ₂ ms₂ st₂ R₂ ref inp₂ rf₂ f₂ T₂ h₂ k₂ i₂ j rd hi₂ hj₂ hrd
  exact ⟨r1, r2, hr1, hr2, by rw [e1, e2], e1⟩

/-- a FITS group and a gWCS group aligned to the same reference catalog agree on their common sources as well -/
theorem aligned_images_agree_mixed (P : Aff F) (hP : P.m.det ≠ 0) (δ : Nat → V2 F → V2 F)
    (env : Nat → GEnv F) (refW2T refT2W : V2 F → V2 F) (hr1 : ∀ w, refT2W (refW2T w) = w) (s0 : Nat → F)
    (ms₁ : List (GMember (FState F) F)) (ms₂ : List (GMember (GCorr F) F)) (st₁ st₂ : GState F)
    (R₁ : GAResult (FState F) F) (R₂ : GAResult (GCorr F) F) (ref : RefCat F)
    (inp₁ rf₁ inp₂ rf₂ : List Nat) (f₁ f₂ : Aff F) (T₁ T₂ : Lin F)
    (h₁ : MovedBy (fitsOps P δ) ms₁ st₁ R₁ ref inp₁ rf₁ f₁ T₁)
    (h₂ : MovedBy (gwcsOps env refW2T refT2W s0) ms₂ st₂ R₂ ref inp₂ rf₂ f₂ T₂)
    (k₁ k₂ i₁ i₂ j : Nat) (rd : F × F)
    (hi₁ : inp₁[k₁]? = some i₁) (hj₁ : rf₁[k₁]? = some j) (hi₂ : inp₂[k₂]? = some i₂) (hj₂ : rf₂[k₂]? = some j)
    (hrd : ref.radec[j]? = some rd) :
    ∃ row₁ row₂, R₁.st.rows[i₁]? = some row₁ ∧ R₂.st.rows[i₂]? = some row₂ ∧ row₁.radec = row₂.radec ∧
      row₁.radec = rd := by
  obtain ⟨r1, hr1', e1⟩ := (C05.group_align_lands_on_reference P hP δ ms₁ st₁ R₁ ref inp₁ rf₁ f₁ T₁ h₁).1 k₁ i₁ j rd hi₁ hj₁ hrd
  obtain ⟨r2, hr2', e2⟩ := (C05.group_align_lands_on_reference_gwcs env refW2T refT2W hr1 s0 ms₂ st₂ R₂ ref inp₂ rf₂ f₂ T₂ h₂).1
    k₂ i₂ j rd hi₂ hj₂ hrd
  exact ⟨r1, r2, hr1', hr2', by rw [e1, e2], e1⟩

end Sky
end TW.C14
