import Proofs.C06Recovery
import Proofs.C06Proper

/-!
# C06 — single-shot fits are the weighted least-squares optimum of their family

Property theorems only (helpers: `Proofs/C06Lemmas.lean`, `C06Rscale.lean`, `C06Rshift.lean`,
`C06Recovery.lean`, `C06Proper.lean`, and the older `LeastSquares`, `FitGeneral`, `Trig`, `Rscale`, `RscaleOpt`).
The models are `TW.fitShifts`, `TW.fitRscale` (`fit_rshift` = `scale := some 1`), `TW.fitGeneral`
(`Model/Fit.lean`), line-by-line models of `tweakwcs.linearfit`.

* objective: `SS ws obs L = Σ w ‖xy − (F·uv + s)‖²` with `L = (F, s)`;
* weights: `generalW obs wxy wuv` — 1 each when no weights are given, the one list given, or the
  harmonic combination `wxy*wuv/(wxy+wuv)` of both (`weights_modes`, `weights_harmonic`); the
  fitters normalise these weights, which does not move the minimiser;
* `hlen` (weights and points have the same length) is what numpy's broadcasting enforces;
* `shift`/`general` hold over every linearly ordered field, `rscale`/`rshift` over `ℝ` with
  `atan2`, `cos`, `sin` interpreted by `Complex.arg`, `Real.cos`, `Real.sin` (`Proofs/Trig.lean`).
-/
open TW
set_option linter.unusedSectionVars false

namespace TW.C06

section anyField
variable {K : Type} [Field K] [LinearOrder K] [IsStrictOrderedRing K]

/-- the three ways weights enter: none (1 each), one list (that list), both (next theorem) -/
theorem weights_modes (obs : List (Obs K)) (a : List K) :
    generalW obs none none = List.replicate obs.length 1 ∧
    generalW obs (some a) none = a ∧ generalW obs none (some a) = a := by
  refine ⟨?_, rfl, rfl⟩
  simp [generalW, combineW]

/-- with both weight lists the weight of a pair is `wxy*wuv/(wxy+wuv)` where both are positive —
i.e. `1/w = 1/wxy + 1/wuv`, variances add — and `0` elsewhere -/
theorem weights_harmonic (obs : List (Obs K)) (a b : List K) :
    generalW obs (some a) (some b) = List.zipWith harmonic a b ∧
    (∀ x y : K, 0 < x → 0 < y →
      harmonic x y = x * y / (x + y) ∧ 0 < harmonic x y ∧ 1 / harmonic x y = 1 / x + 1 / y) ∧
    (∀ x y : K, ¬ (0 < x ∧ 0 < y) → harmonic x y = 0) := by
  refine ⟨rfl, ?_, ?_⟩
  · intro x y hx hy
    have hxy : 0 < x + y := add_pos hx hy
    have hval : harmonic x y = x * y / (x + y) := by
      unfold harmonic; simp [zeroK_eq, hx, hy]
    refine ⟨hval, ?_, ?_⟩
    · rw [hval]; exact div_pos (mul_pos hx hy) hxy
    · rw [hval]
      have := ne_of_gt hx; have := ne_of_gt hy; have := ne_of_gt hxy
      field_simp
      ring
  · intro x y h
    unfold harmonic
    have : ¬ (0 < y ∧ 0 < x) := fun hh => h ⟨hh.2, hh.1⟩
    simp [zeroK_eq, this]

/-- **`fit_shifts`**: the matrix is the identity and the returned shift minimises
`Σ w ‖xy − (uv + s)‖²` over all shifts, in every weight mode -/
theorem fitShifts_optimal (obs : List (Obs K)) (wxy wuv : Option (List K)) (L : Lin K)
    (h : fitShifts obs wxy wuv = .ok L)
    (hlen : (generalW obs wxy wuv).length = obs.length) :
    (L.m00 = 1 ∧ L.m01 = 0 ∧ L.m10 = 0 ∧ L.m11 = 1) ∧
    ∀ s t : K, SS (generalW obs wxy wuv) obs L ≤ SS (generalW obs wxy wuv) obs ⟨1, 0, 0, 1, s, t⟩ := by
  obtain ⟨hnn, hWpos, e0, e1, e2, e3, ex, ey⟩ := fitShifts_spec obs wxy wuv L h
  refine ⟨⟨e0, e1, e2, e3⟩, ?_⟩
  intro s t
  have hWZ := sumL_weights (generalW obs wxy wuv) obs hlen
  have hne := ne_of_gt hWpos
  have hL : L = ⟨(⟨1, 0, 0, 1, s, t⟩ : Lin K).m00, (⟨1, 0, 0, 1, s, t⟩ : Lin K).m01,
      (⟨1, 0, 0, 1, s, t⟩ : Lin K).m10, (⟨1, 0, 0, 1, s, t⟩ : Lin K).m11, L.sx, L.sy⟩ :=
    lin_ext _ _ e0 e1 e2 e3 rfl rfl
  rw [SS_eq_SSZ, SS_eq_SSZ, hL]
  apply shift_opt _ (zip_nonneg hnn) ⟨1, 0, 0, 1, s, t⟩
  · simp only [one_mul, zero_mul, add_zero]
    rw [← hWZ, ex]; field_simp
  · simp only [one_mul, zero_mul, zero_add]
    rw [← hWZ, ey]; field_simp

/-- **`fit_general`**: whatever is returned minimises the weighted objective over all affine maps
(through the verified model of `inv`, C17) -/
theorem fitGeneral_optimal (eps epsD : K) (heps : 0 < eps) (obs : List (Obs K))
    (wxy wuv : Option (List K))
    (L : Lin K) (h : fitGeneral eps epsD obs wxy wuv = .ok L)
    (hlen : (generalW obs wxy wuv).length = obs.length) :
    ∀ L' : Lin K, SS (generalW obs wxy wuv) obs L ≤ SS (generalW obs wxy wuv) obs L' :=
  TW.fitGeneral_optimal eps epsD heps obs wxy wuv L h hlen

/-- noise-free shifted data are returned exactly (all weight modes) -/
theorem exact_recovery_shift (obs : List (Obs K)) (wxy wuv : Option (List K)) (L : Lin K)
    (h : fitShifts obs wxy wuv = .ok L)
    (hlen : (generalW obs wxy wuv).length = obs.length)
    (s0 t0 : K) (hT : NoiseFree obs ⟨1, 0, 0, 1, s0, t0⟩) : L = ⟨1, 0, 0, 1, s0, t0⟩ := by
  obtain ⟨hnn, hWpos, e0, e1, e2, e3, ex, ey⟩ := fitShifts_spec obs wxy wuv L h
  have hWZ := sumL_weights (generalW obs wxy wuv) obs hlen
  have hne := ne_of_gt hWpos
  apply lin_ext _ _ e0 e1 e2 e3
  · rw [ex, sum_const _ (fun o => o.x - o.u) s0, ← hWZ]
    · field_simp
    · intro p hp
      have := (hT p.2 (List.of_mem_zip hp).2).1
      simp only at this ⊢
      rw [this]; ring
  · rw [ey, sum_const _ (fun o => o.y - o.v) t0, ← hWZ]
    · field_simp
    · intro p hp
      have := (hT p.2 (List.of_mem_zip hp).2).2
      simp only at this ⊢
      rw [this]; ring

/-- noise-free affine data: if `fit_general` returns at all (i.e. the collinearity guard did not
fire — the positively weighted points are not collinear to within `epsD` — and the normal matrix
was inverted) it returns the generating map.  The hypothesis `h` contains the non-degeneracy
condition: `generalGuard epsD obs wxy wuv = false` (`TW.fitGeneral_ok`); on collinear or
coincident points the code now raises (`C17.collinear_general_singular`). -/
theorem exact_recovery_general (eps epsD : K) (heps : 0 < eps) (obs : List (Obs K))
    (wxy wuv : Option (List K)) (L : Lin K) (h : fitGeneral eps epsD obs wxy wuv = .ok L)
    (hlen : (generalW obs wxy wuv).length = obs.length)
    (T : Lin K) (hT : NoiseFree obs T) : L = T := by
  obtain ⟨_, _, _, h⟩ := fitGeneral_ok eps epsD obs wxy wuv L h
  obtain ⟨ex, ey⟩ := gsums_noiseFree (generalW obs wxy wuv) obs hlen T hT
  exact gsolve_noiseFree eps heps _ L T h ex ey

end anyField

/-! ### similarity fits (over `ℝ`) -/

/-- the family of `fit_rscale`: `[[a, b], [−b, a]]` are exactly the matrices `μ·R(θ)` and
`[[a, b], [b, −a]]` exactly the matrices `μ·R(θ)·diag(1, −1)`, with `R(θ) = [[cos θ, sin θ],
[−sin θ, cos θ]]` the convention of `fit['matrix']` -/
theorem similarity_families (L : Lin ℝ) :
    (IsProperSim L ↔ ∃ μ θ : ℝ, L.m00 = μ * Real.cos θ ∧ L.m01 = μ * Real.sin θ ∧
        L.m10 = -(μ * Real.sin θ) ∧ L.m11 = μ * Real.cos θ) ∧
    (IsImproperSim L ↔ ∃ μ θ : ℝ, L.m00 = μ * Real.cos θ ∧ L.m01 = -(μ * Real.sin θ) ∧
        L.m10 = -(μ * Real.sin θ) ∧ L.m11 = -(μ * Real.cos θ)) := by
  constructor
  · constructor
    · rintro ⟨h1, h2⟩
      obtain ⟨μ, θ, _, ha, hb⟩ := polar L.m00 L.m01
      exact ⟨μ, θ, ha, hb, by rw [h1, hb], by rw [h2, ha]⟩
    · rintro ⟨μ, θ, a0, a1, a2, a3⟩
      exact ⟨by rw [a2, a1], by rw [a3, a0]⟩
  · constructor
    · rintro ⟨h1, h2⟩
      obtain ⟨μ, θ, _, ha, hb⟩ := polar L.m00 (-L.m01)
      have hb' : L.m01 = -(μ * Real.sin θ) := by linarith
      exact ⟨μ, θ, ha, hb', by rw [h1, hb'], by rw [h2, ha]⟩
    · rintro ⟨μ, θ, a0, a1, a2, a3⟩
      exact ⟨by rw [a2, a1], by rw [a3, a0]⟩

/-- **`fit_rscale`** (free scale): the result is a similarity (proper or reflected) and it
minimises the weighted objective over ALL proper similarities `μ·R`, ALL reflected ones
`μ·R·diag(1,−1)` and all shifts — in the unweighted and in every weighted mode -/
theorem fitRscale_optimal (obs : List (Obs ℝ)) (wxy wuv : Option (List ℝ)) (L : Lin ℝ)
    (h : fitRscale obs wxy wuv none = .ok L)
    (hlen : (generalW obs wxy wuv).length = obs.length) :
    (IsProperSim L ∨ IsImproperSim L) ∧
    ∀ L' : Lin ℝ, IsProperSim L' ∨ IsImproperSim L' →
      SS (generalW obs wxy wuv) obs L ≤ SS (generalW obs wxy wuv) obs L' := by
  obtain ⟨c, xm, ym, um, vm, hc, hnn, hWpos, _, hM⟩ := fitRscale_unfold obs wxy wuv none L h hlen
  simp only at hM
  obtain ⟨c1, c2, c3, c4, hW, hr⟩ := hM
  obtain ⟨hD, hL1, hL2, hsx, hsy⟩ := rsolve_rscale _ L hr
  simp only at hD hL1 hL2 hsx hsy
  constructor
  · by_cases hdet : (cmom (List.zip ((generalW obs wxy wuv).map (· / c)) obs) xm ym um vm).sxu *
        (cmom (List.zip ((generalW obs wxy wuv).map (· / c)) obs) xm ym um vm).syv -
        (cmom (List.zip ((generalW obs wxy wuv).map (· / c)) obs) xm ym um vm).sxv *
        (cmom (List.zip ((generalW obs wxy wuv).map (· / c)) obs) xm ym um vm).syu < 0
    · obtain ⟨a0, a1, a2, a3⟩ := hL2 hdet
      exact Or.inr ⟨by rw [a2, a1], by rw [a3, a0]⟩
    · obtain ⟨a0, a1, a2, a3⟩ := hL1 hdet
      exact Or.inl ⟨by rw [a2, a1], by rw [a3, a0]⟩
  · intro L' hfam
    have key := rscale_core' _ xm ym um vm ⟨c1, c2, c3, c4⟩ hW hD L hL1 hL2 hsx hsy L' hfam
    rw [← SS_div_objM, ← SS_div_objM] at key
    exact (div_le_div_iff_of_pos_right hc).mp key

/-- **`fit_rscale` with a fixed scale `sc > 0`**: the result is `sc` times a rotation or a
reflected rotation and minimises the weighted objective over all of them (and all shifts) -/
theorem fitRscale_fixed_optimal (obs : List (Obs ℝ)) (wxy wuv : Option (List ℝ)) (sc : ℝ) (L : Lin ℝ)
    (h : fitRscale obs wxy wuv (some sc) = .ok L)
    (hlen : (generalW obs wxy wuv).length = obs.length) :
    ((IsProperSim L ∨ IsImproperSim L) ∧ L.m00^2 + L.m01^2 = sc^2) ∧
    ∀ L' : Lin ℝ, IsProperSim L' ∨ IsImproperSim L' → L'.m00^2 + L'.m01^2 = sc^2 →
      SS (generalW obs wxy wuv) obs L ≤ SS (generalW obs wxy wuv) obs L' := by
  obtain ⟨c, xm, ym, um, vm, hc, hnn, hWpos, hsc, hM⟩ := fitRscale_unfold obs wxy wuv (some sc) L h hlen
  have hsc0 : 0 ≤ sc := le_of_lt (hsc sc rfl)
  simp only at hM
  obtain ⟨c1, c2, c3, c4, hW, hr⟩ := hM
  obtain ⟨cs, sn, hu, hL1, hL2, hsx, hsy⟩ := rsolve_rshift sc _ L hr
  simp only at hL1 hL2 hsx hsy
  have hunitL : ∀ (a b : ℝ), a = sc * cs → b = sc * sn → a^2 + b^2 = sc^2 := by
    intro a b ha hb; rw [ha, hb]
    have : (sc * cs)^2 + (sc * sn)^2 = sc^2 * (cs^2 + sn^2) := by ring
    rw [this, hu, mul_one]
  constructor
  · by_cases hdet : (cmom (List.zip ((generalW obs wxy wuv).map (· / c)) obs) xm ym um vm).sxu *
        (cmom (List.zip ((generalW obs wxy wuv).map (· / c)) obs) xm ym um vm).syv -
        (cmom (List.zip ((generalW obs wxy wuv).map (· / c)) obs) xm ym um vm).sxv *
        (cmom (List.zip ((generalW obs wxy wuv).map (· / c)) obs) xm ym um vm).syu < 0
    · obtain ⟨_, a0, a1, a2, a3⟩ := hL2 hdet
      exact ⟨Or.inr ⟨by rw [a2, a1], by rw [a3, a0]⟩, hunitL _ _ a0 a1⟩
    · obtain ⟨_, a0, a1, a2, a3⟩ := hL1 hdet
      exact ⟨Or.inl ⟨by rw [a2, a1], by rw [a3, a0]⟩, hunitL _ _ a0 a1⟩
  · intro L' hfam hunit
    have key := rshift_core _ xm ym um vm sc ⟨c1, c2, c3, c4⟩ hW hsc0 L cs sn hu hL1 hL2 hsx hsy
      L' hfam hunit
    rw [← SS_div_objM, ← SS_div_objM] at key
    exact (div_le_div_iff_of_pos_right hc).mp key

/-- **`fit_rshift`** (= `fit_rscale(scale=1)`): optimum over all rotations and all reflected
rotations at unit scale, and all shifts -/
theorem fitRshift_optimal (obs : List (Obs ℝ)) (wxy wuv : Option (List ℝ)) (L : Lin ℝ)
    (h : fitRscale obs wxy wuv (some 1) = .ok L)
    (hlen : (generalW obs wxy wuv).length = obs.length) :
    ((IsProperSim L ∨ IsImproperSim L) ∧ L.m00^2 + L.m01^2 = 1) ∧
    ∀ L' : Lin ℝ, IsProperSim L' ∨ IsImproperSim L' → L'.m00^2 + L'.m01^2 = 1 →
      SS (generalW obs wxy wuv) obs L ≤ SS (generalW obs wxy wuv) obs L' := by
  have := fitRscale_fixed_optimal obs wxy wuv 1 L h hlen
  simpa using this

/-- noise-free data generated by ANY similarity (proper or reflected, any angle — ±45°, 90°,
135°, 180°, axis flips included — any scale, any shift): the fit reproduces the data exactly
(zero residuals), and on points that are not all on one line it returns the generating map -/
theorem exact_recovery_rscale (obs : List (Obs ℝ)) (wxy wuv : Option (List ℝ)) (L : Lin ℝ)
    (h : fitRscale obs wxy wuv none = .ok L)
    (hlen : (generalW obs wxy wuv).length = obs.length)
    (T : Lin ℝ) (hfam : IsProperSim T ∨ IsImproperSim T) (hT : NoiseFree obs T) :
    SS (generalW obs wxy wuv) obs L = 0 ∧
    (NonCollinear (List.zip (generalW obs wxy wuv) obs) → L = T) := by
  obtain ⟨_, _, _, _, _, _, hnn, _, _, _⟩ := fitRscale_unfold obs wxy wuv none L h hlen
  have hopt := (fitRscale_optimal obs wxy wuv L h hlen).2 T hfam
  have hT0 := SS_noiseFree (generalW obs wxy wuv) obs T hT
  have hL0 : SS (generalW obs wxy wuv) obs L = 0 :=
    SSZ_zero_of_le _ (zip_nonneg hnn) L T hopt hT0
  exact ⟨hL0, fun hnc => zero_resid_unique _ (zip_nonneg hnn) hnc L T hL0 hT0⟩

/-- the same for `fit_rshift`: noise-free data generated by a rotation or reflected rotation at
unit scale -/
theorem exact_recovery_rshift (obs : List (Obs ℝ)) (wxy wuv : Option (List ℝ)) (L : Lin ℝ)
    (h : fitRscale obs wxy wuv (some 1) = .ok L)
    (hlen : (generalW obs wxy wuv).length = obs.length)
    (T : Lin ℝ) (hfam : IsProperSim T ∨ IsImproperSim T) (hunit : T.m00^2 + T.m01^2 = 1)
    (hT : NoiseFree obs T) :
    SS (generalW obs wxy wuv) obs L = 0 ∧
    (NonCollinear (List.zip (generalW obs wxy wuv) obs) → L = T) := by
  obtain ⟨_, _, _, _, _, _, hnn, _, _, _⟩ := fitRscale_unfold obs wxy wuv (some 1) L h hlen
  have hopt := (fitRshift_optimal obs wxy wuv L h hlen).2 T hfam hunit
  have hT0 := SS_noiseFree (generalW obs wxy wuv) obs T hT
  have hL0 : SS (generalW obs wxy wuv) obs L = 0 :=
    SSZ_zero_of_le _ (zip_nonneg hnn) L T hopt hT0
  exact ⟨hL0, fun hnc => zero_resid_unique _ (zip_nonneg hnn) hnc L T hL0 hT0⟩

/-- noise-free data generated by a PROPER similarity (a rotation by any angle, any scale, any
shift) are returned exactly whenever `fit_rscale` returns — no non-collinearity needed: collinear
sets and every two-point set (the minimum, where `det H = 0`) are included -/
theorem exact_recovery_rscale_proper (obs : List (Obs ℝ)) (wxy wuv : Option (List ℝ)) (L : Lin ℝ)
    (h : fitRscale obs wxy wuv none = .ok L)
    (hlen : (generalW obs wxy wuv).length = obs.length)
    (T : Lin ℝ) (hp : IsProperSim T) (hT : NoiseFree obs T) : L = T :=
  rscale_recovers_proper obs wxy wuv L h hlen T hp hT

/-- noise-free data generated by a rotation at unit scale are returned exactly by `fit_rshift` as
soon as two positively weighted points have different `uv` (two-point sets included) -/
theorem exact_recovery_rshift_proper (obs : List (Obs ℝ)) (wxy wuv : Option (List ℝ)) (L : Lin ℝ)
    (h : fitRscale obs wxy wuv (some 1) = .ok L)
    (hlen : (generalW obs wxy wuv).length = obs.length)
    (T : Lin ℝ) (hp : IsProperSim T) (hunit : T.m00^2 + T.m01^2 = 1) (hT : NoiseFree obs T)
    (p q : ℝ × Obs ℝ) (hpm : p ∈ List.zip (generalW obs wxy wuv) obs)
    (hqm : q ∈ List.zip (generalW obs wxy wuv) obs) (hp0 : 0 < p.1) (hq0 : 0 < q.1)
    (hne : p.2.u ≠ q.2.u ∨ p.2.v ≠ q.2.v) : L = T :=
  rshift_recovers_proper obs wxy wuv L h hlen T hp hunit hT p q hpm hqm hp0 hq0 hne

/-! ### non-vacuity: concrete inputs on which the fitters return (exact rationals) -/

/-- the returned parameters as a tuple (for `decide`) -/
def tup {K : Type} (r : Except FitErr (Lin K)) : Option (K × K × K × K × K × K) :=
  match r with
  | .ok L => some (L.m00, L.m01, L.m10, L.m11, L.sx, L.sy)
  | .error _ => none

example : tup (fitShifts (K := ℚ) [⟨1, 2, 0, 0⟩, ⟨3, 1, 1, 1⟩] none none) = some (1, 0, 0, 1, 3/2, 1) := by
  decide +kernel

example : tup (fitShifts (K := ℚ) [⟨1, 2, 0, 0⟩, ⟨3, 1, 1, 1⟩, ⟨5, 5, 2, 2⟩] (some [1, 3, 0]) (some [1, 1, 2]))
    = some (1, 0, 0, 1, 8/5, 4/5) := by
  decide +kernel

example : tup (fitGeneral (K := ℚ) (1/1000000) (1/4503599627370496)
    [⟨1, 1, 0, 0⟩, ⟨3, 0, 1, 0⟩, ⟨0, 4, 0, 1⟩, ⟨2, 3, 1, 1⟩] none none)
    = some (2, -1, -1, 3, 1, 1) := by
  decide +kernel

-- the non-degeneracy condition inside the hypothesis of `exact_recovery_general` /
-- `fitGeneral_optimal` (the collinearity guard with the code's threshold 2^-52 does not fire) is
-- met by these four points, and by a thin but legitimate set (aspect ratio 1e-6)
example : generalGuard (K := ℚ) (1/4503599627370496)
    [⟨1, 1, 0, 0⟩, ⟨3, 0, 1, 0⟩, ⟨0, 4, 0, 1⟩, ⟨2, 3, 1, 1⟩] none none = false := by decide +kernel
example : tup (fitGeneral (K := ℚ) (1/1000000) (1/4503599627370496)
    [⟨1, 1, 0, 0⟩, ⟨2000001, -999999, 1000000, 0⟩, ⟨0, 4, 0, 1⟩, ⟨2000000, -999996, 1000000, 1⟩,
     ⟨1000001, -499999, 500000, 0⟩] none none)
    = some (2, -1, -1, 3, 1, 1) := by
  decide +kernel
-- … while a weighted set whose positively weighted points are collinear is refused
example : tup (fitGeneral (K := ℚ) (1/1000000) (1/4503599627370496)
    [⟨1, 1, 0, 0⟩, ⟨3, 0, 1, 0⟩, ⟨5, -1, 2, 0⟩, ⟨2, 3, 1, 1⟩] (some [1, 1, 1, 0]) none) = none := by
  decide +kernel


/-! ### special members of the families (the cases the property names) -/

/-- 90°, 180°, the two axis flips, with arbitrary shifts; all have unit scale -/
example (s t : ℝ) : IsProperSim ⟨0, 1, -1, 0, s, t⟩ ∧ IsProperSim ⟨-1, 0, 0, -1, s, t⟩ ∧
    IsImproperSim ⟨1, 0, 0, -1, s, t⟩ ∧ IsImproperSim ⟨-1, 0, 0, 1, s, t⟩ := by
  refine ⟨⟨?_, ?_⟩, ⟨?_, ?_⟩, ⟨?_, ?_⟩, ⟨?_, ?_⟩⟩ <;> norm_num

/-- ±45° and 135° at unit scale -/
example (s t : ℝ) :
    let r := Real.sqrt 2 / 2
    (IsProperSim ⟨r, r, -r, r, s, t⟩ ∧ r^2 + r^2 = 1) ∧ (IsProperSim ⟨r, -r, r, r, s, t⟩ ∧ r^2 + (-r)^2 = 1) ∧
    (IsProperSim ⟨-r, r, -r, -r, s, t⟩ ∧ (-r)^2 + r^2 = 1) := by
  intro r
  have h2 : Real.sqrt 2 ^ 2 = 2 := Real.sq_sqrt (by norm_num)
  have hr : r^2 = 1/2 := by simp only [r]; rw [div_pow, h2]; norm_num
  refine ⟨⟨⟨rfl, rfl⟩, ?_⟩, ⟨⟨by ring, rfl⟩, ?_⟩, ⟨⟨rfl, rfl⟩, ?_⟩⟩
  · rw [hr]; norm_num
  · rw [neg_sq, hr]; norm_num
  · rw [neg_sq, hr]; norm_num

/-! ### witnesses for the two repaired formulas (findings F1 and F11) -/

/-- `rsolve` with the angle rule and the sign used in the shift as parameters (a copy of the model,
used only to state the two pre-fix witnesses) -/
noncomputable def rsolveWith (thetaF : ℝ → ℝ → ℝ) (sdetF : ℝ → ℝ) (scale : Option ℝ) (s : RSums ℝ) :
    Except FitErr (Lin ℝ) :=
  let det := s.sxu * s.syv - s.sxv * s.syu
  let num := if det < zeroK then s.sxv + s.syu else s.sxv - s.syu
  let den := if det < zeroK then s.sxu - s.syv else s.sxu + s.syv
  let theta := thetaF num den
  let c : ℝ := HasTrig.cosdeg theta
  let sn : ℝ := HasTrig.sindeg theta
  let snum := den * c + num * sn
  let magE : Except FitErr ℝ :=
    match scale with
    | some sc => .ok sc
    | none => if zeroK < s.su2v2 then .ok (snum / s.su2v2) else .error .singular
  match magE with
  | .error e => .error e
  | .ok mag =>
    let sthetax := if det < zeroK then -(mag * sn) else mag * sn
    let cthetay := if det < zeroK then -(mag * c) else mag * c
    let cthetax := mag * c
    let sthetay := mag * sn
    let sdet : ℝ := sdetF det
    let xshift := s.xm - s.um * cthetax - sdet * s.vm * sthetax
    let yshift := s.ym + sdet * s.um * sthetay - s.vm * cthetay
    .ok ⟨cthetax, sthetay, -sthetax, cthetay, xshift, yshift⟩

/-- the repaired rules give back the model -/
example (scale : Option ℝ) (s : RSums ℝ) :
    rsolveWith rsTheta (fun det => if det < zeroK then -oneK else oneK) scale s = rsolve scale s := by
  cases scale with
  | none =>
    by_cases h : (zeroK : ℝ) < s.su2v2
    · simp only [rsolveWith, rsolve, h, if_true]
    · simp only [rsolveWith, rsolve, h, if_false]
  | some sc => simp only [rsolveWith, rsolve]

/-- pre-F1: `if rot_num == rot_denom: theta = 0.0` -/
noncomputable def thetaPreF1 (num den : ℝ) : ℝ :=
  if num = den then 0 else (let t : ℝ := HasTrig.atan2deg num den; if t < 0 then t + 360 else t)
/-- pre-F11: `sdet = np.sign(det)` -/
noncomputable def sdetPreF11 (det : ℝ) : ℝ := if det < 0 then -1 else if 0 < det then 1 else 0

/-- the witness of F1: `{(±1,0),(0,±1)}` mapped by `√2·R(45°) = [[1,1],[−1,1]]` -/
def obs45 : List (Obs ℝ) := [⟨1, -1, 1, 0⟩, ⟨-1, 1, -1, 0⟩, ⟨1, 1, 0, 1⟩, ⟨-1, -1, 0, -1⟩]
def sums45 : RSums ℝ := ⟨0, 0, 0, 0, 2, 2, -2, 2, 4⟩

example : NoiseFree obs45 ⟨1, 1, -1, 1, 0, 0⟩ := by
  intro o ho
  simp only [obs45, List.mem_cons, List.not_mem_nil, or_false] at ho
  rcases ho with rfl | rfl | rfl | rfl <;> norm_num

/-- pre-F1 formula: numerator = denominator = 4, so `theta = 0` and the identity is returned,
for `rscale` and for `rshift` -/
example : rsolveWith thetaPreF1 (fun det => if det < zeroK then -oneK else oneK) none sums45
      = .ok ⟨1, 0, 0, 1, 0, 0⟩ ∧
    rsolveWith thetaPreF1 (fun det => if det < zeroK then -oneK else oneK) (some 1) sums45
      = .ok ⟨1, 0, 0, 1, 0, 0⟩ := by
  have cosdeg_zero : (HasTrig.cosdeg (0:ℝ) : ℝ) = 1 := by
    show Real.cos (0 * Real.pi / 180) = 1; simp
  have sindeg_zero : (HasTrig.sindeg (0:ℝ) : ℝ) = 0 := by
    show Real.sin (0 * Real.pi / 180) = 0; simp
  constructor <;>
    norm_num [rsolveWith, thetaPreF1, sums45, cosdeg_zero, sindeg_zero]


/-- the sums of the witness, as computed by the model -/
example : rsums (normW 4 none) (rscaleWmom obs45 none none) obs45 = sums45 := by
  norm_num [rsums, normW, rscaleWmom, combineW, obs45, sums45, dotL, sumL, mulL, List.replicate]

/-- the repaired model returns the generating similarity on the same input (and does return) -/
example : fitRscale obs45 none none none = .ok ⟨1, 1, -1, 1, 0, 0⟩ := by
  have rsums45 : rsums (normW 4 none) (rscaleWmom obs45 none none) obs45 = sums45 := by
    norm_num [rsums, normW, rscaleWmom, combineW, obs45, sums45, dotL, sumL, mulL, List.replicate]
  have h1 : fitRscale obs45 none none none = rsolve none sums45 := by
    rw [← rsums45]; simp [fitRscale, rscaleBad, combineW, obs45]
  rw [h1]
  obtain ⟨L, hL⟩ : ∃ L, rsolve none sums45 = .ok L := by
    simp only [rsolve, sums45, zeroK_eq]; norm_num
  rw [hL]
  obtain ⟨_, hL1, _, hsx, hsy⟩ := rsolve_rscale _ L hL
  have hd : ¬ (sums45.sxu * sums45.syv - sums45.sxv * sums45.syu < 0) := by norm_num [sums45]
  obtain ⟨a0, a1, a2, a3⟩ := hL1 hd
  congr 1
  apply lin_ext <;> simp only
  · rw [a0]; norm_num [sums45]
  · rw [a1]; norm_num [sums45]
  · rw [a2]; norm_num [sums45]
  · rw [a3]; norm_num [sums45]
  · rw [hsx]; norm_num [sums45]
  · rw [hsy]; norm_num [sums45]

/-- the identity returned by the pre-F1 formula is not optimal: objective 4 against 0 (`rscale`)
and against 4/5 for the unit-scale rotation with `(cos, sin) = (3/5, 4/5)` (`rshift`) -/
example : SS (generalW obs45 none none) obs45 ⟨1, 0, 0, 1, 0, 0⟩ = 4 ∧
    SS (generalW obs45 none none) obs45 ⟨1, 1, -1, 1, 0, 0⟩ = 0 ∧
    SS (generalW obs45 none none) obs45 ⟨3/5, 4/5, -(4/5), 3/5, 0, 0⟩ = 4/5 := by
  refine ⟨?_, ?_, ?_⟩ <;> norm_num [SS, generalW, combineW, obs45, List.replicate]

/-- the witness of F11: the two-point set `{(0,0),(1,0)}` mapped by `[[1,2],[−2,1]]` (collinear,
`det = 0`) -/
def obs2 : List (Obs ℝ) := [⟨0, 0, 0, 0⟩, ⟨1, -2, 1, 0⟩]
noncomputable def sums2 : RSums ℝ := ⟨1/2, -1, 1/2, 0, 1/2, 0, -1, 0, 1/2⟩

example : rsums (normW 2 none) (rscaleWmom obs2 none none) obs2 = sums2 := by
  norm_num [rsums, normW, rscaleWmom, combineW, obs2, sums2, dotL, sumL, mulL, List.replicate]

/-- pre-F11 formula (`sdet = sign(det) = 0`): the cross term of the shift is dropped, the returned
`y` shift is `−1` although the data were generated with shift `(0, 0)` … -/
example (L : Lin ℝ) (h : rsolveWith rsTheta sdetPreF11 none sums2 = .ok L) : L.sy = -1 := by
  simp only [rsolveWith, sums2, zeroK_eq, sdetPreF11] at h
  norm_num at h
  rw [← h]

/-- … while the repaired model returns the generating map -/
example : fitRscale obs2 none none none = .ok ⟨1, 2, -2, 1, 0, 0⟩ := by
  have rsums2 : rsums (normW 2 none) (rscaleWmom obs2 none none) obs2 = sums2 := by
    norm_num [rsums, normW, rscaleWmom, combineW, obs2, sums2, dotL, sumL, mulL, List.replicate]
  have h1 : fitRscale obs2 none none none = rsolve none sums2 := by
    rw [← rsums2]; simp [fitRscale, rscaleBad, combineW, obs2]
  rw [h1]
  obtain ⟨L, hL⟩ : ∃ L, rsolve none sums2 = .ok L := by
    simp only [rsolve, sums2, zeroK_eq]; norm_num
  rw [hL]
  obtain ⟨_, hL1, _, hsx, hsy⟩ := rsolve_rscale _ L hL
  have hd : ¬ (sums2.sxu * sums2.syv - sums2.sxv * sums2.syu < 0) := by norm_num [sums2]
  obtain ⟨a0, a1, a2, a3⟩ := hL1 hd
  congr 1
  apply lin_ext <;> simp only
  · rw [a0]; norm_num [sums2]
  · rw [a1]; norm_num [sums2]
  · rw [a2]; norm_num [sums2]
  · rw [a3]; norm_num [sums2]
  · rw [hsx, a0, a1]; norm_num [sums2]
  · rw [hsy, a2, a3]; norm_num [sums2]

end TW.C06
