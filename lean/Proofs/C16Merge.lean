import Proofs.C16Hull
import Mathlib.Algebra.Order.AbsoluteValue.Basic

/-!
Helper lemmas for C16: the `min_separation` loop.
-/
open TW
set_option linter.unusedSectionVars false

namespace TW
variable {K : Type} [Field K] [LinearOrder K] [IsStrictOrderedRing K]

theorem absP_eq (x : K) : absP x = |x| := by
  unfold absP
  simp only [zeroNat_cast]
  split
  · next h => rw [abs_of_neg h]
  · next h => rw [abs_of_nonneg (not_lt.mp h)]

theorem leB_iff (a b : K) : leB a b = true ↔ a ≤ b := by
  unfold leB; simp

theorem closeTo_iff (s : K) (a b : Pt K) :
    closeTo s a b = true ↔ |a.1 - b.1| ≤ s ∧ |a.2 - b.2| ≤ s := by
  unfold closeTo
  rw [Bool.and_eq_true, leB_iff, leB_iff, absP_eq, absP_eq]

theorem mergeTail_nil (s : K) : mergeTail s ([] : List (Pt K)) = [] := by
  rw [mergeTail]; intro a b rest h; cases h

theorem mergeTail_single (s : K) (a : Pt K) : mergeTail s [a] = [a] := by
  rw [mergeTail]; intro a b rest h; cases h

theorem mergeTail_cons_cons (s : K) (a b : Pt K) (rest : List (Pt K)) :
    mergeTail s (a :: b :: rest) =
      if closeTo s a b then mergeTail s (b :: rest) else a :: mergeTail s (b :: rest) := by
  rw [mergeTail]

theorem mergeTail_sublist (s : K) : ∀ l : List (Pt K), (mergeTail s l).Sublist l := by
  intro l
  induction l with
  | nil => rw [mergeTail_nil]
  | cons a t ih =>
    cases t with
    | nil => rw [mergeTail_single]
    | cons b rest =>
      rw [mergeTail_cons_cons]
      split
      · exact List.Sublist.cons a ih
      · exact List.Sublist.cons_cons a ih

theorem mergeTail_getLast (s : K) : ∀ l : List (Pt K), (mergeTail s l).getLast? = l.getLast? := by
  intro l
  induction l with
  | nil => rw [mergeTail_nil]
  | cons a t ih =>
    cases t with
    | nil => rw [mergeTail_single]
    | cons b rest =>
      rw [mergeTail_cons_cons]
      have hne : mergeTail s (b :: rest) ≠ [] := by
        intro h
        rw [h] at ih
        exact absurd (List.getLast?_eq_none_iff.mp ih.symm) (by simp)
      split
      · rw [ih, List.getLast?_cons_cons]
      · rw [List.getLast?_cons_of_ne_nil hne, ih, List.getLast?_cons_cons]

theorem mergeTail_ne (s : K) (l : List (Pt K)) (h : l ≠ []) : mergeTail s l ≠ [] := by
  intro he
  have := mergeTail_getLast s l
  rw [he] at this
  exact h (List.getLast?_eq_none_iff.mp this.symm)

/-- closed form of the loop behind the first vertex: a vertex is kept exactly when it is **not**
close to its successor in the original list; the last vertex is always kept -/
theorem mergeTail_eq (s : K) : ∀ l : List (Pt K),
    mergeTail s l =
      ((l.zip l.tail).filter (fun e => !closeTo s e.1 e.2)).map Prod.fst ++ l.getLast?.toList := by
  intro l
  induction l with
  | nil => rw [mergeTail_nil]; rfl
  | cons a t ih =>
    cases t with
    | nil => rw [mergeTail_single]; rfl
    | cons b rest =>
      rw [mergeTail_cons_cons, ih]
      have ez : (a :: b :: rest).zip (a :: b :: rest).tail = (a, b) :: (b :: rest).zip (b :: rest).tail := rfl
      rw [ez, List.filter_cons, List.getLast?_cons_cons]
      by_cases hc : closeTo s a b = true
      · simp [hc]
      · simp [hc]

theorem mergeSep_sublist (s : K) (h : List (Pt K)) : (mergeSep s h).Sublist h := by
  cases h with
  | nil => exact List.Sublist.slnil
  | cons v rest => exact List.Sublist.cons_cons v (mergeTail_sublist s rest)

theorem mergeSep_head (s : K) (h : List (Pt K)) : (mergeSep s h).head? = h.head? := by
  cases h <;> rfl

theorem mergeSep_getLast (s : K) (h : List (Pt K)) : (mergeSep s h).getLast? = h.getLast? := by
  cases h with
  | nil => rfl
  | cons v rest =>
    show (v :: mergeTail s rest).getLast? = _
    cases rest with
    | nil => rw [mergeTail_nil]
    | cons b r =>
      rw [List.getLast?_cons_of_ne_nil (mergeTail_ne s _ (by simp)), mergeTail_getLast,
        List.getLast?_cons_cons]

/-- no interior vertex is close to its successor: the loop changes nothing -/
theorem mergeTail_id (s : K) : ∀ l : List (Pt K),
    (∀ e ∈ l.zip l.tail, closeTo s e.1 e.2 = false) → mergeTail s l = l := by
  intro l
  induction l with
  | nil => intro _; rw [mergeTail_nil]
  | cons a t ih =>
    cases t with
    | nil => intro _; rw [mergeTail_single]
    | cons b rest =>
      intro h
      have ez : (a :: b :: rest).zip (a :: b :: rest).tail = (a, b) :: (b :: rest).zip (b :: rest).tail := rfl
      rw [ez] at h
      rw [mergeTail_cons_cons, h (a, b) (by simp), ih (fun e he => h e (List.mem_cons_of_mem _ he))]
      simp

end TW
