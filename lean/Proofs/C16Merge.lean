import Proofs.C16Hull
import Mathlib.Algebra.Order.AbsoluteValue.Basic

/-!
Helper lemmas for C16: the `min_separation` loop.
-/
open TW
set_option linter.unusedSectionVars false

namespace TW
variable {K : Type} [Field K] [LinearOrder K] [IsStrictOrderedRing K]

theorem absP_eq (x : K) : absP x = |x| := by
  unfold absP
  simp only [zeroNat_cast]
  split
  · next h => rw [abs_of_neg h]
  · next h => rw [abs_of_nonneg (not_lt.mp h)]

theorem leB_iff (a b : K) : leB a b = true ↔ a ≤ b := by
  unfold leB; simp

theorem closeTo_iff (s : K) (a b : Pt K) :
    closeTo s a b = true ↔ |a.1 - b.1| ≤ s ∧ |a.2 - b.2| ≤ s := by
  unfold closeTo
  rw [Bool.and_eq_true, leB_iff, leB_iff, absP_eq, absP_eq]

theorem closeTo_symm (s : K) (a b : Pt K) : closeTo s a b = closeTo s b a := by
  have h : (closeTo s a b = true) ↔ (closeTo s b a = true) := by
    rw [closeTo_iff, closeTo_iff, abs_sub_comm a.1 b.1, abs_sub_comm a.2 b.2]
  cases h1 : closeTo s a b <;> cases h2 : closeTo s b a <;> simp_all

/-- two points are farther apart than `s` in at least one coordinate -/
def FarApart (s : K) (a b : Pt K) : Prop := ¬ (|a.1 - b.1| ≤ s ∧ |a.2 - b.2| ≤ s)

theorem farApart_iff (s : K) (a b : Pt K) : FarApart s a b ↔ closeTo s a b = false := by
  unfold FarApart
  rw [← closeTo_iff]
  cases closeTo s a b <;> simp

theorem FarApart_symm {s : K} {a b : Pt K} (h : FarApart s a b) : FarApart s b a := by
  rw [farApart_iff] at h ⊢
  rw [closeTo_symm]; exact h

/-- every two consecutive vertices of the list are farther apart than `s` in some coordinate -/
def Separated (s : K) : List (Pt K) → Prop
  | a :: b :: rest => FarApart s a b ∧ Separated s (b :: rest)
  | _ => True

/-! ### the greedy backward pass -/

theorem greedyKeep_nil (s : K) : greedyKeep s ([] : List (Pt K)) = [] := rfl

theorem greedyKeep_cons (s : K) (v : Pt K) (l : List (Pt K)) :
    greedyKeep s (v :: l) = greedyStep s v (greedyKeep s l) := rfl

theorem greedyStep_nil (s : K) (v : Pt K) : greedyStep s v [] = [v] := rfl

theorem greedyStep_cons (s : K) (v j : Pt K) (ks : List (Pt K)) :
    greedyStep s v (j :: ks) = if closeTo s v j then j :: ks else v :: j :: ks := rfl

theorem greedyKeep_ne (s : K) : ∀ l : List (Pt K), l ≠ [] → greedyKeep s l ≠ [] := by
  intro l hl
  cases l with
  | nil => exact absurd rfl hl
  | cons v t =>
    rw [greedyKeep_cons]
    cases hk : greedyKeep s t with
    | nil => rw [greedyStep_nil]; simp
    | cons j ks => rw [greedyStep_cons]; split <;> simp

theorem greedyKeep_sublist (s : K) : ∀ l : List (Pt K), (greedyKeep s l).Sublist l := by
  intro l
  induction l with
  | nil => exact List.Sublist.slnil
  | cons v t ih =>
    rw [greedyKeep_cons]
    cases hk : greedyKeep s t with
    | nil => rw [greedyStep_nil]; rw [hk] at ih; exact List.Sublist.cons_cons v ih
    | cons j ks =>
      rw [greedyStep_cons]
      rw [hk] at ih
      split
      · exact List.Sublist.cons v ih
      · exact List.Sublist.cons_cons v ih

theorem greedyKeep_getLast (s : K) : ∀ l : List (Pt K), (greedyKeep s l).getLast? = l.getLast? := by
  intro l
  induction l with
  | nil => rfl
  | cons v t ih =>
    rw [greedyKeep_cons]
    cases t with
    | nil => rfl
    | cons w t' =>
      have hne := greedyKeep_ne s (w :: t') (by simp)
      cases hk : greedyKeep s (w :: t') with
      | nil => exact absurd hk hne
      | cons j ks =>
        rw [hk] at ih
        rw [greedyStep_cons, List.getLast?_cons_cons]
        split
        · exact ih
        · rw [List.getLast?_cons_cons]; exact ih

theorem greedyKeep_separated (s : K) : ∀ l : List (Pt K), Separated s (greedyKeep s l) := by
  intro l
  induction l with
  | nil => trivial
  | cons v t ih =>
    rw [greedyKeep_cons]
    cases hk : greedyKeep s t with
    | nil => rw [greedyStep_nil]; trivial
    | cons j ks =>
      rw [hk] at ih
      rw [greedyStep_cons]
      by_cases hc : closeTo s v j = true
      · rw [if_pos hc]; exact ih
      · rw [if_neg hc]
        refine ⟨?_, ih⟩
        rw [farApart_iff]
        simpa using hc

/-- every visited vertex is kept or within `s` (both coordinates) of a vertex that is kept -/
theorem greedyKeep_covers (s : K) : ∀ l : List (Pt K), ∀ x ∈ l,
    x ∈ greedyKeep s l ∨ ∃ y ∈ greedyKeep s l, closeTo s x y = true := by
  intro l
  induction l with
  | nil => intro x hx; cases hx
  | cons v t ih =>
    intro x hx
    rw [greedyKeep_cons]
    have hsub : ∀ y ∈ greedyKeep s t, y ∈ greedyStep s v (greedyKeep s t) := by
      intro y hy
      cases hk : greedyKeep s t with
      | nil => rw [hk] at hy; cases hy
      | cons j ks =>
        rw [hk] at hy
        rw [greedyStep_cons]
        split
        · exact hy
        · exact List.mem_cons_of_mem _ hy
    rcases List.mem_cons.mp hx with e | e
    · subst e
      cases hk : greedyKeep s t with
      | nil => left; rw [greedyStep_nil]; simp
      | cons j ks =>
        rw [greedyStep_cons]
        by_cases hc : closeTo s x j = true
        · rw [if_pos hc]; right; exact ⟨j, by simp, hc⟩
        · rw [if_neg hc]; left; simp
    · rcases ih x e with h | ⟨y, hy, hc⟩
      · exact Or.inl (hsub x h)
      · exact Or.inr ⟨y, hsub y hy, hc⟩

theorem greedyKeep_id (s : K) : ∀ l : List (Pt K), Separated s l → greedyKeep s l = l := by
  intro l
  induction l with
  | nil => intro _; rfl
  | cons v t ih =>
    intro h
    rw [greedyKeep_cons]
    cases t with
    | nil => rfl
    | cons w t' =>
      rw [ih h.2, greedyStep_cons, if_neg]
      have := (farApart_iff s v w).mp h.1
      simp [this]

/-! ### the `while` loop against the first vertex -/

theorem dropClose_nil (s : K) (v0 : Pt K) : dropClose s v0 ([] : List (Pt K)) = [] := by
  rw [dropClose]; intro a b rest h; cases h

theorem dropClose_single (s : K) (v0 a : Pt K) : dropClose s v0 [a] = [a] := by
  rw [dropClose]; intro a b rest h; cases h

theorem dropClose_cons_cons (s : K) (v0 a b : Pt K) (rest : List (Pt K)) :
    dropClose s v0 (a :: b :: rest) =
      if closeTo s a v0 then dropClose s v0 (b :: rest) else a :: b :: rest := by
  rw [dropClose]

/-- what the `while` loop returns: a non-empty suffix; everything removed is within `s` of the
first vertex; what is left is a single vertex or starts with a vertex far from the first one -/
theorem dropClose_spec (s : K) (v0 : Pt K) : ∀ l : List (Pt K),
    (∃ pre, l = pre ++ dropClose s v0 l ∧ ∀ x ∈ pre, closeTo s x v0 = true) ∧
    (l ≠ [] → dropClose s v0 l ≠ []) ∧
    ((∃ a, dropClose s v0 l = [a]) ∨ dropClose s v0 l = [] ∨
      ∃ a b rest, dropClose s v0 l = a :: b :: rest ∧ closeTo s a v0 = false) := by
  intro l
  induction l with
  | nil => rw [dropClose_nil]; exact ⟨⟨[], rfl, fun x hx => by cases hx⟩, fun h => h, Or.inr (Or.inl rfl)⟩
  | cons a t ih =>
    cases t with
    | nil =>
      rw [dropClose_single]
      exact ⟨⟨[], rfl, fun x hx => by cases hx⟩, fun h => h, Or.inl ⟨a, rfl⟩⟩
    | cons b rest =>
      rw [dropClose_cons_cons]
      by_cases hc : closeTo s a v0 = true
      · rw [if_pos hc]
        obtain ⟨⟨pre, hpre, hcl⟩, hne, hshape⟩ := ih
        refine ⟨⟨a :: pre, by rw [List.cons_append, ← hpre], ?_⟩, fun _ => hne (by simp), hshape⟩
        intro x hx
        rcases List.mem_cons.mp hx with e | e
        · rw [e]; exact hc
        · exact hcl x e
      · rw [if_neg hc]
        refine ⟨⟨[], rfl, fun x hx => by cases hx⟩, fun _ => by simp, Or.inr (Or.inr ⟨a, b, rest, rfl, ?_⟩)⟩
        simpa using hc

theorem Separated_suffix (s : K) : ∀ (pre l : List (Pt K)), Separated s (pre ++ l) → Separated s l := by
  intro pre
  induction pre with
  | nil => intro l h; exact h
  | cons x pre ih =>
    intro l h
    apply ih
    cases hp : pre ++ l with
    | nil => trivial
    | cons y t =>
      rw [List.cons_append, hp] at h
      exact h.2

/-! ### the whole loop -/

theorem mergeSep_cons (s : K) (v0 : Pt K) (rest : List (Pt K)) :
    mergeSep s (v0 :: rest) = v0 :: dropClose s v0 (greedyKeep s rest) := rfl

theorem mergeSep_sublist (s : K) (h : List (Pt K)) : (mergeSep s h).Sublist h := by
  cases h with
  | nil => exact List.Sublist.slnil
  | cons v rest =>
    rw [mergeSep_cons]
    obtain ⟨⟨pre, hpre, _⟩, _, _⟩ := dropClose_spec s v (greedyKeep s rest)
    have h1 : (dropClose s v (greedyKeep s rest)).Sublist (greedyKeep s rest) := by
      conv_rhs => rw [hpre]
      exact List.sublist_append_right _ _
    exact List.Sublist.cons_cons v (h1.trans (greedyKeep_sublist s rest))

theorem mergeSep_head (s : K) (h : List (Pt K)) : (mergeSep s h).head? = h.head? := by
  cases h <;> rfl

theorem dropClose_getLast (s : K) (v0 : Pt K) (l : List (Pt K)) :
    (dropClose s v0 l).getLast? = l.getLast? := by
  obtain ⟨⟨pre, hpre, _⟩, hne, _⟩ := dropClose_spec s v0 l
  by_cases hl : l = []
  · rw [hl, dropClose_nil]
  · conv_rhs => rw [hpre]
    rw [List.getLast?_append_of_ne_nil _ (hne hl)]

theorem mergeSep_getLast (s : K) (h : List (Pt K)) : (mergeSep s h).getLast? = h.getLast? := by
  cases h with
  | nil => rfl
  | cons v rest =>
    rw [mergeSep_cons]
    cases rest with
    | nil => rfl
    | cons b r =>
      have hne : dropClose s v (greedyKeep s (b :: r)) ≠ [] :=
        (dropClose_spec s v _).2.1 (greedyKeep_ne s _ (by simp))
      rw [List.getLast?_cons_of_ne_nil hne, dropClose_getLast, greedyKeep_getLast,
        List.getLast?_cons_cons]

/-- the result is the degenerate two-entry list, or every two consecutive vertices — the pair
(first vertex, next kept vertex) included — are farther apart than `s` in some coordinate -/
theorem mergeSep_separated (s : K) (v0 : Pt K) (rest : List (Pt K)) :
    (∃ l, mergeSep s (v0 :: rest) = [v0, l]) ∨ mergeSep s (v0 :: rest) = [v0] ∨
      Separated s (mergeSep s (v0 :: rest)) := by
  rw [mergeSep_cons]
  obtain ⟨⟨pre, hpre, _⟩, _, hshape⟩ := dropClose_spec s v0 (greedyKeep s rest)
  rcases hshape with ⟨a, ha⟩ | hnil | ⟨a, b, r, hr, hfar⟩
  · left; exact ⟨a, by rw [ha]⟩
  · right; left; rw [hnil]
  · right; right
    have hsep : Separated s (dropClose s v0 (greedyKeep s rest)) := by
      have := greedyKeep_separated s rest
      rw [hpre] at this
      exact Separated_suffix s pre _ this
    rw [hr] at hsep ⊢
    exact ⟨FarApart_symm ((farApart_iff s a v0).mpr hfar), hsep⟩

theorem mergeSep_id (s : K) (v0 : Pt K) (rest : List (Pt K)) (h : Separated s (v0 :: rest)) :
    mergeSep s (v0 :: rest) = v0 :: rest := by
  rw [mergeSep_cons]
  cases rest with
  | nil => rfl
  | cons a t =>
    rw [greedyKeep_id s _ h.2]
    cases t with
    | nil => rw [dropClose_single]
    | cons b r =>
      rw [dropClose_cons_cons, if_neg]
      have := (farApart_iff s a v0).mp (FarApart_symm h.1)
      simp [this]

/-- every vertex of the input is kept, or within `s` of a kept vertex, or within `s` of a vertex
that is itself within `s` of the first vertex (which is kept) -/
theorem mergeSep_covers (s : K) (v0 : Pt K) (rest : List (Pt K)) : ∀ x ∈ v0 :: rest,
    x ∈ mergeSep s (v0 :: rest) ∨ (∃ y ∈ mergeSep s (v0 :: rest), closeTo s x y = true) ∨
      ∃ j, closeTo s x j = true ∧ closeTo s j v0 = true := by
  intro x hx
  rw [mergeSep_cons]
  rcases List.mem_cons.mp hx with e | e
  · left; rw [e]; simp
  · obtain ⟨⟨pre, hpre, hcl⟩, _, _⟩ := dropClose_spec s v0 (greedyKeep s rest)
    have split : ∀ y ∈ greedyKeep s rest, y ∈ pre ∨ y ∈ dropClose s v0 (greedyKeep s rest) := by
      intro y hy
      rw [hpre] at hy
      exact List.mem_append.mp hy
    rcases greedyKeep_covers s rest x e with h | ⟨y, hy, hc⟩
    · rcases split x h with h' | h'
      · right; left; exact ⟨v0, by simp, hcl x h'⟩
      · left; exact List.mem_cons_of_mem _ h'
    · rcases split y hy with h' | h'
      · right; right; exact ⟨y, hc, hcl y h'⟩
      · right; left; exact ⟨y, List.mem_cons_of_mem _ h', hc⟩

end TW
