import Proofs.Trig
import Mathlib.Tactic.LinearCombination

open TW
set_option linter.unusedSectionVars false

namespace TW

/-- `mag * cos θ` and `mag * sin θ` of the free-scale fit are rational in the moments -/
theorem mag_cos_sin (num den D : ℝ) (hD : 0 < D) :
    let c := HasTrig.cosdeg (rsTheta num den)
    let sn := HasTrig.sindeg (rsTheta num den)
    (den * c + num * sn) / D * c = den / D ∧ (den * c + num * sn) / D * sn = num / D := by
  intro c sn
  by_cases h : den ≠ 0 ∨ num ≠ 0
  · obtain ⟨hc, hs⟩ := cos_sin_rsTheta num den h
    have hpos := hyp_pos h
    set hh := Real.sqrt (den*den + num*num) with hhdef
    have hsq : hh * hh = den*den + num*num := by
      rw [hhdef]; exact Real.mul_self_sqrt (by nlinarith [mul_self_nonneg den, mul_self_nonneg num])
    have hne : hh ≠ 0 := ne_of_gt hpos
    have hDne : D ≠ 0 := ne_of_gt hD
    show (den * c + num * sn) / D * c = den / D ∧ (den * c + num * sn) / D * sn = num / D
    simp only [c, sn, hc, hs]
    constructor
    · field_simp
      linear_combination (-den) * hsq
    · field_simp
      linear_combination (-num) * hsq
  · push_neg at h
    obtain ⟨h1, h2⟩ := h
    subst h1; subst h2
    obtain ⟨hc, hs⟩ := cos_sin_rsTheta_zero
    show (0 * c + 0 * sn) / D * c = 0 / D ∧ (0 * c + 0 * sn) / D * sn = 0 / D
    simp

/-- **Closed form of the free-scale similarity fit** returned by the model of `fit_rscale`. -/
theorem rsolve_rscale (s : RSums ℝ) (L : Lin ℝ) (h : rsolve none s = .ok L) :
    0 < s.su2v2 ∧
    (¬ (s.sxu * s.syv - s.sxv * s.syu < 0) →
      L.m00 = (s.sxu + s.syv) / s.su2v2 ∧ L.m01 = (s.sxv - s.syu) / s.su2v2 ∧
      L.m10 = -((s.sxv - s.syu) / s.su2v2) ∧ L.m11 = (s.sxu + s.syv) / s.su2v2) ∧
    ((s.sxu * s.syv - s.sxv * s.syu < 0) →
      L.m00 = (s.sxu - s.syv) / s.su2v2 ∧ L.m01 = (s.sxv + s.syu) / s.su2v2 ∧
      L.m10 = (s.sxv + s.syu) / s.su2v2 ∧ L.m11 = -((s.sxu - s.syv) / s.su2v2)) ∧
    L.sx = s.xm - (L.m00 * s.um + L.m01 * s.vm) ∧ L.sy = s.ym - (L.m10 * s.um + L.m11 * s.vm) := by
  unfold rsolve at h
  simp only [zeroK_eq, oneK_eq] at h
  by_cases hD : 0 < s.su2v2
  · simp only [hD, if_true] at h
    injection h with h
    refine ⟨hD, ?_, ?_, ?_, ?_⟩
    · intro hdet
      simp only [hdet, if_false] at h
      obtain ⟨hc, hs⟩ := mag_cos_sin (s.sxv - s.syu) (s.sxu + s.syv) s.su2v2 hD
      rw [← h]
      exact ⟨hc, hs, by rw [hs], hc⟩
    · intro hdet
      simp only [hdet, if_true] at h
      obtain ⟨hc, hs⟩ := mag_cos_sin (s.sxv + s.syu) (s.sxu - s.syv) s.su2v2 hD
      rw [← h]
      refine ⟨hc, hs, ?_, ?_⟩
      · simp only [neg_neg]; exact hs
      · simp only; rw [hc]
    · rw [← h]
      by_cases hdet : s.sxu * s.syv - s.sxv * s.syu < 0
      · simp only [hdet, if_true]; ring
      · simp only [hdet, if_false]; ring
    · rw [← h]
      by_cases hdet : s.sxu * s.syv - s.sxv * s.syu < 0
      · simp only [hdet, if_true]; ring
      · simp only [hdet, if_false]; ring
  · simp only [hD, if_false] at h
    cases h

end TW
