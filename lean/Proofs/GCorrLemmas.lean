import Proofs.AffLemmas

/-!
Chart form of the gWCS corrector model: with `τ = c·U∘D` (detector → tangent plane of the
uncorrected WCS) and `Σ = R∘U⁻¹∘(·/c)` (tangent plane → sky), every conversion of a corrector in
a well-formed state is `A'`, `τ`, `Σ` and their inverses, where `A' = (m, c·t)` is the accumulated
affine in tangent-plane units.  Helper lemmas for C01–C05, C20.
-/
open TW
set_option linter.unusedSectionVars false

namespace TW
variable {K : Type} [Field K] [LinearOrder K] [IsStrictOrderedRing K]

/-- the fixed pieces of the pipeline are bijections; the unit constant is non-zero -/
structure GEnv.Bij (env : GEnv K) : Prop where
  Dinv_D : ∀ p, env.Dinv (env.D p) = p
  D_Dinv : ∀ v, env.D (env.Dinv v) = v
  Uinv_U : ∀ v, env.Uinv (env.U v) = v
  U_Uinv : ∀ x, env.U (env.Uinv x) = x
  Rinv_R : ∀ v, env.Rinv (env.R v) = v
  R_Rinv : ∀ w, env.R (env.Rinv w) = w
  c_ne : env.c ≠ 0

/-- state invariant: the accumulated affine is invertible, and it is the identity while the WCS
has no correction frame -/
def GCorr.WF (g : GCorr K) : Prop := g.aff.m.det ≠ 0 ∧ (g.corrected = false → g.aff = Aff.id)

def GEnv.tau (env : GEnv K) (p : V2 K) : V2 K := V2.smul env.c (env.U (env.D p))
def GEnv.tauInv (env : GEnv K) (x : V2 K) : V2 K := env.Dinv (env.Uinv (x.sdiv env.c))
def GEnv.sigma (env : GEnv K) (x : V2 K) : V2 K := env.R (env.Uinv (x.sdiv env.c))
def GEnv.sigmaInv (env : GEnv K) (w : V2 K) : V2 K := V2.smul env.c (env.U (env.Rinv w))

/-- accumulated affine in tangent-plane units -/
def chartAff (c : K) (a : Aff K) : Aff K := ⟨a.m, V2.smul c a.t⟩

theorem smul_sdiv (c : K) (hc : c ≠ 0) (x : V2 K) : V2.smul c (x.sdiv c) = x := by
  aff_unfold; constructor <;> field_simp

theorem sdiv_smul (c : K) (hc : c ≠ 0) (x : V2 K) : (V2.smul c x).sdiv c = x := by
  aff_unfold; constructor <;> field_simp

theorem GEnv.tauInv_tau (env : GEnv K) (h : env.Bij) (p : V2 K) : env.tauInv (env.tau p) = p := by
  simp only [GEnv.tauInv, GEnv.tau, sdiv_smul _ h.c_ne, h.Uinv_U, h.Dinv_D]

theorem GEnv.tau_tauInv (env : GEnv K) (h : env.Bij) (x : V2 K) : env.tau (env.tauInv x) = x := by
  simp only [GEnv.tauInv, GEnv.tau, h.D_Dinv, h.U_Uinv, smul_sdiv _ h.c_ne]

theorem GEnv.sigmaInv_sigma (env : GEnv K) (h : env.Bij) (x : V2 K) :
    env.sigmaInv (env.sigma x) = x := by
  simp only [GEnv.sigmaInv, GEnv.sigma, h.Rinv_R, h.U_Uinv, smul_sdiv _ h.c_ne]

theorem GEnv.sigma_sigmaInv (env : GEnv K) (h : env.Bij) (w : V2 K) :
    env.sigma (env.sigmaInv w) = w := by
  simp only [GEnv.sigmaInv, GEnv.sigma, sdiv_smul _ h.c_ne, h.Uinv_U, h.R_Rinv]

theorem chartAff_det (c : K) (a : Aff K) : (chartAff c a).m.det = a.m.det := rfl

theorem chartAff_id (c : K) : chartAff c (Aff.id : Aff K) = Aff.id := by
  simp only [chartAff]; aff_unfold; simp

theorem chartAff_app (c : K) (a : Aff K) (u : V2 K) :
    (chartAff c a).app (V2.smul c u) = V2.smul c (a.app u) := by
  simp only [chartAff]; aff_unfold; constructor <;> ring

theorem chartAff_inv_app (c : K) (hc : c ≠ 0) (a : Aff K) (x : V2 K) :
    a.inv.app (x.sdiv c) = ((chartAff c a).inv.app x).sdiv c := by
  simp only [chartAff]; aff_unfold; constructor <;> field_simp <;> ring

/-- `_tpcorr_combine_affines` composes on the left in tangent-plane units -/
theorem chartAff_combine (c : K) (hc : c ≠ 0) (old f : Aff K) :
    chartAff c (combineAffines c old f) = f.comp (chartAff c old) := by
  simp only [chartAff]; aff_unfold
  refine ⟨trivial, ?_, ?_⟩ <;> field_simp

variable (env : GEnv K)

/-- accumulated affine of a state, in tangent-plane units -/
def GCorr.A (g : GCorr K) : Aff K := chartAff env.c g.aff

theorem GCorr.A_det (g : GCorr K) (hg : g.WF) : (g.A env).m.det ≠ 0 := hg.1

theorem GCorr.detToTanp_chart (g : GCorr K) (p : V2 K) :
    g.detToTanp env p = (g.A env).app (env.tau p) := by
  simp only [GCorr.detToTanp, GCorr.partialFwd, GCorr.A, GEnv.tau, chartAff_app]

theorem GCorr.worldToV23_eq (g : GCorr K) (hg : g.WF) (h : env.Bij) (w : V2 K) :
    g.worldToV23 env w = env.Uinv (g.aff.inv.app (env.U (env.Rinv w))) := by
  unfold GCorr.worldToV23 GCorr.tpcorrInv
  cases hc : g.corrected with
  | true => simp
  | false =>
    rw [hg.2 hc]
    have : (Aff.id : Aff K).inv = Aff.id := by aff_unfold; simp [M2.det]
    simp [this, Aff.id_app, h.Uinv_U]

theorem GCorr.v23ToWorld_eq (g : GCorr K) (hg : g.WF) (h : env.Bij) (v : V2 K) :
    g.v23ToWorld env v = env.R (env.Uinv (g.aff.app (env.U v))) := by
  unfold GCorr.v23ToWorld GCorr.tpcorrFwd
  cases hc : g.corrected with
  | true => simp
  | false => rw [hg.2 hc]; simp [Aff.id_app, h.Uinv_U]

/-- the tangent plane is fixed on the sky: `world_to_tanp` does not depend on the correction -/
theorem GCorr.worldToTanp_chart (g : GCorr K) (hg : g.WF) (h : env.Bij) (w : V2 K) :
    g.worldToTanp env w = env.sigmaInv w := by
  simp only [GCorr.worldToTanp, GCorr.partialFwd, g.worldToV23_eq env hg h, h.U_Uinv,
    Aff.app_inv _ hg.1, GEnv.sigmaInv]

theorem GCorr.tanpToWorld_chart (g : GCorr K) (hg : g.WF) (h : env.Bij) (x : V2 K) :
    g.tanpToWorld env x = env.sigma x := by
  simp only [GCorr.tanpToWorld, GCorr.partialInv, g.v23ToWorld_eq env hg h, h.U_Uinv,
    Aff.app_inv _ hg.1, GEnv.sigma]

theorem GCorr.detToWorld_chart (g : GCorr K) (hg : g.WF) (h : env.Bij) (p : V2 K) :
    g.detToWorld env p = env.sigma ((g.A env).app (env.tau p)) := by
  simp only [GCorr.detToWorld, g.v23ToWorld_eq env hg h, GEnv.sigma, GCorr.A, GEnv.tau, chartAff_app,
    sdiv_smul _ h.c_ne]

theorem GCorr.tanpToDet_chart (g : GCorr K) (h : env.Bij) (x : V2 K) :
    g.tanpToDet env x = env.tauInv ((g.A env).inv.app x) := by
  simp only [GCorr.tanpToDet, GCorr.partialInv, GEnv.tauInv, GCorr.A,
    chartAff_inv_app _ h.c_ne]

theorem GCorr.worldToDet_chart (g : GCorr K) (hg : g.WF) (h : env.Bij) (w : V2 K) :
    g.worldToDet env w = env.tauInv ((g.A env).inv.app (env.sigmaInv w)) := by
  simp only [GCorr.worldToDet, g.worldToV23_eq env hg h, GEnv.tauInv, GEnv.sigmaInv, GCorr.A,
    ← chartAff_inv_app _ h.c_ne, sdiv_smul _ h.c_ne]

/-- effective correction applied by `set_correction` in tangent-plane units -/
def effCorr (f : Aff K) (q : Option (Aff K)) : Aff K :=
  match q with
  | none => f
  | some q => conjAff q f

theorem GCorr.setCorrection_A (g : GCorr K) (h : env.Bij) (f : Aff K) (q : Option (Aff K)) :
    (g.setCorrection env.c f q).A env = (effCorr f q).comp (g.A env) := by
  unfold GCorr.setCorrection GCorr.A effCorr
  cases hc : g.corrected <;> simp only [Bool.false_eq_true, if_true, if_false] <;>
    exact chartAff_combine _ h.c_ne _ _

theorem effCorr_det (f : Aff K) (q : Option (Aff K)) (hf : f.m.det ≠ 0)
    (hq : ∀ q', q = some q' → q'.m.det ≠ 0) : (effCorr f q).m.det ≠ 0 := by
  cases q with
  | none => exact hf
  | some q' => simp only [effCorr]; rw [conjAff_det q' f (hq q' rfl)]; exact hf

theorem GCorr.setCorrection_corrected (c : K) (g : GCorr K) (f : Aff K) (q : Option (Aff K)) :
    (g.setCorrection c f q).corrected = true := by
  unfold GCorr.setCorrection; cases g.corrected <;> simp

theorem GCorr.setCorrection_WF (g : GCorr K) (hg : g.WF) (h : env.Bij) (f : Aff K)
    (q : Option (Aff K)) (hf : f.m.det ≠ 0) (hq : ∀ q', q = some q' → q'.m.det ≠ 0) :
    (g.setCorrection env.c f q).WF := by
  refine ⟨?_, ?_⟩
  · have := g.setCorrection_A env h f q
    have hd : ((g.setCorrection env.c f q).A env).m.det ≠ 0 := by
      rw [this, Aff.det_comp]; exact mul_ne_zero (effCorr_det f q hf hq) hg.1
    exact hd
  · intro hc; rw [GCorr.setCorrection_corrected] at hc; cases hc

theorem GCorr.fresh_WF (frms : List String) : (GCorr.fresh frms : GCorr K).WF := by
  refine ⟨?_, fun _ => rfl⟩
  simp [GCorr.fresh, Aff.id, M2.one, M2.det]

end TW
