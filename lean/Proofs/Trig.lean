import Mathlib.Analysis.SpecialFunctions.Complex.Arg
import Mathlib.Analysis.Real.Sqrt
import Mathlib.Tactic.Ring
import Mathlib.Tactic.Linarith
import Mathlib.Tactic.FieldSimp
import Model.Fit
import Proofs.InvLemmas

open TW
set_option linter.unusedSectionVars false

namespace TW

/-- the real-number semantics of the trigonometric operations of the model -/
noncomputable instance : HasTrig ℝ where
  atan2deg y x := Complex.arg ⟨x, y⟩ * 180 / Real.pi
  cosdeg t := Real.cos (t * Real.pi / 180)
  sindeg t := Real.sin (t * Real.pi / 180)

noncomputable instance : HasSqrt ℝ := ⟨Real.sqrt⟩

theorem norm_mk (x y : ℝ) : ‖(⟨x, y⟩ : ℂ)‖ = Real.sqrt (x*x + y*y) := by
  rw [Complex.norm_eq_sqrt_sq_add_sq]
  congr 1; ring

theorem mk_ne_zero {x y : ℝ} (h : x ≠ 0 ∨ y ≠ 0) : (⟨x, y⟩ : ℂ) ≠ 0 := by
  intro hc
  have h1 := congrArg Complex.re hc
  have h2 := congrArg Complex.im hc
  simp at h1 h2
  rcases h with h | h <;> contradiction

theorem hyp_pos {x y : ℝ} (h : x ≠ 0 ∨ y ≠ 0) : 0 < Real.sqrt (x*x + y*y) := by
  rw [← norm_mk]; exact norm_pos_iff.mpr (mk_ne_zero h)

theorem isZeroK_iff (x : ℝ) : isZeroK x = true ↔ x = 0 := by
  unfold isZeroK
  simp only [zeroK_eq, Bool.and_eq_true, Bool.not_eq_true', decide_eq_false_iff_not, not_lt]
  constructor
  · rintro ⟨h1, h2⟩; exact le_antisymm h2 h1
  · intro h; rw [h]; exact ⟨le_refl _, le_refl _⟩

theorem deg_arg (a : ℝ) : a * 180 / Real.pi * Real.pi / 180 = a := by
  have := Real.pi_ne_zero
  field_simp

theorem deg_arg360 (a : ℝ) : (a * 180 / Real.pi + ((360 : ℕ) : ℝ)) * Real.pi / 180 = a + 2 * Real.pi := by
  have := Real.pi_ne_zero
  push_cast
  field_simp
  ring

/-- cosine and sine of the angle chosen by the code -/
theorem cos_sin_rsTheta (num den : ℝ) (h : den ≠ 0 ∨ num ≠ 0) :
    HasTrig.cosdeg (rsTheta num den) = den / Real.sqrt (den*den + num*num) ∧
    HasTrig.sindeg (rsTheta num den) = num / Real.sqrt (den*den + num*num) := by
  have hz : (isZeroK num && isZeroK den) = false := by
    rcases h with h | h
    · have : isZeroK den = false := by
        cases hb : isZeroK den with
        | false => rfl
        | true => exact absurd ((isZeroK_iff den).mp hb) h
      simp [this]
    · have : isZeroK num = false := by
        cases hb : isZeroK num with
        | false => rfl
        | true => exact absurd ((isZeroK_iff num).mp hb) h
      simp [this]
  unfold rsTheta
  rw [hz]
  simp only [Bool.false_eq_true, if_false]
  have hne := mk_ne_zero h
  show Real.cos (_ * Real.pi / 180) = _ ∧ Real.sin (_ * Real.pi / 180) = _
  split
  · show Real.cos ((Complex.arg ⟨den, num⟩ * 180 / Real.pi + ((360 : ℕ) : ℝ)) * Real.pi / 180) = _ ∧
         Real.sin ((Complex.arg ⟨den, num⟩ * 180 / Real.pi + ((360 : ℕ) : ℝ)) * Real.pi / 180) = _
    rw [deg_arg360, Real.cos_add_two_pi, Real.sin_add_two_pi, Complex.cos_arg hne, Complex.sin_arg, norm_mk]
    exact ⟨rfl, rfl⟩
  · show Real.cos (Complex.arg ⟨den, num⟩ * 180 / Real.pi * Real.pi / 180) = _ ∧
         Real.sin (Complex.arg ⟨den, num⟩ * 180 / Real.pi * Real.pi / 180) = _
    rw [deg_arg, Complex.cos_arg hne, Complex.sin_arg, norm_mk]
    exact ⟨rfl, rfl⟩

theorem cos_sin_rsTheta_zero : HasTrig.cosdeg (rsTheta (0:ℝ) 0) = 1 ∧ HasTrig.sindeg (rsTheta (0:ℝ) 0) = 0 := by
  have hz : (isZeroK (0:ℝ) && isZeroK (0:ℝ)) = true := by
    have := (isZeroK_iff (0:ℝ)).mpr rfl
    simp [this]
  unfold rsTheta
  rw [hz]
  simp only [if_true, zeroK_eq]
  show Real.cos (0 * Real.pi / 180) = 1 ∧ Real.sin (0 * Real.pi / 180) = 0
  simp

end TW
