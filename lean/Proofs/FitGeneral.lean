import Proofs.LeastSquares
import Mathlib.Tactic.LinearCombination

open TW Matrix
set_option linter.unusedSectionVars false

namespace TW
variable {K : Type} [Field K] [LinearOrder K] [IsStrictOrderedRing K]

/-- the objective `Σ w ‖xy − (F·uv + s)‖²` -/
def SS (ws : List K) (obs : List (Obs K)) (L : Lin K) : K :=
  ((List.zip ws obs).map fun p =>
    p.1 * ((p.2.x - (L.m00 * p.2.u + L.m01 * p.2.v + L.sx))^2 +
           (p.2.y - (L.m10 * p.2.u + L.m11 * p.2.v + L.sy))^2)).sum

def rowsOf (t : Obs K → K) (ws : List K) (obs : List (Obs K)) : List (K × K × K × K) :=
  (List.zip ws obs).map fun p => (p.1, p.2.u, p.2.v, t p.2)

theorem SS_split (ws : List K) (obs : List (Obs K)) (L : Lin K) :
    SS ws obs L = S1 (rowsOf (·.x) ws obs) L.m00 L.m01 L.sx + S1 (rowsOf (·.y) ws obs) L.m10 L.m11 L.sy := by
  unfold SS S1 rowsOf
  induction List.zip ws obs with
  | nil => simp
  | cons p l ih =>
    simp only [List.map_cons, List.sum_cons] at ih ⊢
    rw [ih]
    ring

/-- gradient of one coordinate in terms of sums over the zipped rows -/
theorem G1_sums (Z : List (K × Obs K)) (t : Obs K → K) (a b c : K) :
    G1 (Z.map fun p => (p.1, p.2.u, p.2.v, t p.2)) a b c =
      ( (Z.map fun p => p.1 * (t p.2 * p.2.u)).sum
          - (a * (Z.map fun p => p.1 * (p.2.u * p.2.u)).sum + b * (Z.map fun p => p.1 * (p.2.u * p.2.v)).sum
             + c * (Z.map fun p => p.1 * p.2.u).sum),
        (Z.map fun p => p.1 * (t p.2 * p.2.v)).sum
          - (a * (Z.map fun p => p.1 * (p.2.u * p.2.v)).sum + b * (Z.map fun p => p.1 * (p.2.v * p.2.v)).sum
             + c * (Z.map fun p => p.1 * p.2.v).sum),
        (Z.map fun p => p.1 * t p.2).sum
          - (a * (Z.map fun p => p.1 * p.2.u).sum + b * (Z.map fun p => p.1 * p.2.v).sum
             + c * (Z.map fun p => p.1).sum) ) := by
  unfold G1
  induction Z with
  | nil => simp
  | cons p l ih =>
    simp only [List.map_cons, List.sum_cons, List.map_map, Prod.mk.injEq] at ih ⊢
    obtain ⟨h1, h2, h3⟩ := ih
    refine ⟨?_, ?_, ?_⟩
    · rw [h1]; ring
    · rw [h2]; ring
    · rw [h3]; ring

/-- the sums computed by the model are the sums over the zipped rows -/
theorem gsums_eq (ws : List K) (obs : List (Obs K)) (hlen : ws.length = obs.length) :
    let Z := List.zip ws obs
    gsums ws obs =
      { sw := (Z.map fun p => p.1).sum
        sx := (Z.map fun p => p.1 * p.2.x).sum, sy := (Z.map fun p => p.1 * p.2.y).sum
        su := (Z.map fun p => p.1 * p.2.u).sum, sv := (Z.map fun p => p.1 * p.2.v).sum
        sxu := (Z.map fun p => p.1 * (p.2.x * p.2.u)).sum, syu := (Z.map fun p => p.1 * (p.2.y * p.2.u)).sum
        sxv := (Z.map fun p => p.1 * (p.2.x * p.2.v)).sum, syv := (Z.map fun p => p.1 * (p.2.y * p.2.v)).sum
        suu := (Z.map fun p => p.1 * (p.2.u * p.2.u)).sum, svv := (Z.map fun p => p.1 * (p.2.v * p.2.v)).sum
        suv := (Z.map fun p => p.1 * (p.2.u * p.2.v)).sum } := by
  intro Z
  unfold gsums mulL
  simp only [sumL_weights ws obs hlen, dotL_map, dotL_mul_map]
  rfl

/-- what `gsolve` returns satisfies the normal equations -/
theorem gsolve_normal (eps : K) (heps : 0 < eps) (s : GSums K) (L : Lin K) (h : gsolve eps s = .ok L) :
    (s.su * L.m00 + s.sv * L.m01 + s.sw * L.sx = s.sx ∧
     s.suu * L.m00 + s.suv * L.m01 + s.su * L.sx = s.sxu ∧
     s.suv * L.m00 + s.svv * L.m01 + s.sv * L.sx = s.sxv) ∧
    (s.su * L.m10 + s.sv * L.m11 + s.sw * L.sy = s.sy ∧
     s.suu * L.m10 + s.suv * L.m11 + s.su * L.sy = s.syu ∧
     s.suv * L.m10 + s.svv * L.m11 + s.sv * L.sy = s.syv) := by
  unfold gsolve at h
  split at h
  · cases h
  next im him =>
  injection h with h
  have hmul := (invSq_correct eps heps _ im him).2
  have ent : ∀ i j : Fin 3, ∑ l : Fin 3, (gmatrix s).get i l * im.get l j
      = (1 : Matrix (Fin 3) (Fin 3) K) i j := by
    intro i j
    have := congrFun (congrFun hmul i) j
    simpa [Matrix.mul_apply] using this
  have g : ∀ i j : Fin 3, (gmatrix s).get i j =
      if i.val = 0 then (if j.val = 0 then s.su else if j.val = 1 then s.sv else s.sw)
      else if i.val = 1 then (if j.val = 0 then s.suu else if j.val = 1 then s.suv else s.su)
      else (if j.val = 0 then s.suv else if j.val = 1 then s.svv else s.sv) := by
    intro i j; simp [gmatrix]
  have r00 := ent 0 0; have r01 := ent 0 1; have r02 := ent 0 2
  have r10 := ent 1 0; have r11 := ent 1 1; have r12 := ent 1 2
  have r20 := ent 2 0; have r21 := ent 2 1; have r22 := ent 2 2
  simp [Fin.sum_univ_three, g] at r00 r01 r02 r10 r11 r12 r20 r21 r22
  rw [← h]
  simp only
  refine ⟨⟨?_, ?_, ?_⟩, ⟨?_, ?_, ?_⟩⟩
  · linear_combination s.sx * r00 + s.sxu * r01 + s.sxv * r02
  · linear_combination s.sx * r10 + s.sxu * r11 + s.sxv * r12
  · linear_combination s.sx * r20 + s.sxu * r21 + s.sxv * r22
  · linear_combination s.sy * r00 + s.syu * r01 + s.syv * r02
  · linear_combination s.sy * r10 + s.syu * r11 + s.syv * r12
  · linear_combination s.sy * r20 + s.syu * r21 + s.syv * r22

theorem replicate_nonneg (n : ℕ) : ∀ r ∈ List.replicate n (oneK : K), (0 : K) ≤ r := by
  intro r hr
  rw [List.mem_replicate] at hr
  rw [hr.2]; simp

theorem anyNeg_false {ws : List K} (h : anyNeg ws = false) : ∀ w ∈ ws, 0 ≤ w := by
  intro w hw
  unfold anyNeg at h
  rw [List.any_eq_false] at h
  have := h w hw
  simpa using this

theorem generalW_nonneg (obs : List (Obs K)) (wxy wuv : Option (List K))
    (hbad : generalBad wxy wuv = false) : ∀ w ∈ generalW obs wxy wuv, (0 : K) ≤ w := by
  unfold generalW
  unfold generalBad at hbad
  cases hc : combineW wxy wuv with
  | none => exact replicate_nonneg _
  | some ws =>
    rw [hc] at hbad
    simp only [Bool.or_eq_false_iff] at hbad
    exact anyNeg_false hbad.1

/-- a returned `fit_general` passed the three checks (enough points, valid weights, the
collinearity guard did not fire) and is what `gsolve` returns on the sums -/
theorem fitGeneral_ok (eps epsD : K) (obs : List (Obs K)) (wxy wuv : Option (List K)) (L : Lin K)
    (h : fitGeneral eps epsD obs wxy wuv = .ok L) :
    ¬ obs.length < 3 ∧ generalBad wxy wuv = false ∧ generalGuard epsD obs wxy wuv = false ∧
      gsolve eps (gsums (generalW obs wxy wuv) obs) = .ok L := by
  unfold fitGeneral at h
  split at h
  · cases h
  next hn =>
  split at h
  · cases h
  next hbad =>
  split at h
  · cases h
  next hg => exact ⟨hn, by simpa using hbad, by simpa using hg, h⟩

/-- **`fit_general` returns a weighted least-squares optimum** (whenever it returns). -/
theorem fitGeneral_optimal (eps epsD : K) (heps : 0 < eps) (obs : List (Obs K))
    (wxy wuv : Option (List K))
    (L : Lin K) (h : fitGeneral eps epsD obs wxy wuv = .ok L)
    (hlen : (generalW obs wxy wuv).length = obs.length) :
    ∀ L' : Lin K, SS (generalW obs wxy wuv) obs L ≤ SS (generalW obs wxy wuv) obs L' := by
  intro L'
  obtain ⟨_, hbad, _, h⟩ := fitGeneral_ok eps epsD obs wxy wuv L h
  have hw := generalW_nonneg obs wxy wuv hbad
  set ws := generalW obs wxy wuv
  have hs := gsums_eq ws obs hlen
  simp only at hs
  obtain ⟨⟨x0, x1, x2⟩, ⟨y0, y1, y2⟩⟩ := gsolve_normal eps heps _ L h
  rw [hs] at x0 x1 x2 y0 y1 y2
  simp only at x0 x1 x2 y0 y1 y2
  rw [SS_split, SS_split]
  have gx : G1 (rowsOf (·.x) ws obs) L.m00 L.m01 L.sx = (0, 0, 0) := by
    unfold rowsOf
    rw [G1_sums (List.zip ws obs) (·.x)]
    simp only [Prod.mk.injEq]
    refine ⟨?_, ?_, ?_⟩
    · linear_combination (-1 : K) * x1
    · linear_combination (-1 : K) * x2
    · linear_combination (-1 : K) * x0
  have gy : G1 (rowsOf (·.y) ws obs) L.m10 L.m11 L.sy = (0, 0, 0) := by
    unfold rowsOf
    rw [G1_sums (List.zip ws obs) (·.y)]
    simp only [Prod.mk.injEq]
    refine ⟨?_, ?_, ?_⟩
    · linear_combination (-1 : K) * y1
    · linear_combination (-1 : K) * y2
    · linear_combination (-1 : K) * y0
  have hwr : ∀ (t : Obs K → K), ∀ r ∈ rowsOf t ws obs, (0 : K) ≤ r.1 := by
    intro t r hr
    unfold rowsOf at hr
    obtain ⟨p, hp, rfl⟩ := List.mem_map.mp hr
    exact hw p.1 (List.of_mem_zip hp).1
  exact add_le_add (ls_optimal _ (hwr _) _ _ _ gx _ _ _) (ls_optimal _ (hwr _) _ _ _ gy _ _ _)

end TW
