import Proofs.FitGeneral
import Mathlib.Tactic.FieldSimp
import Mathlib.Tactic.Positivity

/-!
Helper lemmas for C06 (generic part, any linearly ordered field): the weights that the fitters
use, the glue between the model's `dotL`/`sumL` and sums over zipped rows, optimality of the
weighted mean (`fit_shifts`), exact solution of the normal equations on noise-free data
(`fit_general`), and uniqueness of a zero-residual affine map on non-collinear points.
-/
open TW
set_option linter.unusedSectionVars false

namespace TW
variable {K : Type} [Field K] [LinearOrder K] [IsStrictOrderedRing K]

/-- the objective over an explicit list of `(weight, observation)` rows -/
def SSZ (Z : List (K × Obs K)) (L : Lin K) : K :=
  (Z.map fun p =>
    p.1 * ((p.2.x - (L.m00 * p.2.u + L.m01 * p.2.v + L.sx))^2 +
           (p.2.y - (L.m10 * p.2.u + L.m11 * p.2.v + L.sy))^2)).sum

theorem SS_eq_SSZ (ws : List K) (obs : List (Obs K)) (L : Lin K) :
    SS ws obs L = SSZ (List.zip ws obs) L := rfl

theorem zip_nonneg {ws : List K} {obs : List (Obs K)} (hw : ∀ w ∈ ws, 0 ≤ w) :
    ∀ p ∈ List.zip ws obs, 0 ≤ p.1 := fun p hp => hw p.1 (List.of_mem_zip hp).1

theorem SSZ_term_nonneg (L : Lin K) (p : K × Obs K) (hp : 0 ≤ p.1) :
    0 ≤ p.1 * ((p.2.x - (L.m00 * p.2.u + L.m01 * p.2.v + L.sx))^2 +
           (p.2.y - (L.m10 * p.2.u + L.m11 * p.2.v + L.sy))^2) :=
  mul_nonneg hp (by positivity)

theorem SSZ_nonneg (Z : List (K × Obs K)) (hw : ∀ p ∈ Z, 0 ≤ p.1) (L : Lin K) : 0 ≤ SSZ Z L := by
  unfold SSZ
  apply List.sum_nonneg
  intro x hx
  obtain ⟨p, hp, rfl⟩ := List.mem_map.mp hx
  exact SSZ_term_nonneg L p (hw p hp)

theorem SS_nonneg (ws : List K) (obs : List (Obs K)) (hw : ∀ w ∈ ws, 0 ≤ w) (L : Lin K) :
    0 ≤ SS ws obs L := SSZ_nonneg _ (zip_nonneg hw) L

/-! ### sums with scaled / constant weights -/

theorem zip_map_div_sum {α : Type} (ws : List K) (l : List α) (c : K) (f : K × α → K)
    (g : K × α → K) (hfg : ∀ w a, f (w / c, a) = g (w, a) / c) :
    ((List.zip (ws.map (· / c)) l).map f).sum = ((List.zip ws l).map g).sum / c := by
  induction ws generalizing l with
  | nil => simp
  | cons w ws ih =>
    cases l with
    | nil => simp
    | cons a l =>
      simp only [List.map_cons, List.zip_cons_cons, List.sum_cons]
      rw [ih l, hfg]; ring

theorem SS_map_div (ws : List K) (obs : List (Obs K)) (c : K) (L : Lin K) :
    SS (ws.map (· / c)) obs L = SS ws obs L / c := by
  unfold SS
  apply zip_map_div_sum
  intro w a; ring

theorem dotL_map_div {α : Type} (ws : List K) (l : List α) (f : α → K) (c : K) :
    dotL (ws.map (· / c)) (l.map f) = ((List.zip ws l).map fun p => p.1 * f p.2).sum / c := by
  rw [dotL_map]
  apply zip_map_div_sum
  intro w a; ring

theorem sumL_replicate (n : ℕ) (c : K) : sumL (List.replicate n c) = n * c := by
  rw [sumL_eq_sum, List.sum_replicate]; simp

theorem replicate_eq_map_div (n : ℕ) :
    List.replicate n ((oneK : K) / (n : K)) = (List.replicate n (oneK : K)).map (· / (n : K)) := by
  simp

/-- the (raw) weights are non-negative as soon as the validity test of a fitter passed -/
theorem sumL_pos_of_countPos {ws : List K} (hneg : anyNeg ws = false) (hpos : countPos ws ≠ 0) :
    0 < sumL ws := by
  have hnn := anyNeg_false hneg
  rw [sumL_eq_sum]
  induction ws with
  | nil => simp [countPos] at hpos
  | cons w ws ih =>
    have hw0 : 0 ≤ w := hnn w (by simp)
    have hrest : ∀ x ∈ ws, 0 ≤ x := fun x hx => hnn x (by simp [hx])
    have hsum : 0 ≤ ws.sum := List.sum_nonneg hrest
    rw [List.sum_cons]
    by_cases hwp : 0 < w
    · linarith
    · have hneg' : anyNeg ws = false := by
        unfold anyNeg at hneg ⊢
        rw [List.any_cons] at hneg
        simp only [Bool.or_eq_false_iff] at hneg
        exact hneg.2
      have : countPos ws ≠ 0 := by
        unfold countPos at hpos ⊢
        rw [List.filter_cons] at hpos
        simpa [zeroK_eq, hwp] using hpos
      have := ih hneg' this hrest
      linarith

/-- the weights `generalW` (1 each / the one list / the harmonic combination) are what
`combineW` yields -/
theorem generalW_none (obs : List (Obs K)) (wxy wuv : Option (List K)) (h : combineW wxy wuv = none) :
    generalW obs wxy wuv = List.replicate obs.length 1 := by
  unfold generalW; rw [h]; simp

theorem generalW_some (obs : List (Obs K)) (wxy wuv : Option (List K)) (ws : List K)
    (h : combineW wxy wuv = some ws) : generalW obs wxy wuv = ws := by
  unfold generalW; rw [h]

/-- mean weights of `fit_shifts` / `fit_rscale` are the raw weights divided by their sum -/
theorem normW_eq (obs : List (Obs K)) (wxy wuv : Option (List K)) :
    normW obs.length (combineW wxy wuv) =
      (generalW obs wxy wuv).map (· / sumL (generalW obs wxy wuv)) := by
  unfold normW generalW
  cases combineW wxy wuv with
  | none =>
    simp only
    rw [sumL_replicate]
    simp
  | some ws => rfl

/-! ### `fit_shifts` -/

/-- quadratic expansion of the objective along the shift directions -/
theorem SSZ_shift_expand (Z : List (K × Obs K)) (M : Lin K) (s t s' t' : K) :
    SSZ Z ⟨M.m00, M.m01, M.m10, M.m11, s', t'⟩ = SSZ Z ⟨M.m00, M.m01, M.m10, M.m11, s, t⟩
      - 2 * (s' - s) * ((Z.map fun p => p.1 * (p.2.x - (M.m00 * p.2.u + M.m01 * p.2.v))).sum
                          - s * (Z.map fun p => p.1).sum)
      - 2 * (t' - t) * ((Z.map fun p => p.1 * (p.2.y - (M.m10 * p.2.u + M.m11 * p.2.v))).sum
                          - t * (Z.map fun p => p.1).sum)
      + (Z.map fun p => p.1).sum * ((s' - s)^2 + (t' - t)^2) := by
  unfold SSZ
  induction Z with
  | nil => simp
  | cons p l ih =>
    simp only [List.map_cons, List.sum_cons] at ih ⊢
    rw [ih]; ring

/-- the weighted mean of the residuals of the linear part is the best shift for that linear part -/
theorem shift_opt (Z : List (K × Obs K)) (hw : ∀ p ∈ Z, 0 ≤ p.1) (M : Lin K) (s t : K)
    (hs : s * (Z.map fun p => p.1).sum = (Z.map fun p => p.1 * (p.2.x - (M.m00 * p.2.u + M.m01 * p.2.v))).sum)
    (ht : t * (Z.map fun p => p.1).sum = (Z.map fun p => p.1 * (p.2.y - (M.m10 * p.2.u + M.m11 * p.2.v))).sum)
    (s' t' : K) :
    SSZ Z ⟨M.m00, M.m01, M.m10, M.m11, s, t⟩ ≤ SSZ Z ⟨M.m00, M.m01, M.m10, M.m11, s', t'⟩ := by
  rw [SSZ_shift_expand Z M s t s' t', ← hs, ← ht]
  have hW : 0 ≤ (Z.map fun p => p.1).sum := by
    apply List.sum_nonneg
    intro x hx
    obtain ⟨p, hp, rfl⟩ := List.mem_map.mp hx
    exact hw p hp
  have := mul_nonneg hW (by positivity : (0 : K) ≤ (s' - s)^2 + (t' - t)^2)
  linarith

/-- what `fitShifts` returns: identity matrix, weighted mean of `xy − uv` -/
theorem fitShifts_spec (obs : List (Obs K)) (wxy wuv : Option (List K)) (L : Lin K)
    (h : fitShifts obs wxy wuv = .ok L) :
    let ws := generalW obs wxy wuv
    let Z := List.zip ws obs
    (∀ w ∈ ws, 0 ≤ w) ∧ 0 < sumL ws ∧
    L.m00 = 1 ∧ L.m01 = 0 ∧ L.m10 = 0 ∧ L.m11 = 1 ∧
    L.sx = (Z.map fun p => p.1 * (p.2.x - p.2.u)).sum / sumL ws ∧
    L.sy = (Z.map fun p => p.1 * (p.2.y - p.2.v)).sum / sumL ws := by
  intro ws Z
  unfold fitShifts at h
  split at h
  · cases h
  next hn =>
  have hnorm := normW_eq obs wxy wuv
  cases hc : combineW wxy wuv with
  | none =>
    rw [hc] at hnorm
    have hg : ws = List.replicate obs.length 1 := generalW_none obs wxy wuv hc
    simp only [hc] at h
    injection h with h
    have hpos : 0 < sumL ws := by
      rw [hg, sumL_replicate]
      have : 0 < obs.length := Nat.pos_of_ne_zero hn
      have : (0 : K) < obs.length := by exact_mod_cast this
      linarith
    refine ⟨?_, hpos, ?_, ?_, ?_, ?_, ?_, ?_⟩
    · rw [hg]; intro w hw; rw [List.mem_replicate] at hw; rw [hw.2]; exact zero_le_one
    all_goals rw [← h]
    all_goals simp only [oneK_eq, zeroK_eq]
    · rw [hnorm, dotL_map_div]
    · rw [hnorm, dotL_map_div]
  | some w0 =>
    rw [hc] at hnorm
    have hg : ws = w0 := generalW_some obs wxy wuv w0 hc
    simp only [hc] at h
    split at h
    · cases h
    next hneg =>
    split at h
    · cases h
    next hcp =>
    injection h with h
    have hneg' : anyNeg w0 = false := by simpa using hneg
    refine ⟨?_, ?_, ?_, ?_, ?_, ?_, ?_, ?_⟩
    · rw [hg]; exact anyNeg_false hneg'
    · rw [hg]; exact sumL_pos_of_countPos hneg' hcp
    all_goals rw [← h]
    all_goals simp only [oneK_eq, zeroK_eq]
    · rw [hnorm, dotL_map_div]
    · rw [hnorm, dotL_map_div]

/-! ### a zero-residual affine map is unique on non-collinear points -/

/-- the positively weighted `uv` points do not lie on one line -/
def NonCollinear (Z : List (K × Obs K)) : Prop :=
  ¬ ∃ a b c : K, (a ≠ 0 ∨ b ≠ 0 ∨ c ≠ 0) ∧ ∀ p ∈ Z, 0 < p.1 → a * p.2.u + b * p.2.v + c = 0

theorem SSZ_zero_resid (Z : List (K × Obs K)) (hw : ∀ p ∈ Z, 0 ≤ p.1) (L : Lin K) (h0 : SSZ Z L = 0) :
    ∀ p ∈ Z, 0 < p.1 → p.2.x = L.m00 * p.2.u + L.m01 * p.2.v + L.sx ∧
                       p.2.y = L.m10 * p.2.u + L.m11 * p.2.v + L.sy := by
  intro p hp hpos
  unfold SSZ at h0
  have ht := List.all_zero_of_le_zero_le_of_sum_eq_zero (by
    intro x hx
    obtain ⟨q, hq, rfl⟩ := List.mem_map.mp hx
    exact SSZ_term_nonneg L q (hw q hq)) h0 (List.mem_map.mpr ⟨p, hp, rfl⟩)
  have hs : (p.2.x - (L.m00 * p.2.u + L.m01 * p.2.v + L.sx))^2 +
           (p.2.y - (L.m10 * p.2.u + L.m11 * p.2.v + L.sy))^2 = 0 := by
    rcases mul_eq_zero.mp ht with h | h
    · exact absurd h (ne_of_gt hpos)
    · exact h
  have h1 : (p.2.x - (L.m00 * p.2.u + L.m01 * p.2.v + L.sx))^2 = 0 := by
    nlinarith [sq_nonneg (p.2.x - (L.m00 * p.2.u + L.m01 * p.2.v + L.sx)),
               sq_nonneg (p.2.y - (L.m10 * p.2.u + L.m11 * p.2.v + L.sy))]
  have h2 : (p.2.y - (L.m10 * p.2.u + L.m11 * p.2.v + L.sy))^2 = 0 := by
    nlinarith [sq_nonneg (p.2.x - (L.m00 * p.2.u + L.m01 * p.2.v + L.sx)),
               sq_nonneg (p.2.y - (L.m10 * p.2.u + L.m11 * p.2.v + L.sy))]
  have h1' := pow_eq_zero_iff (two_ne_zero) |>.mp h1
  have h2' := pow_eq_zero_iff (two_ne_zero) |>.mp h2
  exact ⟨by linarith, by linarith⟩

theorem SSZ_eq_zero_of_resid (Z : List (K × Obs K)) (L : Lin K)
    (h : ∀ p ∈ Z, p.2.x = L.m00 * p.2.u + L.m01 * p.2.v + L.sx ∧
                  p.2.y = L.m10 * p.2.u + L.m11 * p.2.v + L.sy) : SSZ Z L = 0 := by
  unfold SSZ
  apply List.sum_eq_zero
  intro x hx
  obtain ⟨p, hp, rfl⟩ := List.mem_map.mp hx
  obtain ⟨h1, h2⟩ := h p hp
  rw [h1, h2]; ring

theorem lin_ext (L T : Lin K) (h0 : L.m00 = T.m00) (h1 : L.m01 = T.m01) (h2 : L.m10 = T.m10)
    (h3 : L.m11 = T.m11) (h4 : L.sx = T.sx) (h5 : L.sy = T.sy) : L = T := by
  cases L; cases T; simp_all

/-- two affine maps with zero residuals on non-collinear points coincide -/
theorem zero_resid_unique (Z : List (K × Obs K)) (hw : ∀ p ∈ Z, 0 ≤ p.1) (hnc : NonCollinear Z)
    (L T : Lin K) (hL : SSZ Z L = 0) (hT : SSZ Z T = 0) : L = T := by
  have rL := SSZ_zero_resid Z hw L hL
  have rT := SSZ_zero_resid Z hw T hT
  have row1 : ∀ p ∈ Z, 0 < p.1 → (L.m00 - T.m00) * p.2.u + (L.m01 - T.m01) * p.2.v + (L.sx - T.sx) = 0 := by
    intro p hp hpos
    have a := (rL p hp hpos).1
    have b := (rT p hp hpos).1
    linear_combination b - a
  have row2 : ∀ p ∈ Z, 0 < p.1 → (L.m10 - T.m10) * p.2.u + (L.m11 - T.m11) * p.2.v + (L.sy - T.sy) = 0 := by
    intro p hp hpos
    have a := (rL p hp hpos).2
    have b := (rT p hp hpos).2
    linear_combination b - a
  unfold NonCollinear at hnc
  have k1 : ¬ ((L.m00 - T.m00) ≠ 0 ∨ (L.m01 - T.m01) ≠ 0 ∨ (L.sx - T.sx) ≠ 0) :=
    fun hne => hnc ⟨_, _, _, hne, row1⟩
  have k2 : ¬ ((L.m10 - T.m10) ≠ 0 ∨ (L.m11 - T.m11) ≠ 0 ∨ (L.sy - T.sy) ≠ 0) :=
    fun hne => hnc ⟨_, _, _, hne, row2⟩
  push Not at k1 k2
  exact lin_ext L T (by linarith [k1.1]) (by linarith [k1.2.1]) (by linarith [k2.1]) (by linarith [k2.2.1])
    (by linarith [k1.2.2]) (by linarith [k2.2.2])

/-- optimality plus a noise-free truth in the competing family give zero residuals -/
theorem SSZ_zero_of_le (Z : List (K × Obs K)) (hw : ∀ p ∈ Z, 0 ≤ p.1) (L T : Lin K)
    (hle : SSZ Z L ≤ SSZ Z T) (hT : SSZ Z T = 0) : SSZ Z L = 0 :=
  le_antisymm (hT ▸ hle) (SSZ_nonneg Z hw L)

end TW
