import Model.GroupCat
import Proofs.C09Lemmas
import Proofs.C09
import Mathlib.Data.List.Basic
import Mathlib.Tactic.Linarith

/-!
Helper lemmas for the state-machine model of `WCSGroupCatalog` (`Model/GroupCat.lean`); the property
theorems are in the last section of `Proofs/C11.lean`.

* indexed assignment (`assign`, "the last value wins": `lastVal`), numpy index normalisation, boolean selection;
* `stackRows` (the loop of `create_group_catalog`): block structure of the group catalog;
* `recalcFrom` (the loop of `recalc_catalog_radec`);
* `book` / `match2ref`: complete description of the state every branch leaves behind;
* the frame invariant `Inv` of operation sequences.
-/
set_option linter.unusedSectionVars false
set_option linter.unusedVariables false

namespace TW.GCL
open TW TW.GC

/-! ### indexed assignment -/

/-- value of the LAST pair of `ps` whose index is `i` -/
def lastVal {α : Type} : List (Nat × α) → Nat → Option α
  | [], _ => none
  | (j, v) :: t, i =>
    match lastVal t i with
    | some x => some x
    | none => if j = i then some v else none

theorem foldl_set_length {α : Type} : ∀ (ps : List (Nat × α)) (a : List α),
    (ps.foldl (fun a p => a.set p.1 p.2) a).length = a.length
  | [], a => rfl
  | p :: t, a => by
    rw [List.foldl_cons, foldl_set_length t, List.length_set]

theorem assign_length {α : Type} (a : List α) (idx : List Nat) (vals : List α) :
    (assign a idx vals).length = a.length := foldl_set_length _ _

/-- reading an element after a sequence of assignments: the last assignment to that index, else the old
value -/
theorem foldl_set_getElem? {α : Type} : ∀ (ps : List (Nat × α)) (a : List α) (i : Nat),
    (ps.foldl (fun a p => a.set p.1 p.2) a)[i]? =
      match lastVal ps i with
      | some v => if i < a.length then some v else none
      | none => a[i]?
  | [], a, i => by simp [lastVal]
  | (j, v) :: t, a, i => by
    rw [List.foldl_cons, foldl_set_getElem? t, List.length_set]
    simp only [lastVal]
    cases h : lastVal t i with
    | some x => simp
    | none =>
      simp only [List.getElem?_set]
      by_cases hji : j = i
      · subst hji; simp
      · simp [hji]

theorem lastVal_none_iff {α : Type} : ∀ (ps : List (Nat × α)) (i : Nat),
    lastVal ps i = none ↔ ∀ p ∈ ps, p.1 ≠ i
  | [], i => by simp [lastVal]
  | (j, v) :: t, i => by
    simp only [lastVal]
    cases h : lastVal t i with
    | some x =>
      have := (lastVal_none_iff t i).not.mp (by simp [h])
      simp only [reduceCtorEq, List.mem_cons, forall_eq_or_imp, false_iff, not_and]
      intro _ hall
      exact this hall
    | none =>
      have := (lastVal_none_iff t i).mp h
      by_cases hji : j = i
      · simp [hji]
      · simpa [hji] using fun a b hab => this (a, b) hab

/-- `k` is the last position of `i` in `idx` -/
def IsLast (idx : List Nat) (i k : Nat) : Prop :=
  idx[k]? = some i ∧ ∀ k', k < k' → idx[k']? ≠ some i

theorem isLast_unique {idx : List Nat} {i k k' : Nat} (h : IsLast idx i k) (h' : IsLast idx i k') : k = k' := by
  rcases Nat.lt_trichotomy k k' with hlt | heq | hgt
  · exact absurd h'.1 (h.2 k' hlt)
  · exact heq
  · exact absurd h.1 (h'.2 k hgt)

/-- the value found by `lastVal` on zipped lists is the value at the last position of the index -/
theorem lastVal_zip_some {α : Type} : ∀ (idx : List Nat) (vals : List α) (i : Nat) (v : α),
    idx.length = vals.length →
    (lastVal (idx.zip vals) i = some v ↔ ∃ k, IsLast idx i k ∧ vals[k]? = some v)
  | [], vals, i, v, hl => by
    simp [lastVal, IsLast]
  | j :: t, [], i, v, hl => by simp at hl
  | j :: t, w :: vals, i, v, hl => by
    have hl' : t.length = vals.length := by simpa using hl
    rw [List.zip_cons_cons]
    simp only [lastVal]
    cases h : lastVal (t.zip vals) i with
    | some x =>
      obtain ⟨k, hk, hv⟩ := (lastVal_zip_some t vals i x hl').mp h
      constructor
      · intro hx
        simp only [Option.some.injEq] at hx
        subst hx
        refine ⟨k + 1, ⟨by simpa using hk.1, fun k' hk' => ?_⟩, by simpa using hv⟩
        cases k' with
        | zero => omega
        | succ k'' => simpa using hk.2 k'' (by omega)
      · rintro ⟨k', hk', hv'⟩
        have hk1 : IsLast (j :: t) i (k + 1) :=
          ⟨by simpa using hk.1, fun k2 hk2 => by
            cases k2 with
            | zero => omega
            | succ k3 => simpa using hk.2 k3 (by omega)⟩
        have := isLast_unique hk' hk1
        subst this
        simp only [List.getElem?_cons_succ] at hv'
        rw [hv] at hv'
        simpa using hv'
    | none =>
      have hnone := (lastVal_none_iff _ _).mp h
      have hnot : ∀ k : Nat, t[k]? ≠ some i := by
        intro k hk
        have hkl : k < t.length := by
          by_contra hc
          rw [List.getElem?_eq_none_iff.mpr (by omega)] at hk
          cases hk
        have hkv : k < vals.length := by omega
        have : (t[k], vals[k]) ∈ t.zip vals := by
          apply List.mem_iff_getElem?.mpr
          exact ⟨k, by simp [List.getElem?_zip_eq_some, hkl, hkv]⟩
        have h2 := hnone _ this
        simp only [List.getElem?_eq_getElem hkl, Option.some.injEq] at hk
        exact h2 hk
      by_cases hji : j = i
      · subst hji
        simp only [if_true, Option.some.injEq]
        constructor
        · intro hw; subst hw
          exact ⟨0, ⟨by simp, fun k' hk' => by
            cases k' with
            | zero => omega
            | succ k'' => simpa using hnot k''⟩, by simp⟩
        · rintro ⟨k, hk, hv⟩
          cases k with
          | zero => simpa using hv
          | succ k' => exact absurd (by simpa using hk.1) (hnot k')
      · simp only [hji, if_false, reduceCtorEq, false_iff, not_exists, not_and]
        intro k hk
        cases k with
        | zero =>
          have := hk.1
          simp at this
          exact absurd this hji
        | succ k' => exact absurd (by simpa using hk.1) (hnot k')

theorem lastVal_zip_none {α : Type} (idx : List Nat) (vals : List α) (i : Nat) (hl : idx.length = vals.length) :
    lastVal (idx.zip vals) i = none ↔ i ∉ idx := by
  rw [lastVal_none_iff]
  constructor
  · intro h hi
    obtain ⟨k, hk, hke⟩ := List.getElem_of_mem hi
    have hkv : k < vals.length := by omega
    have : (idx[k], vals[k]) ∈ idx.zip vals := by
      apply List.mem_iff_getElem?.mpr
      exact ⟨k, by simp [List.getElem?_zip_eq_some, hk, hkv]⟩
    exact h _ this hke
  · intro h p hp hpi
    have := (List.of_mem_zip hp).1
    rw [hpi] at this
    exact h this

/-- an index that occurs has a last occurrence -/
theorem exists_isLast : ∀ (idx : List Nat) (i : Nat), i ∈ idx → ∃ k, IsLast idx i k
  | [], i, h => by simp at h
  | j :: t, i, h => by
    by_cases ht : i ∈ t
    · obtain ⟨k, hk⟩ := exists_isLast t i ht
      exact ⟨k + 1, by simpa using hk.1, fun k' hk' => by
        cases k' with
        | zero => omega
        | succ k'' => simpa using hk.2 k'' (by omega)⟩
    · have hji : j = i := by
        rcases List.mem_cons.mp h with h | h
        · exact h.symm
        · exact absurd h ht
      subst hji
      refine ⟨0, by simp, fun k' hk' => ?_⟩
      cases k' with
      | zero => omega
      | succ k'' =>
        intro hc
        simp only [List.getElem?_cons_succ] at hc
        exact ht (List.mem_of_getElem? hc)

theorem isLast_mem {idx : List Nat} {i k : Nat} (h : IsLast idx i k) : i ∈ idx := List.mem_of_getElem? h.1

/-- without repeats every occurrence is the last one -/
theorem isLast_of_nodup {idx : List Nat} (hn : idx.Nodup) {i k : Nat} (h : idx[k]? = some i) : IsLast idx i k := by
  refine ⟨h, fun k' hk' hc => ?_⟩
  have hk : k < idx.length := by
    by_contra hcon
    rw [List.getElem?_eq_none_iff.mpr (by omega)] at h; cases h
  have hk2 : k' < idx.length := by
    by_contra hcon
    rw [List.getElem?_eq_none_iff.mpr (by omega)] at hc; cases hc
  rw [List.getElem?_eq_getElem hk] at h
  rw [List.getElem?_eq_getElem hk2] at hc
  have := (List.Nodup.getElem_inj_iff hn).mp (by rw [Option.some.inj h, Option.some.inj hc] : idx[k] = idx[k'])
  omega

/-- the element read after `a[idx] = vals` -/
theorem assign_getElem? {α : Type} (a : List α) (idx : List Nat) (vals : List α) (i : Nat) :
    (assign a idx vals)[i]? =
      match lastVal (idx.zip vals) i with
      | some v => if i < a.length then some v else none
      | none => a[i]? := foldl_set_getElem? _ _ _

/-- `mask[idx] = False` -/
theorem assign_false_getElem? (mask : List Bool) (idx : List Nat) (i : Nat) (hi : i < mask.length) :
    (assign mask idx (List.replicate idx.length false))[i]? = some (if i ∈ idx then false else mask[i]) := by
  rw [assign_getElem?]
  by_cases hm : i ∈ idx
  · obtain ⟨k, hk⟩ := exists_isLast idx i hm
    have hkl : k < idx.length := by
      by_contra hc
      have := hk.1
      rw [List.getElem?_eq_none_iff.mpr (by omega)] at this; cases this
    have : lastVal (idx.zip (List.replicate idx.length false)) i = some false :=
      (lastVal_zip_some idx _ i false (by simp)).mpr ⟨k, hk, by simp [hkl]⟩
    simp [this, hi, hm]
  · have : lastVal (idx.zip (List.replicate idx.length false)) i = none :=
      (lastVal_zip_none idx _ i (by simp)).mpr hm
    simp [this, hm, hi]

/-! ### numpy index normalisation -/

theorem normIdx_lt {n : Nat} {i : Int} {k : Nat} (h : normIdx n i = some k) : k < n := by
  unfold normIdx at h
  split at h
  · split at h
    · injection h with h; omega
    · cases h
  · split at h
    · injection h with h; omega
    · cases h

theorem normIdx_ofNat {n k : Nat} (h : k < n) : normIdx n (k : Int) = some k := by
  unfold normIdx
  simp [h]

/-- what `normIdx` means: `k = i` for `0 ≤ i < n`, `k = n + i` for `-n ≤ i < 0` -/
theorem normIdx_spec {n : Nat} {i : Int} {k : Nat} (h : normIdx n i = some k) :
    k < n ∧ ((k : Int) = i ∨ (k : Int) = i + n) := by
  refine ⟨normIdx_lt h, ?_⟩
  unfold normIdx at h
  split at h
  · split at h
    · injection h with h; left; omega
    · cases h
  · split at h
    · injection h with h; right; omega
    · cases h

theorem normAll_spec (n : Nat) : ∀ (l : List Int) (r : List Nat), normAll n l = some r →
    r.length = l.length ∧ (∀ x ∈ r, x < n) ∧ ∀ k : Nat, r[k]? = (l[k]?).bind (normIdx n)
  | [], r, h => by
    simp [normAll] at h
    subst h
    simp
  | i :: l, r, h => by
    unfold normAll at h
    rw [List.mapM_cons] at h
    cases hi : normIdx n i with
    | none => simp [hi] at h
    | some a =>
      cases hr : normAll n l with
      | none =>
        unfold normAll at hr
        simp [hi, hr] at h
      | some r' =>
        have hr2 := hr
        unfold normAll at hr2
        simp [hi, hr2] at h
        subst h
        obtain ⟨h1, h2, h3⟩ := normAll_spec n l r' hr
        refine ⟨by simp [h1], ?_, fun k => ?_⟩
        · intro x hx
          rcases List.mem_cons.mp hx with hx | hx
          · subst hx; exact normIdx_lt hi
          · exact h2 x hx
        · cases k with
          | zero => simp [hi]
          | succ k => simpa using h3 k

theorem normAll_arange (n : Nat) : normAll n (arange n) = some (List.range n) := by
  have key : ∀ (l : List Nat), (∀ x ∈ l, x < n) → normAll n (l.map fun (i : Nat) => (i : Int)) = some l := by
    intro l
    induction l with
    | nil => intro _; simp [normAll]
    | cons a t ih =>
      intro h
      have ha : a < n := h a (by simp)
      have ht := ih (fun x hx => h x (by simp [hx]))
      unfold normAll at ht ⊢
      rw [List.map_cons, List.mapM_cons, normIdx_ofNat ha, ht]
      rfl
  exact key (List.range n) (fun x hx => List.mem_range.mp hx)

/-- every in-range list of natural numbers is its own normalisation -/
theorem normAll_ofNat (n : Nat) (l : List Nat) (h : ∀ x ∈ l, x < n) :
    normAll n (l.map fun (i : Nat) => (i : Int)) = some l := by
  induction l with
  | nil => simp [normAll]
  | cons a t ih =>
    have ha : a < n := h a (by simp)
    have ht := ih (fun x hx => h x (by simp [hx]))
    unfold normAll at ht ⊢
    rw [List.map_cons, List.mapM_cons, normIdx_ofNat ha, ht]
    rfl

/-! ### boolean selection -/

theorem mem_maskSel (mask : List Bool) (b : Bool) (i : Nat) :
    i ∈ maskSel mask b ↔ i < mask.length ∧ mask[i]? = some b := by
  unfold maskSel
  rw [List.mem_filter, List.mem_range]
  constructor
  · rintro ⟨hi, h⟩
    refine ⟨hi, ?_⟩
    simp only [List.getD_eq_getElem?_getD, List.getElem?_eq_getElem hi, Option.getD_some, beq_iff_eq] at h
    simp [List.getElem?_eq_getElem hi, h]
  · rintro ⟨hi, h⟩
    refine ⟨hi, ?_⟩
    simp [List.getD_eq_getElem?_getD, h]

theorem maskSel_sublist (mask : List Bool) (b : Bool) : (maskSel mask b).Sublist (List.range mask.length) :=
  List.filter_sublist

theorem maskSel_nodup (mask : List Bool) (b : Bool) : (maskSel mask b).Nodup :=
  (maskSel_sublist mask b).nodup List.nodup_range

theorem maskSel_sorted (mask : List Bool) (b : Bool) : (maskSel mask b).Pairwise (· < ·) :=
  List.Pairwise.sublist (maskSel_sublist mask b) List.pairwise_lt_range

theorem maskSel_length_add (mask : List Bool) :
    (maskSel mask false).length + (maskSel mask true).length = mask.length := by
  unfold maskSel
  have h : ∀ (l : List Nat), (l.filter fun i => mask.getD i true == false).length +
      (l.filter fun i => mask.getD i true == true).length = l.length := by
    intro l
    induction l with
    | nil => simp
    | cons a t ih =>
      simp only [List.filter_cons]
      cases hp : mask.getD a true <;> simp [hp] at ih ⊢ <;> omega
  simpa using h (List.range mask.length)

/-! ### `create_group_catalog`: block structure -/
section
variable {K : Type}

theorem nonEmptyCats_cons_empty (m0 : Member K) (t : List (Member K)) (h : m0.rows.length = 0) :
    nonEmptyCats (m0 :: t) = nonEmptyCats t := by
  unfold nonEmptyCats
  rw [List.filter_cons]
  simp [h]

theorem nonEmptyCats_cons_nonempty (m0 : Member K) (t : List (Member K)) (h : m0.rows.length ≠ 0) :
    nonEmptyCats (m0 :: t) = m0 :: nonEmptyCats t := by
  unfold nonEmptyCats
  rw [List.filter_cons]
  simp [h]

theorem stackRows_length (w : Nat → K × K → K × K) : ∀ (ms : List (Member K)) (pos catno : Nat),
    (stackRows w pos catno ms).length = (ms.map (·.rows.length)).sum
  | [], _, _ => by simp [stackRows]
  | m :: t, pos, catno => by
    unfold stackRows
    split
    · next h => rw [stackRows_length w t]; simp [h]
    · next h => rw [List.length_append, stackRows_length w t]; simp

theorem sum_nonEmptyCats : ∀ (ms : List (Member K)),
    ((nonEmptyCats ms).map (·.rows.length)).sum = (ms.map (·.rows.length)).sum
  | [] => by simp [nonEmptyCats]
  | m :: t => by
    by_cases h : m.rows.length = 0
    · rw [nonEmptyCats_cons_empty m t h, sum_nonEmptyCats t]; simp [h]
    · rw [nonEmptyCats_cons_nonempty m t h]; simp [sum_nonEmptyCats t]

theorem nonEmptyPosFrom_length : ∀ (ms : List (Member K)) (pos : Nat),
    (nonEmptyPosFrom pos (ms.map (·.rows.length))).length = (nonEmptyCats ms).length
  | [], _ => by simp [nonEmptyPosFrom, nonEmptyCats]
  | m :: t, pos => by
    by_cases h : m.rows.length = 0
    · rw [nonEmptyCats_cons_empty m t h]
      simp only [List.map_cons, nonEmptyPosFrom, h, if_true]
      exact nonEmptyPosFrom_length t (pos + 1)
    · rw [nonEmptyCats_cons_nonempty m t h]
      simp only [List.map_cons, nonEmptyPosFrom, h, if_false, List.length_cons]
      rw [nonEmptyPosFrom_length t (pos + 1)]

theorem groupOffset_zero (ne : List (Member K)) : groupOffset ne 0 = 0 := by simp [groupOffset]

theorem groupOffset_succ (m0 : Member K) (ne : List (Member K)) (k : Nat) :
    groupOffset (m0 :: ne) (k + 1) = m0.rows.length + groupOffset ne k := by
  simp [groupOffset]

/-- the `k`-th NON-EMPTY member `m` sits at some position `p` of the member list, and its rows are the block
of the group catalog that starts at `groupOffset … k`: row `j` of the block is row `j` of `m`, carries
`_imcat_idx = catno + k` and the sky position given by the WCS of position `p` -/
theorem stackRows_block (w : Nat → K × K → K × K) : ∀ (ms : List (Member K)) (pos catno k : Nat) (m : Member K),
    (nonEmptyCats ms)[k]? = some m →
    ∃ p, (nonEmptyPosFrom pos (ms.map (·.rows.length)))[k]? = some p ∧ pos ≤ p ∧ ms[p - pos]? = some m ∧
      ∀ j (hj : j < m.rows.length), (stackRows w pos catno ms)[groupOffset (nonEmptyCats ms) k + j]? =
        some ⟨catno + k, (m.rows[j]).id, (m.rows[j]).xy, w p (m.rows[j]).xy⟩
  | [], pos, catno, k, m, h => by simp [nonEmptyCats] at h
  | m0 :: t, pos, catno, k, m, h => by
    by_cases h0 : m0.rows.length = 0
    · rw [nonEmptyCats_cons_empty m0 t h0] at h ⊢
      obtain ⟨p, hp, hle, hm, hrows⟩ := stackRows_block w t (pos + 1) catno k m h
      refine ⟨p, ?_, by omega, ?_, ?_⟩
      · simpa [nonEmptyPosFrom, h0] using hp
      · have : p - pos = (p - (pos + 1)) + 1 := by omega
        rw [this, List.getElem?_cons_succ]; exact hm
      · intro j hj
        have := hrows j hj
        unfold stackRows
        simpa [h0] using this
    · rw [nonEmptyCats_cons_nonempty m0 t h0] at h ⊢
      cases k with
      | zero =>
        simp only [List.getElem?_cons_zero, Option.some.injEq] at h
        subst h
        refine ⟨pos, by simp [nonEmptyPosFrom, h0], Nat.le_refl _, by simp, ?_⟩
        intro j hj
        unfold stackRows
        simp only [h0, if_false, groupOffset_zero, Nat.zero_add, Nat.add_zero]
        rw [List.getElem?_append_left (by simpa using hj)]
        simp [List.getElem?_eq_getElem hj]
      | succ k' =>
        simp only [List.getElem?_cons_succ] at h
        obtain ⟨p, hp, hle, hm, hrows⟩ := stackRows_block w t (pos + 1) (catno + 1) k' m h
        refine ⟨p, ?_, by omega, ?_, ?_⟩
        · simpa [nonEmptyPosFrom, h0] using hp
        · have : p - pos = (p - (pos + 1)) + 1 := by omega
          rw [this, List.getElem?_cons_succ]; exact hm
        · intro j hj
          have := hrows j hj
          unfold stackRows
          simp only [h0, if_false, groupOffset_succ]
          rw [List.getElem?_append_right (by simp; omega)]
          have e1 : m0.rows.length + groupOffset (nonEmptyCats t) k' + j - (List.map (fun s => (⟨catno, s.id, s.xy, w pos s.xy⟩ : GRow K)) m0.rows).length
              = groupOffset (nonEmptyCats t) k' + j := by simp; omega
          rw [e1, this]
          have e2 : catno + 1 + k' = catno + (k' + 1) := by omega
          rw [e2]

/-- every row number below the total length lies in the block of exactly one member -/
theorem offset_cover : ∀ (ne : List (Member K)) (r : Nat), r < (ne.map (·.rows.length)).sum →
    ∃ k j m, ne[k]? = some m ∧ j < m.rows.length ∧ r = groupOffset ne k + j
  | [], r, h => by simp at h
  | m0 :: t, r, h => by
    by_cases hr : r < m0.rows.length
    · exact ⟨0, r, m0, by simp, hr, by simp [groupOffset_zero]⟩
    · simp only [List.map_cons, List.sum_cons] at h
      obtain ⟨k, j, m, hk, hj, he⟩ := offset_cover t (r - m0.rows.length) (by omega)
      exact ⟨k + 1, j, m, by simpa using hk, hj, by rw [groupOffset_succ]; omega⟩

/-- the `id`, `x`, `y` columns are the concatenation of the member catalogs (the group catalog of
`Model/PairWeights.lean`) -/
theorem stackRows_src (w : Nat → K × K → K × K) : ∀ (ms : List (Member K)) (pos catno : Nat),
    (stackRows w pos catno ms).map (fun r => (⟨r.id, r.xy⟩ : Src K)) = (nonEmptyCats ms).flatMap (·.rows)
  | [], _, _ => by simp [stackRows, nonEmptyCats]
  | m :: t, pos, catno => by
    by_cases h : m.rows.length = 0
    · rw [nonEmptyCats_cons_empty m t h]
      unfold stackRows
      simp only [h, if_true]
      exact stackRows_src w t _ _
    · rw [nonEmptyCats_cons_nonempty m t h]
      unfold stackRows
      simp only [h, if_false, List.map_append, List.flatMap_cons, stackRows_src w t]
      congr 1
      rw [List.map_map]
      conv_rhs => rw [← List.map_id m.rows]
      apply List.map_congr_left
      intro s _
      rfl

/-! ### `recalc_catalog_radec` -/

/-- what the whole loop does to one row -/
def recalcFn (w : Nat → K × K → K × K) (k0 : Nat) (poss : List Nat) (r : GRow K) : GRow K :=
  if k0 ≤ r.imcatIdx ∧ r.imcatIdx < k0 + poss.length then
    { r with radec := w (poss.getD (r.imcatIdx - k0) 0) r.xy }
  else r

theorem recalcFrom_eq (w : Nat → K × K → K × K) : ∀ (poss : List Nat) (k0 : Nat) (rows : List (GRow K)),
    recalcFrom w k0 poss rows = rows.map (recalcFn w k0 poss)
  | [], k0, rows => by
    simp only [recalcFrom]
    conv_lhs => rw [← List.map_id rows]
    apply List.map_congr_left
    intro r _
    simp [recalcFn]
  | pos :: t, k0, rows => by
    simp only [recalcFrom]
    rw [recalcFrom_eq w t (k0 + 1), recalcStep, List.map_map]
    apply List.map_congr_left
    intro r _
    simp only [Function.comp]
    by_cases hk : r.imcatIdx = k0
    · simp only [hk, if_true]
      unfold recalcFn
      simp [hk]
    · simp only [hk, if_false]
      unfold recalcFn
      by_cases hc : k0 + 1 ≤ r.imcatIdx ∧ r.imcatIdx < k0 + 1 + t.length
      · have hc' : k0 ≤ r.imcatIdx ∧ r.imcatIdx < k0 + (pos :: t).length := by
          simp only [List.length_cons]; omega
        rw [if_pos hc, if_pos hc']
        have e : r.imcatIdx - k0 = (r.imcatIdx - (k0 + 1)) + 1 := by omega
        rw [e, List.getD_cons_succ]
      · have hc' : ¬ (k0 ≤ r.imcatIdx ∧ r.imcatIdx < k0 + (pos :: t).length) := by
          simp only [List.length_cons]; omega
        rw [if_neg hc, if_neg hc']

theorem recalcFn_core (w : Nat → K × K → K × K) (k0 : Nat) (poss : List Nat) (r : GRow K) :
    (recalcFn w k0 poss r).core = r.core := by
  unfold recalcFn
  split <;> rfl

theorem recalcFrom_core (w : Nat → K × K → K × K) (poss : List Nat) (k0 : Nat) (rows : List (GRow K)) :
    (recalcFrom w k0 poss rows).map GRow.core = rows.map GRow.core := by
  rw [recalcFrom_eq, List.map_map]
  apply List.map_congr_left
  intro r _
  exact recalcFn_core w k0 poss r

theorem recalcFrom_length (w : Nat → K × K → K × K) (poss : List Nat) (k0 : Nat) (rows : List (GRow K)) :
    (recalcFrom w k0 poss rows).length = rows.length := by
  rw [recalcFrom_eq, List.length_map]

end

/-! ### masked columns -/

/-- both parts of a bookkeeping column have the length of the catalog -/
def ColLen (c : Option (MCol Int)) (n : Nat) : Prop :=
  ∀ x, c = some x → x.data.length = n ∧ x.mask.length = n

theorem resetCol_data_length (c : Option (MCol Int)) (n : Nat) (h : ColLen c n) :
    (resetCol c n).data.length = n := by
  unfold resetCol
  cases c with
  | none => simp [MCol.new]
  | some x => exact (h x rfl).1

theorem resetCol_mask (c : Option (MCol Int)) (n : Nat) (h : ColLen c n) :
    (resetCol c n).mask = List.replicate n true := by
  unfold resetCol
  cases c with
  | none => simp [MCol.new]
  | some x =>
    simp only [MCol.maskAll]
    rw [List.map_const', (h x rfl).2]

theorem view_length {α : Type} (c : MCol α) (n : Nat) (hd : c.data.length = n) (hm : c.mask.length = n) :
    c.view.length = n := by
  simp [MCol.view, hd, hm]

/-- a fully masked column shows nothing -/
theorem view_all_masked {α : Type} (d : List α) (n : Nat) (hd : d.length = n) (i : Nat) (hi : i < n) :
    (MCol.view ⟨d, List.replicate n true⟩)[i]? = some none := by
  simp only [MCol.view, List.getElem?_zipWith]
  rw [List.getElem?_eq_getElem (by omega), List.getElem?_replicate]
  simp [hi]

/-- the column after `mask[:] = True; mask[inp] = False; col[inp] = vs`: row `i` shows the value of the
last pair naming it, or nothing — whatever the data were before -/
theorem view_after_assign (d : List Int) (n : Nat) (hd : d.length = n) (inp : List Nat) (vs : List Int)
    (hl : inp.length = vs.length) (i : Nat) (hi : i < n) :
    (MCol.view ⟨assign d inp vs, assign (List.replicate n true) inp (List.replicate inp.length false)⟩)[i]? =
      some (lastVal (inp.zip vs) i) := by
  simp only [MCol.view, List.getElem?_zipWith]
  rw [assign_false_getElem? _ _ _ (by simpa using hi), assign_getElem?]
  cases hv : lastVal (inp.zip vs) i with
  | none =>
    have hm : i ∉ inp := (lastVal_zip_none inp vs i hl).mp hv
    simp [hm, hd, List.getElem?_eq_getElem (by omega : i < d.length), hi]
  | some v =>
    have hm : i ∈ inp := by
      by_contra hc
      rw [(lastVal_zip_none inp vs i hl).mpr hc] at hv
      cases hv
    simp [hm, hd, hi]

/-- the mask after `mask[:] = True; mask[inp] = False` -/
theorem mask_after_assign (n : Nat) (inp : List Nat) (i : Nat) (hi : i < n) :
    (assign (List.replicate n true) inp (List.replicate inp.length false))[i]? = some (decide (i ∉ inp)) := by
  rw [assign_false_getElem? _ _ _ (by simpa using hi)]
  by_cases hm : i ∈ inp <;> simp [hm, hi]

/-- rows selected by the mask after `mask[:] = True; mask[inp] = False` -/
theorem maskSel_after_assign (n : Nat) (inp : List Nat) (b : Bool) :
    maskSel (assign (List.replicate n true) inp (List.replicate inp.length false)) b =
      (List.range n).filter fun i => decide (i ∉ inp) == b := by
  unfold maskSel
  rw [assign_length, List.length_replicate]
  apply List.filter_congr
  intro i hi
  have hi' := List.mem_range.mp hi
  rw [List.getD_eq_getElem?_getD, mask_after_assign n inp i hi']
  rfl

/-! ### broadcasting -/

theorem bcast_same {α : Type} (vals : List α) (n : Nat) (h : vals.length = n) : bcast vals n = some vals := by
  simp [bcast, h]

theorem bcast_length {α : Type} (vals r : List α) (n : Nat) (h : bcast vals n = some r) : r.length = n := by
  unfold bcast at h
  split at h
  · next hl => injection h with h; subst h; exact hl
  · split at h
    · injection h with h; subst h; simp
    · cases h

theorem bcast_isSome_iff {α : Type} (vals : List α) (n : Nat) :
    (bcast vals n).isSome ↔ (vals.length = n ∨ vals.length = 1) := by
  unfold bcast
  split
  · next h => simp [h]
  · next h =>
    split
    · simp
    · next hne =>
      simp only [Option.isSome_none, Bool.false_eq_true, false_iff, not_or]
      refine ⟨h, ?_⟩
      intro h1
      match vals, h1 with
      | [v], _ => exact hne v rfl

theorem bcast_one {α : Type} (v : α) (n : Nat) (h : n ≠ 1) : bcast [v] n = some (List.replicate n v) := by
  unfold bcast
  rw [if_neg (by simpa using Ne.symm h)]

/-! ### `match2ref`: the state every branch leaves behind -/
section
variable {K : Type}

/-- the state after the bookkeeping was written -/
def bookState (st : GState K) (c raw : MCol Int) (mref minput : List Int) : GState K :=
  { st with matchedRefId := some c, rawRefIdx := some raw, mrefIdx := some mref, minputIdx := some minput }

/-- IndexError of `mask[minput_idx] = False`: the column has just been reset (or created) — every row
masked — and nothing else was touched -/
theorem book_bad_input (st : GState K) (refIds mref minput : List Int) (n : Nat)
    (h : normAll st.catlen minput = none) :
    book st refIds mref minput n =
      ⟨{ st with matchedRefId := some (resetCol st.matchedRefId st.catlen) }, .error .indexError⟩ := by
  unfold book
  simp only [h]

/-- IndexError of `refcat.catalog['id'][mref_idx]`: the mask bits of the input rows are already cleared, the
data are still those of an earlier call (or zero) -/
theorem book_bad_ref (st : GState K) (refIds mref minput : List Int) (n : Nat) (inp : List Nat)
    (h : normAll st.catlen minput = some inp) (h2 : normAll refIds.length mref = none) :
    book st refIds mref minput n =
      ⟨{ st with matchedRefId := some ⟨(resetCol st.matchedRefId st.catlen).data,
            assign (resetCol st.matchedRefId st.catlen).mask inp (List.replicate inp.length false)⟩ },
        .error .indexError⟩ := by
  unfold book
  simp only [h, h2]

/-- ValueError of the assignment (index arrays of different lengths, reference array not of length 1): same
half-written state -/
theorem book_bad_shape (st : GState K) (refIds mref minput : List Int) (n : Nat) (inp rf : List Nat)
    (h : normAll st.catlen minput = some inp) (h2 : normAll refIds.length mref = some rf)
    (h3 : rf.length ≠ inp.length) (h4 : rf.length ≠ 1) :
    book st refIds mref minput n =
      ⟨{ st with matchedRefId := some ⟨(resetCol st.matchedRefId st.catlen).data,
            assign (resetCol st.matchedRefId st.catlen).mask inp (List.replicate inp.length false)⟩ },
        .error .valueError⟩ := by
  unfold book
  simp only [h, h2]
  have : bcast (rf.map fun j => refIds.getD j 0) inp.length = none := by
    have := (bcast_isSome_iff (rf.map fun j => refIds.getD j 0) inp.length).not.mpr (by simp; exact ⟨h3, h4⟩)
    simpa using this
  simp only [this]

/-- the successful branch -/
theorem book_ok (st : GState K) (refIds mref minput : List Int) (n : Nat) (inp rf : List Nat) (vs ms : List Int)
    (h : normAll st.catlen minput = some inp) (h2 : normAll refIds.length mref = some rf)
    (h3 : bcast (rf.map fun j => refIds.getD j 0) inp.length = some vs) (h4 : bcast mref inp.length = some ms) :
    book st refIds mref minput n =
      ⟨bookState st
          ⟨assign (resetCol st.matchedRefId st.catlen).data inp vs,
           assign (resetCol st.matchedRefId st.catlen).mask inp (List.replicate inp.length false)⟩
          ⟨assign (resetCol st.rawRefIdx st.catlen).data inp ms,
           assign (resetCol st.rawRefIdx st.catlen).mask inp (List.replicate inp.length false)⟩ mref minput,
        .ok (n, mref, minput)⟩ := by
  unfold book bookState
  simp only [h, h2, h3, h4]

/-- `book` returns only through the successful branch -/
theorem book_ok_inv (st : GState K) (refIds mref minput : List Int) (n : Nat) (r : Nat × List Int × List Int)
    (h : (book st refIds mref minput n).res = .ok r) :
    ∃ inp rf vs ms, normAll st.catlen minput = some inp ∧ normAll refIds.length mref = some rf ∧
      bcast (rf.map fun j => refIds.getD j 0) inp.length = some vs ∧ bcast mref inp.length = some ms ∧
      r = (n, mref, minput) := by
  cases h1 : normAll st.catlen minput with
  | none => rw [book_bad_input st refIds mref minput n h1] at h; cases h
  | some inp =>
    cases h2 : normAll refIds.length mref with
    | none => rw [book_bad_ref st refIds mref minput n inp h1 h2] at h; cases h
    | some rf =>
      cases h3 : bcast (rf.map fun j => refIds.getD j 0) inp.length with
      | none =>
        unfold book at h
        simp only [h1, h2, h3] at h
        cases h
      | some vs =>
        cases h4 : bcast mref inp.length with
        | none =>
          unfold book at h
          simp only [h1, h2, h3, h4] at h
          cases h
        | some ms =>
          rw [book_ok st refIds mref minput n inp rf vs ms h1 h2 h3 h4] at h
          injection h with h
          exact ⟨inp, rf, vs, ms, rfl, rfl, h3, h4, h.symm⟩

/-! ### the frame invariant of operation sequences -/

/-- what every operation preserves: member lengths, the structural columns (`_imcat_idx`, `id`, `x`, `y`) and
the weight column never change; the optional columns have the length of the catalog -/
structure Inv (st0 st : GState K) : Prop where
  lens : st.memberLens = st0.memberLens
  core : st.rows.map GRow.core = st0.rows.map GRow.core
  weight : st.weight = st0.weight
  tpLen : ∀ l, st.tp = some l → l.length = st.rows.length
  mri : ColLen st.matchedRefId st.rows.length
  raw : ColLen st.rawRefIdx st.rows.length

theorem Inv.catlen {st0 st : GState K} (h : Inv st0 st) : st.catlen = st0.catlen := by
  have := congrArg List.length h.core
  simpa [GState.catlen] using this

theorem inv_calcTp {st0 st : GState K} (h : Inv st0 st) (t : K × K → K × K) : Inv st0 (calcTanpXY st t) :=
  { lens := h.lens, core := h.core, weight := h.weight,
    tpLen := by
      intro l hl
      simp only [calcTanpXY, Option.some.injEq] at hl
      subst hl
      simp [calcTanpXY]
    mri := h.mri
    raw := h.raw }

theorem inv_recalc {st0 st : GState K} (h : Inv st0 st) (w : Nat → K × K → K × K) :
    Inv st0 (recalcCatalogRadec st w) :=
  { lens := h.lens
    core := by simp only [recalcCatalogRadec]; rw [recalcFrom_core]; exact h.core
    weight := h.weight
    tpLen := by intro l hl; simp only [recalcCatalogRadec] at hl ⊢; rw [recalcFrom_length]; exact h.tpLen l hl
    mri := by simp only [recalcCatalogRadec]; rw [recalcFrom_length]; exact h.mri
    raw := by simp only [recalcCatalogRadec]; rw [recalcFrom_length]; exact h.raw }

theorem colLen_reset (c : Option (MCol Int)) (n : Nat) (h : ColLen c n) (inp : List Nat) (vs : List Int) :
    ColLen (some ⟨assign (resetCol c n).data inp vs,
      assign (resetCol c n).mask inp (List.replicate inp.length false)⟩) n := by
  intro x hx
  injection hx with hx
  subst hx
  simp only [assign_length]
  exact ⟨resetCol_data_length c n h, by rw [resetCol_mask c n h]; simp⟩

theorem inv_setMri {st0 st : GState K} (h : Inv st0 st) (c : MCol Int)
    (hc : c.data.length = st.catlen ∧ c.mask.length = st.catlen) :
    Inv st0 { st with matchedRefId := some c } :=
  { lens := h.lens
    core := h.core
    weight := h.weight
    tpLen := h.tpLen
    raw := h.raw
    mri := by
      intro x hx
      injection hx with hx
      subst hx
      exact hc }

theorem inv_book {st0 st : GState K} (h : Inv st0 st) (refIds mref minput : List Int) (n : Nat) :
    Inv st0 (book st refIds mref minput n).st := by
  have hm : ColLen st.matchedRefId st.catlen := h.mri
  have hr : ColLen st.rawRefIdx st.catlen := h.raw
  have hmask : (resetCol st.matchedRefId st.catlen).mask.length = st.catlen := by
    rw [resetCol_mask _ _ hm]; simp
  cases h1 : normAll st.catlen minput with
  | none =>
    rw [book_bad_input st refIds mref minput n h1]
    exact inv_setMri h _ ⟨resetCol_data_length _ _ hm, hmask⟩
  | some inp =>
    have hmid : Inv st0 { st with matchedRefId := some ⟨(resetCol st.matchedRefId st.catlen).data,
            assign (resetCol st.matchedRefId st.catlen).mask inp (List.replicate inp.length false)⟩ } :=
      inv_setMri h _ ⟨resetCol_data_length _ _ hm, by simp only [assign_length]; exact hmask⟩
    cases h2 : normAll refIds.length mref with
    | none => rw [book_bad_ref st refIds mref minput n inp h1 h2]; exact hmid
    | some rf =>
      cases h3 : bcast (rf.map fun j => refIds.getD j 0) inp.length with
      | none =>
        have : (book st refIds mref minput n).st = { st with matchedRefId := some ⟨(resetCol st.matchedRefId st.catlen).data,
            assign (resetCol st.matchedRefId st.catlen).mask inp (List.replicate inp.length false)⟩ } := by
          unfold book; simp only [h1, h2, h3]
        rw [this]; exact hmid
      | some vs =>
        cases h4 : bcast mref inp.length with
        | none =>
          have : (book st refIds mref minput n).st = { st with matchedRefId := some ⟨(resetCol st.matchedRefId st.catlen).data,
              assign (resetCol st.matchedRefId st.catlen).mask inp (List.replicate inp.length false)⟩ } := by
            unfold book; simp only [h1, h2, h3, h4]
          rw [this]; exact hmid
        | some ms =>
          rw [book_ok st refIds mref minput n inp rf vs ms h1 h2 h3 h4]
          exact { lens := h.lens
                  core := h.core
                  weight := h.weight
                  tpLen := h.tpLen
                  mri := colLen_reset _ _ hm inp vs
                  raw := colLen_reset _ _ hr inp ms }

theorem inv_match2ref {st0 st : GState K} (h : Inv st0 st) (refIds : List Int) (m : Option (List Int × List Int)) :
    Inv st0 (match2ref st refIds m).st := by
  unfold match2ref
  cases m with
  | none =>
    simp only
    split
    · exact h
    · exact inv_book h _ _ _ _
  | some p =>
    obtain ⟨mref, minput⟩ := p
    simp only
    split
    · exact h
    · split
      · exact h
      · exact inv_book h _ _ _ _

theorem inv_align {st0 st : GState K} (h : Inv st0 st) (a : AlignArgs K) : Inv st0 (alignToRef st a).st := by
  unfold alignToRef
  split
  · exact h
  · have h2 : Inv st0 (match2ref (calcTanpXY st a.t) a.ref.ids a.m).st := inv_match2ref (inv_calcTp h a.t) _ _
    simp only
    split
    · exact h2
    · split
      · exact h2
      · split
        · exact h2
        · split
          · exact inv_recalc h2 _
          · exact h2
          · exact h2

theorem inv_applyOp {st0 st : GState K} (h : Inv st0 st) (op : GOp K) : Inv st0 (applyOp st op) := by
  cases op with
  | calcTp t => exact inv_calcTp h t
  | match2ref refIds m => exact inv_match2ref h refIds m
  | recalc w => exact inv_recalc h w
  | align a => exact inv_align h a

theorem inv_run {st0 : GState K} : ∀ (ops : List (GOp K)) (st : GState K), Inv st0 st → Inv st0 (run st ops)
  | [], st, h => h
  | op :: t, st, h => by
    simp only [run, List.foldl_cons]
    exact inv_run t _ (inv_applyOp h op)

/-- the freshly built catalog satisfies the invariant -/
theorem inv_create (w : Nat → K × K → K × K) (ms : List (Member K)) (st0 : GState K)
    (h : createGroup w ms = .ok st0) : Inv st0 st0 := by
  unfold createGroup at h
  split at h
  · cases h
  · injection h with h
    subst h
    exact { lens := rfl
            core := rfl
            weight := rfl
            tpLen := by intro l hl; cases hl
            mri := by intro x hx; cases hx
            raw := by intro x hx; cases hx }

end

/-! ### selections by row number -/

theorem filterMap_getElem?_all {α : Type} (l : List α) : ∀ (idx : List Nat), (∀ i ∈ idx, i < l.length) →
    (idx.filterMap fun i => l[i]?).length = idx.length ∧
    ∀ (n i : Nat), idx[n]? = some i → (idx.filterMap fun i => l[i]?)[n]? = l[i]?
  | [], _ => by simp
  | a :: t, h => by
    have ha : a < l.length := h a (by simp)
    obtain ⟨h1, h2⟩ := filterMap_getElem?_all l t (fun i hi => h i (by simp [hi]))
    rw [List.filterMap_cons, List.getElem?_eq_getElem ha]
    refine ⟨by simp [h1], fun n i hn => ?_⟩
    cases n with
    | zero => simp at hn; subst hn; simp [List.getElem?_eq_getElem ha]
    | succ n' => simpa using h2 n' i (by simpa using hn)

theorem gather_some_of_lt {α : Type} (l : List α) : ∀ (idx : List Nat), (∀ i ∈ idx, i < l.length) →
    ∃ r, gather l idx = some r
  | [], _ => ⟨[], by simp [gather]⟩
  | a :: t, h => by
    have ha : a < l.length := h a (by simp)
    obtain ⟨r, hr⟩ := gather_some_of_lt l t (fun i hi => h i (by simp [hi]))
    unfold gather at hr ⊢
    refine ⟨l[a] :: r, ?_⟩
    rw [List.mapM_cons, List.getElem?_eq_getElem ha, hr]
    rfl

/-! ### `createGroup`, `match2ref` as `book` -/
section
variable {K : Type}

/-- what `createGroup` returns -/
theorem createGroup_fields (w0 : Nat → K × K → K × K) (ms : List (Member K)) (st0 : GState K)
    (hc : createGroup w0 ms = .ok st0) :
    st0.rows = stackRows w0 0 0 ms ∧ st0.memberLens = ms.map (·.rows.length) ∧
    ∃ g, createGroupCatalog ms = .ok g ∧ st0.weight = g.weight := by
  unfold createGroup at hc
  split at hc
  · cases hc
  · next g hg =>
    injection hc with hc
    subst hc
    exact ⟨rfl, rfl, g, hg, rfl⟩

theorem match2ref_some (st : GState K) (refIds mref minput : List Int) (htp : st.tp.isSome) (hne : st.catlen ≠ 0) :
    match2ref st refIds (some (mref, minput)) = book st refIds mref minput mref.length := by
  unfold match2ref
  simp only
  have h1 : ¬ (st.tp.isNone = true) := by
    cases h : st.tp with
    | none => rw [h] at htp; cases htp
    | some x => simp
  rw [if_neg h1, if_neg hne]

theorem match2ref_none (st : GState K) (refIds : List Int) (hl : st.catlen = refIds.length) :
    match2ref st refIds none = book st refIds (arange st.catlen) (arange st.catlen) st.catlen := by
  unfold match2ref
  simp only
  rw [if_neg (by simpa using hl)]

theorem book_views (st : GState K) (hm : ColLen st.matchedRefId st.catlen) (hr : ColLen st.rawRefIdx st.catlen)
    (inp : List Nat) (vs ms : List Int) (hl1 : inp.length = vs.length) (hl2 : inp.length = ms.length)
    (i : Nat) (hi : i < st.catlen) :
    (MCol.view ⟨assign (resetCol st.matchedRefId st.catlen).data inp vs,
        assign (resetCol st.matchedRefId st.catlen).mask inp (List.replicate inp.length false)⟩)[i]? =
      some (lastVal (inp.zip vs) i) ∧
    (MCol.view ⟨assign (resetCol st.rawRefIdx st.catlen).data inp ms,
        assign (resetCol st.rawRefIdx st.catlen).mask inp (List.replicate inp.length false)⟩)[i]? =
      some (lastVal (inp.zip ms) i) := by
  rw [resetCol_mask _ _ hm, resetCol_mask _ _ hr]
  exact ⟨view_after_assign _ _ (resetCol_data_length _ _ hm) inp vs hl1 i hi,
         view_after_assign _ _ (resetCol_data_length _ _ hr) inp ms hl2 i hi⟩

theorem arange_length (n : Nat) : (arange n).length = n := by simp [arange]

theorem arange_getD (n k : Nat) (h : k < n) : (arange n).getD k 0 = (k : Int) := by
  simp [arange, List.getD_eq_getElem?_getD, h]

theorem isLast_range (n i : Nat) (h : i < n) : IsLast (List.range n) i i :=
  isLast_of_nodup List.nodup_range (List.getElem?_range h)

/-- a successful `match2ref` (with a matcher, on a non-empty catalog) leaves a mask that is open exactly on
the normalised input indices -/
theorem match2ref_ok_mask {st0 : GState K} (st : GState K) (hinv : Inv st0 st) (refIds mref minput : List Int)
    (htp : st.tp.isSome) (hne : st.catlen ≠ 0) (r : Nat × List Int × List Int)
    (h : (match2ref st refIds (some (mref, minput))).res = .ok r) :
    ∃ inp c, normAll st.catlen minput = some inp ∧
      (match2ref st refIds (some (mref, minput))).st.matchedRefId = some c ∧
      c.mask = assign (List.replicate st.catlen true) inp (List.replicate inp.length false) ∧
      (match2ref st refIds (some (mref, minput))).st.rows = st.rows ∧
      (match2ref st refIds (some (mref, minput))).st.weight = st.weight ∧
      (match2ref st refIds (some (mref, minput))).st.memberLens = st.memberLens := by
  rw [match2ref_some _ _ _ _ htp hne] at h ⊢
  obtain ⟨inp, rf, vs, ms, h1, h2, h3, h4, _⟩ := book_ok_inv _ _ _ _ _ _ h
  rw [book_ok _ _ _ _ _ inp rf vs ms h1 h2 h3 h4]
  have hm : ColLen st.matchedRefId st.catlen := hinv.mri
  exact ⟨inp, _, h1, rfl, by rw [resetCol_mask _ _ hm], rfl, rfl, rfl⟩

end

/-! ### `align_to_ref` -/
section
variable {K : Type}

/-- a successful `match2ref` (any `match` argument) on a non-empty catalog with tangent-plane columns leaves a
mask that is open exactly on the (normalised) input indices; `match=None` names every row -/
theorem match2ref_ok_mask_any {st0 : GState K} (st : GState K) (hinv : Inv st0 st) (refIds : List Int)
    (m : Option (List Int × List Int)) (htp : st.tp.isSome) (hne : st.catlen ≠ 0) (r : Nat × List Int × List Int)
    (h : (match2ref st refIds m).res = .ok r) :
    ∃ inp c, (m = none → inp = List.range st.catlen) ∧
      (∀ mref minput, m = some (mref, minput) → normAll st.catlen minput = some inp) ∧
      (match2ref st refIds m).st.matchedRefId = some c ∧
      c.mask = assign (List.replicate st.catlen true) inp (List.replicate inp.length false) ∧
      (match2ref st refIds m).st.rows = st.rows ∧
      (match2ref st refIds m).st.weight = st.weight ∧
      (match2ref st refIds m).st.memberLens = st.memberLens := by
  cases m with
  | some p =>
    obtain ⟨mref, minput⟩ := p
    obtain ⟨inp, c, h1, h2, h3, h4, h5, h6⟩ := match2ref_ok_mask st hinv refIds mref minput htp hne r h
    refine ⟨inp, c, (fun hc => by cases hc), ?_, h2, h3, h4, h5, h6⟩
    intro a b hab
    injection hab with hab
    injection hab with ha hb
    subst ha hb
    exact h1
  | none =>
    by_cases hl : st.catlen = refIds.length
    · rw [match2ref_none _ _ hl] at h ⊢
      obtain ⟨inp, rf, vs, ms, h1, h2, h3, h4, _⟩ := book_ok_inv _ _ _ _ _ _ h
      rw [normAll_arange] at h1
      injection h1 with h1
      subst h1
      rw [book_ok _ _ _ _ _ _ rf vs ms (normAll_arange _) h2 h3 h4]
      have hm : ColLen st.matchedRefId st.catlen := hinv.mri
      exact ⟨_, _, (fun _ => rfl), (fun a b hab => by cases hab), rfl, (by rw [resetCol_mask _ _ hm]), rfl, rfl, rfl⟩
    · have : match2ref st refIds none = ⟨st, .error .valueError⟩ := by
        unfold match2ref
        simp only
        rw [if_pos hl]
      rw [this] at h
      cases h

/-- `align_to_ref` returns `True` only through: enough matches, the fitter reached and returned; the state is
then the state after `match2ref` with the sky positions recomputed -/
theorem alignToRef_true_inv (st : GState K) (a : AlignArgs K) (pa : PairArgs K)
    (h : (alignToRef st a).res = .ok (true, some pa)) :
    ∃ n mr mi, (match2ref (calcTanpXY st a.t) a.ref.ids a.m).res = .ok (n, mr, mi) ∧
      effMinobj a.minobj a.fitmin ≤ n ∧
      fit2refSel (match2ref (calcTanpXY st a.t) a.ref.ids a.m).st (a.ref.radec.map a.t) a.ref.weight = .ok pa ∧
      a.fitOk pa = .returned ∧
      (alignToRef st a).st = recalcCatalogRadec (match2ref (calcTanpXY st a.t) a.ref.ids a.m).st a.w' := by
  unfold alignToRef at h ⊢
  by_cases he : st.memberLens.isEmpty = true
  · rw [if_pos he] at h
    simp at h
  · rw [if_neg he] at h ⊢
    simp only at h ⊢
    cases hres : (match2ref (calcTanpXY st a.t) a.ref.ids a.m).res with
    | error e =>
      rw [hres] at h
      simp at h
    | ok r =>
      obtain ⟨n, mr, mi⟩ := r
      rw [hres] at h
      simp only at h ⊢
      by_cases hn : n < effMinobj a.minobj a.fitmin
      · rw [if_pos hn] at h
        simp at h
      · rw [if_neg hn] at h ⊢
        cases hf : fit2refSel (match2ref (calcTanpXY st a.t) a.ref.ids a.m).st (a.ref.radec.map a.t) a.ref.weight with
        | error e =>
          rw [hf] at h
          simp at h
        | ok pa' =>
          rw [hf] at h
          simp only at h ⊢
          cases ho : a.fitOk pa' with
          | returned =>
            rw [ho] at h
            simp only [Except.ok.injEq, Prod.mk.injEq, Option.some.injEq, true_and] at h
            subst h
            exact ⟨n, mr, mi, rfl, by omega, rfl, ho, rfl⟩
          | degenerate =>
            rw [ho] at h
            simp at h
          | raised =>
            rw [ho] at h
            simp at h

end

/-! ### concrete groups for the non-vacuity examples of `Proofs/C11.lean` -/

/-- a group of three members, the first and the last empty; `w p (x, y) = (x + 1000 p, y)` -/
def exMembers : List (Member Int) :=
  [⟨[], none⟩, ⟨[⟨1, (5, 3)⟩, ⟨2, (15, 10)⟩, ⟨3, (25, 17)⟩], some [10, 20, 30]⟩, ⟨[], none⟩, ⟨[⟨7, (6, 4)⟩, ⟨9, (16, 11)⟩], some [40, 50]⟩]

def exW (p : Nat) (xy : Int × Int) : Int × Int := (xy.1 + 1000 * p, xy.2)

def exState : GState Int :=
  match createGroup exW exMembers with
  | .ok st => st
  | .error _ => ⟨[], [], none, none, none, none, none, none⟩

/-- two `match2ref` calls: five matches, then one (with repeated and negative indices in between) -/
def exOps : List (GOp Int) :=
  [.calcTp id, .match2ref [11, 12, 13, 14, 15] (some ([0, 1, 2, 3, 4], [4, 3, 2, 1, 0])),
   .match2ref [11, 12, 13] (some ([1, 2, 0], [0, 0, -1]))]

/-- a reference catalog of two rows -/
def exRef : RefCat Int := ⟨[(1, 1), (2, 2)], [5, 9], none⟩

end TW.GCL
