import Proofs.C08General

/-!
Helper lemmas for C08: what a change of coordinates (`A` on `xy`, `B` on `uv`) does to the
normalised weights, to the value of `fit_shifts` and to the moments of `fit_rscale`.
-/
open TW
set_option linter.unusedSectionVars false

namespace TW
variable {K : Type} [Field K] [LinearOrder K] [IsStrictOrderedRing K]

/-- the normalised weights of an accepted fit sum to one -/
theorem gnorm_sum_one (bx bu : Bool) (rows : List (Row K)) (k : Nat) (hk : 1 ≤ k)
    (hn : ¬ rows.length < k) (hbad : weightsBad k bx bu rows = false) :
    (rows.map (gnorm bx bu rows)).sum = 1 := by
  have hn0 : (rows.length : K) ≠ 0 := by
    have : rows.length ≠ 0 := by omega
    exact_mod_cast this
  unfold gnorm
  unfold weightsBad at hbad
  cases hb : (bx || bu)
  · simp only [Bool.false_eq_true, if_false]
    rw [sum_map_const]
    field_simp
  · simp only [if_true]
    rw [hb] at hbad
    simp only [Bool.true_and, Bool.or_eq_false_iff, decide_eq_false_iff_not] at hbad
    have hpos := sum_pos_of_weights (rows.map (wsel bx bu)) hbad.1 (by omega)
    have : (rows.map fun r => wsel bx bu r / (rows.map (wsel bx bu)).sum).sum
        = (1 / (rows.map (wsel bx bu)).sum) * (rows.map (wsel bx bu)).sum := by
      rw [← sum_map_mul_left']
      exact sum_map_congr rows _ _ (fun r _ => by ring)
    rw [this]
    field_simp

theorem move_gnorm (bx bu : Bool) (A B : Aff K) (rows : List (Row K)) (r : Row K) :
    gnorm bx bu (rows.map (Row.move A B)) (r.move A B) = gnorm bx bu rows r := by
  unfold gnorm
  simp only [List.map_map, Function.comp_def, wsel_move, List.length_map]

theorem move_gmom (bx bu : Bool) (A B : Aff K) (rows : List (Row K)) (r : Row K) :
    gmom bx bu (rows.map (Row.move A B)) (r.move A B) = gmom bx bu rows r := by
  unfold gmom
  simp only [List.map_map, Function.comp_def, wsel_move]

theorem wsumO_move (A B : Aff K) (rows : List (Row K)) (w w' : Row K → K)
    (hw : ∀ r, w' (r.move A B) = w r) (P : Obs K → K) :
    wsumO (rows.map (Row.move A B)) w' P = wsumO rows w (fun o => P (o.move A B)) :=
  wsumO_map (Row.move A B) (Obs.move A B) (fun _ => rfl) rows w w' (fun r _ => hw r) P

/-! ### `fit_shifts` -/

/-- with the same linear part `Q` on both sides the differences `xy − uv` transform by `Q`, and
so does their weighted mean -/
theorem shiftVal_move (bx bu : Bool) (A B : Aff K) (hAB : A.m = B.m) (rows : List (Row K))
    (hsum : (rows.map (gnorm bx bu rows)).sum = 1) :
    shiftVal (gnorm bx bu (rows.map (Row.move A B))) (rows.map (Row.move A B))
      = ⟨1, 0, 0, 1,
          A.m.a * (shiftVal (gnorm bx bu rows) rows).sx + A.m.b * (shiftVal (gnorm bx bu rows) rows).sy
            + (A.t.x - B.t.x),
          A.m.c * (shiftVal (gnorm bx bu rows) rows).sx + A.m.d * (shiftVal (gnorm bx bu rows) rows).sy
            + (A.t.y - B.t.y)⟩ := by
  rw [shiftVal_wsumO, shiftVal_wsumO]
  simp only [wsumO_move A B rows _ _ (move_gnorm bx bu A B rows)]
  have ex : (fun o : Obs K => (o.move A B).x - (o.move A B).u)
      = fun o => A.m.a * (o.x - o.u) + A.m.b * (o.y - o.v) + (A.t.x - B.t.x) := by
    funext o; rw [Obs.move_x, Obs.move_u, ← hAB]; ring
  have ey : (fun o : Obs K => (o.move A B).y - (o.move A B).v)
      = fun o => A.m.c * (o.x - o.u) + A.m.d * (o.y - o.v) + (A.t.y - B.t.y) := by
    funext o; rw [Obs.move_y, Obs.move_v, ← hAB]; ring
  rw [ex, ey, wsumO_lin2, wsumO_lin2, hsum]
  simp only [mul_one]

theorem conj_shift (A B : Aff K) (hAB : A.m = B.m) (hdet : B.m.det ≠ 0) (sx sy : K) :
    Lin.conj A B ⟨1, 0, 0, 1, sx, sy⟩
      = ⟨1, 0, 0, 1, A.m.a * sx + A.m.b * sy + (A.t.x - B.t.x), A.m.c * sx + A.m.d * sy + (A.t.y - B.t.y)⟩ := by
  simp only [Lin.conj, Lin.ofAff, Lin.toAff, Aff.comp, Aff.inv, M2.mulVec, M2.mul, M2.inv, V2.add,
    V2.neg, hAB, Lin.mk.injEq]
  refine ⟨?_, ?_, ?_, ?_, ?_, ?_⟩ <;> field_simp <;> simp only [M2.det] <;> ring

end TW

namespace TW
variable {K : Type} [Field K] [LinearOrder K] [IsStrictOrderedRing K]

/-- conjugation by two translations is the explicit formula "shift changes by `a − F·b`" -/
theorem conj_trans (a b : V2 K) : Lin.conj (Aff.trans a) (Aff.trans b) = Lin.transl a b := by
  funext L
  simp only [Lin.conj, Lin.transl, Lin.ofAff, Lin.toAff, Aff.comp, Aff.inv, Aff.trans, M2.mulVec,
    M2.mul, M2.inv, M2.one, M2.det, V2.add, V2.neg, zeroK_eq, oneK_eq, Lin.mk.injEq]
  refine ⟨?_, ?_, ?_, ?_, ?_, ?_⟩ <;> ring

end TW

namespace TW
variable {K : Type} [Field K] [LinearOrder K] [IsStrictOrderedRing K]

/-! ### the moments of `fit_rscale` -/

/-- what the change of coordinates does to the moments: the means move with the maps, the
cross-moment matrix `H = [[sxu, sxv], [syu, syv]]` becomes `A_lin · H · B_linᵀ`, and `su2v2` is
multiplied by the squared scale of the similarity `B` -/
def RSums.move (A B : Aff K) (s : RSums K) : RSums K :=
  { xm := A.m.a * s.xm + A.m.b * s.ym + A.t.x, ym := A.m.c * s.xm + A.m.d * s.ym + A.t.y
    um := B.m.a * s.um + B.m.b * s.vm + B.t.x, vm := B.m.c * s.um + B.m.d * s.vm + B.t.y
    sxu := A.m.a * B.m.a * s.sxu + A.m.a * B.m.b * s.sxv + A.m.b * B.m.a * s.syu + A.m.b * B.m.b * s.syv
    sxv := A.m.a * B.m.c * s.sxu + A.m.a * B.m.d * s.sxv + A.m.b * B.m.c * s.syu + A.m.b * B.m.d * s.syv
    syu := A.m.c * B.m.a * s.sxu + A.m.c * B.m.b * s.sxv + A.m.d * B.m.a * s.syu + A.m.d * B.m.b * s.syv
    syv := A.m.c * B.m.c * s.sxu + A.m.c * B.m.d * s.sxv + A.m.d * B.m.c * s.syu + A.m.d * B.m.d * s.syv
    su2v2 := (B.m.a * B.m.a + B.m.c * B.m.c) * s.su2v2 }

theorem rsumsRow_move (A B : Aff K) (hB : B.m.IsSim) (rows : List (Row K))
    (gm gq gm' gq' : Row K → K) (hm : ∀ r, gm' (r.move A B) = gm r)
    (hq : ∀ r, gq' (r.move A B) = gq r) (hsum : (rows.map gm).sum = 1) :
    rsumsRow gm' gq' (rows.map (Row.move A B)) = RSums.move A B (rsumsRow gm gq rows) := by
  rw [rsumsRow_wsumO, rsumsRow_wsumO]
  simp only [wsumO_move A B rows _ _ hm, wsumO_move A B rows _ _ hq]
  have hxm : wsumO rows gm (fun o => (o.move A B).x)
      = A.m.a * wsumO rows gm (·.x) + A.m.b * wsumO rows gm (·.y) + A.t.x := by
    simp only [Obs.move_x]; rw [wsumO_lin2, hsum, mul_one]
  have hym : wsumO rows gm (fun o => (o.move A B).y)
      = A.m.c * wsumO rows gm (·.x) + A.m.d * wsumO rows gm (·.y) + A.t.y := by
    simp only [Obs.move_y]; rw [wsumO_lin2, hsum, mul_one]
  have hum : wsumO rows gm (fun o => (o.move A B).u)
      = B.m.a * wsumO rows gm (·.u) + B.m.b * wsumO rows gm (·.v) + B.t.x := by
    simp only [Obs.move_u]; rw [wsumO_lin2, hsum, mul_one]
  have hvm : wsumO rows gm (fun o => (o.move A B).v)
      = B.m.c * wsumO rows gm (·.u) + B.m.d * wsumO rows gm (·.v) + B.t.y := by
    simp only [Obs.move_v]; rw [wsumO_lin2, hsum, mul_one]
  rw [hxm, hym, hum, hvm]
  set xm := wsumO rows gm (·.x)
  set ym := wsumO rows gm (·.y)
  set um := wsumO rows gm (·.u)
  set vm := wsumO rows gm (·.v)
  have dx : ∀ o : Obs K, (o.move A B).x - (A.m.a * xm + A.m.b * ym + A.t.x)
      = A.m.a * (o.x - xm) + A.m.b * (o.y - ym) := fun o => by rw [Obs.move_x]; ring
  have dy : ∀ o : Obs K, (o.move A B).y - (A.m.c * xm + A.m.d * ym + A.t.y)
      = A.m.c * (o.x - xm) + A.m.d * (o.y - ym) := fun o => by rw [Obs.move_y]; ring
  have du : ∀ o : Obs K, (o.move A B).u - (B.m.a * um + B.m.b * vm + B.t.x)
      = B.m.a * (o.u - um) + B.m.b * (o.v - vm) := fun o => by rw [Obs.move_u]; ring
  have dv : ∀ o : Obs K, (o.move A B).v - (B.m.c * um + B.m.d * vm + B.t.y)
      = B.m.c * (o.u - um) + B.m.d * (o.v - vm) := fun o => by rw [Obs.move_v]; ring
  simp only [dx, dy, du, dv]
  simp only [wsumO_bilin rows gq (fun o => o.x - xm) (fun o => o.y - ym) (fun o => o.u - um) (fun o => o.v - vm),
    wsumO_bilin rows gq (fun o => o.u - um) (fun o => o.v - vm) (fun o => o.u - um) (fun o => o.v - vm)]
  have hvu : wsumO rows gq (fun o => (o.v - vm) * (o.u - um)) = wsumO rows gq (fun o => (o.u - um) * (o.v - vm)) :=
    wsumO_congr rows _ _ _ _ (fun r _ => by ring)
  rw [hvu]
  simp only [RSums.move, RSums.mk.injEq, true_and]
  rcases hB with ⟨h1, h2⟩ | ⟨h1, h2⟩ <;> rw [h1, h2] <;> ring

end TW

namespace TW
variable {K : Type} [Field K] [LinearOrder K] [IsStrictOrderedRing K]

theorem isSim_one : (M2.one : M2 K).IsSim := by
  left; simp [M2.one]

/-- the centring of `iter_linear_fit` is the translation of both sets by `−c` -/
theorem centre_eq_move (c : V2 K) : (Row.centre c : Row K → Row K) = Row.move (Aff.trans c.neg) (Aff.trans c.neg) := by
  funext r
  simp only [Row.centre, Row.move, Obs.move, Obs.xy, Obs.uv, Aff.app, Aff.trans, M2.mulVec, M2.one,
    V2.add, V2.neg, zeroK_eq, oneK_eq, Row.mk.injEq, Obs.mk.injEq, and_true]
  refine ⟨?_, ?_, ?_, ?_⟩ <;> ring

/-- reporting the effective map undoes the centring -/
theorem eff_transl (c : V2 K) (L : Lin K) : Lin.eff c (Lin.transl c.neg c.neg L) = L := by
  cases L
  simp only [Lin.eff, Lin.transl, V2.neg, Lin.mk.injEq, true_and]
  constructor <;> ring

theorem except_map_map {ε α β γ : Type} (x : Except ε α) (f : α → β) (g : β → γ) :
    (x.map f).map g = x.map (fun a => g (f a)) := by
  cases x <;> rfl

theorem except_map_id' {ε α : Type} (x : Except ε α) (f : α → α) (h : ∀ a, f a = a) : x.map f = x := by
  cases x with
  | error e => rfl
  | ok a => simp [Except.map, h]

end TW

namespace TW
variable {K : Type} [Field K] [LinearOrder K] [IsStrictOrderedRing K]

/-- a similarity multiplies squared lengths by its squared scale factor -/
theorem isSim_normSq (m : M2 K) (h : m.IsSim) (x y : K) :
    (m.a * x + m.b * y) * (m.a * x + m.b * y) + (m.c * x + m.d * y) * (m.c * x + m.d * y)
      = (m.a * m.a + m.b * m.b) * (x * x + y * y) := by
  rcases h with ⟨h1, h2⟩ | ⟨h1, h2⟩ <;> rw [h1, h2] <;> ring

end TW
