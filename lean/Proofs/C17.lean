import Proofs.InvCorrect
import Proofs.InvTotal
import Proofs.FitGeneral
import Proofs.GuardLemmas
import Mathlib.LinearAlgebra.Matrix.Determinant.Basic
import Mathlib.LinearAlgebra.Matrix.NonsingularInverse

/-!
# C17 — matrix inversion is accurate, total on regular input and loud on singular input

Property theorems only (helper lemmas live in `Proofs/Inv*.lean`, `Proofs/FitGeneral.lean`).
The model is `TW.invSq` / `TW.invRows` (`Model/LinAlg.lean`), a line-by-line model of
`tweakwcs.linalg.inv`; `K` is any linearly ordered field (real arithmetic: rounding is outside
the model, see DESIGN.md section 3).
-/
open TW Matrix
set_option linter.unusedSectionVars false

namespace TW.C17
variable {K : Type} [Field K] [LinearOrder K] [IsStrictOrderedRing K] {n : ℕ}

/-- whatever `inv` returns is the two-sided inverse, for every order `n` -/
theorem inv_correct (eps : K) (heps : 0 < eps) (a x : Mat n K) (h : invSq eps a = .ok x) :
    toM x * toM a = 1 ∧ toM a * toM x = 1 :=
  invSq_correct eps heps a x h

/-- `inv` never returns on a singular matrix: it can only end with the singular error -/
theorem inv_singular (eps : K) (heps : 0 < eps) (a : Mat n K) (hdet : (toM a).det = 0) :
    invSq eps a = .error .singular := by
  cases h : invSq eps a with
  | ok x =>
    have := (invSq_correct eps heps a x h).1
    have hd := congrArg Matrix.det this
    rw [Matrix.det_mul, hdet, mul_zero, Matrix.det_one] at hd
    exact absurd hd (by norm_num)
  | error e =>
    cases e with
    | singular => rfl
    | notSquare =>
      exfalso
      unfold invSq at h
      simp only [bind, Except.bind, pure, Except.pure] at h
      split at h
      · next e' he' =>
        injection h with h
        subst h
        -- the forward loop only ever raises `singular`
        have key : ∀ (l : List (Fin n)) (st : InvSt n K),
            l.foldlM (fwdStep eps) st ≠ .error .notSquare := by
          intro l
          induction l with
          | nil => intro st hc; simp [List.foldlM, pure, Except.pure] at hc
          | cons k l ih =>
            intro st hc
            rw [List.foldlM_cons] at hc
            cases hs : fwdStep eps st k with
            | error e2 =>
              rw [hs] at hc
              simp only [bind, Except.bind] at hc
              injection hc with hc
              subst hc
              unfold fwdStep at hs
              simp only at hs
              split at hs
              · injection hs with hs; cases hs
              · cases hs
            | ok s1 =>
              rw [hs] at hc
              exact ih s1 hc
        exact key _ _ he'
      · cases h

/-- **totality on regular input as the singularity threshold goes to zero**: for every
invertible matrix there is a positive threshold `eps0` (the smallest pivot magnitude of the
elimination, `invEps0 a`) such that `inv` returns for every `0 < eps ≤ eps0`; by `inv_correct`
what it returns is the inverse -/
theorem inv_total (a : Mat n K) (hdet : (toM a).det ≠ 0) :
    ∃ eps0 : K, 0 < eps0 ∧ ∀ eps : K, 0 < eps → eps ≤ eps0 → ∃ x, invSq eps a = .ok x :=
  ⟨invEps0 a, invEps0_pos a hdet, fun eps _ hle => invSq_total a eps hle⟩

/-- … and the returned matrix is the two-sided inverse -/
theorem inv_total_correct (a : Mat n K) (hdet : (toM a).det ≠ 0) :
    ∃ eps0 : K, 0 < eps0 ∧ ∀ eps : K, 0 < eps → eps ≤ eps0 →
      ∃ x, invSq eps a = .ok x ∧ toM x * toM a = 1 ∧ toM a * toM x = 1 := by
  obtain ⟨eps0, h0, h⟩ := inv_total a hdet
  refine ⟨eps0, h0, fun eps he hle => ?_⟩
  obtain ⟨x, hx⟩ := h eps he hle
  exact ⟨x, hx, invSq_correct eps he a x hx⟩

/-- the threshold is sharp in `eps`: a singular exit on regular input means that some pivot of
the (eps-independent) elimination is non-zero but below `eps` -/
theorem inv_singular_exit (eps : K) (a : Mat n K) (hdet : (toM a).det ≠ 0)
    (h : invSq eps a = .error .singular) :
    ∃ p ∈ pivs (List.finRange n) (⟨a, idMat, idMat⟩ : InvSt n K), 0 < p ∧ p < eps := by
  by_contra hcon
  have hall : ∀ p ∈ pivs (List.finRange n) (⟨a, idMat, idMat⟩ : InvSt n K), ¬ p < eps := by
    intro p hp hlt
    apply hcon
    refine ⟨p, hp, ?_, hlt⟩
    exact pivs_pos (toM a) hdet (List.finRange n) 0 _ finRange_map_val (fwdInv_init a)
      (by rw [toM_idMat, Matrix.det_one]; exact one_ne_zero) p hp
  have hfold := foldlM_fwdStep_ok eps (List.finRange n) (⟨a, idMat, idMat⟩ : InvSt n K) hall
  unfold invSq at h
  simp only [bind, Except.bind, pure, Except.pure] at h
  rw [hfold] at h
  cases h

/-- the uniqueness half: if `inv` returns, the matrix was invertible and the result is *the*
inverse (so it agrees with any exact inverse) -/
theorem inv_unique (eps : K) (heps : 0 < eps) (a x : Mat n K) (h : invSq eps a = .ok x)
    (y : Matrix (Fin n) (Fin n) K) (hy : y * toM a = 1) : toM x = y := by
  have hx := (invSq_correct eps heps a x h).2
  calc toM x = 1 * toM x := by rw [one_mul]
    _ = (y * toM a) * toM x := by rw [hy]
    _ = y * (toM a * toM x) := by rw [Matrix.mul_assoc]
    _ = y := by rw [hx, mul_one]

/-- non-square input is rejected before any arithmetic -/
theorem nonsquare_error (eps : K) (rows : List (List K))
    (h : ∃ r ∈ rows, r.length ≠ rows.length) : invRows eps rows = .error .notSquare := by
  unfold invRows
  obtain ⟨r, hr, hne⟩ := h
  have : rows.all (fun r => r.length == rows.length) = false := by
    rw [List.all_eq_false]
    exact ⟨r, hr, by simpa using hne⟩
  rw [this]; rfl

/-- too few points: each fitter raises `NotEnoughPointsError` below its minimum, whatever the data -/
theorem too_few_points_general (eps epsD : K) (obs : List (Obs K)) (wxy wuv : Option (List K))
    (h : obs.length < 3) : fitGeneral eps epsD obs wxy wuv = .error .notEnoughPoints := by
  unfold fitGeneral; rw [if_pos h]

theorem too_few_points_shift (obs : List (Obs K)) (wxy wuv : Option (List K))
    (h : obs.length = 0) : fitShifts obs wxy wuv = .error .notEnoughPoints := by
  unfold fitShifts; rw [if_pos h]

/-- collinear points: the normal matrix of `fit_general` is singular, so solving the normal
equations with `inv` (in exact arithmetic) ends with the singular error — whatever the collinearity
guard does.  (On doubles round-off usually leaves a non-zero pivot: this is why the code now has
the guard, see `collinear_general_singular`.) -/
theorem collinear_normal_singular (eps : K) (heps : 0 < eps) (obs : List (Obs K))
    (wxy wuv : Option (List K)) (a b c : K) (hab : a ≠ 0 ∨ b ≠ 0 ∨ c ≠ 0)
    (hline : ∀ o ∈ obs, a * o.u + b * o.v + c = 0)
    (hlen : (generalW obs wxy wuv).length = obs.length) :
    gsolve eps (gsums (generalW obs wxy wuv) obs) = .error .singular := by
  set ws := generalW obs wxy wuv
  have hs := gsums_eq ws obs hlen
  simp only at hs
  -- the vector (a, b, c) is in the kernel of the normal matrix
  have hZ : ∀ (f : K × Obs K → K),
      ((List.zip ws obs).map fun p => f p * (a * p.2.u + b * p.2.v + c)).sum = 0 := by
    intro f
    apply List.sum_eq_zero
    intro x hx
    obtain ⟨p, hp, rfl⟩ := List.mem_map.mp hx
    rw [hline p.2 (List.of_mem_zip hp).2, mul_zero]
  have e0 := hZ fun p => p.1
  have e1 := hZ fun p => p.1 * p.2.u
  have e2 := hZ fun p => p.1 * p.2.v
  have lin : ∀ (Z : List (K × Obs K)) (g : K × Obs K → K),
      (Z.map fun p => g p * (a * p.2.u + b * p.2.v + c)).sum
        = a * (Z.map fun p => g p * p.2.u).sum + b * (Z.map fun p => g p * p.2.v).sum
          + c * (Z.map fun p => g p).sum := by
    intro Z g
    induction Z with
    | nil => simp
    | cons p l ih => simp only [List.map_cons, List.sum_cons]; rw [ih]; ring
  rw [lin] at e0 e1 e2
  have hdet : (toM (gmatrix (gsums ws obs))).det = 0 := by
    rw [hs]
    set S := (List.zip ws obs) with hS
    -- M * (a, b, c)ᵀ = 0 with (a, b, c) ≠ 0
    by_contra hne
    have hunit := (Matrix.isUnit_iff_isUnit_det _).mpr (Ne.isUnit hne)
    set M := toM (gmatrix (
      { sw := (S.map fun p => p.1).sum
        sx := (S.map fun p => p.1 * p.2.x).sum, sy := (S.map fun p => p.1 * p.2.y).sum
        su := (S.map fun p => p.1 * p.2.u).sum, sv := (S.map fun p => p.1 * p.2.v).sum
        sxu := (S.map fun p => p.1 * (p.2.x * p.2.u)).sum, syu := (S.map fun p => p.1 * (p.2.y * p.2.u)).sum
        sxv := (S.map fun p => p.1 * (p.2.x * p.2.v)).sum, syv := (S.map fun p => p.1 * (p.2.y * p.2.v)).sum
        suu := (S.map fun p => p.1 * (p.2.u * p.2.u)).sum, svv := (S.map fun p => p.1 * (p.2.v * p.2.v)).sum
        suv := (S.map fun p => p.1 * (p.2.u * p.2.v)).sum } : GSums K)) with hM
    have hker : M.mulVec ![a, b, c] = 0 := by
      funext i
      fin_cases i
      · simp only [hM, Matrix.mulVec, dotProduct, Fin.sum_univ_three, toM_apply, gmatrix, Mat.get_ofFn]
        simp
        linear_combination e0
      · simp only [hM, Matrix.mulVec, dotProduct, Fin.sum_univ_three, toM_apply, gmatrix, Mat.get_ofFn]
        simp
        have : ∀ p : K × Obs K, p.1 * p.2.u * p.2.u = p.1 * (p.2.u * p.2.u) := fun p => by ring
        have t2 : ∀ p : K × Obs K, p.1 * p.2.u * p.2.v = p.1 * (p.2.u * p.2.v) := fun p => by ring
        simp only [this, t2] at e1
        linear_combination e1
      · simp only [hM, Matrix.mulVec, dotProduct, Fin.sum_univ_three, toM_apply, gmatrix, Mat.get_ofFn]
        simp
        have t1 : ∀ p : K × Obs K, p.1 * p.2.v * p.2.u = p.1 * (p.2.u * p.2.v) := fun p => by ring
        have t2 : ∀ p : K × Obs K, p.1 * p.2.v * p.2.v = p.1 * (p.2.v * p.2.v) := fun p => by ring
        simp only [t1, t2] at e2
        linear_combination e2
    have hinj := Matrix.mulVec_injective_of_isUnit hunit
    have : (![a, b, c] : Fin 3 → K) = 0 := hinj (by rw [hker, Matrix.mulVec_zero])
    have h0 := congrFun this 0
    have h1 := congrFun this 1
    have h2 := congrFun this 2
    simp at h0 h1 h2
    rcases hab with h | h | h
    · exact h h0
    · exact h h1
    · exact h h2
  unfold gsolve
  rw [inv_singular eps heps _ hdet]

/-- **collinear (or coincident) points: `fit_general` raises instead of returning parameters, for
every threshold `epsD ≥ 0` of the collinearity guard and every pivot threshold `eps` of `inv`.**
The guard decides: for points on a line `a u + b v + c = 0` the determinant `cuu*cvv − cuv²` of
the second central moments is exactly `0 ≤ epsD * ((cuu + cvv)/2)²`. -/
theorem collinear_general_singular (eps epsD : K) (hD : 0 ≤ epsD) (obs : List (Obs K))
    (wxy wuv : Option (List K)) (a b c : K) (hab : a ≠ 0 ∨ b ≠ 0 ∨ c ≠ 0)
    (hline : ∀ o ∈ obs, a * o.u + b * o.v + c = 0)
    (hlen : (generalW obs wxy wuv).length = obs.length) :
    (∃ e, fitGeneral eps epsD obs wxy wuv = .error e) := by
  unfold fitGeneral
  split
  · exact ⟨_, rfl⟩
  next hn =>
  split
  · exact ⟨_, rfl⟩
  next hbad =>
  rw [generalGuard_collinear epsD hD obs wxy wuv a b c hab
    (fun p hp _ => hline p.2 (List.of_mem_zip hp).2) hlen hn (by simpa using hbad)]
  exact ⟨_, rfl⟩

/-- … and the error is `SingularMatrixError` as soon as there are three points and the weights
are valid; only the points with a non-zero weight need be on the line -/
theorem collinear_general_raises_singular (eps epsD : K) (hD : 0 ≤ epsD) (obs : List (Obs K))
    (wxy wuv : Option (List K)) (a b c : K) (hab : a ≠ 0 ∨ b ≠ 0 ∨ c ≠ 0)
    (hline : ∀ p ∈ List.zip (generalW obs wxy wuv) obs, p.1 ≠ 0 → a * p.2.u + b * p.2.v + c = 0)
    (hlen : (generalW obs wxy wuv).length = obs.length)
    (hn : 3 ≤ obs.length) (hbad : generalBad wxy wuv = false) :
    fitGeneral eps epsD obs wxy wuv = .error .singular := by
  unfold fitGeneral
  rw [if_neg (by omega), hbad,
    generalGuard_collinear epsD hD obs wxy wuv a b c hab hline hlen (by omega) hbad]
  rfl

/-- **coincident points** (all `uv` positions equal) are refused in the same way -/
theorem coincident_general_singular (eps epsD : K) (hD : 0 ≤ epsD) (obs : List (Obs K))
    (wxy wuv : Option (List K)) (u0 v0 : K) (hpt : ∀ o ∈ obs, o.u = u0 ∧ o.v = v0)
    (hlen : (generalW obs wxy wuv).length = obs.length) :
    (∃ e, fitGeneral eps epsD obs wxy wuv = .error e) :=
  collinear_general_singular eps epsD hD obs wxy wuv 1 0 (-u0) (Or.inl one_ne_zero)
    (fun o ho => by rw [(hpt o ho).1]; ring) hlen

theorem coincident_general_raises_singular (eps epsD : K) (hD : 0 ≤ epsD) (obs : List (Obs K))
    (wxy wuv : Option (List K)) (u0 v0 : K) (hpt : ∀ o ∈ obs, o.u = u0 ∧ o.v = v0)
    (hlen : (generalW obs wxy wuv).length = obs.length)
    (hn : 3 ≤ obs.length) (hbad : generalBad wxy wuv = false) :
    fitGeneral eps epsD obs wxy wuv = .error .singular :=
  collinear_general_raises_singular eps epsD hD obs wxy wuv 1 0 (-u0) (Or.inl one_ne_zero)
    (fun p hp _ => by rw [(hpt p.2 (List.of_mem_zip hp).2).1]; ring) hlen hn hbad

/-- **the guard refuses nothing that can be fitted for lack of regularity**: when the guard does
not fire (threshold `epsD ≥ 0`; three points, valid weights) the normal matrix is regular — its
determinant is `sw·(cuu*cvv − cuv²) > 0` — so `fit_general` returns for every sufficiently small
pivot threshold of `inv` (`inv_total`), and what it returns is the least-squares optimum
(`C06.fitGeneral_optimal`) -/
theorem noncollinear_general_returns (epsD : K) (hD : 0 ≤ epsD) (obs : List (Obs K))
    (wxy wuv : Option (List K)) (hlen : (generalW obs wxy wuv).length = obs.length)
    (hn : 3 ≤ obs.length) (hbad : generalBad wxy wuv = false)
    (hg : generalGuard epsD obs wxy wuv = false) :
    ∃ eps0 : K, 0 < eps0 ∧ ∀ eps : K, 0 < eps → eps ≤ eps0 →
      ∃ L, fitGeneral eps epsD obs wxy wuv = .ok L := by
  have hdet := gmatrix_det_ne_zero_of_guard epsD hD obs wxy wuv hlen (by omega) hbad hg
  obtain ⟨eps0, h0, h⟩ := inv_total _ hdet
  refine ⟨eps0, h0, fun eps he hle => ?_⟩
  obtain ⟨x, hx⟩ := h eps he hle
  unfold fitGeneral
  rw [if_neg (by omega), hbad, hg]
  unfold gsolve
  rw [hx]
  exact ⟨_, rfl⟩

-- non-vacuity of the collinearity statements: the F13 witness (integers on the line v = u + 1),
-- with the code's threshold 2^-52 and with threshold 0; a weighted set whose only off-line point
-- has weight 0; coincident points; and a non-collinear set on which the guard does not fire
example : (match fitGeneral (K := ℚ) (1/1000000) (1/4503599627370496)
    [⟨3, 1, 2, 3⟩, ⟨0, -2, -1, 0⟩, ⟨-8, -10, -9, -8⟩] none none with
    | .error .singular => true | _ => false) = true := by decide +kernel
example : (match fitGeneral (K := ℚ) (1/1000000) 0
    [⟨3, 1, 2, 3⟩, ⟨0, -2, -1, 0⟩, ⟨-8, -10, -9, -8⟩] none none with
    | .error .singular => true | _ => false) = true := by decide +kernel
example : (∀ o ∈ [(⟨3, 1, 2, 3⟩ : Obs ℚ), ⟨0, -2, -1, 0⟩, ⟨-8, -10, -9, -8⟩], 1 * o.u + (-1) * o.v + 1 = 0) := by
  decide +kernel
example : (match fitGeneral (K := ℚ) (1/1000000) (1/4503599627370496)
    [⟨3, 1, 2, 3⟩, ⟨0, -2, -1, 0⟩, ⟨-8, -10, -9, -8⟩, ⟨1, 1, 5, 0⟩, ⟨4, 2, 3, 4⟩] (some [1, 2, 3, 0, 1]) none with
    | .error .singular => true | _ => false) = true := by decide +kernel
example : (match fitGeneral (K := ℚ) (1/1000000) (1/4503599627370496)
    [⟨3, 1, 2, 3⟩, ⟨0, -2, 2, 3⟩, ⟨-8, -10, 2, 3⟩, ⟨1, 1, 2, 3⟩] (some [1, 2, 3, 1]) (some [2, 1, 1, 1]) with
    | .error .singular => true | _ => false) = true := by decide +kernel
example : generalGuard (K := ℚ) (1/4503599627370496)
    [⟨1, 1, 0, 0⟩, ⟨3, 0, 1, 0⟩, ⟨0, 4, 0, 1⟩, ⟨2, 3, 1, 1⟩] none none = false := by decide +kernel

-- non-vacuity: a concrete invertible matrix is inverted, a concrete singular one is refused
example : (invRows (K := ℚ) (1/1000000) [[0, 2], [1, 0]]) = .ok [[0, 1], [1/2, 0]] := by decide +kernel
example : (invRows (K := ℚ) (1/1000000) [[1, 2], [2, 4]]) = .error .singular := by decide +kernel
example : (invRows (K := ℚ) (1/1000000) [[1, 2, 3], [2, 4]]) = .error .notSquare := by decide +kernel

-- the threshold of a concrete matrix, and totality at and below it
example : invEps0 (K := ℚ) (matOfRows 2 [[0, 2], [1, 0]]) = 1 := by decide +kernel
example : (invRows (K := ℚ) 1 [[0, 2], [1, 0]]) = .ok [[0, 1], [1/2, 0]] := by decide +kernel
example : (invRows (K := ℚ) (3/2) [[0, 2], [1, 0]]) = .error .singular := by decide +kernel

end TW.C17
