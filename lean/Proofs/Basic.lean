import Mathlib.Analysis.Real.Sqrt
import Mathlib.Tactic.Ring
import Mathlib.Tactic.Linarith
import Model.Basic
open TW
noncomputable instance : HasSqrt ℝ := ⟨Real.sqrt⟩
theorem hyp_sq (a b : ℝ) : (hyp a b)^2 = a*a + b*b := by
  show Real.sqrt (a*a+b*b)^2 = _
  rw [Real.sq_sqrt]; nlinarith [mul_self_nonneg a, mul_self_nonneg b]
theorem half_two (a : ℝ) : half a * 2 = a := by
  unfold half; push_cast; ring
