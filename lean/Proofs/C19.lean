import Proofs.StoreLemmas

/-!
# C19 — public entry points do not modify caller-owned data or leak state between calls

Property theorems only (helper lemmas: `Proofs/StoreLemmas.lean`; model: `Model/Store.lean`).

**Level.**  Python aliasing lives in the runtime; these theorems are about the abstraction — a
store of named cells in which every entry point is an operation with a *declared* write set and
a declared read set, the computation itself being an arbitrary parameter `sem`.  They say what
follows from the declared contract for *every* call sequence.  That the real code refines the
contract (cells changed in reality ⊆ declared write set; equal inputs give bit-identical
results) is decided by the correspondence check of `harness/props/c19.py` on real objects with
bit-exact deep snapshots, for call sequences of length 1–3.
-/
open TW

namespace TW.C19

/-- **Frame condition.**  For EVERY call sequence and every computation `sem`, a cell outside
the union of the declared write sets keeps its value. -/
theorem frame_condition (sem : Sem) (s : Store) (ops : List Op) (c : Cell)
    (h : c ∉ mayWrite ops) : (run sem s ops).get c = s.get c := by
  induction ops generalizing s with
  | nil => rfl
  | cons op ops ih =>
    rw [mayWrite_cons, List.mem_append, not_or] at h
    rw [run_cons, ih _ h.2, get_step_of_not_mem _ _ _ _ h.1]

/-- **Caller-owned data is never modified**, for every call sequence: coordinate and weight
arrays, matrices, hull inputs, catalogs, the reference catalog, the `ref_tpwcs` corrector, a
reference corrector, default-argument objects, the default matcher, module state, and the
catalog and original WCS of every corrector that is not itself *created* by a `copy()` of the
sequence. -/
theorem caller_data_untouched (sem : Sem) (s : Store) (ops : List Op) (c : Cell)
    (hc : c.callerOwned = true) (hfresh : ∀ k, c.owner = some k → k ∉ copyDests ops) :
    (run sem s ops).get c = s.get c := by
  induction ops generalizing s with
  | nil => rfl
  | cons op ops ih =>
    have hstep : (step sem s op).get c = s.get c := by
      apply get_step_of_not_mem
      intro hmem
      obtain ⟨i, j, hop, hown⟩ := callerOwned_of_mem_writeSet op c hmem hc
      subst hop
      exact hfresh j hown (mem_copyDests_cons i j ops)
    rw [run_cons, ih _ (fun k hk hmem => hfresh k hk (copyDests_subset_cons op ops k hmem)), hstep]

/-- the named caller-owned cells of the property, for every call sequence (no side condition:
they belong to no corrector, so no operation creates them) -/
theorem caller_data_untouched_named (sem : Sem) (s : Store) (ops : List Op) (c : Cell)
    (hc : c ∈ [Cell.argXY, .argUV, .argWxy, .argWuv, .argCenter, .invArg, .bfmRot, .bfmScale,
               .hullX, .hullY, .matchRef, .matchIm, .defaultMatcher, .defaultArgs, .moduleState,
               .argMatrix, .argShift, .argMeta, .argList, .refCatalog, .refTpwcs, .refTpwcsMeta,
               .refTpwcsOrig, .refCorrWcs, .refCorrMeta, .refCorrOrig]) :
    (run sem s ops).get c = s.get c := by
  apply caller_data_untouched
  · simp only [List.mem_cons, List.not_mem_nil, or_false] at hc
    rcases hc with h | h | h | h | h | h | h | h | h | h | h | h | h | h | h | h | h | h | h | h
      | h | h | h | h | h | h <;> subst h <;> rfl
  · intro k hk
    simp only [List.mem_cons, List.not_mem_nil, or_false] at hc
    rcases hc with h | h | h | h | h | h | h | h | h | h | h | h | h | h | h | h | h | h | h | h
      | h | h | h | h | h | h <;> subst h <;> simp [Cell.owner] at hk

/-- the catalog and the original WCS of corrector `i` survive every sequence of fits,
alignments, corrections and copies *of* `i` (only a copy *onto* `i` would re-create them) -/
theorem catalog_and_original_wcs_untouched (sem : Sem) (s : Store) (ops : List Op) (i : Nat)
    (hi : i ∉ copyDests ops) :
    (run sem s ops).get (.imCatalog i) = s.get (.imCatalog i) ∧
    (run sem s ops).get (.origWcs i) = s.get (.origWcs i) := by
  constructor <;> apply caller_data_untouched <;> first | rfl | (intro k hk; cases hk; exact hi)

/-- **Determinism.**  Equal initial stores and equal call sequences give equal final stores
and equal outputs (the operations are functions of the store). -/
theorem deterministic (sem : Sem) (s s' : Store) (ops ops' : List Op) (hs : s = s')
    (ho : ops = ops') :
    run sem s ops = run sem s' ops' ∧ outputs sem s ops = outputs sem s' ops' := by
  subst hs; subst ho; exact ⟨rfl, rfl⟩

/-- Repeating a call after any sequence of pure calls (empty write set: the fitters, `inv`,
`build_fit_matrix`, `convex_hull`, the matcher) gives the same output and the same new
store, for *any* operation `op` — in particular a pure call repeated gives the same result. -/
theorem pure_repeat (sem : Sem) (s : Store) (mid : List Op) (op : Op)
    (hpure : ∀ o ∈ mid, writeSet o = []) :
    run sem s mid = s ∧ sem.out op (run sem s mid) = sem.out op s ∧
    step sem (run sem s mid) op = step sem s op := by
  have h : run sem s mid = s := by
    induction mid generalizing s with
    | nil => rfl
    | cons o mid ih =>
      rw [run_cons, step_pure sem s o (hpure o (by simp))]
      exact ih s (fun o' ho' => hpure o' (by simp [ho']))
  rw [h]; exact ⟨rfl, rfl, rfl⟩

/-- **No state leaks between calls.**  If the computation looks only at the declared read set
of an operation, then calls in between that declare no write into that read set cannot
influence it: same output, same new contents of every cell it writes. -/
theorem no_leak (sem : Sem) (hsem : sem.Respects) (s : Store) (mid : List Op) (op : Op)
    (hdisj : ∀ c ∈ readSet op, c ∉ mayWrite mid) :
    sem.out op (run sem s mid) = sem.out op s ∧
    ∀ c ∈ writeSet op, (step sem (run sem s mid) op).get c = (step sem s op).get c := by
  have hag : agreeOn (readSet op) (run sem s mid) s :=
    fun c hc => frame_condition sem s mid c (hdisj c hc)
  refine ⟨hsem.out_reads op _ _ hag, ?_⟩
  intro c hc
  rw [get_step, get_step, if_pos hc, if_pos hc]
  cases op with
  | copyCorrector i j =>
    simp only [newVal]
    exact hag _ (by simpa [readSet] using copySrc_mem i j c (by simpa [writeSet] using hc))
  | iterLinearFit | fitShifts | fitRshift | fitRscale | fitGeneral | inv | buildFitMatrix
    | convexHull | xyxyMatch => simp [writeSet] at hc
  | fitWcs i => exact hsem.upd_reads _ _ _ hag c
  | alignWcs is => exact hsem.upd_reads _ _ _ hag c
  | setCorrection i => exact hsem.upd_reads _ _ _ hag c

/-- the executable test `leak mid op = []` (exported by the driver) implies the hypothesis of
`no_leak` -/
theorem leak_nil_iff (mid : List Op) (op : Op) :
    leak mid op = [] ↔ ∀ c ∈ readSet op, c ∉ mayWrite mid := by
  unfold leak
  rw [List.filter_eq_nil_iff]
  constructor
  · intro h c hc hm
    exact h c hc (by simpa using hm)
  · intro h c hc hm
    exact h c hc (by simpa using hm)

/-- **A copy is independent of its source.**  After `j := i.copy()` the new corrector starts
with the contents of `i`; afterwards operations that do not act on `i` (in particular any
operation on `j`) leave every cell of `i` unchanged, and operations that do not act on `j` (in
particular any operation on `i`) leave every cell of `j` as copied. -/
theorem copy_independent (sem : Sem) (s : Store) (i j : Nat) (hij : i ≠ j) (ops : List Op) :
    let s1 := step sem s (.copyCorrector i j)
    (∀ c ∈ allCells j, s1.get c = s.get (copySrc i c)) ∧
    ((∀ op ∈ ops, i ∉ targets op) → ∀ c ∈ allCells i, (run sem s1 ops).get c = s.get c) ∧
    ((∀ op ∈ ops, j ∉ targets op) →
      ∀ c ∈ allCells j, (run sem s1 ops).get c = s.get (copySrc i c)) := by
  intro s1
  have hcopy : ∀ c ∈ allCells j, s1.get c = s.get (copySrc i c) := by
    intro c hc
    show (step sem s (.copyCorrector i j)).get c = _
    rw [get_step, if_pos (by simpa [writeSet] using hc)]
    rfl
  -- a cell of corrector `k` is not written by operations that do not act on `k`
  have hframe : ∀ (k : Nat) (ops : List Op), (∀ op ∈ ops, k ∉ targets op) →
      ∀ c ∈ allCells k, ∀ t : Store, (run sem t ops).get c = t.get c := by
    intro k ops hops c hc t
    apply frame_condition
    intro hmem
    simp only [mayWrite, List.mem_flatMap] at hmem
    obtain ⟨op, hop, hw⟩ := hmem
    obtain ⟨k', hk', hown⟩ := owner_of_mem_writeSet op c hw
    rw [owner_of_mem_allCells k c hc] at hown
    cases hown
    exact hops op hop hk'
  refine ⟨hcopy, ?_, ?_⟩
  · intro hops c hc
    rw [hframe i ops hops c hc s1]
    show (step sem s (.copyCorrector i j)).get c = _
    apply get_step_of_not_mem
    intro hmem
    have h1 := owner_of_mem_allCells i c hc
    have h2 := owner_of_mem_allCells j c (by simpa [writeSet] using hmem)
    rw [h1] at h2
    cases h2
    exact hij rfl
  · intro hops c hc
    rw [hframe j ops hops c hc s1]
    exact hcopy c hc

/-! ## Non-vacuity: concrete stores, sequences and computations -/

/-- a scene with two correctors, arrays, a reference catalog and the default matcher -/
def s0 : Store :=
  [(.argXY, 11), (.argUV, 12), (.argWxy, 13), (.refCatalog, 20), (.refTpwcs, 21),
   (.defaultMatcher, 30), (.imCatalog 0, 40), (.origWcs 0, 41), (.corrWcs 0, 42),
   (.imCatalog 1, 50), (.origWcs 1, 51), (.corrWcs 1, 52)]

def seq0 : List Op :=
  [.iterLinearFit, .fitWcs 0, .alignWcs [0, 1], .setCorrection 1, .copyCorrector 0 2, .fitWcs 2]

-- the sequence does change cells (the theorems are not about a store nobody writes) …
example : (run demoSem s0 seq0).get (.corrWcs 0) ≠ s0.get (.corrWcs 0) := by decide +kernel
example : (run demoSem s0 seq0).get (.fitInfo 1) ≠ s0.get (.fitInfo 1) := by decide +kernel
-- … and leaves the caller's data alone (instances of the hypotheses of the theorems)
example : Cell.origWcs 0 ∉ mayWrite seq0 := by decide +kernel
example : Cell.refCatalog ∉ mayWrite seq0 := by decide +kernel
example : (0 : Nat) ∉ copyDests seq0 ∧ (1 : Nat) ∉ copyDests seq0 := by decide +kernel
example : (run demoSem s0 seq0).get (.origWcs 0) = 41 ∧ (run demoSem s0 seq0).get (.imCatalog 1) = 50
    ∧ (run demoSem s0 seq0).get .argXY = 11 ∧ (run demoSem s0 seq0).get .defaultMatcher = 30 := by
  decide +kernel
-- the copy starts as its source and the later fit of the copy does not touch the source
example : (run demoSem s0 [.copyCorrector 0 2]).get (.corrWcs 2) = 42 := by decide +kernel
example : (run demoSem s0 [.copyCorrector 0 2, .fitWcs 2]).get (.corrWcs 0) = 42 ∧
    (run demoSem s0 [.copyCorrector 0 2, .fitWcs 2]).get (.corrWcs 2) ≠ 42 := by decide +kernel
example : ∀ op ∈ [Op.fitWcs 2, .setCorrection 2, .alignWcs [2, 1]], (0 : Nat) ∉ targets op := by
  decide +kernel
-- a computation that respects the read sets exists, and a leak is detected when there is one
example : demoSem.Respects := demoSem_respects
example : leak [.xyxyMatch, .alignWcs [1], .iterLinearFit] (.alignWcs [0]) = [] := by decide +kernel
example : leak [.fitWcs 0] (.alignWcs [0, 1]) = [.corrWcs 0, .corrMeta 0, .fitInfo 0] := by
  decide +kernel
example : ∀ o ∈ [Op.iterLinearFit, .inv, .xyxyMatch, .convexHull], writeSet o = [] := by
  decide +kernel

end TW.C19
