import Proofs.LstsqLemmas
import Mathlib.LinearAlgebra.Matrix.ToLinearEquiv
import Mathlib.LinearAlgebra.Matrix.Nondegenerate
import Mathlib.Data.Finset.Card
import Mathlib.Data.Fintype.Prod
import Mathlib.Tactic.NormNum

/-!
Helper lemmas (property C12): the concrete least-squares model `lstsqNormal` / `lstsqMinNorm` in
terms of the six coefficients `QCoef`, the design rows `designRow` of `_find_peak`, grids of full
column rank.
-/
open TW TW.Hist
set_option linter.unusedSectionVars false
set_option linter.unusedVariables false

deriving instance DecidableEq for TW.QCoef

namespace TW.Lstsq
variable {K : Type} [Field K] [LinearOrder K] [IsStrictOrderedRing K]

/-! ### coefficient vectors -/

/-- the coefficients in the order of the columns of the design matrix: `1, x, y, xy, x², y²` -/
def vecOf (c : QCoef K) : Fin 6 → K :=
  fun i => [c.c00, c.c10, c.c01, c.c11, c.c20, c.c02].getD i.val 0

/-- `row · c` for a design row (missing entries count as 0) -/
def rowDot (r : List K) (c : QCoef K) : K :=
  r.getD 0 0 * c.c00 + r.getD 1 0 * c.c10 + r.getD 2 0 * c.c01 + r.getD 3 0 * c.c11
    + r.getD 4 0 * c.c20 + r.getD 5 0 * c.c02

/-- `‖A c − b‖²` -/
def resid2 (rows : List (List K)) (d : List K) (c : QCoef K) : K :=
  ((rows.zip d).map fun p => (rowDot p.1 c - p.2) ^ 2).sum

/-- `‖c‖²` -/
def norm2 (c : QCoef K) : K :=
  c.c00 ^ 2 + c.c10 ^ 2 + c.c01 ^ 2 + c.c11 ^ 2 + c.c20 ^ 2 + c.c02 ^ 2

/-- the coefficients as a `QCoef` -/
def coefFn (v : Fin 6 → K) : QCoef K := ⟨v 0, v 1, v 2, v 3, v 4, v 5⟩

theorem vecOf_coefFn (v : Fin 6 → K) : vecOf (coefFn v) = v := by
  funext i
  fin_cases i <;> simp [vecOf, coefFn]

theorem coefFn_vecOf (c : QCoef K) : coefFn (vecOf c) = c := by
  cases c; simp [vecOf, coefFn]

theorem coefOf_eq (x : Vector K 6) : coefOf x = coefFn (fun i => vget x i) := rfl

theorem dotF_vecOf (r : List K) (c : QCoef K) :
    dotF (fun i : Fin 6 => r.getD i.val 0) (vecOf c) = rowDot r c := by
  unfold dotF rowDot vecOf
  rw [Fin.sum_univ_six]
  simp

theorem sum_sq_vecOf (c : QCoef K) : ∑ i, vecOf c i * vecOf c i = norm2 c := by
  unfold vecOf norm2
  rw [Fin.sum_univ_six]
  simp; ring

theorem ssr_gramList (rows : List (List K)) (d : List K) (c : QCoef K) :
    ssr (gramList 6 rows d) (vecOf c) = resid2 rows d c := by
  unfold ssr resid2 gramList
  induction rows generalizing d with
  | nil => simp
  | cons r rs ih =>
    cases d with
    | nil => simp
    | cons y ys =>
      simp only [List.zipWith_cons_cons, List.zip_cons_cons, List.map_cons, List.sum_cons, ih ys,
        dotF_vecOf]
      ring

/-! ### regular normal matrices -/

theorem regular_inj {n : ℕ} (a : Mat n K) (hdet : (toM a).det ≠ 0) (v : Fin n → K)
    (hv : ∀ i, ∑ j, a.get i j * v j = 0) : v = 0 := by
  apply Matrix.eq_zero_of_mulVec_eq_zero hdet
  funext i
  simpa [Matrix.mulVec, dotProduct] using hv i

theorem regular_of_inj {n : ℕ} (a : Mat n K)
    (h : ∀ v : Fin n → K, (∀ i, ∑ j, a.get i j * v j = 0) → v = 0) : (toM a).det ≠ 0 := by
  intro hdet
  obtain ⟨v, hv0, hv⟩ := Matrix.exists_mulVec_eq_zero_iff.mpr hdet
  apply hv0
  apply h
  intro i
  have := congrFun hv i
  simpa [Matrix.mulVec, dotProduct] using this

/-! ### `lstsqNormal` -/

theorem lstsqSolve_zero (rows : List (List K)) (d : List K) :
    lstsqSolve 0 rows d = solvePSD 6 0 (gramRows 6 rows) (rhsRows 6 rows d) := by
  unfold lstsqSolve
  simp only [zero_mul]

/-- the vector found by `lstsqSolve` satisfies the normal equations, whatever the rank -/
theorem lstsqSolve_normal (rows : List (List K)) (d : List K) (hlen : d.length = rows.length) (i : Fin 6) :
    ∑ j, (gramRows 6 rows).get i j * vget (lstsqSolve 0 rows d).2 j = vget (rhsRows 6 rows d) i := by
  rw [lstsqSolve_zero]
  exact solvePSD_sound 6 _ _ _ (isGram_rows 6 rows d hlen) i

theorem lstsqNormal_eq_some (rows : List (List K)) (d : List K) (c : QCoef K)
    (h : lstsqNormal 0 rows d = some c) :
    (lstsqSolve 0 rows d).1 = 6 ∧ c = coefOf (lstsqSolve 0 rows d).2 := by
  unfold lstsqNormal at h
  simp only at h
  split at h
  · next h6 => exact ⟨h6, by injection h with h; exact h.symm⟩
  · cases h

theorem lstsqNormal_of_rank (rows : List (List K)) (d : List K)
    (h : (lstsqSolve 0 rows d).1 = 6) :
    lstsqNormal 0 rows d = some (coefOf (lstsqSolve 0 rows d).2) := by
  unfold lstsqNormal
  simp only
  rw [if_pos h]

theorem lstsqNormal_none_of_rank (rows : List (List K)) (d : List K)
    (h : (lstsqSolve 0 rows d).1 ≠ 6) : lstsqNormal 0 rows d = none := by
  unfold lstsqNormal
  simp only
  rw [if_neg h]

/-- normal equations in coefficient form -/
theorem lstsqNormal_normal (rows : List (List K)) (d : List K) (hlen : d.length = rows.length)
    (c : QCoef K) (h : lstsqNormal 0 rows d = some c) (i : Fin 6) :
    ∑ j, (gramRows 6 rows).get i j * vecOf c j = vget (rhsRows 6 rows d) i := by
  obtain ⟨_, rfl⟩ := lstsqNormal_eq_some rows d c h
  rw [coefOf_eq, vecOf_coefFn]
  exact lstsqSolve_normal rows d hlen i

theorem lstsqNormal_optimal (rows : List (List K)) (d : List K) (hlen : d.length = rows.length)
    (c : QCoef K) (h : lstsqNormal 0 rows d = some c) (c' : QCoef K) :
    resid2 rows d c ≤ resid2 rows d c' := by
  rw [← ssr_gramList, ← ssr_gramList]
  exact normal_optimal (isGram_rows 6 rows d hlen) (vecOf c)
    (lstsqNormal_normal rows d hlen c h) (vecOf c')

/-- the rank found by the elimination is 6 exactly when the normal matrix is regular -/
theorem rank_six_iff (rows : List (List K)) (d : List K) (hlen : d.length = rows.length) :
    (lstsqSolve 0 rows d).1 = 6 ↔ (toM (gramRows 6 rows)).det ≠ 0 := by
  rw [lstsqSolve_zero]
  constructor
  · intro h
    exact regular_of_inj _ (solvePSD_regular_of_rank 6 _ _ _ (isGram_rows 6 rows d hlen) h)
  · intro h
    exact solvePSD_rank_full 6 _ _ _ (isGram_rows 6 rows d hlen) (regular_inj _ h)

/-- exact data: `G c0 = Aᵀ (A c0)` -/
theorem gram_exact (rows : List (List K)) (c0 : QCoef K) (i : Fin 6) :
    ∑ j, (gramRows 6 rows).get i j * vecOf c0 j
      = vget (rhsRows 6 rows (rows.map fun r => rowDot r c0)) i := by
  have hlen : (rows.map fun r => rowDot r c0).length = rows.length := by simp
  have hG := isGram_rows 6 rows (rows.map fun r => rowDot r c0) hlen
  have := gram_grad hG (vecOf c0) i
  have hz : ((gramList 6 rows (rows.map fun r => rowDot r c0)).map fun q =>
      q.1 i * (dotF q.1 (vecOf c0) - q.2)).sum = 0 := by
    apply List.sum_eq_zero
    intro x hx
    obtain ⟨q, hq, rfl⟩ := List.mem_map.mp hx
    have : q.2 = dotF q.1 (vecOf c0) := by
      unfold gramList at hq
      rw [List.zipWith_map_right] at hq
      simp only [List.zipWith_self, List.mem_map] at hq
      obtain ⟨r, _, rfl⟩ := hq
      simp only
      rw [dotF_vecOf]
    rw [this, sub_self, mul_zero]
  rw [hz] at this
  linear_combination -this

theorem lstsqNormal_exact' (rows : List (List K)) (c0 : QCoef K)
    (hreg : (toM (gramRows 6 rows)).det ≠ 0) :
    lstsqNormal 0 rows (rows.map fun r => rowDot r c0) = some c0 := by
  have hlen : (rows.map fun r => rowDot r c0).length = rows.length := by simp
  have hrank := (rank_six_iff rows _ hlen).mpr hreg
  rw [lstsqNormal_of_rank rows _ hrank]
  have hdiff : (fun i => vget (lstsqSolve 0 rows (rows.map fun r => rowDot r c0)).2 i - vecOf c0 i) = 0 := by
    apply regular_inj _ hreg
    intro i
    have h1 := lstsqSolve_normal rows _ hlen i
    have h2 := gram_exact rows c0 i
    simp only [mul_sub, Finset.sum_sub_distrib]
    rw [h1, h2, sub_self]
  have hx : (fun i => vget (lstsqSolve 0 rows (rows.map fun r => rowDot r c0)).2 i) = vecOf c0 := by
    funext i
    have := congrFun hdiff i
    simp only [Pi.zero_apply] at this
    linear_combination this
  rw [coefOf_eq, hx, coefFn_vecOf]

/-! ### `lstsqMinNorm` -/

theorem gram_symm (rows : List (List K)) (i j : Fin 6) :
    (gramRows 6 rows).get i j = (gramRows 6 rows).get j i := by
  simp only [gramRows, Mat.get_ofFn]
  congr 1
  apply List.map_congr_left
  intro r _
  ring

/-- `G c = Aᵀ b` for `c = minNormOf G c₁` when `G c₁ = Aᵀ b` -/
theorem minNormOf_spec (rows : List (List K)) (c1 : Vector K 6) :
    (∀ i, ∑ j, (gramRows 6 rows).get i j * vget (minNormOf 0 (gramRows 6 rows) c1) j
        = ∑ j, (gramRows 6 rows).get i j * vget c1 j) ∧
    (∀ v : Fin 6 → K, (∀ i, ∑ j, (gramRows 6 rows).get i j * v j = 0) →
        ∑ i, v i * vget (minNormOf 0 (gramRows 6 rows) c1) i = 0) := by
  set g := gramRows 6 rows with hg
  -- the second system: Gram system of the rows of `G` with data `c₁`
  set g2 : Mat 6 K := Mat.ofFn fun i j => sumFin fun t => g.get t i * g.get t j with hg2
  set b2 : Vector K 6 := Vector.ofFn fun i => sumFin fun t => g.get t i * vget c1 t with hb2
  have hgram : IsGram ((List.finRange 6).map fun t : Fin 6 => ((fun i => g.get t i), vget c1 t))
      (fun i j => g2.get i j) (fun i => vget b2 i) := by
    constructor
    · intro i j
      simp only [hg2, Mat.get_ofFn, sumFin_eq, List.map_map, Function.comp_def, Fin.sum_univ_def]
    · intro i
      simp only [hb2, vget_ofFn, sumFin_eq, List.map_map, Function.comp_def, Fin.sum_univ_def]
  have hw := solvePSD_sound 6 _ g2 b2 hgram
  set w := (solvePSD 6 0 g2 b2).2 with hwdef
  have hmn : minNormOf 0 g c1 = Vector.ofFn fun i => sumFin fun j => g.get i j * vget w j := by
    unfold minNormOf
    simp only [zero_mul]
    rfl
  have h2 : ∀ i, ∑ k, (∑ t, g.get t i * g.get t k) * vget w k = ∑ t, g.get t i * vget c1 t := by
    intro i
    have := hw i
    simp only [hg2, hb2, Mat.get_ofFn, vget_ofFn, sumFin_eq] at this
    exact this
  constructor
  · intro i
    rw [hmn]
    simp only [vget_ofFn, sumFin_eq]
    exact minNorm_sound (fun i j => g.get i j) (gram_symm rows) (fun j => vget c1 j)
      (fun i => ∑ j, g.get i j * vget c1 j) (fun j => vget w j) (fun _ => rfl) h2 i
  · intro v hv
    rw [hmn]
    simp only [vget_ofFn, sumFin_eq]
    exact minNorm_orth (fun i j => g.get i j) (gram_symm rows) (fun j => vget w j) v hv

/-- the vector of coefficients returned by `lstsqMinNorm` -/
theorem lstsqMinNorm_cases (rows : List (List K)) (d : List K) :
    (lstsqSolve 0 rows d).1 = 6 ∧ lstsqMinNorm 0 rows d = coefOf (lstsqSolve 0 rows d).2 ∨
    (lstsqSolve 0 rows d).1 ≠ 6 ∧
      lstsqMinNorm 0 rows d = coefOf (minNormOf 0 (gramRows 6 rows) (lstsqSolve 0 rows d).2) := by
  unfold lstsqMinNorm
  simp only
  by_cases h : (lstsqSolve 0 rows d).1 = 6
  · left; exact ⟨h, by rw [if_pos h]⟩
  · right; exact ⟨h, by rw [if_neg h]⟩

/-- `lstsqMinNorm` satisfies the normal equations -/
theorem lstsqMinNorm_normal (rows : List (List K)) (d : List K) (hlen : d.length = rows.length)
    (i : Fin 6) :
    ∑ j, (gramRows 6 rows).get i j * vecOf (lstsqMinNorm 0 rows d) j = vget (rhsRows 6 rows d) i := by
  rcases lstsqMinNorm_cases rows d with ⟨_, h⟩ | ⟨_, h⟩
  · rw [h, coefOf_eq, vecOf_coefFn]; exact lstsqSolve_normal rows d hlen i
  · rw [h, coefOf_eq, vecOf_coefFn, (minNormOf_spec rows _).1 i]
    exact lstsqSolve_normal rows d hlen i

/-- `lstsqMinNorm` is orthogonal to the kernel of the normal matrix -/
theorem lstsqMinNorm_orth (rows : List (List K)) (d : List K) (hlen : d.length = rows.length)
    (v : Fin 6 → K) (hv : ∀ i, ∑ j, (gramRows 6 rows).get i j * v j = 0) :
    ∑ i, v i * vecOf (lstsqMinNorm 0 rows d) i = 0 := by
  rcases lstsqMinNorm_cases rows d with ⟨hr, h⟩ | ⟨_, h⟩
  · have hreg := (rank_six_iff rows d hlen).mp hr
    have := regular_inj _ hreg v hv
    rw [this]; simp
  · rw [h, coefOf_eq, vecOf_coefFn]
    exact (minNormOf_spec rows _).2 v hv

theorem lstsqMinNorm_optimal (rows : List (List K)) (d : List K) (hlen : d.length = rows.length)
    (c' : QCoef K) : resid2 rows d (lstsqMinNorm 0 rows d) ≤ resid2 rows d c' := by
  rw [← ssr_gramList, ← ssr_gramList]
  exact normal_optimal (isGram_rows 6 rows d hlen) _ (lstsqMinNorm_normal rows d hlen) (vecOf c')

theorem lstsqMinNorm_diff_orth (rows : List (List K)) (d : List K) (hlen : d.length = rows.length)
    (c' : QCoef K) (hopt : resid2 rows d c' ≤ resid2 rows d (lstsqMinNorm 0 rows d)) :
    ∑ i, (vecOf c' i - vecOf (lstsqMinNorm 0 rows d) i) * vecOf (lstsqMinNorm 0 rows d) i = 0 := by
  rw [← ssr_gramList, ← ssr_gramList] at hopt
  have hker := optimal_diff_kernel (isGram_rows 6 rows d hlen) _ (lstsqMinNorm_normal rows d hlen)
    (vecOf c') hopt
  exact lstsqMinNorm_orth rows d hlen _ hker

theorem lstsqMinNorm_min (rows : List (List K)) (d : List K) (hlen : d.length = rows.length)
    (c' : QCoef K) (hopt : resid2 rows d c' ≤ resid2 rows d (lstsqMinNorm 0 rows d)) :
    norm2 (lstsqMinNorm 0 rows d) ≤ norm2 c' := by
  rw [← sum_sq_vecOf, ← sum_sq_vecOf]
  exact norm_le_of_orth _ _ (lstsqMinNorm_diff_orth rows d hlen c' hopt)

theorem lstsqMinNorm_uniq (rows : List (List K)) (d : List K) (hlen : d.length = rows.length)
    (c' : QCoef K) (hopt : resid2 rows d c' ≤ resid2 rows d (lstsqMinNorm 0 rows d))
    (hnorm : norm2 c' ≤ norm2 (lstsqMinNorm 0 rows d)) : c' = lstsqMinNorm 0 rows d := by
  have horth := lstsqMinNorm_diff_orth rows d hlen c' hopt
  rw [← sum_sq_vecOf, ← sum_sq_vecOf] at hnorm
  set c := lstsqMinNorm 0 rows d
  have hid : ∑ i, vecOf c' i * vecOf c' i = ∑ i, vecOf c i * vecOf c i
      + 2 * ∑ i, (vecOf c' i - vecOf c i) * vecOf c i
      + ∑ i, (vecOf c' i - vecOf c i) * (vecOf c' i - vecOf c i) := by
    rw [Finset.mul_sum, ← Finset.sum_add_distrib, ← Finset.sum_add_distrib]
    apply Finset.sum_congr rfl
    intro i _; ring
  rw [horth] at hid
  have hnn : ∀ i ∈ Finset.univ, 0 ≤ (vecOf c' i - vecOf c i) * (vecOf c' i - vecOf c i) :=
    fun i _ => mul_self_nonneg _
  have hz : ∑ i, (vecOf c' i - vecOf c i) * (vecOf c' i - vecOf c i) = 0 := by
    have := Finset.sum_nonneg hnn
    linarith
  have hall := (Finset.sum_eq_zero_iff_of_nonneg hnn).mp hz
  have hv : vecOf c' = vecOf c := by
    funext i
    have := mul_self_eq_zero.mp (hall i (Finset.mem_univ i))
    linarith
  rw [← coefFn_vecOf c', hv, coefFn_vecOf]

theorem lstsqMinNorm_of_normal (rows : List (List K)) (d : List K) (c : QCoef K)
    (h : lstsqNormal 0 rows d = some c) : lstsqMinNorm 0 rows d = c := by
  obtain ⟨h6, rfl⟩ := lstsqNormal_eq_some rows d c h
  unfold lstsqMinNorm
  simp only
  rw [if_pos h6]

end TW.Lstsq
