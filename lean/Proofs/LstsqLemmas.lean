import Proofs.C12PeakLemmas
import Model.Lstsq
import Mathlib.Algebra.BigOperators.Fin
import Mathlib.Algebra.BigOperators.Ring.Finset
import Mathlib.Algebra.BigOperators.Field
import Mathlib.Logic.Equiv.Basic
import Mathlib.Tactic.LinearCombination
import Mathlib.Tactic.FieldSimp

/-!
Helper lemmas for the concrete least-squares model `Model/Lstsq.lean` (property C12):
the elimination `solvePSD` on normal equations (soundness, rank), optimality of solutions of the
normal equations, the minimum-norm solution.
-/
open TW TW.Hist
set_option linter.unusedSectionVars false
set_option linter.unusedVariables false

namespace TW.Lstsq
variable {K : Type} [Field K] [LinearOrder K] [IsStrictOrderedRing K]

/-! ### sums -/

theorem sumFin_eq {n : ℕ} (f : Fin n → K) : sumFin f = ∑ i, f i := by
  unfold sumFin
  have : ∀ (l : List (Fin n)) (z : K),
      l.foldl (fun acc i => acc + f i) z = z + (l.map f).sum := by
    intro l
    induction l with
    | nil => intro z; simp
    | cons x xs ih => intro z; simp [ih, add_assoc]
  rw [this]
  simp [zeroK_eq, Fin.sum_univ_def]

@[simp] theorem vget_ofFn {n : ℕ} (f : Fin n → K) (i : Fin n) : vget (Vector.ofFn f) i = f i := by
  simp [vget]

/-! ### normal equations of a list of (row, datum) -/

/-- `a`, `b` are the normal equations `(Σ r rᵀ) x = Σ y r` of the list `L` of (row, datum) -/
def IsGram {n : ℕ} (L : List ((Fin n → K) × K)) (a : Fin n → Fin n → K) (b : Fin n → K) : Prop :=
  (∀ i j, a i j = (L.map fun q => q.1 i * q.1 j).sum) ∧ (∀ i, b i = (L.map fun q => q.1 i * q.2).sum)

theorem IsGram.symm {n : ℕ} {L : List ((Fin n → K) × K)} {a : Fin n → Fin n → K} {b : Fin n → K}
    (h : IsGram L a b) (i j : Fin n) : a i j = a j i := by
  rw [h.1 i j, h.1 j i]
  congr 1
  apply List.map_congr_left
  intro q _
  ring

/-- a zero diagonal entry of a Gram matrix: the corresponding component of every row is zero -/
theorem IsGram.comp_zero {n : ℕ} {L : List ((Fin n → K) × K)} {a : Fin n → Fin n → K}
    {b : Fin n → K} (h : IsGram L a b) (i : Fin n) (hi : a i i = 0) : ∀ q ∈ L, q.1 i = 0 := by
  rw [h.1 i i] at hi
  exact sum_sq_zero L (fun q => q.1 i) hi

theorem IsGram.row_zero {n : ℕ} {L : List ((Fin n → K) × K)} {a : Fin n → Fin n → K}
    {b : Fin n → K} (h : IsGram L a b) (i : Fin n) (hi : a i i = 0) :
    (∀ j, a i j = 0) ∧ b i = 0 := by
  have hz := h.comp_zero i hi
  constructor
  · intro j
    rw [h.1 i j]
    apply List.sum_eq_zero
    intro x hx
    obtain ⟨q, hq, rfl⟩ := List.mem_map.mp hx
    rw [hz q hq, zero_mul]
  · rw [h.2 i]
    apply List.sum_eq_zero
    intro x hx
    obtain ⟨q, hq, rfl⟩ := List.mem_map.mp hx
    rw [hz q hq, zero_mul]

theorem gram_schur_sum {α : Type} (L : List α) (f f' g : α → K) (al al' : K) :
    (L.map fun q => (f q - al * g q) * (f' q - al' * g q)).sum
      = (L.map fun q => f q * f' q).sum - al' * (L.map fun q => f q * g q).sum
        - al * (L.map fun q => g q * f' q).sum + al * al' * (L.map fun q => g q * g q).sum := by
  induction L with
  | nil => simp
  | cons x xs ih => simp only [List.map_cons, List.sum_cons, ih]; ring

theorem gram_schur_rhs {α : Type} (L : List α) (f g d : α → K) (al : K) :
    (L.map fun q => (f q - al * g q) * d q).sum
      = (L.map fun q => f q * d q).sum - al * (L.map fun q => g q * d q).sum := by
  induction L with
  | nil => simp
  | cons x xs ih => simp only [List.map_cons, List.sum_cons, ih]; ring

/-- the rows of the Schur complement: component `s (i+1)` minus its projection on component `p` -/
def schurRows {n : ℕ} (L : List ((Fin (n + 1) → K) × K)) (a : Fin (n + 1) → Fin (n + 1) → K)
    (p : Fin (n + 1)) : List ((Fin n → K) × K) :=
  L.map fun q => (fun i : Fin n => q.1 (Equiv.swap 0 p i.succ)
    - a (Equiv.swap 0 p i.succ) p / a p p * q.1 p, q.2)

/-- the Schur complement of a Gram system is the Gram system of the reduced rows -/
theorem IsGram.schur {n : ℕ} {L : List ((Fin (n + 1) → K) × K)} {a : Fin (n + 1) → Fin (n + 1) → K}
    {b : Fin (n + 1) → K} (h : IsGram L a b) (p : Fin (n + 1)) (hp : a p p ≠ 0) :
    IsGram (schurRows L a p)
      (fun i j : Fin n => a (Equiv.swap 0 p i.succ) (Equiv.swap 0 p j.succ)
        - a (Equiv.swap 0 p i.succ) p * a p (Equiv.swap 0 p j.succ) / a p p)
      (fun i : Fin n => b (Equiv.swap 0 p i.succ) - a (Equiv.swap 0 p i.succ) p * b p / a p p) := by
  constructor
  · intro i j
    unfold schurRows
    rw [List.map_map]
    simp only [Function.comp_def]
    rw [gram_schur_sum L (fun q => q.1 (Equiv.swap 0 p i.succ)) (fun q => q.1 (Equiv.swap 0 p j.succ))
      (fun q => q.1 p)]
    rw [← h.1, ← h.1, ← h.1, ← h.1, h.symm (Equiv.swap 0 p j.succ) p]
    field_simp
    ring
  · intro i
    unfold schurRows
    rw [List.map_map]
    simp only [Function.comp_def]
    rw [gram_schur_rhs L (fun q => q.1 (Equiv.swap 0 p i.succ)) (fun q => q.1 p) (fun q => q.2)]
    rw [← h.2, ← h.2]
    field_simp

/-! ### one elimination step, upwards and downwards -/

/-- a solution of the Schur complement system extends to a solution of the system -/
theorem schur_lift {n : ℕ} (A : Fin (n + 1) → Fin (n + 1) → K) (p : Fin (n + 1)) (hp : A p p ≠ 0)
    (B : Fin (n + 1) → K) (x' : Fin n → K)
    (h : ∀ i : Fin n, ∑ j : Fin n,
        (A (Equiv.swap 0 p i.succ) (Equiv.swap 0 p j.succ)
          - A (Equiv.swap 0 p i.succ) p * A p (Equiv.swap 0 p j.succ) / A p p) * x' j
        = B (Equiv.swap 0 p i.succ) - A (Equiv.swap 0 p i.succ) p * B p / A p p)
    (x0 : K) (hx0 : x0 = (B p - ∑ j : Fin n, A p (Equiv.swap 0 p j.succ) * x' j) / A p p) :
    ∀ i, ∑ j, A i j * (Fin.cases x0 x' (Equiv.swap 0 p j) : K) = B i := by
  set s := Equiv.swap (0 : Fin (n + 1)) p with hs
  have hs0 : s 0 = p := by simp [hs]
  have key : ∀ i, ∑ j, A i j * (Fin.cases x0 x' (s j) : K)
      = A i p * x0 + ∑ j : Fin n, A i (s j.succ) * x' j := by
    intro i
    rw [← Equiv.sum_comp s]
    simp only [hs, Equiv.swap_apply_self]
    rw [Fin.sum_univ_succ]
    simp only [Fin.cases_zero, Fin.cases_succ]
    rw [← hs, hs0]
  intro i
  rw [key]
  obtain ⟨i', rfl⟩ : ∃ i', i = s i' := ⟨s i, by simp [hs]⟩
  refine Fin.cases ?_ (fun k => ?_) i'
  · rw [hs0, hx0]
    field_simp
    ring
  · have hk := h k
    have hsplit : ∑ j : Fin n, (A (s k.succ) (s j.succ) - A (s k.succ) p * A p (s j.succ) / A p p) * x' j
        = ∑ j : Fin n, A (s k.succ) (s j.succ) * x' j
          - A (s k.succ) p / A p p * ∑ j : Fin n, A p (s j.succ) * x' j := by
      rw [Finset.mul_sum, ← Finset.sum_sub_distrib]
      apply Finset.sum_congr rfl
      intro j _
      field_simp
    rw [hsplit] at hk
    rw [hx0]
    have : ∑ j : Fin n, A (s k.succ) (s j.succ) * x' j
        = B (s k.succ) - A (s k.succ) p * B p / A p p
          + A (s k.succ) p / A p p * ∑ j : Fin n, A p (s j.succ) * x' j := by
      linear_combination hk
    rw [this]
    field_simp
    ring

/-- a kernel vector of the system restricts to a kernel vector of the Schur complement -/
theorem schur_down {n : ℕ} (A : Fin (n + 1) → Fin (n + 1) → K) (p : Fin (n + 1)) (hp : A p p ≠ 0)
    (v : Fin (n + 1) → K) (hv : ∀ i, ∑ j, A i j * v j = 0) :
    ∀ i : Fin n, ∑ j : Fin n,
        (A (Equiv.swap 0 p i.succ) (Equiv.swap 0 p j.succ)
          - A (Equiv.swap 0 p i.succ) p * A p (Equiv.swap 0 p j.succ) / A p p)
          * v (Equiv.swap 0 p j.succ) = 0 := by
  set s := Equiv.swap (0 : Fin (n + 1)) p with hs
  have hs0 : s 0 = p := by simp [hs]
  have key : ∀ i, ∑ j, A i j * v j = A i p * v p + ∑ j : Fin n, A i (s j.succ) * v (s j.succ) := by
    intro i
    rw [← Equiv.sum_comp s, Fin.sum_univ_succ, hs0]
  intro i
  have h1 := hv (s i.succ)
  have h2 := hv p
  rw [key] at h1 h2
  have hsplit : ∑ j : Fin n, (A (s i.succ) (s j.succ) - A (s i.succ) p * A p (s j.succ) / A p p)
        * v (s j.succ)
      = ∑ j : Fin n, A (s i.succ) (s j.succ) * v (s j.succ)
        - A (s i.succ) p / A p p * ∑ j : Fin n, A p (s j.succ) * v (s j.succ) := by
    rw [Finset.mul_sum, ← Finset.sum_sub_distrib]
    apply Finset.sum_congr rfl
    intro j _
    field_simp
  rw [hsplit]
  have e1 : ∑ j : Fin n, A (s i.succ) (s j.succ) * v (s j.succ) = - (A (s i.succ) p * v p) := by
    linear_combination h1
  have e2 : ∑ j : Fin n, A p (s j.succ) * v (s j.succ) = - (A p p * v p) := by
    linear_combination h2
  rw [e1, e2]
  field_simp
  ring

/-! ### the elimination `solvePSD` -/

/-- the pivot chosen by `solvePSD` -/
def pivotOf {n : ℕ} (a : Mat (n + 1) K) : Fin (n + 1) :=
  argmaxBy (fun i => absK (a.get i i)) 0 (List.finRange (n + 1))

theorem pivotOf_max {n : ℕ} (a : Mat (n + 1) K) (i : Fin (n + 1)) :
    |a.get i i| ≤ |a.get (pivotOf a) (pivotOf a)| := by
  have := argmaxBy_max (fun i => absK (a.get i i)) 0 (List.finRange (n + 1)) i
    (List.mem_cons_of_mem _ (List.mem_finRange i))
  simpa [absK_eq, pivotOf] using this

/-- the two branches of one step of `solvePSD` -/
theorem solvePSD_zero_branch {n : ℕ} (a : Mat (n + 1) K) (b : Vector K (n + 1))
    (hz : a.get (pivotOf a) (pivotOf a) = 0) :
    solvePSD (n + 1) 0 a b = (0, Vector.ofFn fun _ => zeroK) := by
  rw [solvePSD]
  simp only
  rw [if_pos]
  rw [leK_iff, absK_eq]
  have : a.get (pivotOf a) (pivotOf a) = 0 := hz
  unfold pivotOf at this
  rw [this]; simp

/-- Schur complement and reduced right-hand side, as in `solvePSD` -/
def schurMat {n : ℕ} (a : Mat (n + 1) K) : Mat n K :=
  let p := pivotOf a
  Mat.ofFn fun i j => a.get (swapIdx 0 p i.succ) (swapIdx 0 p j.succ)
    - a.get (swapIdx 0 p i.succ) p * a.get p (swapIdx 0 p j.succ) / a.get p p

def schurVec {n : ℕ} (a : Mat (n + 1) K) (b : Vector K (n + 1)) : Vector K n :=
  let p := pivotOf a
  Vector.ofFn fun i => vget b (swapIdx 0 p i.succ) - a.get (swapIdx 0 p i.succ) p * vget b p / a.get p p

theorem solvePSD_step_branch {n : ℕ} (a : Mat (n + 1) K) (b : Vector K (n + 1))
    (hz : a.get (pivotOf a) (pivotOf a) ≠ 0) :
    solvePSD (n + 1) 0 a b =
      ((solvePSD n 0 (schurMat a) (schurVec a b)).1 + 1,
       Vector.ofFn fun i => vget (Vector.ofFn fun i : Fin (n + 1) =>
         (Fin.cases ((vget b (pivotOf a) - sumFin fun j : Fin n =>
              a.get (pivotOf a) (swapIdx 0 (pivotOf a) j.succ)
                * vget (solvePSD n 0 (schurMat a) (schurVec a b)).2 j) / a.get (pivotOf a) (pivotOf a))
            (fun j => vget (solvePSD n 0 (schurMat a) (schurVec a b)).2 j) i : K))
         (swapIdx 0 (pivotOf a) i)) := by
  rw [solvePSD]
  simp only
  rw [if_neg]
  · rfl
  · rw [leK_iff, absK_eq]
    intro hle
    apply hz
    have : |a.get (pivotOf a) (pivotOf a)| = 0 := le_antisymm (by simpa [pivotOf] using hle) (abs_nonneg _)
    exact abs_eq_zero.mp this

/-- **soundness of `solvePSD` on normal equations**: whatever the rank, the vector returned solves
the system (the unknowns of the zero block are free and are set to 0) -/
theorem solvePSD_sound : ∀ (n : ℕ) (L : List ((Fin n → K) × K)) (a : Mat n K) (b : Vector K n),
    IsGram L (fun i j => a.get i j) (fun i => vget b i) →
    ∀ i, ∑ j, a.get i j * vget (solvePSD n 0 a b).2 j = vget b i := by
  intro n
  induction n with
  | zero => intro L a b _ i; exact i.elim0
  | succ n ih =>
    intro L a b h i
    by_cases hz : a.get (pivotOf a) (pivotOf a) = 0
    · rw [solvePSD_zero_branch a b hz]
      have hdiag : a.get i i = 0 := by
        have := pivotOf_max a i
        rw [hz, abs_zero] at this
        exact abs_eq_zero.mp (le_antisymm this (abs_nonneg _))
      obtain ⟨hrow, hb⟩ := h.row_zero i hdiag
      rw [hb]
      apply Finset.sum_eq_zero
      intro j _
      rw [hrow j, zero_mul]
    · rw [solvePSD_step_branch a b hz]
      simp only [vget_ofFn, swapIdx_eq]
      have hG := h.schur (pivotOf a) hz
      have hih := ih (schurRows L (fun i j => a.get i j) (pivotOf a)) (schurMat a) (schurVec a b) (by
        unfold schurMat schurVec
        simp only [Mat.get_ofFn, vget_ofFn, swapIdx_eq]
        exact hG)
      refine schur_lift (fun i j => a.get i j) (pivotOf a) hz (fun i => vget b i)
        (fun j => vget (solvePSD n 0 (schurMat a) (schurVec a b)).2 j) ?_ _ ?_ i
      · intro k
        have := hih k
        unfold schurMat schurVec at this
        simp only [Mat.get_ofFn, vget_ofFn, swapIdx_eq] at this
        unfold schurMat schurVec
        simp only [swapIdx_eq]
        exact this
      · rw [sumFin_eq]

/-- regular normal equations have full rank in `solvePSD` -/
theorem solvePSD_rank_full : ∀ (n : ℕ) (L : List ((Fin n → K) × K)) (a : Mat n K) (b : Vector K n),
    IsGram L (fun i j => a.get i j) (fun i => vget b i) →
    (∀ v : Fin n → K, (∀ i, ∑ j, a.get i j * v j = 0) → v = 0) →
    (solvePSD n 0 a b).1 = n := by
  intro n
  induction n with
  | zero => intro L a b _ _; rfl
  | succ n ih =>
    intro L a b h hinj
    by_cases hz : a.get (pivotOf a) (pivotOf a) = 0
    · exfalso
      have hall : ∀ i j, a.get i j = 0 := by
        intro i j
        have hdiag : a.get i i = 0 := by
          have := pivotOf_max a i
          rw [hz, abs_zero] at this
          exact abs_eq_zero.mp (le_antisymm this (abs_nonneg _))
        exact (h.row_zero i hdiag).1 j
      have := hinj (fun _ => 1) (by intro i; simp [hall])
      have h1 := congrFun this 0
      simp at h1
    · rw [solvePSD_step_branch a b hz]
      simp only [Nat.add_right_cancel_iff]
      have hG := h.schur (pivotOf a) hz
      apply ih (schurRows L (fun i j => a.get i j) (pivotOf a)) (schurMat a) (schurVec a b) (by
        unfold schurMat schurVec
        simp only [Mat.get_ofFn, vget_ofFn, swapIdx_eq]
        exact hG)
      intro v' hv'
      -- lift the kernel vector of the Schur complement to a kernel vector of `a`
      have hlift := schur_lift (fun i j => a.get i j) (pivotOf a) hz (fun _ => 0) v' (by
        intro k
        have := hv' k
        unfold schurMat at this
        simp only [Mat.get_ofFn, swapIdx_eq] at this
        simp only [mul_zero, zero_div, sub_zero]
        exact this) _ rfl
      have hzero := hinj _ hlift
      funext j
      have := congrFun hzero (Equiv.swap 0 (pivotOf a) j.succ)
      simpa using this

/-- conversely, full rank in `solvePSD` means the system is regular -/
theorem solvePSD_regular_of_rank : ∀ (n : ℕ) (L : List ((Fin n → K) × K)) (a : Mat n K)
    (b : Vector K n), IsGram L (fun i j => a.get i j) (fun i => vget b i) →
    (solvePSD n 0 a b).1 = n →
    ∀ v : Fin n → K, (∀ i, ∑ j, a.get i j * v j = 0) → v = 0 := by
  intro n
  induction n with
  | zero => intro L a b _ _ v _; funext i; exact i.elim0
  | succ n ih =>
    intro L a b h hrank v hv
    by_cases hz : a.get (pivotOf a) (pivotOf a) = 0
    · rw [solvePSD_zero_branch a b hz] at hrank
      simp at hrank
    · rw [solvePSD_step_branch a b hz] at hrank
      simp only [Nat.add_right_cancel_iff] at hrank
      have hG := h.schur (pivotOf a) hz
      have hdown := schur_down (fun i j => a.get i j) (pivotOf a) hz v hv
      have hv' := ih (schurRows L (fun i j => a.get i j) (pivotOf a)) (schurMat a) (schurVec a b) (by
        unfold schurMat schurVec
        simp only [Mat.get_ofFn, vget_ofFn, swapIdx_eq]
        exact hG) hrank (fun j => v (Equiv.swap 0 (pivotOf a) j.succ)) (by
          intro k
          have := hdown k
          unfold schurMat
          simp only [Mat.get_ofFn, swapIdx_eq]
          exact this)
      -- all components other than the pivot vanish; the pivot row gives the last one
      have hrest : ∀ j : Fin n, v (Equiv.swap 0 (pivotOf a) j.succ) = 0 := fun j => congrFun hv' j
      have hp := hv (pivotOf a)
      rw [← Equiv.sum_comp (Equiv.swap 0 (pivotOf a)), Fin.sum_univ_succ] at hp
      simp only [Equiv.swap_apply_left, hrest, mul_zero, Finset.sum_const_zero, add_zero] at hp
      have hvp : v (pivotOf a) = 0 := by
        rcases mul_eq_zero.mp hp with h0 | h0
        · exact absurd h0 hz
        · exact h0
      funext i
      obtain ⟨i', rfl⟩ : ∃ i', i = Equiv.swap 0 (pivotOf a) i' :=
        ⟨Equiv.swap 0 (pivotOf a) i, by simp⟩
      refine Fin.cases ?_ (fun k => ?_) i'
      · simpa using hvp
      · exact hrest k

/-! ### the normal equations of a design matrix given by rows -/

/-- the (row, datum) list of the design rows `rows` and the data `d` -/
def gramList (n : ℕ) (rows : List (List K)) (d : List K) : List ((Fin n → K) × K) :=
  List.zipWith (fun r y => (fun i : Fin n => r.getD i.val 0, y)) rows d

theorem gramList_sum_rows (n : ℕ) (G : (Fin n → K) → K) :
    ∀ (rows : List (List K)) (d : List K), d.length = rows.length →
      ((gramList n rows d).map fun q => G q.1).sum
        = (rows.map fun r => G (fun i : Fin n => r.getD i.val 0)).sum := by
  intro rows
  induction rows with
  | nil => intro d _; simp [gramList]
  | cons r rs ih =>
    intro d hd
    cases d with
    | nil => simp at hd
    | cons y ys =>
      have := ih ys (by simpa using hd)
      simp only [gramList, List.zipWith_cons_cons, List.map_cons, List.sum_cons] at this ⊢
      rw [this]

theorem gramList_sum_dot (n : ℕ) (i : Fin n) :
    ∀ (rows : List (List K)) (d : List K),
      ((gramList n rows d).map fun q => q.1 i * q.2).sum
        = dotL (rows.map fun r => r.getD i.val zeroK) d := by
  intro rows
  induction rows with
  | nil => intro d; simp [gramList, dotL, sumL]
  | cons r rs ih =>
    intro d
    cases d with
    | nil => simp [gramList, dotL, sumL]
    | cons y ys =>
      have := ih ys
      simp only [gramList, dotL, List.zipWith_cons_cons, List.map_cons, List.sum_cons, sumL] at this ⊢
      rw [this]; simp

theorem isGram_rows (n : ℕ) (rows : List (List K)) (d : List K) (hlen : d.length = rows.length) :
    IsGram (gramList n rows d) (fun i j => (gramRows n rows).get i j)
      (fun i => vget (rhsRows n rows d) i) := by
  constructor
  · intro i j
    rw [gramList_sum_rows n (fun v => v i * v j) rows d hlen]
    simp [gramRows, sumL_eq_sum]
  · intro i
    rw [gramList_sum_dot]
    simp [rhsRows]

/-! ### solutions of the normal equations are the least-squares optima -/

def dotF {n : ℕ} (r c : Fin n → K) : K := ∑ i, r i * c i

/-- sum of squared residuals -/
def ssr {n : ℕ} (L : List ((Fin n → K) × K)) (c : Fin n → K) : K :=
  (L.map fun q => (dotF q.1 c - q.2) * (dotF q.1 c - q.2)).sum

theorem dotF_sub {n : ℕ} (r c c' : Fin n → K) :
    dotF r (fun i => c' i - c i) = dotF r c' - dotF r c := by
  unfold dotF
  rw [← Finset.sum_sub_distrib]
  apply Finset.sum_congr rfl
  intro i _; ring

theorem ssr_expand {n : ℕ} (L : List ((Fin n → K) × K)) (c c' : Fin n → K) :
    ssr L c' = ssr L c
      + 2 * ∑ i, (c' i - c i) * (L.map fun q => q.1 i * (dotF q.1 c - q.2)).sum
      + (L.map fun q => dotF q.1 (fun i => c' i - c i) * dotF q.1 (fun i => c' i - c i)).sum := by
  induction L with
  | nil => simp [ssr]
  | cons q qs ih =>
    simp only [ssr, List.map_cons, List.sum_cons] at ih ⊢
    rw [ih]
    have hsum : ∑ i, (c' i - c i) * (q.1 i * (dotF q.1 c - q.2)
          + (qs.map fun q => q.1 i * (dotF q.1 c - q.2)).sum)
        = dotF q.1 (fun i => c' i - c i) * (dotF q.1 c - q.2)
          + ∑ i, (c' i - c i) * (qs.map fun q => q.1 i * (dotF q.1 c - q.2)).sum := by
      unfold dotF
      rw [Finset.sum_mul, ← Finset.sum_add_distrib]
      apply Finset.sum_congr rfl
      intro i _; ring
    rw [hsum, dotF_sub]
    ring

theorem gram_apply {n : ℕ} (L : List ((Fin n → K) × K)) (v : Fin n → K) (i : Fin n) :
    ∑ j, (L.map fun q => q.1 i * q.1 j).sum * v j = (L.map fun q => q.1 i * dotF q.1 v).sum := by
  induction L with
  | nil => simp
  | cons q qs ih =>
    simp only [List.map_cons, List.sum_cons]
    rw [← ih]
    unfold dotF
    rw [Finset.mul_sum, ← Finset.sum_add_distrib]
    apply Finset.sum_congr rfl
    intro j _; ring

theorem gram_grad {n : ℕ} {L : List ((Fin n → K) × K)} {a : Fin n → Fin n → K} {b : Fin n → K}
    (h : IsGram L a b) (c : Fin n → K) (i : Fin n) :
    (L.map fun q => q.1 i * (dotF q.1 c - q.2)).sum = ∑ j, a i j * c j - b i := by
  have h1 : ∑ j, a i j * c j = (L.map fun q => q.1 i * dotF q.1 c).sum := by
    rw [← gram_apply]
    apply Finset.sum_congr rfl
    intro j _; rw [h.1 i j]
  rw [h1, h.2 i]
  clear h1 h
  induction L with
  | nil => simp
  | cons q qs ih => simp only [List.map_cons, List.sum_cons, ih]; ring

/-- normal equations ⇒ global minimum of the sum of squared residuals -/
theorem normal_optimal {n : ℕ} {L : List ((Fin n → K) × K)} {a : Fin n → Fin n → K}
    {b : Fin n → K} (h : IsGram L a b) (c : Fin n → K) (hc : ∀ i, ∑ j, a i j * c j = b i)
    (c' : Fin n → K) : ssr L c ≤ ssr L c' := by
  rw [ssr_expand L c c']
  have hg : ∑ i, (c' i - c i) * (L.map fun q => q.1 i * (dotF q.1 c - q.2)).sum = 0 := by
    apply Finset.sum_eq_zero
    intro i _
    rw [gram_grad h, hc i, sub_self, mul_zero]
  have hq : 0 ≤ (L.map fun q => dotF q.1 (fun i => c' i - c i)
      * dotF q.1 (fun i => c' i - c i)).sum :=
    wsum_nonneg L _ (fun q _ => mul_self_nonneg _)
  rw [hg]; linarith

/-- another optimum differs from a solution of the normal equations by a kernel vector -/
theorem optimal_diff_kernel {n : ℕ} {L : List ((Fin n → K) × K)} {a : Fin n → Fin n → K}
    {b : Fin n → K} (h : IsGram L a b) (c : Fin n → K) (hc : ∀ i, ∑ j, a i j * c j = b i)
    (c' : Fin n → K) (hopt : ssr L c' ≤ ssr L c) :
    ∀ i, ∑ j, a i j * (c' j - c j) = 0 := by
  rw [ssr_expand L c c'] at hopt
  have hg : ∑ i, (c' i - c i) * (L.map fun q => q.1 i * (dotF q.1 c - q.2)).sum = 0 := by
    apply Finset.sum_eq_zero
    intro i _
    rw [gram_grad h, hc i, sub_self, mul_zero]
  have hq : 0 ≤ (L.map fun q => dotF q.1 (fun i => c' i - c i)
      * dotF q.1 (fun i => c' i - c i)).sum :=
    wsum_nonneg L _ (fun q _ => mul_self_nonneg _)
  rw [hg] at hopt
  have hq0 : (L.map fun q => dotF q.1 (fun i => c' i - c i)
      * dotF q.1 (fun i => c' i - c i)).sum = 0 := by linarith
  have hz := sum_sq_zero L (fun q => dotF q.1 (fun i => c' i - c i)) hq0
  intro i
  have : ∑ j, a i j * (c' j - c j)
      = (L.map fun q => q.1 i * dotF q.1 (fun i => c' i - c i)).sum := by
    rw [← gram_apply]
    apply Finset.sum_congr rfl
    intro j _; rw [h.1 i j]
  rw [this]
  apply List.sum_eq_zero
  intro x hx
  obtain ⟨q, hq, rfl⟩ := List.mem_map.mp hx
  rw [hz q hq, mul_zero]

/-! ### the minimum-norm solution -/

/-- `c = G w` with `GᵀG w = Gᵀ c₁` and `G c₁ = r` solves `G c = r` (`G` symmetric) -/
theorem minNorm_sound {n : ℕ} (g : Fin n → Fin n → K) (hsym : ∀ i j, g i j = g j i)
    (c1 r w : Fin n → K) (h1 : ∀ i, ∑ j, g i j * c1 j = r i)
    (h2 : ∀ i, ∑ k, (∑ t, g t i * g t k) * w k = ∑ t, g t i * c1 t) :
    ∀ i, ∑ j, g i j * (∑ k, g j k * w k) = r i := by
  intro i
  rw [← h1 i]
  have : ∑ t, g t i * c1 t = ∑ j, g i j * c1 j := by
    apply Finset.sum_congr rfl
    intro j _; rw [hsym]
  rw [← this, ← h2 i]
  simp only [Finset.mul_sum, Finset.sum_mul]
  rw [Finset.sum_comm]
  apply Finset.sum_congr rfl
  intro k _
  apply Finset.sum_congr rfl
  intro j _
  rw [hsym i j]; ring

/-- `G w` is orthogonal to the kernel of the symmetric `G` -/
theorem minNorm_orth {n : ℕ} (g : Fin n → Fin n → K) (hsym : ∀ i j, g i j = g j i)
    (w v : Fin n → K) (hv : ∀ i, ∑ j, g i j * v j = 0) :
    ∑ i, v i * (∑ k, g i k * w k) = 0 := by
  have : ∑ i, v i * (∑ k, g i k * w k) = ∑ k, (∑ i, g k i * v i) * w k := by
    simp only [Finset.mul_sum, Finset.sum_mul]
    rw [Finset.sum_comm]
    apply Finset.sum_congr rfl
    intro k _
    apply Finset.sum_congr rfl
    intro i _
    rw [hsym k i]; ring
  rw [this]
  apply Finset.sum_eq_zero
  intro k _
  rw [hv k, zero_mul]

/-- a vector orthogonal to `δ` is not longer than its sum with `δ` -/
theorem norm_le_of_orth {n : ℕ} (c c' : Fin n → K) (h : ∑ i, (c' i - c i) * c i = 0) :
    ∑ i, c i * c i ≤ ∑ i, c' i * c' i := by
  have : ∑ i, c' i * c' i = ∑ i, c i * c i + 2 * ∑ i, (c' i - c i) * c i
      + ∑ i, (c' i - c i) * (c' i - c i) := by
    rw [Finset.mul_sum, ← Finset.sum_add_distrib, ← Finset.sum_add_distrib]
    apply Finset.sum_congr rfl
    intro i _; ring
  rw [this, h]
  have : 0 ≤ ∑ i, (c' i - c i) * (c' i - c i) := Finset.sum_nonneg (fun i _ => mul_self_nonneg _)
  linarith

end TW.Lstsq
