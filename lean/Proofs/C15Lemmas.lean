import Model.Overlap
import Mathlib.Order.Defs.LinearOrder
import Mathlib.Tactic.Common
import Mathlib.Data.List.Basic
import Mathlib.Data.List.Perm.Basic
/-!
Helper lemmas for C15 (`Proofs/C15.lean`): first-maximum scan, row-major indexing of a square
matrix given as a list of rows, `pop`/`np.delete` as `eraseIdx`, the stable insertion sort.
-/
set_option linter.unusedSimpArgs false
set_option linter.unusedSectionVars false
open TW
namespace TW.C15L
section argmax
variable {K : Type} [LinearOrder K]

/-- `r` is the index of the first maximum of `l` -/
def IsFirstMax (l : List K) (r : Nat) : Prop :=
  ∃ v, l[r]? = some v ∧ (∀ (p : Nat) w, l[p]? = some w → w ≤ v) ∧ (∀ (p : Nat) w, p < r → l[p]? = some w → w < v)

theorem argmaxAux_spec (xs : List K) (k bi : Nat) (bv : K) :
    (argmaxAux xs k bi bv = bi ∧ ∀ x ∈ xs, x ≤ bv) ∨
    (∃ q v, xs[q]? = some v ∧ argmaxAux xs k bi bv = k + q ∧ bv < v ∧ (∀ x ∈ xs, x ≤ v) ∧
      ∀ p w, p < q → xs[p]? = some w → w < v) := by
  induction xs generalizing k bi bv with
  | nil => left; simp [argmaxAux]
  | cons x xs ih =>
    unfold argmaxAux
    split
    · next hlt =>
      right
      rcases ih (k + 1) k x with ⟨h1, h2⟩ | ⟨q, v, hq, hr, hv, hall, hfirst⟩
      · refine ⟨0, x, by simp, by simpa using h1, hlt, ?_, ?_⟩
        · intro y hy
          rcases List.mem_cons.mp hy with rfl | hy
          · exact le_refl _
          · exact h2 y hy
        · intro p w hp; omega
      · refine ⟨q + 1, v, by simpa using hq, by rw [hr]; omega, lt_trans hlt hv, ?_, ?_⟩
        · intro y hy
          rcases List.mem_cons.mp hy with rfl | hy
          · exact le_of_lt hv
          · exact hall y hy
        · intro p w hp hw
          cases p with
          | zero => simp at hw; subst hw; exact hv
          | succ p => exact hfirst p w (by omega) (by simpa using hw)
    · next hnlt =>
      have hle : x ≤ bv := not_lt.mp hnlt
      rcases ih (k + 1) bi bv with ⟨h1, h2⟩ | ⟨q, v, hq, hr, hv, hall, hfirst⟩
      · left
        refine ⟨h1, ?_⟩
        intro y hy
        rcases List.mem_cons.mp hy with rfl | hy
        · exact hle
        · exact h2 y hy
      · right
        refine ⟨q + 1, v, by simpa using hq, by rw [hr]; omega, hv, ?_, ?_⟩
        · intro y hy
          rcases List.mem_cons.mp hy with rfl | hy
          · exact le_trans hle (le_of_lt hv)
          · exact hall y hy
        · intro p w hp hw
          cases p with
          | zero => simp at hw; subst hw; exact lt_of_le_of_lt hle hv
          | succ p => exact hfirst p w (by omega) (by simpa using hw)

theorem argmaxFirst_spec (l : List K) (hl : l ≠ []) : IsFirstMax l (argmaxFirst l) := by
  cases l with
  | nil => exact absurd rfl hl
  | cons x xs =>
    show IsFirstMax (x :: xs) (argmaxAux xs 1 0 x)
    rcases argmaxAux_spec xs 1 0 x with ⟨h1, h2⟩ | ⟨q, v, hq, hr, hv, hall, hfirst⟩
    · rw [h1]
      refine ⟨x, by simp, ?_, ?_⟩
      · intro p w hw
        have := List.mem_of_getElem? hw
        rcases List.mem_cons.mp this with rfl | hy
        · exact le_refl _
        · exact h2 w hy
      · intro p w hp; omega
    · rw [hr]
      refine ⟨v, ?_, ?_, ?_⟩
      · rw [show 1 + q = q + 1 by omega]; simpa using hq
      · intro p w hw
        have := List.mem_of_getElem? hw
        rcases List.mem_cons.mp this with rfl | hy
        · exact le_of_lt hv
        · exact hall w hy
      · intro p w hp hw
        cases p with
        | zero => simp at hw; subst hw; exact hv
        | succ p => exact hfirst p w (by omega) (by simpa using hw)
end argmax

section flat
variable {K : Type}

theorem flatten_getElem? (n : Nat) (m : List (List K)) (hsq : ∀ r ∈ m, r.length = n) (a b : Nat)
    (hb : b < n) : m.flatten[a * n + b]? = (m.getD a [])[b]? := by
  induction m generalizing a with
  | nil => simp
  | cons r m ih =>
    have hr : r.length = n := hsq r (by simp)
    cases a with
    | zero =>
      simp only [List.flatten_cons, Nat.zero_mul, Nat.zero_add, List.getD_cons_zero]
      rw [List.getElem?_append_left (by omega)]
    | succ a =>
      simp only [List.flatten_cons, List.getD_cons_succ]
      rw [List.getElem?_append_right (by rw [hr, Nat.succ_mul]; omega)]
      rw [hr, show (a + 1) * n + b - n = a * n + b by rw [Nat.succ_mul]; omega]
      exact ih (fun r hr => hsq r (List.mem_cons_of_mem _ hr)) a

theorem flatten_length (n : Nat) (m : List (List K)) (hsq : ∀ r ∈ m, r.length = n) :
    m.flatten.length = m.length * n := by
  induction m with
  | nil => simp
  | cons r m ih =>
    simp only [List.flatten_cons, List.length_append, List.length_cons]
    rw [ih (fun r hr => hsq r (List.mem_cons_of_mem _ hr)), hsq r (by simp), Nat.succ_mul]; omega
end flat


theorem perm_cons_eraseIdx {α : Type} (l : List α) (i : Nat) (x : α) (h : l[i]? = some x) :
    (x :: l.eraseIdx i).Perm l := by
  induction l generalizing i with
  | nil => simp at h
  | cons y l ih =>
    cases i with
    | zero => simp at h; subst h; simp
    | succ i =>
      simp only [List.getElem?_cons_succ] at h
      simp only [List.eraseIdx_cons_succ]
      exact (List.Perm.swap y x _).trans ((ih i h).cons y)

theorem zip_eraseIdx {α β : Type} (l1 : List α) (l2 : List β) (k : Nat) :
    (l1.eraseIdx k).zip (l2.eraseIdx k) = (l1.zip l2).eraseIdx k := by
  induction l1 generalizing l2 k with
  | nil => simp
  | cons a l1 ih =>
    cases l2 with
    | nil => cases k <;> simp
    | cons b l2 =>
      cases k with
      | zero => simp
      | succ k => simp [ih]

section sort
variable {K : Type} [LinearOrder K] {α : Type}

theorem insAsc_perm (x : K × α) (l : List (K × α)) : (insAsc x l).Perm (x :: l) := by
  induction l with
  | nil => simp [insAsc]
  | cons y ys ih =>
    unfold insAsc
    split
    · exact (ih.cons y).trans (List.Perm.swap x y ys)
    · exact List.Perm.refl _

theorem sortAsc_perm (l : List (K × α)) : (sortAsc l).Perm l := by
  induction l with
  | nil => simp [sortAsc]
  | cons x xs ih => unfold sortAsc; exact (insAsc_perm x _).trans (ih.cons x)

theorem insAsc_sorted (x : K × α) (l : List (K × α)) (h : l.Pairwise (fun a b => a.1 ≤ b.1)) :
    (insAsc x l).Pairwise (fun a b => a.1 ≤ b.1) := by
  induction l with
  | nil => simp [insAsc]
  | cons y ys ih =>
    unfold insAsc
    rw [List.pairwise_cons] at h
    split
    · next hlt =>
      rw [List.pairwise_cons]
      refine ⟨?_, ih h.2⟩
      intro z hz
      rcases List.mem_cons.mp ((insAsc_perm x ys).subset hz) with rfl | hz
      · exact le_of_lt hlt
      · exact h.1 z hz
    · next hnlt =>
      have hxy : x.1 ≤ y.1 := not_lt.mp hnlt
      rw [List.pairwise_cons]
      refine ⟨?_, List.pairwise_cons.mpr h⟩
      intro z hz
      rcases List.mem_cons.mp hz with rfl | hz
      · exact hxy
      · exact le_trans hxy (h.1 z hz)

theorem sortAsc_sorted (l : List (K × α)) : (sortAsc l).Pairwise (fun a b => a.1 ≤ b.1) := by
  induction l with
  | nil => simp [sortAsc]
  | cons x xs ih => unfold sortAsc; exact insAsc_sorted x _ ih

/-- the sort is stable: elements with equal keys keep their relative order -/
theorem insAsc_filter (x : K × α) (l : List (K × α)) (c : K)
    (h : l.Pairwise (fun a b => a.1 ≤ b.1)) :
    (insAsc x l).filter (fun p => p.1 == c) = (x :: l).filter (fun p => p.1 == c) := by
  induction l with
  | nil => simp [insAsc]
  | cons y ys ih =>
    unfold insAsc
    rw [List.pairwise_cons] at h
    split
    · next hlt =>
      rw [List.filter_cons, ih h.2]
      by_cases hx : x.1 = c
      · have hy : ¬ y.1 = c := fun hy => by rw [hx, hy] at hlt; exact lt_irrefl _ hlt
        simp [List.filter_cons, hx, hy]
      · simp [List.filter_cons, hx]
    · rfl

theorem sortAsc_stable (l : List (K × α)) (c : K) :
    (sortAsc l).filter (fun p => p.1 == c) = l.filter (fun p => p.1 == c) := by
  induction l with
  | nil => simp [sortAsc]
  | cons x xs ih =>
    unfold sortAsc
    rw [insAsc_filter x _ c (sortAsc_sorted xs), List.filter_cons, List.filter_cons, ih]

theorem sortDesc_perm (row : List K) (images : List α) (hlen : images.length ≤ row.length) :
    (sortDesc row images).Perm images := by
  unfold sortDesc
  have h1 : ((sortAsc (row.zip images)).reverse.map (·.2)).Perm ((row.zip images).map (·.2)) :=
    ((List.reverse_perm _).trans (sortAsc_perm _)).map _
  have h2 : (row.zip images).map (·.2) = images := List.map_snd_zip hlen
  rw [h2] at h1
  exact h1

/-- the keys along `sortDesc` are non-increasing, whenever every pair `(v, a)` of the parallel
lists satisfies `v = key a` -/
theorem sortDesc_sorted (row : List K) (images : List α) (key : α → K)
    (hkey : ∀ p ∈ row.zip images, p.1 = key p.2) :
    (sortDesc row images).Pairwise (fun a b => key b ≤ key a) := by
  unfold sortDesc
  rw [List.pairwise_map]
  have hs := sortAsc_sorted (row.zip images)
  have hr : (sortAsc (row.zip images)).reverse.Pairwise (fun a b => b.1 ≤ a.1) :=
    List.pairwise_reverse.mpr hs
  refine hr.imp_of_mem ?_
  intro a b ha hb hab
  have ha' := hkey a ((sortAsc_perm _).subset (List.mem_reverse.mp ha))
  have hb' := hkey b ((sortAsc_perm _).subset (List.mem_reverse.mp hb))
  rw [← ha', ← hb']; exact hab
end sort
section matrix
variable {K : Type} [LinearOrder K] [Add K] [NatCast K]

/-- a well-formed overlap matrix of order `n`: square, symmetric, zero diagonal, no negative area -/
structure OvMatrix (n : Nat) (m : List (List K)) : Prop where
  rows : m.length = n
  cols : ∀ r ∈ m, r.length = n
  symm : ∀ a b, a < n → b < n → entry m a b = entry m b a
  diag : ∀ a, a < n → entry m a a = zeroK
  nonneg : ∀ a b, a < n → b < n → zeroK ≤ entry m a b

variable {n : Nat} {m : List (List K)}

/-- the same conditions in the bounded-quantifier form that `decide` can evaluate -/
theorem OvMatrix.ofBounded (h1 : m.length = n) (h2 : ∀ r ∈ m, r.length = n)
    (h3 : ∀ a, a < n → ∀ b, b < n → entry m a b = entry m b a)
    (h4 : ∀ a, a < n → entry m a a = zeroK)
    (h5 : ∀ a, a < n → ∀ b, b < n → zeroK ≤ entry m a b) : OvMatrix n m :=
  ⟨h1, h2, fun a b ha hb => h3 a ha b hb, h4, fun a b ha hb => h5 a ha b hb⟩

theorem getD_lt {α : Type} (l : List α) (i : Nat) (d : α) (h : i < l.length) : l.getD i d = l[i] :=
  (List.getElem_eq_getD d).symm

theorem OvMatrix.rowOf_length (hm : OvMatrix n m) {a : Nat} (ha : a < n) : (rowOf m a).length = n := by
  unfold rowOf
  have : a < m.length := by rw [hm.rows]; exact ha
  rw [getD_lt _ _ _ this]
  exact hm.cols _ (List.getElem_mem _)

theorem entry_eq_of_getElem? {a b : Nat} {v : K} (h : (rowOf m a)[b]? = some v) : entry m a b = v := by
  unfold entry; unfold rowOf at h
  rw [List.getD_eq_getElem?_getD, h]; rfl

theorem OvMatrix.row_getElem? (hm : OvMatrix n m) {a b : Nat} (ha : a < n) (hb : b < n) :
    (rowOf m a)[b]? = some (entry m a b) := by
  have hl := hm.rowOf_length ha
  have hb' : b < (rowOf m a).length := by rw [hl]; exact hb
  rw [List.getElem?_eq_getElem hb']
  congr 1
  unfold entry rowOf
  unfold rowOf at hb'
  rw [getD_lt _ _ _ hb']

theorem OvMatrix.flat_getElem? (hm : OvMatrix n m) {a b : Nat} (ha : a < n) (hb : b < n) :
    m.flatten[a * n + b]? = some (entry m a b) := by
  rw [flatten_getElem? n m hm.cols a b hb]
  exact hm.row_getElem? ha hb

theorem OvMatrix.colOf_eq_rowOf (hm : OvMatrix n m) {j : Nat} (hj : j < n) : colOf m j = rowOf m j := by
  apply List.ext_getElem?
  intro a
  by_cases ha : a < n
  · rw [hm.row_getElem? hj ha]
    unfold colOf
    have ha' : a < m.length := by rw [hm.rows]; exact ha
    rw [List.getElem?_map, List.getElem?_eq_getElem ha']
    simp only [Option.map_some]
    congr 1
    rw [hm.symm j a hj ha]
    unfold entry
    rw [getD_lt _ _ _ ha']
  · have h1 : (colOf m j).length ≤ a := by unfold colOf; rw [List.length_map, hm.rows]; omega
    have h2 : (rowOf m j).length ≤ a := by rw [hm.rowOf_length hj]; omega
    rw [List.getElem?_eq_none h1, List.getElem?_eq_none h2]

/-- the arg-max of the flattened matrix, decoded -/
theorem OvMatrix.argmax_spec (hm : OvMatrix n m) (hn : 0 < n) :
    let idx := argmaxFirst m.flatten
    idx / n < n ∧ idx % n < n ∧
    (∀ a b, a < n → b < n → entry m a b ≤ entry m (idx / n) (idx % n)) ∧
    (∀ a b, a < n → b < n → a * n + b < idx → entry m a b < entry m (idx / n) (idx % n)) := by
  intro idx
  have hlen : m.flatten.length = n * n := by rw [flatten_length n m hm.cols, hm.rows]
  have hne : m.flatten ≠ [] := by
    intro h; rw [h] at hlen
    have : 0 < n * n := Nat.mul_pos hn hn
    simp at hlen; omega
  obtain ⟨v, hv, hmax, hfirst⟩ := argmaxFirst_spec m.flatten hne
  have hidx : idx < n * n := by
    rw [← hlen]
    by_contra hc
    rw [List.getElem?_eq_none (by omega)] at hv
    exact absurd hv (by simp)
  have hi : idx / n < n := Nat.div_lt_of_lt_mul hidx
  have hj : idx % n < n := Nat.mod_lt _ hn
  have hdec : idx / n * n + idx % n = idx := by rw [Nat.mul_comm]; exact Nat.div_add_mod idx n
  have hv' : v = entry m (idx / n) (idx % n) := by
    have := hm.flat_getElem? hi hj
    rw [hdec] at this
    change m.flatten[idx]? = _ at this
    rw [hv] at this
    exact Option.some.inj this
  refine ⟨hi, hj, ?_, ?_⟩
  · intro a b ha hb
    rw [← hv']
    exact hmax (a * n + b) _ (hm.flat_getElem? ha hb)
  · intro a b ha hb hlt
    rw [← hv']
    exact hfirst (a * n + b) _ hlt (hm.flat_getElem? ha hb)

/-- what `pairIndices` delivers on a well-formed matrix -/
theorem OvMatrix.pairIndices_spec (hm : OvMatrix n m) (hn : 0 < n) :
    ∃ i j, pairIndices n m = (i, j, if i < j then j - 1 else j) ∧ i < n ∧ j < n ∧
      (∀ a b, a < n → b < n → entry m a b ≤ entry m i j) ∧
      ¬ (sumK (rowOf m i) < sumK (rowOf m j)) ∧
      (i = j → i = 0 ∧ ∀ a b, a < n → b < n → entry m a b = zeroK) := by
  obtain ⟨hi, hj, hmax, hfirst⟩ := hm.argmax_spec hn
  set idx := argmaxFirst m.flatten with hidx
  have hdiag : idx / n = idx % n → idx = 0 ∧ ∀ a b, a < n → b < n → entry m a b = zeroK := by
    intro he
    have hz : entry m (idx / n) (idx % n) = zeroK := by rw [← he]; exact hm.diag _ hi
    have hall : ∀ a b, a < n → b < n → entry m a b = zeroK := by
      intro a b ha hb
      have h1 := hmax a b ha hb
      rw [hz] at h1
      exact le_antisymm h1 (hm.nonneg a b ha hb)
    refine ⟨?_, hall⟩
    by_contra hne
    have := hfirst 0 0 hn hn (by omega)
    rw [hz, hall 0 0 hn hn] at this
    exact lt_irrefl _ this
  unfold pairIndices
  simp only [← hidx]
  rw [hm.colOf_eq_rowOf hj]
  by_cases hlt : sumK (rowOf m (idx / n)) < sumK (rowOf m (idx % n))
  · refine ⟨idx % n, idx / n, ?_, hj, hi, ?_, ?_, ?_⟩
    · simp only [hlt, if_true]
    · intro a b ha hb
      rw [hm.symm _ _ hj hi]; exact hmax a b ha hb
    · exact not_lt.mpr (le_of_lt hlt)
    · intro he
      have := hdiag he.symm
      refine ⟨?_, this.2⟩
      rw [this.1]; simp
  · refine ⟨idx / n, idx % n, ?_, hi, hj, hmax, hlt, ?_⟩
    · simp only [hlt, if_false]
    · intro he
      have := hdiag he
      refine ⟨?_, this.2⟩
      rw [this.1]; simp


theorem mem_zip_range {α : Type} (l : List α) (n : Nat) (v : α) (k : Nat)
    (h : (v, k) ∈ l.zip (List.range n)) : l[k]? = some v := by
  obtain ⟨t, ht⟩ := List.mem_iff_getElem?.mp h
  rw [List.getElem?_zip_eq_some] at ht
  obtain ⟨h1, h2⟩ := ht
  simp only at h1 h2
  have : t = k := by
    by_cases htn : t < n
    · rw [List.getElem?_range htn] at h2; exact Option.some.inj h2
    · rw [List.getElem?_eq_none (by simp; omega)] at h2; exact absurd h2 (by simp)
  rw [← this]; exact h1

/-- the matrix branch of `_max_overlap_pair` on a well-formed overlap matrix -/
theorem OvMatrix.pairCore_spec (hm : OvMatrix n m) (hn : 2 ≤ n) (w : Bool) :
    ∃ ref im rest,
      pairCore n m w = .ok { ref := some ref, im := some im, area := some (entry m ref im),
                             rest := rest, warn := w } ∧
      ref < n ∧ im < n ∧ ref ≠ im ∧
      (∀ a b, a < n → b < n → entry m a b ≤ entry m ref im) ∧
      ¬ (sumK (rowOf m ref) < sumK (rowOf m im)) ∧
      (ref :: im :: rest).Perm (List.range n) ∧
      rest.Pairwise (fun a b => entry m ref b ≤ entry m ref a) := by
  obtain ⟨i, j, hij, hi, hj, hmax, htot, hdiag⟩ := hm.pairIndices_spec (by omega)
  -- the second returned image
  obtain ⟨im, him, himn, hne, harea, htot'⟩ :
      ∃ im, ((List.range n).eraseIdx i)[if i < j then j - 1 else j]? = some im ∧ im < n ∧ i ≠ im ∧
        entry m i j = entry m i im ∧ ¬ (sumK (rowOf m i) < sumK (rowOf m im)) := by
    by_cases he : i = j
    · obtain ⟨h0, hz⟩ := hdiag he
      subst he
      subst h0
      refine ⟨1, ?_, by omega, by omega, ?_, ?_⟩
      · rw [List.getElem?_eraseIdx]
        simp only [Nat.lt_irrefl, if_false]
        rw [List.getElem?_range (by omega)]
      · rw [hz 0 0 (by omega) (by omega), hz 0 1 (by omega) (by omega)]
      · have : rowOf m 0 = rowOf m 1 := by
          apply List.ext_getElem?
          intro a
          by_cases ha : a < n
          · rw [hm.row_getElem? (by omega) ha, hm.row_getElem? (by omega) ha,
              hz 0 a (by omega) ha, hz 1 a (by omega) ha]
          · rw [List.getElem?_eq_none (by rw [hm.rowOf_length (by omega)]; omega),
              List.getElem?_eq_none (by rw [hm.rowOf_length (by omega)]; omega)]
        rw [this]; exact lt_irrefl _
    · refine ⟨j, ?_, hj, he, rfl, htot⟩
      rw [List.getElem?_eraseIdx]
      by_cases hlt : i < j
      · simp only [hlt, if_true]
        rw [if_neg (by omega), List.getElem?_range (by omega)]
        congr 1; omega
      · simp only [hlt, if_false]
        rw [if_pos (by omega), List.getElem?_range hj]
  set j' := (if i < j then j - 1 else j) with hj'
  set images2 := ((List.range n).eraseIdx i).eraseIdx j' with himages2
  set row2 := ((rowOf m i).eraseIdx i).eraseIdx j' with hrow2
  refine ⟨i, im, sortDesc row2 images2, ?_, hi, himn, hne, ?_, htot', ?_, ?_⟩
  · unfold pairCore
    rw [hij]
    simp only [List.getElem?_range hi, him, harea]
    rfl
  · intro a b ha hb
    rw [← harea]; exact hmax a b ha hb
  · have hj'lt : j' < ((List.range n).eraseIdx i).length := by
      by_contra hc
      rw [List.getElem?_eq_none (by omega)] at him
      exact absurd him (by simp)
    have hlen1 : ((List.range n).eraseIdx i).length = n - 1 := by
      rw [List.length_eraseIdx, List.length_range, if_pos hi]
    have hlenr1 : ((rowOf m i).eraseIdx i).length = n - 1 := by
      rw [List.length_eraseIdx, hm.rowOf_length hi, if_pos hi]
    have hlen : images2.length ≤ row2.length := by
      rw [himages2, hrow2, List.length_eraseIdx (l := (List.range n).eraseIdx i),
        List.length_eraseIdx (l := (rowOf m i).eraseIdx i), hlen1, hlenr1]
      exact Nat.le_refl _
    have h1 : (sortDesc row2 images2).Perm images2 := sortDesc_perm row2 images2 hlen
    have h2 : (im :: images2).Perm ((List.range n).eraseIdx i) := perm_cons_eraseIdx _ _ _ him
    have h3 : (i :: (List.range n).eraseIdx i).Perm (List.range n) :=
      perm_cons_eraseIdx _ _ _ (List.getElem?_range hi)
    exact (((h1.cons im).trans h2).cons i).trans h3
  · apply sortDesc_sorted row2 images2 (fun a => entry m i a)
    intro p hp
    rw [hrow2, himages2, zip_eraseIdx, zip_eraseIdx] at hp
    have hp' := List.mem_of_mem_eraseIdx (List.mem_of_mem_eraseIdx hp)
    have := mem_zip_range (rowOf m i) n p.1 p.2 hp'
    exact (entry_eq_of_getElem? this).symm
end matrix
section raw
variable {K : Type} [LinearOrder K] [Add K] [NatCast K]


theorem entry_overlapMatrix (n : Nat) (g : List (List (K × Nat))) {a b : Nat} (ha : a < n) (hb : b < n) :
    entry (overlapMatrix n g) a b =
      if a < b then (gentry g a b).1 else if b < a then (gentry g b a).1 else zeroK := by
  unfold entry overlapMatrix
  simp [List.getD_eq_getElem?_getD, List.getElem?_map, List.getElem?_range, ha, hb]

/-- `overlap_matrix` always produces a square symmetric matrix with zero diagonal; its entries are
non-negative as soon as the guarded areas are (they are absolute values) -/
theorem overlapMatrix_ok (n : Nat) (g : List (List (K × Nat)))
    (hg : ∀ p q, p < q → q < n → zeroK ≤ (gentry g p q).1) : OvMatrix n (overlapMatrix n g) where
  rows := by simp [overlapMatrix]
  cols := by
    intro r hr
    simp only [overlapMatrix, List.mem_map] at hr
    obtain ⟨i, _, rfl⟩ := hr
    simp
  symm := by
    intro a b ha hb
    rw [entry_overlapMatrix n g ha hb, entry_overlapMatrix n g hb ha]
    by_cases h1 : a < b
    · simp [h1, Nat.lt_asymm h1]
    · by_cases h2 : b < a
      · simp [h1, h2]
      · simp [h1, h2]
  diag := by
    intro a ha
    rw [entry_overlapMatrix n g ha ha]; simp
  nonneg := by
    intro a b ha hb
    rw [entry_overlapMatrix n g ha hb]
    by_cases h1 : a < b
    · simp only [h1, if_true]; exact hg a b h1 hb
    · by_cases h2 : b < a
      · simp only [h1, h2, if_true, if_false]; exact hg b a h2 ha
      · simp only [h1, h2, if_false]; exact le_refl _

theorem maxOverlapPair_matrix (n : Nat) (hn : 3 ≤ n) (g : List (List (K × Nat))) :
    maxOverlapPair false n g = pairCore n (overlapMatrix n g) (decide (0 < nMalformed n g)) := by
  unfold maxOverlapPair
  rw [if_neg (by omega), if_neg (by omega), if_neg (by simp; omega)]

theorem maxOverlapPair_user (n : Nat) (hn : 2 ≤ n) (enforce : Bool) (h : n = 2 ∨ enforce = true)
    (g : List (List (K × Nat))) :
    maxOverlapPair enforce n g =
      .ok { ref := some 0, im := some 1, area := some (gentry g 0 1).1,
            rest := ((List.range n).eraseIdx 0).eraseIdx 0, warn := false } := by
  unfold maxOverlapPair
  rw [if_neg (by omega), if_neg (by omega), if_pos h]

theorem range_erase_two (n : Nat) (hn : 2 ≤ n) :
    ((List.range n).eraseIdx 0).eraseIdx 0 = List.range' 2 (n - 2) := by
  obtain ⟨k, rfl⟩ : ∃ k, n = k + 2 := ⟨n - 2, by omega⟩
  rw [List.range_eq_range', show k + 2 = (k + 1) + 1 by omega, List.range'_succ, List.eraseIdx_cons_zero,
    List.range'_succ, List.eraseIdx_cons_zero]
  simp

/-! next image -/
theorem maxOverlapImage_argmax (gl : List (K × Nat)) (hne : gl ≠ []) :
    ∃ r, maxOverlapImage false gl = some r ∧ r.idx < gl.length ∧
      (gl.map (·.1))[r.idx]? = some r.area ∧
      (∀ (k : Nat) v, (gl.map (·.1))[k]? = some v → v ≤ r.area) ∧
      r.rest = (List.range gl.length).eraseIdx r.idx := by
  have hlen : gl.length ≠ 0 := by simpa using hne
  obtain ⟨v, hv, hmax, _⟩ := argmaxFirst_spec (gl.map (·.1)) (by simpa using hne)
  have hidx : argmaxFirst (gl.map (·.1)) < gl.length := by
    by_contra hc
    rw [List.getElem?_eq_none (by simp; omega)] at hv
    exact absurd hv (by simp)
  refine ⟨{ idx := argmaxFirst (gl.map (·.1)),
            area := (gl.map (·.1)).getD (argmaxFirst (gl.map (·.1))) zeroK,
            rest := (List.range gl.length).eraseIdx (argmaxFirst (gl.map (·.1))),
            warn := decide (0 < (gl.map (·.2)).sum) }, ?_, ?_, ?_, ?_, ?_⟩
  · unfold maxOverlapImage
    simp only [hlen, if_false]
    rfl
  · exact hidx
  · simp only
    rw [hv, List.getD_eq_getElem?_getD, hv]; rfl
  · intro k w hw
    simp only
    rw [List.getD_eq_getElem?_getD, hv]
    exact hmax k w hw
  · rfl

theorem maxOverlapImage_user (gl : List (K × Nat)) (hne : gl ≠ []) :
    maxOverlapImage true gl =
      some { idx := 0, area := (gl.getD 0 (zeroK, 0)).1,
             rest := (List.range gl.length).eraseIdx 0, warn := false } := by
  have hlen : gl.length ≠ 0 := by simpa using hne
  unfold maxOverlapImage
  simp only [hlen, if_false, if_true]

theorem eraseIdx_range_eq_filter (n k : Nat) :
    (List.range n).eraseIdx k = (List.range n).filter (fun p => p != k) := by
  induction n with
  | zero => simp
  | succ n ih =>
    rw [List.range_succ, List.filter_append]
    by_cases hk : k < n
    · rw [List.eraseIdx_append_of_lt_length (by simpa using hk), ih]
      have : n ≠ k := by omega
      simp [this]
    · rw [List.eraseIdx_append_of_length_le (by simp; omega)]
      have h1 : (List.range n).filter (fun p => p != k) = List.range n := by
        rw [List.filter_eq_self]; intro a ha; have := List.mem_range.mp ha; simp; omega
      rw [h1]
      by_cases hkn : k = n
      · subst hkn; simp
      · have : ¬ n = k := fun h => hkn h.symm
        simp [this]
        omega
end raw
section groups
variable {G : Type} [DecidableEq G]

theorem mem_membersOf (g : G) (l : List (Option G)) (idx : Nat) :
    idx ∈ membersOf g l ↔ l[idx]? = some (some g) := by
  unfold membersOf
  rw [List.mem_filter, List.mem_range]
  constructor
  · intro h; simpa using h.2
  · intro h
    refine ⟨?_, by simpa using h⟩
    by_contra hc
    rw [List.getElem?_eq_none (by omega)] at h
    exact absurd h (by simp)

theorem membersOf_sorted (g : G) (l : List (Option G)) : (membersOf g l).Pairwise (· < ·) := by
  unfold membersOf
  exact List.Pairwise.filter _ List.pairwise_lt_range

theorem membersOf_nodup (g : G) (l : List (Option G)) : (membersOf g l).Nodup := by
  unfold membersOf
  exact List.Nodup.sublist List.filter_sublist List.nodup_range

/-- the first member of a group is the first position carrying its id -/
theorem membersOf_head (g : G) (l : List (Option G)) (k : Nat) (hk : l[k]? = some (some g))
    (hfirst : ∀ idx, idx < k → l[idx]? ≠ some (some g)) : (membersOf g l).head? = some k := by
  unfold membersOf
  rw [List.head?_filter, List.find?_range_eq_some]
  refine ⟨by simpa using hk, ?_, ?_⟩
  · rw [List.mem_range]
    by_contra hc
    rw [List.getElem?_eq_none (by omega)] at hk
    exact absurd hk (by simp)
  · intro j hj
    have := hfirst j hj
    simpa using this

/-- invariant of the group-formation loop at position `k` (`t` = images still to be visited,
`seen` = group ids already popped from the dictionary) -/
structure GoInv (all t : List (Option G)) (k : Nat) (seen : List G) : Prop where
  drop : all.drop k = t
  seen_of : ∀ idx g, idx < k → all[idx]? = some (some g) → g ∈ seen

theorem GoInv.head {all t : List (Option G)} {k : Nat} {seen : List G} {x : Option G}
    (h : GoInv all (x :: t) k seen) : all[k]? = some x := by
  have := h.drop
  have h2 : (all.drop k)[0]? = some x := by rw [this]; rfl
  rw [List.getElem?_drop] at h2
  simpa using h2

theorem GoInv.next_none {all t : List (Option G)} {k : Nat} {seen : List G}
    (h : GoInv all (none :: t) k seen) : GoInv all t (k + 1) seen where
  drop := by
    have := h.drop
    rw [← List.drop_drop, this]; rfl
  seen_of := by
    intro idx g hidx hg
    by_cases hlt : idx < k
    · exact h.seen_of idx g hlt hg
    · have : idx = k := by omega
      subst this
      rw [h.head] at hg
      exact absurd hg (by simp)

theorem GoInv.next_seen {all t : List (Option G)} {k : Nat} {seen : List G} {g : G}
    (h : GoInv all (some g :: t) k seen) (hg : g ∈ seen) : GoInv all t (k + 1) seen where
  drop := by
    have := h.drop
    rw [← List.drop_drop, this]; rfl
  seen_of := by
    intro idx g' hidx hg'
    by_cases hlt : idx < k
    · exact h.seen_of idx g' hlt hg'
    · have : idx = k := by omega
      subst this
      rw [h.head] at hg'
      have : g = g' := by simpa using hg'
      subst this; exact hg

theorem GoInv.next_new {all t : List (Option G)} {k : Nat} {seen : List G} {g : G}
    (h : GoInv all (some g :: t) k seen) : GoInv all t (k + 1) (g :: seen) where
  drop := by
    have := h.drop
    rw [← List.drop_drop, this]; rfl
  seen_of := by
    intro idx g' hidx hg'
    by_cases hlt : idx < k
    · exact List.mem_cons_of_mem _ (h.seen_of idx g' hlt hg')
    · have : idx = k := by omega
      subst this
      rw [h.head] at hg'
      have : g = g' := by simpa using hg'
      subst this; exact List.mem_cons_self

/-- every group produced from position `k` on is either an ungrouped image at a position `≥ k`
or the full member list of a group id not seen before -/
theorem go_groups {all : List (Option G)} (t : List (Option G)) (k : Nat) (seen : List G)
    (h : GoInv all t k seen) :
    ∀ gr ∈ formGroupsGo all t k seen,
      (∃ idx, k ≤ idx ∧ gr = [idx] ∧ all[idx]? = some none) ∨
      (∃ g, g ∉ seen ∧ gr = membersOf g all ∧ ∃ idx, k ≤ idx ∧ all[idx]? = some (some g)) := by
  induction t generalizing k seen with
  | nil => intro gr hgr; simp [formGroupsGo] at hgr
  | cons x t ih =>
    intro gr hgr
    cases x with
    | none =>
      simp only [formGroupsGo, List.mem_cons] at hgr
      rcases hgr with rfl | hgr
      · exact Or.inl ⟨k, Nat.le_refl _, rfl, h.head⟩
      · rcases ih (k + 1) seen h.next_none gr hgr with ⟨idx, h1, h2, h3⟩ | ⟨g, h1, h2, idx, h3, h4⟩
        · exact Or.inl ⟨idx, by omega, h2, h3⟩
        · exact Or.inr ⟨g, h1, h2, idx, by omega, h4⟩
    | some g =>
      simp only [formGroupsGo] at hgr
      split at hgr
      · next hs =>
        rcases ih (k + 1) seen (h.next_seen hs) gr hgr with ⟨idx, h1, h2, h3⟩ | ⟨g', h1, h2, idx, h3, h4⟩
        · exact Or.inl ⟨idx, by omega, h2, h3⟩
        · exact Or.inr ⟨g', h1, h2, idx, by omega, h4⟩
      · next hs =>
        rcases List.mem_cons.mp hgr with rfl | hgr
        · exact Or.inr ⟨g, hs, rfl, k, Nat.le_refl _, h.head⟩
        · rcases ih (k + 1) (g :: seen) h.next_new gr hgr with ⟨idx, h1, h2, h3⟩ | ⟨g', h1, h2, idx, h3, h4⟩
          · exact Or.inl ⟨idx, by omega, h2, h3⟩
          · exact Or.inr ⟨g', fun hc => h1 (List.mem_cons_of_mem _ hc), h2, idx, by omega, h4⟩

/-- heads of the produced groups: strictly increasing positions `≥ k` -/
theorem go_heads {all : List (Option G)} (t : List (Option G)) (k : Nat) (seen : List G)
    (h : GoInv all t k seen) :
    ((formGroupsGo all t k seen).map (·.head?)).Pairwise (fun a b => ∃ x y, a = some x ∧ b = some y ∧ x < y) ∧
    ∀ gr ∈ formGroupsGo all t k seen, ∃ x, gr.head? = some x ∧ k ≤ x := by
  induction t generalizing k seen with
  | nil => simp [formGroupsGo]
  | cons x t ih =>
    have step : ∀ (gr : List Nat) (R : List (List Nat)), gr.head? = some k →
        ((R.map (·.head?)).Pairwise (fun a b => ∃ x y, a = some x ∧ b = some y ∧ x < y) ∧
          ∀ gr ∈ R, ∃ x, gr.head? = some x ∧ k + 1 ≤ x) →
        (((gr :: R).map (·.head?)).Pairwise (fun a b => ∃ x y, a = some x ∧ b = some y ∧ x < y) ∧
          ∀ gr' ∈ gr :: R, ∃ x, gr'.head? = some x ∧ k ≤ x) := by
      intro gr R hgr ⟨h1, h2⟩
      refine ⟨?_, ?_⟩
      · rw [List.map_cons, List.pairwise_cons]
        refine ⟨?_, h1⟩
        intro b hb
        obtain ⟨gr', hgr', rfl⟩ := List.mem_map.mp hb
        obtain ⟨x, hx, hkx⟩ := h2 gr' hgr'
        exact ⟨k, x, hgr, hx, by omega⟩
      · intro gr' hgr'
        rcases List.mem_cons.mp hgr' with rfl | hgr'
        · exact ⟨k, hgr, Nat.le_refl _⟩
        · obtain ⟨x, hx, hkx⟩ := h2 gr' hgr'
          exact ⟨x, hx, by omega⟩
    cases x with
    | none =>
      simp only [formGroupsGo]
      exact step [k] _ rfl (ih (k + 1) seen h.next_none)
    | some g =>
      simp only [formGroupsGo]
      split
      · next hs =>
        obtain ⟨h1, h2⟩ := ih (k + 1) seen (h.next_seen hs)
        refine ⟨h1, ?_⟩
        intro gr hgr
        obtain ⟨x, hx, hkx⟩ := h2 gr hgr
        exact ⟨x, hx, by omega⟩
      · next hs =>
        refine step (membersOf g all) _ ?_ (ih (k + 1) (g :: seen) h.next_new)
        apply membersOf_head g all k h.head
        intro idx hidx hc
        exact hs (h.seen_of idx g hidx hc)

/-- which positions are covered by the groups produced from position `k` on -/
theorem go_mem {all : List (Option G)} (t : List (Option G)) (k : Nat) (seen : List G)
    (h : GoInv all t k seen) (idx : Nat) :
    idx ∈ (formGroupsGo all t k seen).flatten ↔
      (k ≤ idx ∧ all[idx]? = some none) ∨ (∃ g, all[idx]? = some (some g) ∧ g ∉ seen) := by
  induction t generalizing k seen with
  | nil =>
    simp only [formGroupsGo, List.flatten_nil, List.not_mem_nil, false_iff]
    have hlen : all.length ≤ k := by
      have := h.drop
      rw [List.drop_eq_nil_iff] at this; exact this
    rintro (⟨h1, h2⟩ | ⟨g, h1, h2⟩)
    · rw [List.getElem?_eq_none (by omega)] at h2; exact absurd h2 (by simp)
    · by_cases hlt : idx < k
      · exact h2 (h.seen_of idx g hlt h1)
      · rw [List.getElem?_eq_none (by omega)] at h1; exact absurd h1 (by simp)
  | cons x t ih =>
    cases x with
    | none =>
      simp only [formGroupsGo, List.flatten_cons, List.mem_append, List.mem_singleton]
      rw [ih (k + 1) seen h.next_none]
      constructor
      · rintro (rfl | ⟨h1, h2⟩ | h3)
        · exact Or.inl ⟨Nat.le_refl _, h.head⟩
        · exact Or.inl ⟨by omega, h2⟩
        · exact Or.inr h3
      · rintro (⟨h1, h2⟩ | h3)
        · by_cases he : idx = k
          · exact Or.inl he
          · exact Or.inr (Or.inl ⟨by omega, h2⟩)
        · exact Or.inr (Or.inr h3)
    | some g =>
      simp only [formGroupsGo]
      split
      · next hs =>
        rw [ih (k + 1) seen (h.next_seen hs)]
        have hk := h.head
        constructor
        · rintro (⟨h1, h2⟩ | h3)
          · exact Or.inl ⟨by omega, h2⟩
          · exact Or.inr h3
        · rintro (⟨h1, h2⟩ | h3)
          · by_cases he : idx = k
            · subst he; rw [hk] at h2; exact absurd h2 (by simp)
            · exact Or.inl ⟨by omega, h2⟩
          · exact Or.inr h3
      · next hs =>
        simp only [List.flatten_cons, List.mem_append]
        rw [ih (k + 1) (g :: seen) h.next_new, mem_membersOf]
        constructor
        · rintro (h1 | ⟨h1, h2⟩ | ⟨g', h1, h2⟩)
          · exact Or.inr ⟨g, h1, hs⟩
          · have hk := h.head
            by_cases he : idx = k
            · subst he; rw [hk] at h2; exact absurd h2 (by simp)
            · exact Or.inl ⟨by omega, h2⟩
          · exact Or.inr ⟨g', h1, fun hc => h2 (List.mem_cons_of_mem _ hc)⟩
        · rintro (⟨h1, h2⟩ | ⟨g', h1, h2⟩)
          · have hk := h.head
            by_cases he : idx = k
            · subst he; rw [hk] at h2; exact absurd h2 (by simp)
            · exact Or.inr (Or.inl ⟨by omega, h2⟩)
          · by_cases he : g' = g
            · subst he; exact Or.inl h1
            · refine Or.inr (Or.inr ⟨g', h1, ?_⟩)
              intro hc
              rcases List.mem_cons.mp hc with hc | hc
              · exact he hc
              · exact h2 hc

/-- the produced groups are pairwise disjoint and each is duplicate-free -/
theorem go_nodup {all : List (Option G)} (t : List (Option G)) (k : Nat) (seen : List G)
    (h : GoInv all t k seen) : (formGroupsGo all t k seen).flatten.Nodup := by
  induction t generalizing k seen with
  | nil => simp [formGroupsGo]
  | cons x t ih =>
    cases x with
    | none =>
      simp only [formGroupsGo, List.flatten_cons]
      rw [List.nodup_append]
      refine ⟨by simp, ih (k + 1) seen h.next_none, ?_⟩
      intro a ha b hb hab
      rw [List.mem_singleton] at ha
      rw [← hab, ha, go_mem t (k + 1) seen h.next_none] at hb
      rcases hb with ⟨h1, _⟩ | ⟨g, h1, _⟩
      · omega
      · rw [h.head] at h1; exact absurd h1 (by simp)
    | some g =>
      simp only [formGroupsGo]
      split
      · next hs => exact ih (k + 1) seen (h.next_seen hs)
      · next hs =>
        simp only [List.flatten_cons]
        rw [List.nodup_append]
        refine ⟨membersOf_nodup g all, ih (k + 1) (g :: seen) h.next_new, ?_⟩
        intro a ha b hb hab
        subst hab
        rw [mem_membersOf] at ha
        rw [go_mem t (k + 1) (g :: seen) h.next_new] at hb
        rcases hb with ⟨_, h2⟩ | ⟨g', h1, h2⟩
        · rw [ha] at h2; exact absurd h2 (by simp)
        · rw [ha] at h1
          have : g = g' := by simpa using h1
          subst this
          exact h2 List.mem_cons_self

theorem goInv_init (l : List (Option G)) : GoInv l l 0 [] where
  drop := rfl
  seen_of := by intro idx g h; omega
end groups
end TW.C15L
