import Proofs.C11Lemmas
import Proofs.C12
import Mathlib.Tactic.NormNum

/-!
# C11 — source matching returns exactly the true correspondences

Property theorems only (helper lemmas: `Proofs/C11Lemmas.lean`).  The model is `Model/Match.lean`:
`xyxyMatchCall` = initial offset (2-D histogram estimate of `Model/Hist.lean` or `xoffset, yoffset`)
followed by the *specification* of the matcher, `{(i, j) | ‖im_j − origin − ref_i‖ ≤ tolerance}`.
The C code `stsci.stimage.xyxymatch` is an external: the theorems hold for the specification, and the
correspondence check tests that `XYXYMatch` returns the specification's set.
`K` is any linearly ordered field with a floor; distances enter through their squares.
-/
open TW TW.Hist TW.Match
set_option linter.unusedSectionVars false
set_option linter.unusedVariables false

namespace TW.C11
variable {K : Type} [Field K] [LinearOrder K] [IsStrictOrderedRing K] [FloorRing K]

/-- **Exactness.**  `truth` lists the true correspondences `(reference index, image index)`: in range
and one-to-one.  Suppose, with `s` the true offset image − reference,
* true pairs agree within `ε` once `s` is removed,
* the offset handed to the matcher (histogram estimate or `xoffset, yoffset`) is within `δ` of `s`,
  and `ε + δ ≤ tolerance`  (i.e. the offset error is within `tolerance − ε`),
* two distinct reference sources are farther apart than `tolerance + ε + δ` (`2·tolerance` always
  suffices),
* an image source without a true counterpart is farther than `tolerance + δ` from every reference
  source.
Then `XYXYMatch.__call__` returns two index lists of equal length, the first indexing the reference
and the second the image catalog, each without repeats, whose pairs are exactly the true pairs: no
false pair and no missing pair. -/
theorem spec_matcher_exact (lsq : Lsq K) (cfg : MatchCfg K) (ref im : List (K × K)) (pscale : K)
    (truth : List (ℕ × ℕ)) (s : K × K) (ε δ : K)
    (hε : 0 ≤ ε) (hδ : 0 ≤ δ) (hsum : ε + δ ≤ cfg.tolerance)
    (href : ref ≠ []) (him : im ≠ [])
    (hrange : ∀ p ∈ truth, p.1 < ref.length ∧ p.2 < im.length)
    (hinj1 : ∀ p ∈ truth, ∀ q ∈ truth, p.1 = q.1 → p = q)
    (hinj2 : ∀ p ∈ truth, ∀ q ∈ truth, p.2 = q.2 → p = q)
    (hpair : ∀ p ∈ truth,
      dist2 ((im.getD p.2 (0, 0)).1 - s.1, (im.getD p.2 (0, 0)).2 - s.2) (ref.getD p.1 (0, 0)) ≤ ε ^ 2)
    (hoff : dist2 (matchOrigin lsq cfg ref im pscale) s ≤ δ ^ 2)
    (hsep : ∀ i i', i < ref.length → i' < ref.length → i ≠ i' →
      (cfg.tolerance + (ε + δ)) ^ 2 < dist2 (ref.getD i (0, 0)) (ref.getD i' (0, 0)))
    (hextra : ∀ j, j < im.length → (∀ p ∈ truth, p.2 ≠ j) → ∀ i, i < ref.length →
      (cfg.tolerance + δ) ^ 2 <
        dist2 ((im.getD j (0, 0)).1 - s.1, (im.getD j (0, 0)).2 - s.2) (ref.getD i (0, 0))) :
    ∃ ri ii : List ℕ, xyxyMatchCall lsq cfg ref im pscale = .ok (ri, ii) ∧
      ri.length = ii.length ∧ ri.Nodup ∧ ii.Nodup ∧
      (∀ a ∈ ri, a < ref.length) ∧ (∀ b ∈ ii, b < im.length) ∧
      (∀ p, p ∈ ri.zip ii ↔ p ∈ truth) := by
  set o := matchOrigin lsq cfg ref im pscale with ho
  set tol := cfg.tolerance with htol
  have htol0 : 0 ≤ tol := le_trans (add_nonneg hε hδ) hsum
  -- the image position with the origin removed is within δ of the position with `s` removed
  have hshift : ∀ j, dist2 ((im.getD j (0, 0)).1 - o.1, (im.getD j (0, 0)).2 - o.2)
      ((im.getD j (0, 0)).1 - s.1, (im.getD j (0, 0)).2 - s.2) ≤ δ ^ 2 := by
    intro j
    rw [dist2_sub_left, dist2_comm]; exact hoff
  have key : ∀ q, q ∈ matchPairs lsq cfg ref im pscale ↔ q ∈ truth := by
    intro q
    unfold matchPairs
    rw [mem_specMatch, ← ho, ← htol]
    constructor
    · rintro ⟨h1, h2, h3⟩
      have h3' : dist2 ((im.getD q.2 (0, 0)).1 - o.1, (im.getD q.2 (0, 0)).2 - o.2)
          (ref.getD q.1 (0, 0)) ≤ tol ^ 2 := by rw [sq]; exact h3
      by_cases hp : ∃ p ∈ truth, p.2 = q.2
      · obtain ⟨p, hpt, hp2⟩ := hp
        by_cases hp1 : p.1 = q.1
        · have : p = q := Prod.ext hp1 hp2
          rw [← this]; exact hpt
        · exfalso
          have hpp := hpair p hpt
          rw [hp2] at hpp
          -- im_j − o is within ε + δ of ref_{p.1} …
          have t1 := dist2_triangle _ _ _ δ ε hδ hε (hshift q.2) hpp
          -- … and within tol of ref_{q.1}: the two reference sources are too close
          have t2 := dist2_triangle (ref.getD q.1 (0, 0)) _ (ref.getD p.1 (0, 0)) tol (δ + ε) htol0
            (add_nonneg hδ hε) (by rw [dist2_comm]; exact h3') t1
          have := hsep q.1 p.1 h1 (hrange p hpt).1 (fun h => hp1 h.symm)
          have e : tol + (δ + ε) = tol + (ε + δ) := by ring
          rw [e] at t2
          exact absurd t2 (not_le.mpr this)
      · exfalso
        push Not at hp
        have := hextra q.2 h2 hp q.1 h1
        have t := dist2_triangle _ _ (ref.getD q.1 (0, 0)) δ tol hδ htol0
          (by rw [dist2_comm]; exact hshift q.2) h3'
        have e : δ + tol = tol + δ := by ring
        rw [e] at t
        exact absurd t (not_le.mpr this)
    · intro hq
      obtain ⟨h1, h2⟩ := hrange q hq
      refine ⟨h1, h2, ?_⟩
      have t := dist2_triangle _ _ _ δ ε hδ hε (hshift q.2) (hpair q hq)
      have : (δ + ε) ^ 2 ≤ tol ^ 2 :=
        sq_le_sq_of_le _ _ (add_nonneg hδ hε) (by linarith)
      rw [← sq]; exact le_trans t this
  have hnd : (matchPairs lsq cfg ref im pscale).Nodup := nodup_specMatch _ _ _ _
  refine ⟨(matchPairs lsq cfg ref im pscale).map Prod.fst,
          (matchPairs lsq cfg ref im pscale).map Prod.snd, ?_, ?_, ?_, ?_, ?_, ?_, ?_⟩
  · unfold xyxyMatchCall
    have h1 : ref.isEmpty = false := by
      cases ref with
      | nil => exact absurd rfl href
      | cons _ _ => rfl
    have h2 : im.isEmpty = false := by
      cases im with
      | nil => exact absurd rfl him
      | cons _ _ => rfl
    simp [h1, h2]
  · simp
  · apply List.Nodup.map_on _ hnd
    intro p hp q hq h
    exact hinj1 p ((key p).mp hp) q ((key q).mp hq) h
  · apply List.Nodup.map_on _ hnd
    intro p hp q hq h
    exact hinj2 p ((key p).mp hp) q ((key q).mp hq) h
  · intro a ha
    obtain ⟨p, hp, rfl⟩ := List.mem_map.mp ha
    exact (hrange p ((key p).mp hp)).1
  · intro b hb
    obtain ⟨p, hp, rfl⟩ := List.mem_map.mp hb
    exact (hrange p ((key p).mp hp)).2
  · intro p
    rw [zip_fst_snd]
    exact key p

/-- **Link to C12.**  With the 2-D histogram pre-alignment, on catalogs for which
`C12.single_bin_estimate` applies (every image/reference pair inside the search box is a true pair
with difference exactly `s`, at least one exists, `|s| ≤ searchrad` in each coordinate) the offset
handed to the matcher is within `δ = ¾·pscale` of `s`: hypothesis `hoff` of `spec_matcher_exact`. -/
theorem histogram_offset_error (lsq : Lsq K) (cfg : MatchCfg K) (ref im : List (K × K)) (pscale : K)
    (s : K × K) (h2d : cfg.use2dhist = true) (hp : 0 < pscale) (hs : 0 < cfg.searchrad)
    (hsx : |s.1| ≤ cfg.searchrad) (hsy : |s.2| ≤ cfg.searchrad)
    (htrue : ∃ a ∈ im, ∃ b ∈ ref, a.1 - b.1 = s.1 ∧ a.2 - b.2 = s.2)
    (honly : ∀ a ∈ im, ∀ b ∈ ref,
        (-cfg.searchrad - pscale / 2 ≤ a.1 - b.1 ∧ a.1 - b.1 < cfg.searchrad + pscale / 2) →
        (-cfg.searchrad - pscale / 2 ≤ a.2 - b.2 ∧ a.2 - b.2 < cfg.searchrad + pscale / 2) →
        a.1 - b.1 = s.1 ∧ a.2 - b.2 = s.2) :
    dist2 (matchOrigin lsq cfg ref im pscale) s ≤ (3 / 4 * pscale) ^ 2 := by
  unfold matchOrigin
  rw [if_pos h2d]
  obtain ⟨h1, h2⟩ := C12.single_bin_estimate lsq im ref cfg.searchrad pscale s.1 s.2 hp hs hsx hsy
    htrue honly
  rw [dist2_eq]
  obtain ⟨a1, a2⟩ := abs_le.mp h1
  obtain ⟨b1, b2⟩ := abs_le.mp h2
  nlinarith

/-- **Orientation** (all inputs): whatever is returned, the first list indexes the reference catalog
and the second the image catalog, the lists have equal length, and each returned pair is a
(reference, image) pair whose positions agree within the tolerance once the origin is removed from
the *image* position. -/
theorem orientation (lsq : Lsq K) (cfg : MatchCfg K) (ref im : List (K × K)) (pscale : K)
    (ri ii : List ℕ) (h : xyxyMatchCall lsq cfg ref im pscale = .ok (ri, ii)) :
    ri.length = ii.length ∧
    ∀ p ∈ ri.zip ii, p.1 < ref.length ∧ p.2 < im.length ∧
      dist2 ((im.getD p.2 (0, 0)).1 - (matchOrigin lsq cfg ref im pscale).1,
             (im.getD p.2 (0, 0)).2 - (matchOrigin lsq cfg ref im pscale).2)
            (ref.getD p.1 (0, 0)) ≤ cfg.tolerance * cfg.tolerance := by
  unfold xyxyMatchCall at h
  split at h
  · cases h
  · split at h
    · cases h
    · simp only [Except.ok.injEq, Prod.mk.injEq] at h
      obtain ⟨rfl, rfl⟩ := h
      refine ⟨by simp, ?_⟩
      intro p hp
      rw [zip_fst_snd] at hp
      unfold matchPairs at hp
      exact (mem_specMatch _ _ _ _ _).mp hp

/-- empty catalogs are rejected (`ValueError`) -/
theorem empty_rejected (lsq : Lsq K) (cfg : MatchCfg K) (im : List (K × K)) (pscale : K) :
    xyxyMatchCall lsq cfg [] im pscale = .error .emptyRef ∧
    (∀ r rs, xyxyMatchCall lsq cfg (r :: rs) [] pscale = .error .emptyIm) :=
  ⟨rfl, fun _ _ => rfl⟩

/-- **Row permutations.**  Permuting the rows of either catalog changes the returned indices but not
the set of matched sources (reference position, image position) — with or without the 2-D histogram
pre-alignment. -/
theorem perm_equivariant (lsq : Lsq K) (cfg : MatchCfg K) (ref ref' im im' : List (K × K)) (pscale : K)
    (hr : ref'.Perm ref) (hi : im'.Perm im) (x : (K × K) × (K × K)) :
    x ∈ matchedSources ref' im' (matchPairs lsq cfg ref' im' pscale) ↔
    x ∈ matchedSources ref im (matchPairs lsq cfg ref im pscale) := by
  have horig : matchOrigin lsq cfg ref' im' pscale = matchOrigin lsq cfg ref im pscale := by
    unfold matchOrigin
    split
    · exact estimateShift_perm lsq im im' ref ref' _ _ hi hr
    · rfl
  have char : ∀ (rf ig : List (K × K)) (o : K × K),
      x ∈ matchedSources rf ig (specMatch rf ig o cfg.tolerance) ↔
        x.1 ∈ rf ∧ x.2 ∈ ig ∧
          dist2 (x.2.1 - o.1, x.2.2 - o.2) x.1 ≤ cfg.tolerance * cfg.tolerance := by
    intro rf ig o
    unfold matchedSources
    simp only [List.mem_map, zeroK_eq]
    constructor
    · rintro ⟨q, hq, rfl⟩
      obtain ⟨h1, h2, h3⟩ := (mem_specMatch _ _ _ _ _).mp hq
      exact ⟨getD_mem _ _ _ h1, getD_mem _ _ _ h2, h3⟩
    · rintro ⟨h1, h2, h3⟩
      obtain ⟨i, hi', hie⟩ := List.getElem_of_mem h1
      obtain ⟨j, hj', hje⟩ := List.getElem_of_mem h2
      refine ⟨(i, j), (mem_specMatch _ _ _ _ _).mpr ⟨hi', hj', ?_⟩, ?_⟩
      · simp only [List.getD_eq_getElem?_getD, List.getElem?_eq_getElem hi',
          List.getElem?_eq_getElem hj', Option.getD_some, hie, hje]
        exact h3
      · simp only [List.getD_eq_getElem?_getD, List.getElem?_eq_getElem hi',
          List.getElem?_eq_getElem hj', Option.getD_some, hie, hje]
  unfold matchPairs
  rw [char, char, horig, hr.mem_iff, hi.mem_iff]

/-! ### the separation hypothesis of the design note is not sufficient -/

/-- DESIGN.md states the separation hypothesis as "farther apart than tol + ε + separation".  That is
not enough: with `tol = 1`, `separation = 1/10`, `ε = 0` and an offset error equal to the tolerance,
two reference sources `1.2` apart (> `tol + ε + separation = 1.1`) produce the false pair `(0, 1)`.  The theorem
above therefore asks for `tol + ε + δ` with `δ` the offset error (at most `2·tol`). -/
example : specMatch (K := ℚ) [(0, 0), (6 / 5, 0)] [(5, 7), (31 / 5, 7)] (6, 7) 1
    = [(0, 0), (0, 1), (1, 1)] := by decide +kernel

/-! ### non-vacuity -/

-- three true pairs (rows permuted), one extra in each list, offset error 1/2, tolerance 1:
-- the specification returns exactly the true pairs
example : xyxyMatchCall (K := ℚ) (fun _ _ => none) ⟨3, 1 / 2, false, 5 / 2, -1, 1⟩
    [(0, 0), (10, 0), (0, 10), (30, 30)] [(2, 9), (12, -1), (2, -1), (-20, -20)] 1
    = .ok ([0, 1, 2], [2, 1, 0]) := by decide +kernel

-- the same with the 2-D histogram pre-alignment (pscale 7/10: non-integer searchrad/pscale)
example : xyxyMatchCall (K := ℚ) (fun _ _ => none) ⟨3, 1 / 2, true, 0, 0, 1⟩
    [(0, 0), (10, 0), (0, 10), (30, 30)] [(2, 9), (12, -1), (2, -1), (-20, -20)] (7 / 10)
    = .ok ([0, 1, 2], [2, 1, 0]) := by decide +kernel

end TW.C11
