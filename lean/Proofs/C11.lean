import Proofs.C11Lemmas
import Proofs.C12
import Proofs.GroupCatLemmas
import Mathlib.Tactic.NormNum

/-!
# C11 — source matching returns exactly the true correspondences

Property theorems only (helper lemmas: `Proofs/C11Lemmas.lean`).  The model is `Model/Match.lean`:
`xyxyMatchCall` = initial offset (2-D histogram estimate of `Model/Hist.lean` or `xoffset, yoffset`)
followed by the *specification* of the matcher, `{(i, j) | ‖im_j − origin − ref_i‖ ≤ tolerance}`.
The C code `stsci.stimage.xyxymatch` is an external: the theorems hold for the specification, and the
correspondence check tests that `XYXYMatch` returns the specification's set.
`K` is any linearly ordered field with a floor; distances enter through their squares.
-/
open TW TW.Hist TW.Match
set_option linter.unusedSectionVars false
set_option linter.unusedVariables false

namespace TW.C11
variable {K : Type} [Field K] [LinearOrder K] [IsStrictOrderedRing K] [FloorRing K]

/-- **Exactness.**  `truth` lists the true correspondences `(reference index, image index)`: in range
and one-to-one.  Suppose, with `s` the true offset image − reference,
* true pairs agree within `ε` once `s` is removed,
* the offset handed to the matcher (histogram estimate or `xoffset, yoffset`) is within `δ` of `s`,
  and `ε + δ ≤ tolerance`  (i.e. the offset error is within `tolerance − ε`),
* two distinct reference sources are farther apart than `tolerance + ε + δ` (`2·tolerance` always
  suffices),
* an image source without a true counterpart is farther than `tolerance + δ` from every reference
  source.
Then `XYXYMatch.__call__` returns two index lists of equal length, the first indexing the reference
and the second the image catalog, each without repeats, whose pairs are exactly the true pairs: no
false pair and no missing pair. -/
theorem spec_matcher_exact (lsq : Lsq K) (cfg : MatchCfg K) (ref im : List (K × K)) (pscale : K)
    (truth : List (ℕ × ℕ)) (s : K × K) (ε δ : K)
    (hε : 0 ≤ ε) (hδ : 0 ≤ δ) (hsum : ε + δ ≤ cfg.tolerance)
    (href : ref ≠ []) (him : im ≠ [])
    (hrange : ∀ p ∈ truth, p.1 < ref.length ∧ p.2 < im.length)
    (hinj1 : ∀ p ∈ truth, ∀ q ∈ truth, p.1 = q.1 → p = q)
    (hinj2 : ∀ p ∈ truth, ∀ q ∈ truth, p.2 = q.2 → p = q)
    (hpair : ∀ p ∈ truth,
      dist2 ((im.getD p.2 (0, 0)).1 - s.1, (im.getD p.2 (0, 0)).2 - s.2) (ref.getD p.1 (0, 0)) ≤ ε ^ 2)
    (hoff : dist2 (matchOrigin lsq cfg ref im pscale) s ≤ δ ^ 2)
    (hsep : ∀ i i', i < ref.length → i' < ref.length → i ≠ i' →
      (cfg.tolerance + (ε + δ)) ^ 2 < dist2 (ref.getD i (0, 0)) (ref.getD i' (0, 0)))
    (hextra : ∀ j, j < im.length → (∀ p ∈ truth, p.2 ≠ j) → ∀ i, i < ref.length →
      (cfg.tolerance + δ) ^ 2 <
        dist2 ((im.getD j (0, 0)).1 - s.1, (im.getD j (0, 0)).2 - s.2) (ref.getD i (0, 0))) :
    ∃ ri ii : List ℕ, xyxyMatchCall lsq cfg ref im pscale = .ok (ri, ii) ∧
      ri.length = ii.length ∧ ri.Nodup ∧ ii.Nodup ∧
      (∀ a ∈ ri, a < ref.length) ∧ (∀ b ∈ ii, b < im.length) ∧
      (∀ p, p ∈ ri.zip ii ↔ p ∈ truth) := by
  set o := matchOrigin lsq cfg ref im pscale with ho
  set tol := cfg.tolerance with htol
  have htol0 : 0 ≤ tol := le_trans (add_nonneg hε hδ) hsum
  -- the image position with the origin removed is within δ of the position with `s` removed
  have hshift : ∀ j, dist2 ((im.getD j (0, 0)).1 - o.1, (im.getD j (0, 0)).2 - o.2)
      ((im.getD j (0, 0)).1 - s.1, (im.getD j (0, 0)).2 - s.2) ≤ δ ^ 2 := by
    intro j
    rw [dist2_sub_left, dist2_comm]; exact hoff
  have key : ∀ q, q ∈ matchPairs lsq cfg ref im pscale ↔ q ∈ truth := by
    intro q
    unfold matchPairs
    rw [mem_specMatch, ← ho, ← htol]
    constructor
    · rintro ⟨h1, h2, h3⟩
      have h3' : dist2 ((im.getD q.2 (0, 0)).1 - o.1, (im.getD q.2 (0, 0)).2 - o.2)
          (ref.getD q.1 (0, 0)) ≤ tol ^ 2 := by rw [sq]; exact h3
      by_cases hp : ∃ p ∈ truth, p.2 = q.2
      · obtain ⟨p, hpt, hp2⟩ := hp
        by_cases hp1 : p.1 = q.1
        · have : p = q := Prod.ext hp1 hp2
          rw [← this]; exact hpt
        · exfalso
          have hpp := hpair p hpt
          rw [hp2] at hpp
          -- im_j − o is within ε + δ of ref_{p.1} …
          have t1 := dist2_triangle _ _ _ δ ε hδ hε (hshift q.2) hpp
          -- … and within tol of ref_{q.1}: the two reference sources are too close
          have t2 := dist2_triangle (ref.getD q.1 (0, 0)) _ (ref.getD p.1 (0, 0)) tol (δ + ε) htol0
            (add_nonneg hδ hε) (by rw [dist2_comm]; exact h3') t1
          have := hsep q.1 p.1 h1 (hrange p hpt).1 (fun h => hp1 h.symm)
          have e : tol + (δ + ε) = tol + (ε + δ) := by ring
          rw [e] at t2
          exact absurd t2 (not_le.mpr this)
      · exfalso
        push Not at hp
        have := hextra q.2 h2 hp q.1 h1
        have t := dist2_triangle _ _ (ref.getD q.1 (0, 0)) δ tol hδ htol0
          (by rw [dist2_comm]; exact hshift q.2) h3'
        have e : δ + tol = tol + δ := by ring
        rw [e] at t
        exact absurd t (not_le.mpr this)
    · intro hq
      obtain ⟨h1, h2⟩ := hrange q hq
      refine ⟨h1, h2, ?_⟩
      have t := dist2_triangle _ _ _ δ ε hδ hε (hshift q.2) (hpair q hq)
      have : (δ + ε) ^ 2 ≤ tol ^ 2 :=
        sq_le_sq_of_le _ _ (add_nonneg hδ hε) (by linarith)
      rw [← sq]; exact le_trans t this
  have hnd : (matchPairs lsq cfg ref im pscale).Nodup := nodup_specMatch _ _ _ _
  refine ⟨(matchPairs lsq cfg ref im pscale).map Prod.fst,
          (matchPairs lsq cfg ref im pscale).map Prod.snd, ?_, ?_, ?_, ?_, ?_, ?_, ?_⟩
  · unfold xyxyMatchCall
    have h1 : ref.isEmpty = false := by
      cases ref with
      | nil => exact absurd rfl href
      | cons _ _ => rfl
    have h2 : im.isEmpty = false := by
      cases im with
      | nil => exact absurd rfl him
      | cons _ _ => rfl
    simp [h1, h2]
  · simp
  · apply List.Nodup.map_on _ hnd
    intro p hp q hq h
    exact hinj1 p ((key p).mp hp) q ((key q).mp hq) h
  · apply List.Nodup.map_on _ hnd
    intro p hp q hq h
    exact hinj2 p ((key p).mp hp) q ((key q).mp hq) h
  · intro a ha
    obtain ⟨p, hp, rfl⟩ := List.mem_map.mp ha
    exact (hrange p ((key p).mp hp)).1
  · intro b hb
    obtain ⟨p, hp, rfl⟩ := List.mem_map.mp hb
    exact (hrange p ((key p).mp hp)).2
  · intro p
    rw [zip_fst_snd]
    exact key p

/-- **Link to C12.**  With the 2-D histogram pre-alignment, on catalogs for which
`C12.single_bin_estimate` applies (every image/reference pair inside the search box is a true pair
with difference exactly `s`, at least one exists, `|s| ≤ searchrad` in each coordinate) the offset
handed to the matcher is within `δ = ¾·pscale` of `s`: hypothesis `hoff` of `spec_matcher_exact`. -/
theorem histogram_offset_error (lsq : Lsq K) (cfg : MatchCfg K) (ref im : List (K × K)) (pscale : K)
    (s : K × K) (h2d : cfg.use2dhist = true) (hp : 0 < pscale) (hs : 0 < cfg.searchrad)
    (hsx : |s.1| ≤ cfg.searchrad) (hsy : |s.2| ≤ cfg.searchrad)
    (htrue : ∃ a ∈ im, ∃ b ∈ ref, a.1 - b.1 = s.1 ∧ a.2 - b.2 = s.2)
    (honly : ∀ a ∈ im, ∀ b ∈ ref,
        (-cfg.searchrad - pscale / 2 ≤ a.1 - b.1 ∧ a.1 - b.1 < cfg.searchrad + pscale / 2) →
        (-cfg.searchrad - pscale / 2 ≤ a.2 - b.2 ∧ a.2 - b.2 < cfg.searchrad + pscale / 2) →
        a.1 - b.1 = s.1 ∧ a.2 - b.2 = s.2) :
    dist2 (matchOrigin lsq cfg ref im pscale) s ≤ (3 / 4 * pscale) ^ 2 := by
  unfold matchOrigin
  rw [if_pos h2d]
  obtain ⟨h1, h2⟩ := C12.single_bin_estimate lsq im ref cfg.searchrad pscale s.1 s.2 hp hs hsx hsy
    htrue honly
  rw [dist2_eq]
  obtain ⟨a1, a2⟩ := abs_le.mp h1
  obtain ⟨b1, b2⟩ := abs_le.mp h2
  nlinarith

/-- **Orientation** (all inputs): whatever is returned, the first list indexes the reference catalog
and the second the image catalog, the lists have equal length, and each returned pair is a
(reference, image) pair whose positions agree within the tolerance once the origin is removed from
the *image* position. -/
theorem orientation (lsq : Lsq K) (cfg : MatchCfg K) (ref im : List (K × K)) (pscale : K)
    (ri ii : List ℕ) (h : xyxyMatchCall lsq cfg ref im pscale = .ok (ri, ii)) :
    ri.length = ii.length ∧
    ∀ p ∈ ri.zip ii, p.1 < ref.length ∧ p.2 < im.length ∧
      dist2 ((im.getD p.2 (0, 0)).1 - (matchOrigin lsq cfg ref im pscale).1,
             (im.getD p.2 (0, 0)).2 - (matchOrigin lsq cfg ref im pscale).2)
            (ref.getD p.1 (0, 0)) ≤ cfg.tolerance * cfg.tolerance := by
  unfold xyxyMatchCall at h
  split at h
  · cases h
  · split at h
    · cases h
    · simp only [Except.ok.injEq, Prod.mk.injEq] at h
      obtain ⟨rfl, rfl⟩ := h
      refine ⟨by simp, ?_⟩
      intro p hp
      rw [zip_fst_snd] at hp
      unfold matchPairs at hp
      exact (mem_specMatch _ _ _ _ _).mp hp

/-- empty catalogs are rejected (`ValueError`) -/
theorem empty_rejected (lsq : Lsq K) (cfg : MatchCfg K) (im : List (K × K)) (pscale : K) :
    xyxyMatchCall lsq cfg [] im pscale = .error .emptyRef ∧
    (∀ r rs, xyxyMatchCall lsq cfg (r :: rs) [] pscale = .error .emptyIm) :=
  ⟨rfl, fun _ _ => rfl⟩

/-- **Row permutations.**  Permuting the rows of either catalog changes the returned indices but not
the set of matched sources (reference position, image position) — with or without the 2-D histogram
pre-alignment. -/
theorem perm_equivariant (lsq : Lsq K) (cfg : MatchCfg K) (ref ref' im im' : List (K × K)) (pscale : K)
    (hr : ref'.Perm ref) (hi : im'.Perm im) (x : (K × K) × (K × K)) :
    x ∈ matchedSources ref' im' (matchPairs lsq cfg ref' im' pscale) ↔
    x ∈ matchedSources ref im (matchPairs lsq cfg ref im pscale) := by
  have horig : matchOrigin lsq cfg ref' im' pscale = matchOrigin lsq cfg ref im pscale := by
    unfold matchOrigin
    split
    · exact estimateShift_perm lsq im im' ref ref' _ _ hi hr
    · rfl
  have char : ∀ (rf ig : List (K × K)) (o : K × K),
      x ∈ matchedSources rf ig (specMatch rf ig o cfg.tolerance) ↔
        x.1 ∈ rf ∧ x.2 ∈ ig ∧
          dist2 (x.2.1 - o.1, x.2.2 - o.2) x.1 ≤ cfg.tolerance * cfg.tolerance := by
    intro rf ig o
    unfold matchedSources
    simp only [List.mem_map, zeroK_eq]
    constructor
    · rintro ⟨q, hq, rfl⟩
      obtain ⟨h1, h2, h3⟩ := (mem_specMatch _ _ _ _ _).mp hq
      exact ⟨getD_mem _ _ _ h1, getD_mem _ _ _ h2, h3⟩
    · rintro ⟨h1, h2, h3⟩
      obtain ⟨i, hi', hie⟩ := List.getElem_of_mem h1
      obtain ⟨j, hj', hje⟩ := List.getElem_of_mem h2
      refine ⟨(i, j), (mem_specMatch _ _ _ _ _).mpr ⟨hi', hj', ?_⟩, ?_⟩
      · simp only [List.getD_eq_getElem?_getD, List.getElem?_eq_getElem hi',
          List.getElem?_eq_getElem hj', Option.getD_some, hie, hje]
        exact h3
      · simp only [List.getD_eq_getElem?_getD, List.getElem?_eq_getElem hi',
          List.getElem?_eq_getElem hj', Option.getD_some, hie, hje]
  unfold matchPairs
  rw [char, char, horig, hr.mem_iff, hi.mem_iff]

/-! ### the separation hypothesis of the design note is not sufficient -/

/-- DESIGN.md states the separation hypothesis as "farther apart than tol + ε + separation".  That is
not enough: with `tol = 1`, `separation = 1/10`, `ε = 0` and an offset error equal to the tolerance,
two reference sources `1.2` apart (> `tol + ε + separation = 1.1`) produce the false pair `(0, 1)`.  The theorem
above therefore asks for `tol + ε + δ` with `δ` the offset error (at most `2·tol`). -/
example : specMatch (K := ℚ) [(0, 0), (6 / 5, 0)] [(5, 7), (31 / 5, 7)] (6, 7) 1
    = [(0, 0), (0, 1), (1, 1)] := by decide +kernel

/-! ### non-vacuity -/

-- three true pairs (rows permuted), one extra in each list, offset error 1/2, tolerance 1:
-- the specification returns exactly the true pairs
example : xyxyMatchCall (K := ℚ) (fun _ _ => none) ⟨3, 1 / 2, false, 5 / 2, -1, 1⟩
    [(0, 0), (10, 0), (0, 10), (30, 30)] [(2, 9), (12, -1), (2, -1), (-20, -20)] 1
    = .ok ([0, 1, 2], [2, 1, 0]) := by decide +kernel

-- the same with the 2-D histogram pre-alignment (pscale 7/10: non-integer searchrad/pscale)
example : xyxyMatchCall (K := ℚ) (fun _ _ => none) ⟨3, 1 / 2, true, 0, 0, 1⟩
    [(0, 0), (10, 0), (0, 10), (30, 30)] [(2, 9), (12, -1), (2, -1), (-20, -20)] (7 / 10)
    = .ok ([0, 1, 2], [2, 1, 0]) := by decide +kernel

end TW.C11

/-!
### the index bookkeeping of `WCSGroupCatalog` (shared with C09 and C14)

State-machine model `TW.GC` (`Model/GroupCat.lean`): the group catalog as `tweakwcs.wcsimage.WCSGroupCatalog`
keeps it — `_imcat_idx`, `id`, `x`, `y`, `RA`, `DEC`, `weight`, `TPx`/`TPy`, the masked bookkeeping columns
`matched_ref_id` and `_raw_matched_ref_idx` (data AND mask), `_mref_idx`/`_minput_idx` — and the operations
`create_group_catalog`, `calc_tanp_xy`, `match2ref`, `get_matched_cat`, `get_unmatched_cat`,
`recalc_catalog_radec`, `fit2ref` (index selection), `align_to_ref`, `RefCatalog.expand_catalog`.  The WCS of the
member at position `p` is an arbitrary function `w p`; the matcher is its result (two index arrays, read with
numpy's index rules); the fitter is an oracle.  `run st0 ops` is the state after an ARBITRARY operation sequence
`ops` (`GOp`: `calc_tanp_xy`, `match2ref` — successful or not —, `recalc_catalog_radec`, `align_to_ref`); the
theorems below hold after every such sequence (frame invariant `GCL.Inv`, by induction over the sequence).
Helper lemmas: `Proofs/GroupCatLemmas.lean`; correspondence with the real objects: `harness/props/c11_groupcat.py`.
-/
namespace TW.C11
open TW.GC TW.GCL
section groupcat
variable {K : Type}

/-- **`_imcat_idx` and the block structure of the group catalog**, after ANY sequence of operations.
The catalog has as many rows as all member catalogs together; the `k`-th NON-EMPTY member `m` — it sits at
position `p = nonEmptyPos[k]` of the member list, where empty members are counted — owns the contiguous block of
rows starting at `groupOffset k` (the number of sources of the earlier members): row `groupOffset k + j` carries
`_imcat_idx = k` and the `id`, `x`, `y` of `m`'s `j`-th source, in `m`'s order; and conversely every row lies in
the block of the member its `_imcat_idx` names. -/
theorem imcat_idx_spec (w0 : Nat → K × K → K × K) (ms : List (Member K)) (st0 : GState K)
    (hc : createGroup w0 ms = .ok st0) (ops : List (GOp K)) :
    (run st0 ops).rows.length = (ms.map (·.rows.length)).sum ∧
    (∀ k m, (nonEmptyCats ms)[k]? = some m →
      ∃ p, (nonEmptyPos (run st0 ops).memberLens)[k]? = some p ∧ ms[p]? = some m ∧
        ∀ j (hj : j < m.rows.length), ∃ row, (run st0 ops).rows[groupOffset (nonEmptyCats ms) k + j]? = some row ∧
          row.imcatIdx = k ∧ row.id = (m.rows[j]).id ∧ row.xy = (m.rows[j]).xy) ∧
    (∀ r row, (run st0 ops).rows[r]? = some row → ∃ m j, (nonEmptyCats ms)[row.imcatIdx]? = some m ∧
        j < m.rows.length ∧ r = groupOffset (nonEmptyCats ms) row.imcatIdx + j) := by
  obtain ⟨hrows, hlens, _⟩ := createGroup_fields w0 ms st0 hc
  have hinv := inv_run ops st0 (inv_create w0 ms st0 hc)
  have hcore : ∀ r : Nat, ((run st0 ops).rows[r]?).map GRow.core = ((stackRows w0 0 0 ms)[r]?).map GRow.core := by
    intro r
    rw [← List.getElem?_map, ← List.getElem?_map, hinv.core, hrows]
  have hlen : (run st0 ops).rows.length = (ms.map (·.rows.length)).sum := by
    have := congrArg List.length hinv.core
    simp only [List.length_map] at this
    rw [this, hrows, stackRows_length]
  have hb : ∀ k m, (nonEmptyCats ms)[k]? = some m →
      ∃ p, (nonEmptyPos (run st0 ops).memberLens)[k]? = some p ∧ ms[p]? = some m ∧
        ∀ j (hj : j < m.rows.length), ∃ row, (run st0 ops).rows[groupOffset (nonEmptyCats ms) k + j]? = some row ∧
          row.imcatIdx = k ∧ row.id = (m.rows[j]).id ∧ row.xy = (m.rows[j]).xy := by
    intro k m hk
    obtain ⟨p, hp, _, hm, hr⟩ := stackRows_block w0 ms 0 0 k m hk
    refine ⟨p, ?_, by simpa using hm, ?_⟩
    · rw [hinv.lens, hlens]; exact hp
    · intro j hj
      have h1 := hcore (groupOffset (nonEmptyCats ms) k + j)
      rw [hr j hj] at h1
      cases hrow : (run st0 ops).rows[groupOffset (nonEmptyCats ms) k + j]? with
      | none => rw [hrow] at h1; cases h1
      | some row =>
        rw [hrow] at h1
        simp only [Option.map_some, Option.some.injEq, GRow.core, Prod.mk.injEq, Nat.zero_add] at h1
        exact ⟨row, rfl, h1.1, h1.2.1, h1.2.2⟩
  refine ⟨hlen, hb, ?_⟩
  intro r row hr
  have hrl : r < (run st0 ops).rows.length := by
    by_contra hcon
    rw [List.getElem?_eq_none_iff.mpr (by omega)] at hr; cases hr
  rw [hlen, ← sum_nonEmptyCats] at hrl
  obtain ⟨k, j, m, hk, hj, he⟩ := offset_cover (nonEmptyCats ms) r hrl
  obtain ⟨_, _, _, hrows'⟩ := hb k m hk
  obtain ⟨row', hrow', hidx, _, _⟩ := hrows' j hj
  rw [← he, hr] at hrow'
  injection hrow' with hrow'
  subst hrow'
  rw [hidx]
  exact ⟨m, j, hk, hj, he⟩

/-- at construction every row gets the sky position given by the WCS of ITS member (position `p` in the
member list, empty members counted) -/
theorem create_radec_own_member (w0 : Nat → K × K → K × K) (ms : List (Member K)) (st0 : GState K)
    (hc : createGroup w0 ms = .ok st0) (k : Nat) (m : Member K) (hk : (nonEmptyCats ms)[k]? = some m) :
    ∃ p, (nonEmptyPos (ms.map (·.rows.length)))[k]? = some p ∧ ms[p]? = some m ∧
      ∀ j (hj : j < m.rows.length), st0.rows[groupOffset (nonEmptyCats ms) k + j]? =
        some ⟨k, (m.rows[j]).id, (m.rows[j]).xy, w0 p (m.rows[j]).xy⟩ := by
  obtain ⟨hrows, _, _⟩ := createGroup_fields w0 ms st0 hc
  obtain ⟨p, hp, _, hm, hr⟩ := stackRows_block w0 ms 0 0 k m hk
  refine ⟨p, hp, by simpa using hm, fun j hj => ?_⟩
  rw [hrows]
  simpa using hr j hj

/-- **The bookkeeping reflects ONLY the last `match2ref` call.**  Take the group after ANY sequence of
operations (earlier matches against other catalogs, failed matches, alignments, recalculations) and call
`match2ref` with a matcher that returns in-range index arrays `mref`, `minput` of equal length (`inp`, `rf` are
the indices as numpy reads them: negative ones count from the end).  Then the call returns
`(len(mref), mref, minput)`, stores the two arrays for `fit2ref`, and as a reader of the masked columns sees them:
row `i` is masked in `matched_ref_id` and `_raw_matched_ref_idx` iff `i` is not among the input indices of THIS
call; otherwise it shows the reference id `refIds[rf[k]]` resp. the index `mref[k]` of its partner, `k` being the
LAST position of `i` in the input array (the only one when the matcher returns no repeats).  Nothing on the
right-hand sides depends on the history. -/
theorem match_bookkeeping_inv (w0 : Nat → K × K → K × K) (ms : List (Member K)) (st0 : GState K)
    (hc : createGroup w0 ms = .ok st0) (ops : List (GOp K)) (refIds mref minput : List Int) (inp rf : List Nat)
    (htp : (run st0 ops).tp.isSome) (hne : (run st0 ops).catlen ≠ 0)
    (hin : normAll (run st0 ops).catlen minput = some inp) (hrf : normAll refIds.length mref = some rf)
    (hlen : mref.length = minput.length) :
    (match2ref (run st0 ops) refIds (some (mref, minput))).res = .ok (mref.length, mref, minput) ∧
    (match2ref (run st0 ops) refIds (some (mref, minput))).st.mrefIdx = some mref ∧
    (match2ref (run st0 ops) refIds (some (mref, minput))).st.minputIdx = some minput ∧
    ∃ c raw, (match2ref (run st0 ops) refIds (some (mref, minput))).st.matchedRefId = some c ∧
      (match2ref (run st0 ops) refIds (some (mref, minput))).st.rawRefIdx = some raw ∧
      c.view.length = (run st0 ops).catlen ∧ raw.view.length = (run st0 ops).catlen ∧
      ∀ i, i < (run st0 ops).catlen →
        (i ∉ inp → c.view[i]? = some none ∧ raw.view[i]? = some none) ∧
        (i ∈ inp → ∃ k, IsLast inp i k) ∧
        (∀ k, IsLast inp i k → c.view[i]? = some (some (refIds.getD (rf.getD k 0) 0)) ∧
                               raw.view[i]? = some (some (mref.getD k 0))) := by
  have hinv := inv_run ops st0 (inv_create w0 ms st0 hc)
  have hm : ColLen (run st0 ops).matchedRefId (run st0 ops).catlen := hinv.mri
  have hr : ColLen (run st0 ops).rawRefIdx (run st0 ops).catlen := hinv.raw
  obtain ⟨hil, _, hik⟩ := normAll_spec _ _ _ hin
  obtain ⟨hrl, _, hrk⟩ := normAll_spec _ _ _ hrf
  have hvs : bcast (rf.map fun j => refIds.getD j 0) inp.length = some (rf.map fun j => refIds.getD j 0) :=
    bcast_same _ _ (by simp; omega)
  have hms : bcast mref inp.length = some mref := bcast_same _ _ (by omega)
  rw [match2ref_some _ _ _ _ htp hne, book_ok _ _ _ _ _ inp rf _ _ hin hrf hvs hms]
  refine ⟨rfl, rfl, rfl, _, _, rfl, rfl, ?_, ?_, ?_⟩
  · exact view_length _ _ (by rw [assign_length]; exact resetCol_data_length _ _ hm)
      (by rw [assign_length, resetCol_mask _ _ hm]; simp)
  · exact view_length _ _ (by rw [assign_length]; exact resetCol_data_length _ _ hr)
      (by rw [assign_length, resetCol_mask _ _ hr]; simp)
  · intro i hi
    obtain ⟨hv1, hv2⟩ := book_views (run st0 ops) hm hr inp (rf.map fun j => refIds.getD j 0) mref
      (by simp; omega) (by omega) i hi
    rw [hv1, hv2]
    refine ⟨fun hni => ?_, exists_isLast inp i, fun k hk => ?_⟩
    · rw [(lastVal_zip_none inp _ i (by simp; omega)).mpr hni, (lastVal_zip_none inp _ i (by omega)).mpr hni]
      exact ⟨rfl, rfl⟩
    · have hkl : k < inp.length := by
        by_contra hcon
        have := hk.1
        rw [List.getElem?_eq_none_iff.mpr (by omega)] at this; cases this
      have h1 : lastVal (inp.zip (rf.map fun j => refIds.getD j 0)) i = some (refIds.getD (rf.getD k 0) 0) :=
        (lastVal_zip_some inp _ i _ (by simp; omega)).mpr ⟨k, hk, by
          simp [List.getD_eq_getElem?_getD, List.getElem?_eq_getElem (by omega : k < rf.length)]⟩
      have h2 : lastVal (inp.zip mref) i = some (mref.getD k 0) :=
        (lastVal_zip_some inp _ i _ (by omega)).mpr ⟨k, hk, by
          simp [List.getD_eq_getElem?_getD, List.getElem?_eq_getElem (by omega : k < mref.length)]⟩
      rw [h1, h2]
      exact ⟨rfl, rfl⟩

/-- **`match=None`.**  Whatever happened before: catalogs of equal length are taken as matched 1-to-1 — every
row is unmasked and carries the id of the reference row with the same number, `nmatches` is the catalog
length; catalogs of different lengths are refused (`ValueError`) and nothing is written. -/
theorem match_none_bookkeeping (w0 : Nat → K × K → K × K) (ms : List (Member K)) (st0 : GState K)
    (hc : createGroup w0 ms = .ok st0) (ops : List (GOp K)) (refIds : List Int) :
    ((run st0 ops).catlen ≠ refIds.length →
      (match2ref (run st0 ops) refIds none).res = .error .valueError ∧
      (match2ref (run st0 ops) refIds none).st = run st0 ops) ∧
    ((run st0 ops).catlen = refIds.length →
      (match2ref (run st0 ops) refIds none).res =
        .ok ((run st0 ops).catlen, arange (run st0 ops).catlen, arange (run st0 ops).catlen) ∧
      ∃ c raw, (match2ref (run st0 ops) refIds none).st.matchedRefId = some c ∧
        (match2ref (run st0 ops) refIds none).st.rawRefIdx = some raw ∧
        ∀ i, i < (run st0 ops).catlen →
          c.view[i]? = some (some (refIds.getD i 0)) ∧ raw.view[i]? = some (some (i : Int))) := by
  have hinv := inv_run ops st0 (inv_create w0 ms st0 hc)
  have hm : ColLen (run st0 ops).matchedRefId (run st0 ops).catlen := hinv.mri
  have hr : ColLen (run st0 ops).rawRefIdx (run st0 ops).catlen := hinv.raw
  constructor
  · intro hne
    have : match2ref (run st0 ops) refIds none = ⟨run st0 ops, .error .valueError⟩ := by
      unfold match2ref
      simp only
      rw [if_pos hne]
    rw [this]
    exact ⟨rfl, rfl⟩
  · intro hl
    have hin := normAll_arange (run st0 ops).catlen
    have hrf : normAll refIds.length (arange (run st0 ops).catlen) = some (List.range (run st0 ops).catlen) := by
      rw [← hl]; exact hin
    have hvs : bcast ((List.range (run st0 ops).catlen).map fun j => refIds.getD j 0) (List.range (run st0 ops).catlen).length
        = some ((List.range (run st0 ops).catlen).map fun j => refIds.getD j 0) := bcast_same _ _ (by simp)
    have hms : bcast (arange (run st0 ops).catlen) (List.range (run st0 ops).catlen).length = some (arange (run st0 ops).catlen) :=
      bcast_same _ _ (by simp [arange_length])
    rw [match2ref_none _ _ hl, book_ok _ _ _ _ _ _ _ _ _ hin hrf hvs hms]
    refine ⟨rfl, _, _, rfl, rfl, ?_⟩
    intro i hi
    obtain ⟨hv1, hv2⟩ := book_views (run st0 ops) hm hr (List.range (run st0 ops).catlen)
      ((List.range (run st0 ops).catlen).map fun j => refIds.getD j 0) (arange (run st0 ops).catlen)
      (by simp) (by simp [arange_length]) i hi
    rw [hv1, hv2]
    have hk := isLast_range _ i hi
    have h1 : lastVal ((List.range (run st0 ops).catlen).zip ((List.range (run st0 ops).catlen).map fun j => refIds.getD j 0)) i
        = some (refIds.getD i 0) :=
      (lastVal_zip_some _ _ i _ (by simp)).mpr ⟨i, hk, by simp [hi]⟩
    have h2 : lastVal ((List.range (run st0 ops).catlen).zip (arange (run st0 ops).catlen)) i = some (i : Int) :=
      (lastVal_zip_some _ _ i _ (by simp [arange_length])).mpr ⟨i, hk, by simp [arange, hi]⟩
    rw [h1, h2]
    exact ⟨rfl, rfl⟩

/-- **Nothing of an earlier call survives** (the seeded bug class, stated outright): run ANY two operation
histories on the same group — other matches, failed matches, alignments, anything — and then the same
`match2ref` call: if it succeeds after one history it succeeds after the other, and a reader of
`matched_ref_id` and `_raw_matched_ref_idx` cannot tell the histories apart. -/
theorem match_forgets_history (w0 : Nat → K × K → K × K) (ms : List (Member K)) (st0 : GState K)
    (hc : createGroup w0 ms = .ok st0) (ops1 ops2 : List (GOp K)) (refIds mref minput : List Int)
    (htp1 : (run st0 ops1).tp.isSome) (htp2 : (run st0 ops2).tp.isSome) (hne : st0.catlen ≠ 0)
    (r : Nat × List Int × List Int)
    (hok : (match2ref (run st0 ops1) refIds (some (mref, minput))).res = .ok r) :
    (match2ref (run st0 ops2) refIds (some (mref, minput))).res = .ok r ∧
    ∃ c1 c2 raw1 raw2,
      (match2ref (run st0 ops1) refIds (some (mref, minput))).st.matchedRefId = some c1 ∧
      (match2ref (run st0 ops2) refIds (some (mref, minput))).st.matchedRefId = some c2 ∧
      (match2ref (run st0 ops1) refIds (some (mref, minput))).st.rawRefIdx = some raw1 ∧
      (match2ref (run st0 ops2) refIds (some (mref, minput))).st.rawRefIdx = some raw2 ∧
      c1.view = c2.view ∧ raw1.view = raw2.view := by
  have hinv1 := inv_run ops1 st0 (inv_create w0 ms st0 hc)
  have hinv2 := inv_run ops2 st0 (inv_create w0 ms st0 hc)
  have hl1 : (run st0 ops1).catlen = st0.catlen := hinv1.catlen
  have hl2 : (run st0 ops2).catlen = st0.catlen := hinv2.catlen
  have hm1 : ColLen (run st0 ops1).matchedRefId (run st0 ops1).catlen := hinv1.mri
  have hr1 : ColLen (run st0 ops1).rawRefIdx (run st0 ops1).catlen := hinv1.raw
  have hm2 : ColLen (run st0 ops2).matchedRefId (run st0 ops2).catlen := hinv2.mri
  have hr2 : ColLen (run st0 ops2).rawRefIdx (run st0 ops2).catlen := hinv2.raw
  rw [match2ref_some _ _ _ _ htp1 (by rw [hl1]; exact hne)] at hok ⊢
  rw [match2ref_some _ _ _ _ htp2 (by rw [hl2]; exact hne)]
  obtain ⟨inp, rf, vs, ms', h1, h2, h3, h4, hr⟩ := book_ok_inv _ _ _ _ _ _ hok
  have h1' : normAll (run st0 ops2).catlen minput = some inp := by rw [hl2, ← hl1]; exact h1
  rw [book_ok _ _ _ _ _ inp rf vs ms' h1 h2 h3 h4, book_ok _ _ _ _ _ inp rf vs ms' h1' h2 h3 h4]
  have hvl := bcast_length _ _ _ h3
  have hml := bcast_length _ _ _ h4
  refine ⟨by rw [hr], _, _, _, _, rfl, rfl, rfl, rfl, ?_, ?_⟩
  · apply List.ext_getElem?
    intro i
    by_cases hi : i < st0.catlen
    · rw [(book_views (run st0 ops1) hm1 hr1 inp vs ms' hvl.symm hml.symm i (by omega)).1,
          (book_views (run st0 ops2) hm2 hr2 inp vs ms' hvl.symm hml.symm i (by omega)).1]
    · rw [List.getElem?_eq_none_iff.mpr, List.getElem?_eq_none_iff.mpr]
      · rw [view_length _ (run st0 ops2).catlen (by rw [assign_length]; exact resetCol_data_length _ _ hm2)
          (by rw [assign_length, resetCol_mask _ _ hm2]; simp)]
        omega
      · rw [view_length _ (run st0 ops1).catlen (by rw [assign_length]; exact resetCol_data_length _ _ hm1)
          (by rw [assign_length, resetCol_mask _ _ hm1]; simp)]
        omega
  · apply List.ext_getElem?
    intro i
    by_cases hi : i < st0.catlen
    · rw [(book_views (run st0 ops1) hm1 hr1 inp vs ms' hvl.symm hml.symm i (by omega)).2,
          (book_views (run st0 ops2) hm2 hr2 inp vs ms' hvl.symm hml.symm i (by omega)).2]
    · rw [List.getElem?_eq_none_iff.mpr, List.getElem?_eq_none_iff.mpr]
      · rw [view_length _ (run st0 ops2).catlen (by rw [assign_length]; exact resetCol_data_length _ _ hr2)
          (by rw [assign_length, resetCol_mask _ _ hr2]; simp)]
        omega
      · rw [view_length _ (run st0 ops1).catlen (by rw [assign_length]; exact resetCol_data_length _ _ hr1)
          (by rw [assign_length, resetCol_mask _ _ hr1]; simp)]
        omega

/-- **Index arrays a matcher should not return — what the code does.**
(1) an input index outside the catalog: `IndexError`; `matched_ref_id` has just been reset, so EVERY row is
unmatched now, while `_raw_matched_ref_idx`, `_mref_idx`, `_minput_idx` still describe the earlier call;
(2) input indices fine, but a reference index outside the reference catalog (`IndexError`) or index arrays of
different lengths with more than one reference index (`ValueError`): the mask of `matched_ref_id` is already
open on the input rows while its DATA are those of earlier calls (or zero) — the rows look matched to stale
ids; the other three are untouched;
(3) ONE reference index for any number of input indices is broadcast: the call succeeds with `nmatches = 1`
and every named row carries the id of that reference row. -/
theorem match_bad_indices (w0 : Nat → K × K → K × K) (ms : List (Member K)) (st0 : GState K)
    (hc : createGroup w0 ms = .ok st0) (ops : List (GOp K)) (refIds mref minput : List Int)
    (htp : (run st0 ops).tp.isSome) (hne : (run st0 ops).catlen ≠ 0) :
    (normAll (run st0 ops).catlen minput = none →
      (match2ref (run st0 ops) refIds (some (mref, minput))).res = .error .indexError ∧
      (∃ c, (match2ref (run st0 ops) refIds (some (mref, minput))).st.matchedRefId = some c ∧
        ∀ i, i < (run st0 ops).catlen → c.view[i]? = some none) ∧
      (match2ref (run st0 ops) refIds (some (mref, minput))).st.rawRefIdx = (run st0 ops).rawRefIdx ∧
      (match2ref (run st0 ops) refIds (some (mref, minput))).st.mrefIdx = (run st0 ops).mrefIdx ∧
      (match2ref (run st0 ops) refIds (some (mref, minput))).st.minputIdx = (run st0 ops).minputIdx) ∧
    (∀ inp, normAll (run st0 ops).catlen minput = some inp →
      (normAll refIds.length mref = none ∨ (mref.length ≠ minput.length ∧ mref.length ≠ 1)) →
      ((match2ref (run st0 ops) refIds (some (mref, minput))).res = .error .indexError ∨
       (match2ref (run st0 ops) refIds (some (mref, minput))).res = .error .valueError) ∧
      (∃ c, (match2ref (run st0 ops) refIds (some (mref, minput))).st.matchedRefId = some c ∧
        c.data = (resetCol (run st0 ops).matchedRefId (run st0 ops).catlen).data ∧
        ∀ i, i < (run st0 ops).catlen → c.mask[i]? = some (decide (i ∉ inp))) ∧
      (match2ref (run st0 ops) refIds (some (mref, minput))).st.rawRefIdx = (run st0 ops).rawRefIdx ∧
      (match2ref (run st0 ops) refIds (some (mref, minput))).st.mrefIdx = (run st0 ops).mrefIdx ∧
      (match2ref (run st0 ops) refIds (some (mref, minput))).st.minputIdx = (run st0 ops).minputIdx) ∧
    (∀ inp j (jr : Int), normAll (run st0 ops).catlen minput = some inp → mref = [jr] →
      normIdx refIds.length jr = some j → minput.length ≠ 1 →
      (match2ref (run st0 ops) refIds (some (mref, minput))).res = .ok (1, mref, minput) ∧
      ∃ c, (match2ref (run st0 ops) refIds (some (mref, minput))).st.matchedRefId = some c ∧
        ∀ i, i < (run st0 ops).catlen →
          c.view[i]? = some (if i ∈ inp then some (refIds.getD j 0) else none)) := by
  have hinv := inv_run ops st0 (inv_create w0 ms st0 hc)
  have hm : ColLen (run st0 ops).matchedRefId (run st0 ops).catlen := hinv.mri
  have hr : ColLen (run st0 ops).rawRefIdx (run st0 ops).catlen := hinv.raw
  rw [match2ref_some _ _ _ _ htp hne]
  refine ⟨fun h1 => ?_, fun inp h1 h2 => ?_, fun inp j jr h1 hm1 hj hml => ?_⟩
  · rw [book_bad_input _ _ _ _ _ h1]
    refine ⟨rfl, ⟨_, rfl, fun i hi => ?_⟩, rfl, rfl, rfl⟩
    have := view_all_masked (resetCol (run st0 ops).matchedRefId (run st0 ops).catlen).data (run st0 ops).catlen
      (resetCol_data_length _ _ hm) i hi
    rw [← resetCol_mask _ _ hm] at this
    exact this
  · obtain ⟨hil, _, _⟩ := normAll_spec _ _ _ h1
    have hmask : ∀ i, i < (run st0 ops).catlen →
        (assign (resetCol (run st0 ops).matchedRefId (run st0 ops).catlen).mask inp (List.replicate inp.length false))[i]?
          = some (decide (i ∉ inp)) := by
      intro i hi
      rw [resetCol_mask _ _ hm]
      exact mask_after_assign _ inp i hi
    cases h3 : normAll refIds.length mref with
    | none =>
      rw [book_bad_ref _ _ _ _ _ inp h1 h3]
      exact ⟨Or.inl rfl, ⟨_, rfl, rfl, hmask⟩, rfl, rfl, rfl⟩
    | some rf =>
      obtain ⟨hrl, _, _⟩ := normAll_spec _ _ _ h3
      rcases h2 with h2 | ⟨h2, h2'⟩
      · rw [h3] at h2; cases h2
      · rw [book_bad_shape _ _ _ _ _ inp rf h1 h3 (by omega) (by omega)]
        exact ⟨Or.inr rfl, ⟨_, rfl, rfl, hmask⟩, rfl, rfl, rfl⟩
  · subst hm1
    obtain ⟨hil, _, _⟩ := normAll_spec _ _ _ h1
    have h3 : normAll refIds.length [jr] = some [j] := by
      unfold normAll
      rw [List.mapM_cons, hj]
      rfl
    have hvs : bcast ([j].map fun j => refIds.getD j 0) inp.length = some (List.replicate inp.length (refIds.getD j 0)) := by
      simp only [List.map_cons, List.map_nil]
      exact bcast_one _ _ (by omega)
    have hms : bcast [jr] inp.length = some (List.replicate inp.length jr) := bcast_one _ _ (by omega)
    rw [book_ok _ _ _ _ _ inp [j] _ _ h1 h3 hvs hms]
    refine ⟨rfl, _, rfl, fun i hi => ?_⟩
    obtain ⟨hv1, _⟩ := book_views (run st0 ops) hm hr inp (List.replicate inp.length (refIds.getD j 0))
      (List.replicate inp.length jr) (by simp) (by simp) i hi
    rw [hv1]
    by_cases hmem : i ∈ inp
    · obtain ⟨k, hk⟩ := exists_isLast inp i hmem
      have hkl : k < inp.length := by
        by_contra hcon
        have := hk.1
        rw [List.getElem?_eq_none_iff.mpr (by omega)] at this; cases this
      have : lastVal (inp.zip (List.replicate inp.length (refIds.getD j 0))) i = some (refIds.getD j 0) :=
        (lastVal_zip_some inp _ i _ (by simp)).mpr ⟨k, hk, by simp [hkl]⟩
      rw [this, if_pos hmem]
    · rw [(lastVal_zip_none inp _ i (by simp)).mpr hmem, if_neg hmem]

/-- **`get_matched_cat` / `get_unmatched_cat` partition the rows** after a successful `match2ref` (any history;
index arrays with or without repeats, negative indices allowed): both are sub-sequences of the catalog in
catalog order, disjoint, together all rows; a row is "matched" iff it is named by the input array of the last
call.  Without repeats the matched rows are a permutation of the input array and there are `nmatches` of them;
with repeats there are fewer than `nmatches` (the code counts pairs, not rows). -/
theorem matched_unmatched_partition (w0 : Nat → K × K → K × K) (ms : List (Member K)) (st0 : GState K)
    (hc : createGroup w0 ms = .ok st0) (ops : List (GOp K)) (refIds mref minput : List Int)
    (htp : (run st0 ops).tp.isSome) (hne : (run st0 ops).catlen ≠ 0) (r : Nat × List Int × List Int)
    (hok : (match2ref (run st0 ops) refIds (some (mref, minput))).res = .ok r) :
    ∃ inp M U, normAll (run st0 ops).catlen minput = some inp ∧
      getMatchedIdx (match2ref (run st0 ops) refIds (some (mref, minput))).st = .ok M ∧
      getUnmatchedIdx (match2ref (run st0 ops) refIds (some (mref, minput))).st = .ok U ∧
      M.Sublist (List.range (run st0 ops).catlen) ∧ U.Sublist (List.range (run st0 ops).catlen) ∧
      M.Pairwise (· < ·) ∧ U.Pairwise (· < ·) ∧
      (∀ i, i ∈ M ↔ i < (run st0 ops).catlen ∧ i ∈ inp) ∧
      (∀ i, i ∈ U ↔ i < (run st0 ops).catlen ∧ i ∉ inp) ∧
      (∀ i, ¬ (i ∈ M ∧ i ∈ U)) ∧ (∀ i, i < (run st0 ops).catlen → i ∈ M ∨ i ∈ U) ∧
      M.length + U.length = (run st0 ops).catlen ∧
      M.length ≤ minput.length ∧
      (inp.Nodup → M.Perm inp ∧ M.length = minput.length) := by
  have hinv := inv_run ops st0 (inv_create w0 ms st0 hc)
  obtain ⟨inp, c, hin, hcol, hmask, _, _, _⟩ := match2ref_ok_mask (run st0 ops) hinv refIds mref minput htp hne r hok
  obtain ⟨hil, hlt, _⟩ := normAll_spec _ _ _ hin
  have hM : maskSel c.mask false = (List.range (run st0 ops).catlen).filter fun i => decide (i ∉ inp) == false := by
    rw [hmask]; exact maskSel_after_assign _ _ _
  have hU : maskSel c.mask true = (List.range (run st0 ops).catlen).filter fun i => decide (i ∉ inp) == true := by
    rw [hmask]; exact maskSel_after_assign _ _ _
  have hclen : c.mask.length = (run st0 ops).catlen := by rw [hmask, assign_length]; simp
  have memM : ∀ i, i ∈ maskSel c.mask false ↔ i < (run st0 ops).catlen ∧ i ∈ inp := by
    intro i
    rw [hM, List.mem_filter, List.mem_range]
    by_cases h : i ∈ inp <;> simp [h]
  have memU : ∀ i, i ∈ maskSel c.mask true ↔ i < (run st0 ops).catlen ∧ i ∉ inp := by
    intro i
    rw [hU, List.mem_filter, List.mem_range]
    by_cases h : i ∈ inp <;> simp [h]
  have hsubM : (maskSel c.mask false).Sublist (List.range (run st0 ops).catlen) := by
    rw [← hclen]; exact maskSel_sublist _ _
  have hsubU : (maskSel c.mask true).Sublist (List.range (run st0 ops).catlen) := by
    rw [← hclen]; exact maskSel_sublist _ _
  have hMsub : maskSel c.mask false ⊆ inp := fun i hi => ((memM i).mp hi).2
  have hMle : (maskSel c.mask false).length ≤ inp.length :=
    (List.subperm_of_subset (maskSel_nodup _ _) hMsub).length_le
  refine ⟨inp, maskSel c.mask false, maskSel c.mask true, hin, ?_, ?_, hsubM, hsubU, maskSel_sorted _ _,
    maskSel_sorted _ _, memM, memU, ?_, ?_, ?_, by omega, ?_⟩
  · simp [getMatchedIdx, hcol]
  · simp [getUnmatchedIdx, hcol]
  · intro i ⟨h1, h2⟩
    exact ((memU i).mp h2).2 ((memM i).mp h1).2
  · intro i hi
    by_cases h : i ∈ inp
    · exact Or.inl ((memM i).mpr ⟨hi, h⟩)
    · exact Or.inr ((memU i).mpr ⟨hi, h⟩)
  · rw [← hclen]; exact maskSel_length_add _
  · intro hnd
    have hp : (maskSel c.mask false).Perm inp :=
      (List.perm_ext_iff_of_nodup (maskSel_nodup _ _) hnd).mpr fun i =>
        ⟨fun hi => ((memM i).mp hi).2, fun hi => (memM i).mpr ⟨hlt i hi, hi⟩⟩
    exact ⟨hp, by rw [hp.length_eq]; omega⟩

/-- **Selections outside a successful match, as the code behaves.**  Before the first `match2ref` both
selections raise `KeyError` (the column does not exist); after a call that failed on an input index outside the
catalog every row is "unmatched". -/
theorem selection_without_match (w0 : Nat → K × K → K × K) (ms : List (Member K)) (st0 : GState K)
    (hc : createGroup w0 ms = .ok st0) (ops : List (GOp K)) (refIds mref minput : List Int)
    (htp : (run st0 ops).tp.isSome) (hne : (run st0 ops).catlen ≠ 0)
    (hbad : normAll (run st0 ops).catlen minput = none) :
    getMatchedIdx st0 = .error .keyError ∧ getUnmatchedIdx st0 = .error .keyError ∧
    getMatchedIdx (match2ref (run st0 ops) refIds (some (mref, minput))).st = .ok [] ∧
    getUnmatchedIdx (match2ref (run st0 ops) refIds (some (mref, minput))).st = .ok (List.range (run st0 ops).catlen) := by
  have hinv := inv_run ops st0 (inv_create w0 ms st0 hc)
  have hm : ColLen (run st0 ops).matchedRefId (run st0 ops).catlen := hinv.mri
  have h0 : st0.matchedRefId = none := by
    unfold createGroup at hc
    split at hc
    · cases hc
    · injection hc with hc; subst hc; rfl
  rw [match2ref_some _ _ _ _ htp hne, book_bad_input _ _ _ _ _ hbad]
  refine ⟨by simp [getMatchedIdx, h0], by simp [getUnmatchedIdx, h0], ?_, ?_⟩
  · simp only [getMatchedIdx, resetCol_mask _ _ hm]
    congr 1
    unfold maskSel
    rw [List.filter_eq_nil_iff]
    intro i hi
    simp only [List.length_replicate, List.mem_range] at hi
    simp [List.getD_eq_getElem?_getD, List.getElem?_replicate, hi]
  · simp only [getUnmatchedIdx, resetCol_mask _ _ hm]
    congr 1
    unfold maskSel
    rw [List.length_replicate, List.filter_eq_self]
    intro i hi
    simp only [List.mem_range] at hi
    simp [List.getD_eq_getElem?_getD, List.getElem?_replicate, hi]

/-- **`recalc_catalog_radec` uses every row's OWN member.**  After any operation sequence, with `w p` the
current WCS of the member at position `p` of the member list (empty members included): row `r` — the `j`-th source
of the `k`-th non-empty member `m`, `k = _imcat_idx` — gets the sky position `w p (x, y)` where `p` is the position
of THAT member (`ms[p] = m`), also when empty members precede it. -/
theorem recalc_uses_own_member (w0 : Nat → K × K → K × K) (ms : List (Member K)) (st0 : GState K)
    (hc : createGroup w0 ms = .ok st0) (ops : List (GOp K)) (w : Nat → K × K → K × K) :
    ∀ r row, (recalcCatalogRadec (run st0 ops) w).rows[r]? = some row →
      ∃ p m j, (nonEmptyPos (ms.map (·.rows.length)))[row.imcatIdx]? = some p ∧ ms[p]? = some m ∧
        (nonEmptyCats ms)[row.imcatIdx]? = some m ∧ j < m.rows.length ∧
        r = groupOffset (nonEmptyCats ms) row.imcatIdx + j ∧
        (∃ hj : j < m.rows.length, row.id = (m.rows[j]).id ∧ row.xy = (m.rows[j]).xy) ∧
        row.radec = w p row.xy := by
  intro r row hrow
  obtain ⟨_, hlens, _⟩ := createGroup_fields w0 ms st0 hc
  have hinv := inv_run ops st0 (inv_create w0 ms st0 hc)
  have hrun : recalcCatalogRadec (run st0 ops) w = run st0 (ops ++ [GOp.recalc w]) := by
    simp [run, List.foldl_append, applyOp]
  obtain ⟨_, hb, hcv⟩ := imcat_idx_spec w0 ms st0 hc (ops ++ [GOp.recalc w])
  rw [← hrun] at hb hcv
  obtain ⟨m, j, hm, hj, hr⟩ := hcv r row hrow
  obtain ⟨p, hp, hmp, hrows⟩ := hb row.imcatIdx m hm
  obtain ⟨row', hrow', _, hid, hxy⟩ := hrows j hj
  rw [← hr, hrow] at hrow'
  injection hrow' with hrow'
  subst hrow'
  have hlens' : (recalcCatalogRadec (run st0 ops) w).memberLens = ms.map (·.rows.length) := by
    simp only [recalcCatalogRadec]; rw [hinv.lens, hlens]
  rw [hlens'] at hp
  refine ⟨p, m, j, hp, hmp, hm, hj, hr, ⟨hj, hid, hxy⟩, ?_⟩
  -- the sky position
  simp only [recalcCatalogRadec] at hrow
  rw [recalcFrom_eq, List.getElem?_map] at hrow
  cases hold : (run st0 ops).rows[r]? with
  | none => rw [hold] at hrow; cases hrow
  | some old =>
    rw [hold] at hrow
    simp only [Option.map_some, Option.some.injEq] at hrow
    rw [hinv.lens, hlens] at hrow
    have hk : old.imcatIdx = row.imcatIdx := by
      rw [← hrow]; unfold recalcFn; split <;> rfl
    have hplt : row.imcatIdx < (nonEmptyPos (ms.map (·.rows.length))).length := by
      by_contra hcon
      rw [List.getElem?_eq_none_iff.mpr (by omega)] at hp; cases hp
    unfold recalcFn at hrow
    rw [if_pos (by rw [hk]; omega)] at hrow
    rw [← hrow]
    simp only [hk, Nat.sub_zero, List.getD_eq_getElem?_getD, hp, Option.getD_some]

/-- **The pairs handed to the fitter** (extends `C09.weights_follow_pairs` to the state machine).  After any
history and a successful `match2ref` returning `mref`, `minput`, `fit2ref` — against a reference catalog with
tangent-plane positions `refTP` and optional weights `refW` — calls `iter_linear_fit(xy, uv, wxy, wuv)` with, for
every `k`: `xy[k]` = reference row `mref[k]`, `uv[k]` = group row `minput[k]` (tangent-plane columns of the last
`calc_tanp_xy`), `wxy[k]`, `wuv[k]` the weights of exactly those rows (indices as numpy reads them); a catalog
without weight column contributes `None`. -/
theorem fit2ref_pairs (w0 : Nat → K × K → K × K) (ms : List (Member K)) (st0 : GState K)
    (hc : createGroup w0 ms = .ok st0) (ops : List (GOp K)) (refIds mref minput : List Int)
    (htp : (run st0 ops).tp.isSome) (hne : (run st0 ops).catlen ≠ 0) (r : Nat × List Int × List Int)
    (hok : (match2ref (run st0 ops) refIds (some (mref, minput))).res = .ok r)
    (refTP : List (K × K)) (refW : Option (List K)) (a : PairArgs K)
    (hfit : fit2refSel (match2ref (run st0 ops) refIds (some (mref, minput))).st refTP refW = .ok a) :
    ∃ tpl inp rf, (run st0 ops).tp = some tpl ∧ tpl.length = (run st0 ops).catlen ∧
      normAll (run st0 ops).catlen minput = some inp ∧ normAll refTP.length mref = some rf ∧
      (a.xy.length = mref.length ∧ ∀ k, k < mref.length → a.xy[k]? = (rf[k]?).bind (refTP[·]?)) ∧
      (a.uv.length = minput.length ∧ ∀ k, k < minput.length → a.uv[k]? = (inp[k]?).bind (tpl[·]?)) ∧
      (refW = none → a.wxy = none) ∧
      (∀ w, refW = some w → ∃ wx, a.wxy = some wx ∧ wx.length = mref.length ∧
          ∀ k, k < mref.length → wx[k]? = (rf[k]?).bind (w[·]?)) ∧
      (st0.weight = none → a.wuv = none) ∧
      (∀ w, st0.weight = some w → ∃ wu, a.wuv = some wu ∧ wu.length = minput.length ∧
          ∀ k, k < minput.length → wu[k]? = (inp[k]?).bind (w[·]?)) := by
  have hinv := inv_run ops st0 (inv_create w0 ms st0 hc)
  obtain ⟨tpl, htpl⟩ := Option.isSome_iff_exists.mp htp
  have htl : tpl.length = (run st0 ops).catlen := hinv.tpLen tpl htpl
  rw [match2ref_some _ _ _ _ htp hne] at hok hfit
  obtain ⟨inp, rf0, vs, ms', h1, h2, h3, h4, _⟩ := book_ok_inv _ _ _ _ _ _ hok
  rw [book_ok _ _ _ _ _ inp rf0 vs ms' h1 h2 h3 h4] at hfit
  obtain ⟨hil, _, _⟩ := normAll_spec _ _ _ h1
  simp only [fit2refSel, bookState, htpl, htl, h1] at hfit
  cases hrf : normAll refTP.length mref with
  | none => rw [hrf] at hfit; simp at hfit
  | some rf =>
    rw [hrf] at hfit
    simp only at hfit
    obtain ⟨hrl, _, _⟩ := normAll_spec _ _ _ hrf
    cases hargs : fit2refArgs refTP refW tpl (run st0 ops).weight rf inp with
    | none => rw [hargs] at hfit; simp at hfit
    | some a' =>
      rw [hargs] at hfit
      simp only [Except.ok.injEq] at hfit
      subst hfit
      have := TW.C09.weights_follow_pairs refTP refW tpl (run st0 ops).weight rf inp a' hargs
      rw [hrl, hil, hinv.weight] at this
      exact ⟨tpl, inp, rf, htpl, htl, h1, rfl, this⟩

/-- **weights, end to end.**  If pair `k` of the last match names the `j`-th source of the `i`-th non-empty
member, the weight `wuv[k]` handed to `iter_linear_fit` is that member's `j`-th weight (and the group has a
weight column iff the member has one). -/
theorem fit2ref_weight_of_member (w0 : Nat → K × K → K × K) (ms : List (Member K)) (st0 : GState K)
    (hwf : ∀ m ∈ ms, ∀ w, m.weight = some w → w.length = m.rows.length)
    (hc : createGroup w0 ms = .ok st0) (ops : List (GOp K)) (refIds mref minput : List Int)
    (htp : (run st0 ops).tp.isSome) (hne : (run st0 ops).catlen ≠ 0) (r : Nat × List Int × List Int)
    (hok : (match2ref (run st0 ops) refIds (some (mref, minput))).res = .ok r)
    (refTP : List (K × K)) (refW : Option (List K)) (a : PairArgs K)
    (hfit : fit2refSel (match2ref (run st0 ops) refIds (some (mref, minput))).st refTP refW = .ok a)
    (inp : List Nat) (hin : normAll (run st0 ops).catlen minput = some inp)
    (k i j : Nat) (m : Member K) (wi : List K)
    (him : (nonEmptyCats ms)[i]? = some m) (hj : j < m.rows.length) (hw : m.weight = some wi)
    (hk : inp[k]? = some (groupOffset (nonEmptyCats ms) i + j)) :
    ∃ wu, a.wuv = some wu ∧ wu[k]? = wi[j]? := by
  obtain ⟨tpl, inp', rf, _, _, hin', _, _, _, _, _, _, hwuv⟩ :=
    fit2ref_pairs w0 ms st0 hc ops refIds mref minput htp hne r hok refTP refW a hfit
  rw [hin] at hin'
  injection hin' with hin'
  subst hin'
  obtain ⟨_, _, g, hg, hgw⟩ := createGroup_fields w0 ms st0 hc
  obtain ⟨_, hrows⟩ := TW.C09.group_weights_follow_images ms g hwf hg
  obtain ⟨_, hsome, hW⟩ := hrows i m him j hj
  have hgs : g.weight.isSome = true := by rw [hsome, hw]; rfl
  obtain ⟨W, hWeq⟩ := Option.isSome_iff_exists.mp hgs
  obtain ⟨wi', hwi', hWj⟩ := hW W hWeq
  rw [hw] at hwi'
  injection hwi' with hwi'
  subst hwi'
  obtain ⟨wu, hwu, _, hwuk⟩ := hwuv W (by rw [hgw, hWeq])
  obtain ⟨hil, _, _⟩ := normAll_spec _ _ _ hin
  have hklt : k < minput.length := by
    by_contra hcon
    rw [List.getElem?_eq_none_iff.mpr (by omega)] at hk; cases hk
  refine ⟨wu, hwu, ?_⟩
  rw [hwuk k hklt, hk]
  simpa using hWj

/-- **What `expand_catalog` appends after a successful alignment.**  Let `align_to_ref` return `True` on the
group after any history (`inp` = the input indices of its match, all rows for `match=None`).  Then
`refcat.expand_catalog(group.get_unmatched_cat())` keeps the reference rows and appends exactly the rows NOT
named by that match — each once, in catalog order (`U` is a duplicate-free sub-sequence of the row numbers) —
with ids `max+1, max+2, …`, and the `n`-th appended row carries the sky position `w' p (x, y)` of group row
`U[n]` under the CORRECTED WCS `w' p` of the member `p` that row comes from. -/
theorem unmatched_rows_appended [NatCast K] (w0 : Nat → K × K → K × K) (ms : List (Member K)) (st0 : GState K)
    (hc : createGroup w0 ms = .ok st0) (ops : List (GOp K)) (a : AlignArgs K) (pa : PairArgs K)
    (hne : (run st0 ops).catlen ≠ 0)
    (hok : (alignToRef (run st0 ops) a).res = .ok (true, some pa)) (ref : RefCat K) :
    ∃ inp U r', getUnmatchedIdx (alignToRef (run st0 ops) a).st = .ok U ∧
      (a.m = none → inp = List.range (run st0 ops).catlen) ∧
      (∀ mref minput, a.m = some (mref, minput) → normAll (run st0 ops).catlen minput = some inp) ∧
      U.Sublist (List.range (run st0 ops).catlen) ∧ U.Nodup ∧
      (∀ i, i ∈ U ↔ i < (run st0 ops).catlen ∧ i ∉ inp) ∧
      expandWithUnmatched (alignToRef (run st0 ops) a).st ref = .ok r' ∧
      r'.ids = ref.ids ++ (List.range U.length).map (fun (j : Nat) => maxIdL ref.ids + 1 + (j : Int)) ∧
      r'.radec.length = ref.radec.length + U.length ∧
      (∀ n, n < ref.radec.length → r'.radec[n]? = ref.radec[n]?) ∧
      ∀ n i, U[n]? = some i →
        ∃ row p m, (alignToRef (run st0 ops) a).st.rows[i]? = some row ∧
          (nonEmptyPos (ms.map (·.rows.length)))[row.imcatIdx]? = some p ∧ ms[p]? = some m ∧
          (nonEmptyCats ms)[row.imcatIdx]? = some m ∧
          r'.radec[ref.radec.length + n]? = some (a.w' p row.xy) := by
  have hinv := inv_run ops st0 (inv_create w0 ms st0 hc)
  obtain ⟨n, mr, mi, hres, _, _, _, hst⟩ := alignToRef_true_inv (run st0 ops) a pa hok
  have hinv1 : Inv st0 (calcTanpXY (run st0 ops) a.t) := inv_calcTp hinv a.t
  have hcl1 : (calcTanpXY (run st0 ops) a.t).catlen = (run st0 ops).catlen := rfl
  obtain ⟨inp, c, hnone, hsome, hcol, hmask, hrows, hweight, hlens⟩ :=
    match2ref_ok_mask_any (calcTanpXY (run st0 ops) a.t) hinv1 a.ref.ids a.m rfl (by rw [hcl1]; exact hne) _ hres
  rw [hcl1] at hnone hsome hmask
  -- the state after the alignment
  have hcol' : (alignToRef (run st0 ops) a).st.matchedRefId = some c := by rw [hst]; exact hcol
  have hU : maskSel c.mask true = (List.range (run st0 ops).catlen).filter fun i => decide (i ∉ inp) == true := by
    rw [hmask]; exact maskSel_after_assign _ _ _
  have memU : ∀ i, i ∈ maskSel c.mask true ↔ i < (run st0 ops).catlen ∧ i ∉ inp := by
    intro i
    rw [hU, List.mem_filter, List.mem_range]
    by_cases h : i ∈ inp <;> simp [h]
  have hclen : c.mask.length = (run st0 ops).catlen := by rw [hmask, assign_length]; simp
  have hget : getUnmatchedIdx (alignToRef (run st0 ops) a).st = .ok (maskSel c.mask true) := by
    simp [getUnmatchedIdx, hcol']
  -- the aligned state as a run of operations
  have hrun : (alignToRef (run st0 ops) a).st =
      recalcCatalogRadec (run st0 (ops ++ [GOp.calcTp a.t, GOp.match2ref a.ref.ids a.m])) a.w' := by
    rw [hst]
    simp [run, List.foldl_append, applyOp]
  have hinv2 := inv_run (ops ++ [GOp.calcTp a.t, GOp.match2ref a.ref.ids a.m, GOp.recalc a.w']) st0 (inv_create w0 ms st0 hc)
  have hrun2 : (alignToRef (run st0 ops) a).st = run st0 (ops ++ [GOp.calcTp a.t, GOp.match2ref a.ref.ids a.m, GOp.recalc a.w']) := by
    rw [hst]
    simp [run, List.foldl_append, applyOp]
  have hlen' : (alignToRef (run st0 ops) a).st.rows.length = (run st0 ops).catlen := by
    rw [hrun2]
    have h1 := hinv2.catlen
    have h2 := hinv.catlen
    simp only [GState.catlen] at h1 h2 ⊢
    omega
  have hlt : ∀ i ∈ maskSel c.mask true, i < (alignToRef (run st0 ops) a).st.rows.length := by
    intro i hi
    rw [hlen']
    exact ((memU i).mp hi).1
  obtain ⟨hsl, hsg⟩ := filterMap_getElem?_all (alignToRef (run st0 ops) a).st.rows (maskSel c.mask true) hlt
  refine ⟨inp, maskSel c.mask true,
    expandCatalog ref (selRows (alignToRef (run st0 ops) a).st (maskSel c.mask true))
      ((alignToRef (run st0 ops) a).st.weight.map fun w => (maskSel c.mask true).filterMap fun i => w[i]?),
    hget, hnone, hsome, ?_, maskSel_nodup _ _, memU, ?_, ?_, ?_, ?_, ?_⟩
  · rw [← hclen]; exact maskSel_sublist _ _
  · simp only [expandWithUnmatched, hget]
  · simp only [expandCatalog, selRows, hsl]
  · simp only [expandCatalog, selRows, List.length_append, List.length_map, hsl]
  · intro n hn
    simp only [expandCatalog]
    rw [List.getElem?_append_left hn]
  · intro n i hni
    have hi : i ∈ maskSel c.mask true := List.mem_of_getElem? hni
    have hil := hlt i hi
    obtain ⟨row, hrow⟩ : ∃ row, (alignToRef (run st0 ops) a).st.rows[i]? = some row :=
      ⟨_, List.getElem?_eq_getElem hil⟩
    have hrow2 : (recalcCatalogRadec (run st0 (ops ++ [GOp.calcTp a.t, GOp.match2ref a.ref.ids a.m])) a.w').rows[i]?
        = some row := by rw [← hrun]; exact hrow
    obtain ⟨p, m, j, hp, hmp, hm, _, _, _, hradec⟩ :=
      recalc_uses_own_member w0 ms st0 hc (ops ++ [GOp.calcTp a.t, GOp.match2ref a.ref.ids a.m]) a.w' i row hrow2
    refine ⟨row, p, m, hrow, hp, hmp, hm, ?_⟩
    simp only [expandCatalog, selRows]
    rw [List.getElem?_append_right (by omega)]
    have e : ref.radec.length + n - ref.radec.length = n := by omega
    rw [e, List.getElem?_map, hsg n i hni, hrow]
    simp only [Option.map_some, Option.some.injEq]
    exact hradec

/-- **The `'weight'` column after an expansion, as the code builds it** (`table.vstack(…, join_type='outer')`
read back with `np.asarray`): when only the group carries weights, every ORIGINAL reference row reads weight 0
afterwards; when only the reference catalog carries weights, every APPENDED row reads weight 0. -/
theorem expand_weight_outer_join [NatCast K] (ref : RefCat K) (un : List (GRow K)) (uw : List K) (rw : List K) :
    (ref.weight = none →
      (expandCatalog ref un (some uw)).weight = some (List.replicate ref.radec.length ((0 : Nat) : K) ++ uw)) ∧
    (ref.weight = some rw →
      (expandCatalog ref un none).weight = some (rw ++ List.replicate un.length ((0 : Nat) : K))) ∧
    (ref.weight = some rw → (expandCatalog ref un (some uw)).weight = some (rw ++ uw)) ∧
    (ref.weight = none → (expandCatalog ref un none).weight = none) := by
  refine ⟨fun h => ?_, fun h => ?_, fun h => ?_, fun h => ?_⟩ <;> simp [expandCatalog, outerWeight, h]

end groupcat

/-! #### non-vacuity and the witness of the repaired defect (concrete groups: `GCL.exMembers`, `GCL.exOps`, …) -/
section examples

-- construction: `_imcat_idx` counts the non-empty members, sky positions come from member positions 1 and 3
example : createGroup exW exMembers = .ok exState ∧
    exState.rows.map (fun r => (r.imcatIdx, r.id, r.radec)) =
      [(0, 1, (1005, 3)), (0, 2, (1015, 10)), (0, 3, (1025, 17)), (1, 7, (3006, 4)), (1, 9, (3016, 11))] ∧
    exState.weight = some [10, 20, 30, 40, 50] := ⟨rfl, by decide, by decide⟩

-- **the defect repaired by 324ab0c**: the loop over ALL members gives rows of the second non-empty member
-- (position 3) the WCS of position 1, and rows of the first the WCS of the EMPTY member at position 0 …
example : (recalcAllMembers exState exW).rows.map (·.radec) =
    [(5, 3), (15, 10), (25, 17), (1006, 4), (1016, 11)] := by decide
-- … the repaired loop uses every row's own member
example : (recalcCatalogRadec exState exW).rows.map (·.radec) =
    [(1005, 3), (1015, 10), (1025, 17), (3006, 4), (3016, 11)] := by decide

-- after the first two calls: rows 0 (last pair naming it: reference 2) and 4 (index -1) are matched
example : ((run exState exOps).matchedRefId.map MCol.view) = some [some 13, none, none, none, some 11] ∧
    ((run exState exOps).matchedRefId.map (·.data)) = some [13, 14, 13, 12, 11] := by decide

-- a third call with ONE pair: only that row is matched; the data under the mask still hold the old ids
example : (match2ref (run exState exOps) [21, 22] (some ([1], [2]))).res = .ok (1, [1], [2]) ∧
    ((match2ref (run exState exOps) [21, 22] (some ([1], [2]))).st.matchedRefId.map MCol.view) =
      some [none, none, some 22, none, none] ∧
    getMatchedIdx (match2ref (run exState exOps) [21, 22] (some ([1], [2]))).st = .ok [2] ∧
    getUnmatchedIdx (match2ref (run exState exOps) [21, 22] (some ([1], [2]))).st = .ok [0, 1, 3, 4] := by decide

-- index arrays a matcher should not return
example : (match2ref (run exState exOps) [21, 22] (some ([0], [5]))).res = .error .indexError ∧
    (match2ref (run exState exOps) [21, 22] (some ([2], [1]))).res = .error .indexError ∧
    ((match2ref (run exState exOps) [21, 22] (some ([2], [1]))).st.matchedRefId.map MCol.view) =
      some [none, some 14, none, none, none] ∧
    (match2ref (run exState exOps) [21, 22] (some ([0, 1], [1]))).res = .error .valueError ∧
    (match2ref (run exState exOps) [21, 22] (some ([1], [1, 3]))).res = .ok (1, [1], [1, 3]) := by decide

-- the arrays handed to the fitter after the last call of `exOps`
example : (fit2refSel (run exState exOps) [(100, 0), (200, 0), (300, 0)] (some [1, 2, 3])).toOption.map
      (fun a => (a.xy, a.uv, a.wxy, a.wuv)) =
    some ([(200, 0), (300, 0), (100, 0)], [(1005, 3), (1005, 3), (3016, 11)], some [2, 3, 1], some [10, 10, 50]) := by
  decide

-- a successful alignment followed by the expansion: the three unmatched rows, at the positions of the
-- corrected WCS `w' p (x, y) = (x + 1000 p + 1, y)`, ids 10, 11, 12; the original rows read weight 0
example : (alignToRef exState ⟨id, exRef, some ([0, 1], [1, 3]), none, 1, fun _ => .returned,
      fun p xy => (xy.1 + 1000 * p + 1, xy.2)⟩).res.toOption.map (·.1) = some true ∧
    ((expandWithUnmatched (alignToRef exState ⟨id, exRef, some ([0, 1], [1, 3]), none, 1, fun _ => .returned,
      fun p xy => (xy.1 + 1000 * p + 1, xy.2)⟩).st exRef).toOption.map fun r => (r.radec, r.ids, r.weight)) =
      some ([(1, 1), (2, 2), (1006, 3), (1026, 17), (3017, 11)], [5, 9, 10, 11, 12], some [0, 0, 10, 30, 50]) := by
  decide

end examples
end TW.C11
