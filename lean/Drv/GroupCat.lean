import Drv.Util
import Drv.C09
import Model.GroupCat
/-!
Driver operation `groupcat` (properties C11 / C09 / C14): run an operation sequence on the state-machine model
of `WCSGroupCatalog` (`Model/GroupCat.lean`) and print the canonical columns.  Pure plumbing: all numbers are
exact rationals (`num/den` or integers) and no arithmetic is performed on them.

```
groupcat M <n> <hasW> (<id> <x> <y> [<w>])*n | M … | W <cnt> (<pos> <x> <y> <ra> <dec>)*cnt | <op> | <op> …
```
`M` sections: the members of `self._images` in order; `W`: the table of `member[pos].det_to_world(x, y)` at
construction time.  Operations:

* `tp <cnt> (<ra> <dec> <tx> <ty>)*cnt` — `calc_tanp_xy` with the table of `world_to_tanp`;
* `match <nref> <id>*nref none` / `match <nref> <id>*nref idx <m> <mref>*m <n> <minput>*n` — `match2ref`;
* `matched`, `unmatched` — `get_matched_cat`, `get_unmatched_cat` (row numbers);
* `recalc <cnt> (<pos> <x> <y> <ra> <dec>)*cnt` — `recalc_catalog_radec` (`recalcall`: the loop before 324ab0c);
* `fit <nref> <hasW> (<tx> <ty> [<w>])*nref` — the arrays `fit2ref` hands to `iter_linear_fit`;
* `align <minobj|none> <fitmin> <fitok 1=returned 2=degenerate 0=raised> <nref> <hasW> (<ra> <dec> <id> [<w>])*nref <cnt> (<ra> <dec> <tx> <ty>)*cnt
   (none | idx <m> <mref>*m <n> <minput>*n) <cnt'> (<pos> <x> <y> <ra> <dec>)*cnt'` — `align_to_ref`;
* `expand <nref> <hasW> (<ra> <dec> <id> [<w>])*nref` — `refcat.expand_catalog(get_unmatched_cat())`;
* `dump` — the state.

Answer: one section per input section after the `W` table (the first one is the answer of the constructor),
joined by ` | `.
-/
namespace Drv.GCat
open TW TW.GC Drv

abbrev P := StateT (List String) Option

def pTok : P String := do
  match (← get) with
  | [] => failure
  | t :: rest => set rest; pure t

def pNat : P Nat := do let t ← pTok; match t.toNat? with | some n => pure n | none => failure
def pInt : P Int := do let t ← pTok; match t.toInt? with | some n => pure n | none => failure
def pRat : P Rat := do let t ← pTok; match parseRat t with | some q => pure q | none => failure
def pBool : P Bool := do let n ← pNat; pure (n != 0)

def pRep {α : Type} (p : P α) : Nat → P (List α)
  | 0 => pure []
  | n + 1 => do let a ← p; let r ← pRep p n; pure (a :: r)

def pEnd : P Unit := do if (← get).isEmpty then pure () else failure

def pPair : P (Rat × Rat) := do let a ← pRat; let b ← pRat; pure (a, b)

/-- a table `(pos, x, y) ↦ (ra, dec)` -/
def pWTable : P (List (Nat × (Rat × Rat) × (Rat × Rat))) := do
  let cnt ← pNat
  pRep (do let p ← pNat; let xy ← pPair; let rd ← pPair; pure (p, xy, rd)) cnt

/-- a table `(ra, dec) ↦ (tx, ty)` -/
def pTTable : P (List ((Rat × Rat) × (Rat × Rat))) := do
  let cnt ← pNat
  pRep (do let a ← pPair; let b ← pPair; pure (a, b)) cnt

/-- value returned for an argument that is not in a table (never produced by the harness) -/
def missing : Rat × Rat := (-987654321, -987654321)

def mkW (tab : List (Nat × (Rat × Rat) × (Rat × Rat))) (p : Nat) (xy : Rat × Rat) : Rat × Rat :=
  match tab.find? (fun e => e.1 == p && e.2.1 == xy) with
  | some e => e.2.2
  | none => missing

def mkT (tab : List ((Rat × Rat) × (Rat × Rat))) (rd : Rat × Rat) : Rat × Rat :=
  match tab.find? (fun e => e.1 == rd) with
  | some e => e.2
  | none => missing

def pMember : P (Member Rat) := do
  let n ← pNat
  let hw ← pBool
  let rows ← pRep (do let i ← pInt; let xy ← pPair; let w ← (if hw then (do let w ← pRat; pure (some w)) else pure none)
                      pure ((⟨i, xy⟩ : Src Rat), w)) n
  pure ⟨rows.map (·.1), if hw then some (rows.filterMap (·.2)) else none⟩

def pMatchSpec : P (Option (List Int × List Int)) := do
  let t ← pTok
  if t = "none" then pure none
  else if t = "idx" then do
    let m ← pNat; let a ← pRep pInt m
    let n ← pNat; let b ← pRep pInt n
    pure (some (a, b))
  else failure

def pRef : P (RefCat Rat) := do
  let n ← pNat
  let hw ← pBool
  let rows ← pRep (do let rd ← pPair; let i ← pInt; let w ← (if hw then (do let w ← pRat; pure (some w)) else pure none)
                      pure (rd, i, w)) n
  pure ⟨rows.map (·.1), rows.map (·.2.1), if hw then some (rows.filterMap (·.2.2)) else none⟩

def fmtQ (q : Rat) : String := s!"{q.num}/{q.den}"
def fmtP (p : Rat × Rat) : String := fmtQ p.1 ++ " " ++ fmtQ p.2
def joinS (l : List String) : String := " ".intercalate (l.filter (· ≠ ""))

def fmtErr : GErr → String
  | .keyError => "err keyError"
  | .valueError => "err valueError"
  | .runtimeError => "err runtimeError"
  | .indexError => "err indexError"
  | .attributeError => "err attributeError"
  | .fitError => "err fitError"

def fmtMCol (c : Option (MCol Int)) : String :=
  match c with
  | none => "0"
  | some c => joinS ["1", toString c.data.length, toString c.mask.length,
      joinS (c.data.map toString), joinS (c.mask.map fun b => if b then "1" else "0")]

def fmtIdxAttr (c : Option (List Int)) : String :=
  match c with
  | none => "0"
  | some l => joinS ["1", toString l.length, joinS (l.map toString)]

def fmtState (st : GState Rat) : String :=
  joinS ["cat", toString st.rows.length,
    joinS (st.rows.map fun r => joinS [toString r.imcatIdx, toString r.id, fmtP r.xy, fmtP r.radec]),
    "w", (match st.weight with | none => "0" | some w => joinS ["1", toString w.length, joinS (w.map fmtQ)]),
    "tp", (match st.tp with | none => "0" | some l => joinS ["1", toString l.length, joinS (l.map fmtP)]),
    "mri", fmtMCol st.matchedRefId, "raw", fmtMCol st.rawRefIdx,
    "mref", fmtIdxAttr st.mrefIdx, "minput", fmtIdxAttr st.minputIdx]

def fmtPairArgs (a : PairArgs Rat) : String :=
  let w (o : Option (List Rat)) : String := match o with
    | none => "0"
    | some l => joinS ["1", toString l.length, joinS (l.map fmtQ)]
  joinS [toString a.xy.length, joinS (a.xy.map fmtP), toString a.uv.length, joinS (a.uv.map fmtP), w a.wxy, w a.wuv]

def fmtRef (r : RefCat Rat) : String :=
  joinS [toString r.radec.length, joinS (r.radec.map fmtP), toString r.ids.length, joinS (r.ids.map toString),
    (match r.weight with | none => "0" | some w => joinS ["1", toString w.length, joinS (w.map fmtQ)])]

/-- one operation section: new state and the answer -/
def gcOp (st : GState Rat) (sec : List String) : Option (GState Rat × String) :=
  match sec with
  | [] => none
  | op :: rest =>
    let runP {α : Type} (p : P α) : Option α := (do let a ← p; pEnd; pure a : P α).run' rest
    match op with
    | "dump" => if rest.isEmpty then some (st, fmtState st) else none
    | "tp" => (runP pTTable).map fun tab => (calcTanpXY st (mkT tab), "ok")
    | "match" => (runP (do let n ← pNat; let ids ← pRep pInt n; let m ← pMatchSpec; pure (ids, m))).map fun (ids, m) =>
        let s := match2ref st ids m
        (s.st, match s.res with
          | .error e => fmtErr e
          | .ok (n, a, b) => joinS ["ok", toString n, toString a.length, joinS (a.map toString), toString b.length,
              joinS (b.map toString)])
    | "matched" => if rest.isEmpty then some (st, match getMatchedIdx st with
          | .error e => fmtErr e
          | .ok l => joinS ["ok", toString l.length, joinS (l.map toString)]) else none
    | "unmatched" => if rest.isEmpty then some (st, match getUnmatchedIdx st with
          | .error e => fmtErr e
          | .ok l => joinS ["ok", toString l.length, joinS (l.map toString)]) else none
    | "recalc" => (runP pWTable).map fun tab => (recalcCatalogRadec st (mkW tab), "ok")
    | "recalcall" => (runP pWTable).map fun tab => (recalcAllMembers st (mkW tab), "ok")
    | "fit" => (runP (do
          let n ← pNat; let hw ← pBool
          let rows ← pRep (do let p ← pPair; let w ← (if hw then (do let w ← pRat; pure (some w)) else pure none); pure (p, w)) n
          pure (rows.map (·.1), if hw then some (rows.filterMap (·.2)) else none))).map fun (refTP, refW) =>
        (st, match fit2refSel st refTP refW with
          | .error e => fmtErr e
          | .ok a => joinS ["ok", fmtPairArgs a])
    | "align" => (runP (do
          let mo ← pTok
          let minobj ← (if mo = "none" then pure none else match mo.toNat? with | some n => pure (some n) | none => failure)
          let fitmin ← pNat; let fitok ← pNat
          let ref ← pRef; let tt ← pTTable; let m ← pMatchSpec; let wt ← pWTable
          pure (⟨mkT tt, ref, m, minobj, fitmin, fun _ => (if fitok = 1 then FitOutcome.returned else if fitok = 2 then .degenerate else .raised), mkW wt⟩ : AlignArgs Rat))).map fun a =>
        let s := alignToRef st a
        (s.st, match s.res with
          | .error e => fmtErr e
          | .ok (b, pa) => joinS ["ok", if b then "1" else "0", match pa with | none => "" | some pa => fmtPairArgs pa])
    | "expand" => (runP pRef).map fun ref =>
        (st, match expandWithUnmatched st ref with
          | .error e => fmtErr e
          | .ok r => joinS ["ok", fmtRef r])
    | _ => none

def gcRun (st : GState Rat) : List (List String) → List String → Option (List String)
  | [], acc => some acc.reverse
  | sec :: t, acc =>
    match gcOp st sec with
    | none => none
    | some (st', out) => gcRun st' t (out :: acc)

/-- read the leading `M` sections -/
def gcMembers : List (List String) → List (Member Rat) → Option (List (Member Rat) × List (List String))
  | ("M" :: rest) :: t, acc =>
    match (do let m ← pMember; pEnd; pure m : P (Member Rat)).run' rest with
    | some m => gcMembers t (m :: acc)
    | none => none
  | secs, acc => some (acc.reverse, secs)

def opGroupCat (args : List String) : String :=
  match gcMembers (splitBar args) [] with
  | some (ms, ("W" :: wrest) :: ops) =>
    match (do let t ← pWTable; pEnd; pure t : P _).run' wrest with
    | none => "bad-op"
    | some tab =>
      match createGroup (mkW tab) ms with
      | .error e => fmtErr e
      | .ok st =>
        match gcRun st ops ["ok"] with
        | none => "bad-op"
        | some outs => " | ".intercalate outs
  | _ => "bad-op"

end Drv.GCat

def Drv.opsGroupCat : List (String × (List String → String)) := [("groupcat", Drv.GCat.opGroupCat)]
