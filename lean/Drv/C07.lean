import Drv.Util
import Model.Clip
/-!
Driver operation `iterfit` (properties C07 and C09): run the model of `iter_linear_fit`.

```
iterfit <F|Q> <fitgeom> <nclip|none> <sigma|none> <sigstat> <accum 0|1> <eps> <center: -|cx,cy>
        <wmode n|x|u|b> <N> <x y u v>*N [<wxy>*N] [<wuv>*N]
```
`<eps>` is the pivot threshold of `inv`; the threshold of the collinearity guard of `fit_general`
is fixed to `numpy.finfo(numpy.double).eps = 2^-52` (`epsDStr`).
`F`: IEEE doubles, the code's metric (Euclidean norms, `rmse`/`mae`/`std`).
`Q`: exact rationals, root-free metric (`shift`/`general`, statistic `rmse` only); the `rmse`
slot of the answer then holds the mean square and `mae`, `std` are `-`.

Answer: `ok <m00 m01 m10 m11> <sx sy> <eff_nclip> <fitmask bits> <rmse> <mae> <std> <cx cy> <ex ey>`
(`sx sy` relative to the centre as `iter_linear_fit` reports them, `ex ey` re-centred to (0,0) as
`fit2ref` does) or `err <kind>`.
-/
namespace Drv
open TW

def errName : FitErr → String
  | .notEnoughPoints => "notEnoughPoints"
  | .singular => "singular"
  | .badWeights => "badWeights"
  | .badArg => "badArg"

def bits (m : List Bool) : String :=
  if m.isEmpty then "-" else String.ofList (m.map fun b => if b then '1' else '0')

def parseIntOpt (s : String) : Option (Option Int) :=
  if s = "none" then some none else s.toInt?.map some

section
variable {K : Type} [Add K] [Sub K] [Mul K] [Div K] [Neg K] [LT K] [DecidableLT K] [NatCast K] [Sc K]

def parseNumOpt (s : String) : Option (Option K) :=
  if s = "none" then some none else (Sc.parse s : Option K).map some

def parseCenter (s : String) : Option (Option (K × K)) :=
  if s = "-" then some none else
  match s.splitOn "," with
  | [a, b] => do
    let x ← (Sc.parse a : Option K)
    let y ← (Sc.parse b : Option K)
    pure (some (x, y))
  | _ => none

def toObs : List K → List (Obs K)
  | x :: y :: u :: v :: rest => ⟨x, y, u, v⟩ :: toObs rest
  | _ => []

/-- the parsed data block: points and the two optional weight vectors -/
def parseData (wmode : String) (n : Nat) (nums : List K) :
    Option (List (Obs K) × Option (List K) × Option (List K)) :=
  let pts := toObs (nums.take (4 * n))
  let rest := nums.drop (4 * n)
  if pts.length ≠ n ∨ nums.length < 4 * n then none else
  match wmode with
  | "n" => if rest.length = 0 then some (pts, none, none) else none
  | "x" => if rest.length = n then some (pts, some rest, none) else none
  | "u" => if rest.length = n then some (pts, none, some rest) else none
  | "b" => if rest.length = 2 * n then some (pts, some (rest.take n), some (rest.drop n)) else none
  | _ => none

def fmtRes (r : IterRes K) (full : Bool) : String :=
  let e := recentre r.lin r.center
  "ok " ++ fmtAll [r.lin.m00, r.lin.m01, r.lin.m10, r.lin.m11, r.lin.sx, r.lin.sy]
    ++ " " ++ toString r.effNclip ++ " " ++ bits r.fitmask ++ " "
    ++ (if full then fmtAll [r.stats.rmse, r.stats.mae, r.stats.std]
        else Sc.fmt r.stats.rmse ++ " - -")
    ++ " " ++ fmtAll [r.center.1, r.center.2, e.1, e.2]

end

def opIterF (args : List String) : String :=
  match args with
  | geoms :: nclips :: sigmas :: sigstat :: accums :: epss :: centers :: wmode :: ns :: rest =>
    match FitGeom.ofString? geoms, parseIntOpt nclips, (parseNumOpt sigmas : Option (Option Float)),
          (Sc.parse epss : Option Float), (parseCenter centers : Option (Option (Float × Float))),
          ns.toNat?, (parseAll rest : Option (List Float)) with
    | none, some _, some _, some _, some _, some _, some _ => "err badArg"   -- unsupported fitgeom
    | some g, some nclip, some sigma, some eps, some center, some n, some nums =>
      if accums ≠ "0" ∧ accums ≠ "1" then "bad-op" else
      match parseData wmode n nums, (Sc.parse epsDStr : Option Float) with
      | some (obs, wxy, wuv), some epsD =>
        match iterLinearFit eps epsD g obs wxy wuv center nclip (sigma.map fun s => (s, sigstat))
                (accums == "1") with
        | .ok r => fmtRes r true
        | .error e => "err " ++ errName e
      | _, _ => "bad-op"
    | _, _, _, _, _, _, _ => "bad-op"
  | _ => "bad-op"

def opIterQ (args : List String) : String :=
  match args with
  | geoms :: nclips :: sigmas :: sigstat :: accums :: epss :: centers :: wmode :: ns :: rest =>
    match FitGeom.ofString? geoms, parseIntOpt nclips, (parseNumOpt sigmas : Option (Option Rat)),
          (Sc.parse epss : Option Rat), (parseCenter centers : Option (Option (Rat × Rat))),
          ns.toNat?, (parseAll rest : Option (List Rat)) with
    | none, some _, some _, some _, some _, some _, some _ => "err badArg"
    | some g, some nclip, some sigma, some eps, some center, some n, some nums =>
      if accums ≠ "0" ∧ accums ≠ "1" then "bad-op" else
      if sigstat ≠ "rmse" ∧ sigma.isSome then "bad-op" else      -- root-free metric: rmse only
      if g ≠ .shift ∧ g ≠ .general then "bad-op" else
      match parseData wmode n nums, (Sc.parse epsDStr : Option Rat) with
      | some (obs, wxy, wuv), some epsD =>
        match iterLinearFitSq eps epsD g obs wxy wuv center nclip sigma (accums == "1") with
        | .ok r => fmtRes r false
        | .error e => "err " ++ errName e
      | _, _ => "bad-op"
    | _, _, _, _, _, _, _ => "bad-op"
  | _ => "bad-op"

def opsC07 : List (String × (List String → String)) :=
  [("iterfit", fun args => match args with
      | "Q" :: rest => opIterQ rest
      | "F" :: rest => opIterF rest
      | _ => "bad-op")]

end Drv
