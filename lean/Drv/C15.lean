import Drv.Util
import Model.Overlap
namespace Drv
open TW

def fmtNats (l : List Nat) : String := " ".intercalate (l.map toString)

def fmtOptNat : Option Nat → String
  | some k => toString k
  | none => "none"

def joinTokens (l : List String) : String := " ".intercalate (l.filter (· ≠ ""))

/-- `pair <n> <enforce 0|1> … ` see `opsC15` -/
def opPair (K : Type) [LT K] [DecidableLT K] [Add K] [NatCast K] [Sc K] (args : List String) : String :=
  match args with
  | es :: ns :: rest =>
    match es.toNat?, ns.toNat? with
    | some e, some n =>
      if e > 1 then "bad-op" else
      let withFlags := rest.length = 2 * n * n ∧ n ≠ 0
      if rest.length ≠ n * n ∧ ¬ withFlags then "bad-op" else
      match (parseAll (rest.take (n * n)) : Option (List K)), parseNats (rest.drop (n * n)) with
      | some areas, some flags =>
        let g : List (List (K × Nat)) :=
          (List.range n).map fun p => (List.range n).map fun q =>
            (areas.getD (p * n + q) zeroK, flags.getD (p * n + q) 0)
        match maxOverlapPair (e == 1) n g with
        | .ok r =>
          joinTokens ["ok", fmtOptNat r.ref, fmtOptNat r.im,
            (match r.area with | some a => Sc.fmt a | none => "none"), fmtNats r.rest,
            if withFlags then (if r.warn then "| warn 1" else "| warn 0") else ""]
        | .error .indexError => "err indexError"
      | _, _ => "bad-op"
    | _, _ => "bad-op"
  | _ => "bad-op"

def opNext (K : Type) [LT K] [DecidableLT K] [Add K] [NatCast K] [Sc K] (args : List String) : String :=
  match args with
  | es :: ns :: rest =>
    match es.toNat?, ns.toNat? with
    | some e, some n =>
      if e > 1 then "bad-op" else
      let withFlags := rest.length = 2 * n ∧ n ≠ 0
      if rest.length ≠ n ∧ ¬ withFlags then "bad-op" else
      match (parseAll (rest.take n) : Option (List K)), parseNats (rest.drop n) with
      | some areas, some flags =>
        let gl : List (K × Nat) := (List.range n).map fun k => (areas.getD k zeroK, flags.getD k 0)
        match maxOverlapImage (e == 1) gl with
        | some r =>
          joinTokens ["ok", toString r.idx, Sc.fmt r.area, fmtNats r.rest,
            if withFlags then (if r.warn then "| warn 1" else "| warn 0") else ""]
        | none => "ok none none"
      | _, _ => "bad-op"
    | _, _ => "bad-op"
  | _ => "bad-op"

/-- `groups <id…>`: `-` is "no group id"; answer: groups separated by blanks, members by commas -/
def opGroups (args : List String) : String :=
  let ids : Option (List (Option Nat)) := args.mapM fun s => if s == "-" then some none else s.toNat?.map some
  match ids with
  | some l => joinTokens ("ok" :: (formGroups l).map fun g => ",".intercalate (g.map toString))
  | none => "bad-op"

/--
* `pair <Q|F> <enforce 0|1> <n> <n*n areas> [<n*n failure counts>]` →
  `ok <ref|none> <im|none> <area|none> <remaining positions…> [| warn <0|1>]`;
  entry `(p, q)` of the table is what `images[p]._guarded_intersection_area(images[q])` returns
* `nextimage <Q|F> <enforce> <n> <n areas with the reference> [<n failure counts>]` →
  `ok <idx> <area> <remaining…> [| warn <0|1>]`, or `ok none none` on an empty list
* `groups <ids…>` → `ok <group> <group> …`
-/
def opsC15 : List (String × (List String → String)) :=
  [("pair", fun args => match args with
      | "Q" :: rest => opPair Rat rest
      | "F" :: rest => opPair Float rest
      | _ => "bad-op"),
   ("nextimage", fun args => match args with
      | "Q" :: rest => opNext Rat rest
      | "F" :: rest => opNext Float rest
      | _ => "bad-op"),
   ("groups", opGroups)]

end Drv
