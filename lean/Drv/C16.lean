import Drv.Util
import Model.Hull
namespace Drv
open TW

def pairUp {K : Type} : List K → List (K × K)
  | a :: b :: rest => (a, b) :: pairUp rest
  | _ => []

def fmtPts {K : Type} [Sc K] (l : List (K × K)) : String :=
  toString l.length ++ (if l.isEmpty then "" else " ") ++ fmtAll (l.flatMap fun p => [p.1, p.2])

/-- `none` or a number -/
def parseSep {K : Type} [Sc K] (s : String) : Option (Option K) :=
  if s = "none" then some none else (Sc.parse s : Option K).map some

/-- `hull <mode> <min_separation | none> <n> <x0 y0 … x(n-1) y(n-1)>` →
`ok <1|0: isStrictlyConvexCCW of the result> <k> <x y …>` or `err negSeparation` -/
def opHull (K : Type) [Add K] [Sub K] [Mul K] [Div K] [Neg K] [LT K] [DecidableLT K] [NatCast K] [Sc K]
    (args : List String) : String :=
  match args with
  | seps :: ns :: rest =>
    match (parseSep seps : Option (Option K)), ns.toNat?, (parseAll rest : Option (List K)) with
    | some sep, some n, some l =>
      if l.length ≠ 2 * n then "bad-op" else
      match convexHull sep (pairUp l) with
      | .ok h => "ok " ++ (if isStrictlyConvexCCW h then "1 " else "0 ") ++ fmtPts h
      | .error .negSeparation => "err negSeparation"
    | _, _, _ => "bad-op"
  | _ => "bad-op"

/-- `smallbox F <min_separation> <d2r> <footprint_tol arcsec> <n> <x y …>`: the polygon that
`RefCatalog._calc_cat_convex_hull` builds in its tangent plane → `ok <k> <x y …>` -/
def opSmallBox (args : List String) : String :=
  match args with
  | seps :: d2rs :: ftols :: ns :: rest =>
    match (Sc.parse seps : Option Float), (Sc.parse d2rs : Option Float), (Sc.parse ftols : Option Float),
        ns.toNat?, (parseAll rest : Option (List Float)) with
    | some sep, some d2r, some ftol, some n, some l =>
      if l.length ≠ 2 * n then "bad-op" else
      match convexHull (some sep) (pairUp l) with
      | .ok h =>
        if h.isEmpty then "err noPoints" else "ok " ++ fmtPts (refFootprint (boxTol d2r ftol) h)
      | .error .negSeparation => "err negSeparation"
    | _, _, _, _, _ => "bad-op"
  | _ => "bad-op"

def opsC16 : List (String × (List String → String)) :=
  [("hull", fun args => match args with
      | "Q" :: rest => opHull Rat rest
      | "F" :: rest => opHull Float rest
      | _ => "bad-op"),
   ("smallbox", fun args => match args with
      | "F" :: rest => opSmallBox rest
      | _ => "bad-op")]

end Drv
