import Drv.Util
import Model.ChipBorder
namespace Drv
open TW TW.Chip

/-- `none <rest…>` or `lx hx ly hy <rest…>` -/
def parseBBox {K : Type} [Sc K] (args : List String) : Option (Option (Rect K) × List String) :=
  match args with
  | "none" :: rest => some (none, rest)
  | a :: b :: c :: d :: rest =>
    match (Sc.parse a : Option K), (Sc.parse b : Option K), (Sc.parse c : Option K), (Sc.parse d : Option K) with
    | some lx, some hx, some ly, some hy => some (some ⟨lx, hx, ly, hy⟩, rest)
    | _, _, _, _ => none
  | _ => none

def pairUpCB {K : Type} : List K → List (K × K)
  | a :: b :: rest => (a, b) :: pairUpCB rest
  | _ => []

/-- `chipborder <mode> <lx hx ly hy | none> <stepsize | none> <n> <x0 y0 … x(n-1) y(n-1)>` →
`ok <lx hx ly hy> <npts> <x y …>` (the rectangle and the border handed to
`det_to_world`; the catalog enters the rectangle in both branches: without bounding box through its
largest coordinates, with one through the sources that the half-pixel shrink must not pass) or `err emptyCatalog` / `err zeroStep` -/
def opChipBorder (K : Type) [Add K] [Sub K] [Mul K] [Div K] [Neg K] [LT K] [DecidableLT K] [NatCast K]
    [HasFloor K] [Sc K] (args : List String) : String :=
  match (parseBBox args : Option (Option (Rect K) × List String)) with
  | some (bbox, steps :: ns :: rest) =>
    let step : Option (Option K) := if steps = "none" then some none else (Sc.parse steps : Option K).map some
    match step, ns.toNat?, (parseAll rest : Option (List K)) with
    | some st, some n, some l =>
      if l.length ≠ 2 * n then "bad-op" else
      match chipPolygon bbox st (pairUpCB l) with
      | .ok p =>
        "ok " ++ fmtAll [p.rect.lx, p.rect.hx, p.rect.ly, p.rect.hy] ++ " " ++ toString p.pts.length ++ " " ++
          fmtAll (p.pts.flatMap fun q => [q.1, q.2])
      | .error .emptyCatalog => "err emptyCatalog"
      | .error .zeroStep => "err zeroStep"
    | _, _, _ => "bad-op"
  | _ => "bad-op"

def opsChipBorder : List (String × (List String → String)) :=
  [("chipborder", fun args => match args with
      | "Q" :: rest => opChipBorder Rat rest
      | "F" :: rest => opChipBorder Float rest
      | _ => "bad-op")]

end Drv
