import Drv.Util
import Model.Equiv
/-!
Driver operations for C08 (equivariance of the fits).

`fit8 <Q|F> <geom> <n> <wmode> <eps> <cx> <cy> <6n numbers: x y u v wx wu per row>`
  geom  = shift | general | rscale | rshift     (Q only for shift/general: no trigonometry on ℚ)
  wmode = 0 no weights | 1 wxy only | 2 wuv only | 3 both
  eps   = the `tiny` of `linalg.inv` (used by `general` only; the threshold of its collinearity
          guard is fixed to `numpy.finfo(numpy.double).eps = 2^-52`)
  cx cy = rotation centre: the rows are centred (`Row.centre`), fitted, and the *effective* map
          `Lin.eff` is printed (`0/1 0/1` = no centring)
  → `ok m00 m01 m10 m11 sx sy` | `err <kind>`
`clip8 <Q|F> <nsigma> <stat> <norms…>` → `ok <0|1 per norm>`   (the comparison of the clipping loop)
-/
namespace Drv
open TW

def fitErrStr8 : FitErr → String
  | .notEnoughPoints => "err notEnoughPoints"
  | .singular => "err singular"
  | .badWeights => "err badWeights"
  | .badArg => "err badArg"

section
variable (K : Type) [Add K] [Sub K] [Mul K] [Div K] [Neg K] [LT K] [DecidableLT K] [NatCast K] [Sc K]

def mkRows8 : List K → Option (List (Row K))
  | [] => some []
  | x :: y :: u :: v :: wx :: wu :: rest => do
      let rs ← mkRows8 rest
      pure (⟨⟨x, y, u, v⟩, wx, wu⟩ :: rs)
  | _ => none

def fmtLin8 (L : Lin K) : String :=
  "ok " ++ fmtAll [L.m00, L.m01, L.m10, L.m11, L.sx, L.sy]

def wflags8 (wmode : Nat) : Option (Bool × Bool) :=
  match wmode with
  | 0 => some (false, false)
  | 1 => some (true, false)
  | 2 => some (false, true)
  | 3 => some (true, true)
  | _ => none

/-- the header common to all geometries; `run` receives the flags, `eps`, the threshold `epsD = 2^-52`
of the collinearity guard of `fit_general`, and the centred rows -/
def opFit8With (run : Bool → Bool → K → K → List (Row K) → Except FitErr (Lin K)) (args : List String) : String :=
  match args with
  | ns :: wms :: epss :: cxs :: cys :: rest =>
    match ns.toNat?, wms.toNat?, (Sc.parse epss : Option K), (Sc.parse cxs : Option K),
        (Sc.parse cys : Option K), (parseAll rest : Option (List K)) with
    | some n, some wm, some eps, some cx, some cy, some nums =>
      match wflags8 wm, mkRows8 K nums with
      | some (bx, bu), some rows =>
        if rows.length ≠ n then "bad-op" else
        let c : V2 K := ⟨cx, cy⟩
        match (Sc.parse epsDStr : Option K) with
        | none => "bad-op"
        | some epsD =>
        match run bx bu eps epsD (rows.map (Row.centre c)) with
        | .ok L => fmtLin8 K (Lin.eff c L)
        | .error e => fitErrStr8 e
      | _, _ => "bad-op"
    | _, _, _, _, _, _ => "bad-op"
  | _ => "bad-op"

def opFit8NoTrig (args : List String) : String :=
  match args with
  | "shift" :: rest => opFit8With K (fun bx bu _ _ rows => fitShiftsR bx bu rows) rest
  | "general" :: rest => opFit8With K (fun bx bu eps epsD rows => fitGeneralR eps epsD bx bu rows) rest
  | _ => "bad-op"

def opClip8 (args : List String) : String :=
  match args with
  | nss :: sts :: rest =>
    match (Sc.parse nss : Option K), (Sc.parse sts : Option K), (parseAll rest : Option (List K)) with
    | some ns, some st, some norms =>
      "ok " ++ " ".intercalate ((clipKeep ns st norms).map fun b => if b then "1" else "0")
    | _, _, _ => "bad-op"
  | _ => "bad-op"

end

def opFit8Float (args : List String) : String :=
  match args with
  | "rscale" :: rest => opFit8With Float (fun bx bu _ _ rows => fitRscaleR bx bu none rows) rest
  | "rshift" :: rest =>
      opFit8With Float (fun bx bu _ _ rows => fitRscaleR bx bu (some (1.0 : Float)) rows) rest
  | _ => opFit8NoTrig Float args

def opsC08 : List (String × (List String → String)) :=
  [("fit8", fun args => match args with
      | "Q" :: rest => opFit8NoTrig Rat rest
      | "F" :: rest => opFit8Float rest
      | _ => "bad-op"),
   ("clip8", fun args => match args with
      | "Q" :: rest => opClip8 Rat rest
      | "F" :: rest => opClip8 Float rest
      | _ => "bad-op")]

end Drv
