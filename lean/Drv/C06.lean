import Drv.Util
import Model.Fit
namespace Drv
open TW

/-!
Driver operations of C06: the single-shot fitters.

`fit <mode Q|F> <geom shift|rshift|rscale|general> <n> <wmode 0|1|2|3> <x y u v>*n [wxy*n] [wuv*n]`

* `wmode`: 0 no weights, 1 `wxy` only, 2 `wuv` only, 3 both (first the `n` values of `wxy`, then
  the `n` values of `wuv`);
* answer: `ok m00 m01 m10 m11 sx sy` (`matrix = [[m00, m01], [m10, m11]]`, `shift = (sx, sy)`) or
  `err notEnoughPoints | singular | badWeights | badArg`;
* `Q` (exact rationals) exists for `shift` and `general` only (no square root / trigonometry on
  `Rat`); `rshift` is `fit_rscale(scale=1)`;
* the `eps` of the inverse in `general` is `numpy.finfo(numpy.double).tiny = 2^-1022`, the
  threshold of its collinearity guard `numpy.finfo(numpy.double).eps = 2^-52`.
-/

def fmtFit {K : Type} [Sc K] (r : Except FitErr (Lin K)) : String :=
  match r with
  | .ok L => "ok " ++ fmtAll [L.m00, L.m01, L.m10, L.m11, L.sx, L.sy]
  | .error .notEnoughPoints => "err notEnoughPoints"
  | .error .singular => "err singular"
  | .error .badWeights => "err badWeights"
  | .error .badArg => "err badArg"

def mkObs {K : Type} : List K → List (Obs K)
  | x :: y :: u :: v :: rest => ⟨x, y, u, v⟩ :: mkObs rest
  | _ => []

/-- `<n> <wmode> <numbers…>` ↦ observations and the two optional weight lists -/
def parseFit (K : Type) [Sc K] (args : List String) :
    Option (List (Obs K) × Option (List K) × Option (List K)) :=
  match args with
  | ns :: wm :: rest =>
    match ns.toNat?, wm.toNat?, (parseAll rest : Option (List K)) with
    | some n, some w, some l =>
      if 3 < w then none else
      let hasXY := w = 1 ∨ w = 3
      let hasUV := w = 2 ∨ w = 3
      let nw := (if hasXY then n else 0) + (if hasUV then n else 0)
      if l.length ≠ 4 * n + nw then none else
      let obs := mkObs (l.take (4 * n))
      let r := l.drop (4 * n)
      let wxy := if hasXY then some (r.take n) else none
      let wuv := if hasUV then some (if hasXY then r.drop n else r.take n) else none
      some (obs, wxy, wuv)
    | _, _, _ => none
  | _ => none

/-- `2^-1022` written as a rational -/
def tinyStr : String := "1/" ++ toString ((2 : Nat) ^ 1022)

/-- the two fitters without trigonometry -/
def opFitLin (K : Type) [Add K] [Sub K] [Mul K] [Div K] [Neg K] [LT K] [DecidableLT K] [NatCast K] [Sc K]
    (geom : String) (args : List String) : String :=
  match parseFit K args, (Sc.parse tinyStr : Option K), (Sc.parse epsDStr : Option K) with
  | some (obs, wxy, wuv), some eps, some epsD =>
    if geom = "shift" then fmtFit (fitShifts obs wxy wuv)
    else if geom = "general" then fmtFit (fitGeneral eps epsD obs wxy wuv)
    else "bad-op"
  | _, _, _ => "bad-op"

/-- `fit_rscale` / `fit_rshift` -/
def opFitSim (K : Type) [Add K] [Sub K] [Mul K] [Div K] [Neg K] [LT K] [DecidableLT K] [NatCast K]
    [HasTrig K] [Sc K] (geom : String) (args : List String) : String :=
  match parseFit K args with
  | some (obs, wxy, wuv) =>
    if geom = "rscale" then fmtFit (fitRscale obs wxy wuv none)
    else if geom = "rshift" then fmtFit (fitRscale obs wxy wuv (some oneK))
    else "bad-op"
  | none => "bad-op"

def opFit (args : List String) : String :=
  match args with
  | "Q" :: geom :: rest =>
    if geom = "shift" ∨ geom = "general" then opFitLin Rat geom rest else "bad-op"
  | "F" :: geom :: rest =>
    if geom = "shift" ∨ geom = "general" then opFitLin Float geom rest
    else if geom = "rscale" ∨ geom = "rshift" then opFitSim Float geom rest
    else "bad-op"
  | _ => "bad-op"

def opsC06 : List (String × (List String → String)) := [("fit", opFit)]

end Drv
