import Drv.Util
import Model.LinAlg
namespace Drv
open TW

def listToMat {K : Type} [NatCast K] (n : Nat) (l : List K) : Mat n K :=
  Mat.ofFn fun i j => l.getD (i.val * n + j.val) ((0 : Nat) : K)

def matToList {K : Type} {n : Nat} (m : Mat n K) : List K :=
  (List.finRange n).flatMap fun i => (List.finRange n).map fun j => m.get i j

/-- `inv <n> <eps> <n*n entries>` -/
def opInv (K : Type) [Add K] [Sub K] [Mul K] [Div K] [Neg K] [LT K] [DecidableLT K] [NatCast K] [Sc K]
    (args : List String) : String :=
  match args with
  | ns :: epss :: rest =>
    match ns.toNat?, (Sc.parse epss : Option K), (parseAll rest : Option (List K)) with
    | some n, some eps, some l =>
      if l.length ≠ n * n then "err notSquare" else
      match invSq eps (listToMat n l) with
      | .ok x => "ok " ++ fmtAll (matToList x)
      | .error .singular => "err singular"
      | .error .notSquare => "err notSquare"
    | _, _, _ => "bad-op"
  | _ => "bad-op"

/-- operations of this file: name ↦ handler on the remaining tokens (the first is the scalar mode) -/
def opsC17 : List (String × (List String → String)) :=
  [("inv", fun args => match args with
      | "Q" :: rest => opInv Rat rest
      | "F" :: rest => opInv Float rest
      | _ => "bad-op")]

end Drv
