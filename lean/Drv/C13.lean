import Drv.Util
import Model.Align
namespace Drv
open TW

/-- token reader -/
abbrev Rd := StateT (List String) Option

def rdTok : Rd String := do
  match (← get) with
  | [] => failure
  | t :: ts => set ts; pure t

def rdNat : Rd Nat := do
  let t ← rdTok
  match t.toNat? with
  | some n => pure n
  | none => failure

def rdInt : Rd Int := do
  let t ← rdTok
  match t.toInt? with
  | some n => pure n
  | none => failure

def rdMany {α : Type} (k : Nat) (r : Rd α) : Rd (List α) :=
  match k with
  | 0 => pure []
  | k + 1 => do let a ← r; let rest ← rdMany k r; pure (a :: rest)

def rdLit (s : String) : Rd Unit := do
  let t ← rdTok
  if t == s then pure () else failure

def rdSc (K : Type) [Sc K] : Rd K := do
  let t ← rdTok
  match (Sc.parse t : Option K) with
  | some v => pure v
  | none => failure

def rdImg : Rd Img := do
  let g ← rdTok
  let gid : Option Nat ← (if g == "-" then pure none else match g.toNat? with
    | some n => pure (some n)
    | none => failure)
  let k ← rdNat
  let srcs ← rdMany k rdNat
  pure { gid := gid, sources := srcs }

structure Scenario (K : Type) where
  cfg : AlignCfg
  imgs : List Img
  refIn : Option (List Nat × Option (List Int))
  pairG : List (List (K × Nat))
  areas : List ((Nat × Nat) × (K × Nat))

def rdScenario (K : Type) [Sc K] [NatCast K] : Rd (Scenario K) := do
  let e ← rdNat; let u ← rdNat; let minobj ← rdNat; let fitmin ← rdNat; let md ← rdNat
  if e > 1 ∨ u > 1 ∨ md > 1 then failure
  rdLit "I"
  let nimg ← rdNat
  let imgs ← rdMany nimg rdImg
  rdLit "R"
  let rk ← rdTok
  let refIn : Option (List Nat × Option (List Int)) ←
    if rk == "none" then pure none
    else if rk == "table" then do
      let k ← rdNat
      let srcs ← rdMany k rdNat
      let hasId ← rdNat
      if hasId == 1 then do
        let ids ← rdMany k rdInt
        pure (some (srcs, some ids))
      else pure (some (srcs, none))
    else failure
  rdLit "P"
  let n ← rdNat
  let ar ← rdMany (n * n) (rdSc K)
  let fl ← rdMany (n * n) rdNat
  let pairG : List (List (K × Nat)) := (List.range n).map fun p => (List.range n).map fun q =>
    (ar.getD (p * n + q) zeroK, fl.getD (p * n + q) 0)
  rdLit "A"
  let cnt ← rdNat
  let areas ← rdMany cnt (do
    let len ← rdNat; let g ← rdNat; let a ← rdSc K; let f ← rdNat
    pure ((len, g), (a, f)))
  let rest ← get
  if !rest.isEmpty then failure
  pure { cfg := { expand := e == 1, enforce := u == 1, minobj := minobj, fitmin := fitmin,
                  mode := if md == 1 then .none1to1 else .ideal },
         imgs := imgs, refIn := refIn, pairG := pairG, areas := areas }

def fmtStatus : Status → String
  | .reference => "R"
  | .success => "S"
  | .failed .emptyCatalog => "E"
  | .failed .notEnoughMatches => "M"

def fmtEvent : Event → String
  | .status k s => s!"s{k}:{fmtStatus s}"
  | .correct k => s!"c{k}"

def fmtErr : AlignErr → String
  | .notEnoughCatalogs => "notEnoughCatalogs"
  | .emptyRefcat => "emptyRefcat"
  | .lengthMismatch => "lengthMismatch"
  | .indexError => "indexError"

def fmtGroup (g : List Nat) : String := ",".intercalate (g.map toString)

def fmtRow (r : RefRow) : String :=
  s!"{r.src}:{r.id}:" ++ (match r.origin with | some k => toString k | none => "-")

/-- `align <Q|F> <expand> <enforce> <minobj> <fitgeom minimum> <mode 0|1> I <nimg> {<gid|-> <nsrc> <src…>}
R none | R table <n> <src…> <0|1> [<id…>]  P <n> <n*n areas> <n*n flags>
A <cnt> {<catlen> <group> <area> <flag>}` →
`<ok|err:kind> | T <events…> | O <group#nmatches…> | C <src:id:origin…> | X <group/ok/zero/nrows…>`
(the area table `A` answers `refArea cat g` by `(cat.length, g)`; a missing entry is `0`: it can
only be requested in enforced order, where entries other than the first are not read) -/
def opAlign (K : Type) [LT K] [DecidableLT K] [Add K] [NatCast K] [BEq K] [Sc K]
    (args : List String) : String :=
  match (rdScenario K).run args with
  | none => "bad-op"
  | some (sc, _) =>
    let refArea : List RefRow → Nat → K × Nat := fun cat g =>
      match sc.areas.lookup (cat.length, g) with
      | some v => v
      | none => (zeroK, 0)
    let out := alignWcs sc.imgs sc.refIn sc.cfg sc.pairG refArea
    let head := match out.err with | none => "ok" | some e => "err:" ++ fmtErr e
    " ".intercalate ([head, "|", "T"] ++ out.events.map fmtEvent ++ ["|", "O"] ++ (out.order.zip out.nms).map (fun p => fmtGroup p.1 ++ "#" ++ toString p.2)
      ++ ["|", "C"] ++ out.refcat.map fmtRow
      ++ ["|", "X"] ++ out.expansions.map fun x =>
          s!"{fmtGroup x.group}/{if x.ok then 1 else 0}/{if x.areaZero then 1 else 0}/{x.rows.length}")

def opsC13 : List (String × (List String → String)) :=
  [("align", fun args => match args with
      | "Q" :: rest => opAlign Rat rest
      | "F" :: rest => opAlign Float rest
      | _ => "bad-op")]

end Drv
