import Drv.Util
import Model.Align
namespace Drv
open TW

/-- token reader -/
abbrev Rd := StateT (List String) Option

def rdTok : Rd String := do
  match (← get) with
  | [] => failure
  | t :: ts => set ts; pure t

def rdNat : Rd Nat := do
  let t ← rdTok
  match t.toNat? with
  | some n => pure n
  | none => failure

def rdInt : Rd Int := do
  let t ← rdTok
  match t.toInt? with
  | some n => pure n
  | none => failure

def rdMany {α : Type} (k : Nat) (r : Rd α) : Rd (List α) :=
  match k with
  | 0 => pure []
  | k + 1 => do let a ← r; let rest ← rdMany k r; pure (a :: rest)

def rdLit (s : String) : Rd Unit := do
  let t ← rdTok
  if t == s then pure () else failure

def rdSc (K : Type) [Sc K] : Rd K := do
  let t ← rdTok
  match (Sc.parse t : Option K) with
  | some v => pure v
  | none => failure

/-- `<gid|-> <fit flag: 0 none | 1 singular | 2 not enough points> <nsrc> <src…>` -/
def rdImg : Rd Img := do
  let g ← rdTok
  let gid : Option Nat ← (if g == "-" then pure none else match g.toNat? with
    | some n => pure (some n)
    | none => failure)
  let fl ← rdNat
  let ff : Option FitFail ← (match fl with
    | 0 => pure none
    | 1 => pure (some .singular)
    | 2 => pure (some .notEnoughPoints)
    | _ => failure)
  let k ← rdNat
  let srcs ← rdMany k rdNat
  pure { gid := gid, sources := srcs, fitFail := ff }

structure Scenario (K : Type) where
  cfg : AlignCfg
  imgs : List Img
  refIn : Option (List Nat × Option (List Int))
  pairG : List (List (K × Nat))
  areas : List ((Nat × Nat) × (K × Nat))

/-- `P <n> <n*n areas> <n*n flags> A <cnt> {<catlen> <group> <area> <flag>}` up to the end of the line -/
def rdAreas (K : Type) [Sc K] [NatCast K] : Rd (List (List (K × Nat)) × List ((Nat × Nat) × (K × Nat))) := do
  rdLit "P"
  let n ← rdNat
  let ar ← rdMany (n * n) (rdSc K)
  let fl ← rdMany (n * n) rdNat
  let pairG : List (List (K × Nat)) := (List.range n).map fun p => (List.range n).map fun q =>
    (ar.getD (p * n + q) zeroK, fl.getD (p * n + q) 0)
  rdLit "A"
  let cnt ← rdNat
  let areas ← rdMany cnt (do
    let len ← rdNat; let g ← rdNat; let a ← rdSc K; let f ← rdNat
    pure ((len, g), (a, f)))
  let rest ← get
  if !rest.isEmpty then failure
  pure (pairG, areas)

def rdTable : Rd (List Nat × Option (List Int)) := do
  let k ← rdNat
  let srcs ← rdMany k rdNat
  let hasId ← rdNat
  if hasId == 1 then do
    let ids ← rdMany k rdInt
    pure (srcs, some ids)
  else pure (srcs, none)

def rdBool : Rd Bool := do
  let n ← rdNat
  if n > 1 then failure else pure (n == 1)

def rdCat : Rd CatArg := do
  let t ← rdTok
  if t == "o" then pure .ok else if t == "m" then pure .missing else if t == "x" then pure .noXY else failure

/-- `k<fitmin>` known, `u` unknown string, `n` not a string -/
def rdFitgeom : Rd FitgeomArg := do
  let t ← rdTok
  if t == "u" then pure .unknown
  else if t == "n" then pure .notString
  else if t.startsWith "k" then
    match (t.drop 1).toNat? with
    | some m => pure (.known m)
    | none => failure
  else failure

/-- `align_wcs` arguments: `<expand> <enforce> <minobj|-> <fitgeom> <mode> W single <cat> <img> |
W list <n> {<isCorrector> <cat> <img>} | W bad   R none | R corr <hasCatalog> <n> <src…> |
R table <hasRADEC> <n> <src…> <0|1> [<id…>] | R unsupported` -/
def rdArgs : Rd AlignArgs := do
  let e ← rdBool; let u ← rdBool
  let mo ← rdTok
  let minobj : Option Nat ← (if mo == "-" then pure none else match mo.toNat? with
    | some n => pure (some n)
    | none => failure)
  let fg ← rdFitgeom
  let md ← rdBool
  rdLit "W"
  let wk ← rdTok
  let wcscat : WcscatArg ←
    if wk == "bad" then pure .notIterable
    else if wk == "single" then do
      let c ← rdCat; let i ← rdImg
      pure (.single c i)
    else if wk == "list" then do
      let n ← rdNat
      let l ← rdMany n (do
        let ic ← rdBool; let c ← rdCat; let i ← rdImg
        pure ({ isCorrector := ic, cat := c, img := i } : ImgArg))
      pure (.list l)
    else failure
  rdLit "R"
  let rk ← rdTok
  let refcat : RefArg ←
    if rk == "none" then pure .none
    else if rk == "unsupported" then pure .unsupported
    else if rk == "corr" then do
      let hc ← rdBool; let k ← rdNat; let srcs ← rdMany k rdNat
      pure (.corrector hc srcs)
    else if rk == "table" then do
      let hr ← rdBool
      let t ← rdTable
      pure (.table hr t.1 t.2)
    else failure
  pure { wcscat := wcscat, refcat := refcat, fitgeom := fg, minobj := minobj, expand := e, enforce := u,
         mode := if md then .none1to1 else .ideal }

def rdScenario (K : Type) [Sc K] [NatCast K] : Rd (Scenario K) := do
  let e ← rdNat; let u ← rdNat; let minobj ← rdNat; let fitmin ← rdNat; let md ← rdNat
  if e > 1 ∨ u > 1 ∨ md > 1 then failure
  rdLit "I"
  let nimg ← rdNat
  let imgs ← rdMany nimg rdImg
  rdLit "R"
  let rk ← rdTok
  let refIn : Option (List Nat × Option (List Int)) ←
    if rk == "none" then pure none
    else if rk == "table" then do
      let t ← rdTable
      pure (some t)
    else failure
  let (pairG, areas) ← rdAreas K
  pure { cfg := { expand := e == 1, enforce := u == 1, minobj := minobj, fitmin := fitmin,
                  mode := if md == 1 then .none1to1 else .ideal },
         imgs := imgs, refIn := refIn, pairG := pairG, areas := areas }

def fmtStatus : Status → String
  | .reference => "R"
  | .success => "S"
  | .failed .emptyCatalog => "E"
  | .failed .notEnoughMatches => "M"
  | .failed .singularMatrix => "G"
  | .failed .notEnoughPoints => "P"
  | .failed .unknownError => "U"

def fmtEvent : Event → String
  | .status k s => s!"s{k}:{fmtStatus s}"
  | .correct k => s!"c{k}"

def fmtErr : AlignErr → String
  | .notEnoughCatalogs => "notEnoughCatalogs"
  | .emptyRefcat => "emptyRefcat"
  | .lengthMismatch => "lengthMismatch"
  | .indexError => "indexError"
  | .fitError .singular => "fitError:singular"
  | .fitError .notEnoughPoints => "fitError:notEnoughPoints"
  | .fitgeomKeyError => "fitgeomKeyError"
  | .wcscatType => "wcscatType"
  | .noCatalog => "noCatalog"
  | .catalogNoXY => "catalogNoXY"
  | .fitgeomNotString => "fitgeomNotString"
  | .badFitgeom => "badFitgeom"
  | .refNoCatalog => "refNoCatalog"
  | .refNoRADEC => "refNoRADEC"
  | .refcatType => "refcatType"
  | .metaNotWritable => "metaNotWritable"

def fmtGroup (g : List Nat) : String := ",".intercalate (g.map toString)

def fmtRow (r : RefRow) : String :=
  s!"{r.src}:{r.id}:" ++ (match r.origin with | some k => toString k | none => "-")

def fmtOut (out : AlignOut) : String :=
  let head := match out.err with | none => "ok" | some e => "err:" ++ fmtErr e
  " ".intercalate ([head, "|", "T"] ++ out.events.map fmtEvent ++ ["|", "O"] ++ (out.order.zip out.nms).map (fun p => fmtGroup p.1 ++ "#" ++ toString p.2)
    ++ ["|", "C"] ++ out.refcat.map fmtRow
    ++ ["|", "X"] ++ out.expansions.map fun x =>
        s!"{fmtGroup x.group}/{if x.ok then 1 else 0}/{if x.areaZero then 1 else 0}/{x.rows.length}")

/-- `align <Q|F> <expand> <enforce> <minobj> <fitgeom minimum> <mode 0|1> I <nimg> {<gid|-> <fit flag 0|1|2> <nsrc> <src…>}
R none | R table <n> <src…> <0|1> [<id…>]  P <n> <n*n areas> <n*n flags>
A <cnt> {<catlen> <group> <area> <flag>}` →
`<ok|err:kind> | T <events…> | O <group#nmatches…> | C <src:id:origin…> | X <group/ok/zero/nrows…>`
(the area table `A` answers `refArea cat g` by `(cat.length, g)`; a missing entry is `0`: it can
only be requested in enforced order, where entries other than the first are not read) -/
def opAlign (K : Type) [LT K] [DecidableLT K] [Add K] [NatCast K] [BEq K] [Sc K]
    (args : List String) : String :=
  match (rdScenario K).run args with
  | none => "bad-op"
  | some (sc, _) =>
    let refArea : List RefRow → Nat → K × Nat := fun cat g =>
      match sc.areas.lookup (cat.length, g) with
      | some v => v
      | none => (zeroK, 0)
    fmtOut (alignWcs sc.imgs sc.refIn sc.cfg sc.pairG refArea)

/-- `alignentry <Q|F> <args, see rdArgs> P … A …` → as `align` -/
def opAlignEntry (K : Type) [LT K] [DecidableLT K] [Add K] [NatCast K] [BEq K] [Sc K]
    (args : List String) : String :=
  match (do let a ← rdArgs; let pa ← rdAreas K; pure (a, pa)).run args with
  | none => "bad-op"
  | some ((a, pairG, areas), _) =>
    let refArea : List RefRow → Nat → K × Nat := fun cat g =>
      match areas.lookup (cat.length, g) with
      | some v => v
      | none => (zeroK, 0)
    fmtOut (alignWcsEntry a pairG refArea)

/-- `fitwcs <metaWritable> <fitgeom> <cat> <img> <refHasRADEC> <nref> <src…>` → `<ok|err:kind> | T <events…>` -/
def opFitWcs (args : List String) : String :=
  match (do
      let mw ← rdBool; let fg ← rdFitgeom; let c ← rdCat; let i ← rdImg
      let hr ← rdBool; let k ← rdNat; let srcs ← rdMany k rdNat
      let rest ← get
      if !rest.isEmpty then failure
      pure ({ metaWritable := mw, fitgeom := fg, cat := c, img := i, refHasRADEC := hr, refSrcs := srcs } : FitArgs)
    ).run args with
  | none => "bad-op"
  | some (a, _) =>
    let out := fitWcs a
    let head := match out.err with | none => "ok" | some e => "err:" ++ fmtErr e
    " ".intercalate ([head, "|", "T"] ++ out.events.map fmtEvent)

def opsC13 : List (String × (List String → String)) :=
  [("align", fun args => match args with
      | "Q" :: rest => opAlign Rat rest
      | "F" :: rest => opAlign Float rest
      | _ => "bad-op"),
   ("alignentry", fun args => match args with
      | "Q" :: rest => opAlignEntry Rat rest
      | "F" :: rest => opAlignEntry Float rest
      | _ => "bad-op"),
   ("fitwcs", opFitWcs)]

end Drv
