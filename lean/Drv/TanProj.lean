import Drv.Util
import Model.TanProj
/-!
Driver operations for the concrete V2V3 ⇄ tangent-plane pipeline (`Model/TanProj.lean`).

Float ops (`F` only: they need `HasTrig`/`HasSqrt`): `<v2_ref> <v3_ref> <roll_ref>` are the
arguments of `_tpcorr_init` (degrees), the optional affine is `m00 m01 m10 m11 t0 t1`
(`tp_affine`), the point is the last two tokens.

* `tp.U F ref(3) [aff(6)] v2 v3`     → `ok x y`   (`v2v3ToTpcorr`; `tpU` without affine)
* `tp.Uinv F ref(3) [aff(6)] x y`    → `ok v2 v3` (`tpcorrToV2v3`: the INVERSE of the affine is
                                                     applied; `tpUinv` without affine)
* `tp.total F ref(3) [aff(6)] v2 v3`    → `ok v2' v3'` (`totalCorr`)
* `tp.totalinv F ref(3) [aff(6)] v2 v3` → `ok v2' v3'` (`invTotalCorr`)
* `tp.dom F ref(3) v2 v3`            → `ok 0|1`   (`tpInDomain`)
* `tp.rot F ref(3)`                  → `ok <9 entries of rot> <9 entries of rot_inv>`

Exact op for the Cartesian core (`Q` or `F`):

* `tp.cart <mode> r(9) [ri(9)] aff(6) u v` → `ok u' v'`:
  `c2tan (r · (ri · tan2c (aff (u, v))))`; `ri = rᵀ` when omitted; `err div0` when the first
  coordinate of the rotated vector is zero (the real code divides by it).
* `tp.combine <mode> <k> aff(6)×k` → `ok aff(6) affinv(6)`: `_tpcorr_combine_affines` applied `k`
  times to a fresh `_tpcorr_init` (`tp_affine`, then `tp_affine_inv`); `err singular` when the
  accumulated matrix has determinant zero (`np.linalg.inv` raises).
* `tp.cart3 <mode> r(9) [ri(9)] aff(6) x y z` → `ok x' y' z'`:
  `ri · tan2c (aff (c2tan (r · (x, y, z))))`; `err div0` when `(r·v).x = 0`.
-/
namespace Drv
open TW

section
variable (K : Type) [Add K] [Sub K] [Mul K] [Div K] [Neg K] [NatCast K] [LT K] [DecidableLT K] [Sc K]

def idAff : Aff K := Aff.id

def mkAff6 (l : List K) : Option (Aff K) :=
  match l with
  | [a, b, c, d, x, y] => some ⟨⟨a, b, c, d⟩, ⟨x, y⟩⟩
  | _ => none

def mkM3 (l : List K) : Option (M3 K) :=
  match l with
  | [a, b, c, d, e, f, g, h, i] => some ⟨a, b, c, d, e, f, g, h, i⟩
  | _ => none

def m3List (m : M3 K) : List K := [m.a00, m.a01, m.a02, m.a10, m.a11, m.a12, m.a20, m.a21, m.a22]

/-- `ref(3) [aff(6)] p(2)` -/
def parseRefAffPt (args : List String) : Option (K × K × K × Aff K × V2 K) :=
  match parseAll (K := K) args with
  | some [a, b, c, x, y] => some (a, b, c, idAff K, ⟨x, y⟩)
  | some [a, b, c, m0, m1, m2, m3, t0, t1, x, y] =>
    some (a, b, c, ⟨⟨m0, m1, m2, m3⟩, ⟨t0, t1⟩⟩, ⟨x, y⟩)
  | _ => none

def fmtV2' (p : V2 K) : String := Sc.fmt p.x ++ " " ++ Sc.fmt p.y

variable [HasTrig K] [HasSqrt K]

def opTp (f : K → K → K → Aff K → V2 K → V2 K) (args : List String) : String :=
  match parseRefAffPt K args with
  | some (a, b, c, aff, p) => "ok " ++ fmtV2' K (f a b c aff p)
  | none => "bad-op"

def opTpDom (args : List String) : String :=
  match parseAll (K := K) args with
  | some [a, b, c, x, y] => if tpInDomain a b c (⟨x, y⟩ : V2 K) then "ok 1" else "ok 0"
  | _ => "bad-op"

def opTpRot (args : List String) : String :=
  match parseAll (K := K) args with
  | some [a, b, c] => "ok " ++ fmtAll (m3List K (tpRot a b c) ++ m3List K (tpRotInv a b c))
  | _ => "bad-op"

end

section
variable (K : Type) [Add K] [Sub K] [Mul K] [Div K] [Neg K] [NatCast K] [LT K] [DecidableLT K] [Sc K]

/-- `r(9) [ri(9)] aff(6) rest` -/
def parseCart (nrest : Nat) (args : List String) : Option (M3 K × M3 K × Aff K × List K) :=
  match parseAll (K := K) args with
  | some l =>
    if l.length = 9 + 6 + nrest then do
      let r ← mkM3 K (l.take 9)
      let a ← mkAff6 K ((l.drop 9).take 6)
      pure (r, r.transpose, a, l.drop 15)
    else if l.length = 18 + 6 + nrest then do
      let r ← mkM3 K (l.take 9)
      let ri ← mkM3 K ((l.drop 9).take 9)
      let a ← mkAff6 K ((l.drop 18).take 6)
      pure (r, ri, a, l.drop 24)
    else none
  | none => none

def opCart (args : List String) : String :=
  match parseCart K 2 args with
  | some (r, ri, a, [u, v]) =>
    let w := r.mulVec (ri.mulVec (tan2c (a.app ⟨u, v⟩)))
    if eqZeroK w.x then "err div0" else "ok " ++ fmtV2' K (cartPlane r ri a ⟨u, v⟩)
  | _ => "bad-op"

def affList (a : Aff K) : List K := [a.m.a, a.m.b, a.m.c, a.m.d, a.t.x, a.t.y]

def opCombine (args : List String) : String :=
  match args with
  | ks :: rest =>
    match ks.toNat?, parseAll (K := K) rest with
    | some k, some l =>
      if l.length ≠ 6 * k then "bad-op" else
      let affs := (chunks 6 l).filterMap (mkAff6 K)
      if affs.length ≠ k then "bad-op" else
      let acc := affs.foldl (fun old f => combineAffines oneK old f) (Aff.id : Aff K)
      if eqZeroK acc.m.det then "err singular" else
      "ok " ++ fmtAll (affList K acc ++ affList K acc.inv)
    | _, _ => "bad-op"
  | _ => "bad-op"

def opCart3 (args : List String) : String :=
  match parseCart K 3 args with
  | some (r, ri, a, [x, y, z]) =>
    let w := r.mulVec (⟨x, y, z⟩ : V3 K)
    if eqZeroK w.x then "err div0" else
    let o := cartCorr r ri a ⟨x, y, z⟩
    "ok " ++ fmtAll [o.x, o.y, o.z]
  | _ => "bad-op"

end

def opsTanProj : List (String × (List String → String)) :=
  [("tp.U", fun args => match args with
      | "F" :: rest => opTp Float (fun a b c aff p => v2v3ToTpcorr a b c aff p) rest
      | _ => "bad-op"),
   ("tp.Uinv", fun args => match args with
      | "F" :: rest => opTp Float (fun a b c aff p => tpcorrToV2v3 a b c aff p) rest
      | _ => "bad-op"),
   ("tp.total", fun args => match args with
      | "F" :: rest => opTp Float (fun a b c aff p => totalCorr a b c aff p) rest
      | _ => "bad-op"),
   ("tp.totalinv", fun args => match args with
      | "F" :: rest => opTp Float (fun a b c aff p => invTotalCorr a b c aff p) rest
      | _ => "bad-op"),
   ("tp.dom", fun args => match args with
      | "F" :: rest => opTpDom Float rest
      | _ => "bad-op"),
   ("tp.rot", fun args => match args with
      | "F" :: rest => opTpRot Float rest
      | _ => "bad-op"),
   ("tp.cart", fun args => match args with
      | "Q" :: rest => opCart Rat rest
      | "F" :: rest => opCart Float rest
      | _ => "bad-op"),
   ("tp.combine", fun args => match args with
      | "Q" :: rest => opCombine Rat rest
      | "F" :: rest => opCombine Float rest
      | _ => "bad-op"),
   ("tp.cart3", fun args => match args with
      | "Q" :: rest => opCart3 Rat rest
      | "F" :: rest => opCart3 Float rest
      | _ => "bad-op")]

end Drv
