import Drv.Util
import Drv.C07
import Drv.C09
import Model.GroupAlign
/-!
Driver operation `groupalign` (properties C05, C01): `TW.GA.groupAlign` — construction of the group catalog
followed by `align_to_ref` — for a group of FITS members on a flat sky (`TW.GA.fitsOps`, no distortion), on exact
rationals (`Q`: root-free metric, fit geometries `shift` and `general`, statistic `rmse`) or in IEEE doubles (`F`: the
code's metric, all four fit geometries, statistic `rmse`).

```
groupalign <Q|F> <fitgeom> <nclip|none> <nsigma|none> <accum 0|1> <eps> <minobj|none> <hasRefW 0|1> <nref> <nmem>
           (<n_i> <hasW_i>)*nmem <nmatch|-1> <nprobe>
         | <P: m.a m.b m.c m.d t.x t.y>
         | (<crval x y> <lin a b c d> <cdelt x y> <pcForm 0|1> <crpix0 x y> <hx> <hy> (<id> <x> <y>)*n_i [<w>*n_i])*nmem
         | (<id> <ra> <dec>)*nref [<w>*nref]
         | <mref>*nmatch <minput>*nmatch
         | (<x> <y>)*nprobe
```
`nmatch = -1` is `match=None`.  The world coordinates are those of the flat sky plane (`RA`, `DEC` of a tiny
field at the equator); `P` is `ref_tpwcs.world_to_tanp` as an affine chart.

Answer: `err <kind>` (what `align_to_ref` / the constructor raised) or
```
ok <ret 0|1> | <pairs: - or  n hasWxy hasWuv xy*2n uv*2n [wxy*n] [wuv*n]>
   | <fit: - or  M(4) s(2) center(2) eff_nclip fitmask>
   | <RA DEC of every row of the group catalog afterwards>
   | <for every member, in order: det_to_world of the member's corrector afterwards at every probe pixel>
```
-/
namespace Drv
open TW TW.GC TW.GA

def gaErrName : GErr → String
  | .keyError => "keyError"
  | .valueError => "valueError"
  | .runtimeError => "runtimeError"
  | .indexError => "indexError"
  | .attributeError => "attributeError"
  | .fitError => "fitError"

def gaParseInts (l : List String) : Option (List Int) := l.mapM String.toInt?

section
variable {K : Type} [Add K] [Sub K] [Mul K] [Div K] [Neg K] [LT K] [DecidableLT K] [NatCast K] [Sc K]

/-- `(id, a, b)` triples with the id written as an integer token -/
def gaReadTriples : Nat → List String → Option (List (Int × K × K) × List String)
  | 0, l => some ([], l)
  | n + 1, i :: a :: b :: rest => do
    let id ← i.toInt?
    let x ← (Sc.parse a : Option K)
    let y ← (Sc.parse b : Option K)
    let (t, left) ← gaReadTriples n rest
    pure ((id, x, y) :: t, left)
  | _, _ => none

def gaReadRats : Nat → List String → Option (List K × List String)
  | 0, l => some ([], l)
  | n + 1, a :: rest => do
    let x ← (Sc.parse a : Option K)
    let (t, left) ← gaReadRats n rest
    pure (x :: t, left)
  | _, _ => none

/-- the `pcForm` flag is the integer token `0` / `1` -/
def gaReadMembers : List (Nat × Bool) → List String → Option (List (GMember (FState K) K) × List String)
  | [], l => some ([], l)
  | (n, hw) :: rest, l => do
    let (h1, l0) ← (gaReadRats 8 l : Option (List K × List String))
    match h1, l0 with
    | [cvx, cvy, a, b, c, d, cdx, cdy], pcs :: l0' =>
      let (h2, l1) ← (gaReadRats 4 l0' : Option (List K × List String))
      match h2 with
      | [cpx, cpy, hx, hy] =>
        let (src, l2) ← (gaReadTriples n l1 : Option (List (Int × K × K) × List String))
        let (w, l3) ← (if hw then (gaReadRats n l2 : Option (List K × List String)).map fun p => (some p.1, p.2)
                        else some (none, l2))
        let (t, left) ← gaReadMembers rest l3
        let f : FCorr K := ⟨⟨cvx, cvy⟩, ⟨a, b, c, d⟩, ⟨cdx, cdy⟩, pcs == "1", ⟨cpx, cpy⟩⟩
        pure (⟨⟨f, hx, hy⟩, ⟨src.map fun s => ⟨s.1, (s.2.1, s.2.2)⟩, w⟩⟩ :: t, left)
      | _ => none
    | _, _ => none

def gaFmtPairs (a : PairArgs K) : String :=
  let w (o : Option (List K)) : String := match o with
    | none => ""
    | some l => if l.isEmpty then "" else " " ++ fmtAll l
  let body := fmtAll (flat2 a.xy ++ flat2 a.uv)
  s!"{a.xy.length} {a.uv.length} {if a.wxy.isSome then 1 else 0} {if a.wuv.isSome then 1 else 0}"
    ++ (if body.isEmpty then "" else " " ++ body) ++ w a.wxy ++ w a.wuv

def gaFmtFit (p : IterRes K × Aff K) : String :=
  fmtAll [p.2.m.a, p.2.m.b, p.2.m.c, p.2.m.d, p.2.t.x, p.2.t.y, p.1.center.1, p.1.center.2]
    ++ " " ++ toString p.1.effNclip ++ " " ++ bits p.1.fitmask

def gaDash (s : String) : String := if s.isEmpty then "-" else s

/-- `mkCfg g nclip nsigma accum eps epsD`: the configuration of the fitter for the scalar type -/
def opGroupAlign (mkCfg : FitGeom → Option Int → Option K → Bool → K → K → Option (FitCfg K)) (args : List String) :
    String :=
  match splitBar args with
  | [hdr, ptoks, mtoks, rtoks, itoks, prtoks] =>
    match hdr with
    | geoms :: nclips :: sigmas :: accums :: epss :: minobjs :: hasRefWs :: nrefs :: nmems :: rest =>
      match FitGeom.ofString? geoms, parseIntOpt nclips, (parseNumOpt sigmas : Option (Option K)),
            (Sc.parse epss : Option K), parseIntOpt minobjs, nrefs.toNat?, nmems.toNat?, (Sc.parse epsDStr : Option K) with
      | some g, some nclip, some sigma, some eps, some minobj, some nref, some nmem, some epsD =>
        if accums ≠ "0" ∧ accums ≠ "1" then "bad-op" else
        if rest.length ≠ 2 * nmem + 2 then "bad-op" else
        match parseNats (rest.take (2 * nmem)), (rest.getD (2 * nmem) "").toInt?, (rest.getD (2 * nmem + 1) "").toNat? with
        | some sp, some nmatch, some nprobe =>
          let specs := (chunks 2 sp).map fun c => (c.getD 0 0, c.getD 1 0 != 0)
          match (parseAll ptoks : Option (List K)), (gaReadMembers specs mtoks : Option (List (GMember (FState K) K) × List String)),
                (gaReadTriples nref rtoks : Option (List (Int × K × K) × List String)), gaParseInts itoks,
                (parseAll prtoks : Option (List K)) with
          | some [pa, pb, pc, pd, ptx, pty], some (ms, []), some (refrows, rleft), some idx, some probes =>
            let refW? : Option (Option (List K)) :=
              if hasRefWs = "1" then ((gaReadRats nref rleft : Option (List K × List String)).bind fun p =>
                if p.2.isEmpty then some (some p.1) else none)
              else if rleft.isEmpty then some none else none
            match refW?, mkCfg g nclip sigma (accums == "1") eps epsD with
            | some refW, some cfg =>
              if probes.length ≠ 2 * nprobe then "bad-op" else
              let m? : Option (Option (List Int × List Int)) :=
                if nmatch < 0 then (if idx.isEmpty then some none else none)
                else if idx.length = 2 * nmatch.toNat then some (some (idx.take nmatch.toNat, idx.drop nmatch.toNat))
                else none
              match m? with
              | none => "bad-op"
              | some m =>
                let P : Aff K := ⟨⟨pa, pb, pc, pd⟩, ⟨ptx, pty⟩⟩
                let ops := fitsOps P (fun _ x => x)
                let ref : RefCat K := ⟨refrows.map fun r => (r.2.1, r.2.2), refrows.map (·.1), refW⟩
                let mo : Option Nat := minobj.map Int.toNat
                match groupAlign ops cfg ms ref m mo g.minobj with
                | .error e => "err " ++ gaErrName e
                | .ok R =>
                  match R.res with
                  | .error e => "err " ++ gaErrName e
                  | .ok (ret, pa?) =>
                    let pairs := match pa? with
                      | none => "-"
                      | some a => gaFmtPairs a
                    let fit := match R.fit with
                      | none => "-"
                      | some p => gaFmtFit p
                    let rows := gaDash (fmtAll (R.st.rows.flatMap fun r => [r.radec.1, r.radec.2]))
                    let pr := toPairs probes
                    let sky := gaDash (fmtAll ((List.range R.members.length).flatMap fun p =>
                      pr.flatMap fun xy => let v := wOf ops R.members p xy; [v.1, v.2]))
                    s!"ok {if ret then 1 else 0} | {pairs} | {fit} | {rows} | {sky}"
            | _, _ => "bad-op"
          | _, _, _, _, _ => "bad-op"
        | _, _, _ => "bad-op"
      | _, _, _, _, _, _, _, _ => "bad-op"
    | _ => "bad-op"
  | _ => "bad-op"

end

def opsGroupAlign : List (String × (List String → String)) :=
  [("groupalign", fun args => match args with
      | "Q" :: rest => opGroupAlign (K := Rat) (fun g nclip ns accum eps epsD => FitCfg.ofGeomSq eps epsD g nclip ns accum) rest
      | "F" :: rest => opGroupAlign (K := Float)
          (fun g nclip ns accum eps epsD => some (FitCfg.ofGeom eps epsD g nclip (ns.map fun s => (s, "rmse")) accum)) rest
      | _ => "bad-op")]

end Drv
