import Drv.Util
import Model.PairWeights
/-!
Driver operation `pairargs` (property C09): stack the catalogs of the images of a group
(`createGroupCatalog`) and build the arrays `fit2ref` passes to `iter_linear_fit` (`fit2refArgs`).

```
pairargs <F|Q> <hasRefW 0|1> <nref> <nimg> (<n_i> <hasW_i>)*nimg <nmatch>
         | <ref x y>*nref [<ref w>*nref] (<im_i x y>*n_i [<im_i w>*n_i])*nimg
         | <ref_idx>*nmatch <input_idx>*nmatch
```
Answer: `ok <nmatch> <hasWxy> <hasWuv> <xy>*2nmatch <uv>*2nmatch [<wxy>*nmatch] [<wuv>*nmatch]`
or `err mixedWeights` / `err indexError`.  Pure plumbing: no arithmetic is performed.
-/
namespace Drv
open TW

def splitBar (l : List String) : List (List String) :=
  let rec go (l : List String) (cur : List String) (acc : List (List String)) : List (List String) :=
    match l with
    | [] => (cur.reverse :: acc).reverse
    | "|" :: rest => go rest [] (cur.reverse :: acc)
    | t :: rest => go rest (t :: cur) acc
  go l [] []

def toPairs {K : Type} : List K → List (K × K)
  | x :: y :: rest => (x, y) :: toPairs rest
  | _ => []

/-- read the image catalogs off the number stream -/
def readImages {K : Type} : List (Nat × Bool) → List K → Option (List (ImCat (K × K) K) × List K)
  | [], nums => some ([], nums)
  | (n, hw) :: rest, nums =>
    if nums.length < 2 * n + (if hw then n else 0) then none else
    let rows := toPairs (nums.take (2 * n))
    let nums1 := nums.drop (2 * n)
    let (w, nums2) := if hw then (some (nums1.take n), nums1.drop n) else (none, nums1)
    match readImages rest nums2 with
    | none => none
    | some (ims, left) => some (⟨rows, w⟩ :: ims, left)

def flat2 {K : Type} (l : List (K × K)) : List K := l.flatMap fun p => [p.1, p.2]

def opPairArgs (K : Type) [Sc K] (args : List String) : String :=
  match splitBar args with
  | [hdr, numToks, idxToks] =>
    match parseNats hdr, (parseAll numToks : Option (List K)), parseNats idxToks with
    | some (hasRef :: nref :: nimg :: rest), some nums, some idx =>
      if rest.length ≠ 2 * nimg + 1 then "bad-op" else
      let specs := (chunks 2 (rest.take (2 * nimg))).map fun c => (c.getD 0 0, c.getD 1 0 != 0)
      let nmatch := rest.getD (2 * nimg) 0
      if idx.length ≠ 2 * nmatch then "bad-op" else
      if nums.length < 2 * nref + (if hasRef != 0 then nref else 0) then "bad-op" else
      let refXY := toPairs (nums.take (2 * nref))
      let nums1 := nums.drop (2 * nref)
      let (refW, nums2) := if hasRef != 0 then (some (nums1.take nref), nums1.drop nref) else (none, nums1)
      match readImages specs nums2 with
      | none => "bad-op"
      | some (ims, left) =>
        if left.length ≠ 0 then "bad-op" else
        match createGroupCatalog ims with
        | .error .mixedWeights => "err mixedWeights"
        | .error .indexError => "err indexError"
        | .ok g =>
          match fit2refArgs refXY refW g.rows g.weight (idx.take nmatch) (idx.drop nmatch) with
          | none => "err indexError"
          | some a =>
            let w (o : Option (List K)) : String := match o with
              | none => ""
              | some l => if l.isEmpty then "" else " " ++ fmtAll l
            let body := fmtAll (flat2 a.xy ++ flat2 a.uv)
            s!"ok {nmatch} {if a.wxy.isSome then 1 else 0} {if a.wuv.isSome then 1 else 0}"
              ++ (if body.isEmpty then "" else " " ++ body) ++ w a.wxy ++ w a.wuv
    | _, _, _ => "bad-op"
  | _ => "bad-op"

def opsC09 : List (String × (List String → String)) :=
  [("pairargs", fun args => match args with
      | "Q" :: rest => opPairArgs Rat rest
      | "F" :: rest => opPairArgs Float rest
      | _ => "bad-op")]

end Drv
