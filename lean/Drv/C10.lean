import Drv.Util
import Model.BuildFit
namespace Drv
open TW

/-- `buildfit F <fitgeom> p0 p1 p2 q0 q1 q2` →
`ok <proper 0|1> <rot> <rotx> <roty> <scale> <sx> <sy> <skew>` -/
def opBuildFit (args : List String) : String :=
  match args with
  | gs :: rest =>
    match FitGeom.ofString? gs with
    | none => "err unsupportedFitgeom"
    | some g =>
      match (parseAll rest : Option (List Float)) with
      | some [p0, p1, p2, q0, q1, q2] =>
        let f := buildFit g p0 p1 p2 q0 q1 q2
        "ok " ++ (if f.proper then "1 " else "0 ")
          ++ fmtAll [f.rot, f.rotx, f.roty, f.s, f.sx, f.sy, f.skew]
      | _ => "bad-op"
  | _ => "bad-op"

/-- `buildmatrix F <rx> <ry> <sx> <sy>` → `ok m00 m01 m10 m11`;
`buildmatrix1 F <rot> <scale>` is the scalar form of the arguments -/
def opBuildMatrix (args : List String) : String :=
  match (parseAll args : Option (List Float)) with
  | some [rx, ry, sx, sy] =>
    let m := buildFitMatrixArgs (.two rx ry) (.two sx sy)
    "ok " ++ fmtAll [m.1, m.2.1, m.2.2.1, m.2.2.2]
  | _ => "bad-op"

def opBuildMatrix1 (args : List String) : String :=
  match (parseAll args : Option (List Float)) with
  | some [rot, sc] =>
    let m := buildFitMatrixArgs (.one rot) (.one sc)
    "ok " ++ fmtAll [m.1, m.2.1, m.2.2.1, m.2.2.2]
  | _ => "bad-op"

def pairsOf : List Float → List (Float × Float)
  | a :: b :: l => (a, b) :: pairsOf l
  | _ => []

def fmtStats (r : Option (StatsB Float)) : String :=
  match r with
  | some s => "ok " ++ fmtAll [s.rmse, s.mae, s.std]
  | none => "nan"

/-- `stats F <none|w|ww> <n> <2n residuals: x0 y0 x1 y1 …> [<n weights> [<n weights>]]` →
`ok rmse mae std` (`nan` when the code stores three NaNs).  `none`: unweighted; `w`: one weight list
(`wxy` or `wuv`); `ww`: both lists, combined as the fitters do (`wxy*wuv/(wxy+wuv)`). -/
def opStats (args : List String) : String :=
  match args with
  | wm :: ns :: rest =>
    match ns.toNat?, (parseAll rest : Option (List Float)) with
    | some n, some l =>
      let res := pairsOf (l.take (2 * n))
      if wm = "none" then
        if l.length ≠ 2 * n then "bad-op" else fmtStats (computeStatB res (combineW none none))
      else if wm = "w" then
        if l.length ≠ 3 * n then "bad-op"
        else fmtStats (computeStatB res (combineW (some (l.drop (2 * n))) none))
      else if wm = "ww" then
        if l.length ≠ 4 * n then "bad-op"
        else fmtStats (computeStatB res
          (combineW (some ((l.drop (2 * n)).take n)) (some (l.drop (3 * n)))))
      else "bad-op"
    | _, _ => "bad-op"
  | _ => "bad-op"

/-- `resid Q|F m00 m01 m10 m11 sx sy cx cy x y u v` → `ok rx ry eff_sx eff_sy`: one row of the residuals
of `iter_linear_fit` (centred coordinates) and the effective shift `s + c − F c` -/
def opResid (K : Type) [Add K] [Sub K] [Mul K] [Div K] [Neg K] [LT K] [DecidableLT K] [NatCast K] [Sc K]
    (args : List String) : String :=
  match (parseAll args : Option (List K)) with
  | some [m00, m01, m10, m11, sx, sy, cx, cy, x, y, u, v] =>
    let r := residCentered m00 m01 m10 m11 sx sy cx cy x y u v
    let e := effShift m00 m01 m10 m11 sx sy cx cy
    "ok " ++ fmtAll [r.1, r.2, e.1, e.2]
  | _ => "bad-op"

def onlyF (h : List String → String) : List String → String
  | "F" :: rest => h rest
  | _ => "bad-op"

def opsC10 : List (String × (List String → String)) :=
  [("buildfit", onlyF opBuildFit), ("buildmatrix", onlyF opBuildMatrix),
   ("buildmatrix1", onlyF opBuildMatrix1), ("stats", onlyF opStats),
   ("resid", fun args => match args with
      | "Q" :: rest => opResid Rat rest
      | "F" :: rest => opResid Float rest
      | _ => "bad-op")]

end Drv
