import Model.Basic
/-!
Line-protocol utilities of the model driver (trusted, not verified): exact exchange of numbers.
`Float`s cross the boundary as their 64-bit pattern (`x%016x`), rationals as `num/den`.
-/
namespace Drv
open TW

instance : NatCast Float := ⟨Float.ofNat⟩

def hexDigit (c : Char) : Option Nat :=
  if '0' ≤ c ∧ c ≤ '9' then some (c.toNat - '0'.toNat)
  else if 'a' ≤ c ∧ c ≤ 'f' then some (c.toNat - 'a'.toNat + 10)
  else none

def parseHex (s : String) : Option Nat :=
  s.toList.foldl (fun acc c => do let a ← acc; let d ← hexDigit c; pure (a * 16 + d)) (some 0)

def hexChar (d : Nat) : Char := if d < 10 then Char.ofNat (d + '0'.toNat) else Char.ofNat (d - 10 + 'a'.toNat)

def toHex16 (n : Nat) : String :=
  String.ofList ((List.range 16).reverse.map fun i => hexChar ((n / 16 ^ i) % 16))

def parseRat (s : String) : Option Rat :=
  match s.splitOn "/" with
  | [a, b] => do
      let n ← a.toInt?
      let d ← b.toNat?
      if d = 0 then none else pure (mkRat n d)
  | [a] => do let n ← a.toInt?; pure (n : Rat)
  | _ => none

def ratToFloat (q : Rat) : Float := Float.ofInt q.num / Float.ofNat q.den

/-- scalar types the driver can run the model on -/
class Sc (K : Type) where
  parse : String → Option K
  fmt : K → String

instance : Sc Rat where
  parse := parseRat
  fmt q := s!"{q.num}/{q.den}"

instance : Sc Float where
  parse s :=
    if s.startsWith "x" then (parseHex (s.drop 1).toString).map fun n => Float.ofBits n.toUInt64
    else (parseRat s).map ratToFloat
  fmt f := "x" ++ toHex16 f.toBits.toNat

def parseAll {K : Type} [Sc K] (l : List String) : Option (List K) := l.mapM Sc.parse

def fmtAll {K : Type} [Sc K] (l : List K) : String := " ".intercalate (l.map Sc.fmt)

/-- `numpy.finfo(numpy.double).eps = 2^-52`, the threshold of the collinearity guard of
`fit_general`, written as a rational (exact in `Rat` and in `Float`) -/
def epsDStr : String := "1/" ++ toString ((2 : Nat) ^ 52)

def parseNats (l : List String) : Option (List Nat) := l.mapM String.toNat?

/-- split a list into chunks of `k` -/
def chunks {α : Type} (k : Nat) (l : List α) : List (List α) :=
  if k = 0 then [] else
  let rec go (fuel : Nat) (l : List α) (acc : List (List α)) : List (List α) :=
    match fuel with
    | 0 => acc.reverse
    | fuel + 1 => if l.isEmpty then acc.reverse else go fuel (l.drop k) (l.take k :: acc)
  go (l.length + 1) l []

end Drv
