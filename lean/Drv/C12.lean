import Drv.Util
import Model.LinAlg
import Model.Hist
import Model.Lstsq
/-!
Driver operations of property C12 (`Model/Hist.lean`).

* `hist <Q|F> <r> <nimg> <nref> <2·nimg image coords> <2·nref reference coords>`
    → `ok <n> <m> (<ky> <kx> <count>)*m`      the non-zero bins of `_xy_2dhist`, row-major
* `estshift <Q|F> <searchrad> <pscale> <nimg> <nref> <coords…> <lsq>`
    → `ok <x> <y> <branch>`                  `_estimate_2dhist_shift`
* `findpeak <Q|F> <ny> <nx> <box> <mask> <ny·nx data, row-major> <lsq>`
    → `ok <x> <y> <STATUS> <y1> <y2> <x1> <x2>` | `err badBox`
  `<mask>` is `-` (no mask) or a string of `ny·nx` characters `0`/`1`.

`<lsq>` selects the least-squares oracle handed to the model (the call of `numpy.linalg.lstsq` is a
parameter of the model):
  `N`                 the driver solves the 6×6 normal equations `VᵀV c = Vᵀd` with `TW.invSq`
                      (exact on `Q`); a singular normal matrix counts as a failed fit;
  `C c00 c10 c01 c11 c20 c02`   the coefficients observed by the harness in the real call;
  `X`                 the fit fails (`LinAlgError` / non-finite result);
  `M`                 the concrete model of the call, `TW.lstsqLsq` of `Model/Lstsq.lean` (normal
                      equations by elimination with diagonal pivoting, minimum-norm solution when the
                      design is rank deficient): `findPeak` is then a closed function.  Relative pivot
                      threshold: 0 on `Q` (exact), 1e-10 on `F`.
* `findpeakm <Q|F> <ny> <nx> <box> <mask> <ny·nx data>`
    → `ok <x> <y> <STATUS> <y1> <y2> <x1> <x2> <fit>` | `err badBox`
  `findPeakConcrete` (= `findpeak … M`) together with what the fit stage saw: `<fit>` is `nofit` (early
  return or fewer than six good pixels) or `<rank> <c00> <c10> <c01> <c11> <c20> <c02>`, the rank of the
  design matrix of the fit box and the coefficients handed to the curvature test / vertex formula.
* `lstsq <Q|F> <m> <6·m design entries, row-major> <m data>`
    → `ok <rank> <c00> <c10> <c01> <c11> <c20> <c02>`   `TW.lstsqSolve` / `TW.lstsqMinNorm`: the rank
      of the design matrix found by the elimination and numpy's result (the least-squares solution,
      of minimum norm when rank < 6)
-/
namespace Drv
open TW

section
variable {K : Type} [Add K] [Sub K] [Mul K] [Div K] [Neg K] [LT K] [DecidableLT K] [NatCast K]

/-- least squares through the normal equations (driver side, trusted as part of the harness) -/
def lsqNormal (eps : K) : Lsq K := fun rows d =>
  let col (k : Nat) : List K := rows.map fun r => r.getD k zeroK
  let a : Mat 6 K := Mat.ofFn fun i j => dotL (col i.val) (col j.val)
  let b : List K := (List.range 6).map fun i => dotL (col i) d
  match invSq eps a with
  | .error _ => none
  | .ok x =>
    let c (i : Fin 6) : K := sumL ((List.finRange 6).map fun j => x.get i j * b.getD j.val zeroK)
    some ⟨c 0, c 1, c 2, c 3, c 4, c 5⟩

def pairUp12 : List K → List (K × K)
  | a :: b :: rest => (a, b) :: pairUp12 rest
  | _ => []

def parseLsq [Sc K] (eps : K) (toks : List String) : Option (Lsq K) :=
  match toks with
  | ["N"] => some (lsqNormal eps)
  | ["X"] => some fun _ _ => none
  | "C" :: rest =>
    match (parseAll rest : Option (List K)) with
    | some [c0, c1, c2, c3, c4, c5] => some fun _ _ => some ⟨c0, c1, c2, c3, c4, c5⟩
    | _ => none
  | _ => none

/-- `parseLsq` plus the token `M`: the concrete model `TW.lstsqLsq` -/
def parseLsqM [Sc K] (eps rtol : K) (toks : List String) : Option (Lsq K) :=
  match toks with
  | ["M"] => some (lstsqLsq rtol)
  | _ => parseLsq eps toks

def branchName : EstBranch → String
  | .noPairs => "nopairs"
  | .single => "single"
  | .peakError => "peakerror"
  | .peak st => "peak:" ++ st.toString

def sparse (h : List (List Nat)) : List String :=
  let ents := (h.zipIdx.flatMap fun (row, ky) => row.zipIdx.filterMap fun (c, kx) =>
    if c = 0 then none else some s!"{ky} {kx} {c}")
  toString ents.length :: ents

end

section
variable (K : Type) [Add K] [Sub K] [Mul K] [Div K] [Neg K] [LT K] [DecidableLT K] [NatCast K]
  [HasFloor K] [Sc K]

def opHist (args : List String) : String :=
  match args with
  | rs :: nis :: nrs :: rest =>
    match (Sc.parse rs : Option K), nis.toNat?, nrs.toNat?, (parseAll rest : Option (List K)) with
    | some r, some ni, some nr, some cs =>
      if cs.length ≠ 2 * ni + 2 * nr then "bad-op" else
      if r < (zeroK : K) then "err domain" else
      let img := pairUp12 (cs.take (2 * ni))
      let ref := pairUp12 (cs.drop (2 * ni))
      let h := xy2dhist img ref r
      "ok " ++ " ".intercalate (toString h.length :: sparse h)
    | _, _, _, _ => "bad-op"
  | _ => "bad-op"

def opEstShift (eps rtol : K) (args : List String) : String :=
  match args with
  | ss :: ps :: nis :: nrs :: rest =>
    match (Sc.parse ss : Option K), (Sc.parse ps : Option K), nis.toNat?, nrs.toNat? with
    | some sr, some pscale, some ni, some nr =>
      let nc := 2 * ni + 2 * nr
      match (parseAll (rest.take nc) : Option (List K)), parseLsqM eps rtol (rest.drop nc) with
      | some cs, some lsq =>
        if cs.length ≠ nc then "bad-op" else
        if ¬ ((zeroK : K) < sr) ∨ ¬ ((zeroK : K) < pscale) then "err domain" else
        let img := pairUp12 (cs.take (2 * ni))
        let ref := pairUp12 (cs.drop (2 * ni))
        let e := estimateShiftFull lsq img ref sr pscale
        s!"ok {Sc.fmt e.x} {Sc.fmt e.y} {branchName e.branch}"
      | _, _ => "bad-op"
    | _, _, _, _ => "bad-op"
  | _ => "bad-op"

def parseMask (ny nx : Nat) (s : String) : Option (Option (List (List Bool))) :=
  if s = "-" then some none else
  let cs := s.toList
  if cs.length ≠ ny * nx ∨ cs.any (fun c => c ≠ '0' ∧ c ≠ '1') then none
  else some (some ((chunks nx (cs.map fun c => c == '1'))))

def opFindPeak (eps rtol : K) (args : List String) : String :=
  match args with
  | nys :: nxs :: bs :: ms :: rest =>
    match nys.toNat?, nxs.toNat?, bs.toInt? with
    | some ny, some nx, some boxi =>
      if ny = 0 ∨ nx = 0 then "bad-op" else
      match parseMask ny nx ms, (parseAll (rest.take (ny * nx)) : Option (List K)),
            parseLsqM eps rtol (rest.drop (ny * nx)) with
      | some mask, some ds, some lsq =>
        if ds.length ≠ ny * nx then "bad-op" else
        match findPeak lsq (chunks nx ds) boxi.toNat mask with
        | .error .badBox => "err badBox"
        | .ok p =>
          s!"ok {Sc.fmt p.x} {Sc.fmt p.y} {p.status.toString} {p.y1} {p.y2} {p.x1} {p.x2}"
      | _, _, _ => "bad-op"
    | _, _, _ => "bad-op"
  | _ => "bad-op"

def fitInfo (rtol : K) (data : List (List K)) (box : Nat) (mask : Option (List (List Bool))) : String :=
  match peakBox data box mask with
  | .done _ => "nofit"
  | .fit y1 y2 x1 x2 =>
    let pts := boxPoints data mask y1 y2 x1 x2
    if pts.length < 6 then "nofit" else
    let rows := pts.map designRow
    let d := pts.map fun p => p.2.2
    let c := lstsqMinNorm rtol rows d
    s!"{(lstsqSolve rtol rows d).1} {fmtAll [c.c00, c.c10, c.c01, c.c11, c.c20, c.c02]}"

def opFindPeakM (rtol : K) (args : List String) : String :=
  match args with
  | nys :: nxs :: bs :: ms :: rest =>
    match nys.toNat?, nxs.toNat?, bs.toInt? with
    | some ny, some nx, some boxi =>
      if ny = 0 ∨ nx = 0 then "bad-op" else
      match parseMask ny nx ms, (parseAll rest : Option (List K)) with
      | some mask, some ds =>
        if ds.length ≠ ny * nx then "bad-op" else
        let data := chunks nx ds
        match findPeakConcrete rtol data boxi.toNat mask with
        | .error .badBox => "err badBox"
        | .ok p =>
          s!"ok {Sc.fmt p.x} {Sc.fmt p.y} {p.status.toString} {p.y1} {p.y2} {p.x1} {p.x2} " ++
            fitInfo K rtol data boxi.toNat mask
      | _, _ => "bad-op"
    | _, _, _ => "bad-op"
  | _ => "bad-op"

def opLstsq (rtol : K) (args : List String) : String :=
  match args with
  | ms :: rest =>
    match ms.toNat?, (parseAll rest : Option (List K)) with
    | some m, some vs =>
      if vs.length ≠ 7 * m then "bad-op" else
      let rows := chunks 6 (vs.take (6 * m))
      let d := vs.drop (6 * m)
      let c := lstsqMinNorm rtol rows d
      s!"ok {(lstsqSolve rtol rows d).1} {fmtAll [c.c00, c.c10, c.c01, c.c11, c.c20, c.c02]}"
    | _, _ => "bad-op"
  | _ => "bad-op"

end

def epsQ : Rat := mkRat 1 (10 ^ 40)
def epsF : Float := 1e-300
def rtolQ : Rat := 0
def rtolF : Float := 1e-10

def opsC12 : List (String × (List String → String)) :=
  [("hist", fun args => match args with
      | "Q" :: rest => opHist Rat rest
      | "F" :: rest => opHist Float rest
      | _ => "bad-op"),
   ("estshift", fun args => match args with
      | "Q" :: rest => opEstShift Rat epsQ rtolQ rest
      | "F" :: rest => opEstShift Float epsF rtolF rest
      | _ => "bad-op"),
   ("findpeak", fun args => match args with
      | "Q" :: rest => opFindPeak Rat epsQ rtolQ rest
      | "F" :: rest => opFindPeak Float epsF rtolF rest
      | _ => "bad-op"),
   ("findpeakm", fun args => match args with
      | "Q" :: rest => opFindPeakM Rat rtolQ rest
      | "F" :: rest => opFindPeakM Float rtolF rest
      | _ => "bad-op"),
   ("lstsq", fun args => match args with
      | "Q" :: rest => opLstsq Rat rtolQ rest
      | "F" :: rest => opLstsq Float rtolF rest
      | _ => "bad-op")]

end Drv
