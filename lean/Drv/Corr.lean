import Drv.Util
import Model.Corrector
/-!
Driver operations for the corrector models (C01–C05, C18, C20).  The fixed geometry (`D`, `U`,
`R`, distortion) is the identity here: the harness sends *chart* coordinates (tangent-plane
coordinates computed with the uncorrected real corrector), see DESIGN.md section 3.
-/
namespace Drv
open TW

section
variable (K : Type) [Add K] [Sub K] [Mul K] [Div K] [Neg K] [NatCast K] [Sc K]

def idEnv (c : K) : GEnv K := ⟨id, id, id, id, id, id, c⟩

def mkAff (l : List K) : Option (Aff K) :=
  match l with
  | [a, b, c, d, x, y] => some ⟨⟨a, b, c, d⟩, ⟨x, y⟩⟩
  | _ => none

def fmtV2 (p : V2 K) : String := Sc.fmt p.x ++ " " ++ Sc.fmt p.y

/-- parse gWCS ops: `S m00 m01 m10 m11 sx sy` | `R <6 affine> <8 sample-image coords> <scale>` |
`W` (re-wrap) | `C` (copy); returns remaining tokens -/
partial def parseGOps (n : Nat) (toks : List String) (acc : List (GOp K)) :
    Option (List (GOp K) × List String) :=
  if n = 0 then some (acc.reverse, toks) else
  match toks with
  | "S" :: rest => do
      let nums ← parseAll (K := K) (rest.take 6)
      let f ← mkAff K nums
      parseGOps (n - 1) (rest.drop 6) (GOp.setCorr f none :: acc)
  | "R" :: rest => do
      let nums ← parseAll (K := K) (rest.take 15)
      let f ← mkAff K (nums.take 6)
      match nums.drop 6 with
      | [a0, b0, a1, b1, a2, b2, a3, b3, s] =>
        parseGOps (n - 1) (rest.drop 15)
          (GOp.setCorr f (some (tp2tpPts ⟨a0, b0⟩ ⟨a1, b1⟩ ⟨a2, b2⟩ ⟨a3, b3⟩ s)) :: acc)
      | _ => none
  | "W" :: rest => parseGOps (n - 1) rest (GOp.rewrap :: acc)
  | "C" :: rest => parseGOps (n - 1) rest (GOp.copy :: acc)
  | _ => none

/-- `gcorr <mode> <c> <nframes> <frames…> <nops> <ops…> <nprobes> <x y …>`:
probes are chart coordinates `τ(p)` (arcsec).  Output: `ok <corrected 0|1> <v23name> <nframes>
<frames…> <valid 0|1> <aff 6: accumulated affine in tangent-plane units> | per probe:
det_to_tanp (2), chart position of det_to_world (2), round trip world_to_det∘det_to_world (2)` -/
def opGcorr (args : List String) : String :=
  match args with
  | cs :: nfs :: rest =>
    match (Sc.parse cs : Option K), nfs.toNat? with
    | some c, some nf =>
      let frames := rest.take nf
      match (rest.drop nf) with
      | nops :: rest2 =>
        match nops.toNat? with
        | some no =>
          match parseGOps K no rest2 [] with
          | some (ops, rest3) =>
            match rest3 with
            | nps :: rest4 =>
              match nps.toNat?, (parseAll (K := K) rest4) with
              | some np, some nums =>
                if nums.length ≠ 2 * np then "bad-op" else
                let env := idEnv K c
                let g0 : GCorr K := GCorr.fresh frames
                let g := g0.run c ops
                let probes := (chunks 2 nums).filterMap fun l => match l with
                  | [x, y] => some (⟨x, y⟩ : V2 K) | _ => none
                let outs := probes.map fun x =>
                  let u := x.sdiv c
                  let w := g.detToWorld env u
                  fmtV2 K (g.detToTanp env u) ++ " " ++ fmtV2 K (g0.worldToTanp env w) ++ " " ++
                    fmtV2 K (V2.smul c (g.worldToDet env w))
                let a := g.aff
                "ok " ++ (if g.corrected then "1" else "0") ++ " " ++ g.v23name ++ " " ++
                  toString g.frames.length ++ " " ++ " ".intercalate g.frames ++ " " ++
                  (if checkFrames g.frames then "1" else "0") ++ " " ++
                  fmtAll [a.m.a, a.m.b, a.m.c, a.m.d, c * a.t.x, c * a.t.y] ++ " | " ++
                  " ".intercalate outs
              | _, _ => "bad-op"
            | _ => "bad-op"
          | none => "bad-op"
        | none => "bad-op"
      | _ => "bad-op"
    | _, _ => "bad-op"
  | _ => "bad-op"

/-- FITS ops: `S M(4) s(2) hx hy` | `R P(6) M(4) s(2) hx hy` | `W` | `C` -/
partial def parseFOps (n : Nat) (toks : List String) (acc : List (FOp K)) :
    Option (List (FOp K) × List String) :=
  if n = 0 then some (acc.reverse, toks) else
  match toks with
  | "S" :: rest => do
      let nums ← parseAll (K := K) (rest.take 8)
      match nums with
      | [a, b, c, d, x, y, hx, hy] =>
        parseFOps (n - 1) (rest.drop 8) (FOp.setOwn ⟨a, b, c, d⟩ ⟨x, y⟩ hx hy :: acc)
      | _ => none
  | "R" :: rest => do
      let nums ← parseAll (K := K) (rest.take 14)
      let P ← mkAff K (nums.take 6)
      match nums.drop 6 with
      | [a, b, c, d, x, y, hx, hy] =>
        parseFOps (n - 1) (rest.drop 14) (FOp.setRef P ⟨a, b, c, d⟩ ⟨x, y⟩ hx hy :: acc)
      | _ => none
  | "W" :: rest => parseFOps (n - 1) rest (FOp.rewrap :: acc)
  | "C" :: rest => parseFOps (n - 1) rest (FOp.copy :: acc)
  | _ => none

/-- `fcorr <mode> <crval 2> <lin 4> <cdelt 2> <pcForm 0|1> <crpix0 2> <nops> <ops…> <nprobes> <δ(p) …>`
(all in the chart of the initial tangent plane).  Output: `ok <crval 2> <lin 4> <cdelt 2> <pcForm>
<crpix0 2> | per probe: chart position of det_to_world (2), world_to_tanp of it in the FINAL state (2)` -/
def opFcorr (args : List String) : String :=
  match parseAll (K := K) (args.take 8), args.drop 8 with
  | some [ox, oy, a, b, c, d, cx, cy], pcs :: rest =>
    match parseAll (K := K) (rest.take 2), (rest.drop 2) with
    | some [px, py], nops :: rest2 =>
      match nops.toNat? with
      | some no =>
        match parseFOps K no rest2 [] with
        | some (ops, nps :: rest4) =>
          match nps.toNat?, parseAll (K := K) rest4 with
          | some np, some nums =>
            if nums.length ≠ 2 * np then "bad-op" else
            let f0 : FCorr K := ⟨⟨ox, oy⟩, ⟨a, b, c, d⟩, ⟨cx, cy⟩, pcs == "1", ⟨px, py⟩⟩
            let f := f0.run ops
            let probes := (chunks 2 nums).filterMap fun l => match l with
              | [x, y] => some (⟨x, y⟩ : V2 K) | _ => none
            let outs := probes.map fun u =>
              let w := f.detToWorld id u
              fmtV2 K w ++ " " ++ fmtV2 K (f.worldToTanp w)
            "ok " ++ fmtAll [f.crval.x, f.crval.y, f.lin.a, f.lin.b, f.lin.c, f.lin.d, f.cdelt.x,
              f.cdelt.y] ++ " " ++ (if f.pcForm then "1" else "0") ++ " " ++ fmtV2 K f.crpix0 ++
              " | " ++ " ".intercalate outs
          | _, _ => "bad-op"
        | _ => "bad-op"
      | none => "bad-op"
    | _, _ => "bad-op"
  | _, _ => "bad-op"

/-- `shoelace <mode> <8 coords: images of the four corners in the code's order>` → twice the
signed shoelace area (the harness compares `sqrt(|·|/2)` with `tanp_pixel_scale`) -/
def opShoelace (args : List String) : String :=
  match parseAll (K := K) args with
  | some [x0, y0, x1, y1, x2, y2, x3, y3] =>
    "ok " ++ Sc.fmt (shoelacePts (⟨x0, y0⟩ : V2 K) ⟨x1, y1⟩ ⟨x2, y2⟩ ⟨x3, y3⟩)
  | _ => "bad-op"

end

def opsCorr : List (String × (List String → String)) :=
  [("gcorr", fun args => match args with
      | "Q" :: rest => opGcorr Rat rest
      | "F" :: rest => opGcorr Float rest
      | _ => "bad-op"),
   ("fcorr", fun args => match args with
      | "Q" :: rest => opFcorr Rat rest
      | "F" :: rest => opFcorr Float rest
      | _ => "bad-op"),
   ("shoelace", fun args => match args with
      | "Q" :: rest => opShoelace Rat rest
      | "F" :: rest => opShoelace Float rest
      | _ => "bad-op"),
   -- `chkframes <name> <name> …`: `_check_wcs_structure` on a list of frame names (`-` = no frames)
   ("chkframes", fun args =>
      let frms := if args = ["-"] then [] else args
      if TW.checkFrames frms then "1" else "0")]

end Drv
