import Drv.Util
import Model.Store
namespace Drv
open TW

/-!
Driver operations of the store model (C19).

* `store <op> ; <op> ; …`  →  `ok <cell> <cell> …` : the cells that MAY change during the call
  sequence (union of the declared write sets, `TW.mayWrite`), duplicates removed;
* `leak <op> ; … | <op>`   →  `ok <cell> …` : the cells of the read set of the last operation
  that the sequence before the bar may write (`TW.leak`); an empty list means the model
  predicts the same result before and after the sequence;
* `storerun <op> ; …`      →  `ok <cell> …` : cells whose value differs after actually running
  the model (`TW.run` with the concrete computation `demoSem`) on an initial store in which
  every mentioned cell holds a distinct value — always a subset of the answer of `store`.

Operation syntax: `iterLinearFit | fitShifts | fitRshift | fitRscale | fitGeneral | inv |
buildFitMatrix | convexHull | xyxyMatch | fitWcs i | alignWcs i j … | setCorrection i |
copyCorrector i j`.
-/

def cellName : Cell → String
  | .argXY => "argXY" | .argUV => "argUV" | .argWxy => "argWxy" | .argWuv => "argWuv"
  | .argCenter => "argCenter" | .invArg => "invArg" | .bfmRot => "bfmRot"
  | .bfmScale => "bfmScale" | .hullX => "hullX" | .hullY => "hullY"
  | .matchRef => "matchRef" | .matchIm => "matchIm" | .defaultMatcher => "defaultMatcher"
  | .defaultArgs => "defaultArgs" | .moduleState => "moduleState" | .argMatrix => "argMatrix"
  | .argShift => "argShift" | .argMeta => "argMeta" | .argList => "argList"
  | .refCatalog => "refCatalog" | .refTpwcs => "refTpwcs" | .refTpwcsMeta => "refTpwcsMeta"
  | .refTpwcsOrig => "refTpwcsOrig" | .refCorrWcs => "refCorrWcs"
  | .refCorrMeta => "refCorrMeta" | .refCorrOrig => "refCorrOrig"
  | .imCatalog i => s!"imCatalog:{i}" | .origWcs i => s!"origWcs:{i}"
  | .corrWcs i => s!"corrWcs:{i}" | .corrMeta i => s!"corrMeta:{i}" | .fitInfo i => s!"fitInfo:{i}"

def parseOp (toks : List String) : Option Op :=
  match toks with
  | ["iterLinearFit"] => some .iterLinearFit
  | ["fitShifts"] => some .fitShifts
  | ["fitRshift"] => some .fitRshift
  | ["fitRscale"] => some .fitRscale
  | ["fitGeneral"] => some .fitGeneral
  | ["inv"] => some .inv
  | ["buildFitMatrix"] => some .buildFitMatrix
  | ["convexHull"] => some .convexHull
  | ["xyxyMatch"] => some .xyxyMatch
  | ["fitWcs", i] => i.toNat?.map .fitWcs
  | ["setCorrection", i] => i.toNat?.map .setCorrection
  | ["copyCorrector", i, j] => do
      let a ← i.toNat?
      let b ← j.toNat?
      -- a corrector is never copied onto itself
      if a = b then none else pure (.copyCorrector a b)
  | "alignWcs" :: is => (parseNats is).map .alignWcs
  | _ => none

/-- split a token list at every occurrence of `sep` -/
def splitAt (sep : String) (toks : List String) : List (List String) :=
  let (cur, acc) := toks.foldl
    (fun (st : List String × List (List String)) t =>
      if t = sep then ([], st.1.reverse :: st.2) else (t :: st.1, st.2)) ([], [])
  (cur.reverse :: acc).reverse

def parseSeq (toks : List String) : Option (List Op) :=
  if toks.isEmpty then some [] else (splitAt ";" toks).mapM parseOp

def fmtCells (l : List Cell) : String :=
  " ".intercalate ("ok" :: l.eraseDups.map cellName)

def opStore (args : List String) : String :=
  match parseSeq args with
  | some ops => fmtCells (mayWrite ops)
  | none => "bad-op"

def opLeak (args : List String) : String :=
  match splitAt "|" args with
  | [mid, last] =>
    match parseSeq mid, parseOp last with
    | some ops, some op => fmtCells (leak ops op)
    | _, _ => "bad-op"
  | _ => "bad-op"

/-- every cell an operation mentions (read or written) -/
def mentioned (ops : List Op) : List Cell := (ops.flatMap fun o => readSet o ++ writeSet o).eraseDups

def opStoreRun (args : List String) : String :=
  match parseSeq args with
  | some ops =>
    let cells := mentioned ops
    let s0 : Store := (cells.zipIdx).map fun (c, k) => (c, 1000 + 7 * k)
    let s1 := run demoSem s0 ops
    fmtCells (cells.filter fun c => s1.get c != s0.get c)
  | none => "bad-op"

def opsC19 : List (String × (List String → String)) :=
  [("store", opStore), ("leak", opLeak), ("storerun", opStoreRun)]

end Drv
