import Drv.Util
import Drv.C12
import Model.Match
/-!
Driver operation of property C11 (`Model/Match.lean`).

* `match <Q|F> <use2dhist 0|1> <searchrad> <separation> <tolerance> <xoffset> <yoffset> <pscale>
         <nref> <nim> <2·nref reference coords> <2·nim image coords> <lsq>`
    → `ok <n> (<ref_idx> <input_idx>)*n`  |  `err <kind>`
  `XYXYMatch(searchrad, separation, use2dhist, xoffset, yoffset, tolerance)(refcat, imcat, tp_pscale)`
  with the specification matcher; `<lsq>` as in `Drv/C12.lean` (used only when `use2dhist` is 1).
-/
namespace Drv
open TW

def matchErrName : MatchErr → String
  | .badSearchrad => "badSearchrad"
  | .badSeparation => "badSeparation"
  | .badTolerance => "badTolerance"
  | .emptyRef => "emptyRef"
  | .emptyIm => "emptyIm"

def opMatch (K : Type) [Add K] [Sub K] [Mul K] [Div K] [Neg K] [LT K] [DecidableLT K] [NatCast K]
    [HasFloor K] [Sc K] (eps : K) (args : List String) : String :=
  match args with
  | us :: a1 :: a2 :: a3 :: a4 :: a5 :: a6 :: nrs :: nis :: rest =>
    match (parseAll [a1, a2, a3, a4, a5, a6] : Option (List K)), nrs.toNat?, nis.toNat? with
    | some [sr, sep, tol, xo, yo, pscale], some nr, some ni =>
      if us ≠ "0" ∧ us ≠ "1" then "bad-op" else
      let nc := 2 * nr + 2 * ni
      match (parseAll (rest.take nc) : Option (List K)), parseLsq eps (rest.drop nc) with
      | some cs, some lsq =>
        if cs.length ≠ nc then "bad-op" else
        let ref := pairUp12 (cs.take (2 * nr))
        let im := pairUp12 (cs.drop (2 * nr))
        match xyxyMatchNew sr sep (us == "1") xo yo tol with
        | .error e => "err " ++ matchErrName e
        | .ok cfg =>
          match xyxyMatchCall lsq cfg ref im pscale with
          | .error e => "err " ++ matchErrName e
          | .ok (ri, ii) =>
            "ok " ++ " ".intercalate (toString ri.length ::
              (List.zipWith (fun a b => s!"{a} {b}") ri ii))
      | _, _ => "bad-op"
    | _, _, _ => "bad-op"
  | _ => "bad-op"

def opsC11 : List (String × (List String → String)) :=
  [("match", fun args => match args with
      | "Q" :: rest => opMatch Rat epsQ rest
      | "F" :: rest => opMatch Float epsF rest
      | _ => "bad-op")]

end Drv
