import Drv.Util
import Model.SphHull
/-!
Driver operations for the spherical part of `RefCatalog._calc_cat_convex_hull` (`Model/SphHull.lean`).

Exact or IEEE (`Q` | `F`), no trigonometry (cosines / sines / unit vectors are inputs):

* `sph.rot <mode> <eps> cr sr cd sd`          → `ok R(9) inv(9)` | `ok R(9) singular`
                                                 (`eulerRot`, `invEulerRot eps`)
* `sph.prot <mode> cs sn <axis>`                → `ok P(9)` | `err badAxis` (`planarRot3d`)
* `sph.mean <mode> <n> x y z …`               → `ok mx my mz` (`meanVec`)
* `sph.proj <mode> R(9) <n> x y z …`          → `ok <hemi 0|1> px py …` (`project`, `inHemisphereB`) | `err div0`
                                                 (a rotated first coordinate is exactly zero; mode `Q` only)
* `sph.back <mode> Ri(9) <k> xv yv …`         → `ok x y z …` (`backProject`)
* `sph.foot <mode> R(9) Ri(9) <sep> <tol> <n> x y z …`
      → `ok <hemi> <allLeft 0|1> <insideCW 0|1> <k> plane(2k) back(3k)` (`footprintV`; the flags are
        `inHemisphereB`, and `sphAllLeftB` / `sphInsideCWB` of ALL sources against the returned vertices) |
        `err <noPoints|negSeparation|needsSqrt|div0>`.  Mode `Q` has no square root: it answers `err needsSqrt`
        when the hull has fewer than four entries (the boxes), and otherwise never evaluates one.
* `sph.contains <mode> <k> poly(3k) <n> x y z …` → `ok <allLeft bits> <insideCW bits>` (one character per source)

With trigonometry (`F` only):

* `sph.s2c F <n> ra dec …`                    → `ok x y z …` (`s2c`, degrees in)
* `sph.c2s F <n> x y z …`                     → `ok lon lat …` (`c2s`, degrees out)
* `sph.rotdeg F <eps> ra_ref dec_ref`         → `ok R(9) inv(9)` (`eulerRotOfDir`, degrees in)
* `sph.full F <eps> <sep> <d2r> <ftol> <n> ra dec …`
      → `ok mean(3) refdir(2) R(9) Ri(9) <n> proj(2n) <k> plane(2k) back(3k) radec(2k)` (`refCatFootprint`) |
        `err <emptyCatalog|noPoints|singular|negSeparation>`
-/
namespace Drv
open TW TW.Sph

def sphErrName : SphErr → String
  | .badAxis => "badAxis"
  | .emptyCatalog => "emptyCatalog"
  | .noPoints => "noPoints"
  | .negSeparation => "negSeparation"
  | .singular => "singular"

section
variable (K : Type) [Add K] [Sub K] [Mul K] [Div K] [Neg K] [NatCast K] [LT K] [DecidableLT K] [Sc K]

def m3Of (l : List K) : Option (M3 K) :=
  match l with
  | [a, b, c, d, e, f, g, h, i] => some ⟨a, b, c, d, e, f, g, h, i⟩
  | _ => none

def m3To (m : M3 K) : List K := [m.a00, m.a01, m.a02, m.a10, m.a11, m.a12, m.a20, m.a21, m.a22]

def triples : List K → List (V3 K)
  | a :: b :: c :: rest => ⟨a, b, c⟩ :: triples rest
  | _ => []

def pairsP : List K → List (Pt K)
  | a :: b :: rest => (a, b) :: pairsP rest
  | _ => []

def flatV3 (l : List (V3 K)) : List K := l.flatMap fun v => [v.x, v.y, v.z]
def flatPt (l : List (Pt K)) : List K := l.flatMap fun p => [p.1, p.2]
def bit (b : Bool) : String := if b then "1" else "0"

def opSphRot (args : List String) : String :=
  match parseAll (K := K) args with
  | some [eps, cr, sr, cd, sd] =>
    let r := eulerRot cr sr cd sd
    match invEulerRot eps r with
    | .ok ri => "ok " ++ fmtAll (m3To K r ++ m3To K ri)
    | .error _ => "ok " ++ fmtAll (m3To K r) ++ " singular"
  | _ => "bad-op"

def opSphProt (args : List String) : String :=
  match args with
  | [cs, sn, ax] =>
    match (Sc.parse cs : Option K), (Sc.parse sn : Option K), ax.toNat? with
    | some c, some s, some axis =>
      match planarRot3d c s axis with
      | .ok m => "ok " ++ fmtAll (m3To K m)
      | .error e => "err " ++ sphErrName e
    | _, _, _ => "bad-op"
  | _ => "bad-op"

def opSphMean (args : List String) : String :=
  match args with
  | ns :: rest =>
    match ns.toNat?, parseAll (K := K) rest with
    | some n, some l =>
      if l.length ≠ 3 * n ∨ n = 0 then "bad-op" else
      let m := meanVec (triples K l)
      "ok " ++ fmtAll [m.x, m.y, m.z]
    | _, _ => "bad-op"
  | _ => "bad-op"

/-- a rotated first coordinate is exactly zero (`x / 0`: numpy gives inf / nan, `Rat` gives 0) -/
def hasDiv0 (exact : Bool) (r : M3 K) (vs : List (V3 K)) : Bool :=
  exact && vs.any fun v => eqZeroK (r.mulVec v).x

def opSphProj (exact : Bool) (args : List String) : String :=
  match parseAll (K := K) (args.take 9), args.drop 9 with
  | some rl, ns :: rest =>
    match m3Of K rl, ns.toNat?, parseAll (K := K) rest with
    | some r, some n, some l =>
      if l.length ≠ 3 * n then "bad-op" else
      let vs := triples K l
      if hasDiv0 K exact r vs then "err div0" else
      "ok " ++ bit (inHemisphereB r vs) ++ " " ++ fmtAll (flatPt K (project r vs))
    | _, _, _ => "bad-op"
  | _, _ => "bad-op"

def opSphBack (args : List String) : String :=
  match parseAll (K := K) (args.take 9), args.drop 9 with
  | some rl, ks :: rest =>
    match m3Of K rl, ks.toNat?, parseAll (K := K) rest with
    | some ri, some k, some l =>
      if l.length ≠ 2 * k then "bad-op" else
      "ok " ++ fmtAll (flatV3 K (backProject ri (pairsP K l)))
    | _, _, _ => "bad-op"
  | _, _ => "bad-op"

def opSphContains (args : List String) : String :=
  match args with
  | ks :: rest =>
    match ks.toNat? with
    | some k =>
      match parseAll (K := K) (rest.take (3 * k)), rest.drop (3 * k) with
      | some pl, ns :: rest2 =>
        match ns.toNat?, parseAll (K := K) rest2 with
        | some n, some l =>
          if l.length ≠ 3 * n then "bad-op" else
          let poly := triples K pl
          let vs := triples K l
          "ok " ++ String.join (vs.map fun v => bit (sphAllLeftB v poly)) ++ "- " ++
            String.join (vs.map fun v => bit (sphInsideCWB v poly)) ++ "-"
        | _, _ => "bad-op"
      | _, _ => "bad-op"
    | none => "bad-op"
  | _ => "bad-op"

variable [HasSqrt K]

/-- `hasSqrt = false` (mode `Q`): the boxes cannot be evaluated -/
def opSphFoot (exact : Bool) (args : List String) : String :=
  match parseAll (K := K) (args.take 20), args.drop 20 with
  | some hd, ns :: rest =>
    match m3Of K (hd.take 9), m3Of K ((hd.drop 9).take 9), hd.drop 18, ns.toNat?, parseAll (K := K) rest with
    | some r, some ri, [sep, tol], some n, some l =>
      if l.length ≠ 3 * n then "bad-op" else
      let vs := triples K l
      if hasDiv0 K exact r vs then "err div0" else
      let small : Bool := match convexHull (some sep) (project r vs) with
        | .ok h => decide (0 < h.length ∧ h.length < 4)
        | .error _ => false
      if exact && small then "err needsSqrt" else
      match footprintV r ri sep tol vs with
      | .error e => "err " ++ sphErrName e
      | .ok poly =>
        let plane : List (Pt K) := match planeFootprint sep tol (project r vs) with
          | .ok p => p
          | .error _ => []
        "ok " ++ bit (inHemisphereB r vs) ++ " " ++ bit (vs.all fun v => sphAllLeftB v poly) ++ " " ++
          bit (vs.all fun v => sphInsideCWB v poly) ++ " " ++ toString poly.length ++ " " ++
          fmtAll (flatPt K plane ++ flatV3 K poly)
    | _, _, _, _, _ => "bad-op"
  | _, _ => "bad-op"

variable [HasTrig K]

def opSphS2C (args : List String) : String :=
  match args with
  | ns :: rest =>
    match ns.toNat?, parseAll (K := K) rest with
    | some n, some l =>
      if l.length ≠ 2 * n then "bad-op" else
      "ok " ++ fmtAll (flatV3 K ((pairsP K l).map fun p => s2c p.1 p.2))
    | _, _ => "bad-op"
  | _ => "bad-op"

def opSphC2S (args : List String) : String :=
  match args with
  | ns :: rest =>
    match ns.toNat?, parseAll (K := K) rest with
    | some n, some l =>
      if l.length ≠ 3 * n then "bad-op" else
      "ok " ++ fmtAll ((triples K l).flatMap fun v => let d := c2s v; [d.x, d.y])
    | _, _ => "bad-op"
  | _ => "bad-op"

def opSphRotDeg (args : List String) : String :=
  match parseAll (K := K) args with
  | some [eps, a, d] =>
    let r := eulerRotOfDir (⟨a, d⟩ : V2 K)
    match invEulerRot eps r with
    | .ok ri => "ok " ++ fmtAll (m3To K r ++ m3To K ri)
    | .error _ => "ok " ++ fmtAll (m3To K r) ++ " singular"
  | _ => "bad-op"

def opSphFull (args : List String) : String :=
  match args with
  | e :: s :: d :: f :: ns :: rest =>
    match parseAll (K := K) [e, s, d, f], ns.toNat?, parseAll (K := K) rest with
    | some [eps, sep, d2r, ftol], some n, some l =>
      if l.length ≠ 2 * n then "bad-op" else
      match refCatFootprint eps sep d2r ftol ((pairsP K l).map fun p => (⟨p.1, p.2⟩ : V2 K)) with
      | .error er => "err " ++ sphErrName er
      | .ok o =>
        "ok " ++ fmtAll ([o.mean.x, o.mean.y, o.mean.z, o.refdir.x, o.refdir.y] ++ m3To K o.rot ++ m3To K o.rotInv) ++
          " " ++ toString o.proj.length ++ " " ++ fmtAll (flatPt K o.proj) ++
          " " ++ toString o.plane.length ++ " " ++
          fmtAll (flatPt K o.plane ++ flatV3 K o.back ++ o.radec.flatMap fun p => [p.x, p.y])
    | _, _, _ => "bad-op"
  | _ => "bad-op"

end

/-- mode `Q` never evaluates a square root (`opSphFoot` refuses the box branches first) -/
local instance : HasSqrt Rat := ⟨fun _ => 0⟩

def modeQF (q : List String → String) (f : List String → String) : List String → String
  | "Q" :: rest => q rest
  | "F" :: rest => f rest
  | _ => "bad-op"

def modeF (f : List String → String) : List String → String
  | "F" :: rest => f rest
  | _ => "bad-op"

def opsSphHull : List (String × (List String → String)) :=
  [("sph.rot", modeQF (opSphRot Rat) (opSphRot Float)),
   ("sph.prot", modeQF (opSphProt Rat) (opSphProt Float)),
   ("sph.mean", modeQF (opSphMean Rat) (opSphMean Float)),
   ("sph.proj", modeQF (opSphProj Rat true) (opSphProj Float false)),
   ("sph.back", modeQF (opSphBack Rat) (opSphBack Float)),
   ("sph.contains", modeQF (opSphContains Rat) (opSphContains Float)),
   ("sph.foot", modeQF (opSphFoot Rat true) (opSphFoot Float false)),
   ("sph.s2c", modeF (opSphS2C Float)),
   ("sph.c2s", modeF (opSphC2S Float)),
   ("sph.rotdeg", modeF (opSphRotDeg Float)),
   ("sph.full", modeF (opSphFull Float))]

end Drv
