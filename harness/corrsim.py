"""
Correction histories run on real correctors and on the Lean corrector models (ops `gcorr`, `fcorr`).

A history is a list of operations
    ('S', Aff)            set_correction(matrix, shift) in the corrector's own plane
    ('R', Aff, refcorr)   set_correction(matrix, shift, ref_tpwcs=refcorr)
    ('W',)                re-wrap: new corrector built from the corrected WCS
    ('C',)                copy()
The model works in the *chart* given by the uncorrected corrector c0: sky positions are expressed as
c0.world_to_tanp(ra, dec) (arcsec for gWCS, pixels for FITS), detector positions as c0.det_to_tanp.
"""
import math

import numpy as np

from .common import f2x, x2f, q2s, Fraction
from . import scenes
from .scenes import Aff

RAD2ARCSEC = 3600.0 * np.rad2deg(1.0)

TP_X = np.array([-0.5, 0.5, -0.5, 0.0])
TP_Y = np.array([-0.5, -0.5, 0.5, 0.0])


def apply_real(c0, history):
    """run the history on the real code; returns the final corrector and the list of intermediate
    correctors *before* each op (needed to sample plane-to-plane maps)"""
    c = c0.copy()
    before = []
    for op in history:
        before.append(c)
        if op[0] == 'S':
            c = c.copy() if False else c
            c.set_correction(op[1].M.tolist(), op[1].t.tolist())
        elif op[0] == 'R':
            c.set_correction(op[1].M.tolist(), op[1].t.tolist(), ref_tpwcs=op[2])
        elif op[0] == 'W':
            c = scenes.rewrap(c)
        elif op[0] == 'C':
            c = c.copy()
        else:
            raise ValueError(op)
    return c, before


def tp_scale(ref, cur):
    """the sampling scale used for the plane-to-plane linearisation (model side): one pixel of the
    current image in the reference plane's units, as `_tp2tp` estimates it"""
    try:
        px, py = 512.0, 512.0
        xt, yt = ref.world_to_tanp(*cur.det_to_world(px + TP_X, py + TP_Y))
        m = np.array([(xt[1:-1] - xt[0]), (yt[1:-1] - yt[0])])
        s = math.sqrt(abs(np.linalg.det(m)))
        return s if s > 0 and np.isfinite(s) else 1.0
    except Exception:
        return 1.0


class Sim:
    """one scenario: corrector c0, probe pixels, history; builds the driver line"""

    def __init__(self, c0, px, py):
        self.c0 = c0
        self.px = np.asarray(px, dtype=float)
        self.py = np.asarray(py, dtype=float)
        self.jwst = scenes.is_jwst(c0)
        self.u0 = np.array(c0.det_to_tanp(self.px, self.py), dtype=float)   # chart coords of probes

    def chart(self, ra, dec):
        return np.array(self.c0.world_to_tanp(ra, dec), dtype=float)

    # ---- model lines ---------------------------------------------------
    def gcorr_line(self, history, mode='F'):
        """history is replayed on the real code to obtain the sample images of `_tp2tp`"""
        c = self.c0.copy()
        toks = []
        for op in history:
            if op[0] == 'S':
                toks += ['S'] + [f2x(v) for v in op[1].flat()]
                c.set_correction(op[1].M.tolist(), op[1].t.tolist())
            elif op[0] == 'R':
                ref = op[2]
                s = tp_scale(ref, c)
                xr, yr = c.world_to_tanp(*ref.tanp_to_world(TP_X * s, TP_Y * s))
                xr = np.asarray(xr, dtype=float)
                yr = np.asarray(yr, dtype=float)
                pts = []
                for k in range(4):
                    pts += [xr[k], yr[k]]
                toks += ['R'] + [f2x(v) for v in op[1].flat()] + [f2x(v) for v in pts] + [f2x(s)]
                c.set_correction(op[1].M.tolist(), op[1].t.tolist(), ref_tpwcs=ref)
            elif op[0] == 'W':
                toks += ['W']
                c = scenes.rewrap(c)
            else:
                toks += ['C']
                c = c.copy()
        frames = list(self.c0.wcs.available_frames)
        probes = []
        for k in range(len(self.px)):
            probes += [f2x(self.u0[0][k]), f2x(self.u0[1][k])]
        line = ' '.join(['gcorr', mode, f2x(RAD2ARCSEC), str(len(frames))] + frames +
                        [str(len(history))] + toks + [str(len(self.px))] + probes)
        return line, c

    def fcorr_line(self, history, mode='F'):
        c0 = self.c0
        w = c0.wcs
        crpix0 = np.array(w.wcs.crpix, dtype=float) - 1.0
        pc_form = not w.wcs.has_cd()
        if pc_form:
            cdelt = [float(w.wcs.cdelt[0]), float(w.wcs.cdelt[1])]
            lin = [1.0 / cdelt[0], 0.0, 0.0, 1.0 / cdelt[1]]
        else:
            cdelt = [1.0, 1.0]
            lin = [1.0, 0.0, 0.0, 1.0]
        hx, hy = scenes.fits_steps(c0)
        toks = []
        c = c0.copy()
        for op in history:
            if op[0] == 'S':
                toks += ['S'] + [f2x(v) for v in op[1].flat()] + [f2x(hx), f2x(hy)]
                c.set_correction(op[1].M.tolist(), op[1].t.tolist())
            elif op[0] == 'R':
                ref = op[2]
                P = scenes.linearize(lambda x, y: ref.world_to_tanp(*c0.tanp_to_world(x, y)),
                                     crpix0, 50.0)
                toks += ['R'] + [f2x(v) for v in P.flat()] + [f2x(v) for v in op[1].flat()] + \
                    [f2x(hx), f2x(hy)]
                c.set_correction(op[1].M.tolist(), op[1].t.tolist(), ref_tpwcs=ref)
            elif op[0] == 'W':
                toks += ['W']
                c = scenes.rewrap(c)
            else:
                toks += ['C']
                c = c.copy()
        probes = []
        for k in range(len(self.px)):
            probes += [f2x(self.u0[0][k]), f2x(self.u0[1][k])]
        head = [f2x(crpix0[0]), f2x(crpix0[1])] + [f2x(v) for v in lin] + [f2x(v) for v in cdelt] + \
            ['1' if pc_form else '0', f2x(crpix0[0]), f2x(crpix0[1])]
        line = ' '.join(['fcorr', mode] + head + [str(len(history))] + toks + [str(len(self.px))] + probes)
        return line, c

    def line(self, history):
        return self.gcorr_line(history) if self.jwst else self.fcorr_line(history)

    # ---- parse model output --------------------------------------------
    def parse(self, out):
        """returns dict with model predictions in the chart"""
        if not out.startswith('ok '):
            return None
        head, tail = out[3:].split('|')
        ht = head.split()
        tt = tail.split()
        n = len(self.px)
        if self.jwst:
            nf = int(ht[2])
            res = {'corrected': ht[0] == '1', 'v23name': ht[1], 'frames': ht[3:3 + nf],
                   'valid': ht[3 + nf] == '1', 'aff': [x2f(t) for t in ht[4 + nf:10 + nf]]}
            vals = np.array([x2f(t) for t in tt]).reshape(n, 6)
            res['det_to_tanp'] = vals[:, 0:2].T
            res['sky_chart'] = vals[:, 2:4].T
            res['roundtrip'] = vals[:, 4:6].T
        else:
            res = {'crval': [x2f(ht[0]), x2f(ht[1])], 'lin': [x2f(t) for t in ht[2:6]],
                   'cdelt': [x2f(ht[6]), x2f(ht[7])], 'pc_form': ht[8] == '1',
                   'crpix0': [x2f(ht[9]), x2f(ht[10])]}
            vals = np.array([x2f(t) for t in tt]).reshape(n, 4)
            res['sky_chart'] = vals[:, 0:2].T
            res['w2t_final'] = vals[:, 2:4].T
        return res


# ---- tolerances (DESIGN.md section 2.4) ----------------------------------------------------------
def sky_sep_rad(c1, c2):
    """angular separation of the tangent points of two correctors (radians)"""
    r1 = np.deg2rad(np.array(c1.tanp_to_world(0.0, 0.0) if scenes.is_jwst(c1)
                             else c1.wcs.wcs.crval, dtype=float))
    r2 = np.deg2rad(np.array(c2.tanp_to_world(0.0, 0.0) if scenes.is_jwst(c2)
                             else c2.wcs.wcs.crval, dtype=float))
    d = math.sin(r1[1]) * math.sin(r2[1]) + math.cos(r1[1]) * math.cos(r2[1]) * math.cos(r1[0] - r2[0])
    return math.acos(max(-1.0, min(1.0, d)))


def plane_unit_rad(c):
    """size of one tangent-plane unit of corrector c in radians (arcsec for gWCS, pixel for FITS)"""
    if scenes.is_jwst(c):
        return 1.0 / RAD2ARCSEC
    w = c.wcs
    m = w.pixel_scale_matrix
    return math.radians(math.sqrt(abs(np.linalg.det(m))))


def field_radius_units(c):
    """field radius in tangent-plane units of c"""
    nx, ny = scenes.image_size(c)
    x, y = c.det_to_tanp(np.array([0.0, nx - 1.0, 0.0, nx - 1.0]), np.array([0.0, 0.0, ny - 1.0, ny - 1.0]))
    x0, y0 = c.det_to_tanp(0.5 * nx, 0.5 * ny)
    return float(np.max(np.hypot(np.asarray(x) - x0, np.asarray(y) - y0)))


def corr_size_units(f, rho):
    """size of a correction (M, s) over a field of radius rho, in plane units"""
    return float(np.hypot(*f.t) + np.linalg.norm(f.M - np.eye(2), 2) * rho)
