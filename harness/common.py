"""
Common machinery of the correspondence harness (see DESIGN.md section 2).

* exact number exchange with the Lean driver (floats as 64-bit patterns, rationals as num/den);
* the run context: one PRNG derived from VERIF_SEED, counters for the evidence file,
  collection of correspondence disagreements and oracle (property-level) failures;
* verdict logic, evidence and replay files.

Exit codes: 0 property held on everything explored; 1 violation (a VIOLATION line is printed);
2 infrastructure problem (timeout, missing tool, crash) -- never a verdict.
"""
import fractions
import hashlib
import json
import os
import random
import struct
import subprocess
import sys
import time
import traceback

VERIF = os.path.dirname(os.path.dirname(os.path.abspath(__file__)))
LEAN = os.path.join(VERIF, 'lean')
DRIVER = os.path.join(LEAN, '.lake', 'build', 'bin', 'driver')
# (runs against a scratch worktree - VERIF_ALLOW_REPO, the seeded self-test - may redirect their output so that
#  the evidence of the registered checks is never overwritten by a run on a changed tree)
EVIDENCE = os.environ.get('VERIF_EVIDENCE_DIR') or os.path.join(VERIF, 'evidence')
REPLAYS = os.environ.get('VERIF_REPLAY_DIR') or os.path.join(VERIF, 'replays')
ALLOWED_AXIOMS = {'propext', 'Classical.choice', 'Quot.sound'}

Fraction = fractions.Fraction


class Infra(Exception):
    """infrastructure failure: exit 2, never a verdict"""


# ----------------------------------------------------------------------------
# numbers
# ----------------------------------------------------------------------------
def f2x(x):
    """double -> 'x%016x' (bit pattern)"""
    return 'x%016x' % struct.unpack('<Q', struct.pack('<d', float(x)))[0]


def x2f(s):
    assert s[0] == 'x', s
    return struct.unpack('<d', struct.pack('<Q', int(s[1:], 16)))[0]


def q2s(q):
    q = Fraction(q)
    return '%d/%d' % (q.numerator, q.denominator)


def s2q(s):
    if '/' in s:
        a, b = s.split('/')
        return Fraction(int(a), int(b))
    return Fraction(int(s))


def num2s(v, mode):
    return f2x(v) if mode == 'F' else q2s(v)


def s2num(s, mode):
    return x2f(s) if mode == 'F' else s2q(s)


def to_fraction(x):
    """exact value of a python/numpy float (or int/Fraction)"""
    if isinstance(x, Fraction):
        return x
    if isinstance(x, int):
        return Fraction(x)
    return Fraction(*float(x).as_integer_ratio())


# ----------------------------------------------------------------------------
# the collinearity guard of fit_general, evaluated exactly from the data
# ----------------------------------------------------------------------------
GUARD_EPS = Fraction(1, 2 ** 52)      # numpy.finfo(numpy.double).eps, the threshold of the code
GUARD_BAND = 64                       # a decision within this factor of the threshold is decided by rounding


def harmonic_weights(n, wxy, wuv):
    """the weights fit_general uses, exactly: 1 each / the one list / wxy*wuv/(wxy+wuv) where both are
    positive and 0 elsewhere"""
    if wxy is None and wuv is None:
        return [Fraction(1)] * n
    if wxy is None:
        return [to_fraction(w) for w in wuv]
    if wuv is None:
        return [to_fraction(w) for w in wxy]
    out = []
    for a, b in zip(wxy, wuv):
        a, b = to_fraction(a), to_fraction(b)
        out.append(a * b / (a + b) if (a > 0 and b > 0) else Fraction(0))
    return out


def guard_ratio(uv, w):
    """(cuu*cvv - cuv^2) / ((cuu + cvv)/2)^2 of the weighted second central moments of the points `uv`
    (weights `w`), in exact rational arithmetic from the exact values of the doubles.  fit_general raises
    SingularMatrixError iff this is <= 2^-52.  0 when all weighted points coincide; None when the weights do
    not have a positive sum.  Shares no code with the Lean model."""
    w = [to_fraction(x) for x in w]
    pts = [(to_fraction(p[0]), to_fraction(p[1])) for p in uv]
    W = sum(w, Fraction(0))
    if W <= 0:
        return None
    um = sum((a * p[0] for a, p in zip(w, pts)), Fraction(0)) / W
    vm = sum((a * p[1] for a, p in zip(w, pts)), Fraction(0)) / W
    cuu = sum((a * (p[0] - um) ** 2 for a, p in zip(w, pts)), Fraction(0))
    cvv = sum((a * (p[1] - vm) ** 2 for a, p in zip(w, pts)), Fraction(0))
    cuv = sum((a * (p[0] - um) * (p[1] - vm) for a, p in zip(w, pts)), Fraction(0))
    h = (cuu + cvv) / 2
    if h == 0:
        return Fraction(0)
    return (cuu * cvv - cuv * cuv) / (h * h)


def guard_expect(ratio):
    """what a correct evaluation of the guard in (at least) long double must do:
    'singular' (ratio below the band around 2^-52), 'fit' (above it), 'tie' (inside: rounding decides)"""
    if ratio is None:
        return 'tie'
    if ratio < GUARD_EPS / GUARD_BAND:
        return 'singular'
    if ratio > GUARD_EPS * GUARD_BAND:
        return 'fit'
    return 'tie'


def guard_mismatch_is_tie(ratio, mode, n):
    """one of (model, implementation) reported SingularMatrixError / `err singular` and the other returned a
    fit: is that a near-tie decided by rounding?  Exact model (mode 'Q') against the long-double code: only
    inside the band [2^-52/64, 2^-52*64].  Model run in doubles (mode 'F'): its evaluation of
    (cuu*cvv - cuv^2)/((cuu+cvv)/2)^2 carries an absolute rounding error of up to 4(n+4) 2^-53 (cancellation
    in cuu*cvv - cuv^2), so its verdict means nothing at or below 2^-52 * max(64, 4(n+4)); the implementation
    is then still judged by `guard_expect` (oracle) and by the exact model."""
    if ratio is None:
        return True
    if mode == 'Q':
        return GUARD_EPS / GUARD_BAND <= ratio <= GUARD_EPS * GUARD_BAND
    return ratio <= GUARD_EPS * max(GUARD_BAND, 4 * (n + 4))


# ----------------------------------------------------------------------------
# the Lean driver
# ----------------------------------------------------------------------------
def run_driver(lines, timeout):
    """pipe operation lines to the compiled model driver; one output line per input line"""
    if not lines:
        return []
    if not os.path.exists(DRIVER):
        raise Infra('model driver not built: %s' % DRIVER)
    data = ('\n'.join(lines) + '\n').encode()
    try:
        p = subprocess.run([DRIVER], input=data, stdout=subprocess.PIPE,
                           stderr=subprocess.PIPE, timeout=timeout)
    except subprocess.TimeoutExpired:
        raise Infra('model driver timed out after %ss on %d lines' % (timeout, len(lines)))
    if p.returncode != 0:
        raise Infra('model driver exited %d: %s' % (p.returncode, p.stderr.decode()[-400:]))
    out = p.stdout.decode().split('\n')
    if out and out[-1] == '':
        out.pop()
    if len(out) != len(lines):
        raise Infra('model driver returned %d lines for %d operations' % (len(out), len(lines)))
    return out


# ----------------------------------------------------------------------------
# run context
# ----------------------------------------------------------------------------
def _jsonable(o):
    import numpy as np
    if isinstance(o, dict):
        return {str(k): _jsonable(v) for k, v in o.items()}
    if isinstance(o, (list, tuple)):
        return [_jsonable(v) for v in o]
    if isinstance(o, Fraction):
        return q2s(o)
    if isinstance(o, np.ndarray):
        return _jsonable(o.tolist())
    if isinstance(o, (np.floating,)):
        return float(o)
    if isinstance(o, (np.integer,)):
        return int(o)
    if isinstance(o, (np.bool_,)):
        return bool(o)
    if isinstance(o, float):
        if o != o or o in (float('inf'), float('-inf')):
            return repr(o)
        return o
    if isinstance(o, (str, int, bool)) or o is None:
        return o
    return repr(o)


class Ctx:
    def __init__(self, pid, tier, seed):
        self.pid = pid
        self.tier = tier
        self.seed = seed
        self.rng = random.Random('%s:%d' % (pid, seed))
        self.t0 = time.time()
        self.evaluations = 0
        self.impl_traces = 0
        self.distinct = set()
        self.branches = {}
        self.samples = []
        self.near_tie_skipped = 0
        self.disagreements = []     # model vs implementation
        self.oracle_failures = []   # property violated on the implementation (concrete input)
        self.notes = []
        self.child_timeout = 120 if tier == 'quick' else 900
        self.exhaustive = False
        self.extra = {}
        self.scale = 1           # >1 for the widened failing-input search
        self.search_only = False

    # -- sizing --------------------------------------------------------
    def n(self, quick, thorough):
        return (quick if self.tier == 'quick' else thorough) * self.scale

    def driver(self, lines):
        return run_driver(lines, self.child_timeout)

    # -- bookkeeping ---------------------------------------------------
    def branch(self, name, k=1):
        self.branches[name] = self.branches.get(name, 0) + k

    def case(self, case, nontrivial=True, branch=None, impl=True):
        """record one explored case; `nontrivial` by the property's stated rule"""
        self.evaluations += 1
        if impl:
            self.impl_traces += 1
        if branch:
            self.branch(branch)
        if nontrivial:
            h = hashlib.sha1(json.dumps(_jsonable(case), sort_keys=True).encode()).hexdigest()
            self.distinct.add(h)
        if len(self.samples) < 3:
            self.samples.append(_jsonable(case))

    def near_tie(self, k=1):
        self.near_tie_skipped += k

    def disagree(self, case, detail):
        self.disagreements.append({'kind': 'correspondence', 'case': _jsonable(case),
                                   'detail': _jsonable(detail)})

    def oracle_fail(self, case, detail):
        self.oracle_failures.append({'kind': 'property-oracle', 'case': _jsonable(case),
                                     'detail': _jsonable(detail)})

    def note(self, s):
        self.notes.append(s)


def close(a, b, rtol=1e-9, atol=0.0):
    a = float(a)
    b = float(b)
    if a != a or b != b:
        return (a != a) and (b != b)
    return abs(a - b) <= atol + rtol * max(abs(a), abs(b))


def allclose(a, b, rtol=1e-9, atol=0.0):
    a = list(a)
    b = list(b)
    return len(a) == len(b) and all(close(x, y, rtol, atol) for x, y in zip(a, b))


def assert_repo():
    """the implementation under test must be the working tree of /repo"""
    import tweakwcs
    p = os.path.realpath(tweakwcs.__file__)
    allow = os.environ.get('VERIF_ALLOW_REPO')  # mutation experiments on a scratch copy only
    if not (p.startswith('/repo/') or (allow and p.startswith(os.path.realpath(allow) + '/'))):
        raise Infra('tweakwcs resolves to %s, not to /repo' % p)
    return p


# ----------------------------------------------------------------------------
# known findings
# ----------------------------------------------------------------------------
def load_known():
    p = os.path.join(VERIF, 'known_findings.json')
    with open(p) as f:
        return json.load(f)
