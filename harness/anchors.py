"""
Fingerprints of the anchored code of each property (normalised AST of the functions named in the
property's anchors).  The fingerprints recorded in anchors.json belong to the tree on which the
model was validated.  A drift is NOT a verdict: it only tells the check that the code the model was
tied to has changed, so the check deepens the correspondence run and the failing-input search (more
cases) on exactly the occasions when that matters, while every-change runs on an unchanged anchor
stay fast.  The drift is reported in the evidence file.
"""
import ast
import hashlib
import importlib
import inspect
import json
import os

from .common import VERIF

ANCHORS = {
    'C01': ['imalign.fit_wcs', 'imalign.align_wcs', 'wcsimage.WCSGroupCatalog.fit2ref',
            'wcsimage.WCSGroupCatalog.calc_tanp_xy', 'wcsimage.RefCatalog.calc_tanp_xy',
            'wcsimage.WCSGroupCatalog.align_to_ref', 'wcsimage.WCSGroupCatalog.apply_affine_to_wcs',
            'correctors.FITSWCSCorrector.set_correction', 'correctors.JWSTWCSCorrector.set_correction',
            'correctors.JWSTWCSCorrector._update_transformations', 'linearfit.iter_linear_fit'],
    'C02': ['correctors.FITSWCSCorrector.set_correction', 'correctors.FITSWCSCorrector._linearize',
            'correctors.JWSTWCSCorrector.set_correction', 'correctors.JWSTWCSCorrector._tpcorr_combine_affines',
            'correctors._tp2tp', 'correctors.JWSTWCSCorrector._update_transformations',
            'correctors.JWSTWCSCorrector.det_to_tanp', 'correctors.JWSTWCSCorrector.world_to_tanp'],
    'C03': ['correctors.FITSWCSCorrector.det_to_world', 'correctors.FITSWCSCorrector.world_to_det',
            'correctors.FITSWCSCorrector.det_to_tanp', 'correctors.FITSWCSCorrector.tanp_to_det',
            'correctors.FITSWCSCorrector.world_to_tanp', 'correctors.FITSWCSCorrector.tanp_to_world',
            'correctors.JWSTWCSCorrector.det_to_world', 'correctors.JWSTWCSCorrector.world_to_det',
            'correctors.JWSTWCSCorrector.det_to_tanp', 'correctors.JWSTWCSCorrector.tanp_to_det',
            'correctors.JWSTWCSCorrector.world_to_tanp', 'correctors.JWSTWCSCorrector.tanp_to_world',
            'correctors.JWSTWCSCorrector._update_transformations',
            'correctors.JWSTWCSCorrector._v2v3_to_tpcorr_from_full',
            'correctors.JWSTWCSCorrector._tpcorr_init', 'correctors.JWSTWCSCorrector._tpcorr_combine_affines'],
    'C04': ['correctors.JWSTWCSCorrector._tpcorr_combine_affines', 'correctors.JWSTWCSCorrector.set_correction',
            'correctors.JWSTWCSCorrector.__init__', 'correctors.JWSTWCSCorrector._check_wcs_structure',
            'correctors.WCSCorrector.__init__', 'correctors.WCSCorrector.copy',
            'correctors.FITSWCSCorrector.set_correction'],
    'C05': ['correctors._tp2tp', 'correctors.JWSTWCSCorrector.set_correction',
            'correctors.FITSWCSCorrector.set_correction', 'wcsimage.WCSGroupCatalog.apply_affine_to_wcs',
            'wcsimage.WCSGroupCatalog.align_to_ref'],
    'C06': ['linearfit.fit_shifts', 'linearfit.fit_rscale', 'linearfit.fit_rshift', 'linearfit.fit_general',
            'linalg.inv'],
    'C07': ['linearfit.iter_linear_fit', 'linearfit._compute_stat'],
    'C08': ['linearfit.iter_linear_fit', 'linearfit.fit_shifts', 'linearfit.fit_rscale', 'linearfit.fit_general'],
    'C09': ['linearfit.iter_linear_fit', 'linearfit.fit_shifts', 'linearfit.fit_rscale', 'linearfit.fit_general',
            'wcsimage.WCSGroupCatalog.create_group_catalog', 'wcsimage.WCSGroupCatalog.fit2ref'],
    'C10': ['linearfit._build_fit', 'linearfit.build_fit_matrix', 'linearfit._compute_stat'],
    'C11': ['matchutils.XYXYMatch.__call__', 'wcsimage.WCSGroupCatalog.match2ref',
            'matchutils._estimate_2dhist_shift'],
    'C12': ['matchutils._xy_2dhist', 'matchutils._estimate_2dhist_shift', 'matchutils._find_peak'],
    'C13': ['imalign.align_wcs', 'wcsimage.WCSGroupCatalog.align_to_ref'],
    'C14': ['imalign.align_wcs', 'imalign._max_overlap_image', 'imalign._max_overlap_pair',
            'wcsimage.WCSGroupCatalog.get_unmatched_cat', 'wcsimage.WCSGroupCatalog.recalc_catalog_radec',
            'wcsimage.RefCatalog.expand_catalog'],
    'C15': ['imalign._max_overlap_pair', 'imalign._max_overlap_image', 'imalign.overlap_matrix',
            'wcsimage.WCSImageCatalog._guarded_intersection_area',
            'wcsimage.WCSGroupCatalog._guarded_intersection_area', 'wcsimage.RefCatalog._guarded_intersection_area'],
    'C16': ['wcsimage.convex_hull', 'wcsimage.WCSImageCatalog._calc_cat_convex_hull',
            'wcsimage.WCSImageCatalog._calc_chip_bounding_polygon', 'wcsimage.RefCatalog._calc_cat_convex_hull',
            'wcsimage.WCSGroupCatalog.update_bounding_polygon', 'wcsimage.WCSGroupCatalog._aproximate_bb'],
    'C17': ['linalg.inv', 'linalg._is_longdouble_lte_flt_type', 'linalg._find_max_linalg_type',
            'linearfit.fit_general', 'linearfit.fit_rscale'],
    'C18': ['correctors.FITSWCSCorrector.set_correction', 'correctors.FITSWCSCorrector.__init__',
            'correctors.FITSWCSCorrector._check_wcs_structure'],
    'C19': ['linearfit.iter_linear_fit', 'wcsimage.WCSImageCatalog.catalog', 'wcsimage.RefCatalog.catalog',
            'imalign.align_wcs', 'wcsimage.WCSGroupCatalog.align_to_ref', 'wcsimage.WCSGroupCatalog._aproximate_bb',
            'correctors.WCSCorrector.__init__', 'correctors.WCSCorrector.copy'],
    'C20': ['correctors.WCSCorrector.tanp_pixel_scale', 'correctors.WCSCorrector._get_tanp_center_pixel_scale',
            'correctors.FITSWCSCorrector._get_tanp_center_pixel_scale'],
}


def _resolve(name):
    mod, _, qual = name.partition('.')
    obj = importlib.import_module('tweakwcs.' + mod)
    for part in qual.split('.'):
        obj = inspect.getattr_static(obj, part) if inspect.isclass(obj) else getattr(obj, part)
        if isinstance(obj, property):
            obj = obj.fset or obj.fget
        if isinstance(obj, (staticmethod, classmethod)):
            obj = obj.__func__
    return obj


def fingerprint(name):
    """hash of the normalised AST (comments, blank lines and docstrings do not count)"""
    try:
        obj = _resolve(name)
        obj = inspect.unwrap(obj)
        src = inspect.getsource(obj)
        tree = ast.parse(__import__('textwrap').dedent(src))
        for node in ast.walk(tree):
            if isinstance(node, (ast.FunctionDef, ast.AsyncFunctionDef, ast.ClassDef)) and node.body and \
                    isinstance(node.body[0], ast.Expr) and isinstance(getattr(node.body[0], 'value', None), ast.Constant) \
                    and isinstance(node.body[0].value.value, str):
                node.body = node.body[1:] or [ast.Pass()]
        return hashlib.sha1(ast.dump(tree, annotate_fields=False).encode()).hexdigest()[:16]
    except Exception as e:   # renamed / removed anchor: that is a drift as well
        return 'unresolved:%s' % type(e).__name__


def current(pid):
    return {n: fingerprint(n) for n in ANCHORS.get(pid, [])}


def recorded():
    p = os.path.join(VERIF, 'anchors.json')
    if not os.path.exists(p):
        return {}
    with open(p) as f:
        return json.load(f)


def drift(pid):
    """names of anchored functions whose code differs from the recorded fingerprint"""
    rec = recorded().get(pid, {})
    cur = current(pid)
    return sorted(n for n in cur if rec.get(n) != cur[n])


def record_all():
    out = {pid: current(pid) for pid in sorted(ANCHORS)}
    with open(os.path.join(VERIF, 'anchors.json'), 'w') as f:
        json.dump(out, f, indent=1, sort_keys=True)
    return out


# ---------------------------------------------------------------------------
# line coverage of the anchored code during the correspondence / oracle run (sys.monitoring, PEP 669;
# every location is disabled after its first hit, so the cost is negligible).  Reported in the
# evidence: which share of the executable lines of each anchored function the run has executed, and
# which lines it has not - a changed line that no case executes cannot be noticed by the tie.
# ---------------------------------------------------------------------------
import sys

_hits = set()
_TOOL = 1   # sys.monitoring.COVERAGE_ID


def start_coverage():
    mon = getattr(sys, 'monitoring', None)
    if mon is None:
        return False
    try:
        mon.use_tool_id(_TOOL, 'verif-anchors')
    except ValueError:
        return False
    import tweakwcs
    root = os.path.dirname(os.path.abspath(tweakwcs.__file__)) + os.sep

    def on_line(code, line):
        if code.co_filename.startswith(root):
            _hits.add((code.co_filename, line))
        return mon.DISABLE
    mon.register_callback(_TOOL, mon.events.LINE, on_line)
    mon.set_events(_TOOL, mon.events.LINE)
    return True


def stop_coverage():
    mon = getattr(sys, 'monitoring', None)
    if mon is None:
        return
    try:
        mon.set_events(_TOOL, 0)
        mon.register_callback(_TOOL, mon.events.LINE, None)
        mon.free_tool_id(_TOOL)
    except Exception:
        pass


def _code_lines(code):
    out = {ln for _, _, ln in code.co_lines() if ln is not None and ln > code.co_firstlineno}
    for c in code.co_consts:
        if hasattr(c, 'co_lines'):
            out |= _code_lines(c)
    return out


def all_hits():
    """{file basename: sorted executed line numbers} of the package during the run"""
    out = {}
    for fn, ln in _hits:
        out.setdefault(os.path.basename(fn), set()).add(ln)
    return {k: sorted(v) for k, v in out.items()}


def coverage_report(pid):
    """{anchor: {'lines': n, 'executed': k, 'not_executed': [line numbers]}} for the anchors of pid"""
    rep = {}
    for name in ANCHORS.get(pid, []):
        try:
            obj = inspect.unwrap(_resolve(name))
            code = obj.__code__
        except Exception:
            rep[name] = {'lines': 0, 'executed': 0, 'not_executed': [], 'note': 'unresolved'}
            continue
        lines = _code_lines(code)
        hit = {ln for fn, ln in _hits if fn == code.co_filename and ln in lines}
        rep[name] = {'lines': len(lines), 'executed': len(hit), 'not_executed': sorted(lines - hit)}
    return rep
