"""
C11 / C09 / C14 (part) -- the index bookkeeping of `tweakwcs.wcsimage.WCSGroupCatalog`.

Model: the state machine `TW.GC` of lean/Model/GroupCat.lean, driver op `groupcat` (lean/Drv/GroupCat.lean).

Correspondence
  REAL `WCSImageCatalog` / `WCSGroupCatalog` / `RefCatalog` objects are built (FITS TAN correctors of
  harness/alignsim.py with a different WCS per member, FITS CD/PC/SIP/LUT and mock-JWST correctors of
  harness/scenes.py; groups of 1..5 members with empty members at every position, with / without `weight`
  columns, with / without an `id` column) and operation sequences are run on them:
    * `calc_tanp_xy`, `match2ref` (with a FAKE matcher -- a callable with the XYXYMatch call signature that
      returns prescribed index arrays: valid, repeated, negative, out of range, of unequal lengths, empty -- and
      with `match=None`) against reference catalogs of different sizes / ids / weights, `get_matched_cat`,
      `get_unmatched_cat`, `recalc_catalog_radec` (after corrections of the members' WCS), `fit2ref` (the four
      arrays handed to `iter_linear_fit` are recorded by a spy), `align_to_ref`, and
      `refcat.expand_catalog(get_unmatched_cat())`.
  After EVERY operation the real columns are read (`_imcat_idx`, `id`, `x`, `y`, `RA`, `DEC`, `weight`, `TPx`,
  `TPy`, and DATA and MASK of `matched_ref_id`, `_raw_matched_ref_idx`; `_mref_idx`, `_minput_idx`), as well as
  what the operation returned or raised, and are compared with the model line by line.  The model performs no
  arithmetic: the WCS of member number p is handed to it as the table of `member[p].det_to_world` on ALL rows
  of the group (so a row recomputed with the wrong member's WCS is seen), `world_to_tanp` likewise.
  Integers, masks, x, y, ids and weights are compared exactly, sky / tangent-plane values to 1e-9 deg / 1e-6
  plane units (they are recomputed by a second call of the same WCS function).  The data UNDER a set mask bit
  are not constrained by the properties: agreement is only counted (`groupcat:stale-data:*`).

Oracle (independent of the model; brute force from the member catalogs)
  * every row r of the group catalog is the j-th row of the k-th NON-EMPTY member (`_imcat_idx` = k), members in
    order, rows in order, length = sum of the lengths, weights carried along, RA/DEC = that member's WCS;
  * after a successful `match2ref` row i is unmasked in `matched_ref_id` iff i occurs among the input indices of
    THIS call, and then holds the reference id of the LAST pair naming it; same for `_raw_matched_ref_idx`;
    nothing of an earlier call is visible; `nmatches` = length of the reference index array;
  * `get_matched_cat` / `get_unmatched_cat` partition the rows (order kept) into the rows named / not named by
    the last call;
  * after `recalc_catalog_radec` / a successful `align_to_ref` RA/DEC of row r is the CURRENT WCS of ITS member
    applied to its own x, y;
  * the arrays given to `iter_linear_fit` are (reference row mref[k], group row minput[k]) with the weights
    of exactly those rows;
  * `expand_catalog(get_unmatched_cat())` appends exactly the unmatched rows (sky positions as in the catalog),
    each once, with ids max+1, max+2, ...
"""
import copy
import logging
import random

import numpy as np

from ..common import Fraction, q2s, s2q, to_fraction

SKY_TOL = 1e-9          # deg
TP_ATOL, TP_RTOL = 1e-6, 1e-9
MISSING = Fraction(-987654321)

ERRK = {'KeyError': 'keyError', 'ValueError': 'valueError', 'RuntimeError': 'runtimeError',
        'IndexError': 'indexError', 'AttributeError': 'attributeError'}
FITMIN = {'shift': 1, 'rshift': 2, 'rscale': 2, 'general': 3}


def num(v):
    return q2s(to_fraction(float(v)))


# ---------------------------------------------------------------------------
# building the real objects from a pure-data spec
# ---------------------------------------------------------------------------
def build_corrector(ms):
    from .. import alignsim, scenes
    kind = ms['kind']
    if kind == 'tan':
        from tweakwcs import FITSWCSCorrector
        return FITSWCSCorrector(alignsim.mkwcs(tuple(ms['crpix']), tuple(ms['err']), rot=ms['rot'],
                                               crval=tuple(ms['crval'])))
    r = random.Random(ms['seed'])
    if kind == 'jwst':
        return scenes.mk_jwst(r, pointing=tuple(ms['crval']))[0]
    return scenes.mk_fits(r, kind=kind[5:], pointing=tuple(ms['crval']))[0]


def build_member(ms, k):
    from astropy.table import Table
    from tweakwcs import wcsimage
    cols = [np.array(ms['x'], dtype=float), np.array(ms['y'], dtype=float)]
    names = ['x', 'y']
    if ms.get('w') is not None:
        cols.append(np.array(ms['w'], dtype=float))
        names.append('weight')
    if ms.get('ids') is not None:
        cols.append(np.array(ms['ids'], dtype=int))
        names.append('id')
    return wcsimage.WCSImageCatalog(Table(cols, names=names), build_corrector(ms), name='m%d' % k)


def build_ref(rs):
    from astropy.table import Table
    from tweakwcs import wcsimage
    cols = [np.array(rs['ra'], dtype=float), np.array(rs['dec'], dtype=float)]
    names = ['RA', 'DEC']
    if rs.get('ids') is not None:
        cols.append(np.array(rs['ids'], dtype=int))
        names.append('id')
    if rs.get('w') is not None:
        cols.append(np.array(rs['w'], dtype=float))
        names.append('weight')
    return wcsimage.RefCatalog(Table(cols, names=names), name='ref')


class FakeMatch:
    """a matcher with the call signature of XYXYMatch that returns prescribed index arrays"""

    def __init__(self, mref, minput):
        self.mref, self.minput = list(mref), list(minput)
        self.calls = 0

    def __call__(self, refcat, imcat, tp_pscale=1.0, tp_units=None, **kw):
        self.calls += 1
        return np.array(self.mref, dtype=int), np.array(self.minput, dtype=int)


# ---------------------------------------------------------------------------
# reading the real state
# ---------------------------------------------------------------------------
def mcol(cat, name):
    if name not in cat.colnames:
        return None
    c = cat[name]
    data = np.ma.getdata(c)
    mask = np.ma.getmaskarray(c)
    return [int(v) for v in np.asarray(data)], [bool(v) for v in np.asarray(mask)]


def read_state(g):
    cat = g.catalog
    n = len(cat)
    st = {'n': n,
          'imcat': [int(v) for v in np.ma.getdata(cat['_imcat_idx'])],
          'id': [int(v) for v in np.ma.getdata(cat['id'])],
          'x': [float(v) for v in np.ma.getdata(cat['x'])], 'y': [float(v) for v in np.ma.getdata(cat['y'])],
          'ra': [float(v) for v in np.ma.getdata(cat['RA'])], 'dec': [float(v) for v in np.ma.getdata(cat['DEC'])],
          'w': [float(v) for v in np.ma.getdata(cat['weight'])] if 'weight' in cat.colnames else None,
          'tp': ([float(v) for v in np.ma.getdata(cat['TPx'])], [float(v) for v in np.ma.getdata(cat['TPy'])])
          if ('TPx' in cat.colnames and 'TPy' in cat.colnames) else None,
          'mri': mcol(cat, 'matched_ref_id'), 'raw': mcol(cat, '_raw_matched_ref_idx'),
          'mref': [int(v) for v in g._mref_idx] if hasattr(g, '_mref_idx') else None,
          'minput': [int(v) for v in g._minput_idx] if hasattr(g, '_minput_idx') else None,
          'anymask': bool(any(np.ma.getmaskarray(cat[c]).any() for c in ('_imcat_idx', 'id', 'x', 'y', 'RA', 'DEC')))}
    return st


def table_rows(t):
    return [(int(a), int(b), float(c), float(d), float(e), float(f)) for a, b, c, d, e, f in
            zip(np.ma.getdata(t['_imcat_idx']), np.ma.getdata(t['id']), np.ma.getdata(t['x']), np.ma.getdata(t['y']),
                np.ma.getdata(t['RA']), np.ma.getdata(t['DEC']))]


# ---------------------------------------------------------------------------
# tables of the external functions
# ---------------------------------------------------------------------------
def w_table(members, xs, ys):
    """{(pos, x, y): (ra, dec)} of member[pos].det_to_world over all the given pixel positions"""
    tab = {}
    if not len(xs):
        return tab
    ax, ay = np.array(xs, dtype=float), np.array(ys, dtype=float)
    for p, m in enumerate(members):
        ra, dec = m.det_to_world(ax, ay)
        for x, y, a, d in zip(xs, ys, np.atleast_1d(ra), np.atleast_1d(dec)):
            tab[(p, x, y)] = (float(a), float(d))
    return tab


def w_tokens(tab):
    out = [str(len(tab))]
    for (p, x, y), (a, d) in tab.items():
        out += [str(p), num(x), num(y), num(a), num(d)]
    return out


def t_table(tpw, keys):
    keys = list(dict.fromkeys(keys))
    if not keys:
        return {}
    ra = np.array([k[0] for k in keys], dtype=float)
    dec = np.array([k[1] for k in keys], dtype=float)
    tx, ty = tpw.world_to_tanp(ra, dec)
    return {k: (float(a), float(b)) for k, a, b in zip(keys, np.atleast_1d(tx), np.atleast_1d(ty))}


def t_tokens(tab):
    out = [str(len(tab))]
    for (a, d), (tx, ty) in tab.items():
        out += [num(a), num(d), num(tx), num(ty)]
    return out


def ref_tokens(ref, with_sky=True, tp=None):
    cat = ref.catalog
    n = len(cat)
    hw = 'weight' in cat.colnames
    out = [str(n), '1' if hw else '0']
    w = np.asarray(cat['weight'], dtype=float) if hw else None
    for k in range(n):
        if tp is None:
            out += [num(cat['RA'][k]), num(cat['DEC'][k]), str(int(cat['id'][k]))]
        else:
            out += [num(tp[0][k]), num(tp[1][k])]
        if hw:
            out.append(num(w[k]))
    return out


def match_tokens(m):
    if m is None:
        return ['none']
    return ['idx', str(len(m[0]))] + [str(int(v)) for v in m[0]] + [str(len(m[1]))] + [str(int(v)) for v in m[1]]


# ---------------------------------------------------------------------------
# parsing the model's answers
# ---------------------------------------------------------------------------
class Toks:
    def __init__(self, s):
        self.t = s.split()
        self.i = 0

    def tok(self):
        v = self.t[self.i]
        self.i += 1
        return v

    def int(self):
        return int(self.tok())

    def q(self):
        return s2q(self.tok())

    def expect(self, w):
        v = self.tok()
        if v != w:
            raise ValueError('model output: expected %r, got %r' % (w, v))

    def done(self):
        return self.i == len(self.t)


def parse_mcol(t):
    if t.int() == 0:
        return None
    n, m = t.int(), t.int()
    data = [t.int() for _ in range(n)]
    mask = [t.int() == 1 for _ in range(m)]
    return data, mask


def parse_dump(s):
    t = Toks(s)
    t.expect('cat')
    n = t.int()
    st = {'n': n, 'imcat': [], 'id': [], 'x': [], 'y': [], 'ra': [], 'dec': []}
    for _ in range(n):
        st['imcat'].append(t.int())
        st['id'].append(t.int())
        st['x'].append(t.q())
        st['y'].append(t.q())
        st['ra'].append(t.q())
        st['dec'].append(t.q())
    t.expect('w')
    st['w'] = [t.q() for _ in range(t.int())] if t.int() else None
    t.expect('tp')
    if t.int():
        k = t.int()
        pts = [(t.q(), t.q()) for _ in range(k)]
        st['tp'] = ([p[0] for p in pts], [p[1] for p in pts])
    else:
        st['tp'] = None
    t.expect('mri')
    st['mri'] = parse_mcol(t)
    t.expect('raw')
    st['raw'] = parse_mcol(t)
    t.expect('mref')
    st['mref'] = [t.int() for _ in range(t.int())] if t.int() else None
    t.expect('minput')
    st['minput'] = [t.int() for _ in range(t.int())] if t.int() else None
    if not t.done():
        raise ValueError('model output: trailing tokens in dump')
    return st


def parse_pairargs(t):
    n = t.int()
    xy = [(t.q(), t.q()) for _ in range(n)]
    m = t.int()
    uv = [(t.q(), t.q()) for _ in range(m)]
    wxy = [t.q() for _ in range(t.int())] if t.int() else None
    wuv = [t.q() for _ in range(t.int())] if t.int() else None
    return {'xy': xy, 'uv': uv, 'wxy': wxy, 'wuv': wuv}


# ---------------------------------------------------------------------------
# comparisons
# ---------------------------------------------------------------------------
def sky_eq(a, b):
    return abs(float(a) - float(b)) <= SKY_TOL


def tp_eq(a, b):
    a, b = float(a), float(b)
    return abs(a - b) <= TP_ATOL + TP_RTOL * max(abs(a), abs(b))


def exact_eq(real, model):
    return to_fraction(real) == model


def view(col):
    if col is None:
        return None
    return [None if m else d for d, m in zip(*col)]


def cmp_state(ctx, real, model):
    """list of differences between the real columns and the model state"""
    bad = []
    if real['n'] != model['n']:
        return ['catalog length %d vs model %d' % (real['n'], model['n'])]
    for k in ('imcat', 'id'):
        if real[k] != model[k]:
            bad.append("column %s: %s vs model %s" % (k, real[k][:12], model[k][:12]))
    for k in ('x', 'y'):
        if not all(exact_eq(a, b) for a, b in zip(real[k], model[k])):
            bad.append('column %s differs' % k)
    for k in ('ra', 'dec'):
        w = [i for i, (a, b) in enumerate(zip(real[k], model[k])) if not sky_eq(a, b)]
        if w:
            bad.append('column %s differs in rows %s (e.g. %r vs model %r)' % (k.upper(), w[:8], real[k][w[0]], float(model[k][w[0]])))
    if (real['w'] is None) != (model['w'] is None):
        bad.append('weight column present: %s vs model %s' % (real['w'] is not None, model['w'] is not None))
    elif real['w'] is not None and not (len(real['w']) == len(model['w']) and all(exact_eq(a, b) for a, b in zip(real['w'], model['w']))):
        bad.append('weight column differs')
    if (real['tp'] is None) != (model['tp'] is None):
        bad.append('TPx/TPy present: %s vs model %s' % (real['tp'] is not None, model['tp'] is not None))
    elif real['tp'] is not None:
        for j, nm in ((0, 'TPx'), (1, 'TPy')):
            if len(real['tp'][j]) != len(model['tp'][j]) or not all(tp_eq(a, b) for a, b in zip(real['tp'][j], model['tp'][j])):
                bad.append('column %s differs' % nm)
    for k, nm in (('mri', 'matched_ref_id'), ('raw', '_raw_matched_ref_idx')):
        r, m = real[k], model[k]
        if (r is None) != (m is None):
            bad.append('column %s present: %s vs model %s' % (nm, r is not None, m is not None))
            continue
        if r is None:
            continue
        if r[1] != m[1]:
            bad.append('MASK of %s: %s vs model %s' % (nm, ''.join('1' if b else '0' for b in r[1]),
                                                       ''.join('1' if b else '0' for b in m[1])))
        elif view(r) != view(m):
            bad.append('unmasked values of %s: %s vs model %s' % (nm, view(r), view(m)))
        elif any(r[1]):
            ctx.branch('groupcat:stale-data:' + ('agree' if r[0] == m[0] else 'differ'))
    for k in ('mref', 'minput'):
        if real[k] != model[k]:
            bad.append('attribute _%s_idx: %s vs model %s' % (k, real[k], model[k]))
    return bad


# ---------------------------------------------------------------------------
# the brute-force oracle
# ---------------------------------------------------------------------------
class Oracle:
    """expected content of the group catalog recomputed from the member catalogs"""

    def __init__(self, spec, members):
        self.members = members
        self.rows = []          # (position of the member in the list, row within the member)
        self.imcat, self.ids, self.x, self.y, self.w = [], [], [], [], []
        k = 0
        hasw = None
        for p, ms in enumerate(spec['members']):
            n = len(ms['x'])
            if n == 0:
                continue
            if hasw is None:
                hasw = ms.get('w') is not None
            for j in range(n):
                self.rows.append((p, j))
                self.imcat.append(k)
                self.ids.append(ms['ids'][j] if ms.get('ids') is not None else j + 1)
                self.x.append(ms['x'][j])
                self.y.append(ms['y'][j])
                if hasw:
                    self.w.append(ms['w'][j])
            k += 1
        self.hasw = bool(hasw)
        self.total = sum(len(ms['x']) for ms in spec['members'])
        self.last = None        # (ids of the reference, mref, minput) of the last successful match2ref

    def structure(self, real):
        bad = []
        if real['n'] != self.total or real['n'] != len(self.rows):
            bad.append('length of the group catalog %d is not the sum of the member lengths %d' % (real['n'], self.total))
            return bad
        if real['imcat'] != self.imcat:
            bad.append("'_imcat_idx' is not the index of the member among the non-empty members: %s, expected %s"
                       % (real['imcat'][:16], self.imcat[:16]))
        if real['id'] != self.ids or real['x'] != self.x or real['y'] != self.y:
            bad.append('rows (id, x, y) are not the member rows in member order')
        if self.hasw != (real['w'] is not None) or (self.hasw and real['w'] != self.w):
            bad.append('weight column is not the concatenation of the member weights')
        if real['anymask']:
            bad.append('a masked value in a structural column')
        return bad

    def sky(self, real):
        """RA/DEC of every row = CURRENT WCS of its own member on its own x, y"""
        bad = []
        for p in sorted(set(q for q, _ in self.rows)):
            idx = [i for i, (q, _) in enumerate(self.rows) if q == p]
            ra, dec = self.members[p].det_to_world(np.array([self.x[i] for i in idx]), np.array([self.y[i] for i in idx]))
            for i, a, d in zip(idx, np.atleast_1d(ra), np.atleast_1d(dec)):
                if not (sky_eq(a, real['ra'][i]) and sky_eq(d, real['dec'][i])):
                    bad.append(i)
        return sorted(bad)

    def norm(self, i, n):
        if 0 <= i < n:
            return i
        if -n <= i < 0:
            return i + n
        return None

    def expected_book(self, n):
        ids, mref, minput = self.last
        exp_id, exp_raw = [None] * n, [None] * n
        for i in range(n):
            ks = [k for k, v in enumerate(minput) if self.norm(v, n) == i]
            if ks:
                k = ks[-1] if len(mref) == len(minput) else 0
                exp_raw[i] = mref[k]
                exp_id[i] = ids[self.norm(mref[k], len(ids))]
        return exp_id, exp_raw


# ---------------------------------------------------------------------------
# one case: real run + model line + comparison
# ---------------------------------------------------------------------------
class FitSpy:
    """records the arrays `fit2ref` hands to `iter_linear_fit`"""

    def __init__(self):
        from tweakwcs import wcsimage
        self.mod = wcsimage
        self.orig = wcsimage.iter_linear_fit
        self.args = None
        self.raised = False
        self.degenerate = False

    def __enter__(self):
        def spy(xy, uv, wxy=None, wuv=None, **kw):
            self.args = {'xy': np.array(xy, dtype=float), 'uv': np.array(uv, dtype=float),
                         'wxy': None if wxy is None else np.array(wxy, dtype=float),
                         'wuv': None if wuv is None else np.array(wuv, dtype=float)}
            try:
                return self.orig(xy, uv, wxy, wuv, **kw)
            except Exception as e:
                self.raised = True
                self.degenerate = type(e).__name__ in ('SingularMatrixError', 'NotEnoughPointsError')
                raise
        self.mod.iter_linear_fit = spy
        return self

    def __exit__(self, *a):
        self.mod.iter_linear_fit = self.orig
        return False


def errkind(e, fit_raised=False):
    if fit_raised:
        return 'fitError'
    return ERRK.get(type(e).__name__, 'other:' + type(e).__name__)


def cmp_pairargs(rec, model):
    """recorded arrays of the fit spy vs the model's PairArgs"""
    bad = []
    for k in ('xy', 'uv'):
        r = rec[k].reshape(-1, 2) if rec[k].size else np.zeros((0, 2))
        if len(r) != len(model[k]) or not all(tp_eq(a[0], b[0]) and tp_eq(a[1], b[1]) for a, b in zip(r, model[k])):
            bad.append('array %s handed to iter_linear_fit differs from the model' % k)
    for k in ('wxy', 'wuv'):
        if (rec[k] is None) != (model[k] is None):
            bad.append('weights %s present: %s vs model %s' % (k, rec[k] is not None, model[k] is not None))
        elif rec[k] is not None and not (len(rec[k]) == len(model[k]) and all(exact_eq(a, b) for a, b in zip(rec[k], model[k]))):
            bad.append('weights %s differ from the model' % k)
    return bad


def oracle_pairargs(rec, gtp, gw, rtp, rw, mref, minput, n, nref, orc):
    bad = []
    xy = rec['xy'].reshape(-1, 2) if rec['xy'].size else np.zeros((0, 2))
    uv = rec['uv'].reshape(-1, 2) if rec['uv'].size else np.zeros((0, 2))
    if len(xy) != len(mref) or len(uv) != len(minput):
        return ['number of pairs handed to the fitter is not the number of matches']
    for k in range(len(mref)):
        j = orc.norm(mref[k], nref)
        if not (tp_eq(xy[k][0], rtp[0][j]) and tp_eq(xy[k][1], rtp[1][j])):
            bad.append('pair %d: reference position is not reference row %d' % (k, j))
        if (rw is None) != (rec['wxy'] is None) or (rw is not None and rec['wxy'][k] != rw[j]):
            bad.append('pair %d: reference weight is not the weight of reference row %d' % (k, j))
    for k in range(len(minput)):
        i = orc.norm(minput[k], n)
        if not (tp_eq(uv[k][0], gtp[0][i]) and tp_eq(uv[k][1], gtp[1][i])):
            bad.append('pair %d: image position is not group row %d' % (k, i))
        if (gw is None) != (rec['wuv'] is None) or (gw is not None and rec['wuv'][k] != gw[i]):
            bad.append('pair %d: image weight is not the weight of group row %d' % (k, i))
    return bad[:6]


def run_case(ctx, spec, lines, pending):
    """execute the spec on real objects, run the oracle, queue the model line"""
    from tweakwcs import wcsimage
    logging.getLogger('tweakwcs').disabled = True
    case = spec
    nm = len(spec['members'])
    empties = [k for k, ms in enumerate(spec['members']) if len(ms['x']) == 0]
    ctx.case(case, nontrivial=(nm > 1 and len(spec['ops']) > 1),
             branch='groupcat:members:%d:empty:%d' % (nm, len(empties)))
    if empties and any(len(ms['x']) for ms in spec['members'][empties[0]:]):
        ctx.branch('groupcat:empty-member-before-non-empty')
    members = [build_member(ms, k) for k, ms in enumerate(spec['members'])]
    secs = []
    for ms in spec['members']:
        n = len(ms['x'])
        hw = ms.get('w') is not None
        toks = ['M', str(n), '1' if hw else '0']
        for j in range(n):
            toks += [str(ms['ids'][j] if ms.get('ids') is not None else j + 1), num(ms['x'][j]), num(ms['y'][j])]
            if hw:
                toks.append(num(ms['w'][j]))
        secs.append(toks)
    allx = [x for ms in spec['members'] for x in ms['x']]
    ally = [y for ms in spec['members'] for y in ms['y']]
    wlatest = w_table(members, allx, ally)
    secs.append(['W'] + w_tokens(wlatest))
    answers = []      # (kind, real answer, extra) per model section after the W table
    # ---- constructor -------------------------------------------------------------------------------
    try:
        g = wcsimage.WCSGroupCatalog(members, name='grp', bb_policy=spec.get('bb', 'auto'))
    except Exception as e:   # noqa
        kind = errkind(e)
        ctx.branch('groupcat:ctor:' + kind)
        weights = [ms.get('w') is not None for ms in spec['members'] if len(ms['x'])]
        if not (kind == 'keyError' and len(set(weights)) > 1):
            ctx.oracle_fail(case, {'what': 'WCSGroupCatalog(...) raised %s: %s' % (type(e).__name__, str(e)[:120])})
        if not ctx.search_only:
            lines.append('groupcat ' + ' | '.join(' '.join(s) for s in secs))
            pending.append((case, [('ctor', 'err ' + kind, None)]))
        return
    orc = Oracle(spec, members)
    answers.append(('ctor', 'ok', None))

    def check_structure(tag, recalculated):
        real = read_state(g)
        bad = orc.structure(real)
        if bad:
            ctx.oracle_fail(case, {'what': 'group catalog after %s: %s' % (tag, bad[0]), 'more': bad[1:4]})
        if recalculated:
            w = orc.sky(real)
            if w:
                p, j = orc.rows[w[0]]
                ctx.oracle_fail(case, {'what': "RA/DEC of group rows %s after %s are not the sky positions given by the WCS of "
                                               "the member they come from (row %d belongs to member %d)" % (w[:8], tag, w[0], p)})
        return real

    def dump():
        secs.append(['dump'])
        answers.append(('dump', read_state(g), None))

    check_structure('construction', True)
    dump()
    # ---- operations --------------------------------------------------------------------------------
    for op in spec['ops']:
        o = op['o']
        ctx.branch('groupcat:op:' + o)
        n = len(g.catalog)
        if o == 'tp':
            tpw = copy.deepcopy(members[op['tpw']].corrector)
            tab = t_table(tpw, list(wlatest.values()))
            g.calc_tanp_xy(tpw)
            secs.append(['tp'] + t_tokens(tab))
            answers.append(('plain', 'ok', None))
        elif o == 'match':
            ref = build_ref(op['ref'])
            ids = [int(v) for v in ref.catalog['id']]
            m = op['m']
            fm = None if m is None else FakeMatch(m[0], m[1])
            try:
                r = g.match2ref(ref, match=fm)
                ans = 'ok %d %d %s %d %s' % (int(r[0]), len(r[1]), ' '.join(str(int(v)) for v in r[1]), len(r[2]),
                                             ' '.join(str(int(v)) for v in r[2]))
                ans = ' '.join(ans.split())
                ctx.branch('groupcat:match:ok')
                called = m is None or fm.calls == 1
                if m is not None and n == 0:
                    called = fm.calls == 0
                if not called:
                    ctx.oracle_fail(case, {'what': 'match2ref called the matcher %d times' % fm.calls})
                if not (m is not None and n == 0):
                    mref = list(range(n)) if m is None else list(m[0])
                    minput = list(range(n)) if m is None else list(m[1])
                    orc.last = (ids, mref, minput)
                    if int(r[0]) != len(mref) or [int(v) for v in r[1]] != mref or [int(v) for v in r[2]] != minput:
                        ctx.oracle_fail(case, {'what': 'match2ref did not return (len(ref idx), ref idx, input idx) of the matcher'})
                    real = read_state(g)
                    exp_id, exp_raw = orc.expected_book(n)
                    if view(real['mri']) != exp_id:
                        ctx.oracle_fail(case, {'what': "'matched_ref_id' does not reflect exactly the last match2ref call",
                                               'column': view(real['mri']), 'expected': exp_id, 'ref_idx': mref, 'input_idx': minput})
                    elif view(real['raw']) != exp_raw:
                        ctx.oracle_fail(case, {'what': "'_raw_matched_ref_idx' does not reflect exactly the last match2ref call",
                                               'column': view(real['raw']), 'expected': exp_raw, 'ref_idx': mref, 'input_idx': minput})
                    if len(set(minput)) < len(minput):
                        ctx.branch('groupcat:match:repeated-input-index')
                    if any(v < 0 for v in minput + mref):
                        ctx.branch('groupcat:match:negative-index')
                    if len(mref) != len(minput):
                        ctx.branch('groupcat:match:broadcast')
            except Exception as e:   # noqa
                ans = 'err ' + errkind(e)
                ctx.branch('groupcat:match:' + errkind(e))
                orc.last = None
            secs.append(['match', str(len(ids))] + [str(v) for v in ids] + match_tokens(m))
            answers.append(('plain', ans, None))
        elif o in ('matched', 'unmatched'):
            try:
                t = g.get_matched_cat() if o == 'matched' else g.get_unmatched_cat()
                rows = table_rows(t)
                full = table_rows(g.catalog)
                ans = ('rows', rows, full)
                if orc.last is not None:
                    named = set(orc.norm(v, n) for v in orc.last[2])
                    want = [full[i] for i in range(n) if (i in named) == (o == 'matched')]
                    if rows != want:
                        ctx.oracle_fail(case, {'what': 'get_%s_cat() is not the rows %s by the last match2ref call, in catalog order'
                                                       % (o, 'named' if o == 'matched' else 'not named'),
                                               'got': len(rows), 'expected': len(want)})
            except Exception as e:   # noqa
                ans = ('err', 'err ' + errkind(e), None)
            secs.append([o])
            answers.append(('sel',) + ans[:1] + (ans[1], ans[2]))
        elif o == 'recalc':
            if op.get('corr') is not None:
                c = op['corr']
                for p in c['members']:
                    members[p].corrector.set_correction(np.array(c['matrix'], dtype=float), np.array(c['shift'], dtype=float))
                ctx.branch('groupcat:recalc:after-correction')
            wlatest = w_table(members, allx, ally)
            g.recalc_catalog_radec()
            secs.append(['recalc'] + w_tokens(wlatest))
            answers.append(('plain', 'ok', None))
            check_structure('recalc_catalog_radec', True)
        elif o == 'fit':
            ref = build_ref(op['ref'])
            tpw = copy.deepcopy(members[op['tpw']].corrector)
            ref.calc_tanp_xy(tpw)
            rtp = ([float(v) for v in ref.catalog['TPx']], [float(v) for v in ref.catalog['TPy']])
            rw = [float(v) for v in np.asarray(ref.catalog['weight'])] if 'weight' in ref.catalog.colnames else None
            with FitSpy() as spy:
                try:
                    g.fit2ref(ref, tpw, fitgeom='shift', nclip=None)
                    exc = None
                except Exception as e:   # noqa
                    exc = e
            if spy.args is not None:
                ans = ('pairs', spy.args, None)
                ctx.branch('groupcat:fit:reached-fitter')
                real = read_state(g)
                if real['tp'] is not None and real['mref'] is not None:
                    bad = oracle_pairargs(spy.args, real['tp'], real['w'], rtp, rw, real['mref'], real['minput'], n,
                                          len(ref.catalog), orc)
                    if bad:
                        ctx.oracle_fail(case, {'what': 'fit2ref: ' + bad[0], 'more': bad[1:]})
            else:
                ans = ('err', 'err ' + errkind(exc), None)
                ctx.branch('groupcat:fit:' + errkind(exc))
            secs.append(['fit'] + ref_tokens(ref, tp=rtp))
            answers.append(('fit',) + ans)
        elif o == 'align':
            ref = build_ref(op['ref'])
            tpw = copy.deepcopy(members[op['tpw']].corrector) if op['tpw'] is not None else None
            tpw_eff = tpw if tpw is not None else copy.deepcopy(g[0].corrector)
            refkeys = [(float(a), float(b)) for a, b in zip(ref.catalog['RA'], ref.catalog['DEC'])]
            tab = t_table(tpw_eff, list(wlatest.values()) + refkeys)
            m = op['m']
            fm = None if m is None else FakeMatch(m[0], m[1])
            ids = [int(v) for v in ref.catalog['id']]
            with FitSpy() as spy:
                try:
                    ok = g.align_to_ref(ref, ref_tpwcs=tpw, match=fm, minobj=op['minobj'], fitgeom=op['fitgeom'],
                                        nclip=None)
                    exc = None
                except Exception as e:   # noqa
                    ok, exc = None, e
            if exc is not None:
                ans = ('err', 'err ' + errkind(exc, spy.raised), None)
                ctx.branch('groupcat:align:' + errkind(exc, spy.raised))
                orc.last = None
            else:
                ans = ('align', bool(ok), spy.args)
                ctx.branch('groupcat:align:%s%s' % (bool(ok), ':degenerate-fit' if spy.degenerate else ''))
                if not (m is not None and n == 0):
                    orc.last = (ids, list(range(n)) if m is None else list(m[0]), list(range(n)) if m is None else list(m[1]))
            if ok:
                wlatest2 = w_table(members, allx, ally)
            else:
                wlatest2 = wlatest
            secs.append(['align', 'none' if op['minobj'] is None else str(op['minobj']), str(FITMIN[op['fitgeom']]),
                         ('2' if spy.degenerate else '0') if spy.raised else '1'] + ref_tokens(ref) + t_tokens(tab) + match_tokens(m)
                        + w_tokens(w_table(members, allx, ally)))
            answers.append(('alignres',) + ans)
            wlatest = wlatest2
            real = check_structure('align_to_ref', bool(ok))
            if ok and orc.last is not None:
                exp_id, _ = orc.expected_book(n)
                if view(real['mri']) != exp_id:
                    ctx.oracle_fail(case, {'what': "'matched_ref_id' after align_to_ref does not reflect its match"})
        elif o == 'expand':
            ref = build_ref(op['ref'])
            oldn = len(ref.catalog)
            oldids = [int(v) for v in ref.catalog['id']]
            oldra = [float(v) for v in ref.catalog['RA']]
            reftoks = ref_tokens(ref)
            try:
                un = g.get_unmatched_cat()
                unrows = table_rows(un)
                ref.expand_catalog(un)
                cat = ref.catalog
                res = {'ra': [float(v) for v in np.ma.getdata(cat['RA'])], 'dec': [float(v) for v in np.ma.getdata(cat['DEC'])],
                       'id': [int(v) for v in np.ma.getdata(cat['id'])],
                       'w': [float(v) for v in np.asarray(cat['weight'])] if 'weight' in cat.colnames else None}
                ans = ('ref', res, None)
                full = table_rows(g.catalog)
                bad = None
                if res['id'][:oldn] != oldids or res['ra'][:oldn] != oldra:
                    bad = 'the original reference rows changed'
                elif res['id'][oldn:] != [max(oldids) + 1 + k for k in range(len(unrows))]:
                    bad = 'appended ids are not max+1, max+2, ...'
                elif [(a, b) for a, b in zip(res['ra'][oldn:], res['dec'][oldn:])] != [(r[4], r[5]) for r in unrows]:
                    bad = 'appended sky positions are not those of the unmatched rows'
                elif orc.last is not None:
                    named = set(orc.norm(v, n) for v in orc.last[2])
                    if unrows != [full[i] for i in range(n) if i not in named]:
                        bad = 'appended rows are not exactly the rows not named by the last match, each once'
                if bad:
                    ctx.oracle_fail(case, {'what': 'expand_catalog(get_unmatched_cat()): ' + bad})
            except Exception as e:   # noqa
                ans = ('err', 'err ' + errkind(e), None)
            secs.append(['expand'] + reftoks)
            answers.append(('expand',) + ans)
        else:
            raise ValueError(o)
        dump()
    if ctx.search_only:
        return
    lines.append('groupcat ' + ' | '.join(' '.join(s) for s in secs))
    pending.append((case, answers))


def compare(ctx, out, item):
    case, answers = item

    def bad(what, **kw):
        d = {'op': 'groupcat', 'what': what}
        d.update(kw)
        ctx.disagree(case, d)
    if out.startswith('bad-op'):
        bad('model driver refused the operation line')
        return
    parts = [p.strip() for p in out.split('|')]
    if answers[0][1] != 'ok':
        if parts[0] != answers[0][1]:
            bad('constructor: real %r vs model %r' % (answers[0][1], parts[0]))
        return
    if len(parts) != len(answers):
        bad('model returned %d sections for %d operations (first: %r)' % (len(parts), len(answers), parts[0][:60]))
        return
    for k, (ans, mo) in enumerate(zip(answers, parts)):
        kind = ans[0]
        try:
            if kind in ('ctor', 'plain'):
                if mo != ans[1]:
                    bad('operation %d: real %r vs model %r' % (k, ans[1], mo))
                    return
            elif kind == 'dump':
                diffs = cmp_state(ctx, ans[1], parse_dump(mo))
                if diffs:
                    bad('state after operation %d: %s' % (k - 1, diffs[0]), more=diffs[1:4])
                    return
            elif kind == 'sel':
                if ans[1] == 'err':
                    if mo != ans[2]:
                        bad('operation %d (selection): real %r vs model %r' % (k, ans[2], mo))
                        return
                else:
                    t = Toks(mo)
                    if t.tok() != 'ok':
                        bad('operation %d (selection): real returned %d rows, model %r' % (k, len(ans[2]), mo))
                        return
                    idx = [t.int() for _ in range(t.int())]
                    rows, full = ans[2], ans[3]
                    if any(i >= len(full) for i in idx) or rows != [full[i] for i in idx]:
                        bad('operation %d: selected rows differ from the model rows %s' % (k, idx))
                        return
            elif kind == 'fit':
                if ans[1] == 'err':
                    if mo != ans[2]:
                        bad('operation %d (fit2ref): real %r vs model %r' % (k, ans[2], mo))
                        return
                else:
                    t = Toks(mo)
                    if t.tok() != 'ok':
                        bad('operation %d (fit2ref): real reached the fitter, model %r' % (k, mo))
                        return
                    diffs = cmp_pairargs(ans[2], parse_pairargs(t))
                    if diffs:
                        bad('operation %d (fit2ref): %s' % (k, diffs[0]), more=diffs[1:])
                        return
            elif kind == 'alignres':
                if ans[1] == 'err':
                    if mo != ans[2]:
                        bad('operation %d (align_to_ref): real %r vs model %r' % (k, ans[2], mo))
                        return
                else:
                    t = Toks(mo)
                    if t.tok() != 'ok':
                        bad('operation %d (align_to_ref): real returned %s, model %r' % (k, ans[2], mo))
                        return
                    b = t.int() == 1
                    if b != ans[2]:
                        bad('operation %d (align_to_ref): real returned %s, model %s' % (k, ans[2], b))
                        return
                    if b and ans[3] is None:
                        bad('operation %d (align_to_ref): returned True without calling the fitter' % k)
                        return
                    if (ans[3] is None) != t.done():
                        bad('operation %d (align_to_ref): fitter reached: real %s, model %s' % (k, ans[3] is not None, not t.done()))
                        return
                    if ans[3] is not None:
                        diffs = cmp_pairargs(ans[3], parse_pairargs(t))
                        if diffs:
                            bad('operation %d (align_to_ref): %s' % (k, diffs[0]), more=diffs[1:])
                            return
            elif kind == 'expand':
                if ans[1] == 'err':
                    if mo != ans[2]:
                        bad('operation %d (expand): real %r vs model %r' % (k, ans[2], mo))
                        return
                else:
                    t = Toks(mo)
                    if t.tok() != 'ok':
                        bad('operation %d (expand): real expanded, model %r' % (k, mo))
                        return
                    n = t.int()
                    rd = [(t.q(), t.q()) for _ in range(n)]
                    ids = [t.int() for _ in range(t.int())]
                    w = [t.q() for _ in range(t.int())] if t.int() else None
                    res = ans[2]
                    ok = (len(res['ra']) == n and all(sky_eq(a, p[0]) and sky_eq(b, p[1]) for a, b, p in zip(res['ra'], res['dec'], rd))
                          and res['id'] == ids and (res['w'] is None) == (w is None)
                          and (w is None or (len(w) == len(res['w']) and all(exact_eq(a, b) for a, b in zip(res['w'], w)))))
                    if not ok:
                        bad('operation %d (expand): expanded reference catalog differs from the model' % k,
                            real_ids=res['id'], model_ids=ids, real_w=res['w'], model_w=None if w is None else [float(v) for v in w])
                        return
        except (ValueError, IndexError) as e:
            bad('operation %d: cannot parse the model answer %r (%s)' % (k, mo[:80], e))
            return


# ---------------------------------------------------------------------------
# generators
# ---------------------------------------------------------------------------
CRVALS = [(82.0, 12.0), (359.9945, -20.0), (200.0, 78.0), (10.0, -45.0)]


def gen_coords(rng, n):
    style = rng.choice(['grid', 'random', 'dyadic'])
    if style == 'grid':
        return [40.0 + 37.0 * k for k in range(n)], [900.0 - 41.0 * k for k in range(n)]
    if style == 'dyadic':
        return [rng.randrange(16, 16000) / 16.0 for _ in range(n)], [rng.randrange(16, 16000) / 16.0 for _ in range(n)]
    return [rng.uniform(5, 1000) for _ in range(n)], [rng.uniform(5, 1000) for _ in range(n)]


def gen_member(rng, k, n, weights, crval, kinds):
    kind = rng.choice(kinds)
    ms = {'kind': kind, 'crval': list(crval)}
    if kind == 'tan':
        ms.update(crpix=[rng.uniform(-900, 1400), rng.uniform(-900, 1400)], err=[rng.uniform(-30, 30), rng.uniform(-30, 30)],
                  rot=rng.uniform(0, 360))
    else:
        ms['seed'] = rng.getrandbits(30)
    ms['x'], ms['y'] = gen_coords(rng, n)
    ms['w'] = [rng.choice([0.0, 0.5, 1.0, 2.0, 3.25, rng.uniform(0.1, 9.0)]) for _ in range(n)] if weights else None
    r = rng.random()
    if r < 0.5:
        ms['ids'] = None
    elif r < 0.8:
        ms['ids'] = rng.sample(range(-50, 5000), n)
    else:
        ms['ids'] = [100 * (k + 1) + j for j in range(n)]
    return ms


def gen_members(rng, sizes=None, mixed=False):
    nm = rng.choice([1, 2, 2, 3, 3, 4, 5]) if sizes is None else len(sizes)
    if sizes is None:
        pat = rng.random()
        sizes = []
        for k in range(nm):
            if pat < 0.55:
                sizes.append(0 if rng.random() < 0.35 else rng.randint(1, 7))
            elif pat < 0.75:
                sizes.append(rng.randint(1, 7))
            elif pat < 0.8:
                sizes.append(0)
            else:
                sizes.append(rng.choice([0, 1, 1, 2, 12]))
    crval = rng.choice(CRVALS)
    weights = rng.random() < 0.5
    kinds = rng.choice([['tan'], ['tan'], ['tan'], ['tan', 'jwst'], ['tan', 'fits-cd', 'fits-pc'], ['fits-sip', 'tan'],
                        ['jwst'], ['fits-lut', 'tan']])
    ms = [gen_member(rng, k, n, weights, crval, kinds) for k, n in enumerate(sizes)]
    if mixed:
        # weight column in some members only (empty members may differ freely)
        for m in ms:
            m['w'] = [1.0 + 0.5 * j for j in range(len(m['x']))] if rng.random() < 0.5 else None
    elif rng.random() < 0.3:
        # an empty member's weight column is never looked at
        for m in ms:
            if not m['x']:
                m['w'] = [] if rng.random() < 0.5 else None
    return ms


def sky_near(members, spec_members, rng, n):
    """n sky positions inside the field of the group (through member 0's initial WCS)"""
    xs = np.array([rng.uniform(0, 1000) for _ in range(n)])
    ys = np.array([rng.uniform(0, 1000) for _ in range(n)])
    ra, dec = members[0].det_to_world(xs, ys)
    return [float(v) for v in np.atleast_1d(ra)], [float(v) for v in np.atleast_1d(dec)]


def gen_ref(rng, members, spec_members, nref, pairs=None, rowsky=None):
    """reference catalog of nref rows; `pairs` = [(ref row, group row)]: that reference row is put close to the
    sky position of the group row (so that a fit of the prescribed pairs is a small correction)"""
    ra, dec = sky_near(members, spec_members, rng, nref)
    if pairs and rowsky:
        for j, i in pairs:
            if 0 <= j < nref and 0 <= i < len(rowsky[0]):
                ra[j] = rowsky[0][i] + rng.uniform(-2e-5, 2e-5)
                dec[j] = rowsky[1][i] + rng.uniform(-2e-5, 2e-5)
    rs = {'ra': ra, 'dec': dec}
    r = rng.random()
    if r < 0.4:
        rs['ids'] = None
    elif r < 0.8:
        rs['ids'] = rng.sample(range(-100, 100000), nref)
    else:
        rs['ids'] = [7 * (k + 3) for k in range(nref)]
        rng.shuffle(rs['ids'])
    rs['w'] = [rng.choice([0.0, 0.25, 1.0, 4.0, rng.uniform(0.1, 5)]) for _ in range(nref)] if rng.random() < 0.4 else None
    return rs


def gen_indices(rng, n, nref, style=None):
    """index arrays a matcher could (or should not) return: [mref, minput]"""
    style = style or rng.choice(['valid'] * 8 + ['repeat-input', 'repeat-ref', 'repeat-both', 'negative', 'oob-input', 'oob-ref',
                                                 'oob-neg', 'broadcast', 'mismatch', 'empty', 'all'])
    if n == 0 or nref == 0:
        style = rng.choice(['empty', 'oob-input']) if n == 0 else 'empty'
    kmax = min(n, nref)
    if style == 'empty':
        return [[], []], style
    if style == 'all':
        k = kmax
    else:
        k = rng.randint(0, kmax)
    minput = rng.sample(range(n), k) if n else []
    mref = rng.sample(range(nref), k)
    if style == 'repeat-input' and k >= 1:
        extra = rng.randint(1, 3)
        minput = minput + [rng.choice(minput) for _ in range(extra)]
        mref = mref + [rng.randrange(nref) for _ in range(extra)]
        z = list(zip(mref, minput))
        rng.shuffle(z)
        mref, minput = [a for a, _ in z], [b for _, b in z]
    elif style == 'repeat-ref' and k >= 1 and n > k:
        free = [i for i in range(n) if i not in minput]
        minput = minput + [rng.choice(free)]
        mref = mref + [rng.choice(mref)]
    elif style == 'repeat-both' and k >= 1:
        mref = mref + [mref[0], rng.randrange(nref)]
        minput = minput + [rng.choice(minput), minput[0]]
    elif style == 'negative' and k >= 1:
        minput = [i - n if rng.random() < 0.5 else i for i in minput]
        mref = [j - nref if rng.random() < 0.4 else j for j in mref]
    elif style == 'oob-input':
        minput = minput + [n + rng.randint(0, 3)]
        mref = mref + [rng.randrange(nref) if nref else 0]
    elif style == 'oob-ref':
        if n > k:
            minput = minput + [rng.choice([i for i in range(n) if i not in minput])]
            mref = mref + [nref + rng.randint(0, 3)]
        else:
            mref = list(mref)
            if mref:
                mref[rng.randrange(len(mref))] = nref + rng.randint(0, 2)
    elif style == 'oob-neg':
        if rng.random() < 0.5 and k >= 1:
            minput = list(minput)
            minput[rng.randrange(k)] = -n - rng.randint(1, 2)
        elif k >= 1:
            mref = list(mref)
            mref[rng.randrange(k)] = -nref - rng.randint(1, 2)
    elif style == 'broadcast':
        mref = [rng.randrange(nref)]
        if rng.random() < 0.3:
            minput = []
    elif style == 'mismatch':
        if rng.random() < 0.5:
            mref = mref + [rng.randrange(nref)] + ([rng.randrange(nref)] if len(mref) == 0 else [])
        else:
            minput = minput + [rng.randrange(n)] + ([rng.randrange(n)] if len(minput) == 1 else [])
    return [mref, minput], style


def gen_spec(rng, members_spec=None, nops=None):
    """a random operation sequence on a random group (pure data; real objects are used only to place the
    reference sources in the field)"""
    ms = members_spec if members_spec is not None else gen_members(rng, mixed=rng.random() < 0.04)
    # (the footprint of the group is not the subject here: mostly the cheap approximate bounding polygon)
    spec = {'op': 'groupcat', 'members': ms, 'ops': [], 'bb': 'auto' if rng.random() < 0.1 else 0}
    weights = [m.get('w') is not None for m in ms if len(m['x'])]
    if len(set(weights)) > 1:
        return spec                      # the constructor raises
    members = [build_member(m, k) for k, m in enumerate(ms)]
    n = sum(len(m['x']) for m in ms)
    rows = [(p, j) for p, m in enumerate(ms) for j in range(len(m['x']))]

    def rowsky():
        ra, dec = [], []
        for p, j in rows:
            a, d = members[p].det_to_world(ms[p]['x'][j], ms[p]['y'][j])
            ra.append(float(a))
            dec.append(float(d))
        return ra, dec
    nops = nops if nops is not None else rng.randint(2, 9)
    have_tp = False
    for _ in range(nops):
        r = rng.random()
        if r < 0.14 or (not have_tp and r < 0.3):
            spec['ops'].append({'o': 'tp', 'tpw': rng.randrange(len(ms))})
            have_tp = True
        elif r < 0.52:
            if rng.random() < 0.12:
                nref = n if (n > 0 and rng.random() < 0.7) else rng.randint(1, 9)
                spec['ops'].append({'o': 'match', 'ref': gen_ref(rng, members, ms, nref), 'm': None})
            else:
                nref = rng.randint(1, 10)
                m, style = gen_indices(rng, n, nref)
                spec['ops'].append({'o': 'match', 'ref': gen_ref(rng, members, ms, nref), 'm': m, 'style': style})
        elif r < 0.6:
            spec['ops'].append({'o': 'matched'})
        elif r < 0.7:
            spec['ops'].append({'o': 'unmatched'})
        elif r < 0.78:
            corr = None
            if rng.random() < 0.7:
                a = rng.uniform(-0.002, 0.002)
                corr = {'members': sorted(rng.sample(range(len(ms)), rng.randint(1, len(ms)))),
                        'matrix': [[1.0, a], [-a, 1.0]], 'shift': [rng.uniform(-3, 3), rng.uniform(-3, 3)]}
            spec['ops'].append({'o': 'recalc', 'corr': corr})
        elif r < 0.84:
            spec['ops'].append({'o': 'fit', 'ref': gen_ref(rng, members, ms, rng.randint(1, 10)), 'tpw': rng.randrange(len(ms))})
        elif r < 0.94:
            nref = rng.randint(1, 10)
            if rng.random() < 0.15:
                m = None
                nref = n if (n > 0 and rng.random() < 0.8) else nref
                pairs = [(i, i) for i in range(min(n, nref))]
            else:
                m, style = gen_indices(rng, n, nref, style=rng.choice(['valid'] * 6 + ['all', 'repeat-input', 'negative', 'empty',
                                                                                     'oob-input', 'oob-ref', 'broadcast', 'mismatch']))
                pairs = [(j, i) for j, i in zip(m[0], m[1])] if len(m[0]) == len(m[1]) else []
            sky = rowsky() if n else None
            fitgeom = rng.choice(['shift', 'shift', 'rscale', 'general'])
            if m is not None and style not in ('valid', 'all'):
                fitgeom = 'shift'
            spec['ops'].append({'o': 'align', 'ref': gen_ref(rng, members, ms, nref, pairs=pairs, rowsky=sky), 'm': m,
                                'tpw': rng.choice([None, None, rng.randrange(len(ms))]),
                                'minobj': rng.choice([None, None, 1, 2, 3, 5]), 'fitgeom': fitgeom})
            have_tp = True
            # the members' WCS may have changed: later reference catalogs are placed with the initial WCS, which
            # is close enough (corrections are a few pixels)
        else:
            spec['ops'].append({'o': 'expand', 'ref': gen_ref(rng, members, ms, rng.randint(1, 8))})
    return spec


def tan_member(k, n, crpix, w=None, ids=None, x0=30.0):
    return {'kind': 'tan', 'crval': [82.0, 12.0], 'crpix': list(crpix), 'err': [3.0 * k, -2.0 * k], 'rot': 10.0 + 25.0 * k,
            'x': [x0 + 64.0 * j for j in range(n)], 'y': [x0 + 17.5 * j + 3.0 * k for j in range(n)],
            'w': w, 'ids': ids}


def corpus():
    """hand-built corner cases (run first)"""
    out = []
    ref3 = {'ra': [82.001, 82.002, 82.003], 'dec': [12.001, 12.002, 12.0005], 'ids': [11, 12, 13], 'w': None}
    ref5 = {'ra': [82.001, 82.002, 82.003, 82.0015, 82.0025], 'dec': [12.001, 12.002, 12.0005, 12.0011, 12.0017],
            'ids': None, 'w': [1.0, 0.5, 0.0, 2.0, 4.0]}
    # (a) the witness of F24 (324ab0c): empty member before a member with sources; recalc after a correction of
    #     the NON-EMPTY member only, then of the empty one only
    ms = [tan_member(0, 0, (1.0, 1.0)), tan_member(1, 3, (-500.0, 1.0))]
    out.append({'op': 'groupcat', 'members': ms, 'label': 'empty-first',
                'ops': [{'o': 'recalc', 'corr': {'members': [1], 'matrix': [[1.0, 0.0], [0.0, 1.0]], 'shift': [2.0, -1.0]}},
                        {'o': 'recalc', 'corr': {'members': [0], 'matrix': [[1.0, 0.0], [0.0, 1.0]], 'shift': [-5.0, 4.0]}},
                        {'o': 'tp', 'tpw': 0},
                        {'o': 'align', 'ref': ref3, 'm': [[0, 1, 2], [2, 0, 1]], 'tpw': None, 'minobj': None, 'fitgeom': 'shift'},
                        {'o': 'unmatched'}, {'o': 'expand', 'ref': ref3}]})
    # (b) empty members at every position of a 4-member group
    for pos in range(4):
        ms = [tan_member(k, 0 if k == pos else 2 + k, (1.0 - 300.0 * k, 1.0)) for k in range(4)]
        out.append({'op': 'groupcat', 'members': ms, 'label': 'empty-at-%d' % pos,
                    'ops': [{'o': 'tp', 'tpw': pos}, {'o': 'match', 'ref': ref5, 'm': [[4, 0, 2], [0, 5, 3]]},
                            {'o': 'matched'}, {'o': 'unmatched'},
                            {'o': 'recalc', 'corr': {'members': [pos, (pos + 1) % 4], 'matrix': [[1.0, 1e-3], [-1e-3, 1.0]], 'shift': [1.0, 1.0]}},
                            {'o': 'fit', 'ref': ref5, 'tpw': 1}]})
    # (c) all members empty
    ms = [tan_member(k, 0, (1.0, 1.0)) for k in range(3)]
    out.append({'op': 'groupcat', 'members': ms, 'label': 'all-empty',
                'ops': [{'o': 'unmatched'}, {'o': 'tp', 'tpw': 1}, {'o': 'match', 'ref': ref3, 'm': [[], []]}, {'o': 'matched'},
                        {'o': 'match', 'ref': ref3, 'm': None}, {'o': 'recalc', 'corr': None},
                        {'o': 'align', 'ref': ref3, 'm': [[], []], 'tpw': None, 'minobj': None, 'fitgeom': 'shift'}]})
    # (d) second match2ref with fewer matches: nothing of the first call may survive (seeded bug class)
    ms = [tan_member(0, 3, (1.0, 1.0), w=[1.0, 2.0, 3.0]), tan_member(1, 0, (9.0, 9.0), w=None), tan_member(2, 4, (-700.0, 1.0), w=[0.0, 0.5, 4.0, 8.0])]
    out.append({'op': 'groupcat', 'members': ms, 'label': 'second-match',
                'ops': [{'o': 'tp', 'tpw': 0}, {'o': 'match', 'ref': ref5, 'm': [[0, 1, 2, 3, 4], [6, 5, 4, 3, 2]]},
                        {'o': 'matched'}, {'o': 'match', 'ref': ref3, 'm': [[2], [0]]}, {'o': 'matched'}, {'o': 'unmatched'},
                        {'o': 'fit', 'ref': ref3, 'tpw': 0}, {'o': 'expand', 'ref': ref3},
                        {'o': 'match', 'ref': ref3, 'm': [[], []]}, {'o': 'unmatched'}, {'o': 'expand', 'ref': ref5}]})
    # (e) match before calc_tanp_xy; fit2ref before any match; selections before any match
    ms = [tan_member(0, 2, (1.0, 1.0))]
    out.append({'op': 'groupcat', 'members': ms, 'label': 'premature',
                'ops': [{'o': 'match', 'ref': ref3, 'm': [[0], [0]]}, {'o': 'matched'}, {'o': 'fit', 'ref': ref3, 'tpw': 0},
                        {'o': 'tp', 'tpw': 0}, {'o': 'fit', 'ref': ref3, 'tpw': 0}, {'o': 'expand', 'ref': ref3},
                        {'o': 'match', 'ref': ref3, 'm': None}, {'o': 'match', 'ref': {'ra': [82.0, 82.001], 'dec': [12.0, 12.001], 'ids': [5, 3], 'w': None}, 'm': None},
                        {'o': 'matched'}, {'o': 'fit', 'ref': ref3, 'tpw': 0}]})
    # (f) index arrays a matcher should not return, each after a good match
    ms = [tan_member(0, 2, (1.0, 1.0)), tan_member(1, 3, (-400.0, 1.0), ids=[7, 9, 8])]
    good = {'o': 'match', 'ref': ref5, 'm': [[0, 3], [2, 4]]}
    for lab, m in [('repeat', [[1, 2, 3, 0], [1, 0, 1, 0]]), ('oob-input', [[0], [5]]), ('oob-ref', [[5], [0]]),
                   ('oob-both', [[9], [7]]), ('longer-ref', [[0, 1], [0]]), ('broadcast', [[0], [0, 1]]),
                   ('broadcast-empty', [[0], []]), ('empty-ref', [[], [0]]), ('negative', [[0, -1], [-1, 0]]),
                   ('neg-oob', [[0], [-6]]), ('neg-oob-ref', [[-6], [0]]), ('3-vs-2', [[0, 1, 2], [0, 1]])]:
        out.append({'op': 'groupcat', 'members': ms, 'label': 'bad-index:' + lab,
                    'ops': [{'o': 'tp', 'tpw': 0}, good, {'o': 'match', 'ref': ref5, 'm': m}, {'o': 'matched'}, {'o': 'unmatched'},
                            {'o': 'fit', 'ref': ref5, 'tpw': 0}, {'o': 'expand', 'ref': ref3}, good, {'o': 'unmatched'}]})
    # (g) mixed weight columns among non-empty members (KeyError); an EMPTY member may differ
    out.append({'op': 'groupcat', 'members': [tan_member(0, 2, (1.0, 1.0), w=[1.0, 2.0]), tan_member(1, 2, (5.0, 5.0))],
                'label': 'mixed-weights', 'ops': []})
    out.append({'op': 'groupcat', 'members': [tan_member(0, 0, (1.0, 1.0), w=[]), tan_member(1, 2, (5.0, 5.0)), tan_member(2, 0, (1.0, 8.0))],
                'label': 'empty-with-weights', 'ops': [{'o': 'tp', 'tpw': 2}, {'o': 'match', 'ref': ref3, 'm': [[1], [1]]}, {'o': 'unmatched'}]})
    # (h) weights on one side only and expansion (the 'weight' column after the outer join)
    for gw, rw in ((True, False), (False, True), (True, True)):
        ms = [tan_member(0, 3, (1.0, 1.0), w=[1.0, 2.0, 3.0] if gw else None), tan_member(1, 2, (-300.0, 1.0), w=[0.5, 0.25] if gw else None)]
        rr = dict(ref3, w=[0.5, 0.6, 0.7] if rw else None)
        out.append({'op': 'groupcat', 'members': ms, 'label': 'expand-weights:%s:%s' % (gw, rw),
                    'ops': [{'o': 'tp', 'tpw': 0}, {'o': 'match', 'ref': rr, 'm': [[0, 2], [2, 4]]}, {'o': 'expand', 'ref': rr},
                            {'o': 'fit', 'ref': rr, 'tpw': 0}]})
    # (i) align_to_ref: not enough matches, user minobj below the fit minimum, then a successful one
    ms = [tan_member(0, 0, (1.0, 1.0)), tan_member(1, 4, (-200.0, 1.0)), tan_member(2, 3, (-600.0, 30.0))]
    out.append({'op': 'groupcat', 'members': ms, 'label': 'align-sequence',
                'ops': [{'o': 'align', 'ref': ref5, 'm': [[0], [1]], 'tpw': None, 'minobj': 1, 'fitgeom': 'rscale'},
                        {'o': 'unmatched'},
                        {'o': 'align', 'ref': ref5, 'm': [[0, 1, 2], [1, 5, 3]], 'tpw': 1, 'minobj': 5, 'fitgeom': 'shift'},
                        {'o': 'align', 'ref': ref5, 'm': [[0, 1, 2], [1, 5, 3]], 'tpw': 2, 'minobj': 2, 'fitgeom': 'shift'},
                        {'o': 'unmatched'}, {'o': 'expand', 'ref': ref5},
                        {'o': 'align', 'ref': ref5, 'm': [[4], [0]], 'tpw': None, 'minobj': None, 'fitgeom': 'shift'},
                        {'o': 'matched'}, {'o': 'expand', 'ref': ref5}]})
    return out


# ---------------------------------------------------------------------------
# observation recorded by this work package (reported; tag FINDING_WEIGHT)
# ---------------------------------------------------------------------------
FINDING_WEIGHT = 'F28'      # open finding of property C09 (the probe is run by harness/props/c09.py)


def weight_expand_probe(ctx):
    """`RefCatalog.expand_catalog` stacks the unmatched rows with `join_type='outer'`: when the image catalogs carry a
    'weight' column and the reference catalog does not, the expanded catalog gets a masked 'weight' column whose
    ORIGINAL rows read 0 through `np.asarray` in `fit2ref` (model: `TW.GC.outerWeight`, theorem
    `expand_weight_outer_join`).  End to end: three overlapping images with weights all 1.0, a weightless reference
    catalog, `align_wcs(expand_refcat=True)`: the first image aligns, every later image ends
    'FAILED: not enough points' -- the same data without the weight columns (or without expansion) align."""
    from astropy.table import Table
    from tweakwcs import align_wcs, XYXYMatch
    from .. import alignsim
    from ..common import load_known
    case = {'op': 'groupcat', 'probe': 'weights-after-expansion'}
    ctx.case(case, nontrivial=True, branch='groupcat:probe:weights-after-expansion')

    def run(with_w):
        sc = alignsim.Scene(np.random.default_rng(5), crval=(82.0, 12.0))
        ims = []
        for slot, origin, err in [(0, (0.0, 0.0), (1.5, -1.0)), (1, (300.0, 100.0), (-2.0, 0.5)), (2, (100.0, 350.0), (0.7, 1.8))]:
            c, _ids = sc.make_image(slot, origin, 'good', None, err=err)
            if with_w:
                c.meta['catalog']['weight'] = np.ones(len(c.meta['catalog']))
            ims.append(c)
        sky = sc.sky_of(sc.inside((0.0, 0.0), margin=-400))
        ref = Table([sky[:, 0], sky[:, 1]], names=('RA', 'DEC'))
        m = XYXYMatch(searchrad=5.0, separation=0.1, tolerance=3.0, use2dhist=False)
        align_wcs(ims, refcat=ref, enforce_user_order=True, expand_refcat=True, match=m, fitgeom='rscale', nclip=None)
        return [c.meta['fit_info']['status'] for c in ims]
    try:
        plain, weighted = run(False), run(True)
    except Exception as e:   # noqa
        plain, weighted = ['SUCCESS'] * 3, ['raised %s' % type(e).__name__]
    if plain != ['SUCCESS'] * 3:
        ctx.note('groupcat weight probe: the unweighted scenario did not align (%s); probe not evaluated' % plain)
        return
    if weighted == plain:
        ctx.branch('groupcat:probe:weights-after-expansion:aligned')
        ctx.note('groupcat weight probe: images with unit weights now align like images without weights')
        return
    ctx.branch('groupcat:probe:weights-after-expansion:failed')
    detail = {'what': "align_wcs(expand_refcat=True) of three images whose catalogs carry 'weight' = 1.0 against a reference "
                      "catalog without weights: statuses %s, the same data without weight columns: %s (after the first "
                      "expansion the reference 'weight' column is masked on the original rows and fit2ref reads 0 there)"
                      % (weighted, plain), 'finding': FINDING_WEIGHT}
    if any(k.get('id') == FINDING_WEIGHT for k in load_known().get('open', [])):
        ctx.oracle_fail(case, detail)
    else:
        ctx.note('OBSERVATION (not counted; candidate finding %s): %s' % (FINDING_WEIGHT, detail['what']))


# ---------------------------------------------------------------------------
# entry points
# ---------------------------------------------------------------------------
def run_extra(ctx):
    """oracle part always; correspondence part (model driver) only when not ctx.search_only"""
    import warnings
    old = logging.root.manager.disable
    logging.disable(logging.CRITICAL)
    try:
        with warnings.catch_warnings():
            warnings.simplefilter('ignore')      # fits of pairs whose weights are all zero warn about empty means
            lines, pending = [], []
            for spec in corpus():
                run_case(ctx, spec, lines, pending)
            for _ in range(ctx.n(240, 2400)):
                run_case(ctx, gen_spec(ctx.rng), lines, pending)
        if ctx.search_only or not lines:
            return
        outs = ctx.driver(lines)
        for out, item in zip(outs, pending):
            compare(ctx, out, item)
    finally:
        logging.disable(old)


def replay_case(ctx, case):
    import warnings
    lines, pending = [], []
    with warnings.catch_warnings():
        warnings.simplefilter('ignore')
        run_case(ctx, case, lines, pending)
    outs = ctx.driver(lines)
    for out, item in zip(outs, pending):
        compare(ctx, out, item)
