"""
C13 -- align_wcs leaves a complete, truthful status on every input and no half-updates.

Correspondence: real `tweakwcs.align_wcs` runs on synthetic mosaics of 1..5 FITS correctors
(`harness/alignsim.py`) against the Lean model `TW.alignWcs` (op `align F`), which is given the
same images as lists of physical source identities, the same options, and the overlap areas the
real footprints produced: exception kind, every status, the order in which groups are aligned, the
number of `set_correction` calls per image, `nmatches`, and the returned reference catalog row by
row (source, id, image of origin).

Oracle (the property clauses evaluated on the real objects, no model involved): status of every
input in {REFERENCE, SUCCESS, FAILED:<reason>}; exactly one REFERENCE group iff no reference
catalog was given; members of a group carry identical fit results; sky positions of a pixel grid
bit-identical before/after unless SUCCESS and no `set_correction` call, exactly one call per member
of a SUCCESS group; NotEnoughCatalogs exactly when fewer than two (one with a reference catalog)
groups have a non-empty catalog, and then (as for invalid arguments) nothing was modified.
"""
import itertools

import numpy as np

from ..common import f2x
from .. import alignsim
from ..alignsim import FITMIN, expected_groups

ID = 'C13'
RULE = ('lists of 1..5 correctors (FITS TAN; in about a third of the scenarios mock-JWST gWCS) on a synthetic lattice of sources: every image good / junk '
        '(unmatchable, off-lattice) / empty, group ids from {None, 1, 2} (members of a group never overlap), '
        'reference none / table with or without ids / corrector, expand_refcat x enforce_user_order x '
        'minobj in {None, minimum, minimum+2, 300, below the minimum} x fitgeom in {shift, rshift, rscale, '
        'general} x match in {XYXYMatch, None}; plus invalid-argument probes.  Non-trivial: at least two '
        'groups, or some status other than SUCCESS, or an exception; distinct = distinct canonical scenario')
ASSUMPTIONS = [
    'ideal matcher: a source is matched iff its identity is in the reference catalog (sources are >= 15 px '
    'apart, WCS errors <= 1.5 px, XYXYMatch(searchrad=5, tolerance=2)); the C matcher itself is C11',
    'success <-> nmatches >= max(minobj, minimum of the fit geometry); fits of matched noise-free sources '
    'never fail otherwise',
    'the members of a group share one WCS error (chips of one exposure): with independent errors of more '
    'than the matching tolerance the single shift estimate of the matcher loses one member',
    'overlap areas enter the model as data recorded from the real run, keyed by (size of the reference '
    'catalog, group); scenarios whose overlap-driven choice is a tie to 1e-9 are not compared',
    'runs in which expand_refcat appended the (uncorrected) catalog of a FAILED group that has no overlap '
    'with the reference are checked by the oracle only: later images are then matched against a mixture of '
    'two frames, which the ideal matcher does not describe',
]

RULE += ('; degenerate fits: one image (or two-chip group) of 2..4 whose catalog is exactly collinear (general '
         'fit) or holds fewer positively weighted sources than the geometry needs, at every list position, '
         'reference table / corrector / none, expand_refcat x enforce_user_order; argument validation: every '
         'single invalid argument and every pair of two, exception class and message against the model\'s error '
         'kind; fit_wcs on FITS (CD/PC) and mock-JWST correctors: 0..12 pre-matched sources, all fit geometries, '
         'collinear / zero-weight / too-few inputs, invalid arguments singly and in pairs')
ASSUMPTIONS += [
    'whether a fit is degenerate is decided by construction and given to the model as data: an ungrouped image '
    'whose catalog is exactly collinear in pixel coordinates cannot be fitted with \'general\' (any other geometry '
    'can), a group with fewer positively weighted sources than the geometry needs cannot be fitted at all; '
    'catalogs collinear only up to rounding (degenerate footprint polygons) are out of scope',
    'zero-weight images are kept away from the reference catalog (never the reference image, always overlapping '
    'the reference, so never appended): reference rows of weight zero would make the fits of OTHER images fail',
]

ORIGINS = [(0, 0), (400, 100), (-300, 350), (700, 600), (250, -400), (5000, 5000), (1100, 0), (0, 1100),
           (-1100, 50), (1500, 1200)]
ALLOWED_FAILED = ('FAILED: empty source catalog', 'FAILED: not enough matches')

F16_WITNESS = {
    'images': [[[1100, 0], 'empty', 1], [[0, 0], 'good', 1]], 'errs': [[0.5, -0.4], [0.5, -0.4]],
    'ref': {'kind': 'table', 'region': 'centre', 'ids': None}, 'expand': True, 'enforce': True,
    'minobj': None, 'fitgeom': 'shift', 'match': True}
F14_WITNESS = {
    'images': [[[0, 0], 'good', None], [[400, 100], 'good', None]], 'errs': [[0.5, -1.0], [1.0, 1.0]],
    'ref': {'kind': 'table', 'region': [400, 520, 400, 470], 'ids': None}, 'expand': False, 'enforce': True,
    'minobj': 2, 'fitgeom': 'general', 'match': True}


# ---------------------------------------------------------------------------
# generator
# ---------------------------------------------------------------------------
def place(rng, gids):
    """origins such that members of one group do not overlap each other"""
    used = {}
    out = []
    for g in gids:
        o = None
        for _ in range(80):
            o = rng.choice(ORIGINS)
            if g is None or all(abs(o[0] - q[0]) >= 1024 or abs(o[1] - q[1]) >= 1024 for q in used.get(g, [])):
                break
        else:
            return None
        used.setdefault(g, []).append(o)
        out.append(o)
    return out


def group_errs(rng, gids):
    """WCS error of every image; the members of a group (chips of one exposure, fixed relative
    positions) share it"""
    per = {}
    out = []
    for g in gids:
        e = (round(rng.uniform(-1.5, 1.5), 3), round(rng.uniform(-1.5, 1.5), 3))
        if g is not None:
            e = per.setdefault(g, e)
        out.append(e)
    return out


def gen_spec(rng, n=None, gids=None, match=True):
    if n is None:
        n = rng.choice([1, 2, 2, 3, 3, 3, 4, 4, 5])
    if gids is None:
        gids = [rng.choice([None, None, 1, 2]) for _ in range(n)]
    origins = place(rng, gids)
    if origins is None:
        return None
    kinds = [rng.choice(['good', 'good', 'good', 'junk', 'empty']) for _ in range(n)]
    errs = group_errs(rng, gids)
    fitgeom = rng.choice(['shift', 'rshift', 'rscale', 'general'])
    r = rng.random()
    if r < 0.45:
        minobj = None
    elif r < 0.6:
        minobj = FITMIN[fitgeom]
    elif r < 0.75:
        minobj = FITMIN[fitgeom] + 2
    elif r < 0.85:
        minobj = 300
    elif r < 0.9:
        minobj = 40
    else:
        minobj = max(0, FITMIN[fitgeom] - rng.choice([1, 2]))
    rr = rng.random()
    if rr < 0.4:
        ref = None
    else:
        region = rng.choice(['centre', 'centre', 'east', 'wide', 'far', 'tiny'])
        ref = {'kind': 'table' if rr < 0.8 else 'corrector', 'region': region, 'ids': None}
    spec = {'images': [(o, k, g) for o, k, g in zip(origins, kinds, gids)], 'errs': errs, 'ref': ref,
            'expand': rng.random() < 0.5, 'enforce': rng.random() < 0.5, 'minobj': minobj, 'fitgeom': fitgeom,
            'match': True}
    if rng.random() < 0.7:
        spec['labels'] = alignsim.draw_labels(rng, gids)
    mk = draw_makers(rng, kinds)
    if mk:
        spec['makers'] = mk
    return spec


def gen_spec_nomatch(rng, scene):
    """match=None: every catalog lists the same sources in the same order (1-to-1 by index)"""
    n = rng.choice([1, 2, 3])
    gids = [rng.choice([None, None, None, 1]) for _ in range(n)]
    origins = [rng.choice([(0, 0), (100, 50), (-100, 80), (60, -90)]) for _ in range(n)]
    common = [k for k in scene.ids if 200 <= scene.G[k][0] <= 800 and 200 <= scene.G[k][1] <= 800]
    common = [int(k) for k in common[:rng.choice([3, 10, 40])]]
    kinds = [rng.choice(['good', 'good', 'good', 'empty']) for _ in range(n)]
    errs = group_errs(rng, gids)
    fitgeom = rng.choice(['shift', 'rscale', 'general'])
    if rng.random() < 0.6:
        ref = {'kind': 'table', 'sources': common if rng.random() < 0.85 else common[:-1], 'region': None,
               'ids': None}
    else:
        ref = None
    return {'images': [(o, k, g) for o, k, g in zip(origins, kinds, gids)], 'errs': errs, 'ref': ref,
            'expand': rng.random() < 0.5, 'enforce': rng.random() < 0.5,
            'minobj': rng.choice([None, None, FITMIN[fitgeom], 100]), 'fitgeom': fitgeom, 'match': False,
            'common': common}


def add_ref_ids(rng, scene, spec):
    """give the reference table an explicit id column (arbitrary distinct integers)"""
    ref = spec.get('ref')
    if ref is None or ref['kind'] != 'table' or rng.random() < 0.5:
        return
    nsrc = len(ref['sources']) if 'sources' in ref else len(alignsim.ref_sources(scene, ref['region']))
    # arbitrary distinct integers: numbering from 0 (the id 0 is as good as any other) and negative ids included
    lo = rng.choice([5, 5, 0, 0, 1, -7])
    ref['ids'] = rng.sample(range(lo, lo + 3 * nsrc + 10), nsrc)
    if lo == 0 and nsrc and 0 not in ref['ids']:
        ref['ids'][rng.randrange(nsrc)] = 0


def draw_makers(rng, kinds):
    """corrector type of the images of a scenario: about a third of the scenarios use mock-JWST gWCS correctors
    (all images: the tangent plane, and with it the unit of the matcher's radii, is that of the first image of
    each group, so one matcher cannot serve a list that mixes pixels and arcseconds).  Scenarios with a 'junk'
    image stay FITS: junk sources sit on the unjittered lattice, the hull of such a catalog has exactly
    collinear boundary points in pixel space, and through a gWCS these reach spherical_geometry collinear only
    up to rounding ("Out of domain for acos" in SphericalPolygon.area: footprint territory, C16)"""
    if any(kd == 'junk' for kd in kinds) or rng.random() >= 0.55:
        return None
    return ['jwst'] * len(kinds)


def canon(spec):
    s = dict(spec)
    s['images'] = [[list(o), k, g] for o, k, g in spec['images']]
    s['errs'] = [list(e) for e in spec['errs']]
    return s


def decanon(spec):
    s = dict(spec)
    s['images'] = [(tuple(o), k, g) for o, k, g in spec['images']]
    s['errs'] = [tuple(e) for e in spec['errs']]
    if s.get('ref') is not None:
        s['ref'] = dict(s['ref'])
        if isinstance(s['ref'].get('region'), list):
            s['ref']['region'] = tuple(s['ref']['region'])
    return s


# ---------------------------------------------------------------------------
# oracle
# ---------------------------------------------------------------------------
def same_value(a, b):
    try:
        if isinstance(a, np.ndarray) or isinstance(b, np.ndarray):
            return np.array_equal(np.asarray(a), np.asarray(b), equal_nan=True)
        if isinstance(a, (tuple, list)) and isinstance(b, (tuple, list)):
            return len(a) == len(b) and all(same_value(x, y) for x, y in zip(a, b))
        if isinstance(a, float) and isinstance(b, float) and a != a and b != b:
            return True
        return bool(a == b)
    except Exception:
        return False


def oracle(ctx, case, rec):
    spec = rec['spec']
    n = len(rec['ims'])
    gids = [g for _, _, g in spec['images']]
    groups = expected_groups(gids)
    nonempty = [g for g in groups if any(len(rec['srcs'][k]) for k in g)]
    ref_given = spec.get('ref') is not None
    expect_nec = (not ref_given and len(nonempty) < 2) or len(nonempty) == 0
    st = rec['status']

    def fail(what, **kw):
        d = {'what': what}
        d.update(kw)
        ctx.oracle_fail(case, d)
    if rec['exc'] is not None:
        name, msg = rec['exc']
        kind = alignsim.real_error_kind(rec['exc'])
        if kind == 'notEnoughCatalogs':
            if not expect_nec:
                fail('NotEnoughCatalogs raised although enough groups have non-empty catalogs',
                     nonempty_groups=nonempty)
            if any(rec['ncorr']) or not all(rec['unchanged']):
                fail('a WCS was modified before NotEnoughCatalogs was raised', ncorr=rec['ncorr'])
        elif kind == 'emptyRefcat':
            if len(rec['ref_ids'] or []) != 0:
                fail('non-empty reference catalog refused', exception=rec['exc'])
            if any(rec['ncorr']) or not all(rec['unchanged']):
                fail('a WCS was modified before the invalid reference catalog was refused')
        elif kind == 'lengthMismatch' and not spec['match']:
            pass    # match=None requires catalogs of equal length: a broken precondition of the caller
        else:
            fail('unexpected exception', exception=rec['exc'], status=st, ncorr=rec['ncorr'])
        return
    if expect_nec:
        fail('too few non-empty catalogs did not raise NotEnoughCatalogs', nonempty_groups=nonempty, status=st)
        return
    for k in range(n):
        if st[k] not in ('REFERENCE', 'SUCCESS') + ALLOWED_FAILED and not (isinstance(st[k], str)
                                                                           and st[k].startswith('FAILED: ')):
            fail('image %d has no valid status' % k, status=st)
            return
    nref = sum(1 for s in st if s == 'REFERENCE')
    refgroups = [g for g in groups if all(st[k] == 'REFERENCE' for k in g)]
    if ref_given:
        if nref:
            fail('a REFERENCE status although a reference catalog was supplied', status=st)
    elif len(refgroups) != 1 or nref != len(refgroups[0]):
        fail('not exactly one REFERENCE group', status=st, groups=groups)
    for g in groups:
        infos = [rec['ims'][k].meta.get('fit_info') for k in g]
        for k, fi in zip(g[1:], infos[1:]):
            a, b = infos[0], fi
            if set(a) != set(b) or not all(same_value(a[key], b[key]) for key in a):
                fail('members of a group do not share identical fit results', group=g, image=k,
                     keys=[key for key in a if key not in b or not same_value(a[key], b[key])][:5])
                break
    fmin = FITMIN[spec['fitgeom']]
    for g in groups:
        kinds = [spec['images'][k][1] for k in g]
        if len(g) == 1 and kinds[0].startswith('line:') and spec['fitgeom'] == 'general' and st[g[0]] == 'SUCCESS':
            fail('a general (6-parameter) fit was reported SUCCESS for a catalog of exactly collinear sources',
                 image=g[0], status=st)
        if spec.get('weights') and all(kd.startswith('zerow:') for kd in kinds):
            npos = sum(min(int(kd.split(':')[1]), len(rec['srcs'][k])) for kd, k in zip(kinds, g))
            if npos < fmin and any(st[k] == 'SUCCESS' for k in g):
                fail('a fit was reported SUCCESS with fewer positively weighted sources than the geometry needs',
                     group=g, positive=npos, status=st)
    for k in range(n):
        if st[k] == 'SUCCESS':
            if rec['ncorr'][k] != 1:
                fail('a SUCCESS image was not corrected exactly once', image=k, ncorr=rec['ncorr'][k])
        else:
            if rec['ncorr'][k] != 0:
                fail('set_correction called on an image that is not SUCCESS', image=k, status=st[k],
                     ncorr=rec['ncorr'][k])
            if not rec['unchanged'][k]:
                fail('the sky mapping of an image that is not SUCCESS changed', image=k, status=st[k],
                     moved_deg=rec['moved'][k])


# ---------------------------------------------------------------------------
# invalid arguments
# ---------------------------------------------------------------------------
def invalid_argument_probes(ctx, scene):
    from astropy.table import Table
    from tweakwcs import align_wcs, XYXYMatch

    def fresh():
        a, _ = scene.make_image(0, (0, 0), 'good', None, err=(0.7, -0.4))
        b, _ = scene.make_image(1, (400, 100), 'good', None, err=(-0.9, 1.1))
        return [a, b]
    rd = scene.sky_of(alignsim.ref_sources(scene, 'centre'))
    probes = [
        ('bad fitgeom', lambda ims: dict(wcscat=ims, fitgeom='bogus'), (ValueError,)),
        ('missing catalog', lambda ims: (ims[1].meta.pop('catalog'), dict(wcscat=ims))[1], (ValueError,)),
        ('reference table without RA/DEC', lambda ims: dict(wcscat=ims, refcat=Table([rd[:, 0]], names=('x',))),
         (KeyError,)),
        ('reference of unsupported type', lambda ims: dict(wcscat=ims, refcat={'RA': [1.0], 'DEC': [2.0]}),
         (TypeError,)),
        ('non-corrector in the list', lambda ims: dict(wcscat=ims + [42]), (TypeError, AttributeError)),
        ('empty reference table', lambda ims: dict(wcscat=ims, refcat=Table([rd[:0, 0], rd[:0, 1]],
                                                                            names=('RA', 'DEC'))), (ValueError,)),
        # arguments that only the fitter inspects (the first fit raises, before any WCS is touched): they must
        # not be mistaken for a fit that cannot be made and reported as a FAILED status
        ('negative nclip', lambda ims: dict(wcscat=ims, nclip=-1), (ValueError,)),
        ('negative sigma', lambda ims: dict(wcscat=ims, sigma=(-3.0, 'rmse')), (ValueError,)),
        ('zero sigma', lambda ims: dict(wcscat=ims, sigma=0.0), (ValueError,)),
        ('unknown clipping statistic', lambda ims: dict(wcscat=ims, sigma=(3.0, 'median')), (ValueError,)),
        ('sigma None with clipping', lambda ims: dict(wcscat=ims, sigma=None, nclip=2), (ValueError,)),
        ('negative nclip with a reference table',
         lambda ims: dict(wcscat=ims, nclip=-2, refcat=Table([rd[:, 0], rd[:, 1]], names=('RA', 'DEC'))), (ValueError,)),
    ]
    for name, mk, excs in probes:
        ims = fresh()
        before = [alignsim.sky_grid(c) for c in ims]
        kw = mk(ims)
        case = {'op': 'invalid-argument', 'probe': name}
        ctx.case(case, nontrivial=True, branch='invalid:' + name)
        with alignsim.observe(ims) as obs:
            try:
                align_wcs(kw.pop('wcscat'), match=XYXYMatch(searchrad=5, separation=0.5, tolerance=2.0), **kw)
                raised = None
            except Exception as e:   # noqa
                raised = e
        if raised is None:
            ctx.oracle_fail(case, {'what': 'invalid argument accepted'})
        elif not isinstance(raised, excs):
            ctx.oracle_fail(case, {'what': 'invalid argument raised an unexpected exception',
                                   'exception': '%s: %s' % (type(raised).__name__, str(raised)[:80])})
        after = [alignsim.sky_grid(c) for c in ims]
        if any(obs.corrections[id(c)] for c in ims) or not all(np.array_equal(a, b) for a, b in zip(before, after)):
            ctx.oracle_fail(case, {'what': 'a WCS was modified although the arguments were invalid'})


# ---------------------------------------------------------------------------
# degenerate fits in mid-run (finding F26, repaired in /repo 4565404)
# ---------------------------------------------------------------------------
def degenerate_fit_probes(ctx, count):
    """One image of the list has matched sources that cannot be fitted: exactly collinear ones
    (general fit) or too few with a positive weight (any geometry).  align_wcs must return, every
    corrector must end with a valid status, the degenerate image must be FAILED and unmoved, the other
    images SUCCESS and corrected exactly once.  Before the repair SingularMatrixError /
    NotEnoughPointsError left align_wcs in mid-run."""
    from astropy.table import Table
    from astropy import wcs as fitswcs
    from tweakwcs import FITSWCSCorrector, align_wcs, XYXYMatch
    rng = ctx.rng

    def mkw(rot):
        w = fitswcs.WCS(naxis=2)
        w.wcs.crpix = [512, 512]
        w.wcs.crval = [33.0, -41.0]
        c, s_ = np.cos(np.deg2rad(rot)), np.sin(np.deg2rad(rot))
        w.wcs.cd = np.array([[-c, s_], [s_, c]]) * 1.5e-5
        w.wcs.ctype = ['RA---TAN', 'DEC--TAN']
        w.pixel_shape = (1024, 1024)
        w.wcs.set()
        return w
    for it in range(count):
        seed = rng.getrandbits(32)
        nprng = np.random.default_rng(seed)
        rot = float(nprng.uniform(0, 360))
        kind = ['collinear', 'zero-weight', 'zero-weight-ref'][it % 3] if it < 3 else \
            rng.choice(['collinear', 'zero-weight', 'zero-weight-ref'])
        fitgeom = 'general' if kind == 'collinear' else rng.choice(['shift', 'rshift', 'rscale', 'general'])
        fmin = FITMIN[fitgeom]
        nimg = rng.choice([2, 3, 4])
        pos = it % nimg if it < 4 else rng.randrange(nimg)
        # lattice of distinct sources, 40 px apart with jitter: unambiguous for the matcher
        gx, gy = np.meshgrid(np.arange(120, 900, 40.0), np.arange(120, 900, 40.0))
        px = (gx + nprng.uniform(-8, 8, gx.shape)).ravel()
        py = (gy + nprng.uniform(-8, 8, gy.shape)).ravel()
        order = nprng.permutation(len(px))
        cx = cy = None
        if kind == 'collinear':
            n = rng.choice([3, 4, 6])
            t = np.sort(nprng.choice(np.arange(-5, 6), size=n, replace=False)) * 37.0
            # exactly collinear in pixel coordinates (integer steps along a lattice direction; the WCS
            # errors below are dyadic so that the sums are exact): the hull of the catalog has fewer than
            # 4 vertices and the footprint is the whole image.  Lines that are collinear only up to
            # rounding give a polygon that spherical_geometry calls degenerate (outside this probe).
            dx, dy = rng.choice([(1.0, 0.0), (0.0, 1.0), (1.0, 1.0), (1.0, -1.0), (2.0, 1.0)])
            cx = 512.0 + t * dx
            cy = 480.0 + t * dy
            # lattice sources close to the line would confuse the matcher: not used
            far = np.array([np.min(np.hypot(cx - a_, cy - b_)) > 25.0 for a_, b_ in zip(px, py)])
            order = np.array([i for i in order if far[i]])
        w0 = mkw(rot)
        ims, roles, used = [], [], 0
        weighted = kind != 'collinear' or rng.random() < 0.5
        ref_rows = []
        for k in range(nimg):
            err = np.round(nprng.uniform(-0.8, 0.8, 2) * 64) / 64
            if k == pos and kind == 'collinear':
                x, y, n = cx, cy, len(cx)
                wgt = np.ones(n)
            else:
                n = rng.choice([fmin + 2, fmin + 5, 9])
                sel = order[used:used + n]
                used += n
                x, y = px[sel], py[sel]
                wgt = nprng.uniform(0.5, 2.0, n)
                if k == pos:
                    npos = rng.randrange(0, fmin)       # fewer positive weights than the geometry needs
                    wgt[npos:] = 0.0
            ra, dec = w0.all_pix2world(x, y, 0)
            ref_rows.append((ra, dec, np.ones(n) if not (k == pos and kind == 'zero-weight-ref') else wgt))
            c = FITSWCSCorrector(mkw(rot))
            t_ = Table({'x': x + err[0], 'y': y + err[1]})
            if weighted:
                t_['weight'] = np.ones(n) if (k == pos and kind == 'zero-weight-ref') else wgt
            c.meta['catalog'] = t_
            c.meta['name'] = 'im%d' % k
            ims.append(c)
            roles.append('degenerate' if k == pos else 'good')
        refcat = Table({'RA': np.concatenate([r[0] for r in ref_rows]), 'DEC': np.concatenate([r[1] for r in ref_rows])})
        if weighted:
            refcat['weight'] = np.concatenate([r[2] for r in ref_rows])
        case = {'op': 'degenerate-fit', 'seed': seed, 'kind': kind, 'fitgeom': fitgeom, 'nimg': nimg, 'pos': pos}
        ctx.case(case, nontrivial=True, branch='degenerate:%s:%s:pos%d/%d' % (kind, fitgeom, pos, nimg))
        before = [alignsim.sky_grid(c) for c in ims]
        with alignsim.observe(ims) as obs:
            try:
                align_wcs(ims, refcat, fitgeom=fitgeom, expand_refcat=rng.random() < 0.3,
                          nclip=rng.choice([None, 0, 3]), sigma=3.0,
                          match=XYXYMatch(searchrad=5, separation=0.5, tolerance=2.0, use2dhist=False))
                raised = None
            except Exception as e:   # noqa
                raised = e
        st = [c.meta.get('fit_info', {}).get('status') if isinstance(c.meta.get('fit_info'), dict) else None
              for c in ims]
        ncorr = [obs.corrections[id(c)] for c in ims]
        moved = [not np.array_equal(a, alignsim.sky_grid(c)) for a, c in zip(before, ims)]
        if raised is not None:
            ctx.oracle_fail(case, {'what': 'align_wcs was left by an exception in mid-run because the matched '
                                   'sources of one image are degenerate; earlier images are already corrected',
                                   'exception': '%s: %s' % (type(raised).__name__, str(raised)[:90]),
                                   'status': st, 'ncorr': ncorr})
            continue
        for k in range(nimg):
            ok_status = isinstance(st[k], str) and (st[k] in ('REFERENCE', 'SUCCESS') or st[k].startswith('FAILED: '))
            if not ok_status:
                ctx.oracle_fail(case, {'what': 'image %d has no valid status' % k, 'status': st})
            elif roles[k] == 'degenerate':
                if st[k] == 'SUCCESS' or ncorr[k] or moved[k]:
                    ctx.oracle_fail(case, {'what': 'an image whose matched sources cannot be fitted was reported '
                                           'SUCCESS or had its WCS modified', 'status': st, 'ncorr': ncorr})
            elif st[k] != 'SUCCESS' or ncorr[k] != 1:
                ctx.oracle_fail(case, {'what': 'a fittable image next to a degenerate one was not aligned exactly once',
                                       'image': k, 'status': st, 'ncorr': ncorr})



# ---------------------------------------------------------------------------
# (A) degenerate fits inside multi-group scenarios, against the model
# ---------------------------------------------------------------------------
NEAR = [(0, 0), (400, 100), (-300, 350), (250, -400), (-200, -250), (350, 420)]   # all overlap each other


def gen_degenerate(rng, scene, kind=None, pos=None, n=None, refmode=None, expand=None, enforce=None):
    """a scenario with ONE designated degenerate image (or two-chip group): 'line' - exactly collinear catalog,
    matched through a reference that lists its sources; 'zerow' - fewer positive weights than the geometry
    needs.  Returns None when the placement fails."""
    n = n or rng.choice([2, 3, 3, 4])
    pos = rng.randrange(n) if pos is None else pos % n
    kind = kind or rng.choice(['line', 'line', 'zerow'])
    refmode = refmode or rng.choice(['table', 'table', 'corrector', 'none'])
    if kind == 'line' and refmode == 'none':
        refmode = 'table'       # a collinear reference catalog has no footprint: out of scope
    expand = (rng.random() < 0.5) if expand is None else expand
    enforce = (rng.random() < 0.5) if enforce is None else enforce
    if refmode == 'none':
        enforce = True          # the zero-weight image must not become the reference image
        if pos == 0:
            pos = 1
    origins = rng.sample(NEAR, n)
    gids = [None] * n
    kinds = ['good'] * n
    for k in range(n):
        if k != pos and rng.random() < 0.2:
            kinds[k] = rng.choice(['junk', 'empty'])
    if refmode == 'none':
        kinds[0] = 'good'
    fitgeom = 'general' if (kind == 'line' and rng.random() < 0.8) else rng.choice(['shift', 'rshift', 'rscale', 'general'])
    fmin = FITMIN[fitgeom]
    spec = {'errs': None, 'expand': expand, 'enforce': enforce, 'fitgeom': fitgeom, 'match': True,
            'minobj': rng.choice([None, None, fmin, fmin + 1]), 'degenerate': [pos], 'family_kind': kind}
    line_ids = []
    if kind == 'line':
        d = rng.randrange(len(alignsim.LINE_DIRS))
        nl = rng.choice([3, 4, 4, 6, 9])
        kinds[pos] = 'line:%d:%d' % (d, nl)
        line_ids = scene.line_sources(pos, origins[pos], d, nl)
        if len(line_ids) < 3:
            return None
        # occasionally a second chip in the group of the collinear image, whose sources the reference knows:
        # the matched sources of the group are then not collinear and can be fitted (control)
        second_chip = None
        if n >= 3 and rng.random() < 0.15:
            other = next((k for k in range(n) if k != pos), None)
            origins[other] = (origins[pos][0] + 1100, origins[pos][1])
            kinds[other] = 'good'
            gids[pos] = gids[other] = 1
            second_chip = scene.inside(origins[other])
    else:
        spec['weights'] = True
        npos = rng.randrange(0, fmin)
        kinds[pos] = 'zerow:%d' % npos
        if n >= 3 and rng.random() < 0.3 and refmode != 'none':
            # a two-chip group, both zero-weighted, fewer positive weights than needed in total
            other = next((k for k in range(n) if k != pos), None)
            origins[other] = (origins[pos][0] + 1100, origins[pos][1])
            kinds[other] = 'zerow:0'
            gids[pos] = gids[other] = 1
            spec['degenerate'] = [pos, other]
    spec['images'] = [(o, k, g) for o, k, g in zip(origins, kinds, gids)]
    spec['errs'] = group_errs(rng, gids)
    if refmode == 'none':
        spec['ref'] = None
    else:
        base = alignsim.ref_sources(scene, rng.choice(['wide', 'wide', 'centre']))
        if kind == 'line' and second_chip:
            base = base + [s_ for s_ in second_chip if s_ not in set(base)]
        listed = list(line_ids)
        if line_ids and rng.random() < 0.2:
            listed = line_ids[:2]        # too few of the collinear sources are known: 'not enough matches'
        spec['ref'] = {'kind': refmode, 'region': None, 'sources': base + listed, 'ids': None}
    # the collinear sources are real: the good images whose window holds them see them too
    if line_ids and rng.random() < 0.5:
        extra = {}
        for k, (o, kd, g) in enumerate(spec['images']):
            if kd == 'good':
                inside = [sid for sid in line_ids
                          if 20 <= scene.position(sid)[0] - o[0] <= alignsim.FIELD - 20
                          and 20 <= scene.position(sid)[1] - o[1] <= alignsim.FIELD - 20]
                if inside:
                    extra[str(k)] = inside
        if extra:
            spec['extra'] = extra
    mk = draw_makers(rng, kinds)
    if mk:
        spec['makers'] = mk
    return spec


def degenerate_scenarios(ctx, scene, scene_seed, lines, pending):
    rng = ctx.rng
    # fixed grid first: both kinds x every position of a 3-image list x expand x enforce, reference table
    if not ctx.search_only:
        for kind in ('line', 'zerow'):
            for pos in (0, 1, 2):
                for expand, enforce in ((False, True), (True, True), (True, False)):
                    spec = None
                    for _ in range(20):
                        spec = gen_degenerate(rng, scene, kind=kind, pos=pos, n=3, refmode='table', expand=expand,
                                              enforce=enforce)
                        if spec is not None:
                            break
                    if spec is not None:
                        do_scenario(ctx, scene, scene_seed, spec, lines, pending, 'degenerate:' + kind)
    for _ in range(ctx.n(20, 220)):
        spec = gen_degenerate(rng, scene)
        if spec is None:
            continue
        add_ref_ids(rng, scene, spec)
        do_scenario(ctx, scene, scene_seed, spec, lines, pending, 'degenerate:' + spec['family_kind'])


# ---------------------------------------------------------------------------
# (B) argument validation: every single invalid argument and every pair, against `alignentry`
# ---------------------------------------------------------------------------
VALIDATION_KINDS = ('wcscatType', 'noCatalog', 'catalogNoXY', 'fitgeomNotString', 'badFitgeom', 'refNoCatalog',
                    'refNoRADEC', 'refcatType', 'emptyRefcat')
# slot -> modifications; a modification is (name, exception classes the code may raise because of it)
VALIDATION_MODS = {
    'W': [('not-iterable', ('TypeError',)), ('non-corrector-first', ('TypeError',)),
          ('non-corrector-last', ('TypeError',)), ('single-corrector', ())],
    'C': [('no-catalog@0', ('ValueError',)), ('no-catalog@1', ('ValueError',)), ('catalog-none@1', ('ValueError',)),
          ('no-xy@0', ('ValueError',)), ('no-xy@1', ('ValueError',))],
    'F': [('fitgeom-unknown', ('ValueError',)), ('fitgeom-not-string', ('AttributeError',)),
          ('fitgeom-unknown+minobj', ('KeyError',)), ('fitgeom-upper', ())],
    'R': [('ref-unsupported', ('TypeError',)), ('ref-corrector-no-catalog', ('ValueError',)),
          ('ref-table-no-radec', ('KeyError',)), ('ref-table-empty', ('ValueError',)),
          ('ref-corrector-empty', ('ValueError',)), ('ref-table-empty-no-radec', ('KeyError',)),
          ('ref-table', ())],
    'N': [('all-empty', ('NotEnoughCatalogs',)), ('one-empty', ('NotEnoughCatalogs',))],
}


def validation_case(ctx, scene, mods):
    """apply the modifications `mods` (list of (slot, name)) to a valid two-image call, run the real align_wcs
    and build the `alignentry` line of the same arguments"""
    from astropy.table import Table
    from tweakwcs import align_wcs, XYXYMatch, FITSWCSCorrector
    names = [m for _, m in mods]
    a, ida = scene.make_image(0, (0, 0), 'good', None, err=(0.7, -0.4))
    b, idb = scene.make_image(1, (400, 100), 'good', None, err=(-0.9, 1.1))
    correctors = [a, b]
    items = [[1, 'o', list(ida)], [1, 'o', list(idb)]]          # isCorrector, catalog, sources
    wkind = 'list'
    wcscat = [a, b]
    fitgeom, fg_tok, minobj = 'rscale', 'k2', None
    refcat, ref_tok = None, ['none']
    centre = alignsim.ref_sources(scene, 'centre')
    rd = scene.sky_of(centre)
    for nm in names:
        if nm in ('all-empty', 'one-empty'):
            for k, c in enumerate(correctors):
                if nm == 'all-empty' or k == 1:
                    c.meta['catalog'] = Table([np.zeros(0), np.zeros(0)], names=('x', 'y'))
                    items[k][2] = []
    for nm in names:
        if nm.startswith(('no-catalog@', 'catalog-none@', 'no-xy@')):
            k = int(nm.split('@')[1])
            if nm.startswith('no-catalog@'):
                correctors[k].meta.pop('catalog')
                items[k][1] = 'm'
            elif nm.startswith('catalog-none@'):
                correctors[k].meta['catalog'] = None
                items[k][1] = 'm'
            else:
                correctors[k].meta['catalog'] = Table([np.arange(3.0)], names=('flux',))
                items[k][1] = 'x'
    for nm in names:
        if nm == 'not-iterable':
            wcscat, wkind = 42, 'bad'
        elif nm == 'non-corrector-first':
            wcscat = ['not a corrector'] + wcscat
            items = [[0, 'o', []]] + items
        elif nm == 'non-corrector-last':
            wcscat = wcscat + [None]
            items = items + [[0, 'o', []]]
        elif nm == 'single-corrector':
            wcscat, wkind = correctors[0], 'single'
            items = items[:1]
        elif nm == 'fitgeom-unknown':
            fitgeom, fg_tok = 'bogus', 'u'
        elif nm == 'fitgeom-not-string':
            fitgeom, fg_tok = 7, 'n'
        elif nm == 'fitgeom-unknown+minobj':
            fitgeom, fg_tok, minobj = 'bogus', 'u', 2
        elif nm == 'fitgeom-upper':
            fitgeom = 'RScale'
        elif nm == 'ref-unsupported':
            refcat, ref_tok = {'RA': [1.0], 'DEC': [2.0]}, ['unsupported']
        elif nm == 'ref-corrector-no-catalog':
            refcat, ref_tok = FITSWCSCorrector(alignsim.mkwcs((1.0, 1.0), crval=scene.crval)), ['corr', '0', '0']
        elif nm == 'ref-corrector-empty':
            refcat = FITSWCSCorrector(alignsim.mkwcs((1.0, 1.0), crval=scene.crval),
                                      meta={'catalog': Table([np.zeros(0), np.zeros(0)], names=('x', 'y'))})
            ref_tok = ['corr', '1', '0']
        elif nm == 'ref-table-no-radec':
            refcat = Table([rd[:, 0], rd[:, 1]], names=('ra', 'dec'))
            ref_tok = ['table', '0', str(len(centre))] + [str(s_) for s_ in centre] + ['0']
        elif nm == 'ref-table-empty':
            refcat, ref_tok = Table([rd[:0, 0], rd[:0, 1]], names=('RA', 'DEC')), ['table', '1', '0', '0']
        elif nm == 'ref-table-empty-no-radec':
            refcat, ref_tok = Table([rd[:0, 0]], names=('u',)), ['table', '0', '0', '0']
        elif nm == 'ref-table':
            refcat = Table([rd[:, 0], rd[:, 1]], names=('RA', 'DEC'))
            ref_tok = ['table', '1', str(len(centre))] + [str(s_) for s_ in centre] + ['0']
    before = [alignsim.sky_grid(c) for c in correctors]
    with alignsim.observe(correctors) as obs:
        try:
            align_wcs(wcscat, refcat=refcat, fitgeom=fitgeom, minobj=minobj, enforce_user_order=True,
                      expand_refcat=False, match=XYXYMatch(searchrad=5, separation=0.5, tolerance=2.0))
            exc = None
        except Exception as e:   # noqa
            exc = (type(e).__name__, str(e)[:160])
    toks = ['alignentry', 'F', '0', '1', '-' if minobj is None else str(minobj), fg_tok, '0', 'W']
    if wkind == 'bad':
        toks.append('bad')
    elif wkind == 'single':
        toks += ['single', items[0][1], '-', '0', str(len(items[0][2]))] + [str(s_) for s_ in items[0][2]]
    else:
        toks += ['list', str(len(items))]
        for ic, cat, srcs in items:
            toks += [str(ic), cat, '-', '0', str(len(srcs))] + [str(s_) for s_ in srcs]
    toks += ['R'] + ref_tok + alignsim.area_tokens(obs, f2x)
    rec = {'exc': exc, 'ims': correctors, 'obs': obs,
           'status': [c.meta.get('fit_info', {}).get('status') if isinstance(c.meta.get('fit_info'), dict) else None
                      for c in correctors],
           'has_info': ['fit_info' in c.meta for c in correctors],
           'ncorr': [obs.corrections[id(c)] for c in correctors],
           'unchanged': [bool(np.array_equal(x, alignsim.sky_grid(c))) for x, c in zip(before, correctors)],
           'offset': 1 if 'non-corrector-first' in names else 0}
    return ' '.join(toks), rec


def validation_pairs():
    slots = sorted(VALIDATION_MODS)
    out = [[]]
    for sl in slots:
        for nm, _ in VALIDATION_MODS[sl]:
            out.append([(sl, nm)])
    for i, s1 in enumerate(slots):
        for s2 in slots[i + 1:]:
            for n1, _ in VALIDATION_MODS[s1]:
                for n2, _ in VALIDATION_MODS[s2]:
                    out.append([(s1, n1), (s2, n2)])
    # two bad catalogs in one list: the first in list order wins
    out += [[('C', 'no-catalog@0'), ('C', 'no-xy@1')], [('C', 'no-xy@0'), ('C', 'no-catalog@1')],
            [('C', 'no-xy@0'), ('C', 'catalog-none@1')]]
    return out


def validation_probes(ctx, scene, lines, pending):
    for mods in validation_pairs():
        names = [m for _, m in mods]
        if 'single-corrector' in names and any(m.endswith('@1') or m == 'one-empty' for m in names):
            continue     # there is no second corrector
        if 'not-iterable' in names and 'single-corrector' in names:
            continue
        case = {'op': 'alignentry', 'mods': names}
        line, rec = validation_case(ctx, scene, mods)
        ctx.case(case, nontrivial=bool(mods), branch='validation:%d-invalid:%s' % (
            len(mods), 'raised:' + rec['exc'][0] if rec['exc'] else 'returned'))
        # oracle: an exception must be one that one of the invalid arguments explains, and no WCS was modified
        allowed = set()
        for sl, nm in mods:
            if nm == 'one-empty' and 'ref-table' in names:
                continue     # one non-empty catalog is enough when a reference catalog is given
            allowed.update(dict(VALIDATION_MODS[sl])[nm])
        late = 'fitgeom-unknown+minobj' in names
        if rec['exc'] is None:
            if allowed:
                ctx.oracle_fail(case, {'what': 'invalid argument accepted', 'status': rec['status']})
        else:
            if rec['exc'][0] not in allowed and not (rec['exc'][0] == 'NotEnoughCatalogs' and
                                                     'single-corrector' in names):
                ctx.oracle_fail(case, {'what': 'invalid arguments raised an unexpected exception',
                                       'exception': rec['exc']})
            if any(rec['ncorr']) or not all(rec['unchanged']):
                ctx.oracle_fail(case, {'what': 'a WCS was modified although align_wcs raised on invalid arguments',
                                       'exception': rec['exc'], 'ncorr': rec['ncorr']})
            if late and rec['exc'][0] == 'KeyError':
                # observation (not a property violation: no WCS is modified): an unknown fitgeom passed with
                # an explicit minobj escapes validation and surfaces as a bare KeyError in align_to_ref
                ctx.branch('observation:unknown-fitgeom-with-minobj-raises-KeyError-after-statuses')
        lines.append(line)
        pending.append((case, rec, 'entry'))


def compare_entry(ctx, case, rec, out):
    m = alignsim.parse_model(out)

    def bad(w, **kw):
        d = {'op': 'alignentry', 'what': w, 'model': out[:300]}
        d.update(kw)
        ctx.disagree(case, d)
    if m is None:
        bad('unparsable model answer')
        return
    mk = None if m['head'] == 'ok' else m['head'][4:]
    if not alignsim.error_matches(mk, rec['exc']):
        bad('outcome: exception of the code against the error kind of the model', impl_exc=rec['exc'])
        return
    off = rec['offset']
    n = len(rec['ims'])
    mod_st = [m['status'].get(k + off, [None])[-1] for k in range(n)]
    real_st = [alignsim.STATUS_CODE.get(s_, None if s_ is None else 'F?') for s_ in rec['status']]
    if mod_st != real_st:
        bad('statuses written', impl=real_st, model_status=mod_st)
        return
    if [m['ncorr'].get(k + off, 0) for k in range(n)] != rec['ncorr']:
        bad('set_correction calls', impl=rec['ncorr'])
        return
    if mk in VALIDATION_KINDS and (any(rec['has_info']) or any(rec['ncorr']) or not all(rec['unchanged'])):
        bad('a validation error left something written or modified', impl=rec['status'])


# ---------------------------------------------------------------------------
# (C) fit_wcs on FITS and mock-JWST correctors, against `fitwcs`
# ---------------------------------------------------------------------------
FITWCS_INVALID = ['bad-fitgeom', 'fitgeom-not-string', 'length-mismatch', 'empty-ref', 'ref-no-radec', 'im-no-xy']
FITWCS_CLASS = {'bad-fitgeom': 'ValueError', 'fitgeom-not-string': 'AttributeError', 'length-mismatch': 'ValueError',
                'empty-ref': 'ValueError', 'ref-no-radec': 'KeyError', 'im-no-xy': 'ValueError'}


def fitwcs_plan():
    """(content kind, invalid modifications): every content kind valid, every single invalid modification and
    every pair"""
    plan = [(c, []) for c in ('ok', 'ok', 'few', 'exact', 'collinear', 'collinear-other-geom', 'zerow-im', 'zerow-ref')]
    plan += [('ok', [m]) for m in FITWCS_INVALID]
    plan += [('ok', [a, b]) for a, b in itertools.combinations(FITWCS_INVALID, 2)
             if not ({a, b} == {'bad-fitgeom', 'fitgeom-not-string'})]
    plan += [('collinear', ['bad-fitgeom']), ('few', ['length-mismatch']), ('zerow-im', ['ref-no-radec'])]
    return plan


def fitwcs_case(ctx, it, content, mods):
    from astropy.table import Table
    from tweakwcs import fit_wcs
    from .. import scenes
    rng = ctx.rng
    ckind = 'jwst' if it % 2 else 'fits'
    if ckind == 'jwst':
        c, info = scenes.mk_jwst(rng)
    else:
        c, info = scenes.mk_fits(rng, kind=rng.choice(['cd', 'pc']))
    nx, ny = scenes.image_size(c)
    fitgeom = rng.choice(['shift', 'rshift', 'rscale', 'general'])
    if content.startswith('collinear'):
        fitgeom = 'general' if content == 'collinear' else rng.choice(['shift', 'rshift', 'rscale'])
    fmin = FITMIN[fitgeom]
    flag = 0
    wim = wref = None
    if content == 'few':
        n = rng.randrange(0, fmin)
    elif content == 'exact':
        n = fmin
    elif content.startswith('collinear'):
        n = rng.choice([3, 4, 7])
    else:
        n = rng.randrange(fmin, 13)
    m = 60.0
    if content.startswith('collinear'):
        # exactly collinear in pixel coordinates; rows / columns only for the mock JWST pipelines (their detector
        # distortion is separable, so that rows and columns stay straight in the tangent plane)
        dirs = [(1.0, 0.0), (0.0, 1.0)] if ckind == 'jwst' else [(1.0, 0.0), (0.0, 1.0), (1.0, 1.0), (1.0, -1.0), (2.0, 1.0)]
        dx, dy = rng.choice(dirs)
        t = sorted(rng.sample(range(-6, 7), n))
        x = nx / 2.0 + np.array(t) * 31.0 * dx
        y = ny / 2.0 + np.array(t) * 31.0 * dy
        if content == 'collinear':
            flag = 1
    else:
        x = np.array([rng.uniform(m, nx - m) for _ in range(n)])
        y = np.array([rng.uniform(m, ny - m) for _ in range(n)])
    if content in ('zerow-im', 'zerow-ref') and n >= fmin:
        w = np.array([1.0] * rng.randrange(0, fmin) + [0.0] * n)[:n]
        if content == 'zerow-im':
            wim = w
        else:
            wref = w
        flag = 2
    ex, ey = rng.uniform(-0.8, 0.8), rng.uniform(-0.8, 0.8)
    if n:
        ra, dec = c.det_to_world(x + ex, y + ey)
    else:
        ra, dec = np.zeros(0), np.zeros(0)
    ref = Table({'RA': np.atleast_1d(ra).astype(float), 'DEC': np.atleast_1d(dec).astype(float)})
    im = Table({'x': x.astype(float), 'y': y.astype(float)})
    if wim is not None:
        im['weight'] = wim
    if wref is not None:
        ref['weight'] = wref
    fg_real, fg_tok, cat_tok, has_rd = fitgeom, 'k%d' % fmin, 'o', 1
    nref = n
    for md in mods:
        if md == 'bad-fitgeom':
            fg_real, fg_tok = 'affine', 'u'
        elif md == 'fitgeom-not-string':
            fg_real, fg_tok = None, 'n'
        elif md == 'length-mismatch':
            extra = Table({'RA': [float(np.mean(ra)) if n else 10.0], 'DEC': [float(np.mean(dec)) if n else 10.0]})
            if 'weight' in ref.colnames:
                extra['weight'] = [1.0]
            from astropy.table import vstack
            ref = vstack([ref, extra])
            nref = n + 1
        elif md == 'empty-ref':
            ref = ref[:0]
            nref = 0
        elif md == 'ref-no-radec':
            ref.rename_column('RA', 'ra')
            has_rd = 0
        elif md == 'im-no-xy':
            im.rename_column('x', 'col')
            cat_tok = 'x'
    if 'empty-ref' in mods:
        nref = 0
    grid_x = np.array([0.1 * nx, 0.5 * nx, 0.9 * nx])
    grid_y = np.array([0.2 * ny, 0.5 * ny, 0.8 * ny])
    before = np.array(c.det_to_world(grid_x, grid_y))
    had = 'fit_info' in c.meta
    ncorr = [0]
    orig = c.set_correction

    def counted(*a, **kw):
        ncorr[0] += 1
        return orig(*a, **kw)
    c.set_correction = counted
    try:
        try:
            ret = fit_wcs(ref, im, c, fitgeom=fg_real, nclip=rng.choice([None, 0, 3]), sigma=3.0)
            exc = None
        except Exception as e:   # noqa
            ret = None
            exc = (type(e).__name__, str(e)[:160])
    finally:
        try:
            del c.set_correction
        except AttributeError:
            pass
    after = np.array(c.det_to_world(grid_x, grid_y))
    fi = c.meta.get('fit_info')
    status = fi.get('status') if isinstance(fi, dict) else None
    case = {'op': 'fitwcs', 'corrector': ckind, 'content': content, 'mods': list(mods), 'fitgeom': fitgeom, 'n': n,
            'info': {k: info[k] for k in info if k in ('kind', 'crval', 'distortion_k', 'vacorr')}}
    ctx.case(case, nontrivial=True, branch='fitwcs:%s:%s:%s' % (ckind, content, '+'.join(mods) or 'valid'))
    ctx.branch('fitwcs-status:%s' % status)
    moved = not np.array_equal(before, after)

    def fail(what, **kw):
        d = {'what': what, 'status': status, 'exception': exc}
        d.update(kw)
        ctx.oracle_fail(case, d)
    # oracle (no model): the clauses of the property for a single image
    if exc is not None:
        if not mods and not (content == 'few' and n == 0):
            fail('fit_wcs raised on valid arguments')
        elif mods and exc[0] not in {FITWCS_CLASS[md] for md in mods} and not (n == 0 and exc[0] == 'ValueError'):
            fail('fit_wcs raised an exception that none of the invalid arguments explains')
        if moved or ncorr[0]:
            fail('the WCS was modified although fit_wcs raised', ncorr=ncorr[0])
    else:
        if mods:
            fail('invalid arguments accepted by fit_wcs')
        if ret is not c:
            fail('fit_wcs did not return the corrector it was given')
        if not (isinstance(status, str) and (status == 'SUCCESS' or status.startswith('FAILED: '))) \
                or status == 'FAILED: Unknown error':
            fail('fit_wcs returned without a final status')
        elif status == 'SUCCESS':
            if ncorr[0] != 1 or not moved:
                fail('SUCCESS but the WCS was not corrected exactly once', ncorr=ncorr[0], moved=moved)
            if n < fmin or flag:
                fail('SUCCESS reported for an input that cannot be fitted', n=n, minimum=fmin, degenerate=flag)
        elif ncorr[0] or moved:
            fail('the WCS of an image that is not SUCCESS was modified', ncorr=ncorr[0])
    line = ' '.join(['fitwcs', '1', fg_tok, cat_tok, '-', str(flag), str(n)] + [str(j + 1) for j in range(n)]
                    + [str(has_rd), str(nref)] + [str(j + 1) for j in range(nref)])
    return line, case, {'exc': exc, 'status': status, 'ncorr': ncorr[0], 'had': had}


def compare_fitwcs(ctx, case, rec, out):
    parts = [p_.split() for p_ in out.split('|')]

    def bad(w, **kw):
        d = {'op': 'fitwcs', 'what': w, 'model': out[:200]}
        d.update(kw)
        ctx.disagree(case, d)
    if len(parts) != 2 or not parts[0]:
        bad('unparsable model answer')
        return
    head = parts[0][0]
    mk = None if head == 'ok' else head[4:]
    if not alignsim.error_matches(mk, rec['exc']):
        bad('outcome: exception of the code against the error kind of the model', impl_exc=rec['exc'])
        return
    ev = parts[1][1:]
    st = [e[1:].split(':')[1] for e in ev if e[0] == 's']
    nc = sum(1 for e in ev if e[0] == 'c')
    real = alignsim.STATUS_CODE.get(rec['status'], None if rec['status'] is None else 'F?')
    if (st[-1] if st else None) != real:
        bad('status left in meta[fit_info]', impl=rec['status'], model_status=st)
        return
    if nc != rec['ncorr']:
        bad('set_correction calls', impl=rec['ncorr'], model_calls=nc)


def fitwcs_probes(ctx, lines, pending):
    plan = fitwcs_plan()
    reps = 2 if ctx.tier == 'quick' else 12
    it = 0
    for rep in range(reps * ctx.scale):
        for content, mods in plan:
            line, case, rec = fitwcs_case(ctx, it, content, mods)
            it += 1
            lines.append(line)
            pending.append((case, rec, 'fitwcs'))
        if ctx.search_only and rep >= 2:
            break


# ---------------------------------------------------------------------------
def do_scenario(ctx, scene, scene_seed, spec, lines, pending, family):
    spec = decanon(canon(spec))
    case = {'op': 'align', 'scene_seed': scene_seed, 'family': family, 'spec': canon(spec)}
    rec = alignsim.run_scenario(scene, spec, None)
    st = rec['status']
    gids = [g for _, _, g in spec['images']]
    nontrivial = len(expected_groups(gids)) >= 2 or rec['exc'] is not None or any(s != 'SUCCESS' for s in st)
    ctx.case(case, nontrivial=nontrivial,
             branch='align:%s:%s' % (family, 'exc:' + rec['exc'][0] if rec['exc'] else 'returned'))
    for s in st:
        ctx.branch('status:%s' % (s if s is None else s.split(':')[0] + (':' + s.split(': ')[1] if ': ' in s else '')))
    ctx.branch('opt:expand=%d,enforce=%d' % (spec['expand'], spec['enforce']))
    ctx.branch('opt:fitgeom=%s' % spec['fitgeom'])
    ctx.branch('opt:ref=%s' % (None if spec.get('ref') is None else spec['ref']['kind']))
    mkrs = [m for m in (spec.get('makers') or []) if m]
    ctx.branch('correctors:%s' % ('fits' if not mkrs else 'jwst'))
    oracle(ctx, case, rec)
    if rec['exc'] is None and alignsim.polluted(rec):
        # the uncorrected catalog of a FAILED zero-overlap group was appended (allowed by the
        # property); later images are matched against a mixture of two frames
        ctx.branch('excluded-from-correspondence:mixture-after-zero-overlap-expansion')
        return rec
    if alignsim.near_tie_areas(rec):
        ctx.near_tie()
        return rec
    minobj_eff = spec['minobj'] if spec['minobj'] is not None else FITMIN[spec['fitgeom']]
    lines.append(alignsim.model_line(rec, minobj_eff, f2x))
    pending.append((case, rec, 'align'))
    return rec


def regression_probes(ctx, lines, pending):
    """witnesses of repaired findings: must pass the oracle and agree with the model"""
    scene = alignsim.Scene(np.random.default_rng(12345))
    # F14 (fixed c94b56e): minobj below the minimum of the fit geometry, a group with exactly 2 matches
    for minobj in (1, 2):
        spec = decanon(dict(F14_WITNESS, minobj=minobj))
        rec = do_scenario(ctx, scene, 12345, spec, lines, pending, 'regression:F14')
        if rec['exc'] is None and any(s == 'SUCCESS' for s in rec['status']) and rec['obs'].nmatches[:1] == [2]:
            ctx.oracle_fail({'op': 'align', 'scene_seed': 12345, 'spec': canon(spec)},
                            {'what': 'a general fit was accepted with 2 matched sources'})
    # F16 (fixed 324ab0c): group whose empty-catalog member precedes the one with sources
    scene7 = alignsim.Scene(np.random.default_rng(7))
    do_scenario(ctx, scene7, 7, decanon(F16_WITNESS), lines, pending, 'regression:F16')


def run(ctx):
    rng = ctx.rng
    scene_seed = rng.getrandbits(32)
    scene = alignsim.Scene(np.random.default_rng(scene_seed))
    lines, pending = [], []
    if not ctx.search_only:
        regression_probes(ctx, lines, pending)
        invalid_argument_probes(ctx, scene)
        degenerate_fit_probes(ctx, 6 if ctx.tier == 'quick' else 60)
    # hand-built corpus (the scenarios of the design-phase experiment e8, finding F8)
    corpus = [
        (['good', 'empty'], [None, None]), (['empty', 'good'], [None, None]),
        (['good', 'empty', 'good'], [None, None, None]), (['good', 'junk', 'good'], [None, None, None]),
        (['good', 'junk', 'good'], [1, 1, 2]), (['good', 'empty', 'good'], [1, 1, 2]),
        (['empty', 'empty', 'good'], [1, 1, 2]), (['good', 'good'], [1, 1]), (['good'], [None]),
        (['empty'], [None]), (['junk', 'good', 'good'], [None, None, None]),
    ]
    ncorpus = 0
    for kinds, gids in corpus:
        for ref in (None, {'kind': 'table', 'region': 'centre', 'ids': None}):
            for expand, enforce in ((False, True), (True, False)):
                origins = [(0, 0), (1100, 0), (400, 100)][:len(kinds)]
                e3 = [(0.8, -0.6), (-1.1, 0.4), (0.3, 1.2)]
                errs = [e3[k] if g is None else e3[g] for k, g in enumerate(gids)]
                spec = {'images': list(zip(origins, kinds, gids)), 'errs': errs,
                        'ref': ref, 'expand': expand, 'enforce': enforce, 'minobj': None, 'fitgeom': 'rscale',
                        'match': True}
                if any(g is not None for g in gids):
                    # falsy but legitimate labels: group 1 -> 0, group 2 -> '' (pool indices 0, 1)
                    spec['labels'] = {'1': 0, '2': 1} if expand else {'1': 1, '2': 7}
                ncorpus += 1
                if ncorpus % 2 == 0 and 'junk' not in kinds:
                    spec['makers'] = ['jwst'] * len(kinds)
                do_scenario(ctx, scene, scene_seed, spec, lines, pending, 'corpus')
    # fields that do not overlap at all (every pairwise overlap is 0, the arg-max of the overlap matrix is on the
    # diagonal): the first group is the reference all the same, and nothing else is REFERENCE
    for origins in ([(0, 0), (1100, 0), (0, 1100)], [(0, 0), (1100, 0), (0, 1100), (1100, 1100)]):
        for expand, enforce in ((True, False), (True, True), (False, False)):
            spec = {'images': [(o, 'good', None) for o in origins],
                    'errs': [(0.8, -0.6), (-1.1, 0.4), (0.3, 1.2), (-0.5, -0.7)][:len(origins)], 'ref': None,
                    'expand': expand, 'enforce': enforce, 'minobj': None, 'fitgeom': 'rscale', 'match': True}
            do_scenario(ctx, scene, scene_seed, spec, lines, pending, 'corpus:disjoint-fields')
    # exactly at the threshold: nmatches == minobj must succeed, nmatches == minobj - 1 must fail
    centre = alignsim.ref_sources(scene, 'centre')
    for fitgeom, nsrc in (('shift', 1), ('rscale', 2), ('rscale', 1), ('general', 3), ('general', 2),
                          ('rshift', 2)):
        for minobj in (None, nsrc, nsrc + 1):
            spec = {'images': [((0, 0), 'good', None), ((400, 100), 'good', None)],
                    'errs': [(0.8, -0.6), (-1.1, 0.4)],
                    'ref': {'kind': 'table', 'sources': centre[40:40 + nsrc], 'region': None, 'ids': None},
                    'expand': False, 'enforce': True, 'minobj': minobj, 'fitgeom': fitgeom, 'match': True}
            do_scenario(ctx, scene, scene_seed, spec, lines, pending, 'threshold')
    # random scenarios over the option matrix
    for _ in range(ctx.n(70, 500)):
        spec = gen_spec(rng)
        if spec is None:
            continue
        add_ref_ids(rng, scene, spec)
        do_scenario(ctx, scene, scene_seed, spec, lines, pending, 'random')
    for _ in range(ctx.n(12, 80)):
        do_scenario(ctx, scene, scene_seed, gen_spec_nomatch(rng, scene), lines, pending, 'match=None')
    if ctx.tier == 'thorough' and not ctx.search_only:
        # every assignment of group ids from {None, 1, 2} to up to 4 images
        for n in (1, 2, 3, 4):
            for gids in itertools.product([None, 1, 2], repeat=n):
                spec = gen_spec(rng, n=n, gids=list(gids))
                if spec is None:
                    continue
                do_scenario(ctx, scene, scene_seed, spec, lines, pending, 'all-gids')
    degenerate_scenarios(ctx, scene, scene_seed, lines, pending)
    if not ctx.search_only:
        validation_probes(ctx, scene, lines, pending)
    fitwcs_probes(ctx, lines, pending)
    compare_all(ctx, lines, pending)


def compare_all(ctx, lines, pending):
    outs = ctx.driver(lines)
    for out, (case, rec, op) in zip(outs, pending):
        if op == 'entry':
            compare_entry(ctx, case, rec, out)
        elif op == 'fitwcs':
            compare_fitwcs(ctx, case, rec, out)
        else:
            alignsim.compare_with_model(ctx, case, rec, out)


def replay(ctx, payload):
    fi = payload.get('failing_input') or (payload.get('correspondence') or [None])[0]
    if not fi:
        print('nothing to replay: %s' % payload.get('broken'))
        return 1
    case = fi['case']
    if case.get('op') == 'invalid-argument':
        invalid_argument_probes(ctx, alignsim.Scene(np.random.default_rng(1)))
    elif case.get('op') == 'alignentry':
        lines, pending = [], []
        validation_probes(ctx, alignsim.Scene(np.random.default_rng(1)), lines, pending)
        compare_all(ctx, lines, pending)
    elif case.get('op') in ('fitwcs', 'degenerate-fit'):
        # these cases are a deterministic function of (seed, tier): repeat the recorded run
        ctx2 = type(ctx)(ctx.pid, payload.get('tier', ctx.tier), int(payload.get('seed', ctx.seed)))
        run(ctx2)
        ctx.oracle_failures, ctx.disagreements = ctx2.oracle_failures, ctx2.disagreements
    else:
        scene = alignsim.Scene(np.random.default_rng(case['scene_seed']))
        lines, pending = [], []
        do_scenario(ctx, scene, case['scene_seed'], decanon(case['spec']), lines, pending, 'replay')
        compare_all(ctx, lines, pending)
    bad = ctx.oracle_failures + ctx.disagreements
    for b in bad:
        print('STILL FAILS:', b['detail'])
    return 1 if bad else 0
